(** C04 / C17: the hasher of Model/Blake.v feeds the compressor exactly the
    specified (block, counter) sequence: message blocks with the running bit
    count, then the padded final block(s) with the specified counters
    (0 for a padding-only block). The bit counter [t] is exact at its real
    word width, including the manual carry. *)
From Coq Require Import NArith ZArith List Lia Arith Bool ZifyBool ZifyN.
From CC Require Import Lib.Words Lib.Bytes Lib.ListX Model.BlockBuffer Model.Blake.
From CC Require Spec.Blake.
From CC Require Import Proofs.BlakeBuffer.
Import ListNotations.
Ltac Zify.zify_post_hook ::= Z.div_mod_to_equations.
Module S := Spec.Blake.

(** * byte strings of numbers *)
Lemma le_split_app a b x :
  le_split (a + b) x = le_split a x ++ le_split b (N.shiftr x (8 * N.of_nat a)).
Proof.
  revert x; induction a as [|a IH]; intros x.
  - cbn [plus le_split app]. now rewrite N.shiftr_0_r.
  - cbn [plus le_split app]. rewrite IH. rewrite N.shiftr_shiftr.
    do 4 f_equal. lia.
Qed.

Lemma le_split_mod a x : le_split a (x mod 2 ^ (8 * N.of_nat a)) = le_split a x.
Proof.
  revert x; induction a as [|a IH]; intros x; [reflexivity|].
  cbn [le_split]. rewrite !land_255, !shiftr_8.
  replace (8 * N.of_nat (S a))%N with (8 + 8 * N.of_nat a)%N by lia.
  rewrite N.pow_add_r. change (2 ^ 8)%N with 256%N.
  pose proof (pow2_nz (8 * N.of_nat a)) as Hc.
  rewrite (N.mod_mul_r x 256) by (auto; lia).
  rewrite <- (IH (x / 256)%N).
  generalize (((x / 256) mod 2 ^ (8 * N.of_nat a))%N). intros q.
  f_equal; [lia|]. f_equal. lia.
Qed.

Lemma be_split_pair wb w lo_hi :
  w = (8 * N.of_nat wb)%N ->
  be_split wb ((lo_hi / 2 ^ w) mod 2 ^ w) ++ be_split wb (lo_hi mod 2 ^ w) = be_split (wb + wb) lo_hi.
Proof.
  intros ->. unfold be_split. rewrite le_split_app, rev_app_distr, !le_split_mod.
  now rewrite N.shiftr_div_pow2.
Qed.

(** * lists *)
Lemma firstn_repeat {A} (x : A) n m : n <= m -> firstn n (repeat x m) = repeat x n.
Proof.
  revert m; induction n as [|n IH]; intros m H; [reflexivity|].
  destruct m as [|m]; [lia|]. cbn [repeat firstn]. f_equal. apply IH. lia.
Qed.

Lemma map_const {A B} (f : A -> B) c l : (forall x, In x l -> f x = c) -> map f l = repeat c (length l).
Proof.
  induction l as [|x l IH]; intros H; [reflexivity|]. cbn [map length repeat].
  rewrite H by now left. f_equal. apply IH. intros y Hy. apply H. now right.
Qed.

(** [n] full message blocks from block index [k] on, with the running bit count *)
Section FullSched.
  Variable wb : nat.
  Local Notation bs := (16 * wb).
  Fixpoint full_sched (k : N) (n : nat) (L : list N) : list (list N * N) :=
    match n with
    | O => []
    | S n' => (firstn (16 * wb) L, (8 * N.of_nat (16 * wb) * (k + 1))%N) :: full_sched (k + 1) n' (skipn (16 * wb) L)
    end.

  Lemma full_sched_app a : forall k b L,
    full_sched k (a + b) L = full_sched k a L ++ full_sched (k + N.of_nat a) b (skipn (bs * a) L).
  Proof.
    induction a as [|a IH]; intros k b L.
    - cbn [plus full_sched app]. rewrite Nat.mul_0_r. cbn [skipn]. f_equal. lia.
    - cbn [plus full_sched app]. f_equal. rewrite IH. f_equal.
      rewrite skipn_skipn'. f_equal; [lia|]. f_equal. lia.
  Qed.

  Lemma full_sched_prefix a : forall k L d, bs * a <= length L ->
    full_sched k a (L ++ d) = full_sched k a L.
  Proof.
    induction a as [|a IH]; intros k L d H; [reflexivity|].
    cbn [full_sched].
    rewrite firstn_app, skipn_app.
    replace (bs - length L) with 0 by lia. cbn [firstn skipn]. rewrite app_nil_r.
    f_equal. apply IH. rewrite skipn_length. lia.
  Qed.

End FullSched.

  (** the padding bytes: 0x80, zeros, marker in the last one *)
  Lemma pad_explicit (v : S.variant) p : 2 <= p ->
    map (S.pad_byte v p) (seq 0 p) = 0x80%N :: repeat 0%N (p - 2) ++ [S.marker v].
  Proof.
    intros Hp. replace p with (1 + ((p - 2) + 1)) at 2 by lia.
    rewrite seq_app, seq_app, !map_app. cbn [seq map app plus].
    change (S.pad_byte v p 0 :: map (S.pad_byte v p) (seq 1 (p - 2)) ++ [S.pad_byte v p (S (p - 2))] =
            0x80%N :: repeat 0%N (p - 2) ++ [S.marker v]).
    assert (E0 : S.pad_byte v p 0 = 0x80%N).
    { unfold S.pad_byte.
      replace (Nat.eqb 0 (p - 1)) with false by (symmetry; apply Nat.eqb_neq; lia). reflexivity. }
    rewrite E0. f_equal. f_equal.
    - rewrite (map_const _ 0%N); [now rewrite seq_length|].
      intros i Hi. apply in_seq in Hi. unfold S.pad_byte.
      replace (Nat.eqb i 0) with false by (symmetry; apply Nat.eqb_neq; lia).
      replace (Nat.eqb i (p - 1)) with false by (symmetry; apply Nat.eqb_neq; lia).
      reflexivity.
    - unfold S.pad_byte.
      replace (Nat.eqb (S (p - 2)) 0) with false by reflexivity.
      replace (Nat.eqb (S (p - 2)) (p - 1)) with true by (symmetry; apply Nat.eqb_eq; lia).
      reflexivity.
  Qed.

  Lemma pad_explicit_1 (v : S.variant) : map (S.pad_byte v 1) (seq 0 1) = [(0x80 + S.marker v)%N].
  Proof. reflexivity. Qed.

(** * The specified schedule, unfolded *)
Section Sched.
  Variable v : S.variant.
  Variables (w : N) (wb : nat) (isfull : bool).
  Hypothesis Hcase : (w = 32%N /\ wb = 4) \/ (w = 64%N /\ wb = 8).
  Hypothesis Hw : S.wbits v = w.
  Hypothesis Hwb : S.wbytes v = wb.
  Hypothesis Hmk : S.marker v = (if isfull then 1 else 0)%N.

  Local Notation bs := (16 * wb).
  Local Notation bsN := (N.of_nat (16 * wb)).

  Lemma bs_pos : 0 < bs.
  Proof. destruct Hcase as [[_ ->]|[_ ->]]; lia. Qed.

  Lemma block_bytes_v : S.block_bytes v = bs.
  Proof. unfold S.block_bytes. now rewrite Hwb. Qed.
  Lemma block_N_v : S.block_N v = bsN.
  Proof. unfold S.block_N. now rewrite block_bytes_v. Qed.
  Lemma len_bytes_v : S.len_bytes v = wb + wb.
  Proof. unfold S.len_bytes. rewrite Hwb. lia. Qed.

  (** one message block in front *)
  Lemma sched_cons k blk rest :
    length blk = bs ->
    S.schedule_from v k (blk ++ rest) =
      (blk, S.counter v (k * bsN + N.of_nat (bs + length rest)) k) :: S.schedule_from v (k + 1) rest.
  Proof.
    intros Hb. unfold S.schedule_from.
    rewrite block_N_v, block_bytes_v.
    replace (k * bsN + N.of_nat (length (blk ++ rest)))%N
      with (k * bsN + N.of_nat (bs + length rest))%N by (rewrite app_length, Hb; reflexivity).
    replace ((k + 1) * bsN + N.of_nat (length rest))%N
      with (k * bsN + N.of_nat (bs + length rest))%N by lia.
    set (len := (k * bsN + N.of_nat (bs + length rest))%N).
    rewrite <- app_assoc. set (data := rest ++ S.pad_bytes v len).
    rewrite app_length, Hb, (div_add_block bs _ bs_pos).
    cbn [seq map]. f_equal.
    - f_equal; [|f_equal; lia].
      unfold S.block_i. rewrite block_bytes_v, Nat.mul_0_r. cbn [skipn].
      now apply firstn_exact'.
    - rewrite <- seq_shift, map_map. apply map_ext. intros i. f_equal; [|f_equal; lia].
      unfold S.block_i. rewrite block_bytes_v.
      replace (bs * S i) with (bs + bs * i) by lia.
      rewrite <- skipn_skipn', skipn_exact' by (symmetry; exact Hb). reflexivity.
  Qed.

  Lemma counter_full len i : (bsN * (i + 1) <= len)%N -> S.counter v len i = (8 * bsN * (i + 1))%N.
  Proof.
    intros H. unfold S.counter. rewrite block_N_v.
    assert (0 < bsN)%N by (pose proof bs_pos; lia).
    destruct (N.ltb_spec (bsN * i) len); lia.
  Qed.

  (** the first [n] full blocks of the remaining message *)
  Lemma sched_split n : forall k L, bs * n <= length L ->
    S.schedule_from v k L =
      full_sched wb k n L ++ S.schedule_from v (k + N.of_nat n) (skipn (bs * n) L).
  Proof.
    induction n as [|n IH]; intros k L H.
    - rewrite Nat.mul_0_r. cbn [skipn full_sched app]. f_equal. lia.
    - rewrite <- (firstn_skipn bs L) at 1.
      assert (Hf : length (firstn bs L) = bs) by (rewrite firstn_length; lia).
      rewrite sched_cons by exact Hf. cbn [full_sched app]. f_equal.
      + f_equal. rewrite counter_full; [reflexivity|]. rewrite skipn_length. lia.
      + rewrite (IH (k + 1)%N (skipn bs L)) by (rewrite skipn_length; lia).
        f_equal. rewrite skipn_skipn'. f_equal; [lia|]. f_equal. lia.
  Qed.

  Lemma pad_count_v len :
    S.pad_count v len = N.to_nat (bsN - (len + N.of_nat (wb + wb)) mod bsN).
  Proof. unfold S.pad_count. now rewrite block_N_v, len_bytes_v. Qed.

  Lemma be_split_length n x : length (be_split n x) = n.
  Proof. unfold be_split. now rewrite rev_length, le_split_length. Qed.

  (** final block(s): the header fits behind the message bytes *)
  Lemma sched_final_one k rest :
    length rest + 1 + (wb + wb) <= bs ->
    S.schedule_from v k rest =
      [(rest ++ map (S.pad_byte v (bs - length rest - (wb + wb))) (seq 0 (bs - length rest - (wb + wb)))
             ++ be_split (wb + wb) (8 * (k * bsN + N.of_nat (length rest))),
        if Nat.eqb (length rest) 0 then 0%N else (8 * (k * bsN + N.of_nat (length rest)))%N)].
  Proof.
    intros H. unfold S.schedule_from. rewrite block_N_v, block_bytes_v.
    set (len := (k * bsN + N.of_nat (length rest))%N).
    unfold S.pad_bytes. rewrite len_bytes_v, pad_count_v.
    assert (Ep : N.to_nat (bsN - (len + N.of_nat (wb + wb)) mod bsN) = bs - length rest - (wb + wb)).
    { unfold len. destruct Hcase as [[_ ->]|[_ ->]]; lia. }
    rewrite Ep. set (p := bs - length rest - (wb + wb)).
    set (data := rest ++ _).
    assert (Hd : length data = bs).
    { unfold data. rewrite !app_length, map_length, seq_length, be_split_length. unfold p. lia. }
    rewrite Hd, Nat.div_same by (pose proof bs_pos; lia). cbn [seq map]. f_equal. f_equal.
    - unfold S.block_i. rewrite block_bytes_v, Nat.mul_0_r. cbn [skipn]. apply firstn_all2. lia.
    - unfold S.counter. rewrite block_N_v, N.add_0_r.
      destruct (Nat.eqb_spec (length rest) 0) as [E|E];
        destruct (N.ltb_spec (bsN * k) len); unfold len in *; lia.
  Qed.

  (** the header does not fit: pad to the end of the block, then a padding-only block *)
  Lemma sched_final_two k rest :
    bs < length rest + 1 + (wb + wb) -> length rest < bs ->
    S.schedule_from v k rest =
      [(rest ++ 0x80%N :: repeat 0%N (bs - length rest - 1), (8 * (k * bsN + N.of_nat (length rest)))%N);
       (repeat 0%N (bs - (wb + wb) - 1) ++ [S.marker v]
          ++ be_split (wb + wb) (8 * (k * bsN + N.of_nat (length rest))), 0%N)].
  Proof.
    intros H H'. unfold S.schedule_from. rewrite block_N_v, block_bytes_v.
    set (len := (k * bsN + N.of_nat (length rest))%N).
    unfold S.pad_bytes. rewrite len_bytes_v, pad_count_v.
    assert (Ep : N.to_nat (bsN - (len + N.of_nat (wb + wb)) mod bsN) = 2 + ((bs - length rest - 1) + (bs - (wb + wb) - 1))).
    { unfold len. destruct Hcase as [[_ ->]|[_ ->]]; lia. }
    rewrite Ep. rewrite pad_explicit by lia.
    replace (2 + (bs - length rest - 1 + (bs - (wb + wb) - 1)) - 2)
      with ((bs - length rest - 1) + (bs - (wb + wb) - 1)) by lia.
    rewrite repeat_app.
    set (B1 := rest ++ 0x80%N :: repeat 0%N (bs - length rest - 1)).
    set (B2 := repeat 0%N (bs - (wb + wb) - 1) ++ [S.marker v] ++ be_split (wb + wb) (8 * len)).
    assert (Ed : rest ++ (0x80%N :: (repeat 0%N (bs - length rest - 1) ++ repeat 0%N (bs - (wb + wb) - 1)) ++ [S.marker v])
                   ++ be_split (wb + wb) (8 * len) = B1 ++ B2).
    { unfold B1, B2. cbn [app]. rewrite <- ?app_assoc. cbn [app]. rewrite <- ?app_assoc. reflexivity. }
    rewrite Ed.
    assert (H1 : length B1 = bs).
    { unfold B1. rewrite app_length. cbn [length]. rewrite repeat_length. lia. }
    assert (H2 : length B2 = bs).
    { unfold B2. rewrite !app_length, repeat_length, be_split_length. cbn [length]. lia. }
    rewrite app_length, H1, H2.
    replace (bs + bs) with (2 * bs) by lia. rewrite Nat.div_mul by (pose proof bs_pos; lia).
    cbn [seq map]. f_equal; [|f_equal]; f_equal.
    - unfold S.block_i. rewrite block_bytes_v, Nat.mul_0_r. cbn [skipn]. now apply firstn_exact'.
    - unfold S.counter. rewrite block_N_v, N.add_0_r.
      destruct (N.ltb_spec (bsN * k) len); unfold len in *; lia.
    - unfold S.block_i. rewrite block_bytes_v, Nat.mul_1_r.
      rewrite skipn_exact' by (symmetry; exact H1). apply firstn_all2. lia.
    - unfold S.counter. rewrite block_N_v.
      destruct (N.ltb_spec (bsN * (k + N.of_nat 1)) len); unfold len in *; lia.
  Qed.
End Sched.

(** * The hasher *)
Section HasherProof.
  Variable v : S.variant.
  Variables (w : N) (wb : nat) (isfull : bool).
  Hypothesis Hcase : (w = 32%N /\ wb = 4) \/ (w = 64%N /\ wb = 8).
  Hypothesis Hw : S.wbits v = w.
  Hypothesis Hwb : S.wbytes v = wb.
  Hypothesis Hmk : S.marker v = (if isfull then 1 else 0)%N.
  Variable H : Type.
  Variable put : H -> list N -> N * N -> H.

  Local Notation bs := (16 * wb).
  Local Notation bsN := (N.of_nat (16 * wb)).

  (** a bit count as the pair (t.0, t.1) of [w]-bit words *)
  Definition tpair (T : N) : N * N := ((T mod 2 ^ w)%N, ((T / 2 ^ w) mod 2 ^ w)%N).
  Definition putf (c : H) (bt : list N * N) : H := put c (fst bt) (tpair (snd bt)).

  Lemma tpair_spec T : tpair T = (S.t_lo v T, S.t_hi v T).
  Proof. unfold tpair, S.t_lo, S.t_hi. now rewrite Hw. Qed.

  Lemma tpair_0 : tpair 0 = (0%N, 0%N).
  Proof. unfold tpair. rewrite N.div_0_l, !N.mod_0_l by apply pow2_nz. reflexivity. Qed.

  (** [increase_count] adds exactly [8 * count] to the two-word counter (manual carry) *)
  Lemma increase_count_tpair T c :
    (8 * c < 2 ^ 32)%N -> increase_count w (tpair T) c = tpair (T + 8 * c).
  Proof.
    intros Hc. unfold increase_count, tpair, addw. cbn [fst snd].
    rewrite !wrap_mod, shiftl_1.
    destruct Hcase as [[-> _]|[-> _]].
    - change (2 ^ 32)%N with 4294967296%N in *.
      match goal with |- context [N.leb ?a ?b] => destruct (N.leb_spec a b) end; f_equal; lia.
    - change (2 ^ 32)%N with 4294967296%N in *. change (2 ^ 64)%N with 18446744073709551616%N in *.
      match goal with |- context [N.leb ?a ?b] => destruct (N.leb_spec a b) end; f_equal; lia.
  Qed.

  Definition step (ct : H * (N * N)) (blk : list N) : H * (N * N) :=
    let t' := increase_count w (snd ct) (N.of_nat (wb * 16)) in (put (fst ct) blk t', t').

  Lemma update_fold n : forall k L c,
    fold_left step (take_blocks bs n L) (c, tpair (8 * bsN * k)) =
      (fold_left putf (full_sched wb k n L) c, tpair (8 * bsN * (k + N.of_nat n))).
  Proof.
    induction n as [|n IH]; intros k L c.
    - cbn [take_blocks full_sched fold_left]. do 2 f_equal. lia.
    - cbn [take_blocks full_sched fold_left]. unfold step at 2. cbn [fst snd].
      rewrite increase_count_tpair by (destruct Hcase as [[_ ->]|[_ ->]]; cbn; lia).
      replace (8 * bsN * k + 8 * N.of_nat (wb * 16))%N with (8 * bsN * (k + 1))%N by lia.
      rewrite IH. unfold putf at 2. cbn [fst snd]. do 2 f_equal. lia.
  Qed.

  (** state of the hasher after absorbing [m] (in any number of [update] calls) *)
  Definition Inv (c0 : H) (s : hasher H) (m : list N) : Prop :=
    compressor H s = fold_left putf (full_sched wb 0 (length m / bs) m) c0
    /\ t H s = tpair (8 * bsN * N.of_nat (length m / bs))
    /\ wfb bs (buffer H s)
    /\ content (buffer H s) = skipn (bs * (length m / bs)) m.

  Lemma bs_pos' : 0 < bs.
  Proof. destruct Hcase as [[_ ->]|[_ ->]]; lia. Qed.

  Lemma inv_new c0 : Inv c0 (new H wb c0) [].
  Proof.
    unfold Inv, new, bufsz. cbn [compressor t buffer length].
    rewrite Nat.div_0_l by (pose proof bs_pos'; lia).
    destruct (wfb_new bs bs_pos') as [W C].
    cbn [full_sched fold_left]. rewrite N.mul_0_r, tpair_0. repeat split; try apply W. rewrite C. now rewrite skipn_nil.
  Qed.

  Lemma update_unfold s d :
    update H put w wb s d =
    (let '(b, blocks) := input_block (buffer H s) d in
     let '(c, t') := fold_left step blocks (compressor H s, t H s) in Hasher H c b t').
  Proof. reflexivity. Qed.

  Lemma inv_update c0 s m d : Inv c0 s m -> Inv c0 (update H put w wb s d) (m ++ d).
  Proof.
    intros (Hc & Ht & W & C). rewrite update_unfold.
    destruct s as [c b t0]. cbn [compressor buffer t] in *.
    destruct (input_block_spec bs b d W) as (b' & E & W' & C'). rewrite E, Ht, update_fold.
    pose proof bs_pos' as Hbs.
    set (k := length m / bs) in *. set (L := content b ++ d) in *. set (n := length L / bs) in *.
    assert (Hk : bs * k <= length m).
    { unfold k. pose proof (Nat.div_mod (length m) bs). lia. }
    assert (F2 : skipn (bs * k) (m ++ d) = L).
    { unfold L. rewrite C, skipn_app. replace (bs * k - length m) with 0 by lia. reflexivity. }
    assert (F1 : length (m ++ d) / bs = k + n).
    { unfold n. rewrite <- F2, skipn_length.
      replace (length (m ++ d)) with (k * bs + (length (m ++ d) - bs * k)) at 1
        by (rewrite app_length; lia).
      rewrite Nat.div_add_l by lia. reflexivity. }
    unfold Inv. cbn [compressor buffer t]. rewrite F1. repeat split.
    - rewrite Hc, full_sched_app, fold_left_app, full_sched_prefix by exact Hk.
      rewrite N.add_0_l, F2. reflexivity.
    - f_equal. lia.
    - apply W'.
    - apply W'.
    - rewrite C', <- F2, skipn_skipn'. f_equal. lia.
  Qed.

  Lemma PADDING_length : length PADDING = 129.
  Proof. reflexivity. Qed.

  Lemma slice_length l s e : e <= length l -> length (slice l s e) = e - s.
  Proof. intros Hl. unfold slice. rewrite firstn_length, skipn_length. lia. Qed.

  Lemma firstn_PADDING n : 1 <= n <= 129 -> firstn n PADDING = 0x80%N :: repeat 0%N (n - 1).
  Proof.
    intros Hn. unfold PADDING. destruct n as [|n]; [lia|]. cbn [firstn].
    rewrite firstn_repeat by lia. do 2 f_equal. lia.
  Qed.

  Lemma slice_PADDING_1 n : n <= 128 -> slice PADDING 1 (1 + n) = repeat 0%N n.
  Proof.
    intros Hn. unfold slice, PADDING. cbn [skipn].
    replace (1 + n - 1) with n by lia. now apply firstn_repeat.
  Qed.

  Lemma finalize_inv c0 s m :
    Inv c0 s m ->
    finalize H put w wb isfull s =
      Some (fold_left putf (S.schedule_from v (N.of_nat (length m / bs)) (skipn (bs * (length m / bs)) m))
                      (compressor H s)).
  Proof.
    intros (Hc & Ht & W & C). destruct s as [c b t0]. cbn [compressor buffer t] in *.
    set (k := length m / bs) in *. set (rest := skipn (bs * k) m) in *.
    assert (Hpos : bb_pos b = length rest) by (rewrite <- C; symmetry; apply (content_length bs); exact W).
    assert (Hlt : length rest < bs) by (destruct W; lia).
    assert (Hwb8 : 0 < wb <= 8) by (destruct Hcase as [[_ ->]|[_ ->]]; lia).
    unfold finalize. cbn [compressor buffer t]. rewrite Ht.
    rewrite increase_count_tpair by lia.
    replace (8 * bsN * N.of_nat k + 8 * N.of_nat (bb_pos b))%N
      with (8 * (N.of_nat k * bsN + N.of_nat (length rest)))%N by lia.
    set (len := (N.of_nat k * bsN + N.of_nat (length rest))%N).
    cbv zeta. unfold bufsz. rewrite !Hpos.
    replace (be_split wb (snd (tpair (8 * len))) ++ be_split wb (fst (tpair (8 * len))))
      with (be_split (wb + wb) (8 * len))
      by (unfold tpair; cbn [fst snd]; symmetry; apply be_split_pair; lia).
    assert (HP := PADDING_length).
    assert (Emk : forall x : bool, N.lor (if isfull then 1%N else 0%N) (if x then 0%N else 128%N)
                    = if x then S.marker v else (0x80 + S.marker v)%N).
    { intros x. rewrite Hmk. destruct isfull, x; reflexivity. }
    destruct (Nat.ltb_spec bs (length rest + (1 + 2 * wb))) as [Hx|Hx].
    - (* the header does not fit *)
      destruct (input_block_fill bs b (firstn (bs - length rest) PADDING) W) as (b1 & E1 & W1 & C1 & P1).
      { rewrite firstn_length, HP. lia. }
      rewrite E1. cbv beta iota. cbn [fold_left]. rewrite P1.
      change (Nat.eqb 0 0) with true. cbv beta iota.
      rewrite Nat.sub_0_r, slice_PADDING_1 by lia.
      destruct (input_block_small bs b1 (repeat 0%N (bs - (1 + 2 * wb))) W1) as (b2 & E2 & W2 & C2 & P2).
      { rewrite P1, repeat_length. lia. }
      rewrite E2. cbv beta iota.
      match goal with |- context [input_block b2 ?i] =>
        destruct (input_block_small bs b2 i W2) as (b3 & E3 & W3 & C3 & P3) end.
      { cbn [length]. rewrite P2, P1, repeat_length. lia. }
      rewrite E3. cbv beta iota.
      destruct (input_block_fill bs b3 (be_split (wb + wb) (8 * len)) W3) as (b4 & E4 & W4 & C4 & P4).
      { rewrite be_split_length, P3, P2, P1, repeat_length. cbn [length]. lia. }
      rewrite E4. cbv beta iota. rewrite P4. change (Nat.eqb 0 0) with true. cbn [andb fold_left].
      rewrite (sched_final_two v w wb isfull Hcase Hw Hwb) by lia.
      cbn [fold_left]. unfold putf. cbn [fst snd]. rewrite tpair_0. fold len. f_equal. f_equal.
      + f_equal. rewrite C, firstn_PADDING by lia. reflexivity.
      + rewrite C3, C2, C1. cbn [app].
        replace (Nat.eqb (length rest + (1 + 2 * wb)) bs) with false by (symmetry; apply Nat.eqb_neq; lia).
        cbn [negb]. rewrite (Emk true). rewrite <- !app_assoc.
        replace (bs - (1 + 2 * wb)) with (bs - (wb + wb) - 1) by lia. reflexivity.
    - (* the header fits *)
      cbv beta iota. rewrite Hpos.
      assert (Esl : forall q, slice PADDING 0 (0 + q) = firstn q PADDING).
      { intros q. unfold slice. cbn [skipn plus]. now rewrite Nat.sub_0_r. }
      rewrite Esl. set (q := bs - (1 + 2 * wb) - length rest).
      destruct (input_block_small bs b (firstn q PADDING) W) as (b1 & E1 & W1 & C1 & P1).
      { rewrite firstn_length, HP. unfold q. lia. }
      assert (Lq : length (firstn q PADDING) = q) by (rewrite firstn_length, HP; unfold q; lia).
      rewrite E1. cbv beta iota.
      match goal with |- context [input_block b1 ?i] =>
        destruct (input_block_small bs b1 i W1) as (b2 & E2 & W2 & C2 & P2) end.
      { cbn [length]. rewrite P1, Lq. unfold q. lia. }
      rewrite E2. cbv beta iota.
      destruct (input_block_fill bs b2 (be_split (wb + wb) (8 * len)) W2) as (b3 & E3 & W3 & C3 & P3).
      { rewrite be_split_length, P2, P1, Lq. cbn [length]. unfold q. lia. }
      rewrite E3. cbv beta iota. rewrite P3. change (Nat.eqb 0 0) with true. cbn [andb fold_left].
      rewrite (sched_final_one v w wb isfull Hcase Hw Hwb) by lia.
      cbn [fold_left]. unfold putf. cbn [fst snd]. fold len. f_equal.
      replace (tpair (if Nat.eqb (length rest) 0 then 0%N else (8 * len)%N))
        with (if Nat.eqb (length rest) 0 then (0%N, 0%N) else tpair (8 * len))
        by (destruct (Nat.eqb (length rest) 0); [now rewrite tpair_0|reflexivity]).
      f_equal. rewrite C2, C1, C. rewrite <- !app_assoc. f_equal.
      destruct (Nat.eqb_spec (length rest + (1 + 2 * wb)) bs) as [Ef|Ef]; cbn [negb].
      + replace q with 0 by (unfold q; lia).
        replace (bs - length rest - (wb + wb)) with 1 by lia.
        cbn [firstn app seq map]. rewrite (Emk false). reflexivity.
      + rewrite firstn_PADDING by (unfold q; lia).
        rewrite pad_explicit by lia. rewrite (Emk true). cbn [app]. rewrite <- !app_assoc. cbn [app].
        replace (bs - length rest - (wb + wb) - 2) with (q - 1) by (unfold q; lia). reflexivity.
  Qed.

  (** after any number of [update] calls the hasher has absorbed the concatenation *)
  Lemma inv_updates c0 parts : forall s m, Inv c0 s m ->
    Inv c0 (fold_left (update H put w wb) parts s) (m ++ concat parts).
  Proof.
    induction parts as [|d parts IH]; intros s m HI; cbn [fold_left concat].
    - now rewrite app_nil_r.
    - rewrite app_assoc. apply IH. now apply inv_update.
  Qed.

  (** finalisation of a state that has absorbed [m]: the compressor has been fed the
      specified schedule of [m] *)
  Lemma finalize_schedule c0 s m :
    Inv c0 s m -> finalize H put w wb isfull s = Some (fold_left putf (S.schedule v m) c0).
  Proof.
    intros HI. rewrite (finalize_inv c0 s m HI). destruct HI as (Hc & _). rewrite Hc.
    f_equal. unfold S.schedule.
    rewrite (sched_split v w wb isfull Hcase Hw Hwb Hmk (length m / bs) 0%N m).
    - rewrite fold_left_app. reflexivity.
    - pose proof bs_pos'. pose proof (Nat.div_mod (length m) bs). lia.
  Qed.

  Theorem hasher_schedule c0 parts :
    finalize H put w wb isfull (fold_left (update H put w wb) parts (new H wb c0)) =
      Some (fold_left putf (S.schedule v (concat parts)) c0).
  Proof. apply finalize_schedule. apply (inv_updates c0 parts _ [] (inv_new c0)). Qed.

  (** the bit counter after absorbing [m]: exactly the bits of the full blocks, as (t.0, t.1) *)
  Lemma counter_after c0 s m : Inv c0 s m ->
    t H s = tpair (8 * N.of_nat (bs * (length m / bs))).
  Proof. intros (_ & Ht & _). rewrite Ht. f_equal. lia. Qed.
End HasherProof.
