(** C19 — the model of ppv-null (Model/PpvNull.v) equals the scalar lane-wise
    specification (Spec/NullLanes.v) on the whole stated domain, in both build
    profiles; derived readable corollaries used by Props/C19.v. *)
From Coq Require Import NArith List Bool Arith Lia.
From CC Require Import Lib.Words Lib.ListX Spec.NullLanes Model.PpvNull Proofs.PpvNullLanes.
Import ListNotations.
Local Open Scope N_scope.

Lemma wrapping_add_lane w a b : wrapping_add w a b = lane_add w a b.
Proof. unfold wrapping_add, lane_add. apply addw_mod. Qed.

Lemma lanes_ok_spec w n v :
  lanes_ok w n v = true -> length v = n /\ Forall (fun x => x < 2 ^ w) v.
Proof.
  unfold lanes_ok. intro H. apply andb_prop in H. destruct H as [L F].
  split; [now apply Nat.eqb_eq|].
  apply Forall_forall. intros x Hx. rewrite forallb_forall in F. now apply N.ltb_lt, F.
Qed.

Lemma lt1_cases i : (i <? 1) = true -> i = 0.
Proof. intro H. apply N.ltb_lt in H. lia. Qed.
Lemma lt2_cases i : (i <? 2) = true -> i = 0 \/ i = 1.
Proof. intro H. apply N.ltb_lt in H. lia. Qed.
Lemma lt4_cases i : (i <? 4) = true -> i = 0 \/ i = 1 \/ i = 2 \/ i = 3.
Proof. intro H. apply N.ltb_lt in H. lia. Qed.
Lemma lt16_cases i : (i <? 16) = true ->
  i = 0 \/ i = 1 \/ i = 2 \/ i = 3 \/ i = 4 \/ i = 5 \/ i = 6 \/ i = 7 \/
  i = 8 \/ i = 9 \/ i = 10 \/ i = 11 \/ i = 12 \/ i = 13 \/ i = 14 \/ i = 15.
Proof. intro H. apply N.ltb_lt in H. lia. Qed.

Ltac split_andb H :=
  repeat match type of H with
         | (_ && _) = true => let H1 := fresh "D" in apply andb_prop in H; destruct H as [H1 H]
         end.

(** turn every [lanes_ok w n v = true] into an explicit list of bounded lanes *)
Ltac elim_ok :=
  repeat match goal with
         | H : lanes_ok _ _ ?v = true |- _ =>
             let L := fresh "L" in let F := fresh "F" in
             apply lanes_ok_spec in H; destruct H as [L F];
             explode v;
             repeat (apply Forall_cons_iff in F; let B := fresh "B" in destruct F as [B F]);
             clear F
         end.

Ltac elim_idx :=
  repeat match goal with
         | H : (_ <? 1) = true |- _ => apply lt1_cases in H; subst
         | H : (_ <? 2) = true |- _ => apply lt2_cases in H; destruct H as [H|H]; subst
         | H : (_ <? 4) = true |- _ => apply lt4_cases in H; destruct H as [H|[H|[H|H]]]; subst
         end.

Ltac split_all :=
  repeat match goal with
         | H : (_ && _) = true |- _ =>
             let H1 := fresh "D" in let H2 := fresh "D" in
             apply andb_prop in H; destruct H as [H1 H2]
         end.
Ltac prep H :=
  cbv [in_domain has_op width nlanes] in H; cbn [andb] in H;
  repeat match type of H with
         | context [N.of_nat ?n] => let v := eval vm_compute in (N.of_nat n) in change (N.of_nat n) with v in H
         end;
  split_all.

Ltac side := first [ assumption | reflexivity | lia | (left; reflexivity) | (right; left; reflexivity) | (right; right; reflexivity)
                   | repeat (first [left; reflexivity | right]) ].

Ltac fin_arith :=
  cbv -[N.lxor N.land N.lor N.modulo wrapping_add lane_add bitnot lane_not rotate_right as_u32
        lane_rotr splat_rotr_lane v1_swap v1_swap64 lane_swap N.lt N.le N.pow];
  rewrite ?wrapping_add_lane;
  rewrite ?bitnot_lane by side;
  rewrite ?rotate_right_lane by side;
  rewrite ?splat_rotr_lane_ok by side;
  reflexivity.

Ltac fin_swap :=
  cbv [run_op run_v1 v1_swap1 v1_swap2 v1_swap4 v1_swap8 v1_swap16 v1_swap32 spec_op width lanes_map map];
  first [ rewrite v1_swap64_lane by assumption
        | rewrite v1_swap_lane by (assumption || (cbv [m1 m2 m4 m8 m16 m32]; side)) ];
  reflexivity.

Theorem run_op_eq_spec p t o a b i :
  in_domain t o a b i = true -> run_op p t o a b i = Some (Ok (spec_op t o a b i)).
Proof.
  intro H.
  destruct o.
  - (* ONew *) destruct t; try discriminate H; prep H; elim_ok; reflexivity.
  - (* ORotr *) destruct t; try discriminate H; prep H; elim_ok; fin_arith.
  - (* OLoad *) destruct t; try discriminate H; prep H; elim_ok; destruct p; reflexivity.
  - (* OStore *) destruct t; try discriminate H; prep H; elim_ok; destruct p; reflexivity.
  - (* OXorStore *) destruct t; try discriminate H; prep H; elim_ok; destruct p; cbv -[N.lxor]; reflexivity.
  - (* OSplat *) destruct t; try discriminate H; prep H; elim_ok; reflexivity.
  - (* OReplace *) destruct t; try discriminate H; prep H; elim_ok; elim_idx; reflexivity.
  - (* OExtract *) destruct t; try discriminate H; prep H; elim_ok; elim_idx; destruct p; reflexivity.
  - (* OIntoInner *) destruct t; try discriminate H; prep H; elim_ok; reflexivity.
  - (* OSwap1 *) destruct t; try discriminate H; prep H; elim_ok; fin_swap.
  - destruct t; try discriminate H; prep H; elim_ok; fin_swap.
  - destruct t; try discriminate H; prep H; elim_ok; fin_swap.
  - destruct t; try discriminate H; prep H; elim_ok; fin_swap.
  - destruct t; try discriminate H; prep H; elim_ok; fin_swap.
  - destruct t; try discriminate H; prep H; elim_ok; fin_swap.
  - (* OSwap64 *) destruct t; try discriminate H; prep H; elim_ok; fin_swap.
  - (* OAndNot *) destruct t; try discriminate H; prep H; elim_ok; fin_arith.
  - (* ONot *) destruct t; try discriminate H; prep H; elim_ok; fin_arith.
  - (* OAddAssign *) destruct t; try discriminate H; prep H; elim_ok; fin_arith.
  - (* OXorAssign *) destruct t; try discriminate H; prep H; elim_ok; fin_arith.
  - (* OAdd *) destruct t; try discriminate H; prep H; elim_ok; fin_arith.
  - (* OXor *) destruct t; try discriminate H; prep H; elim_ok; fin_arith.
  - (* OOr *) destruct t; try discriminate H; prep H; elim_ok; fin_arith.
  - (* OAnd *) destruct t; try discriminate H; prep H; elim_ok; fin_arith.
  - (* ORotWords *) destruct t; try discriminate H; prep H; elim_ok; elim_idx; destruct p; reflexivity.
  - (* OSplatRotr *) destruct t; try discriminate H; prep H; elim_ok;
      repeat match goal with Hx : (_ <=? _) = true |- _ => apply N.leb_le in Hx
                        | Hx : (_ <? _) = true |- _ => apply N.ltb_lt in Hx end;
      fin_arith.
  - (* OIntoParts *) destruct t; try discriminate H; prep H; elim_ok; reflexivity.
Qed.


(** * Corollaries in explicit arithmetic form *)
Definition ok_vec (t : ty) (v : list N) : Prop := lanes_ok (width t) (nlanes t) v = true.

Lemma add_lanewise p t o a b i :
  (o = OAdd \/ o = OAddAssign) -> has_op t o = true -> ok_vec t a -> ok_vec t b ->
  run_op p t o a b i = Some (Ok (map2 (fun x y => (x + y) mod 2 ^ width t) a b)).
Proof.
  unfold ok_vec. intros Ho Hh Ha Hb.
  rewrite run_op_eq_spec; [destruct Ho as [->| ->]; reflexivity|].
  unfold in_domain. rewrite Hh. destruct Ho as [->| ->]; now rewrite Ha, Hb.
Qed.

Lemma bitops_lanewise p t a b i :
  ok_vec t a ->
  (forall o, o = OXor \/ o = OXorAssign -> has_op t o = true -> ok_vec t b ->
             run_op p t o a b i = Some (Ok (map2 N.lxor a b))) /\
  (has_op t OAnd = true -> ok_vec t b -> run_op p t OAnd a b i = Some (Ok (map2 N.land a b))) /\
  (has_op t OOr = true -> ok_vec t b -> run_op p t OOr a b i = Some (Ok (map2 N.lor a b))) /\
  (has_op t ONot = true ->
     run_op p t ONot a b i = Some (Ok (map (fun x => 2 ^ width t - 1 - x) a))) /\
  (has_op t OAndNot = true -> ok_vec t b ->
     run_op p t OAndNot a b i = Some (Ok (map2 (fun x y => N.land (2 ^ width t - 1 - x) y) a b))).
Proof.
  unfold ok_vec. intro Ha. repeat split.
  - intros o Ho Hh Hb. rewrite run_op_eq_spec; [destruct Ho as [->| ->]; reflexivity|].
    unfold in_domain. rewrite Hh. destruct Ho as [->| ->]; now rewrite Ha, Hb.
  - intros Hh Hb. rewrite run_op_eq_spec; [reflexivity|]. unfold in_domain. now rewrite Hh, Ha, Hb.
  - intros Hh Hb. rewrite run_op_eq_spec; [reflexivity|]. unfold in_domain. now rewrite Hh, Ha, Hb.
  - intros Hh. rewrite run_op_eq_spec; [reflexivity|]. unfold in_domain. now rewrite Hh, Ha.
  - intros Hh Hb. rewrite run_op_eq_spec; [reflexivity|]. unfold in_domain. now rewrite Hh, Ha, Hb.
Qed.

Lemma rotate_right_lanewise p t a b i :
  ok_vec t a ->
  ((t = U32x4 \/ t = U64x4) -> ok_vec t b ->
     run_op p t ORotr a b i
     = Some (Ok (map2 (fun x r => lane_rotr (width t) (r mod width t) x) a b))) /\
  ((t = U128x1 \/ t = U128x2) -> i < 2 ^ 128 ->
     run_op p t ORotr a b i = Some (Ok (map (lane_rotr 128 (i mod 128)) a))).
Proof.
  unfold ok_vec. intro Ha. split.
  - intros Ht Hb. rewrite run_op_eq_spec; [destruct Ht as [->| ->]; reflexivity|].
    unfold in_domain. destruct Ht as [->| ->]; cbn [has_op andb]; now rewrite Ha, Hb.
  - intros Ht Hi. apply N.ltb_lt in Hi.
    rewrite run_op_eq_spec; [destruct Ht as [->| ->]; reflexivity|].
    unfold in_domain. destruct Ht as [->| ->]; cbn [has_op andb width] in *; now rewrite Ha, Hi.
Qed.

Lemma splat_rotate_right_lanewise p t a b i :
  has_op t OSplatRotr = true -> ok_vec t a -> 1 <= i -> i < width t ->
  run_op p t OSplatRotr a b i = Some (Ok (map (lane_rotr (width t) i) a)).
Proof.
  unfold ok_vec. intros Hh Ha H1 Hi. apply N.leb_le in H1. apply N.ltb_lt in Hi.
  rewrite run_op_eq_spec; [reflexivity|]. unfold in_domain. now rewrite Hh, Ha, H1, Hi.
Qed.

Lemma rotate_words_right_lanes p t a b i :
  has_op t ORotWords = true -> ok_vec t a -> i < 4 ->
  exists r, run_op p t ORotWords a b i = Some (Ok r) /\ length r = nlanes t /\
    forall k, (k < nlanes t)%nat ->
      nth k r 0 = nth (4 * (k / 4) + (k mod 4 + 4 - N.to_nat i) mod 4)%nat a 0.
Proof.
  unfold ok_vec. intros Hh Ha Hi. apply N.ltb_lt in Hi.
  eexists. split; [apply run_op_eq_spec; unfold in_domain; now rewrite Hh, Ha, Hi|].
  destruct t; try discriminate Hh; cbn [width nlanes] in *; elim_ok; elim_idx;
    (split; [reflexivity|]); intros k Hk;
    do 16 (destruct k as [|k]; [reflexivity|]); lia.
Qed.

Definition swap_ops : list (op * N) :=
  [(OSwap1, 1); (OSwap2, 2); (OSwap4, 4); (OSwap8, 8); (OSwap16, 16); (OSwap32, 32); (OSwap64, 64)].

Lemma swapN_bits p o n x b i :
  In (o, n) swap_ops -> x < 2 ^ 128 ->
  exists y, run_op p U128x1 o [x] b i = Some (Ok [y]) /\ y < 2 ^ 128 /\
            forall j, j < 128 -> N.testbit y j = N.testbit x (N.lxor j n).
Proof.
  intros Hin Hx. exists (lane_swap 128 n x). split; [|split].
  - assert (Hd : lanes_ok 128 1 [x] = true)
      by (unfold lanes_ok; cbn [length Nat.eqb forallb andb]; apply N.ltb_lt in Hx; now rewrite Hx).
    cbv [swap_ops In] in Hin.
    repeat (destruct Hin as [Hin|Hin];
            [injection Hin as <- <-; rewrite run_op_eq_spec; [reflexivity|];
             unfold in_domain; cbn [has_op andb width nlanes]; exact Hd|]).
    contradiction.
  - apply lane_swap_lt.
  - intros j Hj. rewrite testbit_lane_swap. apply N.ltb_lt in Hj. now rewrite Hj.
Qed.

Lemma nth_upd {A} i k (x d : A) l :
  (i < length l)%nat -> nth k (upd i x l) d = if Nat.eqb k i then x else nth k l d.
Proof.
  revert i k. induction l as [|y r IH]; intros i k Hi; [cbn in Hi; lia|].
  destruct i as [|i], k as [|k]; cbn [upd nth Nat.eqb]; try reflexivity.
  apply IH. cbn in Hi. lia.
Qed.

Lemma moves_preserve p t a b i :
  (has_op t ONew = true -> ok_vec t a -> run_op p t ONew a b i = Some (Ok a)) /\
  (has_op t OIntoInner = true -> ok_vec t a -> run_op p t OIntoInner a b i = Some (Ok a)) /\
  (has_op t OIntoParts = true -> ok_vec t a -> run_op p t OIntoParts a b i = Some (Ok a)) /\
  (has_op t OLoad = true -> ok_vec t b -> run_op p t OLoad a b i = Some (Ok b)) /\
  (has_op t OStore = true -> ok_vec t a -> ok_vec t b -> run_op p t OStore a b i = Some (Ok a)) /\
  (has_op t OXorStore = true -> ok_vec t a -> ok_vec t b ->
     run_op p t OXorStore a b i = Some (Ok (map2 N.lxor b a))) /\
  (has_op t OSplat = true -> t <> U32x4x4 -> i < 2 ^ width t ->
     run_op p t OSplat a b i = Some (Ok (repeat i (nlanes t)))) /\
  (lanes_ok 32 4 a = true -> run_op p U32x4x4 OSplat a b i = Some (Ok (a ++ a ++ a ++ a))) /\
  (has_op t OExtract = true -> ok_vec t a -> i < N.of_nat (nlanes t) ->
     run_op p t OExtract a b i = Some (Ok [nth (N.to_nat i) a 0])).
Proof.
  unfold ok_vec. repeat split.
  - intros Hh Ha. rewrite run_op_eq_spec; [reflexivity|]. unfold in_domain. now rewrite Hh, Ha.
  - intros Hh Ha. rewrite run_op_eq_spec; [reflexivity|]. unfold in_domain. now rewrite Hh, Ha.
  - intros Hh Ha. rewrite run_op_eq_spec; [reflexivity|]. unfold in_domain. now rewrite Hh, Ha.
  - intros Hh Hb. rewrite run_op_eq_spec; [reflexivity|]. unfold in_domain. now rewrite Hh, Hb.
  - intros Hh Ha Hb. rewrite run_op_eq_spec; [reflexivity|]. unfold in_domain. now rewrite Hh, Ha, Hb.
  - intros Hh Ha Hb. rewrite run_op_eq_spec; [reflexivity|]. unfold in_domain. now rewrite Hh, Ha, Hb.
  - intros Hh Ht Hi. apply N.ltb_lt in Hi.
    rewrite run_op_eq_spec; [destruct t; try discriminate Hh; try contradiction; reflexivity|].
    unfold in_domain. rewrite Hh. destruct t; try discriminate Hh; try contradiction; exact Hi.
  - intros Ha. rewrite run_op_eq_spec; [reflexivity|]. unfold in_domain. cbn [has_op andb]. exact Ha.
  - intros Hh Ha Hi. apply N.ltb_lt in Hi.
    rewrite run_op_eq_spec; [reflexivity|]. unfold in_domain. now rewrite Hh, Ha, Hi.
Qed.

Lemma Forall_upd {A} (P : A -> Prop) n v l : Forall P l -> P v -> Forall P (upd n v l).
Proof.
  intros F Hv. revert n. induction F as [|y r Hy F IH]; intros [|n]; cbn [upd]; auto.
Qed.

Lemma replace_exactly_one p t a v b i :
  has_op t OReplace = true -> ok_vec t a -> v < 2 ^ width t -> i < N.of_nat (nlanes t) ->
  exists r, run_op p t OReplace a [v] i = Some (Ok r) /\ length r = nlanes t /\
            nth (N.to_nat i) r 0 = v /\
            (forall k, k <> N.to_nat i -> nth k r 0 = nth k a 0) /\
            run_op p t OExtract r b i = Some (Ok [v]).
Proof.
  unfold ok_vec. intros Hh Ha Hv Hi.
  assert (Hl : length a = nlanes t) by (apply lanes_ok_spec in Ha; tauto).
  assert (Hr : run_op p t OReplace a [v] i = Some (Ok (upd (N.to_nat i) v a))).
  { rewrite run_op_eq_spec; [reflexivity|]. unfold in_domain, lanes_ok at 2.
    cbn [length Nat.eqb forallb andb].
    apply N.ltb_lt in Hv, Hi. now rewrite Hh, Ha, Hv, Hi. }
  exists (upd (N.to_nat i) v a). split; [exact Hr|]. split; [now rewrite upd_length|].
  assert (Hn : nth (N.to_nat i) (upd (N.to_nat i) v a) 0 = v)
    by (rewrite nth_upd by lia; now rewrite Nat.eqb_refl).
  split; [exact Hn|]. split.
  - intros k Hk. rewrite nth_upd by lia. apply Nat.eqb_neq in Hk. now rewrite Hk.
  - assert (Hok : lanes_ok (width t) (nlanes t) (upd (N.to_nat i) v a) = true).
    { unfold lanes_ok. rewrite upd_length, Hl, Nat.eqb_refl. cbn [andb].
      apply lanes_ok_spec in Ha. destruct Ha as [_ F].
      apply forallb_forall. intros x Hx. apply N.ltb_lt.
      pose proof (Forall_upd _ (N.to_nat i) v a F Hv) as F'. rewrite Forall_forall in F'. now apply F'. }
    rewrite run_op_eq_spec; [unfold spec_op, lane_extract; now rewrite Hn|].
    unfold in_domain. apply N.ltb_lt in Hi.
    destruct t; try discriminate Hh; cbn [has_op andb] in *; now rewrite Hok, Hi.
Qed.

(** * u32x4x4 forwards every operation to its four u32x4 parts *)
Definition part (k : nat) (a : list N) : list N := firstn 4 (skipn (4 * k) a).
(** sequential composition of the four part results: a panic in any part is a panic *)
Definition seq4 (r0 r1 r2 r3 : option (res (list N))) : option (res (list N)) :=
  match r0, r1, r2, r3 with
  | Some (Ok x0), Some (Ok x1), Some (Ok x2), Some (Ok x3) => Some (Ok (x0 ++ x1 ++ x2 ++ x3))
  | Some _, Some _, Some _, Some _ => Some Panic
  | _, _, _, _ => None
  end.
Definition forwarded_ops : list op :=
  [OXor; OOr; OAnd; OAdd; OXorAssign; OAddAssign; ORotWords; OSplatRotr].

Lemma u32x4x4_forwards p o a b i :
  In o forwarded_ops ->
  run_op p U32x4x4 o a b i =
  seq4 (run_op p U32x4 o (part 0 a) (part 0 b) i) (run_op p U32x4 o (part 1 a) (part 1 b) i)
       (run_op p U32x4 o (part 2 a) (part 2 b) i) (run_op p U32x4 o (part 3 a) (part 3 b) i).
Proof.
  intro Hin. cbv [forwarded_ops In] in Hin.
  repeat (destruct Hin as [<-|Hin];
    [cbv [run_op run_x44 run_v4 seq4 parts part g nth flat concat okf
          x44_bitxor x44_bitor x44_bitand x44_add x44_zipmap x44_bitxor_assign x44_add_assign
          x44_rotate_words_right x44_splat_rotate_right bind v4_add_assign v4_bitxor_assign];
     change (4 * 0)%nat with 0%nat; change (4 * 1)%nat with 4%nat;
     change (4 * 2)%nat with 8%nat; change (4 * 3)%nat with 12%nat; cbn [skipn];
     repeat match goal with
            | |- context [match ?r with Ok _ => _ | Panic => _ end] =>
                lazymatch r with
                | v4_rotate_words_right _ _ _ => destruct r
                | v4_splat_rotate_right _ _ _ _ => destruct r
                end
            end;
     rewrite ?app_nil_r; reflexivity|]).
  contradiction.
Qed.

(** * Totality on the domain *)
Lemma total p t o a b i :
  in_domain t o a b i = true ->
  run_op p t o a b i <> Some Panic /\ run_op p t o a b i <> None /\
  exists r, run_op p t o a b i = Some (Ok r).
Proof.
  intro H. rewrite (run_op_eq_spec p _ _ _ _ _ H).
  split; [discriminate|]. split; [discriminate|]. eexists; reflexivity.
Qed.
(** * Outside the domain: what the code (as modelled) does with excluded arguments *)

(** splat_rotate_right by 0 or by >= bits: overflow panic in overflow-checked builds *)
Lemma outside_splat_rotr_debug t a b i :
  has_op t OSplatRotr = true -> i = 0 \/ width t <= i ->
  run_op Debug t OSplatRotr a b i = Some Panic.
Proof.
  intros Hh Hi. destruct t; try discriminate Hh; cbn [width] in Hi.
  all: destruct Hi as [->|Hi]; [reflexivity|].
  all: cbv [run_op run_v4 run_x44 okf x44_splat_rotate_right v4_splat_rotate_right splat_rotr_lane shr_chk bind].
  all: apply N.ltb_ge in Hi; rewrite Hi; reflexivity.
Qed.

(** ... and in unchecked builds a rotation by 0 is the identity *)
Lemma outside_splat_rotr_release_0 t a b :
  has_op t OSplatRotr = true -> ok_vec t a ->
  run_op Release t OSplatRotr a b 0 = Some (Ok a).
Proof.
  unfold ok_vec. intros Hh Ha. destruct t; try discriminate Hh; cbn [width nlanes] in Ha; elim_ok.
  all: cbv -[N.lor N.land N.shiftl N.shiftr wrap N.lt N.pow].
  all: rewrite ?N.shiftl_0_r, ?N.shiftr_0_r; rewrite ?wrap_small by assumption; rewrite ?N.lor_diag; reflexivity.
Qed.

(** lane index out of range: bounds-check panic in every profile (4- and 2-lane types) *)
Lemma outside_index_panics p t a b i :
  (t = U32x4 \/ t = U64x4 \/ t = U128x2) -> N.of_nat (nlanes t) <= i ->
  run_op p t OExtract a b i = Some Panic /\
  ((t = U32x4 \/ t = U64x4) -> run_op p t OReplace a b i = Some Panic).
Proof.
  intros Ht Hi.
  destruct Ht as [->|[->| ->]]; cbn [nlanes] in Hi;
    match type of Hi with N.of_nat ?n <= _ =>
      let v := eval vm_compute in (N.of_nat n) in change (N.of_nat n) with v in Hi end;
    apply N.ltb_ge in Hi;
    (split; [|intros [E|E]; try discriminate E]);
    cbv [run_op run_v4 run_v2 ok1 v4_extract v2_extract v4_replace index store len length N.of_nat
         Pos.of_succ_nat Pos.succ bind];
    rewrite Hi; reflexivity.
Qed.

(** u128x1::extract(i), i <> 0: debug assertion only *)
Lemma outside_u128x1_extract p x b i : i <> 0 ->
  run_op p U128x1 OExtract [x] b i = match p with Debug => Some Panic | Release => Some (Ok [x]) end.
Proof.
  intro Hi. apply N.eqb_neq in Hi.
  cbv [run_op run_v1 ok1 v1_extract debug_assert bind f0 nth]. rewrite Hi. now destruct p.
Qed.

(** rotate_words_right(i), i >= 4: debug assertion; unchecked builds use i mod 4 *)
Example outside_rot_words :
  run_op Debug U32x4 ORotWords [10; 11; 12; 13] [] 4 = Some Panic /\
  run_op Debug U32x4 ORotWords [10; 11; 12; 13] [] 0xffffffff = Some Panic /\
  run_op Release U32x4 ORotWords [10; 11; 12; 13] [] 5 = Some (Ok [13; 10; 11; 12]) /\
  run_op Release U32x4x4 ORotWords [0;1;2;3;4;5;6;7;8;9;10;11;12;13;14;15] [] 6
  = Some (Ok [2;3;0;1;6;7;4;5;10;11;8;9;14;15;12;13]).
Proof. repeat split; vm_compute; reflexivity. Qed.

(** splat_rotate_right(i), i >= bits, unchecked build: rotation by i mod bits *)
Example outside_splat_rotr_release :
  run_op Release U32x4 OSplatRotr [0x11223344; 1; 2; 0x80000000] [] 40
  = Some (Ok [0x44112233; 0x01000000; 0x02000000; 0x00800000]) /\
  run_op Release U64x4 OSplatRotr [1; 2; 3; 4] [] 64 = Some (Ok [1; 2; 3; 4]).
Proof. split; vm_compute; reflexivity. Qed.

(** slices of the wrong length: too short = bounds-check panic in every profile;
    too long = debug assertion only (unchecked builds use the prefix) *)
Example outside_load_lengths :
  run_op Debug U32x4 OLoad [] [1; 2; 3] 0 = Some Panic /\
  run_op Release U32x4 OLoad [] [1; 2; 3] 0 = Some Panic /\
  run_op Debug U32x4 OLoad [] [1; 2; 3; 4; 5] 0 = Some Panic /\
  run_op Release U32x4 OLoad [] [1; 2; 3; 4; 5] 0 = Some (Ok [1; 2; 3; 4]) /\
  run_op Release U128x2 OXorStore [1; 2] [4; 8; 16] 0 = Some (Ok [5; 10; 16]) /\
  run_op Debug U128x2 OXorStore [1; 2] [4; 8; 16] 0 = Some Panic.
Proof. repeat split; vm_compute; reflexivity. Qed.

(** the defect N1 as shipped: [self.0 += rhs.0] panics with overflow checks on a carry,
    so the property was false of the unrepaired code *)
Lemma n1_before_fix_refuted :
  v1_add_assign_before_fix 128 Debug [2 ^ 128 - 1] [1] = Panic /\
  v1_add_assign_before_fix 128 Release [2 ^ 128 - 1] [1] = Ok [0].
Proof. split; vm_compute; reflexivity. Qed.

(** * The modelled public surface: 71 (type, method) pairs, each with a model and inside [has_op] *)
Definition all_tys : list ty := [U32x4; U64x4; U128x1; U128x2; U32x4x4].
Definition all_ops : list op :=
  [ONew; ORotr; OLoad; OStore; OXorStore; OSplat; OReplace; OExtract; OIntoInner;
   OSwap1; OSwap2; OSwap4; OSwap8; OSwap16; OSwap32; OSwap64;
   OAndNot; ONot; OAddAssign; OXorAssign; OAdd; OXor; OOr; OAnd; ORotWords; OSplatRotr; OIntoParts].
Lemma all_ops_complete : forall o, In o all_ops.
Proof. destruct o; cbv [all_ops In]; tauto. Qed.
Lemma surface_count :
  length (filter (fun to => has_op (fst to) (snd to)) (list_prod all_tys all_ops)) = 71%nat /\
  (* the model has a method exactly where [has_op] says so *)
  forallb (fun to => Bool.eqb (has_op (fst to) (snd to))
                       (match run_op Debug (fst to) (snd to) [] [] 0 with Some _ => true | None => false end))
          (list_prod all_tys all_ops) = true.
Proof. split; vm_compute; reflexivity. Qed.
(** rotate_words_right(i), i >= 4: [debug_assert_eq!(i & !3, 0)] fails in Debug;
    Release uses [i & 3] *)
Lemma rot_words_release self i :
  v4_rotate_words_right Release self i = v4_rotate_words_right Release self (i mod 4).
Proof.
  change 4 with (2 ^ 2). rewrite <- N.land_ones. change (N.ones 2) with 3.
  unfold v4_rotate_words_right, debug_assert.
  replace (N.land (N.land i 3) 3) with (N.land i 3) by (now rewrite <- N.land_assoc).
  destruct (_ =? 0), (_ =? 0); reflexivity.
Qed.

Lemma outside_rot_words_release t a b i :
  has_op t ORotWords = true ->
  run_op Release t ORotWords a b i = run_op Release t ORotWords a b (i mod 4).
Proof.
  intro Hh. destruct t; try discriminate Hh;
    cbv [run_op run_v4 run_x44 okf x44_rotate_words_right];
    now rewrite ?(rot_words_release _ i).
Qed.

Lemma high_bits_nonzero i : 4 <= i -> i < 2 ^ 32 -> N.land i (bitnot 32 3) <> 0.
Proof.
  intros H4 H32 E.
  assert (Hi : i = N.land i (N.lor 3 (bitnot 32 3))).
  { change (N.lor 3 (bitnot 32 3)) with (N.ones 32). symmetry. now apply wrap_small. }
  rewrite N.land_lor_distr_r, E, N.lor_0_r in Hi.
  change 3 with (N.ones 2) in Hi. rewrite N.land_ones in Hi.
  pose proof (N.mod_lt i (2 ^ 2)) as Hm. change (2 ^ 2) with 4 in *. lia.
Qed.

Lemma outside_rot_words_debug t a b i :
  has_op t ORotWords = true -> 4 <= i -> i < 2 ^ 32 ->
  run_op Debug t ORotWords a b i = Some Panic.
Proof.
  intros Hh H4 H32. pose proof (high_bits_nonzero i H4 H32) as Hn. apply N.eqb_neq in Hn.
  destruct t; try discriminate Hh;
    cbv [run_op run_v4 run_x44 okf x44_rotate_words_right v4_rotate_words_right debug_assert bind];
    rewrite Hn; reflexivity.
Qed.

Lemma outside_rot_words_both t a b i :
  has_op t ORotWords = true ->
  run_op Release t ORotWords a b i = run_op Release t ORotWords a b (i mod 4) /\
  (4 <= i -> i < 2 ^ 32 -> run_op Debug t ORotWords a b i = Some Panic).
Proof.
  intro H. split; [now apply outside_rot_words_release|now apply outside_rot_words_debug].
Qed.

Lemma lane_rotr_meaning w r x : lane_rotr w r x = x / 2 ^ r + (x mod 2 ^ r) * 2 ^ (w - r).
Proof. reflexivity. Qed.

(** * Non-vacuity *)
Example nonvacuous_domain :
  in_domain U32x4 OAdd [0xffffffff; 1; 2; 3] [1; 1; 1; 1] 0 = true /\
  in_domain U128x1 OAddAssign [2 ^ 128 - 1] [1] 0 = true /\
  in_domain U64x4 ORotr [1; 2; 3; 4] [1; 65; 0; 2 ^ 64 - 1] 0 = true /\
  in_domain U128x2 ORotr [1; 2] [] (2 ^ 128 - 1) = true /\
  in_domain U32x4x4 OSplatRotr [0;1;2;3;4;5;6;7;8;9;10;11;12;13;14;15] [] 31 = true /\
  in_domain U64x4 ORotWords [1; 2; 3; 4] [] 3 = true /\
  in_domain U128x1 OSwap64 [5] [] 0 = true /\
  in_domain U64x4 OReplace [1; 2; 3; 4] [9] 3 = true /\
  in_domain U128x2 OExtract [1; 2] [] 1 = true /\
  in_domain U32x4 OSplatRotr [1; 2; 3; 4] [] 0 = false /\
  in_domain U32x4 OSplatRotr [1; 2; 3; 4] [] 32 = false /\
  in_domain U32x4 OExtract [1; 2; 3; 4] [] 4 = false.
Proof. repeat split; vm_compute; reflexivity. Qed.

Example nonvacuous_values :
  run_op Debug U32x4 OAdd [0xffffffff; 1; 2; 3] [1; 1; 1; 1] 0 = Some (Ok [0; 2; 3; 4]) /\
  run_op Debug U128x1 OAddAssign [2 ^ 128 - 1] [1] 0 = Some (Ok [0]) /\
  run_op Debug U32x4 OSplatRotr [0x11223344; 1; 2; 3] [] 8
  = Some (Ok [0x44112233; 0x01000000; 0x02000000; 0x03000000]) /\
  run_op Release U64x4 ORotWords [10; 11; 12; 13] [] 1 = Some (Ok [13; 10; 11; 12]) /\
  run_op Debug U128x1 OSwap8 [0x00112233445566778899aabbccddeeff] [] 0
  = Some (Ok [0x11003322554477669988bbaaddccffee]) /\
  run_op Debug U64x4 OReplace [1; 2; 3; 4] [9] 3 = Some (Ok [1; 2; 3; 9]).
Proof. repeat split; vm_compute; reflexivity. Qed.


(** * splat_rotate_right in unchecked builds, any u32 amount: rotation by [i mod bits] *)
Lemma shift_or_rotr w x r : x < 2 ^ w -> r <= w ->
  N.lor (N.shiftr x r) (wrap w (N.shiftl x (w - r))) = lane_rotr w r x.
Proof.
  intros Hx Hr. rewrite <- rotrw_lane by assumption. unfold rotrw, wrap.
  rewrite N.land_lor_distr_l. f_equal. symmetry. apply wrap_small. now apply shiftr_lt.
Qed.

Lemma mask_mod w k s : w = 2 ^ k -> (if s <? w then s else N.land s (w - 1)) = s mod w.
Proof.
  intros ->. destruct (N.ltb_spec s (2 ^ k)) as [H|H].
  - symmetry. now apply N.mod_small.
  - rewrite N.sub_1_r, <- N.ones_equiv. apply N.land_ones.
Qed.

Lemma sub_amount w i : (w = 32 \/ w = 64) -> i < 2 ^ 32 ->
  (if i <=? w then w - i else subw 32 w i) mod w = (w - i mod w) mod w.
Proof.
  intros Hw Hi. change (2 ^ 32) with 4294967296 in Hi.
  destruct (N.leb_spec i w) as [H|H].
  - destruct (N.eq_dec i w) as [->|Hne].
    + rewrite N.sub_diag, N.mod_same, N.sub_0_r, N.mod_same, N.mod_0_l by (destruct Hw as [->| ->]; discriminate).
      reflexivity.
    + rewrite (N.mod_small i w) by lia. reflexivity.
  - rewrite subw_mod. change (2 ^ 32) with 4294967296.
    rewrite (N.mod_small i 4294967296) by assumption.
    rewrite (N.mod_small (w + (4294967296 - i)) 4294967296) by lia.
    destruct Hw as [->| ->].
    + pose proof (N.div_mod i 32 ltac:(discriminate)) as D. pose proof (N.mod_lt i 32 ltac:(discriminate)) as M.
      set (q := i / 32) in *. set (r := i mod 32) in *.
      assert (E : 32 + (4294967296 - i) = (32 - r) + (134217728 - q) * 32) by lia.
      rewrite E, N.mod_add by discriminate. reflexivity.
    + pose proof (N.div_mod i 64 ltac:(discriminate)) as D. pose proof (N.mod_lt i 64 ltac:(discriminate)) as M.
      set (q := i / 64) in *. set (r := i mod 64) in *.
      assert (E : 64 + (4294967296 - i) = (64 - r) + (67108864 - q) * 64) by lia.
      rewrite E, N.mod_add by discriminate. reflexivity.
Qed.

Lemma splat_rotr_lane_release w x i : (w = 32 \/ w = 64) -> x < 2 ^ w -> i < 2 ^ 32 ->
  splat_rotr_lane w Release x i = Ok (lane_rotr w (i mod w) x).
Proof.
  intros Hw Hx Hi.
  assert (Hk : exists k, w = 2 ^ k) by (destruct Hw as [->| ->]; [exists 5|exists 6]; reflexivity).
  destruct Hk as [k Hk].
  assert (Hnz : w <> 0) by (destruct Hw as [->| ->]; discriminate).
  unfold splat_rotr_lane, shr_chk, sub_chk, shl_chk, overflow.
  replace (if i <? w then Ok (N.shiftr x i) else Ok (N.shiftr x (N.land i (w - 1))))
    with (Ok (A:=N) (N.shiftr x (i mod w)))
    by (rewrite <- (mask_mod w k i Hk); now destruct (i <? w)).
  cbn [bind].
  replace (if i <=? w then Ok (w - i) else Ok (subw 32 w i))
    with (Ok (A:=N) (if i <=? w then w - i else subw 32 w i)) by now destruct (i <=? w).
  cbn [bind].
  set (s := if i <=? w then w - i else subw 32 w i).
  replace (if s <? w then Ok (wrap w (N.shiftl x s)) else Ok (wrap w (N.shiftl x (N.land s (w - 1)))))
    with (Ok (A:=N) (wrap w (N.shiftl x (s mod w))))
    by (rewrite <- (mask_mod w k s Hk); now destruct (s <? w)).
  cbn [bind]. f_equal. subst s. rewrite sub_amount by assumption.
  pose proof (N.mod_lt i w Hnz) as Hr.
  destruct (N.eq_dec (i mod w) 0) as [E|E].
  - rewrite E, N.sub_0_r, N.mod_same, N.shiftl_0_r, N.shiftr_0_r by assumption.
    rewrite wrap_small by assumption. rewrite N.lor_diag.
    unfold lane_rotr. rewrite N.pow_0_r, N.div_1_r, N.mod_1_r. lia.
  - assert (Hpos : 0 < i mod w) by (apply N.neq_0_lt_0; exact E).
    rewrite (N.mod_small (w - i mod w) w) by (apply N.sub_lt; [apply N.lt_le_incl; exact Hr|exact Hpos]).
    apply shift_or_rotr; [assumption|apply N.lt_le_incl; exact Hr].
Qed.

Lemma outside_splat_rotr_release_any t a b i :
  has_op t OSplatRotr = true -> ok_vec t a -> i < 2 ^ 32 ->
  run_op Release t OSplatRotr a b i = Some (Ok (map (lane_rotr (width t) (i mod width t)) a)).
Proof.
  unfold ok_vec. intros Hh Ha Hi.
  destruct t; try discriminate Hh; cbn [width nlanes] in *; elim_ok;
    cbv -[splat_rotr_lane lane_rotr N.modulo N.lt N.pow];
    rewrite ?splat_rotr_lane_release by (assumption || (left; reflexivity) || (right; reflexivity));
    reflexivity.
Qed.
