(** The four hash functions: model of lib.rs + compressor.rs = specification,
    for every message (of fewer than 2^64 blocks, the limit of the format). *)
From Coq Require Import NArith List Arith Bool Lia.
From CC Require Import Lib.Words Lib.Bytes Lib.ListX Spec.AES Spec.Groestl
     Model.GroestlIntrinsics Model.BlockBuffer Model.Groestl Proofs.GroestlLayout Proofs.GroestlMix
     Proofs.GroestlRound Proofs.GroestlCompress Proofs.GroestlSchedule.
Import ListNotations.

(** * byte-ness of specification states (needed for the 32-bit shift of Groestl-224) *)
Section Bytes.
Variable S : N -> N.
Hypothesis S_byte : forall x, (S x < 256)%N.

Lemma xor_bytes_bytes a b : Forall is_byte a -> Forall is_byte b -> Forall is_byte (xor_bytes a b).
Proof.
  intros Ha; revert b; induction Ha as [|x a Hx Ha IH]; intros b Hb; [destruct b; constructor|].
  destruct Hb as [|y b Hy Hb]; cbn [xor_bytes]; constructor; [|now apply IH].
  unfold is_byte in *. now apply (lxor_lt 8).
Qed.

Lemma gf_mul_pos_byte c x : (x < 256)%N -> (gf_mul_pos c x < 256)%N.
Proof.
  revert x; induction c as [c IH|c IH|]; intros x Hx; cbn [gf_mul_pos].
  - apply (lxor_lt 8); [exact Hx|apply IH, xtime_lt].
  - apply IH, xtime_lt.
  - exact Hx.
Qed.
Lemma gf_mul_byte c x : (x < 256)%N -> (gf_mul c x < 256)%N.
Proof. intros Hx. destruct c; cbn [gf_mul]; [reflexivity|now apply gf_mul_pos_byte]. Qed.

Lemma nth_byte l k : Forall is_byte l -> is_byte (nth k l 0%N).
Proof.
  intros H; revert k; induction H as [|x l Hx H IH]; intros [|k]; cbn [nth]; try exact Hx; try apply IH;
    reflexivity.
Qed.

Lemma fold_lxor_byte l acc : Forall is_byte l -> is_byte acc -> is_byte (fold_left N.lxor l acc).
Proof.
  intros H; revert acc; induction H as [|x l Hx H IH]; intros acc Ha; cbn [fold_left]; [exact Ha|].
  apply IH. unfold is_byte in *. now apply (lxor_lt 8).
Qed.

Lemma Forall_map_seq {A} (Pr : A -> Prop) (g : nat -> A) s n :
  (forall i, Pr (g i)) -> Forall Pr (map g (seq s n)).
Proof. intros H. apply Forall_forall. intros x Hx. apply in_map_iff in Hx as (i & <- & _). apply H. Qed.

Lemma mix_column_bytes a : Forall is_byte a -> Forall is_byte (mix_column a).
Proof.
  intros Ha. unfold mix_column. apply Forall_map_seq. intros i.
  apply fold_lxor_byte; [|reflexivity].
  apply Forall_map_seq. intros k. apply gf_mul_byte. now apply nth_byte.
Qed.

Lemma mix_bytes_bytes c st : Forall is_byte st -> Forall is_byte (mix_bytes c st).
Proof.
  intros Hst. unfold mix_bytes. apply Forall_flat_map, Forall_forall. intros col _.
  apply mix_column_bytes, Forall_map_seq. intros row. unfold get. now apply nth_byte.
Qed.

Lemma build_bytes c g : (forall row col, is_byte (g row col)) -> Forall is_byte (build c g).
Proof.
  intros H. unfold build. apply Forall_flat_map, Forall_forall. intros col _.
  apply Forall_map_seq. intros row. apply H.
Qed.

Lemma round_bytes c rc sg r st : Forall is_byte (Spec.Groestl.round S c rc sg r st).
Proof.
  unfold Spec.Groestl.round. apply mix_bytes_bytes. unfold shift_bytes. apply build_bytes.
  intros row col. unfold get. apply nth_byte. unfold sub_bytes.
  apply Forall_forall. intros x Hx. apply in_map_iff in Hx as (y & <- & _). apply S_byte.
Qed.

Lemma perm_bytes c nr rc sg st : Forall is_byte (perm S c (Datatypes.S nr) rc sg st).
Proof. unfold perm. rewrite seq_S, fold_left_app. cbn [fold_left]. apply round_bytes. Qed.

Lemma f_bytes p h m : 0 < nrounds p -> Forall is_byte h -> Forall is_byte (f S p h m).
Proof.
  intros Hn Hh. unfold f, P, Q. destruct (nrounds p) as [|nr]; [lia|].
  apply xor_bytes_bytes; [|exact Hh]. apply xor_bytes_bytes; apply perm_bytes.
Qed.

Lemma fold_f_bytes p bl h : 0 < nrounds p -> Forall is_byte h -> Forall is_byte (fold_left (f S p) bl h).
Proof.
  intros Hn. revert h; induction bl as [|b bl IH]; intros h Hh; cbn [fold_left]; [exact Hh|].
  apply IH. now apply f_bytes.
Qed.

Lemma omega_bytes p h : 0 < nrounds p -> Forall is_byte h -> Forall is_byte (omega S p h).
Proof.
  intros Hn Hh. unfold omega, P. destruct (nrounds p) as [|nr]; [lia|].
  apply xor_bytes_bytes; [apply perm_bytes|exact Hh].
Qed.

Lemma iv_bytes p bits : Forall is_byte (iv p bits).
Proof. unfold iv, be_split. apply Forall_rev, le_split_bytes. Qed.
End Bytes.

(** * the truncation of Groestl-224: [(result[4] >> 32) as u32] then [result[5..8]] *)
Lemma le_join_app a b :
  le_join (a ++ b) = (le_join a + N.shiftl (le_join b) (8 * N.of_nat (length a)))%N.
Proof.
  induction a as [|x a IH]; cbn [app le_join length].
  - now rewrite N.shiftl_0_r.
  - rewrite IH, !N.shiftl_mul_pow2.
    replace (8 * N.of_nat (Datatypes.S (length a)))%N with (8 * N.of_nat (length a) + 8)%N by lia.
    rewrite N.pow_add_r. lia.
Qed.

Lemma out224_cut t : length t = 32 -> Forall is_byte t ->
  le_split 4 (wrap 32 (N.shiftr (le_join (firstn 8 t)) 32)) ++ skipn 8 t = skipn 4 t.
Proof.
  intros Hl Hb.
  assert (E : firstn 8 t = firstn 4 t ++ firstn 4 (skipn 4 t)).
  { explode t. reflexivity. }
  assert (E2 : skipn 4 t = firstn 4 (skipn 4 t) ++ skipn 8 t).
  { explode t. reflexivity. }
  assert (L1 : length (firstn 4 t) = 4) by (rewrite firstn_length; lia).
  assert (L2 : length (firstn 4 (skipn 4 t)) = 4) by (rewrite firstn_length, skipn_length; lia).
  assert (B1 : Forall is_byte (firstn 4 t)) by now apply Forall_firstn'.
  assert (B2 : Forall is_byte (firstn 4 (skipn 4 t))) by now apply Forall_firstn', Forall_skipn'.
  rewrite E2 at 1. f_equal.
  rewrite E, le_join_app, L1.
  pose proof (le_join_lt _ B1) as G1. rewrite L1 in G1.
  pose proof (le_join_lt _ B2) as G2. rewrite L2 in G2.
  change (8 * N.of_nat 4)%N with 32%N in *.
  rewrite N.shiftl_mul_pow2, N.shiftr_div_pow2, N.div_add, N.div_small, N.add_0_l by (assumption || discriminate).
  rewrite wrap_small by exact G2.
  rewrite <- L2 at 1. now apply le_split_join.
Qed.

Lemma sbox_fast_byte' x : (sbox_fast x < 256)%N.
Proof. rewrite sbox_fast_correct. apply sbox_lt. Qed.

Lemma skipn_add {A} a b (l : list A) : skipn b (skipn a l) = skipn (a + b) l.
Proof.
  revert l; induction a as [|a IH]; intros l; [reflexivity|].
  destruct l as [|x l]; cbn [plus skipn]; [now rewrite skipn_nil|apply IH].
Qed.

Lemma sbox_eq x : sbox x = sbox_fast x.
Proof. symmetry. apply sbox_fast_correct. Qed.

(** * final state of the model = final state of the specification, in the row layouts *)

Definition final512 (S : N -> N) (bits : N) (msg : list N) : list N :=
  fold_left (f S p512) (blocks 64 (pad 64 msg)) (iv p512 bits).
Definition final1024 (S : N -> N) (bits : N) (msg : list N) : list N :=
  fold_left (f S p1024) (blocks 128 (pad 128 msg)) (iv p1024 bits).

Definition fits (bs : nat) (msg : list N) : Prop :=
  (N.of_nat (pad_blocks bs (length msg)) < 2 ^ 64)%N.

Lemma iv512_length bits : length (iv p512 bits) = 64.
Proof. unfold iv, be_split. now rewrite rev_length, le_split_length. Qed.
Lemma iv1024_length bits : length (iv p1024 bits) = 128.
Proof. unfold iv, be_split. now rewrite rev_length, le_split_length. Qed.

Lemma model512_final S bits msg : bits = 224%N \/ bits = 256%N -> fits 64 msg ->
  finalize_dirty (comp512 S) (update (comp512 S) (new_truncated (comp512 S) bits) msg)
  = concat (of512 S (LA (final512 S bits msg)))
  /\ length (final512 S bits msg) = 64.
Proof.
  intros Hb Hfit.
  rewrite hasher_schedule_new by (cbn [comp512 c_bytes]; (lia || exact Hfit)).
  cbn [comp512 c_bytes c_of c_tf new_truncated h_cv c_init].
  change (64 / 16) with 4. change (64 / 8) with 8.
  rewrite init512_iv by exact Hb.
  destruct (fold_tf512 S (blocks 64 (pad 64 msg)) (iv p512 bits)) as [E L].
  - apply blocks_Forall_length.
  - apply iv512_length.
  - rewrite E. split; [reflexivity|exact L].
Qed.

Lemma model1024_final S bits msg : bits = 384%N \/ bits = 512%N -> fits 128 msg ->
  finalize_dirty (comp1024 S) (update (comp1024 S) (new_truncated (comp1024 S) bits) msg)
  = concat (of1024 S (L1024 (final1024 S bits msg)))
  /\ length (final1024 S bits msg) = 128.
Proof.
  intros Hb Hfit.
  rewrite hasher_schedule_new by (cbn [comp1024 c_bytes]; (lia || exact Hfit)).
  cbn [comp1024 c_bytes c_of c_tf new_truncated h_cv c_init].
  change (128 / 16) with 8. change (128 / 8) with 16.
  rewrite init1024_iv by exact Hb.
  destruct (fold_tf1024 S (blocks 128 (pad 128 msg)) (iv p1024 bits)) as [E L].
  - apply blocks_Forall_length.
  - apply iv1024_length.
  - rewrite E. split; [reflexivity|exact L].
Qed.

Lemma omega512_length S h : length h = 64 -> length (omega S p512 h) = 64.
Proof. intros H. unfold omega. rewrite xor_bytes_length, P512_length, H by assumption. reflexivity. Qed.
Lemma omega1024_length S h : length h = 128 -> length (omega S p1024 h) = 128.
Proof. intros H. unfold omega. rewrite xor_bytes_length, P1024_length, H by assumption. reflexivity. Qed.

(** the specification in terms of the final state *)
Lemma spec512_final S n msg :
  hash S p512 n msg = trunc n (omega S p512 (final512 S (8 * N.of_nat n) msg)).
Proof. reflexivity. Qed.
Lemma spec1024_final S n msg :
  hash S p1024 n msg = trunc n (omega S p1024 (final1024 S (8 * N.of_nat n) msg)).
Proof. reflexivity. Qed.

(** * the four theorems *)

Theorem groestl256_eq_spec msg : fits 64 msg -> m_groestl256 msg = groestl256 msg.
Proof.
  intros Hfit. unfold m_groestl256, digest, groestl256.
  rewrite (hash_ext sbox sbox_fast sbox_eq).
  destruct (model512_final sbox_fast 256 msg (or_intror eq_refl) Hfit) as [E L]. rewrite E.
  unfold out256. change (8 * 4) with 32. rewrite of512_eq by exact L.
  rewrite spec512_final. change (8 * N.of_nat 32)%N with 256%N.
  unfold trunc. now rewrite omega512_length by exact L.
Qed.

Theorem groestl224_eq_spec msg : fits 64 msg -> m_groestl224 msg = groestl224 msg.
Proof.
  intros Hfit. unfold m_groestl224, digest, groestl224.
  rewrite (hash_ext sbox sbox_fast sbox_eq).
  destruct (model512_final sbox_fast 224 msg (or_introl eq_refl) Hfit) as [E L]. rewrite E.
  rewrite spec512_final. change (8 * N.of_nat 28)%N with 224%N.
  set (h := final512 sbox_fast 224 msg) in *.
  set (r := concat (of512 sbox_fast (LA h))).
  assert (T : skipn 32 r = skipn 32 (omega sbox_fast p512 h)) by (apply of512_eq; exact L).
  assert (Lo : length (omega sbox_fast p512 h) = 64) by (apply omega512_length; exact L).
  assert (Bo : Forall is_byte (omega sbox_fast p512 h)).
  { apply omega_bytes; [exact sbox_fast_byte'|cbn; lia|].
    apply fold_f_bytes; [exact sbox_fast_byte'|cbn; lia|apply iv_bytes]. }
  unfold out224, trunc. rewrite Lo. change (64 - 28) with 36.
  change (8 * 5) with 40.
  replace (skipn 40 r) with (skipn 8 (skipn 32 r)) by (rewrite skipn_add; reflexivity).
  rewrite T.
  replace (skipn 36 (omega sbox_fast p512 h)) with (skipn 4 (skipn 32 (omega sbox_fast p512 h)))
    by (rewrite skipn_add; reflexivity).
  apply out224_cut; [rewrite skipn_length; lia|now apply Forall_skipn'].
Qed.

Theorem groestl512_eq_spec msg : fits 128 msg -> m_groestl512 msg = groestl512 msg.
Proof.
  intros Hfit. unfold m_groestl512, digest, groestl512.
  rewrite (hash_ext sbox sbox_fast sbox_eq).
  destruct (model1024_final sbox_fast 512 msg (or_intror eq_refl) Hfit) as [E L]. rewrite E.
  unfold out512. change (8 * 8) with 64. rewrite of1024_eq by exact L.
  rewrite spec1024_final. change (8 * N.of_nat 64)%N with 512%N.
  unfold trunc. now rewrite omega1024_length by exact L.
Qed.

Theorem groestl384_eq_spec msg : fits 128 msg -> m_groestl384 msg = groestl384 msg.
Proof.
  intros Hfit. unfold m_groestl384, digest, groestl384.
  rewrite (hash_ext sbox sbox_fast sbox_eq).
  destruct (model1024_final sbox_fast 384 msg (or_introl eq_refl) Hfit) as [E L]. rewrite E.
  rewrite spec1024_final. change (8 * N.of_nat 48)%N with 384%N.
  set (h := final1024 sbox_fast 384 msg) in *.
  assert (T := of1024_eq sbox_fast h L).
  assert (Lo : length (omega sbox_fast p1024 h) = 128) by (apply omega1024_length; exact L).
  unfold out384, trunc. rewrite Lo. change (128 - 48) with 80. change (8 * 10) with 80.
  replace 80 with (64 + 16) by reflexivity. rewrite <- !skipn_add. now rewrite T.
Qed.
