(** C15: stream parameters ([set_stream_param] / [get_stream_param]) and the stream-equality
    predicates of Model/ChaChaGuts.v. *)
From Coq Require Import NArith List Lia Arith Bool.
From CC Require Import Lib.Words Lib.Bytes Lib.ListX Spec.Lanes Model.ChaChaGuts.
From CC Require Import Proofs.ChaChaRounds Proofs.ChaChaGutsWords Proofs.ChaChaGuts.
From CC Require Spec.ChaCha.
Import ListNotations.
Local Open Scope N_scope.

(** the 64-bit value held in words 2p, 2p+1 *)
Lemma get_param_words a b c e kb kc p : p < 2 -> a < 2^32 -> c < 2^32 ->
  get_stream_param (CC kb kc [a; b; c; e]) p = Some (if p =? 0 then a + 2^32 * b else c + 2^32 * e).
Proof.
  intros Hp Ha Hc. assert (E : p = 0 \/ p = 1) by lia.
  destruct E as [-> | ->].
  - change (get_stream_param (CC kb kc [a; b; c; e]) 0) with (Some (N.lor (N.shiftl b 32) a)).
    now rewrite lor_shiftl_add.
  - change (get_stream_param (CC kb kc [a; b; c; e]) 1) with (Some (N.lor (N.shiftl e 32) c)).
    now rewrite lor_shiftl_add.
Qed.

Lemma set_param_words a b c e kb kc p v : p < 2 ->
  set_stream_param (CC kb kc [a; b; c; e]) p v =
  Some (CC kb kc (if p =? 0 then [v mod 2^32; (v / 2^32) mod 2^32; c; e]
                  else [a; b; v mod 2^32; (v / 2^32) mod 2^32])).
Proof.
  intros Hp. assert (E : p = 0 \/ p = 1) by lia.
  destruct E as [-> | ->].
  - change (set_stream_param (CC kb kc [a; b; c; e]) 0 v)
      with (Some (CC kb kc [wrap 32 v; wrap 32 (N.shiftr v 32); c; e])).
    now rewrite !wrap_mod, N.shiftr_div_pow2.
  - change (set_stream_param (CC kb kc [a; b; c; e]) 1 v)
      with (Some (CC kb kc [a; b; wrap 32 v; wrap 32 (N.shiftr v 32)])).
    now rewrite !wrap_mod, N.shiftr_div_pow2.
Qed.

Lemma split64 v : v < 2^64 -> v mod 2^32 + 2^32 * ((v / 2^32) mod 2^32) = v.
Proof.
  intros Hv. rewrite (N.mod_small (v / 2^32)).
  - rewrite N.add_comm. symmetry. apply N.div_mod. discriminate.
  - apply N.div_lt_upper_bound; [discriminate|exact Hv].
Qed.

Lemma wf_inv s : wf s -> exists a b c e, cd s = [a; b; c; e] /\ a < 2^32 /\ b < 2^32 /\ c < 2^32 /\ e < 2^32.
Proof. intros (_ & _ & H). now apply wf4_inv. Qed.

Lemma mod32_lt x : x mod 2^32 < 2^32.
Proof. apply N.mod_lt. discriminate. Qed.

(** [set] always succeeds for parameter 0 or 1 and gives a well-formed state *)
Lemma set_param_ok s p v : wf s -> p < 2 -> exists s', set_stream_param s p v = Some s' /\ wf s'.
Proof.
  intros Hwf Hp. destruct (wf_inv s Hwf) as (a & b & c & e & E & Ha & Hb & Hc & He).
  destruct s as [kb kc d]. cbn [cd] in E. subst d. rewrite set_param_words by exact Hp.
  eexists; split; [reflexivity|]. destruct Hwf as (Wb & Wc & _).
  repeat split; try apply Wb; try apply Wc; cbn [cd];
    destruct (p =? 0); repeat constructor; try assumption; apply mod32_lt.
Qed.

(** round trip *)
Theorem get_set_param s p v s' : wf s -> p < 2 -> v < 2^64 ->
  set_stream_param s p v = Some s' -> get_stream_param s' p = Some v.
Proof.
  intros Hwf Hp Hv. destruct (wf_inv s Hwf) as (a & b & c & e & E & Ha & Hb & Hc & He).
  destruct s as [kb kc d]. cbn [cd] in E. subst d. rewrite set_param_words by exact Hp.
  intros [= <-]. assert (Ep : p = 0 \/ p = 1) by lia.
  destruct Ep as [-> | ->]; cbn [N.eqb]; rewrite get_param_words by (try apply mod32_lt; assumption || lia);
    cbn [N.eqb Pos.eqb]; now rewrite split64.
Qed.

(** isolation: the other parameter and the key words are untouched *)
Theorem set_param_isolated s p v s' : wf s -> p < 2 ->
  set_stream_param s p v = Some s' ->
  get_stream_param s' (1 - p) = get_stream_param s (1 - p) /\ cb s' = cb s /\ cc s' = cc s.
Proof.
  intros Hwf Hp. destruct (wf_inv s Hwf) as (a & b & c & e & E & Ha & Hb & Hc & He).
  destruct s as [kb kc d]. cbn [cd] in E. subst d. rewrite set_param_words by exact Hp.
  intros [= <-]. assert (Ep : p = 0 \/ p = 1) by lia.
  destruct Ep as [-> | ->]; cbn [N.eqb N.sub cb cc]; repeat split;
    rewrite !get_param_words by (try apply mod32_lt; assumption || lia); reflexivity.
Qed.

(** setting parameter 0 is [seek64] *)
Theorem set_param0_eq_seek s v : set_stream_param s 0 v = Some (seek64 s v).
Proof. reflexivity. Qed.

(** a state built directly from key words, counter and stream id *)
Definition direct_state (kb kc : list N) (ctr id : N) : chacha :=
  CC kb kc [ctr mod 2^32; (ctr / 2^32) mod 2^32; id mod 2^32; (id / 2^32) mod 2^32].

(** whatever the state held before, after setting both parameters (in either order) the
    state is the one built directly from those values *)
Theorem set_both_eq_direct s ctr id s1 s2 : length (cd s) = 4%nat ->
  (set_stream_param s 1 id = Some s1 /\ set_stream_param s1 0 ctr = Some s2) \/
  (set_stream_param s 0 ctr = Some s1 /\ set_stream_param s1 1 id = Some s2) ->
  s2 = direct_state (cb s) (cc s) ctr id.
Proof.
  intros Hl. destruct s as [kb kc d]. cbn [cd] in Hl.
  destruct d as [|a [|b [|c [|e [|? ?]]]]]; try discriminate Hl.
  intros [[H1 H2] | [H1 H2]]; rewrite set_param_words in H1 by lia; injection H1 as <-;
    cbn [N.eqb] in H2; rewrite set_param_words in H2 by lia; injection H2 as <-; reflexivity.
Qed.

(** [ChaCha::new] with an 8-byte nonce, then set parameter 1 := id  =  [new] with nonce = id (little-endian) *)
Theorem set_param1_eq_new key nonce id : length key = 32%nat -> length nonce = 8%nat ->
  set_stream_param (init_chacha key nonce) 1 id = Some (init_chacha key (le_split 8 id)).
Proof.
  intros Hk Hn. explode nonce. unfold init_chacha.
  rewrite le_split_length. cbn [length Nat.eqb Nat.sub].
  rewrite set_param_words by lia. cbn [N.eqb Pos.eqb]. do 2 f_equal.
  change (le_split 8 id) with (le_split (4 + 4) id). rewrite le_split_app.
  change (firstn 4 (skipn 0 (le_split 4 id ++ le_split 4 (N.shiftr id (8 * N.of_nat 4)))))
    with (firstn 4 (le_split 4 id ++ le_split 4 (N.shiftr id 32))).
  rewrite firstn_app, le_split_length, Nat.sub_diag, firstn_O, app_nil_r.
  rewrite (firstn_all2 (le_split 4 id)) by (rewrite le_split_length; lia).
  rewrite skipn_app, le_split_length, Nat.sub_diag.
  rewrite (skipn_all2 (le_split 4 id)) by (rewrite le_split_length; lia).
  cbn [skipn app]. rewrite !le_join_split_mod, N.shiftr_div_pow2. reflexivity.
Qed.

(** both parameters set (either order) on a state made by [new] = [new] with the stream id as
    nonce, seeked to the counter; its next block is the specified block at that counter *)
Theorem set_params_eq_new key nonce ctr id s1 s2 : length key = 32%nat -> length nonce = 8%nat ->
  (set_stream_param (init_chacha key nonce) 1 id = Some s1 /\ set_stream_param s1 0 ctr = Some s2) \/
  (set_stream_param (init_chacha key nonce) 0 ctr = Some s1 /\ set_stream_param s1 1 id = Some s2) ->
  s2 = seek64 (init_chacha key (le_split 8 id)) ctr.
Proof.
  intros Hk Hn H.
  assert (L : length (cd (init_chacha key nonce)) = 4%nat) by reflexivity.
  rewrite (set_both_eq_direct _ ctr id s1 s2 L H).
  symmetry. apply (set_both_eq_direct _ ctr id (init_chacha key (le_split 8 id)) _ L).
  left. split; [now apply set_param1_eq_new | apply set_param0_eq_seek].
Qed.

Theorem set_params_refill_eq_spec key nonce ctr id s1 s2 dr : length key = 32%nat -> length nonce = 8%nat ->
  (set_stream_param (init_chacha key nonce) 1 id = Some s1 /\ set_stream_param s1 0 ctr = Some s2) \/
  (set_stream_param (init_chacha key nonce) 0 ctr = Some s1 /\ set_stream_param s1 1 id = Some s2) ->
  fst (refill s2 dr) = S.spec_block S.Djb dr key (le_split 8 id) ctr.
Proof.
  intros Hk Hn H. rewrite (set_params_eq_new key nonce ctr id s1 s2 Hk Hn H).
  apply block_djb; [exact Hk | apply le_split_length].
Qed.

(** * Stream equality *)
Lemma Some_inj {A} (x y : A) : Some x = Some y -> x = y.
Proof. now intros [= ->]. Qed.

Lemma stream64_eq_words kb kc a0 a1 a2 a3 kb' kc' b0 b1 b2 b3 :
  stream64_eq (CC kb kc [a0; a1; a2; a3]) (CC kb' kc' [b0; b1; b2; b3]) = true <->
  kb = kb' /\ kc = kc' /\ a2 = b2 /\ a3 = b3.
Proof.
  unfold stream64_eq. cbn [cb cc cd nth].
  rewrite !andb_true_iff, !nlist_eqb_eq, !N.eqb_eq. tauto.
Qed.

Lemma stream32_eq_words kb kc a0 a1 a2 a3 kb' kc' b0 b1 b2 b3 :
  stream32_eq (CC kb kc [a0; a1; a2; a3]) (CC kb' kc' [b0; b1; b2; b3]) = true <->
  kb = kb' /\ kc = kc' /\ a1 = b1 /\ a2 = b2 /\ a3 = b3.
Proof.
  unfold stream32_eq. cbn [cb cc cd nth].
  rewrite !andb_true_iff, !nlist_eqb_eq, !N.eqb_eq. tauto.
Qed.

(** true exactly when the key words and the stream id (parameter 1) agree *)
Theorem stream64_eq_iff x y : wf x -> wf y ->
  (stream64_eq x y = true <->
   cb x = cb y /\ cc x = cc y /\ get_stream_param x 1 = get_stream_param y 1).
Proof.
  intros Hx Hy.
  destruct (wf_inv x Hx) as (a0 & a1 & a2 & a3 & Ex & Ha0 & Ha1 & Ha2 & Ha3).
  destruct (wf_inv y Hy) as (b0 & b1 & b2 & b3 & Ey & Hb0 & Hb1 & Hb2 & Hb3).
  destruct x as [kb kc dx], y as [kb' kc' dy]. cbn [cd] in Ex, Ey. subst dx dy.
  rewrite stream64_eq_words, !get_param_words by (assumption || lia). cbn [cb cc N.eqb Pos.eqb].
  split.
  - intros (-> & -> & -> & ->). auto.
  - intros (-> & -> & E). apply Some_inj in E. change (2^32) with 4294967296 in *. repeat split; try reflexivity; lia.
Qed.

(** … equivalently: [y] is [x] with only the 64-bit block counter changed *)
Theorem stream64_eq_iff_seek x y : wf x -> wf y ->
  (stream64_eq x y = true <-> y = seek64 x (pos64 y)).
Proof.
  intros Hx Hy.
  destruct (wf_inv x Hx) as (a0 & a1 & a2 & a3 & Ex & Ha0 & Ha1 & Ha2 & Ha3).
  destruct (wf_inv y Hy) as (b0 & b1 & b2 & b3 & Ey & Hb0 & Hb1 & Hb2 & Hb3).
  assert (Ep : pos64 y = b0 + 2^32 * b1).
  { rewrite pos64_ctr by apply Hy. rewrite Ey. reflexivity. }
  rewrite Ep. clear Ep.
  destruct x as [kb kc dx], y as [kb' kc' dy]. cbn [cd] in Ex, Ey. subst dx dy.
  rewrite stream64_eq_words. unfold seek64. cbn [cb cc cd]. rewrite set_pos_words.
  assert (E0 : (b0 + 2^32 * b1) mod 2^32 = b0).
  { rewrite N.mul_comm, N.mod_add by discriminate. now apply N.mod_small. }
  assert (E1 : ((b0 + 2^32 * b1) / 2^32) mod 2^32 = b1).
  { rewrite N.mul_comm, N.div_add by discriminate. rewrite (N.div_small b0) by assumption. now apply N.mod_small. }
  rewrite E0, E1. split.
  - intros (-> & -> & -> & ->). reflexivity.
  - intros [= -> -> -> ->]. auto.
Qed.

(** true exactly when the key words and all of d but word 0 agree (32-bit counter = word 0) *)
Theorem stream32_eq_iff x y : wf x -> wf y ->
  (stream32_eq x y = true <->
   cb x = cb y /\ cc x = cc y /\ nth 1 (cd x) 0 = nth 1 (cd y) 0 /\
   get_stream_param x 1 = get_stream_param y 1).
Proof.
  intros Hx Hy.
  destruct (wf_inv x Hx) as (a0 & a1 & a2 & a3 & Ex & Ha0 & Ha1 & Ha2 & Ha3).
  destruct (wf_inv y Hy) as (b0 & b1 & b2 & b3 & Ey & Hb0 & Hb1 & Hb2 & Hb3).
  destruct x as [kb kc dx], y as [kb' kc' dy]. cbn [cd] in Ex, Ey. subst dx dy.
  rewrite stream32_eq_words, !get_param_words by (assumption || lia). cbn [cb cc cd nth N.eqb Pos.eqb].
  split.
  - intros (-> & -> & -> & -> & ->). auto.
  - intros (-> & -> & -> & E). apply Some_inj in E. change (2^32) with 4294967296 in *. repeat split; try reflexivity; lia.
Qed.

Theorem stream32_eq_iff_seek x y : wf x -> wf y ->
  (stream32_eq x y = true <-> y = seek32 x (nth 0 (cd y) 0)).
Proof.
  intros Hx Hy.
  destruct (wf_inv x Hx) as (a0 & a1 & a2 & a3 & Ex & Ha0 & Ha1 & Ha2 & Ha3).
  destruct (wf_inv y Hy) as (b0 & b1 & b2 & b3 & Ey & Hb0 & Hb1 & Hb2 & Hb3).
  destruct x as [kb kc dx], y as [kb' kc' dy]. cbn [cd] in Ex, Ey. subst dx dy.
  rewrite stream32_eq_words. unfold seek32. cbn [cb cc cd nth upd]. rewrite wrap_small by assumption.
  split.
  - intros (-> & -> & -> & -> & ->). reflexivity.
  - intros [= -> -> -> -> ->]. auto.
Qed.

(** non-vacuity and discrimination: two well-formed states that differ only in the high
    counter word are 64-bit-equal but not 32-bit-equal; differing in one stream-id bit or one
    key bit: neither *)
Example stream_eq_examples :
  let x := CC [1; 2; 3; 4] [5; 6; 7; 8] [9; 10; 11; 12] in
  wf x /\
  stream64_eq x (CC [1; 2; 3; 4] [5; 6; 7; 8] [99; 98; 11; 12]) = true /\
  stream32_eq x (CC [1; 2; 3; 4] [5; 6; 7; 8] [99; 98; 11; 12]) = false /\
  stream32_eq x (CC [1; 2; 3; 4] [5; 6; 7; 8] [99; 10; 11; 12]) = true /\
  stream64_eq x (CC [1; 2; 3; 4] [5; 6; 7; 8] [9; 10; 11; 13]) = false /\
  stream64_eq x (CC [1; 2; 3; 4] [5; 6; 7; 0] [9; 10; 11; 12]) = false /\
  stream32_eq x (CC [0; 2; 3; 4] [5; 6; 7; 8] [9; 10; 11; 12]) = false.
Proof. cbv zeta. repeat split; repeat constructor. Qed.

(** * The parameter index exactly as computed by the Rust ([param : u32])

    guts.rs computes [p1 = (param << 1) as usize], [p0 = ((param << 1) | 1) as usize]; the
    shift drops the top bit in every build profile, so besides 0 and 1 the values 2^31 and
    2^31 + 1 also address words 0..3 (as parameter 0 resp. 1); every other value indexes out
    of bounds (panic). Model/ChaChaGuts.v gives [None] for every [param >= 2]; the two
    descriptions agree on the parameters the property is about ([param < 2]). *)
Definition param_index (param : N) : N := wrap 32 (N.shiftl param 1).
Definition set_stream_param_u32 (s : chacha) (param value : N) : option chacha :=
  let p1 := param_index param in let p0 := N.lor p1 1 in
  if 4 <=? p0 then None
  else Some (CC (cb s) (cc s)
               (upd (N.to_nat p1) (wrap 32 value)
                    (upd (N.to_nat p0) (wrap 32 (N.shiftr value 32)) (cd s)))).
Definition get_stream_param_u32 (s : chacha) (param : N) : option N :=
  let p1 := param_index param in let p0 := N.lor p1 1 in
  if 4 <=? p0 then None
  else Some (N.lor (N.shiftl (nth (N.to_nat p0) (cd s) 0) 32) (nth (N.to_nat p1) (cd s) 0)).

Lemma param_u32_agrees s p v : p < 2 ->
  set_stream_param_u32 s p v = set_stream_param s p v /\
  get_stream_param_u32 s p = get_stream_param s p.
Proof.
  intros Hp. assert (E : p = 0 \/ p = 1) by lia. destruct E as [-> | ->]; split; reflexivity.
Qed.

Example param_u32_alias s v :
  set_stream_param_u32 s (2^31) v = set_stream_param_u32 s 0 v /\
  set_stream_param_u32 s (2^31 + 1) v = set_stream_param_u32 s 1 v /\
  set_stream_param_u32 s 2 v = None /\ set_stream_param_u32 s (2^32 - 1) v = None.
Proof. repeat split; reflexivity. Qed.
