(** C16 — the addressed FULL model of [try_apply_keystream] (Model/SliceApiStream.v) equals the
    faithful list model of Model/ChaChaStream.v on the bytes of the slice, never leaves the slice,
    and changes nothing outside it; the simplified [m_apply] of Model/SliceApi.v is its special
    case (non-negative [have], limit not hit, states indexed by a counter). *)
From Coq Require Import NArith ZArith List Arith Lia Bool ZifyBool ZifyN ZifyNat.
From CC Require Import Lib.Words Lib.Bytes Lib.ListX Model.BlockBuffer Model.ChaChaGuts Model.ChaChaStream
  Model.SliceApi Model.SliceApiStream Proofs.SliceApi.
Import ListNotations.
Ltac Zify.zify_post_hook ::= Z.div_mod_to_equations.

(** * helpers *)
Lemma xor_bytes_firstn_ge a b n : length a <= n -> xor_bytes a (firstn n b) = xor_bytes a b.
Proof.
  revert b n; induction a as [|x a IH]; intros [|y b] [|n] H; cbn [xor_bytes firstn length] in *; try reflexivity; try lia.
  f_equal. apply IH. lia.
Qed.

Lemma xor_at_b_split A D ks n :
  n <= length D -> n <= length ks ->
  xor_at_b (A ++ D) (length A) ks n = A ++ xor_bytes (firstn n D) ks ++ skipn n D.
Proof.
  intros HD Hk. unfold xor_at_b.
  rewrite firstn_len_app, skipn_len_app, skipn_plus_app.
  rewrite xor_bytes_firstn_ge by (rewrite firstn_length; lia). reflexivity.
Qed.

(** the buffer's key-stream block has its 64 bytes and the producers keep their state well formed
    ([okst] is [wf] of Proofs/ChaChaGutsWords.v for the real producers) *)
Definition buf_ok (okst : chacha -> Prop) (b : buffer) : Prop := length (b_out b) = 64 /\ okst (b_state b).

Section Tie.
  Variables refill1 refill4 : chacha -> list N * chacha.
  Variable okst : chacha -> Prop.
  Hypothesis r1_ok : forall st, okst st -> length (fst (refill1 st)) = 64 /\ okst (snd (refill1 st)).
  Hypothesis r4_ok : forall st, okst st -> length (fst (refill4 st)) = 256 /\ okst (snd (refill4 st)).

  Notation wide_loop := (ChaChaStream.wide_loop refill4).
  Notation tail_loop := (ChaChaStream.tail_loop refill1).
  Notation apply_body := (ChaChaStream.apply_body refill1 refill4).
  Notation apply_core := (ChaChaStream.apply_core refill1 refill4).
  Notation try_apply := (ChaChaStream.try_apply refill1 refill4).

  (** ** the wide part *)
  Lemma a_wide_view pre post L n : forall st A D i,
    okst st -> i = length A -> length A + length D = L -> 256 * n <= length D ->
    a_wide_loop refill4 n st (pre ++ (A ++ D) ++ post) (Sl (length pre) L) i
    = Some (fst (wide_loop n st D), pre ++ (A ++ snd (wide_loop n st D) ++ skipn (256 * n) D) ++ post)
    /\ okst (fst (wide_loop n st D)) /\ length (snd (wide_loop n st D)) = 256 * n.
  Proof.
    induction n as [|k IH]; intros st A D i Hst Hi HL Hn; cbn [a_wide_loop ChaChaStream.wide_loop].
    - cbn [fst snd app]. rewrite Nat.mul_0_r. cbn [skipn length]. auto.
    - destruct (r4_ok st Hst) as (Hlen & Hst').
      destruct (refill4 st) as [buf st'] eqn:E4. cbn [fst snd] in Hlen, Hst'.
      subst i.
      rewrite xor_at_view by (rewrite ?app_length; lia).
      rewrite xor_at_b_split by lia.
      set (X := xor_bytes (firstn 256 D) buf).
      assert (LX : length X = 256) by (unfold X; rewrite xor_bytes_length, firstn_length; lia).
      replace (A ++ X ++ skipn 256 D) with ((A ++ X) ++ skipn 256 D) by (now rewrite app_assoc).
      destruct (IH st' (A ++ X) (skipn 256 D) (length A + 256) Hst') as (E & Hok & Hl).
      + rewrite app_length. lia.
      + rewrite app_length, skipn_length. lia.
      + rewrite skipn_length. lia.
      + rewrite E. destruct (wide_loop k st' (skipn 256 D)) as [s'' rest]. cbn [fst snd] in *.
        split; [|split; [exact Hok | rewrite app_length; lia]].
        f_equal. f_equal. f_equal. rewrite skipn_skipn'.
        replace (256 + 256 * k) with (256 * S k) by lia.
        now rewrite <- !app_assoc.
  Qed.

  (** ** the tail *)
  Lemma a_tail_view pre post L nch : forall st out have A D i fuel,
    okst st -> length out = 64 -> i = length A -> length A + length D = L ->
    nch = (length D + 63) / 64 -> length D <= fuel ->
    exists s3 o3 h3 t,
      tail_loop (ChaChaStream.chunks 64 fuel D) st out have = (s3, o3, h3, t)
      /\ a_tail_loop refill1 nch st out have (pre ++ (A ++ D) ++ post) (Sl (length pre) L) i (length D)
         = Some (s3, o3, h3, pre ++ (A ++ t) ++ post)
      /\ okst s3 /\ length o3 = 64 /\ length t = length D.
  Proof.
    induction nch as [|k IH]; intros st out have A D i fuel Hst Hout Hi HL Hn Hf.
    - assert (D = []) by (destruct D; [reflexivity | cbn [length] in Hn; lia]). subst D.
      exists st, out, have, []. destruct fuel; cbn [ChaChaStream.chunks ChaChaStream.tail_loop a_tail_loop length]; auto.
    - destruct D as [|x D']; [cbn [length] in Hn; lia|].
      set (D := x :: D') in *.
      assert (HD : 0 < length D) by (unfold D; cbn [length]; lia).
      destruct fuel as [|f]; [lia|].
      change (ChaChaStream.chunks 64 (S f) D) with (firstn 64 D :: ChaChaStream.chunks 64 f (skipn 64 D)).
      cbn [ChaChaStream.tail_loop a_tail_loop]. cbv zeta.
      destruct (r1_ok st Hst) as (Hlen & Hst').
      destruct (refill1 st) as [o st'] eqn:E1. cbn [fst snd] in Hlen, Hst'.
      set (n := Nat.min 64 (length D)).
      assert (Ln : length (firstn 64 D) = n) by (rewrite firstn_length; unfold n; lia).
      subst i.
      rewrite xor_at_view by (rewrite ?app_length; lia).
      rewrite xor_at_b_split by lia.
      assert (EF : firstn n D = firstn 64 D).
      { unfold n. destruct (Nat.le_gt_cases 64 (length D)) as [H|H].
        - now rewrite Nat.min_l by assumption.
        - rewrite Nat.min_r by lia. now rewrite !firstn_all2 by lia. }
      assert (ES : skipn n D = skipn 64 D).
      { unfold n. destruct (Nat.le_gt_cases 64 (length D)) as [H|H].
        - now rewrite Nat.min_l by assumption.
        - rewrite Nat.min_r by lia. now rewrite !skipn_all2 by lia. }
      rewrite EF, ES.
      set (X := xor_bytes (firstn 64 D) o).
      assert (LX : length X = n) by (unfold X; rewrite xor_bytes_length; lia).
      replace (A ++ X ++ skipn 64 D) with ((A ++ X) ++ skipn 64 D) by (now rewrite app_assoc).
      assert (LS : length (skipn 64 D) = length D - n) by (rewrite skipn_length; unfold n; lia).
      destruct (IH st' o (64 - N.of_nat (length (firstn 64 D)))%N (A ++ X) (skipn 64 D) (length A + n) f Hst' Hlen)
        as (s3 & o3 & h3 & t & ET & EA & Hok & Ho3 & Lt).
      + rewrite app_length. lia.
      + rewrite app_length. lia.
      + rewrite LS. unfold n. lia.
      + lia.
      + exists s3, o3, h3, (X ++ t). rewrite ET. split; [reflexivity|].
        rewrite Ln in EA. rewrite <- LS. rewrite EA.
        split; [now rewrite <- !app_assoc|]. split; [exact Hok|]. split; [exact Ho3|].
        rewrite app_length. lia.
  Qed.

  (** ** the body *)
  Lemma a_apply_body_view wide pre body post L b :
    length body = L -> buf_ok okst b ->
    exists r b' out,
      apply_body wide b body = (r, b', out)
      /\ a_apply_body refill1 refill4 wide b (pre ++ body ++ post) (Sl (length pre) L)
         = Some (r, b', pre ++ out ++ post)
      /\ length out = L /\ buf_ok okst b' /\ (r <> ROk -> out = body /\ b' = b).
  Proof.
    intros HL (Hout & Hst). unfold a_apply_body, ChaChaStream.apply_body. cbn [s_len]. rewrite HL.
    set (have := have_usize (b_have b)).
    set (dl := N.of_nat L).
    set (hready := N.min have dl).
    set (needed := ((dl - hready) / 64 + (if ((dl - hready) mod 64 =? 0)%N then 0 else 1))%N).
    destruct ((b_len b <? needed)%N && negb (b_fresh b)).
    { exists RErr, b, body. repeat split; auto. }
    destruct (N.ltb_spec 64 have) as [Hbig|Hle].
    { exists RPanic, b, body. repeat split; auto. }
    set (hr := N.to_nat hready).
    set (K := skipn (N.to_nat (64 - have)) (b_out b)).
    assert (Hhr : hr <= L /\ hr <= length K).
    { unfold K, hr, hready, dl. rewrite skipn_length. lia. }
    destruct Hhr as (HhrL & HhrK).
    rewrite xor_at_view by (try assumption; lia).
    set (d0 := xor_bytes (firstn hr body) K).
    assert (Ld0 : length d0 = hr) by (unfold d0; rewrite xor_bytes_length, firstn_length; lia).
    assert (E0 : xor_at_b body 0 K hr = d0 ++ skipn hr body).
    { change body with ([] ++ body) at 1. change 0 with (length (@nil N)).
      rewrite xor_at_b_split by lia. reflexivity. }
    rewrite E0.
    set (data1 := skipn hr body).
    assert (L1 : length data1 = L - hr) by (unfold data1; rewrite skipn_length; lia).
    rewrite <- L1.
    set (nw := if wide then length data1 / 256 else 0).
    assert (Hnw : 256 * nw <= length data1).
    { unfold nw. destruct wide; [apply Nat.mul_div_le; lia | lia]. }
    destruct (a_wide_view pre post L nw (b_state b) d0 data1 hr Hst (eq_sym Ld0) ltac:(lia) Hnw) as (EW & HokW & LW).
    rewrite EW. destruct (wide_loop nw (b_state b) data1) as [s2 out_w]. cbn [fst snd] in *.
    set (data2 := skipn (256 * nw) data1).
    assert (L2 : length data2 = length data1 - 256 * nw) by (unfold data2; rewrite skipn_length; lia).
    rewrite <- L2.
    replace (d0 ++ out_w ++ data2) with ((d0 ++ out_w) ++ data2) by (now rewrite app_assoc).
    destruct (a_tail_view pre post L ((length data2 + 63) / 64) s2 (b_out b) (have - hready)%N
                (d0 ++ out_w) data2 (hr + 256 * nw) (length data2) HokW Hout)
      as (s3 & o3 & h3 & t & ET & EA & Hok3 & Ho3 & Lt); try reflexivity; try lia.
    { rewrite app_length. lia. }
    { rewrite app_length. lia. }
    rewrite ET, EA.
    eexists ROk, _, (d0 ++ out_w ++ t). split; [reflexivity|]. split; [now rewrite <- !app_assoc|].
    split; [rewrite !app_length; lia|]. split; [split; assumption|]. intros H; now elim H.
  Qed.

  Lemma lazy_fill_ok b : buf_ok okst b -> buf_ok okst (lazy_fill refill1 b).
  Proof.
    intros (Hout & Hst). unfold lazy_fill. destruct (b_have b <? 0)%Z; [|split; assumption].
    destruct (r1_ok _ Hst) as (Hl & Hs). destruct (refill1 (b_state b)) as [o s']. split; assumption.
  Qed.

  (** the result of the addressed call, as a function of the list model's result *)
  Definition on_slice (pre post : list N) (R : result * buffer * list N) : option (result * buffer * mem) :=
    Some (fst (fst R), snd (fst R), pre ++ snd R ++ post).

  Lemma a_apply_core_view wide pre body post L b :
    length body = L -> buf_ok okst b ->
    a_apply_core refill1 refill4 wide b (pre ++ body ++ post) (Sl (length pre) L)
      = on_slice pre post (apply_core wide b body)
    /\ length (snd (apply_core wide b body)) = L /\ buf_ok okst (snd (fst (apply_core wide b body)))
    /\ (fst (fst (apply_core wide b body)) <> ROk -> snd (apply_core wide b body) = body).
  Proof.
    intros HL Hb. unfold a_apply_core, ChaChaStream.apply_core, on_slice.
    destruct (a_apply_body_view wide pre body post L _ HL (lazy_fill_ok b Hb)) as (r & b' & out & E & EA & Lo & Hok & Hne).
    rewrite E, EA. cbn [fst snd]. repeat split; try assumption; try apply Hok. intros H. now apply Hne.
  Qed.

  Lemma a_try_apply_view is12 pre body post L b :
    length body = L -> buf_ok okst b ->
    a_try_apply refill1 refill4 is12 b (pre ++ body ++ post) (Sl (length pre) L)
      = on_slice pre post (try_apply is12 b body)
    /\ length (snd (try_apply is12 b body)) = L
    /\ (fst (fst (try_apply is12 b body)) <> ROk -> snd (try_apply is12 b body) = body).
  Proof.
    intros HL Hb. unfold a_try_apply, ChaChaStream.try_apply.
    destruct (a_apply_core_view true pre body post L b HL Hb) as (E & Lo & _ & Hne).
    destruct is12; cbn [negb].
    - rewrite E. unfold on_slice. destruct (apply_core true b body) as [[r b'] out]. cbn [fst snd] in *. auto.
    - auto.
  Qed.

  (** the successor buffer again has its 64 key-stream bytes (so the statements below apply to
      the next call) — a fact about the list model *)
  Lemma try_apply_out_len is12 b data :
    buf_ok okst b -> length (b_out (snd (fst (try_apply is12 b data)))) = 64.
  Proof.
    intros Hb.
    destruct (a_apply_body_view true [] data [] (length data) _ eq_refl (lazy_fill_ok b Hb))
      as (r & b' & out & E & _ & _ & (Ho & _) & _).
    unfold ChaChaStream.try_apply, ChaChaStream.apply_core. rewrite E.
    destruct is12; cbn [negb fst snd b_out]; exact Ho.
  Qed.

  (** ** statements about a slice of an arbitrary memory *)

  (** (a)+(b)+(c): for every memory, slice base address and length, every buffer whose [out] has
      its 64 bytes and whose state the producers accept: the addressed call performs all its
      reads and writes inside the slice (it is not [None]); result, successor buffer and the
      bytes of the slice afterwards are those of [ChaChaStream.try_apply] applied to the bytes of
      the slice; memory outside the slice (and its size) is unchanged *)
  Theorem a_try_apply_spec is12 b m s :
    slice_ok m s -> buf_ok okst b ->
    exists m',
      a_try_apply refill1 refill4 is12 b m s
        = Some (fst (fst (try_apply is12 b (sbytes m s))), snd (fst (try_apply is12 b (sbytes m s))), m')
      /\ sbytes m' s = snd (try_apply is12 b (sbytes m s))
      /\ same_outside m m' s.
  Proof.
    intros Hs Hb. destruct (slice_view m s Hs) as (pre & body & post & -> & Hp & Hl).
    destruct s as [off len]; cbn [s_off s_len] in *. subst off.
    rewrite (sbytes_view pre body post len Hl).
    destruct (a_try_apply_view is12 pre body post len b Hl Hb) as (E & Lo & _).
    eexists. split; [exact E|]. split.
    - now apply sbytes_view.
    - now apply same_outside_view.
  Qed.

  Theorem a_apply_core_spec wide b m s :
    slice_ok m s -> buf_ok okst b ->
    exists m',
      a_apply_core refill1 refill4 wide b m s
        = Some (fst (fst (apply_core wide b (sbytes m s))), snd (fst (apply_core wide b (sbytes m s))), m')
      /\ sbytes m' s = snd (apply_core wide b (sbytes m s))
      /\ same_outside m m' s
      /\ buf_ok okst (snd (fst (apply_core wide b (sbytes m s)))).
  Proof.
    intros Hs Hb. destruct (slice_view m s Hs) as (pre & body & post & -> & Hp & Hl).
    destruct s as [off len]; cbn [s_off s_len] in *. subst off.
    rewrite (sbytes_view pre body post len Hl).
    destruct (a_apply_core_view wide pre body post len b Hl Hb) as (E & Lo & Hok & _).
    eexists. split; [exact E|]. split; [|split].
    - now apply sbytes_view.
    - now apply same_outside_view.
    - exact Hok.
  Qed.

  (** (a) no access outside the slice *)
  Theorem a_try_apply_in_bounds is12 b m s :
    slice_ok m s -> buf_ok okst b -> a_try_apply refill1 refill4 is12 b m s <> None.
  Proof. intros Hs Hb. destruct (a_try_apply_spec is12 b m s Hs Hb) as (m' & E & _). now rewrite E. Qed.

  (** (b) nothing outside the slice is written *)
  Theorem a_try_apply_writes_exactly is12 b m s r b' m' :
    slice_ok m s -> buf_ok okst b -> a_try_apply refill1 refill4 is12 b m s = Some (r, b', m') ->
    same_outside m m' s.
  Proof.
    intros Hs Hb E. destruct (a_try_apply_spec is12 b m s Hs Hb) as (m2 & E2 & _ & Ho).
    rewrite E in E2. now inversion E2; subst.
  Qed.

  (** alignment independence: equal contents at two addresses in two memories *)
  Theorem a_try_apply_address_independent is12 b m1 s1 m2 s2 :
    slice_ok m1 s1 -> slice_ok m2 s2 -> buf_ok okst b -> sbytes m1 s1 = sbytes m2 s2 ->
    exists r b' m1' m2',
      a_try_apply refill1 refill4 is12 b m1 s1 = Some (r, b', m1')
      /\ a_try_apply refill1 refill4 is12 b m2 s2 = Some (r, b', m2')
      /\ sbytes m1' s1 = sbytes m2' s2.
  Proof.
    intros H1 H2 Hb E.
    destruct (a_try_apply_spec is12 b m1 s1 H1 Hb) as (m1' & E1 & V1 & _).
    destruct (a_try_apply_spec is12 b m2 s2 H2 Hb) as (m2' & E2 & V2 & _).
    rewrite <- E in E2, V2. do 2 eexists. exists m1', m2'.
    split; [exact E1|]. split; [exact E2|]. now rewrite V1, V2.
  Qed.

  (** the Err return (and the modelled panic) leaves the data as it was: not only the same bytes,
      the addressed model performs no access at all *)
  Theorem a_try_apply_not_ok_untouched is12 b m s r b' m' :
    a_try_apply refill1 refill4 is12 b m s = Some (r, b', m') -> r <> ROk -> m' = m.
  Proof.
    assert (Hbody : forall wide b0 r0 b0' m0', a_apply_body refill1 refill4 wide b0 m s = Some (r0, b0', m0') -> r0 <> ROk -> m0' = m).
    { intros wide b0 r0 b0' m0'. unfold a_apply_body.
      destruct (_ && _); [intros H; now inversion H|].
      destruct (_ <? _)%N; [intros H; now inversion H|].
      destruct (xor_at _ _ _ _ _); [|discriminate].
      destruct (a_wide_loop _ _ _ _ _ _) as [[s2 m2]|]; [|discriminate].
      destruct (a_tail_loop _ _ _ _ _ _ _ _ _) as [[[[s3 o3] h3] m3]|]; [|discriminate].
      intros H Hr. inversion H; subst. now elim Hr. }
    unfold a_try_apply, a_apply_core. destruct is12; cbn [negb].
    - destruct (a_apply_body _ _ _ _ _ _) as [[[r0 b0'] m0']|] eqn:E; [|discriminate].
      intros H Hr. inversion H; subst. eapply Hbody; eauto.
    - intros H Hr. eapply Hbody; eauto.
  Qed.
End Tie.

(** * [m_apply] of Model/SliceApi.v is the special case "buffered bytes available (0 <= have <= 64),
    limit not hit, states indexed by a counter" of the full addressed model *)
Definition limit_hit (b : buffer) (len : nat) : bool :=
  let have := have_usize (b_have b) in
  let dl := N.of_nat len in
  let datalen := (dl - N.min have dl)%N in
  let needed := (datalen / 64 + (if (datalen mod 64 =? 0)%N then 0 else 1))%N in
  (b_len b <? needed)%N && negb (b_fresh b).
Definition len_after (b : buffer) (len : nat) : N :=
  let have := have_usize (b_have b) in
  let dl := N.of_nat len in
  let datalen := (dl - N.min have dl)%N in
  wrap 64 (b_len b + 2 ^ 64 - (datalen / 64 + (if (datalen mod 64 =? 0)%N then 0 else 1)))%N.
Definition fresh_after (b : buffer) (len : nat) : bool :=
  let have := have_usize (b_have b) in
  let dl := N.of_nat len in
  let datalen := (dl - N.min have dl)%N in
  b_fresh b && ((datalen / 64 + (if (datalen mod 64 =? 0)%N then 0 else 1)) =? 0)%N.

Section Special.
  Variables refill1 refill4 : chacha -> list N * chacha.
  Variable stq : N -> chacha.          (* the state whose block counter is [c] *)
  Variables k1 k4 : N -> list N.       (* the key stream of one / four blocks from counter [c] *)
  Hypothesis r1_eq : forall c, refill1 (stq c) = (k1 c, stq (c + 1)%N).
  Hypothesis r4_eq : forall c, refill4 (stq c) = (k4 c, stq (c + 4)%N).

  Lemma a_wide_is_wide s n : forall c m i,
    a_wide_loop refill4 n (stq c) m s i
    = match SliceApi.wide_loop k4 n m s i c with Some (m', c') => Some (stq c', m') | None => None end.
  Proof.
    induction n as [|k IH]; intros c m i; cbn [a_wide_loop SliceApi.wide_loop]; [reflexivity|].
    rewrite r4_eq. destruct (xor_at m s i (k4 c) 256); [apply IH | reflexivity].
  Qed.

  Lemma a_tail_is_tail s nch : forall c out hv m i rem,
    a_tail_loop refill1 nch (stq c) out (N.of_nat hv) m s i rem
    = match SliceApi.tail_loop k1 nch m s i rem (KS out hv c) with
      | Some (m', st') => Some (stq (ks_ctr st'), ks_out st', N.of_nat (ks_have st'), m')
      | None => None
      end.
  Proof.
    induction nch as [|k IH]; intros c out hv m i rem; cbn [a_tail_loop SliceApi.tail_loop ks_ctr ks_out ks_have]; [reflexivity|].
    cbv zeta. rewrite r1_eq. destruct (xor_at m s i (k1 c) (Nat.min 64 rem)); [|reflexivity].
    replace (64 - N.of_nat (Nat.min 64 rem))%N with (N.of_nat (64 - Nat.min 64 rem)) by lia.
    apply IH.
  Qed.

  Theorem m_apply_is_special_case b c m s :
    (0 <= b_have b <= 64)%Z -> b_state b = stq c ->
    a_apply_body refill1 refill4 true b m s
    = if limit_hit b (s_len s) then Some (RErr, b, m)
      else match m_apply k1 k4 m s (KS (b_out b) (Z.to_nat (b_have b)) c) with
           | Some (m', st') =>
               Some (ROk, Buf (stq (ks_ctr st')) (ks_out st') (Z.of_nat (ks_have st'))
                              (len_after b (s_len s)) (fresh_after b (s_len s)), m')
           | None => None
           end.
  Proof.
    intros Hh Hs. unfold a_apply_body, limit_hit, len_after, fresh_after, m_apply. cbv zeta.
    destruct (_ && _); [reflexivity|].
    set (have := have_usize (b_have b)).
    assert (Eh : have = Z.to_N (b_have b)).
    { unfold have, have_usize. destruct (Z.ltb_spec (b_have b) 0); [lia|reflexivity]. }
    destruct (N.ltb_spec 64 have) as [H|H]; [lia|].
    cbn [ks_have ks_out ks_ctr].
    set (hn := Z.to_nat (b_have b)).
    replace (N.to_nat (N.min have (N.of_nat (s_len s)))) with (Nat.min hn (s_len s)) by lia.
    replace (N.to_nat (64 - have)) with (64 - hn) by lia.
    destruct (xor_at m s 0 _ _) as [m1|]; [|reflexivity].
    rewrite Hs, a_wide_is_wide.
    destruct (SliceApi.wide_loop k4 _ m1 s _ c) as [[m2 c2]|]; [|reflexivity].
    replace (have - N.min have (N.of_nat (s_len s)))%N with (N.of_nat (hn - Nat.min hn (s_len s))) by lia.
    rewrite a_tail_is_tail.
    destruct (SliceApi.tail_loop _ _ _ _ _ _ _) as [[m3 st3]|]; [|reflexivity].
    do 3 f_equal. f_equal. lia.
  Qed.
End Special.
