(** C16 — the value of key-stream application: the chunked in-place computation equals the xor
    of the data with the key stream the state yields, a function of state and length only. *)
From Coq Require Import NArith List Arith Lia Bool.
From CC Require Import Lib.Words Lib.Bytes Lib.ListX Model.BlockBuffer Model.SliceApi Proofs.SliceApi.
Import ListNotations.

Lemma xor_bytes_app a1 a2 b1 b2 :
  length a1 = length b1 -> xor_bytes (a1 ++ a2) (b1 ++ b2) = xor_bytes a1 b1 ++ xor_bytes a2 b2.
Proof.
  revert b1; induction a1 as [|x a1 IH]; intros [|y b1] H; simpl in *; try discriminate; auto.
  f_equal. apply IH. lia.
Qed.

Lemma firstn_add' {A} (l : list A) a b : firstn (a + b) l = firstn a l ++ firstn b (skipn a l).
Proof.
  revert l; induction a as [|a IH]; intros l; [reflexivity|].
  destruct l as [|x l]; simpl; [now rewrite firstn_nil|]. f_equal. apply IH.
Qed.

Section Xor.
  Variable refill : N -> list N.
  Variable refill4 : N -> list N.
  Hypothesis refill_len : forall c, length (refill c) = 64.
  Hypothesis refill4_len : forall c, length (refill4 c) = 256.
  Variable body : list N.

  (** the first [i] bytes are done with key stream [K], the rest is untouched *)
  Definition partial (i : nat) (K : list N) : list N := xor_bytes (firstn i body) K ++ skipn i body.

  Lemma partial_step i K ks n :
    length K = i -> i + n <= length body -> n <= length ks ->
    xor_at_b (partial i K) i ks n = partial (i + n) (K ++ firstn n ks).
  Proof.
    intros HK Hi Hn. unfold xor_at_b, partial.
    assert (HX : length (xor_bytes (firstn i body) K) = i).
    { rewrite xor_bytes_length, firstn_length. lia. }
    rewrite <- HX at 1. rewrite firstn_len_app.
    rewrite <- HX at 2. rewrite skipn_len_app.
    replace (i + n) with (length (xor_bytes (firstn i body) K) + n) at 1 by lia.
    rewrite skipn_plus_app. rewrite skipn_skipn'.
    rewrite firstn_add'. rewrite xor_bytes_app by (rewrite firstn_length; lia).
    rewrite <- app_assoc. reflexivity.
  Qed.

  Lemma wide_partial nw : forall i K ctr,
    length K = i -> i + 256 * nw <= length body ->
    wide_loop_b refill4 nw (partial i K) i ctr
    = (partial (i + 256 * nw) (K ++ blocks4 refill4 nw ctr), (ctr + 4 * N.of_nat nw)%N).
  Proof.
    induction nw as [|k IH]; intros i K ctr HK Hi; cbn [wide_loop_b blocks4].
    - rewrite app_nil_r, Nat.mul_0_r, Nat.add_0_r. f_equal. lia.
    - rewrite partial_step by (try assumption; try lia; rewrite refill4_len; lia).
      rewrite IH by (try lia; rewrite app_length, firstn_length, refill4_len; lia).
      rewrite firstn_all2 by (rewrite refill4_len; lia).
      rewrite <- app_assoc. f_equal; [f_equal; lia|lia].
  Qed.

  Fixpoint tail_ks (nch rem : nat) (ctr : N) : list N :=
    match nch with
    | O => []
    | S k => firstn (Nat.min 64 rem) (refill ctr) ++ tail_ks k (rem - Nat.min 64 rem) (ctr + 1)%N
    end.

  Lemma tail_ks_0 nch ctr : tail_ks nch 0 ctr = [].
  Proof. revert ctr; induction nch as [|k IH]; intros ctr; cbn [tail_ks]; [reflexivity|]. cbn. apply IH. Qed.

  Lemma tail_ks_blocks1 nch : forall rem ctr, tail_ks nch rem ctr = firstn rem (blocks1 refill nch ctr).
  Proof.
    induction nch as [|k IH]; intros rem ctr; cbn [tail_ks blocks1]; [now rewrite firstn_nil|].
    rewrite firstn_app, refill_len. rewrite IH.
    destruct (Nat.le_gt_cases 64 rem) as [H|H].
    - rewrite Nat.min_l by assumption. rewrite (firstn_all2 (n := rem)) by (rewrite refill_len; lia).
      rewrite firstn_all2 by (rewrite refill_len; lia). reflexivity.
    - rewrite Nat.min_r by lia. replace (rem - rem) with 0 by lia. replace (rem - 64) with 0 by lia.
      reflexivity.
  Qed.

  Lemma blocks4_length nw : forall c, length (blocks4 refill4 nw c) = 256 * nw.
  Proof.
    induction nw as [|k IH]; intros c; cbn [blocks4 length]; [lia|].
    rewrite app_length, refill4_len, IH. lia.
  Qed.

  Lemma blocks1_length nch : forall c, length (blocks1 refill nch c) = 64 * nch.
  Proof.
    induction nch as [|k IH]; intros c; cbn [blocks1 length]; [lia|].
    rewrite app_length, refill_len, IH. lia.
  Qed.

  Lemma tail_ks_length nch : forall rem ctr, rem <= 64 * nch -> length (tail_ks nch rem ctr) = rem.
  Proof.
    intros rem ctr H. rewrite tail_ks_blocks1. apply firstn_length_le.
    rewrite blocks1_length. exact H.
  Qed.

  Lemma tail_partial nch : forall i K rem st,
    length K = i -> i + rem <= length body -> rem <= 64 * nch ->
    fst (tail_loop_b refill nch (partial i K) i rem st)
    = partial (i + rem) (K ++ tail_ks nch rem (ks_ctr st)).
  Proof.
    induction nch as [|k IH]; intros i K rem st HK Hi Hr; cbn [tail_loop_b tail_ks fst].
    - replace rem with 0 by lia. now rewrite app_nil_r, Nat.add_0_r.
    - cbv zeta. rewrite partial_step by (try assumption; try lia; rewrite refill_len; lia).
      rewrite IH; cbn [ks_ctr].
      + rewrite <- app_assoc. f_equal. lia.
      + rewrite app_length, firstn_length, refill_len. lia.
      + lia.
      + lia.
  Qed.

  (** the value: data xor key stream, where the key stream depends on the state and the length only *)
  Theorem apply_b_xor st :
    kstate_ok st ->
    fst (apply_b refill refill4 body st) = xor_bytes body (key_stream refill refill4 st (length body)).
  Proof.
    intros (Ho & Hh). unfold apply_b, key_stream.
    set (len := length body). set (hr := Nat.min (ks_have st) len).
    set (A := skipn (64 - ks_have st) (ks_out st)).
    assert (HA : hr <= length A) by (unfold A; rewrite skipn_length; lia).
    set (nw := (len - hr) / 256).
    assert (Hnw : 256 * nw <= len - hr) by (unfold nw; apply Nat.mul_div_le; lia).
    set (rem := len - hr - 256 * nw).
    assert (E0 : body = partial 0 []) by reflexivity.
    rewrite E0 at 1. rewrite (partial_step 0 [] A hr) by (try reflexivity; lia).
    cbn [app plus].
    assert (L1 : length (firstn hr A) = hr) by (rewrite firstn_length; lia).
    rewrite (wide_partial nw hr (firstn hr A) (ks_ctr st) L1) by (unfold len in *; lia).
    assert (Hch : rem <= 64 * ((rem + 63) / 64)).
    { pose proof (Nat.div_mod (rem + 63) 64 ltac:(lia)). pose proof (Nat.mod_upper_bound (rem + 63) 64 ltac:(lia)). lia. }
    rewrite tail_partial; cbn [ks_ctr].
    - rewrite tail_ks_blocks1.
      unfold partial. replace (hr + 256 * nw + rem) with len by (unfold rem; lia).
      unfold len at 1 2. rewrite firstn_all, skipn_all, app_nil_r. f_equal.
      (* firstn len (A' ++ B ++ C) = A' ++ B ++ firstn rem C *)
      pose proof (blocks4_length nw (ks_ctr st)) as LB.
      rewrite <- app_assoc.
      rewrite firstn_app, L1. rewrite (firstn_all2 (n := len)) by lia.
      rewrite firstn_app, LB. rewrite (firstn_all2 (n := len - hr)) by lia.
      replace (len - hr - 256 * nw) with rem by reflexivity. reflexivity.
    - rewrite app_length, L1, blocks4_length. reflexivity.
    - unfold rem, len in *. lia.
    - exact Hch.
  Qed.
End Xor.

(** on a slice in mapped memory: the content afterwards is the content before xor the key
    stream determined by the state and the LENGTH of the slice — no dependence on the address *)
Theorem apply_value (refill refill4 : N -> list N) :
  (forall c, length (refill c) = 64) -> (forall c, length (refill4 c) = 256) ->
  forall m s st, slice_ok m s -> kstate_ok st ->
  exists m' st', m_apply refill refill4 m s st = Some (m', st')
                 /\ sbytes m' s = xor_bytes (sbytes m s) (key_stream refill refill4 st (s_len s)).
Proof.
  intros H1 H4 m s st Hs Hst.
  destruct (apply_spec refill refill4 H1 H4 m s st Hs Hst) as (m' & E & _ & V).
  exists m', (snd (apply_b refill refill4 (sbytes m s) st)). split; [exact E|].
  rewrite V. rewrite (apply_b_xor refill refill4 H1 H4 (sbytes m s) st Hst).
  f_equal. f_equal. unfold sbytes, slice_ok in *. apply firstn_length_le. rewrite skipn_length. lia.
Qed.
