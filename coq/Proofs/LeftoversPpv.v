(** Work package audit-leftovers, item 2 (audit C13-F3): the four operations of
    Model/PpvSse.v / PpvAvx2.v that were modelled without a theorem, plus
    [u64x2_unsafe_from] (same situation).

    - [u32x4_unsafe_from] ([UnsafeFrom<[u32;4]>], [_mm_set_epi32(xs[3],xs[2],xs[1],xs[0])]):
      the vector whose lanes are the four words IN ORDER; read back by [to_lanes] under both
      SSE4.1 variants; equal to [from_lanes] under both variants.
    - [u64x2_unsafe_from]: the same for two 64-bit words.
    - [avx2_from_u128x2] ([From<x2<u128x1_sse2,G0>>], [_mm256_setr_m128i(lo, hi)]): the two
      128-bit lanes in order; [avx4_from_u128x4]: the four lanes in order.
    - [sse_default] ([Default], [_mm_setzero_si128]): every lane of every view is 0. *)
From Coq Require Import NArith List Arith Lia.
From CC Require Import Lib.Words Lib.Bytes Lib.ListX Model.Intrinsics Model.PpvSse Model.PpvAvx2 Spec.Lanes
  Proofs.IntrinsicsLemmas Proofs.PpvSseMove Proofs.PpvAvx2Move.
Import ListNotations.
Local Open Scope N_scope.

(** * [UnsafeFrom<[u32; 4]>] *)
Theorem sse_u32x4_unsafe_from_order a b c d :
  u32x4_unsafe_from [a; b; c; d] = bytes_le 4 [a; b; c; d].
Proof.
  unfold u32x4_unsafe_from, mm_set_epi32, bytes_le. cbn [nth flat_map]. rewrite app_nil_r. reflexivity.
Qed.

Theorem sse_u32x4_unsafe_from_wf a b c d : wf 16 (u32x4_unsafe_from [a; b; c; d]).
Proof. rewrite sse_u32x4_unsafe_from_order. exact (bytes_le_wf 4 [a; b; c; d]). Qed.

(** the lanes read back are the four words, in order, under both SSE4.1 variants *)
Theorem sse_u32x4_unsafe_from_lanes s4 a b c d :
  a < 2 ^ 32 -> b < 2 ^ 32 -> c < 2 ^ 32 -> d < 2 ^ 32 ->
  u32x4_to_lanes s4 (u32x4_unsafe_from [a; b; c; d]) = [a; b; c; d]
  /\ words_le 4 (u32x4_unsafe_from [a; b; c; d]) = [a; b; c; d].
Proof.
  intros Ha Hb Hc Hd.
  rewrite sse_u32x4_to_lanes_order by apply sse_u32x4_unsafe_from_wf.
  rewrite sse_u32x4_unsafe_from_order.
  assert (E : words_le 4 (bytes_le 4 [a; b; c; d]) = [a; b; c; d]).
  { apply words_bytes_le; [lia|]. repeat constructor; assumption. }
  split; exact E.
Qed.

(** it builds the same vector as [from_lanes], under both variants *)
Theorem sse_u32x4_unsafe_from_eq_from_lanes s4 a b c d :
  a < 2 ^ 32 -> c < 2 ^ 32 ->
  u32x4_unsafe_from [a; b; c; d] = u32x4_from_lanes s4 [a; b; c; d].
Proof.
  intros Ha Hc. rewrite sse_u32x4_unsafe_from_order.
  symmetry. apply sse_u32x4_from_lanes_order; assumption.
Qed.

(** * [UnsafeFrom<[u64; 2]>] *)
Theorem sse_u64x2_unsafe_from_order a b : u64x2_unsafe_from [a; b] = bytes_le 8 [a; b].
Proof.
  unfold u64x2_unsafe_from, mm_set_epi64x, bytes_le. cbn [nth flat_map]. rewrite app_nil_r. reflexivity.
Qed.

Theorem sse_u64x2_unsafe_from_lanes s4 a b :
  a < 2 ^ 64 -> b < 2 ^ 64 ->
  wf 16 (u64x2_unsafe_from [a; b])
  /\ u64x2_to_lanes s4 (u64x2_unsafe_from [a; b]) = [a; b]
  /\ u64x2_unsafe_from [a; b] = u64x2_from_lanes s4 [a; b].
Proof.
  intros Ha Hb.
  assert (W : wf 16 (u64x2_unsafe_from [a; b])).
  { rewrite sse_u64x2_unsafe_from_order. exact (bytes_le_wf 8 [a; b]). }
  split; [exact W|]. split.
  - rewrite sse_u64x2_to_lanes_order by exact W. rewrite sse_u64x2_unsafe_from_order.
    apply words_bytes_le; [lia|]. repeat constructor; assumption.
  - rewrite sse_u64x2_unsafe_from_order. symmetry. apply sse_u64x2_from_lanes_order; assumption.
Qed.

(** * [From<x2<u128x1_sse2, G0>> for u32x4x2_avx2], [From<x4<u128x1_sse2>> for u32x4x4_avx2] *)
Theorem avx2_from_u128x2_order a b :
  wf 16 a -> wf 16 b ->
  avx2_from_u128x2 [a; b] = a ++ b
  /\ avx2_to_lanes (avx2_from_u128x2 [a; b]) = [a; b]
  /\ avx2_from_u128x2 [a; b] = avx2_from_lanes [a; b]
  /\ wf 32 (avx2_from_u128x2 [a; b]).
Proof.
  intros Wa Wb. destruct (avx2_from_lanes_order a b Wa Wb) as [E1 E2].
  change (avx2_from_u128x2 [a; b]) with (avx2_from_lanes [a; b]).
  repeat split; try assumption.
  - rewrite E1. destruct Wa as [La _], Wb as [Lb _]. rewrite app_length, La, Lb. reflexivity.
  - rewrite E1. destruct Wa as [_ Fa], Wb as [_ Fb]. apply Forall_app. split; assumption.
Qed.

Theorem avx4_from_u128x4_order a b c d :
  wf 16 a -> wf 16 b -> wf 16 c -> wf 16 d ->
  concat (avx4_from_u128x4 [a; b; c; d]) = a ++ b ++ c ++ d
  /\ avx4_to_lanes (avx4_from_u128x4 [a; b; c; d]) = [a; b; c; d]
  /\ avx4_from_u128x4 [a; b; c; d] = avx4_from_lanes [a; b; c; d].
Proof.
  intros Wa Wb Wc Wd. destruct (avx4_from_lanes_order a b c d Wa Wb Wc Wd) as [E1 E2].
  change (avx4_from_u128x4 [a; b; c; d]) with (avx4_from_lanes [a; b; c; d]).
  repeat split; assumption.
Qed.

(** * [Default] of the three 128-bit types: the all-zero vector *)
Theorem sse_default_zero :
  sse_default = repeat 0 16%nat
  /\ wf 16 sse_default
  /\ sse_default = bytes_le 4 [0; 0; 0; 0]
  /\ sse_default = bytes_le 8 [0; 0]
  /\ sse_default = bytes_le 16 [0]
  /\ (forall s4, u32x4_to_lanes s4 sse_default = [0; 0; 0; 0])
  /\ (forall s4, u64x2_to_lanes s4 sse_default = [0; 0])
  /\ u128x1_to_lanes sse_default = [0].
Proof.
  split; [reflexivity|]. split; [split; [reflexivity|repeat constructor]|].
  split; [reflexivity|]. split; [reflexivity|]. split; [reflexivity|].
  split; [intros [|]; reflexivity|]. split; [intros [|]; reflexivity|reflexivity].
Qed.

(** non-vacuity on concrete words (the order is visible: lane 0 = first array element =
    lowest address) *)
Example unsafe_from_example :
  u32x4_unsafe_from [0x03020100; 0x07060504; 0x0b0a0908; 0x0f0e0d0c]
    = [0; 1; 2; 3; 4; 5; 6; 7; 8; 9; 10; 11; 12; 13; 14; 15]
  /\ u64x2_unsafe_from [0x0706050403020100; 0x0f0e0d0c0b0a0908]
    = [0; 1; 2; 3; 4; 5; 6; 7; 8; 9; 10; 11; 12; 13; 14; 15]
  /\ avx2_from_u128x2 [repeat 1 16%nat; repeat 2 16%nat] = repeat 1 16%nat ++ repeat 2 16%nat.
Proof. repeat split; reflexivity. Qed.
