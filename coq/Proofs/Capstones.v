(** Capstones: the back-end-indexed conformance corollaries.

    Composition only — no new mathematics:
      C03_real_blocks_are_model / C03_real_blocks_agree (Proofs/MachineFullReal.v): on each of the six
        real SIMD back ends, and in every dispatch configuration with SSE2 detected, the WHOLE block
        functions equal the executable models;
      C01 / C14 (Proofs/ChaChaCompose.v, ChaChaGutsWide.v), C06 (Proofs/JHF8.v), C04
        (Proofs/BlakeRounds.v): the models equal the SPECIFICATIONS Spec/ChaCha.v, Spec/JH.v, Spec/Blake.v.
    Hence: the block functions computed by the real back ends return the specified values. *)
From Coq Require Import NArith ZArith List Bool Lia Arith.
From CC Require Import Lib.Words Lib.Bytes Lib.ListX Spec.Lanes Model.Dispatch Model.Machine Model.MachineFull.
From CC Require Import Proofs.Dispatch Proofs.Machine Proofs.MachineFullLib.
From CC Require Model.PpvSoft Model.JH Model.Blake.
From CC Require Import Model.ChaChaGuts Model.ChaChaStream.
From CC Require Import Proofs.ChaChaGutsWords Proofs.ChaChaGuts Proofs.ChaChaGutsWide.
From CC Require Import Proofs.ChaChaStreamCtr Proofs.ChaChaStreamSpec Proofs.ChaChaStreamMain Proofs.ChaChaStreamReal
  Proofs.ChaChaCompose.
From CC Require Import Proofs.MachineInstReal Proofs.MachineFullChaCha Proofs.MachineFullJH Proofs.MachineFullBlake
  Proofs.MachineFullReal.
From CC Require Spec.ChaCha Spec.JH Spec.Blake Spec.KAT_ChaCha Spec.KAT_JH Spec.KAT_Blake.
From CC Require Proofs.JHF8 Proofs.BlakeRounds.
Import ListNotations.
Local Open Scope N_scope.

Module SC := Spec.ChaCha.
Module SB := Spec.Blake.

(** * 1. ChaCha *)

(** the [vec128_storage] triple (b, c, d as 16 bytes each, memory order) of the stream
    [v]/[drounds]/[key]/[nonce] positioned at block counter [k]: the byte image ([store_of]) of
    C01's [block_state] (constructor, then the counter words set to [k]) *)
Definition stream_store (v : variant) (drounds : nat) (key nonce : list N) (k : N) : cstore :=
  store_of (block_state v drounds key nonce k).

(** the block index [i] places after [k]: the 64-bit layouts count modulo 2^64 (djb, X), the IETF
    layout modulo 2^32 *)
Definition ctr_plus (v : variant) (k i : N) : N := (k + i) mod SC.blocks_of (layout_of v).

(** the wide (4-block) path keeps a 64-bit counter in words 12,13 for every layout: with the IETF
    layout it is specified only while the 32-bit counter does not overflow within the four blocks
    (beyond, the carry would enter the first nonce word; lib.rs never calls it there) *)
Definition wide_in_range (v : variant) (k : N) : Prop :=
  k < SC.blocks_of (layout_of v) /\ (v = VIetf -> k + 3 < 2 ^ 32).

Section ChaChaModel.
  Variables (v : variant) (drounds : nat) (key nonce : list N).
  Hypothesis Hk : Forall is_byte key.
  Hypothesis Hkl : length key = 32%nat.
  Hypothesis Hn : Forall is_byte nonce.
  Hypothesis Hnl : length nonce = (match v with VDjb => 8 | VIetf => 12 | VX => 24 end)%nat.

  Let s0 := init_of v drounds key nonce.
  Let bs := block_state v drounds key nonce.

  Lemma Hnl' : length nonce = nonce_len v.
  Proof. destruct v; exact Hnl. Qed.

  Lemma s0_wf : wf s0.
  Proof. apply init_of_wf; assumption. Qed.

  Lemma s0_len : length (cd s0) = 4%nat.
  Proof. exact (proj1 (proj2 (proj2 s0_wf))). Qed.

  Lemma bs_wf k : wf (bs k).
  Proof. unfold bs, block_state. apply seek64_wf. exact s0_wf. Qed.

  Lemma bs_ok k : chacha_ok (bs k).
  Proof. exact (bs_wf k). Qed.

  Lemma stream_store_ok k : cstore_ok (stream_store v drounds key nonce k).
  Proof. apply store_of_ok, bs_ok. Qed.

  Lemma bs_next k : inc_block_ct (bs k) = bs (k + 1).
  Proof.
    unfold bs, block_state. rewrite inc_stA by exact s0_len. now rewrite N.add_assoc.
  Qed.

  (** the 64-bit layouts: the state depends on the counter modulo 2^64 only *)
  Lemma bs_mod64 k : is12_of v = false -> bs k = bs (k mod 2 ^ 64).
  Proof.
    intros E. unfold bs, block_state, ctr_base. rewrite E, !N.add_0_l.
    rewrite <- (stA_wrap _ k). now rewrite wrap_mod.
  Qed.

  Lemma bs_block k : k < SC.blocks_of (layout_of v) ->
    fst (refill (bs k) drounds) = SC.spec_block (layout_of v) drounds key nonce k.
  Proof. intros H. exact (refill_block_state_eq_spec v drounds key nonce Hkl Hn Hnl' k H). Qed.

  Lemma bs_block_plus k i : wide_in_range v k -> i <= 3 ->
    fst (refill (bs (k + i)) drounds) = SC.spec_block (layout_of v) drounds key nonce (ctr_plus v k i).
  Proof.
    intros [Hr Hi] Hi3. unfold ctr_plus. destruct (is12_of v) eqn:E.
    - assert (Ev : v = VIetf) by (destruct v; (reflexivity || discriminate E)).
      specialize (Hi Ev).
      assert (Eb : SC.blocks_of (layout_of v) = 2 ^ 32) by (rewrite Ev; reflexivity).
      rewrite Eb in Hr |- *. rewrite N.mod_small by lia. apply bs_block. rewrite Eb. lia.
    - assert (Eb : SC.blocks_of (layout_of v) = 2 ^ 64) by (destruct v; (reflexivity || discriminate E)).
      rewrite (bs_mod64 (k + i) E). rewrite Eb. apply bs_block. rewrite Eb. apply N.mod_lt. discriminate.
  Qed.

  (** the model's narrow refill from the stream state at [k]: the specified block [k], and the
      stream state at [k + 1] *)
  Lemma model_narrow k : k < SC.blocks_of (layout_of v) ->
    let S := stream_store v drounds key nonce k in
    (fst (refill (cc_of S) drounds), store_of (snd (refill (cc_of S) drounds))) =
    (SC.spec_block (layout_of v) drounds key nonce k, stream_store v drounds key nonce (k + 1)).
  Proof.
    intros H S. unfold S, stream_store. fold bs. rewrite cc_of_store_of by apply bs_ok.
    rewrite bs_block by exact H. unfold refill at 1. cbn [snd]. now rewrite bs_next.
  Qed.

  (** the model's wide refill: the four specified blocks [k .. k+3], and the stream state at [k + 4] *)
  Lemma model_wide k : wide_in_range v k ->
    let S := stream_store v drounds key nonce k in
    (fst (refill_wide (cc_of S) drounds), store_of (snd (refill_wide (cc_of S) drounds))) =
    (SC.spec_block (layout_of v) drounds key nonce (ctr_plus v k 0) ++
     SC.spec_block (layout_of v) drounds key nonce (ctr_plus v k 1) ++
     SC.spec_block (layout_of v) drounds key nonce (ctr_plus v k 2) ++
     SC.spec_block (layout_of v) drounds key nonce (ctr_plus v k 3),
     stream_store v drounds key nonce (k + 4)).
  Proof.
    intros H S. unfold S, stream_store. fold bs. rewrite cc_of_store_of by apply bs_ok.
    rewrite refill_wide_eq_inc_chain by apply bs_wf. cbn [fst snd].
    rewrite !bs_next. rewrite <- !N.add_assoc. cbn [N.add Pos.add Pos.succ].
    rewrite <- (N.add_0_r k) at 1.
    now rewrite !bs_block_plus by (exact H || lia).
  Qed.
End ChaChaModel.

(** ** on every real back end *)
Theorem real_chacha_block_eq_spec :
  forall p v drounds key nonce,
    Forall is_byte key -> length key = 32%nat -> Forall is_byte nonce ->
    length nonce = (match v with VDjb => 8 | VIetf => 12 | VX => 24 end)%nat ->
    (forall b1 b2 k, k < SC.blocks_of (layout_of v) ->
       x_refill_narrow (real_xinst p b1) (real_xinst p b2) drounds (stream_store v drounds key nonce k) =
       (SC.spec_block (layout_of v) drounds key nonce k, stream_store v drounds key nonce (k + 1))) /\
    (forall b k, wide_in_range v k ->
       xm_refill_wide (real_xinst p b) drounds (stream_store v drounds key nonce k) =
       (SC.spec_block (layout_of v) drounds key nonce (ctr_plus v k 0) ++
        SC.spec_block (layout_of v) drounds key nonce (ctr_plus v k 1) ++
        SC.spec_block (layout_of v) drounds key nonce (ctr_plus v k 2) ++
        SC.spec_block (layout_of v) drounds key nonce (ctr_plus v k 3),
        stream_store v drounds key nonce (k + 4))).
Proof.
  intros p v drounds key nonce Hk Hkl Hn Hnl. split.
  - intros b1 b2 k H.
    rewrite real_refill_narrow_is_model by (apply stream_store_ok; assumption).
    apply model_narrow; assumption.
  - intros b k H.
    rewrite real_refill_wide_is_model by (apply stream_store_ok; assumption).
    apply model_wide; assumption.
Qed.

(** ** in every configuration with SSE2 detected *)
Theorem config_chacha_block_eq_spec :
  forall c, f_sse2 (xcpu c) = true ->
  forall v drounds key nonce,
    Forall is_byte key -> length key = 32%nat -> Forall is_byte nonce ->
    length nonce = (match v with VDjb => 8 | VIetf => 12 | VX => 24 end)%nat ->
    (forall k, k < SC.blocks_of (layout_of v) ->
       refill_narrow_on drounds c (stream_store v drounds key nonce k) =
       Some (SC.spec_block (layout_of v) drounds key nonce k, stream_store v drounds key nonce (k + 1))) /\
    (forall k, wide_in_range v k ->
       on_x MDispatch (fun m => xm_refill_wide m drounds) c (stream_store v drounds key nonce k) =
       Some (SC.spec_block (layout_of v) drounds key nonce (ctr_plus v k 0) ++
             SC.spec_block (layout_of v) drounds key nonce (ctr_plus v k 1) ++
             SC.spec_block (layout_of v) drounds key nonce (ctr_plus v k 2) ++
             SC.spec_block (layout_of v) drounds key nonce (ctr_plus v k 3),
             stream_store v drounds key nonce (k + 4))).
Proof.
  intros c Hc v drounds key nonce Hk Hkl Hn Hnl.
  destruct (real_blocks_agree c Hc) as (Hnar & Hwide & _). split.
  - intros k H. rewrite Hnar by (apply stream_store_ok; assumption).
    f_equal. apply model_narrow; assumption.
  - intros k H. rewrite Hwide by (apply stream_store_ok; assumption).
    f_equal. apply model_wide; assumption.
Qed.

(** ** the store itself is what the real back ends compute: [seek64] (djb, X) / [seek32] (IETF) of
       the constructor's state run on any real back end gives [stream_store .. k]; and for XChaCha the
       constructor ([init_chacha_x]: HChaCha rounds under dispatch!, the rest under
       dispatch_light128!) run on any real back ends gives the model's state. ([init_chacha] of the
       other two variants is scalar code.) *)
Theorem real_chacha_seek_is_stream_store :
  forall p b v drounds key nonce k,
    Forall is_byte key -> length key = 32%nat -> Forall is_byte nonce ->
    length nonce = (match v with VDjb => 8 | VIetf => 12 | VX => 24 end)%nat ->
    k < SC.blocks_of (layout_of v) ->
    (if is12_of v
     then x_seek32 _ (xm_n (real_xinst p b)) (store_of (init_of v drounds key nonce)) k
     else x_seek64 _ (xm_n (real_xinst p b)) (store_of (init_of v drounds key nonce)) k)
    = stream_store v drounds key nonce k.
Proof.
  intros p b v drounds key nonce k Hk Hkl Hn Hnl Hr.
  pose proof (init_of_wf v drounds key nonce Hk Hkl Hn Hnl) as Hwf.
  destruct (stream_init_of v drounds key nonce Hn Hnl) as (Hl & Hw1 & Hw0 & Hw1').
  destruct (real_seek_is_model p b (store_of (init_of v drounds key nonce)) (store_of_ok _ Hwf)) as (_ & H64 & H32).
  unfold stream_store, block_state, ctr_base.
  destruct (is12_of v) eqn:E.
  - assert (Eb : SC.blocks_of (layout_of v) = 2 ^ 32) by (destruct v; (reflexivity || discriminate E)).
    rewrite Eb in Hr. rewrite H32 by exact Hr. rewrite (cc_of_store_of _ Hwf).
    now rewrite stA_ietf by assumption.
  - assert (Eb : SC.blocks_of (layout_of v) = 2 ^ 64) by (destruct v; (reflexivity || discriminate E)).
    rewrite Eb in Hr. rewrite H64, (cc_of_store_of _ Hwf), N.add_0_l. unfold stA. now rewrite wrap_small by exact Hr.
Qed.

Theorem real_xchacha_init_is_model :
  forall p b1 b2 drounds key nonce,
    Forall is_byte key -> length key = 32%nat -> Forall is_byte nonce -> length nonce = 24%nat ->
    x_init_chacha_x (real_xinst p b1) (real_xinst p b2) key nonce drounds = store_of (init_of VX drounds key nonce).
Proof.
  intros p b1 b2 drounds key nonce Hk Hkl Hn Hnl.
  apply real_init_chacha_x_is_model; split; assumption.
Qed.

(** * 2. JH: the compression function F8 *)
Theorem real_jh_f8_eq_spec :
  forall p b state data, bytes_ok 128 state -> bytes_ok 64 data ->
    xm_f8 (real_xinst p b) e8_sched state data = Spec.JH.F8 state data.
Proof.
  intros p b state data Hs Hd. rewrite real_f8_is_model by assumption.
  destruct Hs as [Ls Bs], Hd as [Ld Bd]. now apply JHF8.f8_eq_spec.
Qed.

Theorem config_jh_f8_eq_spec :
  forall c, f_sse2 (xcpu c) = true ->
  forall state data, bytes_ok 128 state -> bytes_ok 64 data ->
    on_x MDispatch (fun m => xm_f8 m e8_sched state) c data = Some (Spec.JH.F8 state data).
Proof.
  intros c Hc state data Hs Hd.
  destruct (real_blocks_agree c Hc) as (_ & _ & Hf8 & _). rewrite Hf8 by assumption.
  destruct Hs as [Ls Bs], Hd as [Ld Bd]. f_equal. now apply JHF8.f8_eq_spec.
Qed.

(** * 3. BLAKE: the compression function, both word sizes *)

(** the eight chaining words as the two rows the code keeps ([state.h : [vec; 2]]) *)
Definition h_split (l : list N) : list N * list N := (firstn 4 l, skipn 4 l).

Lemma h_split_to_list h : BlakeRounds.h_shape h -> h_split (BlakeRounds.to_list h) = h.
Proof.
  intros [H0 H1]. destruct h as [a b]. unfold h_split, BlakeRounds.to_list. cbn [fst snd] in *.
  rewrite <- H0 at 1. rewrite firstn_app, Nat.sub_diag, firstn_all, firstn_O, app_nil_r.
  rewrite <- H0. rewrite skipn_app, Nat.sub_diag, skipn_all. reflexivity.
Qed.

Lemma h_words_shape32 h : bytes_ok 16 (fst h) -> bytes_ok 16 (snd h) -> BlakeRounds.h_shape (h_words 4 h).
Proof.
  intros [L0 _] [L1 _]. unfold BlakeRounds.h_shape, h_words. cbn [fst snd].
  rewrite !words_le_length, L0, L1 by (apply Nat.lt_0_succ). split; reflexivity.
Qed.
Lemma h_words_shape64 h : bytes_ok 32 (fst h) -> bytes_ok 32 (snd h) -> BlakeRounds.h_shape (h_words 8 h).
Proof.
  intros [L0 _] [L1 _]. unfold BlakeRounds.h_shape, h_words. cbn [fst snd].
  rewrite !words_le_length, L0, L1 by (apply Nat.lt_0_succ). split; reflexivity.
Qed.

(** the model's [put_block] in terms of the specification: chaining value = the 8 little-endian
    words of the two storages ([to_list (h_words kb h)] = [words_le kb (fst h) ++ words_le kb (snd h)]),
    message = the 16 big-endian words of the block, result re-split and stored ([h_bytes kb]) *)
Lemma model_put_block32 v h block t0 t1 :
  v = SB.blake224 \/ v = SB.blake256 -> bytes_ok 16 (fst h) -> bytes_ok 16 (snd h) -> length block = 64%nat ->
  h_bytes 4 (Blake.put_block32 (h_words 4 h) block (t0, t1)) =
  h_bytes 4 (h_split (SB.compress_v v (BlakeRounds.to_list (h_words 4 h)) (SB.block_words v block) t0 t1)).
Proof.
  intros Hv H0 H1 Hb.
  destruct (BlakeRounds.put_block32_eq_spec v (h_words 4 h) block t0 t1 Hv (h_words_shape32 h H0 H1) Hb) as [E Sh].
  now rewrite <- E, h_split_to_list.
Qed.
Lemma model_put_block64 v h block t0 t1 :
  v = SB.blake384 \/ v = SB.blake512 -> bytes_ok 32 (fst h) -> bytes_ok 32 (snd h) -> length block = 128%nat ->
  h_bytes 8 (Blake.put_block64 (h_words 8 h) block (t0, t1)) =
  h_bytes 8 (h_split (SB.compress_v v (BlakeRounds.to_list (h_words 8 h)) (SB.block_words v block) t0 t1)).
Proof.
  intros Hv H0 H1 Hb.
  destruct (BlakeRounds.put_block64_eq_spec v (h_words 8 h) block t0 t1 Hv (h_words_shape64 h H0 H1) Hb) as [E Sh].
  now rewrite <- E, h_split_to_list.
Qed.

Theorem real_blake_compress_eq_spec :
  forall p b,
    (forall v h block t0 t1, v = SB.blake224 \/ v = SB.blake256 ->
       bytes_ok 16 (fst h) -> bytes_ok 16 (snd h) -> bytes_ok 64 block -> t0 < 2 ^ 32 -> t1 < 2 ^ 32 ->
       xm_put_block32 (real_xinst p b) h block (t0, t1) =
       h_bytes 4 (h_split (SB.compress_v v (BlakeRounds.to_list (h_words 4 h)) (SB.block_words v block) t0 t1))) /\
    (forall v h block t0 t1, v = SB.blake384 \/ v = SB.blake512 ->
       bytes_ok 32 (fst h) -> bytes_ok 32 (snd h) -> bytes_ok 128 block -> t0 < 2 ^ 64 -> t1 < 2 ^ 64 ->
       xm_put_block64 (real_xinst p b) h block (t0, t1) =
       h_bytes 8 (h_split (SB.compress_v v (BlakeRounds.to_list (h_words 8 h)) (SB.block_words v block) t0 t1))).
Proof.
  intros p b. split.
  - intros v h block t0 t1 Hv H0 H1 [Lb Bb] Ht0 Ht1.
    rewrite real_put_block32_is_model by assumption. now apply model_put_block32.
  - intros v h block t0 t1 Hv H0 H1 [Lb Bb] Ht0 Ht1.
    rewrite real_put_block64_is_model by assumption. now apply model_put_block64.
Qed.

Theorem config_blake_compress_eq_spec :
  forall c, f_sse2 (xcpu c) = true ->
    (forall v h block t0 t1, v = SB.blake224 \/ v = SB.blake256 ->
       bytes_ok 16 (fst h) -> bytes_ok 16 (snd h) -> bytes_ok 64 block -> t0 < 2 ^ 32 -> t1 < 2 ^ 32 ->
       on_x MDispatch (fun m h => xm_put_block32 m h block (t0, t1)) c h =
       Some (h_bytes 4 (h_split (SB.compress_v v (BlakeRounds.to_list (h_words 4 h)) (SB.block_words v block) t0 t1)))) /\
    (forall v h block t0 t1, v = SB.blake384 \/ v = SB.blake512 ->
       bytes_ok 32 (fst h) -> bytes_ok 32 (snd h) -> bytes_ok 128 block -> t0 < 2 ^ 64 -> t1 < 2 ^ 64 ->
       on_x MDispatch (fun m h => xm_put_block64 m h block (t0, t1)) c h =
       Some (h_bytes 8 (h_split (SB.compress_v v (BlakeRounds.to_list (h_words 8 h)) (SB.block_words v block) t0 t1)))).
Proof.
  intros c Hc. destruct (real_blocks_agree c Hc) as (_ & _ & _ & H32 & H64 & _). split.
  - intros v h block t0 t1 Hv H0 H1 [Lb Bb] Ht0 Ht1.
    rewrite H32 by assumption. f_equal. now apply model_put_block32.
  - intros v h block t0 t1 Hv H0 H1 [Lb Bb] Ht0 Ht1.
    rewrite H64 by assumption. f_equal. now apply model_put_block64.
Qed.

(** the same on the bytes alone: the 32 (64) bytes of the new [state.h] are the little-endian
    storage of the specified compression function's eight words *)
Corollary real_blake_compress_bytes :
  forall p b,
    (forall v h block t0 t1, v = SB.blake224 \/ v = SB.blake256 ->
       bytes_ok 16 (fst h) -> bytes_ok 16 (snd h) -> bytes_ok 64 block -> t0 < 2 ^ 32 -> t1 < 2 ^ 32 ->
       let out := xm_put_block32 (real_xinst p b) h block (t0, t1) in
       fst out ++ snd out =
       bytes_le 4 (SB.compress_v v (words_le 4 (fst h) ++ words_le 4 (snd h)) (SB.block_words v block) t0 t1)) /\
    (forall v h block t0 t1, v = SB.blake384 \/ v = SB.blake512 ->
       bytes_ok 32 (fst h) -> bytes_ok 32 (snd h) -> bytes_ok 128 block -> t0 < 2 ^ 64 -> t1 < 2 ^ 64 ->
       let out := xm_put_block64 (real_xinst p b) h block (t0, t1) in
       fst out ++ snd out =
       bytes_le 8 (SB.compress_v v (words_le 8 (fst h) ++ words_le 8 (snd h)) (SB.block_words v block) t0 t1)).
Proof.
  intros p b. destruct (real_blake_compress_eq_spec p b) as [H32 H64]. split.
  - intros v h block t0 t1 Hv H0 H1 Hb Ht0 Ht1 out. unfold out.
    rewrite (H32 v h block t0 t1) by assumption. unfold h_bytes, h_split. cbn [fst snd].
    rewrite <- bytes_le_app, firstn_skipn. reflexivity.
  - intros v h block t0 t1 Hv H0 H1 Hb Ht0 Ht1 out. unfold out.
    rewrite (H64 v h block t0 t1) by assumption. unfold h_bytes, h_split. cbn [fst snd].
    rewrite <- bytes_le_app, firstn_skipn. reflexivity.
Qed.

(** * 4. non-vacuity: the real back ends, run by [vm_compute], reproduce published vectors *)

(** RFC 7539 section 2.3.2 (ChaCha20 block function, counter 1): the narrow path on SSE2 (rounds)
    + SSE4.1 (output), the wide path on AVX2 and on the portable back end (first of four blocks), and
    a whole configuration (std, CPU with SSE2..AVX, no compile-time features) — all return the
    published block; the state afterwards is the stream at counter 2 (resp. 5) *)
Definition rfc_nonce : list N := be_split 12 0x000000090000004a00000000.
Definition rfc_block : N :=
  0x10f1e7e4d13b5915500fdd1fa32071c4c7d1f4c733c068030422aa9ac3d46c4ed2826446079faa0914c2d705d98b02a2b5129cd1de164eb9cbd083e8a2503c4e.
Definition rfc_store (k : N) : cstore := stream_store VIetf 10 Spec.KAT_ChaCha.key_0_31 rfc_nonce k.

Example real_chacha_rfc7539_block :
  (let r := x_refill_narrow (real_xinst PpvSoft.Debug SSE2) (real_xinst PpvSoft.Debug SSE41) 10 (rfc_store 1) in
   be_join (fst r) = rfc_block /\ snd r = rfc_store 2) /\
  (let r := xm_refill_wide (real_xinst PpvSoft.Release AVX2) 10 (rfc_store 1) in
   be_join (firstn 64 (fst r)) = rfc_block /\ length (fst r) = 256%nat /\ snd r = rfc_store 5) /\
  (let r := xm_refill_wide (real_xinst PpvSoft.Debug Generic) 10 (rfc_store 1) in
   be_join (firstn 64 (fst r)) = rfc_block /\ snd r = rfc_store 5) /\
  option_map (fun r => be_join (fst r))
    (refill_narrow_on 10 (PpvSoft.Release, false, true, F true true true true false, F false false false false false)
       (rfc_store 1)) = Some rfc_block /\
  rfc_block = be_join (SC.spec_block SC.Ietf 10 Spec.KAT_ChaCha.key_0_31 rfc_nonce 1).
Proof. vm_compute. repeat split; reflexivity. Qed.

(** JH: the published initial value of JH-256 is F8(H(-1), 0) (Spec/KAT_JH.v [iv256_published]);
    F8 run on the SSE2, AVX2 and portable back ends returns it *)
Example real_jh_iv256 :
  let iv := be_split 128
    0xeb98a3412c20d3eb92cdbe7b9cb245c11c93519160d4c7fa260082d67e508a03a4239e267726b945e0fb1a48d41a9477cdb5ab26026b177a56f024420fff2fa871a396897f2e4d751d144908f77de262277695f776248f9487d5b6574780296c5c5e272dac8e0d6c518450c657057a0f7be4d367702412ea89e3ab13d31cd769 in
  xm_f8 (real_xinst PpvSoft.Debug SSE2) e8_sched (Spec.JH.hm1 256) (repeat 0 64) = iv /\
  xm_f8 (real_xinst PpvSoft.Debug AVX2) e8_sched (Spec.JH.hm1 256) (repeat 0 64) = iv /\
  xm_f8 (real_xinst PpvSoft.Release Generic) e8_sched (Spec.JH.hm1 256) (repeat 0 64) = iv.
Proof. vm_compute. repeat split; reflexivity. Qed.

(** BLAKE-256 of the one-byte message 0x00 (the submission's first vector, Spec/KAT_Blake.v
    [blake256_1]): one padded block with counter 8; [put_block] then [finalize] on a real back end
    return the published digest. BLAKE-512 of the same message through [put_block64]. *)
Definition blake256_block1 : list N := [0; 0x80] ++ repeat 0 53 ++ [1] ++ be_split 8 8.
Definition blake512_block1 : list N := [0; 0x80] ++ repeat 0 109 ++ [1] ++ be_split 16 8.

Example real_blake_one_byte :
  (forall b, In b [SSE2; SSSE3; AVX2; Generic] ->
     be_join (xm_finalize32 (real_xinst PpvSoft.Debug b)
               (xm_put_block32 (real_xinst PpvSoft.Debug b) (h_bytes 4 Blake.BLAKE256_IV) blake256_block1 (8, 0)))
     = 0x0ce8d4ef4dd7cd8d62dfded9d4edb0a774ae6a41929a74da23109e8f11139c87) /\
  (forall b, In b [SSE2; SSE41; AVX2; Generic] ->
     xm_finalize64 (real_xinst PpvSoft.Release b)
       (xm_put_block64 (real_xinst PpvSoft.Release b) (h_bytes 8 Blake.BLAKE512_IV) blake512_block1 (8, 0))
     = SB.hash SB.blake512 [0]).
Proof.
  split; intros b Hb; cbn [In] in Hb;
    repeat (destruct Hb as [<- | Hb]; [vm_compute; reflexivity|]); contradiction.
Qed.

Print Assumptions real_chacha_block_eq_spec.
Print Assumptions config_chacha_block_eq_spec.
Print Assumptions real_chacha_seek_is_stream_store.
Print Assumptions real_xchacha_init_is_model.
Print Assumptions real_jh_f8_eq_spec.
Print Assumptions config_jh_f8_eq_spec.
Print Assumptions real_blake_compress_eq_spec.
Print Assumptions config_blake_compress_eq_spec.
Print Assumptions real_blake_compress_bytes.
Print Assumptions real_chacha_rfc7539_block.
Print Assumptions real_jh_iv256.
Print Assumptions real_blake_one_byte.
