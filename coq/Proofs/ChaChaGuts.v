(** The single-block path of Model/ChaChaGuts.v equals the specified block function:
    [refill] output = serialised [Spec.ChaCha.spec_block_words]; [init_chacha] /
    [init_chacha_x] give the specified layouts. *)
From Coq Require Import NArith List Lia Arith Bool.
From CC Require Import Lib.Words Lib.Bytes Lib.ListX Spec.Lanes Model.ChaChaGuts.
From CC Require Import Proofs.ChaChaRounds Proofs.ChaChaGutsWords.
From CC Require Spec.ChaCha.
Import ListNotations.
Local Open Scope N_scope.

(** the model rotates right by 32 - r where the specification rotates left by r *)
Lemma rotl_of_rotr32 r x : r <= 32 -> rotl_of rotr32 r x = S.rotl32 r x.
Proof.
  intros Hr. unfold rotl_of, rotr32, S.rotl32, rotrw, rotlw.
  replace (32 - (32 - r)) with r by lia. now rewrite N.lor_comm.
Qed.

Section Ext.
  Variables (add xor rotl rotl' : N -> N -> N).
  Hypothesis Hrot : forall r x, r <= 32 -> rotl r x = rotl' r x.

  Lemma qr_ext a b c d : S.qr add xor rotl a b c d = S.qr add xor rotl' a b c d.
  Proof. unfold S.qr. cbv zeta. rewrite !Hrot by lia. reflexivity. Qed.

  Lemma qr_at_ext i j k l s : S.qr_at add xor rotl i j k l s = S.qr_at add xor rotl' i j k l s.
  Proof. unfold S.qr_at. now rewrite qr_ext. Qed.

  Lemma double_round_ext s : S.double_round add xor rotl s = S.double_round add xor rotl' s.
  Proof. unfold S.double_round. cbv zeta. now rewrite !qr_at_ext. Qed.
End Ext.

Lemma siter_ext {A} (f g : A -> A) n : (forall y, f y = g y) -> forall x, S.iter n f x = S.iter n g x.
Proof.
  intros H. induction n as [|n IH]; intro x; [reflexivity|].
  rewrite !siter_S, H. apply IH.
Qed.

Lemma map2_app {A B C} (f : A -> B -> C) a b c d :
  length a = length c -> map2 f (a ++ b) (c ++ d) = map2 f a c ++ map2 f b d.
Proof.
  revert c. induction a as [|x a IH]; intros [|y c] H; try discriminate H; [reflexivity|].
  cbn [app map2]. f_equal. apply IH. now injection H.
Qed.

Lemma bytes_le_app k a b : bytes_le k (a ++ b) = bytes_le k a ++ bytes_le k b.
Proof. apply flat_map_app. Qed.

Definition len4 (s : chacha) : Prop :=
  length (cb s) = 4%nat /\ length (cc s) = 4%nat /\ length (cd s) = 4%nat.

Lemma wf_len4 s : wf s -> len4 s.
Proof. intros ((H1 & _) & (H2 & _) & (H3 & _)). now repeat split. Qed.

(** the sixteen words the block function starts from *)
Definition init_words (s : chacha) : list N := S.sigma ++ cb s ++ cc s ++ cd s.

Lemma narrow_rounds_eq_spec s dr : len4 s ->
  flat (refill_narrow_rounds s dr) =
    S.iter dr (S.double_round S.add32 N.lxor S.rotl32) (init_words s)
  /\ shape 4 (refill_narrow_rounds s dr).
Proof.
  intros (Hb & Hc & Hd). unfold refill_narrow_rounds, m_rounds.
  assert (Hs : shape 4 (VS K (cb s) (cc s) (cd s))) by (repeat split; assumption).
  destruct (rounds_narrow add32 N.lxor rotr32 dr _ Hs) as [E Hs'].
  split; [|exact Hs'].
  rewrite E. apply siter_ext. intro y. apply double_round_ext. apply rotl_of_rotr32.
Qed.

Theorem refill_eq_block s dr : len4 s ->
  fst (refill s dr) = bytes_le 4 (S.spec_block_words dr (init_words s)).
Proof.
  intros H. destruct (narrow_rounds_eq_spec s dr H) as [E (Ha & Hb & Hc & Hd)].
  destruct H as (Lb & Lc & Ld).
  unfold refill, fst, output_narrow, S.spec_block_words, S.block_words.
  rewrite <- E. unfold flat, init_words, vadd32, vadd.
  change S.sigma with K. change S.add32 with add32.
  rewrite !map2_app by (first [exact Ha | congruence]). now rewrite !bytes_le_app.
Qed.

(** HChaCha: words 0..3 and 12..15 after the rounds *)
Lemma hchacha_eq_spec s dr : len4 s ->
  let x := refill_narrow_rounds s dr in
  va x ++ vd x = S.hchacha_words S.add32 N.lxor S.rotl32 dr (init_words s).
Proof.
  intros H x. destruct (narrow_rounds_eq_spec s dr H) as [E (Ha & Hb & Hc & Hd)].
  unfold S.hchacha_words. rewrite <- E. fold x in Ha, Hb, Hc, Hd |- *. unfold flat.
  clearbody x. destruct x as [a b c d]. cbn [va vb vc vd] in *.
  explode a. explode b. explode c. explode d. reflexivity.
Qed.

(** * Layouts *)
Lemma init_layout_djb key nonce ctr : length key = 32%nat -> length nonce = 8%nat ->
  init_words (seek64 (init_chacha key nonce) ctr) =
  S.init_state S.Djb (words_le 4 key) (words_le 4 nonce) ctr.
Proof. intros Hk Hn. explode key. explode nonce. vm_compute. reflexivity. Qed.

Lemma init_layout_ietf key nonce ctr : length key = 32%nat -> length nonce = 12%nat ->
  init_words (seek32 (init_chacha key nonce) ctr) =
  S.init_state S.Ietf (words_le 4 key) (words_le 4 nonce) ctr.
Proof. intros Hk Hn. explode key. explode nonce. vm_compute. reflexivity. Qed.

Lemma init_chacha_len4 key nonce : length key = 32%nat -> len4 (init_chacha key nonce).
Proof. intros Hk. explode key. repeat split. Qed.

Lemma seek64_len4 s p : len4 s -> len4 (seek64 s p).
Proof.
  intros (Hb & Hc & Hd). repeat split; try assumption.
  unfold seek64, set_pos. cbn [cd]. now rewrite !upd_length.
Qed.
Lemma seek32_len4 s p : len4 s -> len4 (seek32 s p).
Proof.
  intros (Hb & Hc & Hd). repeat split; try assumption.
  unfold seek32. cbn [cd]. now rewrite !upd_length.
Qed.

Theorem block_djb key nonce ctr dr : length key = 32%nat -> length nonce = 8%nat ->
  fst (refill (seek64 (init_chacha key nonce) ctr) dr) = S.spec_block S.Djb dr key nonce ctr.
Proof.
  intros Hk Hn. rewrite refill_eq_block by now apply seek64_len4, init_chacha_len4.
  now rewrite init_layout_djb.
Qed.

Theorem block_ietf key nonce ctr dr : length key = 32%nat -> length nonce = 12%nat ->
  fst (refill (seek32 (init_chacha key nonce) ctr) dr) = S.spec_block S.Ietf dr key nonce ctr.
Proof.
  intros Hk Hn. rewrite refill_eq_block by now apply seek32_len4, init_chacha_len4.
  now rewrite init_layout_ietf.
Qed.

Lemma key_words_split key : length key = 32%nat ->
  words_le 4 (firstn 16 key) ++ words_le 4 (skipn 16 key) = words_le 4 key.
Proof. intros Hk. explode key. vm_compute. reflexivity. Qed.

(** XChaCha: the state after [init_chacha_x] holds the HChaCha subkey and the last 8 nonce bytes *)
Lemma init_x_state key nonce dr : length key = 32%nat -> length nonce = 24%nat ->
  cb (init_chacha_x key nonce dr) ++ cc (init_chacha_x key nonce dr) =
    S.spec_hchacha dr key (firstn 16 nonce)
  /\ cd (init_chacha_x key nonce dr) = [0; 0] ++ words_le 4 (skipn 16 nonce)
  /\ len4 (init_chacha_x key nonce dr).
Proof.
  intros Hk Hn.
  set (s0 := CC (words_le 4 (firstn 16 key)) (words_le 4 (skipn 16 key)) (words_le 4 (firstn 16 nonce))).
  assert (H0 : len4 s0) by (explode key; explode nonce; repeat split).
  pose proof (hchacha_eq_spec s0 dr H0) as E. cbv zeta in E.
  destruct (narrow_rounds_eq_spec s0 dr H0) as [_ (Ha & _ & _ & Hd)].
  unfold init_chacha_x. fold s0. cbn [cb cc cd].
  split; [|split].
  - rewrite E. unfold S.spec_hchacha. f_equal. unfold init_words, s0. cbn [cb cc cd].
    f_equal. rewrite app_assoc. f_equal. now apply key_words_split.
  - explode nonce. vm_compute. reflexivity.
  - repeat split; assumption.
Qed.

Lemma init_layout_x key nonce ctr dr : length key = 32%nat -> length nonce = 24%nat ->
  init_words (seek64 (init_chacha_x key nonce dr) ctr) =
  S.init_state S.XDjb (S.spec_hchacha dr key (firstn 16 nonce)) (words_le 4 (skipn 16 nonce)) ctr.
Proof.
  intros Hk Hn. destruct (init_x_state key nonce dr Hk Hn) as (E1 & E2 & _).
  unfold init_words, seek64. cbn [cb cc cd]. rewrite E2.
  rewrite (app_assoc (cb _) (cc _)), E1. unfold S.init_state.
  explode nonce. reflexivity.
Qed.

Theorem block_x key nonce ctr dr : length key = 32%nat -> length nonce = 24%nat ->
  fst (refill (seek64 (init_chacha_x key nonce dr) ctr) dr) = S.spec_block S.XDjb dr key nonce ctr.
Proof.
  intros Hk Hn. destruct (init_x_state key nonce dr Hk Hn) as (_ & _ & L).
  rewrite refill_eq_block by now apply seek64_len4.
  now rewrite init_layout_x.
Qed.

(** one vectorised double round (round, diagonalize, round, undiagonalize) at the real
    32-bit operations = the eight quarter rounds of the specification *)
Theorem dround_eq_spec x : shape 4 x ->
  flat (dround add32 N.lxor rotr32 x) = S.double_round S.add32 N.lxor S.rotl32 (flat x)
  /\ shape 4 (dround add32 N.lxor rotr32 x).
Proof.
  intros Hx. destruct (dround_narrow add32 N.lxor rotr32 x Hx) as [E Hs].
  split; [|exact Hs]. rewrite E. apply double_round_ext, rotl_of_rotr32.
Qed.

(** * Well-formedness of the constructed states (inputs are byte strings) *)
Lemma words_le_4_w32 bs : Forall is_byte bs -> Forall w32 (words_le 4 bs).
Proof. intros H. exact (words_le_Forall_word 4 bs H). Qed.

Lemma le_join_4_w32 bs : Forall is_byte bs -> length bs = 4%nat -> le_join bs < 2^32.
Proof. intros H L. pose proof (le_join_lt bs H) as B. now rewrite L in B. Qed.

Lemma Forall4 {A} (P : A -> Prop) a b c d : P a -> P b -> P c -> P d -> Forall P [a; b; c; d].
Proof. intros. repeat (apply Forall_cons; [assumption|]). apply Forall_nil. Qed.

Lemma w32_0 : w32 0.
Proof. reflexivity. Qed.

Lemma init_chacha_wf key nonce :
  Forall is_byte key -> length key = 32%nat -> Forall is_byte nonce ->
  length nonce = 8%nat \/ length nonce = 12%nat -> wf (init_chacha key nonce).
Proof.
  intros Bk Lk Bn Ln. unfold init_chacha. repeat split; cbn [cb cc cd].
  - explode key. reflexivity.
  - apply words_le_4_w32, Forall_firstn', Bk.
  - explode key. reflexivity.
  - apply words_le_4_w32, Forall_skipn', Bk.
  - apply Forall4.
    + exact w32_0.
    + destruct (Nat.eqb (length nonce) 12); [|exact w32_0].
      apply le_join_4_w32; [apply Forall_firstn', Bn|]. destruct Ln as [L|L]; explode nonce; reflexivity.
    + apply le_join_4_w32; [apply Forall_firstn', Forall_skipn', Bn|].
      destruct Ln as [L|L]; rewrite L; explode nonce; reflexivity.
    + apply le_join_4_w32; [apply Forall_skipn', Bn|].
      destruct Ln as [L|L]; rewrite L; explode nonce; reflexivity.
Qed.

Lemma init_chacha_x_wf key nonce dr :
  Forall is_byte key -> length key = 32%nat -> Forall is_byte nonce -> length nonce = 24%nat ->
  wf (init_chacha_x key nonce dr).
Proof.
  intros Bk Lk Bn Ln. unfold init_chacha_x.
  set (s0 := CC (words_le 4 (firstn 16 key)) (words_le 4 (skipn 16 key)) (words_le 4 (firstn 16 nonce))).
  assert (H0 : len4 s0) by (explode key; explode nonce; repeat split).
  destruct (narrow_rounds_eq_spec s0 dr H0) as [_ (Ha & _ & _ & Hd)].
  assert (HP : Forall w32 (flat (refill_narrow_rounds s0 dr))).
  { unfold refill_narrow_rounds, m_rounds.
    apply (rounds_bounded add32 N.lxor rotr32 w32).
    - intros a b. apply addw_lt.
    - intros k x. apply rotrw_lt.
    - destruct H0 as (L1 & L2 & L3). repeat split; assumption.
    - unfold flat. cbn [va vb vc vd].
      apply Forall_app; split; [|apply Forall_app; split; [|apply Forall_app; split]].
      + apply Forall4; reflexivity.
      + apply words_le_4_w32, Forall_firstn', Bk.
      + apply words_le_4_w32, Forall_skipn', Bk.
      + apply words_le_4_w32, Forall_firstn', Bn. }
  unfold flat in HP. apply Forall_app in HP as [Pa HP]. apply Forall_app in HP as [_ HP].
  apply Forall_app in HP as [_ Pd].
  repeat split; cbn [cb cc cd]; try assumption.
  apply Forall4; try exact w32_0.
  - apply le_join_4_w32; [apply Forall_firstn', Forall_skipn', Bn|]. explode nonce. reflexivity.
  - apply le_join_4_w32; [apply Forall_firstn', Forall_skipn', Bn|]. explode nonce. reflexivity.
Qed.
