(** C12, Swap64 of [u128x1_sse2], part 2: swaps inside 16-bit lanes ([swapi!] and the SSE2 swap8) as lane functions; finite sweep over all 65536 lane values x 16 bit positions (about 1 minute). *)
From Coq Require Import NArith List Lia Bool Arith.
From CC Require Import Lib.Words Lib.Bytes Lib.ListX Model.Intrinsics Model.PpvSse Spec.Lanes
  Proofs.IntrinsicsLemmas Proofs.PpvSseWords.
From CC Require Import Proofs.PpvSseSwap.
Import ListNotations.
Local Open Scope N_scope.

(** * swaps inside 16-bit lanes: [swapi!] (swap1/2/4) and the SSE2 form of swap8 *)
Definition g_swapi (i K v : N) : N :=
  N.lor (N.shiftr (N.land v K) i) (N.land (wrap 16 (N.shiftl v i)) K).
Definition g_swap8 (v : N) : N := N.lor (wrap 16 (N.shiftl v 8)) (N.shiftr v 8).
Definition g_of (n : N) : N -> N :=
  match n with 1 => g_swapi 1 0xaaaa | 2 => g_swapi 2 0xcccc | 4 => g_swapi 4 0xf0f0 | _ => g_swap8 end.

Lemma swapi_words i k K ws :
  mm_set1_epi8 k = bytes_le 2 (repeat K 8) -> K < 2 ^ 16 ->
  length ws = 8%nat -> Forall (is_wordk 2) ws ->
  swapi (bytes_le 2 ws) i k = bytes_le 2 (map (g_swapi i K) ws).
Proof.
  intros Ek HK Hl Hw. unfold swapi. rewrite Ek. unfold mm_and, mm_or, mm_srli_epi16, mm_slli_epi16.
  rewrite bytes_le_land by (now rewrite repeat_length).
  rewrite !lanes_map_bytes; try lia; try assumption.
  - rewrite bytes_le_land by (now rewrite map_length, repeat_length).
    rewrite bytes_le_lor by (rewrite map_length, !map2_length_eq; rewrite ?map_length, ?repeat_length; lia).
    f_equal. explode ws. reflexivity.
  - explode ws. repeat constructor; apply (land_lt_r 16); exact HK.
Qed.
Lemma swap8_words ws : length ws = 8%nat -> Forall (is_wordk 2) ws ->
  mm_or (mm_slli_epi16 (bytes_le 2 ws) 8) (mm_srli_epi16 (bytes_le 2 ws) 8)
  = bytes_le 2 (map g_swap8 ws).
Proof.
  intros Hl Hw. unfold mm_or, mm_srli_epi16, mm_slli_epi16.
  rewrite !lanes_map_bytes by (try lia; assumption).
  rewrite bytes_le_lor by now rewrite !map_length. f_equal. apply map2_map_same.
Qed.

Lemma swap_lane_words s3 n ws : In n [1; 2; 4; 8] -> (n = 8 -> s3 = false) ->
  length ws = 8%nat -> Forall (is_wordk 2) ws ->
  u128x1_swap s3 n (bytes_le 2 ws) = bytes_le 2 (map (g_of n) ws).
Proof.
  intros Hn H8 Hl Hw. cbn [In] in Hn.
  destruct Hn as [<-|Hn]; [cbn [u128x1_swap g_of]; apply swapi_words; try assumption; [reflexivity|vm_compute; reflexivity]|].
  destruct Hn as [<-|Hn]; [cbn [u128x1_swap g_of]; apply swapi_words; try assumption; [reflexivity|vm_compute; reflexivity]|].
  destruct Hn as [<-|Hn]; [cbn [u128x1_swap g_of]; apply swapi_words; try assumption; [reflexivity|vm_compute; reflexivity]|].
  destruct Hn as [<-|Hn]; [|contradiction].
  rewrite (H8 eq_refl). cbn [u128x1_swap g_of]. now apply swap8_words.
Qed.

(** finite sweep over all 16-bit lane values: v = a + 256 b *)
Definition chk_lane (n a b t : N) : bool :=
  let v := a + 256 * b in Bool.eqb (N.testbit (g_of n v) t) (N.testbit v (N.lxor t n)).
Definition sweep_lane (n : N) : bool :=
  forallb (fun a => forallb (fun b => forallb (chk_lane n a b) (below 16)) (below 256)) (below 256).
Lemma sweep_lane_ok : forallb sweep_lane [1; 2; 4; 8] = true.
Proof. vm_compute. reflexivity. Qed.

Lemma lane_bits n v t : In n [1; 2; 4; 8] -> v < 2 ^ 16 -> t < 16 ->
  N.testbit (g_of n v) t = N.testbit v (N.lxor t n).
Proof.
  intros Hn Hv Ht. pose proof sweep_lane_ok as H. rewrite forallb_forall in H.
  specialize (H n). assert (Hn' : In n [1; 2; 4; 8]) by exact Hn. apply H in Hn'. clear H.
  unfold sweep_lane in Hn'. rewrite forallb_forall in Hn'.
  assert (Ha : v mod 256 < N.of_nat 256) by (apply N.mod_lt; lia).
  assert (Hb : v / 256 < N.of_nat 256).
  { apply N.div_lt_upper_bound; [lia|]. change (2 ^ 16) with 65536 in Hv. cbn. lia. }
  specialize (Hn' _ (in_below 256 _ Ha)). rewrite forallb_forall in Hn'.
  specialize (Hn' _ (in_below 256 _ Hb)). rewrite forallb_forall in Hn'.
  specialize (Hn' t (in_below 16 t Ht)). unfold chk_lane in Hn'.
  replace (v mod 256 + 256 * (v / 256)) with v in Hn' by (rewrite (N.div_mod v 256) at 1; lia).
  now apply Bool.eqb_prop.
Qed.
