(** The invariant of the ChaCha stream wrapper (DESIGN 6/C02) and its one-step lemmas. *)
From Coq Require Import NArith ZArith List Lia Arith Bool ZifyBool ZifyN ZifyNat.
From CC Require Import Lib.Words Lib.Bytes Lib.ListX Model.ChaChaGuts Model.ChaChaStream.
From CC Require Import Proofs.ChaChaStreamCtr Proofs.ChaChaStreamLoops Proofs.ChaChaStreamBody
  Proofs.ChaChaStreamSpec Proofs.ChaChaStreamSeek.
Import ListNotations.
Ltac Zify.zify_post_hook ::= Z.div_mod_to_equations.
Local Open Scope N_scope.

Section Inv.
  Variable refill1 : chacha -> list N * chacha.
  Variable refill4 : chacha -> list N * chacha.
  Variable blk : chacha -> list N.
  Variable is12 : bool.
  Variable s0 : chacha.
  Hypothesis s0_len : length (cd s0) = 4%nat.
  (** the producers are specified on the states of the stream only ([stA s0 q]: nothing else is ever passed to them) *)
  Hypothesis blk_len : forall q, length (blk (stA s0 q)) = 64%nat.
  Hypothesis refill1_spec : forall q, refill1 (stA s0 q) = (blk (stA s0 q), stA s0 (q + 1)).
  Hypothesis refill4_spec : forall q,
    refill4 (stA s0 q) = (blk (stA s0 q) ++ blk (stA s0 (q + 1)) ++ blk (stA s0 (q + 2)) ++ blk (stA s0 (q + 3)),
                          stA s0 (q + 4)).
  Hypothesis s0_w1 : nth 1 (cd s0) 0 < 2 ^ 32.
  Set Default Proof Using "All".
  Local Notation "'!' x" := (x refill1 refill4 blk s0 s0_len blk_len refill1_spec refill4_spec) (at level 9, x at level 0).

  Local Notation "'!!' x" := (x blk is12 s0 blk_len) (at level 9, x at level 0).

  Notation T := (nblocks is12).
  Notation base := (ctr_base is12 s0).
  Notation kblock := (kblock blk is12 s0).
  Notation keystream := (keystream blk is12 s0).
  Notation rawblock := (rawblock blk s0).
  Notation rawstream := (rawstream blk s0).

  (** blocks left *)
  Definition left (b : buffer) : N := if b_fresh b then T else b_len b.
  (** blocks produced so far *)
  Definition done (b : buffer) : N := T - left b.

  (** clauses common to the invariant and to the state inside [try_apply_keystream] *)
  Record Core (Q : N) (b : buffer) (pos : N) : Prop := {
    co_state : b_state b = stA s0 Q;
    co_have : (b_have b <= 63)%Z;
    co_left : left b <= T;
    co_len : b_len b < 2 ^ 64;
    co_fresh : b_fresh b = true -> b_len b = 0 /\ is12 = false;
    co_pos : Z.of_N pos = (64 * Z.of_N (done b) - b_have b)%Z;
    co_out : (0 < b_have b)%Z ->
             skipn (Z.to_nat (64 - b_have b)) (b_out b) = skipn (Z.to_nat (64 - b_have b)) (kblock (done b - 1))
  }.

  (** the invariant between calls *)
  Definition Inv (b : buffer) (pos : N) : Prop :=
    Core (base + done b mod T) b pos /\ (-63 <= b_have b)%Z /\ ((b_have b < 0)%Z -> 0 < left b).

  (** inside [try_apply_keystream], after the lazy fill and before the nonce-word restore *)
  Definition Ready (Q : N) (b : buffer) (pos : N) : Prop :=
    Core Q b pos /\ (0 <= b_have b)%Z /\ (Q = base + done b mod T \/ Q = base + done b).

  Lemma T_pos : 0 < T. Proof. unfold nblocks. destruct is12; lia. Qed.
  Lemma T_le : T <= 2 ^ 64. Proof. unfold nblocks. destruct is12; lia. Qed.
  Lemma base_T : base + T <= 2 ^ 64.
  Proof. unfold ctr_base, nblocks. destruct is12; lia. Qed.
  Lemma base_mul : base mod 2 ^ 32 = 0 /\ (is12 = false -> base = 0) /\ (is12 = true -> base = nth 1 (cd s0) 0 * 2 ^ 32).
  Proof. unfold ctr_base. destruct is12; split; try split; try discriminate; try reflexivity; lia. Qed.

  (** * construction *)
  Definition wf_init : Prop :=
    nth 0 (cd s0) 0 = 0 /\ (is12 = false -> nth 1 (cd s0) 0 = 0).

  Lemma inv_init : wf_init -> Inv (new_buffer is12 s0) 0.
  Proof.
    intros [W0 W1]. unfold Inv, new_buffer.
    assert (El : (if negb is12 then T else if is12 then 2 ^ 32 else 0) = T) by (unfold nblocks; destruct is12; reflexivity).
    assert (Hl : left (Buf s0 (repeat 0 64) 0 (if is12 then 2 ^ 32 else 0) (negb is12)) = T) by exact El.
    split; [|split; [cbn [b_have]; lia | cbn [b_have]; lia]].
    constructor; unfold done; rewrite ?Hl; cbn [b_state b_out b_have b_len b_fresh].
    - rewrite N.sub_diag, N.mod_0_l by (pose proof T_pos; lia). rewrite N.add_0_r.
      unfold ctr_base. destruct is12.
      + apply stA_init; assumption.
      + rewrite (stA_init s0 s0_len W0 s0_w1) at 1. rewrite (W1 eq_refl). reflexivity.
    - lia.
    - lia.
    - destruct is12; lia.
    - destruct is12; [discriminate|]. intros _. split; reflexivity.
    - lia.
    - lia.
  Qed.

  (** * seek *)
  Ltac norm E := unfold done, left, nblocks, ctr_base in *; cbn [b_state b_out b_have b_len b_fresh] in *;
                 rewrite ?E in *.

  Lemma inv_seek b pos p : Inv b pos -> seek_in_range is12 p ->
    exists b', try_seek is12 b p = (ROk, b') /\ Inv b' (Z.to_N p).
  Proof.
    intros (HC & Hlo & Hpend) (Hp0 & Hp1 & Hp2).
    destruct HC as [Hst Hhave Hleft Hlen Hfresh Hpos Hout].
    unfold try_seek. replace ((p <? 0)%Z || (2 ^ 64 <=? p)%Z) with false by lia.
    set (ct := Z.to_N p).
    assert (Hct : ct < 2 ^ 64) by lia.
    pose proof (N.div_mod ct 64 ltac:(lia)) as Hdm. pose proof (N.mod_lt ct 64 ltac:(lia)) as Hr.
    set (bc := ct / 64) in *. set (r := ct mod 64) in *.
    destruct is12 eqn:E12.
    - (* 12-byte nonce *)
      assert (Hct38 : ct <= 2 ^ 38) by (specialize (Hp2 eq_refl); lia).
      cbn [andb]. replace (2 ^ 38 <? ct) with false by lia.
      unfold seek32b. fold bc. fold r.
      replace ((bc <? 2 ^ 32) || (bc =? 2 ^ 32) && (r =? 0)) with true by lia.
      assert (Hf : b_fresh b = false).
      { destruct (b_fresh b); [destruct (Hfresh eq_refl); discriminate | reflexivity]. }
      rewrite Hf. eexists. split; [reflexivity|].
      unfold Inv. norm E12.
      split; [|split; [lia | lia]].
      constructor; norm E12.
      + rewrite Hst, (seek32_stA s0 _ _ s0_len). f_equal. rewrite !wrap_mod.
        set (n0 := nth 1 (cd s0) 0) in *.
        assert (Hk : (2 ^ 32 - b_len b) mod 2 ^ 32 < 2 ^ 32) by (apply N.mod_lt; lia).
        set (k := (2 ^ 32 - b_len b) mod 2 ^ 32) in *. clearbody k n0 bc r. clear - Hk s0_w1 Hct38 Hdm Hr. lia.
      + lia.
      + lia.
      + lia.
      + discriminate.
      + lia.
      + lia.
    - (* 64-bit counter *)
      cbn [andb]. eexists. split; [reflexivity|].
      unfold seek64b. fold ct. fold bc. fold r.
      assert (Hl' : (if bc =? 0 then 2 ^ 64 else wrap 64 (2 ^ 64 - bc)) = 2 ^ 64 - bc).
      { rewrite wrap_mod. destruct (bc =? 0) eqn:E0; lia. }
      unfold Inv. norm E12. rewrite ?Hl'.
      split; [|split; [lia | lia]].
      constructor; norm E12; rewrite ?Hl'.
      + rewrite Hst, (seek64_stA s0 _ _ s0_len) by lia. f_equal. lia.
      + lia.
      + lia.
      + apply wrap_lt.
      + intros E0. split; [|reflexivity]. rewrite wrap_mod. lia.
      + lia.
      + lia.
  Qed.

  (** * lazy fill: position unchanged, block [done b] generated *)
  Lemma ready_lazy b pos : Inv b pos -> exists Q, Ready Q (lazy_fill refill1 b) pos.
  Proof.
    intros (HC & Hlo & Hpend).
    destruct (Z.ltb_spec (b_have b) 0) as [Hneg|Hnn].
    2:{ rewrite (! lazy_fill_nonneg) by exact Hnn. eexists. split; [exact HC|]. split; [exact Hnn | left; reflexivity]. }
    specialize (Hpend Hneg).
    destruct HC as [Hst Hhave Hleft Hlen Hfresh Hpos Hout].
    rewrite (! lazy_fill_neg b _ Hst Hneg).
    pose proof T_pos as HT. pose proof T_le as HT64.
    assert (Hd : done b mod T = done b) by (apply N.mod_small; unfold done; lia).
    set (len1 := wrap 64 (b_len b + (2 ^ 64 - 1))).
    assert (Hlen1 : len1 = left b - 1).
    { unfold len1. rewrite wrap_mod. unfold left in *. destruct (b_fresh b) eqn:Ef.
      - destruct (Hfresh eq_refl) as [L0 E12]. rewrite L0. unfold nblocks. rewrite E12. reflexivity.
      - lia. }
    exists (base + done b + 1). unfold Ready.
    assert (Hdone1 : done (Buf (stA s0 (base + done b mod T + 1)) (rawblock (base + done b mod T))
                              (b_have b + 64)%Z len1 false) = done b + 1).
    { unfold done at 1, left at 1. cbn [b_fresh b_len]. rewrite Hlen1. unfold done. lia. }
    split; [|split; [cbn [b_have]; lia | right; rewrite Hdone1; lia]].
    constructor; rewrite ?Hdone1; cbn [b_state b_out b_have b_len b_fresh].
    - rewrite Hd. reflexivity.
    - lia.
    - unfold left. cbn [b_fresh b_len]. lia.
    - apply wrap_lt.
    - discriminate.
    - lia.
    - intros _. rewrite Hd. unfold kblock. replace (done b + 1 - 1) with (done b) by lia. reflexivity.
  Qed.

  (** * the body after the lazy fill *)
  Lemma needed_facts have n : (0 <= have)%Z ->
    let dl := N.of_nat n - N.min (Z.to_N have) (N.of_nat n) in
    let nd := needed_of have n in
    dl <= 64 * nd /\ 64 * nd < dl + 64 /\ (dl mod 64 = 0 <-> 64 * nd = dl).
  Proof.
    intros Hh dl nd. unfold nd, needed_of. fold dl.
    destruct (dl mod 64 =? 0) eqn:E; lia.
  Qed.

  Lemma ready_body_err wide Q b pos data : Ready Q b pos ->
    N.of_nat (length data) < 2 ^ 64 -> 64 * T < pos + N.of_nat (length data) ->
    apply_body refill1 refill4 wide b data = (RErr, b, data).
  Proof.
    intros (HC & Hnn & HQ) Hn Hover.
    destruct HC as [Hst Hhave Hleft Hlen Hfresh Hpos Hout].
    pose proof T_pos as HT. pose proof T_le as HT64.
    destruct (needed_facts (b_have b) (length data) Hnn) as (F1 & F2 & F3).
    set (nd := needed_of (b_have b) (length data)) in *.
    assert (Hf : b_fresh b = false).
    { destruct (b_fresh b) eqn:Ef; [|reflexivity]. destruct (Hfresh eq_refl) as [L0 E12].
      unfold done, left in Hpos. rewrite Ef in Hpos. unfold nblocks in *. rewrite E12 in *. lia. }
    apply (! apply_body_err); [exact Hnn | | exact Hf].
    fold nd. unfold done, left in *. rewrite Hf in *. clearbody nd. lia.
  Qed.

  Lemma xor_keystream_app d1 d2 p :
    xor_bytes (d1 ++ d2) (keystream p (length d1 + length d2)) =
    xor_bytes d1 (keystream p (length d1)) ++ xor_bytes d2 (keystream (p + N.of_nat (length d1)) (length d2)).
  Proof.
    rewrite (!! keystream_add). apply xor_bytes_app. rewrite (!! keystream_length). reflexivity.
  Qed.

  Lemma ready_body_ok wide Q b pos data : Ready Q b pos ->
    N.of_nat (length data) < 2 ^ 64 -> pos + N.of_nat (length data) <= 64 * T ->
    exists b', apply_body refill1 refill4 wide b data = (ROk, b', xor_bytes data (keystream pos (length data)))
               /\ Ready (Q + needed_of (b_have b) (length data)) b' (pos + N.of_nat (length data)).
  Proof.
    intros (HC & Hnn & HQ) Hn Hfit.
    destruct HC as [Hst Hhave Hleft Hlen Hfresh Hpos Hout].
    pose proof T_pos as HT. pose proof T_le as HT64.
    destruct (needed_facts (b_have b) (length data) Hnn) as (F1 & F2 & F3).
    set (n := length data) in *. set (nn := N.of_nat n) in *.
    set (h := Z.to_N (b_have b)) in *.
    assert (Hh : b_have b = Z.of_N h) by lia.
    set (nd := needed_of (b_have b) n) in *.
    set (dl := nn - N.min h nn) in *.
    assert (Hok : nd <= left b).
    { unfold done in Hpos. unfold left in *. destruct (b_fresh b) eqn:Ef.
      - destruct (Hfresh eq_refl) as [L0 E12]. unfold nblocks in *. rewrite E12 in *. lia.
      - lia. }
    assert (Hok' : nd <= b_len b \/ b_fresh b = true).
    { unfold left in Hok. destruct (b_fresh b); [right; reflexivity | left; exact Hok]. }
    pose proof (! apply_body_ok wide b data Q Hst ltac:(lia) Hok') as HB. cbv zeta in HB.
    fold n in HB. fold nn in HB. fold h in HB. fold nd in HB. fold dl in HB.
    destruct HB as (out' & Heq & Hout0 & Houtm).
    set (hr := N.to_nat (N.min h nn)) in *.
    set (have' := if dl =? 0 then h - N.of_nat hr else 64 * nd - dl) in *.
    set (len' := wrap 64 (b_len b + 2 ^ 64 - nd)) in *.
    eexists. split.
    - rewrite Heq. f_equal.
      transitivity (xor_bytes (firstn hr data ++ skipn hr data)
                      (keystream pos (length (firstn hr data) + length (skipn hr data)))).
      2:{ rewrite <- app_length, firstn_skipn. reflexivity. }
      rewrite xor_keystream_app.
      assert (Hlf : length (firstn hr data) = hr) by (rewrite firstn_length; fold n; lia).
      assert (Hls : length (skipn hr data) = (n - hr)%nat) by (rewrite skipn_length; reflexivity).
      f_equal.
      + (* buffered prefix *)
        rewrite Hlf. destruct (Nat.eq_dec hr 0) as [E0|E0]; [rewrite E0; reflexivity|].
        assert (Hhpos : (0 < b_have b)%Z) by lia.
        specialize (Hout Hhpos).
        replace (N.to_nat (64 - h)) with (Z.to_nat (64 - b_have b)) by lia.
        rewrite Hout. set (r := Z.to_nat (64 - b_have b)).
        replace pos with (64 * (done b - 1) + N.of_nat r) by (unfold r; lia).
        rewrite (!! keystream_in_block) by (unfold r; lia).
        rewrite xor_bytes_firstn_r by lia. reflexivity.
      + (* whole blocks *)
        rewrite Hlf, Hls. destruct (N.eq_dec dl 0) as [E0|E0].
        * assert (Es : skipn hr data = []) by (apply skipn_all2; fold n; lia). rewrite Es. reflexivity.
        * assert (Hd : done b mod T = done b) by (apply N.mod_small; unfold done; lia).
          assert (EQ : Q = base + done b) by (destruct HQ as [HQ|HQ]; rewrite HQ; lia).
          rewrite EQ. rewrite (!! xor_rawstream_keystream) by (rewrite Hls; lia).
          rewrite Hls. do 2 f_equal. lia.
    - (* the invariant after the call *)
      assert (Hleft' : left (Buf (stA s0 (Q + nd)) out' (Z.of_N have') len' (b_fresh b && (nd =? 0))) = left b - nd).
      { unfold left in *. cbn [b_fresh b_len]. unfold len'. rewrite wrap_mod. destruct (b_fresh b) eqn:Ef; cbn [andb].
        - destruct (Hfresh eq_refl) as [L0 E12]. rewrite L0. unfold nblocks in *. rewrite E12 in *.
          destruct (nd =? 0) eqn:Ez; lia.
        - lia. }
      assert (Hdone' : done (Buf (stA s0 (Q + nd)) out' (Z.of_N have') len' (b_fresh b && (nd =? 0))) = done b + nd).
      { unfold done at 1. rewrite Hleft'. unfold done. lia. }
      assert (Hhave' : have' <= 63 /\ (Z.of_N pos + Z.of_N nn = 64 * Z.of_N (done b + nd) - Z.of_N have')%Z).
      { unfold have', hr. destruct (dl =? 0) eqn:E0; lia. }
      split; [|split].
      + constructor; rewrite ?Hdone', ?Hleft'; cbn [b_state b_out b_have b_len b_fresh].
        * reflexivity.
        * lia.
        * lia.
        * apply wrap_lt.
        * intros Ef. apply andb_prop in Ef. destruct Ef as [Ef Ez]. destruct (Hfresh Ef) as [L0 E12].
          split; [|exact E12]. unfold len'. rewrite wrap_mod, L0. lia.
        * lia.
        * intros Hpos'. destruct (N.eq_dec nd 0) as [Ez|Ez].
          -- (* nothing generated: same block, further in *)
             rewrite (Hout0 Ez). assert (E0 : dl = 0) by lia.
             assert (Hhpos : (0 < b_have b)%Z) by (unfold have' in Hpos'; rewrite E0 in Hpos'; cbn in Hpos'; lia).
             specialize (Hout Hhpos).
             assert (Eh : have' = h - nn) by (unfold have', hr; rewrite E0; cbn; lia).
             rewrite Ez, N.add_0_r.
             replace (Z.to_nat (64 - Z.of_N have')) with (Z.to_nat (64 - b_have b) + n)%nat by lia.
             rewrite !skipn_add, Hout. reflexivity.
          -- assert (Hm : dl mod 64 <> 0) by (unfold have' in Hpos'; destruct (dl =? 0) eqn:E0; lia).
             rewrite (Houtm Hm).
             assert (Hd : done b mod T = done b) by (apply N.mod_small; unfold done; lia).
             assert (EQ : Q = base + done b) by (destruct HQ as [HQ|HQ]; rewrite HQ; lia).
             unfold kblock. rewrite EQ.
             replace (base + done b + nd - 1) with (base + (done b + nd - 1)) by lia. reflexivity.
      + cbn [b_have]. lia.
      + rewrite Hdone'. destruct (N.eq_dec nd 0) as [Ez|Ez].
        * rewrite Ez, !N.add_0_r. exact HQ.
        * right. assert (Hd : done b mod T = done b) by (apply N.mod_small; unfold done; lia).
          destruct HQ as [HQ|HQ]; rewrite HQ; lia.
  Qed.

  (** * back to the invariant between calls (the 12-byte-nonce variant restores d word 1) *)
  Lemma ready_restore_64 Q b pos : is12 = false -> Ready Q b pos -> Inv b pos.
  Proof.
    intros E12 (HC & Hnn & HQ). destruct HC as [Hst Hhave Hleft Hlen Hfresh Hpos Hout].
    pose proof T_pos as HT.
    split; [|split; [lia | lia]].
    constructor; try assumption.
    rewrite Hst, <- (stA_wrap s0 Q), <- (stA_wrap s0 (base + _)). f_equal. rewrite !wrap_mod.
    unfold done in *. unfold nblocks, ctr_base in *. rewrite E12 in *.
    destruct HQ as [HQ|HQ]; rewrite HQ; clear - Hleft; set (l := left b) in *; clearbody l; lia.
  Qed.

  Lemma ready_restore_12 Q b pos : is12 = true -> Ready Q b pos ->
    Inv (Buf (CC (cb (b_state b)) (cc (b_state b)) (upd 1 (nth 1 (cd s0) 0) (cd (b_state b))))
             (b_out b) (b_have b) (b_len b) (b_fresh b)) pos.
  Proof.
    intros E12 (HC & Hnn & HQ). destruct HC as [Hst Hhave Hleft Hlen Hfresh Hpos Hout].
    pose proof T_pos as HT.
    split; [|split; [cbn [b_have]; lia | cbn [b_have]; lia]].
    constructor; try assumption.
    cbn [b_state]. rewrite Hst, (restore_stA s0 Q _ s0_len s0_w1). f_equal. rewrite wrap_mod.
    change (done (Buf (stA s0 (nth 1 (cd s0) 0 * 2 ^ 32 + Q mod 2 ^ 32)) (b_out b) (b_have b) (b_len b) (b_fresh b)))
      with (done b).
    unfold done in *. unfold nblocks, ctr_base in *. rewrite E12 in *.
    set (n0 := nth 1 (cd s0) 0) in *.
    destruct HQ as [HQ|HQ]; rewrite HQ; clear - Hleft; set (l := left b) in *; clearbody l n0; lia.
  Qed.

  Lemma entry_nonce b pos : is12 = true -> Inv b pos -> nth 1 (cd (b_state b)) 0 = nth 1 (cd s0) 0.
  Proof.
    intros E12 (HC & _). destruct HC as [Hst _ Hleft _ _ _ _]. pose proof T_pos as HT.
    rewrite Hst, (word1_stA s0 _ s0_len).
    assert (Hk : done b mod T < T) by (apply N.mod_lt; lia).
    unfold nblocks, ctr_base in *. rewrite E12 in *.
    set (n0 := nth 1 (cd s0) 0) in *. set (k := done b mod 2 ^ 32) in *. clearbody k n0. lia.
  Qed.

  (** * one call of [try_apply_keystream] *)
  Lemma try_apply_ok b pos data : Inv b pos ->
    N.of_nat (length data) < 2 ^ 64 -> pos + N.of_nat (length data) <= 64 * T ->
    exists b', try_apply refill1 refill4 is12 b data = (ROk, b', xor_bytes data (keystream pos (length data)))
               /\ Inv b' (pos + N.of_nat (length data)).
  Proof.
    intros HI Hn Hfit. destruct (ready_lazy b pos HI) as [Q HR].
    destruct (ready_body_ok true Q _ pos data HR Hn Hfit) as (b2 & Heq & HR2).
    unfold try_apply, apply_core. rewrite Heq. destruct is12 eqn:E12; cbn [negb].
    - eexists. split; [reflexivity|]. rewrite (entry_nonce b pos E12 HI).
      exact (ready_restore_12 _ b2 _ E12 HR2).
    - eexists. split; [reflexivity|]. exact (ready_restore_64 _ b2 _ E12 HR2).
  Qed.

  Lemma try_apply_err b pos data : Inv b pos ->
    N.of_nat (length data) < 2 ^ 64 -> 64 * T < pos + N.of_nat (length data) ->
    exists b', try_apply refill1 refill4 is12 b data = (RErr, b', data) /\ Inv b' pos.
  Proof.
    intros HI Hn Hover. destruct (ready_lazy b pos HI) as [Q HR].
    pose proof (ready_body_err true Q _ pos data HR Hn Hover) as Heq.
    unfold try_apply, apply_core. rewrite Heq. destruct is12 eqn:E12; cbn [negb].
    - eexists. split; [reflexivity|]. rewrite (entry_nonce b pos E12 HI).
      exact (ready_restore_12 _ _ _ E12 HR).
    - eexists. split; [reflexivity|]. exact (ready_restore_64 _ _ _ E12 HR).
  Qed.

  (** * [try_current_pos] *)
  Lemma try_current_pos_spec b pos tmax : Inv b pos ->
    try_current_pos is12 b tmax = (if (Z.of_N pos <=? tmax)%Z then Some (Z.of_N pos) else None)
    /\ b_len b <= T.
  Proof.
    intros (HC & Hlo & Hpend). destruct HC as [Hst Hhave Hleft Hlen Hfresh Hpos Hout].
    pose proof T_pos as HT.
    assert (HlenT : b_len b <= T).
    { unfold left in Hleft. destruct (b_fresh b) eqn:Ef; [destruct (Hfresh eq_refl) as [L0 _]; lia | exact Hleft]. }
    split; [|exact HlenT].
    unfold try_current_pos.
    assert (Ep : (((if is12 then 2 ^ 32 else 2 ^ 64) - (if b_fresh b then if is12 then 2 ^ 32 else 2 ^ 64 else Z.of_N (b_len b))) * 64
                 - b_have b = Z.of_N pos)%Z).
    { unfold done, left, nblocks in *. destruct is12, (b_fresh b); lia. }
    rewrite Ep. replace (Z.of_N pos <? 0)%Z with false by lia. reflexivity.
  Qed.
End Inv.
