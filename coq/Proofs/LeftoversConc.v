(** Work package audit-leftovers, item 5 (audit C18-F2, last sentence).

    READING OF THE MODEL.  In Model/Concurrency.v an [Op] consults ONE lazy cell
    ([cell_of o]) and then runs.  The code has calls that consult several cells: Groestl's
    [finalize] calls [tf512] (lazy_static cell of tf512) and then [of512] (another cell);
    a [dispatch!] site of ppv-lite86 probes up to five feature bits (five reads of the
    std_detect cache) before it runs.  Such a call is modelled as SEVERAL CONSECUTIVE [Op]s
    of the same thread, one per cell consulted, in the order of the consultations: one
    modelled [Op] = one dispatched call (one cell read), NOT one API call.  Other threads'
    micro-steps may fall between those [Op]s, exactly as they may fall between the two cell
    reads in the code.

    GENERAL STATEMENT ([multi_cell_calls_sequential], from [concurrent_complete], i.e.
    [C18_concurrent_complete]): if a thread's program is the concatenation of groups of
    [Op]s (group = one API call touching several cells), then in EVERY schedule the
    finished thread has, group by group, the outputs and the final state of running the
    groups one after the other single-threaded ([calls_run]).

    GROESTL ([groestl_finalize_two_cells], existing instantiation Proofs/FollowupsGroestl.v):
    [finalize] = the group [[CTf512 blk; COf512]] touching cells 0 then 1; an example
    schedule in which another thread initialises the SECOND cell while the first thread is
    between its two cell accesses, by [vm_compute]. *)
From Coq Require Import NArith List Bool Arith Lia.
From CC Require Import Lib.Words Lib.Bytes Lib.ListX Spec.AES.
From CC Require Import Model.GroestlIntrinsics Model.Groestl Model.Features Model.FeaturesGroestl.
From CC Require Import Model.Concurrency Proofs.Concurrency Proofs.GroestlHash Proofs.FollowupsGroestl.
From CC Require Spec.Groestl.
Import ListNotations.

Section MultiCell.
  Variables (V St Op Out : Type).
  Variable cpu : nat -> bool.
  Variable choose : (nat -> bool) -> nat -> V.
  Variable cell_of : Op -> nat.
  Variable exec : V -> Op -> St -> St * Out.
  Notation seqr := (seq_run V St Op Out cpu choose cell_of exec).
  Notation crun := (run V St Op Out cpu choose cell_of exec).

  (** single-threaded run of API calls, each a group of dispatched calls *)
  Fixpoint calls_run (s : St) (groups : list (list Op)) : St * list (list Out) :=
    match groups with
    | [] => (s, [])
    | g :: r => let e := seqr s g in
                let q := calls_run (fst e) r in
                (fst q, snd e :: snd q)
    end.

  Lemma calls_run_unfold s g r :
    calls_run s [] = (s, [])
    /\ calls_run s (g :: r)
       = (fst (calls_run (fst (seqr s g)) r), snd (seqr s g) :: snd (calls_run (fst (seqr s g)) r)).
  Proof. split; reflexivity. Qed.

  (** the cells an API call consults, in order *)
  Definition cells_touched (g : list Op) : list nat := map cell_of g.

  Lemma seq_run_app a : forall b s,
    seqr s (a ++ b) = (fst (seqr (fst (seqr s a)) b), snd (seqr s a) ++ snd (seqr (fst (seqr s a)) b)).
  Proof.
    induction a as [|o a IH]; intros b s; cbn [app seq_run fst snd].
    - now destruct (seqr s b).
    - rewrite IH. reflexivity.
  Qed.

  Lemma seq_run_concat groups : forall s,
    seqr s (concat groups) = (fst (calls_run s groups), concat (snd (calls_run s groups))).
  Proof.
    induction groups as [|g r IH]; intros s; cbn [concat calls_run fst snd]; [reflexivity|].
    rewrite seq_run_app, IH. reflexivity.
  Qed.

  Theorem multi_cell_calls_sequential (g0 : gstate V St Op Out) (sched : list nat) :
    initial V St Op Out g0 ->
    forall i t0 tf groups,
      nth_error (threads V St Op Out g0) i = Some t0 ->
      t_prog V Op Out t0 = concat groups ->
      nth_error (threads V St Op Out (crun sched g0)) i = Some tf ->
      t_prog V Op Out tf = [] ->
      t_outs V Op Out tf = concat (snd (calls_run (tbl V St Op Out g0 (t_inst V Op Out t0)) groups))
      /\ tbl V St Op Out (crun sched g0) (t_inst V Op Out t0)
         = fst (calls_run (tbl V St Op Out g0 (t_inst V Op Out t0)) groups).
  Proof.
    intros Hin i t0 tf groups H0 Hp Hf Hdone.
    destruct (concurrent_complete V St Op Out cpu choose cell_of exec g0 sched Hin i t0 tf H0 Hf Hdone)
      as [Eo Es].
    rewrite Hp, seq_run_concat in Eo, Es. cbn [fst snd] in Eo, Es. now split.
  Qed.

  (** also while the thread is still running: what it has done so far is a prefix of its
      dispatched calls (possibly ending INSIDE an API call), run sequentially *)
  Theorem multi_cell_calls_prefix (g0 : gstate V St Op Out) (sched : list nat) :
    initial V St Op Out g0 ->
    forall i t0 t groups,
      nth_error (threads V St Op Out g0) i = Some t0 ->
      t_prog V Op Out t0 = concat groups ->
      nth_error (threads V St Op Out (crun sched g0)) i = Some t ->
      exists k, k <= length (concat groups)
        /\ t_prog V Op Out t = skipn k (concat groups)
        /\ t_outs V Op Out t = snd (seqr (tbl V St Op Out g0 (t_inst V Op Out t0)) (firstn k (concat groups)))
        /\ tbl V St Op Out (crun sched g0) (t_inst V Op Out t0)
           = fst (seqr (tbl V St Op Out g0 (t_inst V Op Out t0)) (firstn k (concat groups))).
  Proof.
    intros Hin i t0 t groups H0 Hp Hf.
    destruct (concurrent_equals_sequential V St Op Out cpu choose cell_of exec g0 sched Hin i t0 t H0 Hf)
      as (k & Hk & Ep & _ & Eo & Es).
    rewrite Hp in Hk, Ep, Eo, Es. exists k. repeat split; assumption.
  Qed.
End MultiCell.

(** * Groestl: [finalize] consults the tf512 cell and then the of512 cell *)
Module GroestlTwoCells.
  Import FollowupsGroestl.F_C18.
  Notation GV := (gresult gmodule).

  (** the API calls of [Groestl256::digest(msg)] as groups of dispatched calls:
      [new] = init512; [update]+[finalize] compress the blocks of the padded message
      (tf512 cell, once per block) and finalize ends with of512 (second cell) *)
  Definition groups512 (bits : N) (msg : list N) : list (list gcall) :=
    [[CInit512 (iv_regs512 bits)];
     map CTf512 (Spec.Groestl.blocks 64 (Spec.Groestl.pad 64 msg)) ++ [COf512]].

  Lemma groups512_calls bits msg : concat (groups512 bits msg) = calls512 bits msg.
  Proof. unfold groups512, calls512. cbn [concat app]. now rewrite app_nil_r. Qed.

  (** the last group consults two different cells: 0 (tf512) ... then 1 (of512) *)
  Lemma finalize_touches_two_cells blk :
    cells_touched gcall g_cell_of [CTf512 blk; COf512] = [0; 1].
  Proof. reflexivity. Qed.

  (** every schedule, cold process, any number of threads: a finished thread that made the
      API calls [groups512 256 msg] has the state of running them one after the other, and that
      state is the Groestl-256 digest of its message (Spec/Groestl.v) *)
  Theorem groestl_finalize_two_cells :
    forall (t : gtgt) (cpu : nat -> bool) (g0 : gstate GV X gcall gout) (sched : list nat),
      initial GV X gcall gout g0 ->
      (cpu 0 || cpu 1 || cpu 2 = true) ->
      forall i t0 tf msg,
        nth_error (threads GV X gcall gout g0) i = Some t0 ->
        t_prog GV gcall gout t0 = concat (groups512 256 msg) -> fits 64 msg ->
        nth_error (threads GV X gcall gout
                     (run GV X gcall gout cpu (g_choose t) g_cell_of (g_exec sbox_fast) sched g0)) i = Some tf ->
        t_prog GV gcall gout tf = [] ->
        let final := tbl GV X gcall gout
                       (run GV X gcall gout cpu (g_choose t) g_cell_of (g_exec sbox_fast) sched g0)
                       (t_inst GV gcall gout t0) in
        final = fst (calls_run GV X gcall gout cpu (g_choose t) g_cell_of (g_exec sbox_fast)
                       (tbl GV X gcall gout g0 (t_inst GV gcall gout t0)) (groups512 256 msg))
        /\ t_outs GV gcall gout tf
           = concat (snd (calls_run GV X gcall gout cpu (g_choose t) g_cell_of (g_exec sbox_fast)
                            (tbl GV X gcall gout g0 (t_inst GV gcall gout t0)) (groups512 256 msg)))
        /\ out256 (concat final) = Spec.Groestl.groestl256 msg.
  Proof.
    intros t cpu g0 sched Hin Hcpu i t0 tf msg H0 Hp Hfit Hf Hdone. cbv zeta.
    destruct (multi_cell_calls_sequential GV X gcall gout cpu (g_choose t) g_cell_of (g_exec sbox_fast)
                g0 sched Hin i t0 tf (groups512 256 msg) H0 Hp Hf Hdone) as [Eo Es].
    split; [exact Es|]. split; [exact Eo|].
    rewrite groups512_calls in Hp.
    exact (proj1 (concurrent_first_use_groestl256 t cpu g0 sched Hin Hcpu i t0 tf msg H0 Hp Hfit Hf Hdone)).
  Qed.

  (** ** the example: [g3] of Proofs/FollowupsGroestl.v (threads 0, 1, 2 hash "", "abc" and 70
      bytes on instances 0, 10, 20).  Schedule: thread 0 runs [new] and the tf512 half of
      [finalize] (initialising cells 2 and 0); it reads the of512 cell (1), finds it empty and
      computes the initialiser; BEFORE it stores, thread 1 - which has meanwhile done [new] and
      its tf512 - also finds cell 1 empty, initialises and stores it and runs of512; then
      thread 0 stores (again) and runs of512.  Thread 2 never runs. *)
  Definition cpu_all : nat -> bool := fun _ => true.
  Definition tgt0 : gtgt := GTgt false false false.
  Definition sched2 : list nat :=
    [0;0;0;0] ++ [1;1] ++ [0;0;0;0] ++ [1] ++ [0;0] ++ [1] ++ [1;1;1] ++ [0] ++ [1] ++ [0].
  Definition run3 (s : list nat) := run GV X gcall gout cpu_all (g_choose tgt0) g_cell_of (g_exec sbox_fast) s g3.

  (** the moment of the race: both threads are inside [finalize], between its two cells;
      thread 0 has computed the of512 initialiser but not stored it, thread 1 likewise *)
  Example race_point :
    map (fun th => (length (t_prog GV gcall gout th),
                    match t_pc GV gcall gout th with
                    | Computed _ c _ => Some c | _ => None end))
        (threads GV X gcall gout (run3 (firstn 16 sched2)))
    = [(1, Some 1); (1, Some 1); (4, None)].
  Proof. vm_compute. reflexivity. Qed.

  Example two_cell_schedule_sequential :
    let g := run3 sched2 in
    map (fun th => t_prog GV gcall gout th) (firstn 2 (threads GV X gcall gout g)) = [[]; []]
    /\ map (fun th => t_outs GV gcall gout th) (firstn 2 (threads GV X gcall gout g))
       = [[Returned; Returned; Returned]; [Returned; Returned; Returned]]
    /\ tbl GV X gcall gout g 0
       = fst (calls_run GV X gcall gout cpu_all (g_choose tgt0) g_cell_of (g_exec sbox_fast) [] (groups512 256 (msg_of 0)))
    /\ tbl GV X gcall gout g 10
       = fst (calls_run GV X gcall gout cpu_all (g_choose tgt0) g_cell_of (g_exec sbox_fast) [] (groups512 256 (msg_of 1)))
    /\ out256 (concat (tbl GV X gcall gout g 0)) = Spec.Groestl.groestl256 (msg_of 0)
    /\ out256 (concat (tbl GV X gcall gout g 10)) = Spec.Groestl.groestl256 (msg_of 1)
    /\ tbl GV X gcall gout g 20 = [].
  Proof. vm_compute. repeat split; reflexivity. Qed.

  (** the same conclusion from the theorem (no computation): hypotheses discharged *)
  Example two_cell_by_theorem :
    out256 (concat (tbl GV X gcall gout (run3 sched2) 0)) = Spec.Groestl.groestl256 (msg_of 0).
  Proof.
    assert (Hcount : 4 * length (t_prog GV gcall gout (th 0)) <= count_occ Nat.eq_dec sched2 0)
      by (vm_compute; apply le_n).
    destruct (progress GV X gcall gout cpu_all (g_choose tgt0) g_cell_of (g_exec sbox_fast)
                g3 0 (th 0) sched2 eq_refl Hcount) as (tf & Hf & Hdone).
    refine (proj2 (proj2 (groestl_finalize_two_cells tgt0 cpu_all g3 sched2 g3_initial eq_refl
                            0 (th 0) tf (msg_of 0) eq_refl _ _ Hf Hdone))).
    - symmetry. apply groups512_calls.
    - vm_compute. repeat split; lia.
  Qed.
End GroestlTwoCells.

(** * [dispatch!]: five feature probes, then the call - six consecutive [Op]s *)
Module DispatchProbes.
  (** cells 0..4 = the cached answers for the five features a [dispatch!] site asks about;
      instance state = (answers seen so far by this call, results of finished calls);
      [Probe k] reads cell k; [Call x] runs the variant selected by the answers *)
  Inductive dop := Probe (k : nat) | Call (x : nat).
  Definition d_choose (cpu : nat -> bool) (c : nat) : bool := cpu c.
  Definition d_cell_of (o : dop) : nat := match o with Probe k => k | Call _ => 5 end.
  Definition variant (answers : list bool) : nat := length (filter (fun b => b) answers).
  Definition d_exec (v : bool) (o : dop) (s : list bool * list nat) : (list bool * list nat) * nat :=
    match o with
    | Probe _ => ((fst s ++ [v], snd s), 0)
    | Call x => (([], snd s ++ [x + 100 * variant (fst s)]), x + 100 * variant (fst s))
    end.
  Definition dispatch_call (x : nat) : list dop := [Probe 0; Probe 1; Probe 2; Probe 3; Probe 4; Call x].

  Lemma dispatch_touches_six_cells x :
    cells_touched dop d_cell_of (dispatch_call x) = [0; 1; 2; 3; 4; 5].
  Proof. reflexivity. Qed.

  (** every schedule: a finished thread whose program is a sequence of [dispatch!] calls has the
      results of the single-threaded run - the variant is the one the CPU oracle selects *)
  Theorem dispatch_calls_any_schedule :
    forall (cpu : nat -> bool) (g0 : gstate bool (list bool * list nat) dop nat) (sched : list nat),
      initial _ _ _ _ g0 ->
      forall i t0 tf xs,
        nth_error (threads _ _ _ _ g0) i = Some t0 ->
        t_prog _ _ _ t0 = concat (map dispatch_call xs) ->
        tbl _ _ _ _ g0 (t_inst _ _ _ t0) = ([], []) ->
        nth_error (threads _ _ _ _ (run _ _ _ _ cpu d_choose d_cell_of d_exec sched g0)) i = Some tf ->
        t_prog _ _ _ tf = [] ->
        tbl _ _ _ _ (run _ _ _ _ cpu d_choose d_cell_of d_exec sched g0) (t_inst _ _ _ t0)
        = ([], map (fun x => x + 100 * variant [cpu 0; cpu 1; cpu 2; cpu 3; cpu 4]) xs).
  Proof.
    intros cpu g0 sched Hin i t0 tf xs H0 Hp Hs Hf Hdone.
    destruct (multi_cell_calls_sequential _ _ _ _ cpu d_choose d_cell_of d_exec g0 sched Hin
                i t0 tf (map dispatch_call xs) H0 Hp Hf Hdone) as [_ ->].
    rewrite Hs. clear.
    assert (G : forall done,
      fst (calls_run _ _ _ _ cpu d_choose d_cell_of d_exec ([], done) (map dispatch_call xs))
      = ([], done ++ map (fun x => x + 100 * variant [cpu 0; cpu 1; cpu 2; cpu 3; cpu 4]) xs)).
    { induction xs as [|x r IH]; intros done; cbn [map calls_run fst snd].
      - now rewrite app_nil_r.
      - unfold dispatch_call at 1. cbn [seq_run d_exec d_cell_of fst snd app init d_choose].
        rewrite IH. rewrite <- app_assoc. reflexivity. }
    exact (G []).
  Qed.
End DispatchProbes.
