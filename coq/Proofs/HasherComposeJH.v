(** JH-224/256/384/512: the generic hasher record of Model/Hasher.v instantiated with the
    REAL functions of Model/JH.v ([compressor_new] of the IV, [compressor_input] = the
    bit-sliced F8, [compressor_finalize] + truncation), shown (a) [hasher_ok], (b) to
    have the concrete model's [m_digest] as its one-shot function, hence (c) every history
    of operations returns the SPECIFIED digests (Spec/JH.v) of the absorbed bytes.

    Route: direct instantiation of the transcribed shape [jh_hasher] ([hasher_ok] from
    [C08_crate_hashers_ok]); [h_pre] is the wrapping [datalen += data.len()].  The record
    wraps (release profile); the equality with [m_digest Release] is structural and
    unconditional; below 2^61 bytes the debug profile gives the same result (C06), so the
    capstone is stated against the specification for both. *)
From Coq Require Import NArith List Arith Lia Bool.
From CC Require Import Lib.Words Lib.Bytes Lib.ListX Model.BlockBuffer Model.Hasher
  Proofs.BlockBufferLazy Proofs.BlockBufferEager Proofs.Hasher Proofs.HasherFin
  Proofs.HasherComposeLib.
From CC Require Model.JH Spec.JH Proofs.JHDigest.
Import ListNotations.
Module MJ := CC.Model.JH.
Local Open Scope N_scope.

Definition jh_out (v : MJ.variant) (st : MJ.x8) : list N :=
  skipn (128 - MJ.v_out v) (MJ.compressor_finalize st).

(** the record; [[]] stands for the panic of [pad_with::<Iso7816>().unwrap()] (unreachable:
    the buffer position is below the block size after every [input_block]) *)
Definition jh_real (v : MJ.variant) : hasher (MJ.x8 * N) (list N) :=
  jh_hasher [] (MJ.compressor_new (MJ.v_h0 v)) MJ.compressor_input (jh_out v).

(** (a) *)
Lemma jh_real_ok v : hasher_ok (jh_real v).
Proof. destruct (@crate_hashers_ok MJ.x8 (list N) []) as (_ & _ & Hj & _). apply Hj. Qed.

Definition jh_or_nil (o : option (list N)) : list N := match o with Some d => d | None => [] end.

Lemma jh_fold_step_const blocks : forall st n,
  fold_left (fun (s : MJ.x8 * N) blk => (MJ.compressor_input (fst s) blk, snd s)) blocks (st, n)
  = (fold_left MJ.compressor_input blocks st, n).
Proof. induction blocks as [|b r IH]; intros st n; cbn [fold_left fst snd]; [reflexivity|apply IH]. Qed.

(** (b) the one-shot function of the record IS [Digest::digest] of the concrete model in
    the release profile (wrapping counters), for every message *)
Theorem jh_real_oneshot v msg : h_oneshot (jh_real v) msg = jh_or_nil (MJ.m_digest MJ.Release v msg).
Proof.
  unfold h_oneshot, h_finalize, h_update, h_new, jh_real, jh_hasher, jh_shape.
  cbn [h_size h_lazy h_init h_pre h_step h_fin i_st i_buf bb_input fst snd].
  unfold MJ.m_digest, MJ.h_update, MJ.h_default.
  cbn [MJ.checked andb MJ.h_buffer MJ.h_state MJ.h_datalen].
  destruct (input_block (bb_new 64) msg) as [b blocks]. cbn [fst snd].
  rewrite jh_fold_step_const.
  unfold MJ.h_finalize, MJ.h_bitlen, MJ.h_final_blocks, jh_fin, MJ.pad_with_iso7816.
  cbn [MJ.checked andb MJ.h_buffer MJ.h_state MJ.h_datalen fst snd].
  destruct (bb_pos b =? 0)%nat.
  - reflexivity.
  - destruct (bb_size b <=? bb_pos b)%nat; reflexivity.
Qed.

(** more than (b): the record and the concrete model (release profile) move in lock-step
    from EVERY state *)
Definition jh_to_model (i : inst (MJ.x8 * N)) : MJ.hasher :=
  MJ.Hasher (fst (i_st i)) (i_buf i) (snd (i_st i)).

Lemma jh_real_new_sim v : jh_to_model (h_new (jh_real v)) = MJ.h_default v.
Proof. reflexivity. Qed.

Lemma jh_real_update_sim v i d :
  MJ.h_update MJ.Release (jh_to_model i) d = Some (jh_to_model (h_update (jh_real v) i d)).
Proof.
  destruct i as [[st n] b].
  unfold h_update, jh_real, jh_hasher, jh_shape, jh_to_model, MJ.h_update.
  cbn [h_size h_lazy h_init h_pre h_step h_fin i_st i_buf bb_input fst snd
       MJ.checked andb MJ.h_buffer MJ.h_state MJ.h_datalen].
  destruct (input_block b d) as [b1 blocks]. cbn [fst snd].
  rewrite jh_fold_step_const. reflexivity.
Qed.

Lemma jh_real_finalize_sim v i :
  h_finalize (jh_real v) i = jh_or_nil (MJ.h_finalize MJ.Release v (jh_to_model i)).
Proof.
  destruct i as [[st n] b].
  unfold h_finalize, jh_real, jh_hasher, jh_shape, jh_to_model.
  cbn [h_fin i_st i_buf fst snd].
  unfold MJ.h_finalize, MJ.h_bitlen, MJ.h_final_blocks, jh_fin, MJ.pad_with_iso7816.
  cbn [MJ.checked andb MJ.h_buffer MJ.h_state MJ.h_datalen fst snd].
  destruct (bb_pos b =? 0)%nat.
  - reflexivity.
  - destruct (bb_size b <=? bb_pos b)%nat; reflexivity.
Qed.

Definition jh224_real := jh_real MJ.Jh224.
Definition jh256_real := jh_real MJ.Jh256.
Definition jh384_real := jh_real MJ.Jh384.
Definition jh512_real := jh_real MJ.Jh512.

(** the bound of the conformance theorem C06: bytes, fewer than 2^61 of them *)
Definition jh_bound (m : list N) : Prop := Forall is_byte m /\ N.of_nat (length m) < 2 ^ 61.

Lemma jh_real_spec v size m : JHDigest.variant_size v size -> jh_bound m ->
  h_oneshot (jh_real v) m = Spec.JH.jh size m.
Proof.
  intros Hv [Hb Hl]. rewrite jh_real_oneshot.
  now rewrite (JHDigest.digest_eq_spec MJ.Release v size m Hv Hb Hl).
Qed.

(** the debug profile (overflow checks on) returns the same digest below the bound *)
Lemma jh_real_oneshot_any_profile p v size m : JHDigest.variant_size v size -> jh_bound m ->
  MJ.m_digest p v m = Some (h_oneshot (jh_real v) m).
Proof.
  intros Hv Hm. rewrite (jh_real_spec v size m Hv Hm). destruct Hm as [Hb Hl].
  now apply JHDigest.digest_eq_spec.
Qed.

Lemma vs224 : JHDigest.variant_size MJ.Jh224 224. Proof. left. split; reflexivity. Qed.
Lemma vs256 : JHDigest.variant_size MJ.Jh256 256. Proof. right. left. split; reflexivity. Qed.
Lemma vs384 : JHDigest.variant_size MJ.Jh384 384. Proof. right. right. left. split; reflexivity. Qed.
Lemma vs512 : JHDigest.variant_size MJ.Jh512 512. Proof. right. right. right. split; reflexivity. Qed.

(** (c) capstones *)
Theorem jh_history v size ops : JHDigest.variant_size v size -> ops_bounded jh_bound ops ->
  snd (run (jh_real v) [Some (h_new (jh_real v))] ops) = snd (srun (Spec.JH.jh size) [Some []] ops).
Proof. intros Hv. apply compose_history; [apply jh_real_ok|exact (fun m => jh_real_spec v size m Hv)]. Qed.

Theorem jh224_history ops : ops_bounded jh_bound ops ->
  snd (run jh224_real [Some (h_new jh224_real)] ops) = snd (srun (Spec.JH.jh 224) [Some []] ops).
Proof. exact (jh_history _ _ ops vs224). Qed.
Theorem jh256_history ops : ops_bounded jh_bound ops ->
  snd (run jh256_real [Some (h_new jh256_real)] ops) = snd (srun (Spec.JH.jh 256) [Some []] ops).
Proof. exact (jh_history _ _ ops vs256). Qed.
Theorem jh384_history ops : ops_bounded jh_bound ops ->
  snd (run jh384_real [Some (h_new jh384_real)] ops) = snd (srun (Spec.JH.jh 384) [Some []] ops).
Proof. exact (jh_history _ _ ops vs384). Qed.
Theorem jh512_history ops : ops_bounded jh_bound ops ->
  snd (run jh512_real [Some (h_new jh512_real)] ops) = snd (srun (Spec.JH.jh 512) [Some []] ops).
Proof. exact (jh_history _ _ ops vs512). Qed.

(** from the [Update] operations alone: all data are bytes, fewer than 2^61 in total *)
Theorem jh_history_update_bytes v size ops : JHDigest.variant_size v size ->
  Forall is_byte (update_bytes ops) -> N.of_nat (length (update_bytes ops)) < 2 ^ 61 ->
  snd (run (jh_real v) [Some (h_new (jh_real v))] ops) = snd (srun (Spec.JH.jh size) [Some []] ops).
Proof.
  intros Hv Hb Hl. apply (jh_history v size ops Hv).
  apply (ops_bounded_of_update_bytes _ is_byte); [exact Hb|].
  intros m Hm Hq. split; [exact Hq|lia].
Qed.

(** chunked one-instance form *)
Theorem jh_chunks v size pieces : JHDigest.variant_size v size -> jh_bound (concat pieces) ->
  h_finalize (jh_real v) (fold_left (h_update (jh_real v)) pieces (h_new (jh_real v)))
  = Spec.JH.jh size (concat pieces).
Proof. intros Hv. apply compose_chunks; [apply jh_real_ok|exact (fun m => jh_real_spec v size m Hv)]. Qed.

(** * non-vacuity *)
Definition jh_ex_ops : list op :=
  [Update 0 [1; 2; 3]; Clone 0; FinalizeReset 0; Update 1 (repeat 7 70); Update 0 [9]; Finalize 1; Finalize 0].

Example jh256_history_example :
  snd (run jh256_real [Some (h_new jh256_real)] jh_ex_ops)
  = [(0%nat, Spec.JH.jh 256 [1; 2; 3]);
     (1%nat, Spec.JH.jh 256 ([1; 2; 3] ++ repeat 7 70));
     (0%nat, Spec.JH.jh 256 [9])].
Proof. vm_compute. reflexivity. Qed.

Example jh_example_bounded : ops_bounded jh_bound jh_ex_ops.
Proof.
  apply (ops_bounded_of_update_bytes _ is_byte).
  - cbn [jh_ex_ops update_bytes repeat app]. repeat constructor.
  - intros m Hm Hq. split; [exact Hq|]. cbn [jh_ex_ops update_bytes repeat app length] in Hm.
    assert (2 ^ 10 < 2 ^ 61) by (apply N.pow_lt_mono_r; lia). change (2 ^ 10) with 1024 in *. lia.
Qed.
