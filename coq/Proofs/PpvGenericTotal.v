(** C12 portable part: no operation of the portable back end panics, in either build profile. *)
From Coq Require Import NArith List Bool Arith Lia.
From CC Require Import Lib.Words Lib.Bytes Lib.ListX Model.PpvSoft Model.PpvGeneric.
From CC Require Spec.Lanes.
From CC Require Import Proofs.PpvGenericLib Proofs.PpvGenericOps Proofs.PpvGenericSwap Proofs.PpvSoftFwd Proofs.PpvGenericWide.
Import ListNotations.
Local Open Scope N_scope.

Theorem portable_total (p : profile) (t : vt) :
  (forall o a b, wfv t a -> wfv t b -> is_ok (g_binop p t o a b) = true) /\
  (forall o v, wun_ok t o -> wfv t v -> is_ok (g_wunop p t o v) = true) /\
  (forall n v, In n [1; 2; 4; 8; 16; 32; 64] -> wfv t v -> is_ok (g_swap p t n v) = true) /\
  (forall k v, wfv U32x4 v -> is_ok (g32_lane_shuffle p k v) = true) /\
  (forall m o a b, (m = 2 \/ m = 4)%nat -> wide t m a -> wide t m b ->
                   is_ok (xn_binop' m (g_binop p t o) a b) = true) /\
  (forall m o v, (m = 2 \/ m = 4)%nat -> wun_ok t o -> wide t m v ->
                 is_ok (xn_unop' m (g_wunop p t o) v) = true) /\
  (forall m n v, (m = 2 \/ m = 4)%nat -> In n [1; 2; 4; 8; 16; 32; 64] -> wide t m v ->
                 is_ok (xn_unop' m (g_swap p t n) v) = true).
Proof.
  repeat split.
  - intros o a b Ha Hb. now rewrite g_binop_lanewise.
  - intros o v Ho Hv. now rewrite g_wunop_lanewise.
  - intros n v Hn Hv. destruct (g_swap_groups p t n v Hn Hv) as [r [E _]]. now rewrite E.
  - intros k v Hv. now rewrite g32_lane_shuffle_perm.
  - intros m o a b Hm Ha Hb. destruct (wide_binop_lanewise p t m o a b Hm Ha Hb) as [r [E _]]. now rewrite E.
  - intros m o v Hm Ho Hv. destruct (wide_wunop_lanewise p t m o v Hm Ho Hv) as [r [E _]]. now rewrite E.
  - intros m n v Hm Hn Hv. destruct (wide_swap_groups p t m n v Hm Hn Hv) as [r [E _]]. now rewrite E.
Qed.
