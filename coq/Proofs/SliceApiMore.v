(** C16 — more addressed shapes: lazy block-buffer absorption (Skein's update), StoreBytes x4
    read, the VALUE written by the x2 / x4 writes, and the big-endian forms (read_be / write_be:
    [bswap] of the lanes). For every memory, slice base address and length. *)
From Coq Require Import NArith List Arith Lia Bool.
From CC Require Import Lib.Words Lib.Bytes Lib.ListX Model.BlockBuffer Model.SliceApi Model.SliceApiStream
  Proofs.SliceApi Proofs.SliceApiBuf.
Import ListNotations.

(** * Lazy block-buffer absorption *)

Lemma skipn_firstn_comm' {A} (l : list A) a b : skipn a (firstn (a + b) l) = firstn b (skipn a l).
Proof.
  revert l; induction a as [|a IH]; intros l; [reflexivity|].
  destruct l as [|x l]; cbn [plus firstn skipn]; [now rewrite firstn_nil | apply IH].
Qed.

Lemma lazy_blocks_view pre post L size body : length body = L -> 0 < size ->
  forall fuel i, i <= L -> L - i <= fuel ->
  lazy_blocks fuel (pre ++ body ++ post) (Sl (length pre) L) i (L - i) size
  = Some (i + size * ((L - i - 1) / size),
          chunks_exact size ((L - i - 1) / size) (firstn (size * ((L - i - 1) / size)) (skipn i body))).
Proof.
  intros HL Hsz. induction fuel as [|f IH]; intros i Hi Hf; cbn [lazy_blocks].
  - replace (L - i - 1) with 0 by lia. rewrite Nat.div_0_l by lia.
    rewrite Nat.mul_0_r, Nat.add_0_r. reflexivity.
  - destruct (Nat.ltb_spec size (L - i)) as [Hlt|Hge].
    + rewrite sread_view by (try assumption; lia).
      replace (L - i - size) with (L - (i + size)) by lia.
      rewrite IH by lia.
      set (n' := (L - (i + size) - 1) / size).
      assert (En : (L - i - 1) / size = S n').
      { unfold n'. replace (L - i - 1) with ((L - (i + size) - 1) + 1 * size) by lia.
        rewrite Nat.div_add by lia. lia. }
      rewrite En.
      assert (Hm : size * n' <= L - (i + size) - 1) by (unfold n'; apply Nat.mul_div_le; lia).
      f_equal. f_equal; [lia|].
      cbn [chunks_exact].
      assert (Ll : length (firstn (size * S n') (skipn i body)) = size * S n').
      { rewrite firstn_length, skipn_length. lia. }
      rewrite Ll. destruct (Nat.leb_spec size (size * S n')) as [_|H]; [|lia].
      rewrite firstn_firstn, Nat.min_l by lia. f_equal.
      replace (size * S n') with (size + size * n') by lia.
      rewrite skipn_firstn_comm', skipn_skipn'. reflexivity.
    + assert (E0 : (L - i - 1) / size = 0) by (apply Nat.div_small; lia).
      rewrite E0, Nat.mul_0_r, Nat.add_0_r. reflexivity.
Qed.

Lemma a_input_lazy_view pre body post L b :
  length body = L -> bb_ok b ->
  a_input_lazy b (pre ++ body ++ post) (Sl (length pre) L) = Some (input_lazy b body).
Proof.
  intros HL (Hsz & Hpos). unfold a_input_lazy, input_lazy; cbn [s_len]. rewrite HL.
  unfold bb_remaining.
  destruct (Nat.leb_spec L (bb_size b - bb_pos b)) as [Hle|Hgt].
  - rewrite sread_view by (try assumption; lia). cbn [skipn].
    rewrite firstn_all2 by lia. reflexivity.
  - destruct (Nat.eqb_spec (bb_pos b) 0) as [Hz|Hnz]; cbn [negb].
    + rewrite (lazy_blocks_view pre post L (bb_size b) body HL Hsz L 0) by lia.
      rewrite Nat.sub_0_r. cbn [plus skipn].
      set (n := (L - 1) / bb_size b).
      assert (Hm : bb_size b * n <= L - 1) by (unfold n; apply Nat.mul_div_le; lia).
      rewrite sread_view by (try assumption; lia).
      rewrite firstn_all2 by (rewrite skipn_length; lia). rewrite HL. reflexivity.
    + set (r := bb_size b - bb_pos b) in *.
      rewrite sread_view by (try assumption; lia). cbn [skipn].
      rewrite (lazy_blocks_view pre post L (bb_size b) body HL Hsz L r) by lia.
      rewrite skipn_length, HL.
      set (n := (L - r - 1) / bb_size b).
      assert (Hm : bb_size b * n <= L - r - 1) by (unfold n; apply Nat.mul_div_le; lia).
      rewrite sread_view by (try assumption; lia).
      rewrite (firstn_all2 (n := L - (r + bb_size b * n))) by (rewrite skipn_length; lia).
      rewrite skipn_skipn'. reflexivity.
Qed.

(** Skein's update ([input_lazy]): for every memory, slice base address and length, every buffer
    position: all reads inside the slice; the result (buffer and blocks handed to the compression
    function) is [Model.BlockBuffer.input_lazy] on the bytes of the slice — a function of content
    and length only; nothing is written (no memory is returned) *)
Theorem input_lazy_spec m s b :
  slice_ok m s -> bb_ok b -> a_input_lazy b m s = Some (input_lazy b (sbytes m s)).
Proof.
  intros Hs Hb. destruct (slice_view m s Hs) as (pre & body & post & -> & Hp & Hl).
  destruct s as [off len]; cbn [s_off s_len] in *. subst off.
  rewrite (sbytes_view pre body post len Hl). now apply a_input_lazy_view.
Qed.

Theorem input_lazy_reads_in_bounds m s b :
  slice_ok m s -> bb_ok b -> a_input_lazy b m s <> None.
Proof. intros Hs Hb. now rewrite input_lazy_spec. Qed.

Theorem input_lazy_address_independent m1 s1 m2 s2 b :
  slice_ok m1 s1 -> slice_ok m2 s2 -> bb_ok b -> sbytes m1 s1 = sbytes m2 s2 ->
  a_input_lazy b m1 s1 = a_input_lazy b m2 s2.
Proof. intros H1 H2 Hb E. rewrite !input_lazy_spec by assumption. now rewrite E. Qed.

(** * StoreBytes: the x4 read *)

Lemma sbytes_sub_app m s i a b :
  sbytes m (sub s i a) ++ sbytes m (sub s (i + a) b) = sbytes m (sub s i (a + b)).
Proof.
  unfold sbytes, sub; cbn [s_off s_len].
  replace (s_off s + (i + a)) with (s_off s + i + a) by lia.
  rewrite <- (skipn_skipn' m a (s_off s + i)). apply firstn_add.
Qed.

Lemma sbytes_sub_all m s : sbytes m (sub s 0 (s_len s)) = sbytes m s.
Proof. unfold sbytes, sub; cbn [s_off s_len]. now rewrite Nat.add_0_r. Qed.

Lemma quarters n len : 4 * n <= len -> n + (n + (n + (len - 3 * n))) = len.
Proof. lia. Qed.

Lemma sbytes_quarters m s n : 4 * n <= s_len s ->
  sbytes m (sub s 0 n) ++ sbytes m (sub s n n) ++ sbytes m (sub s (2 * n) n)
    ++ sbytes m (sub s (3 * n) (s_len s - 3 * n)) = sbytes m s.
Proof.
  intros H.
  replace (3 * n) with (2 * n + n) at 1 by lia. rewrite sbytes_sub_app.
  replace (2 * n) with (n + n) by lia. rewrite sbytes_sub_app.
  change n with (0 + n) at 2. rewrite sbytes_sub_app.
  rewrite quarters by assumption. apply sbytes_sub_all.
Qed.

(** x4 read: never a fault; [Ok] exactly when every part has the element size, and then the value
    is the content of the slice in address order; otherwise the panic leaves memory alone *)
Theorem sb_read4_spec size m s :
  slice_ok m s ->
  sb_read4 size m s = if (s_len s / 4 =? size) && (s_len s - 3 * (s_len s / 4) =? size)
                      then Ok (sbytes m s) else Panic m.
Proof.
  intros Hs. unfold sb_read4. set (n := s_len s / 4).
  assert (Hn : 4 * n <= s_len s) by (unfold n; apply Nat.mul_div_le; lia).
  rewrite !sb_read_spec by (apply slice_ok_sub; [lia|assumption]).
  cbn [sub s_len s_off].
  destruct (Nat.eqb_spec n size) as [E1|]; cbn [andb res_bind]; [|reflexivity].
  destruct (Nat.eqb_spec (s_len s - 3 * n) size) as [E2|]; cbn [res_bind]; [|reflexivity].
  f_equal. now apply sbytes_quarters.
Qed.

(** * StoreBytes: the value written by the x2 / x4 writes *)

Lemma sb_write_sub m s i n v : i + n <= s_len s ->
  sb_write v m (sub s i n)
  = if n =? length v then match swrite m s i v with Some m' => Ok m' | None => Fault end else Panic m.
Proof.
  intros H. unfold sb_write, swrite, mwrite, sub; cbn [s_len s_off].
  destruct (Nat.eqb_spec n (length v)) as [E|]; [|reflexivity]. subst n.
  cbn [plus]. rewrite Nat.leb_refl.
  destruct (Nat.leb_spec (i + length v) (s_len s)); [|lia].
  now rewrite Nat.add_0_r.
Qed.

Lemma sb_write_ok_len v m s m' : sb_write v m s = Ok m' -> s_len s = length v.
Proof. unfold sb_write. destruct (Nat.eqb_spec (s_len s) (length v)); [auto|discriminate]. Qed.

(** one part written behind the parts already written *)
Lemma write_next pre post L done rest v i :
  length done + length rest = L -> i = length done -> length v <= length rest ->
  swrite (pre ++ (done ++ rest) ++ post) (Sl (length pre) L) i v
  = Some (pre ++ ((done ++ v) ++ skipn (length v) rest) ++ post).
Proof.
  intros HL Hi Hv. subst i. rewrite swrite_view by (rewrite ?app_length; lia).
  rewrite firstn_len_app, skipn_plus_app. now rewrite <- !app_assoc.
Qed.

Ltac eqb_true :=
  match goal with
  | |- context [?a =? length ?v] => destruct (Nat.eqb_spec a (length v)) as [_|?]; [|lia]
  end.

Lemma sb_write2_view pre body post L v0 v1 :
  length body = L -> length v0 = L / 2 -> length v1 = L - L / 2 ->
  sb_write2 v0 v1 (pre ++ body ++ post) (Sl (length pre) L) = Ok (pre ++ (v0 ++ v1) ++ post).
Proof.
  intros HL H0 H1. unfold sb_write2; cbn [s_len].
  assert (Hh : L / 2 <= L) by (apply Nat.div_le_upper_bound; lia).
  rewrite sb_write_sub by (cbn [s_len]; lia). eqb_true.
  change body with ([] ++ body) at 1.
  rewrite (write_next pre post L [] body v0 0) by (cbn [length]; lia). cbn [app].
  rewrite sb_write_sub by (cbn [s_len]; lia). eqb_true.
  rewrite (write_next pre post L v0 (skipn (length v0) body) v1) by (rewrite ?skipn_length; lia).
  rewrite skipn_all2 by (rewrite skipn_length; lia). now rewrite app_nil_r.
Qed.

Lemma sb_write4_view pre body post L v0 v1 v2 v3 :
  length body = L -> length v0 = L / 4 -> length v1 = L / 4 -> length v2 = L / 4 ->
  length v3 = L - 3 * (L / 4) ->
  sb_write4 v0 v1 v2 v3 (pre ++ body ++ post) (Sl (length pre) L) = Ok (pre ++ (v0 ++ v1 ++ v2 ++ v3) ++ post).
Proof.
  intros HL H0 H1 H2 H3. unfold sb_write4; cbn [s_len]. set (n := L / 4) in *.
  assert (Hn : 4 * n <= L) by (unfold n; apply Nat.mul_div_le; lia).
  rewrite sb_write_sub by (cbn [s_len]; lia). eqb_true.
  change body with ([] ++ body) at 1.
  rewrite (write_next pre post L [] body v0 0) by (cbn [length]; lia). cbn [app].
  set (r1 := skipn (length v0) body).
  assert (L1 : length r1 = L - n) by (unfold r1; rewrite skipn_length; lia).
  rewrite sb_write_sub by (cbn [s_len]; lia). eqb_true.
  rewrite (write_next pre post L v0 r1 v1) by lia.
  set (r2 := skipn (length v1) r1).
  assert (L2 : length r2 = L - 2 * n) by (unfold r2; rewrite skipn_length; lia).
  rewrite sb_write_sub by (cbn [s_len]; lia). eqb_true.
  rewrite (write_next pre post L (v0 ++ v1) r2 v2) by (rewrite ?app_length; lia).
  set (r3 := skipn (length v2) r2).
  assert (L3 : length r3 = L - 3 * n) by (unfold r3; rewrite skipn_length; lia).
  rewrite sb_write_sub by (cbn [s_len]; lia). eqb_true.
  rewrite (write_next pre post L ((v0 ++ v1) ++ v2) r3 v3) by (rewrite ?app_length; lia).
  rewrite skipn_all2 by lia. rewrite app_nil_r. now rewrite <- !app_assoc.
Qed.

Lemma sb_write2_ok_lens v0 v1 m s m' : sb_write2 v0 v1 m s = Ok m' ->
  (s_len s / 2 =? length v0) && (s_len s - s_len s / 2 =? length v1) = true.
Proof.
  unfold sb_write2. destruct (sb_write v0 m _) as [m1| |] eqn:E0; try discriminate.
  intros E1. apply sb_write_ok_len in E0. apply sb_write_ok_len in E1. cbn [sub s_len] in *.
  rewrite <- E0, <- E1, !Nat.eqb_refl. reflexivity.
Qed.

Lemma sb_write4_ok_lens v0 v1 v2 v3 m s m' : sb_write4 v0 v1 v2 v3 m s = Ok m' ->
  (s_len s / 4 =? length v0) && (s_len s / 4 =? length v1) && (s_len s / 4 =? length v2)
    && (s_len s - 3 * (s_len s / 4) =? length v3) = true.
Proof.
  unfold sb_write4.
  destruct (sb_write v0 m _) as [m1| |] eqn:E0; try discriminate.
  destruct (sb_write v1 m1 _) as [m2| |] eqn:E1; try discriminate.
  destruct (sb_write v2 m2 _) as [m3| |] eqn:E2; try discriminate.
  intros E3. apply sb_write_ok_len in E0, E1, E2, E3. cbn [sub s_len] in *.
  rewrite <- E0, <- E1, <- E2, <- E3, !Nat.eqb_refl. reflexivity.
Qed.

(** x2 write: with the exact part lengths the slice afterwards holds [v0 ++ v1] in address order
    and nothing else changes; with any other length the outcome is the model's panic (possibly
    after the first part was written), memory outside the slice unchanged; never a fault *)
Theorem sb_write2_value v0 v1 m s :
  slice_ok m s ->
  if (s_len s / 2 =? length v0) && (s_len s - s_len s / 2 =? length v1)
  then sb_write2 v0 v1 m s = Ok (firstn (s_off s) m ++ (v0 ++ v1) ++ skipn (s_off s + s_len s) m)
  else exists m', sb_write2 v0 v1 m s = Panic m' /\ same_outside m m' s.
Proof.
  intros Hs. destruct (_ && _) eqn:C.
  - apply andb_prop in C. destruct C as (C0 & C1). apply Nat.eqb_eq in C0, C1.
    destruct (slice_view m s Hs) as (pre & body & post & -> & Hp & Hl).
    destruct s as [off len]; cbn [s_off s_len] in *. subst off.
    rewrite (sb_write2_view pre body post len v0 v1) by auto.
    rewrite firstn_len_app, skipn_plus_app. rewrite <- Hl. now rewrite skipn_len_app.
  - pose proof (sb_write2_safe v0 v1 m s Hs) as Hsafe.
    destruct (sb_write2 v0 v1 m s) as [m'|m'|] eqn:E; cbn [res_safe] in Hsafe.
    + apply sb_write2_ok_lens in E. congruence.
    + eauto.
    + contradiction.
Qed.

(** x4 write: the same with four parts *)
Theorem sb_write4_value v0 v1 v2 v3 m s :
  slice_ok m s ->
  if (s_len s / 4 =? length v0) && (s_len s / 4 =? length v1) && (s_len s / 4 =? length v2)
       && (s_len s - 3 * (s_len s / 4) =? length v3)
  then sb_write4 v0 v1 v2 v3 m s
       = Ok (firstn (s_off s) m ++ (v0 ++ v1 ++ v2 ++ v3) ++ skipn (s_off s + s_len s) m)
  else exists m', sb_write4 v0 v1 v2 v3 m s = Panic m' /\ same_outside m m' s.
Proof.
  intros Hs. destruct (_ && _) eqn:C.
  - apply andb_prop in C. destruct C as (C & C3). apply andb_prop in C. destruct C as (C & C2).
    apply andb_prop in C. destruct C as (C0 & C1). apply Nat.eqb_eq in C0, C1, C2, C3.
    destruct (slice_view m s Hs) as (pre & body & post & -> & Hp & Hl).
    destruct s as [off len]; cbn [s_off s_len] in *. subst off.
    rewrite (sb_write4_view pre body post len v0 v1 v2 v3) by auto.
    rewrite firstn_len_app, skipn_plus_app. rewrite <- Hl. now rewrite skipn_len_app.
  - pose proof (sb_write4_safe v0 v1 v2 v3 m s Hs) as Hsafe.
    destruct (sb_write4 v0 v1 v2 v3 m s) as [m'|m'|] eqn:E; cbn [res_safe] in Hsafe.
    + apply sb_write4_ok_lens in E. congruence.
    + eauto.
    + contradiction.
Qed.

(** * Big-endian forms: [bswap] on the byte image *)

Lemma rev_words_length w : 0 < w -> forall fuel bs, length bs <= fuel -> length (rev_words w fuel bs) = length bs.
Proof.
  intros Hw. induction fuel as [|f IH]; intros bs Hl.
  - destruct bs; [reflexivity | cbn [length] in Hl; lia].
  - cbn [rev_words]. destruct bs as [|x bs']; [reflexivity|]. set (bs := x :: bs') in *.
    assert (0 < length bs) by (unfold bs; cbn [length]; lia).
    rewrite app_length, rev_length, firstn_length, IH by (rewrite skipn_length; lia).
    rewrite skipn_length. lia.
Qed.

Lemma bswap_bytes_length w v : 0 < w -> length (bswap_bytes w v) = length v.
Proof. intros Hw. unfold bswap_bytes. now apply rev_words_length. Qed.

(** on whole words: every word reversed *)
Lemma rev_words_concat w : 0 < w -> forall (cs : list (list N)) fuel,
  Forall (fun c => length c = w) cs -> length cs <= fuel ->
  rev_words w fuel (concat cs) = concat (map (@rev N) cs).
Proof.
  intros Hw. induction cs as [|c cs IH]; intros fuel Hc Hf.
  - destruct fuel; reflexivity.
  - inversion Hc as [|c' cs' Hlen Hcs]; subst.
    destruct fuel as [|f]; [cbn [length] in Hf; lia|].
    cbn [rev_words concat map].
    destruct (c ++ concat cs) as [|x r] eqn:E.
    { apply (f_equal (@length N)) in E. rewrite app_length in E. cbn [length] in E. lia. }
    rewrite <- E. rewrite firstn_len_app, skipn_len_app.
    rewrite IH by (try assumption; cbn [length] in Hf; lia). reflexivity.
Qed.

Lemma concat_words_length w (cs : list (list N)) :
  Forall (fun c => length c = w) cs -> length (concat cs) = w * length cs.
Proof.
  induction 1 as [|c cs Hc Hcs IH]; cbn [concat length]; [lia|]. rewrite app_length, IH, Hc. lia.
Qed.

Lemma bswap_concat w cs : 0 < w -> Forall (fun c => length c = w) cs ->
  bswap_bytes w (concat cs) = concat (map (@rev N) cs).
Proof.
  intros Hw Hc. unfold bswap_bytes. apply rev_words_concat; try assumption.
  rewrite (concat_words_length w cs Hc). nia.
Qed.

Lemma as_words w (bs : list N) : 0 < w -> length bs mod w = 0 ->
  exists cs, bs = concat cs /\ Forall (fun c => length c = w) cs.
Proof.
  intros Hw Hm. exists (chunks_exact w (length bs) bs). split.
  - symmetry. now apply chunks_exact_concat.
  - apply chunks_exact_Forall_length.
Qed.

Lemma Forall_len_rev w (cs : list (list N)) :
  Forall (fun c => length c = w) cs -> Forall (fun c => length c = w) (map (@rev N) cs).
Proof. induction 1; cbn [map]; constructor; [now rewrite rev_length | assumption]. Qed.

(** [bswap] twice is the identity; [bswap] distributes over parts of whole words *)
Lemma bswap_involutive w (bs : list N) : 0 < w -> length bs mod w = 0 -> bswap_bytes w (bswap_bytes w bs) = bs.
Proof.
  intros Hw Hm. destruct (as_words w bs Hw Hm) as (cs & -> & Hc).
  rewrite bswap_concat by assumption. rewrite bswap_concat by (try assumption; now apply Forall_len_rev).
  rewrite map_map. f_equal. rewrite <- (map_id cs) at 2. apply map_ext. intros c. apply rev_involutive.
Qed.

Lemma bswap_app w (a b : list N) : 0 < w -> length a mod w = 0 -> length b mod w = 0 ->
  bswap_bytes w (a ++ b) = bswap_bytes w a ++ bswap_bytes w b.
Proof.
  intros Hw Ha Hb. destruct (as_words w a Hw Ha) as (ca & -> & Hca). destruct (as_words w b Hw Hb) as (cb & -> & Hcb).
  rewrite <- concat_app. rewrite !bswap_concat by (try assumption; apply Forall_app; auto).
  now rewrite map_app, concat_app.
Qed.

(** the VALUE: [bswap] turns the little-endian byte image of the words [ws] into their big-endian
    image and back — what write_be stores / what read_be returns *)
Theorem bswap_le_be w ws : 0 < w -> bswap_bytes w (bytes_le w ws) = flat_map (be_split w) ws.
Proof.
  intros Hw. unfold bytes_le. rewrite !flat_map_concat_map.
  rewrite bswap_concat; try assumption.
  - rewrite map_map. reflexivity.
  - apply Forall_forall. intros c Hin. apply in_map_iff in Hin. destruct Hin as (x & <- & _). apply le_split_length.
Qed.

Theorem bswap_be_le w ws : 0 < w -> bswap_bytes w (flat_map (be_split w) ws) = bytes_le w ws.
Proof.
  intros Hw. unfold bytes_le. rewrite !flat_map_concat_map.
  rewrite bswap_concat; try assumption.
  - rewrite map_map. f_equal. apply map_ext. intros x. unfold be_split. apply rev_involutive.
  - apply Forall_forall. intros c Hin. apply in_map_iff in Hin. destruct Hin as (x & <- & _).
    unfold be_split. rewrite rev_length. apply le_split_length.
Qed.

(** read_be: [Ok] exactly for the asserted length, the value is the content with every [w]-byte
    word reversed; a wrong length is the panic, memory untouched; never a fault *)
Theorem sb_read_be_spec w size m s :
  slice_ok m s ->
  sb_read_be w size m s = if s_len s =? size then Ok (bswap_bytes w (sbytes m s)) else Panic m.
Proof.
  intros Hs. unfold sb_read_be. rewrite sb_read_spec by assumption.
  destruct (s_len s =? size); reflexivity.
Qed.

(** ... in particular a slice holding the big-endian image of [ws] reads as the vector whose
    little-endian image is [ws] *)
Corollary sb_read_be_words w ws m s :
  0 < w -> slice_ok m s -> sbytes m s = flat_map (be_split w) ws ->
  sb_read_be w (s_len s) m s = Ok (bytes_le w ws).
Proof.
  intros Hw Hs E. rewrite sb_read_be_spec by assumption. rewrite Nat.eqb_refl, E. f_equal. now apply bswap_be_le.
Qed.

(** write_be: exactly the slice is written, with every [w]-byte word of the vector reversed *)
Theorem sb_write_be_spec w v m s :
  0 < w -> slice_ok m s ->
  sb_write_be w v m s = if s_len s =? length v
                        then Ok (firstn (s_off s) m ++ bswap_bytes w v ++ skipn (s_off s + s_len s) m)
                        else Panic m.
Proof.
  intros Hw Hs. unfold sb_write_be. rewrite sb_write_spec by assumption.
  now rewrite bswap_bytes_length by assumption.
Qed.

Corollary sb_write_be_words w ws m s :
  0 < w -> slice_ok m s -> s_len s = w * length ws ->
  sb_write_be w (bytes_le w ws) m s
  = Ok (firstn (s_off s) m ++ flat_map (be_split w) ws ++ skipn (s_off s + s_len s) m).
Proof.
  intros Hw Hs Hl. rewrite sb_write_be_spec by assumption.
  rewrite bytes_le_length, Hl, Nat.eqb_refl. now rewrite bswap_le_be.
Qed.

(** x2 / x4 read_be: the parts are swapped one by one; for an element size that is a multiple
    of the lane width this is the swap of the whole content *)
Theorem sb_read2_be_spec w size m s :
  0 < w -> size mod w = 0 -> slice_ok m s ->
  sb_read2_be w size m s = if (s_len s / 2 =? size) && (s_len s - s_len s / 2 =? size)
                           then Ok (bswap_bytes w (sbytes m s)) else Panic m.
Proof.
  intros Hw Hm Hs. unfold sb_read2_be. set (h := s_len s / 2).
  assert (Hh : h <= s_len s) by (unfold h; apply Nat.div_le_upper_bound; lia).
  assert (S0 : slice_ok m (sub s 0 h)) by (apply slice_ok_sub; [lia|assumption]).
  assert (S1 : slice_ok m (sub s h (s_len s - h))) by (apply slice_ok_sub; [lia|assumption]).
  rewrite !sb_read_be_spec by assumption. cbn [sub s_len s_off].
  destruct (Nat.eqb_spec h size) as [E1|]; cbn [andb res_bind]; [|reflexivity].
  destruct (Nat.eqb_spec (s_len s - h) size) as [E2|]; cbn [res_bind]; [|reflexivity].
  f_equal. rewrite <- bswap_app; try assumption.
  - f_equal. change h with (0 + h) at 2. rewrite sbytes_sub_app.
    replace (h + (s_len s - h)) with (s_len s) by lia. apply sbytes_sub_all.
  - rewrite sbytes_length by assumption. cbn [sub s_len]. now rewrite E1.
  - rewrite sbytes_length by assumption. cbn [sub s_len]. now rewrite E2.
Qed.

Theorem sb_read4_be_spec w size m s :
  0 < w -> size mod w = 0 -> slice_ok m s ->
  sb_read4_be w size m s = if (s_len s / 4 =? size) && (s_len s - 3 * (s_len s / 4) =? size)
                           then Ok (bswap_bytes w (sbytes m s)) else Panic m.
Proof.
  intros Hw Hm Hs. unfold sb_read4_be. set (n := s_len s / 4).
  assert (Hn : 4 * n <= s_len s) by (unfold n; apply Nat.mul_div_le; lia).
  assert (S0 : slice_ok m (sub s 0 n)) by (apply slice_ok_sub; [lia|assumption]).
  assert (S1 : slice_ok m (sub s n n)) by (apply slice_ok_sub; [lia|assumption]).
  assert (S2 : slice_ok m (sub s (2 * n) n)) by (apply slice_ok_sub; [lia|assumption]).
  assert (S3 : slice_ok m (sub s (3 * n) (s_len s - 3 * n))) by (apply slice_ok_sub; [lia|assumption]).
  rewrite !sb_read_be_spec by assumption. cbn [sub s_len s_off].
  destruct (Nat.eqb_spec n size) as [E1|]; cbn [andb res_bind]; [|reflexivity].
  destruct (Nat.eqb_spec (s_len s - 3 * n) size) as [E2|]; cbn [res_bind]; [|reflexivity].
  f_equal.
  assert (L0 : length (sbytes m (sub s 0 n)) mod w = 0) by (rewrite sbytes_length by assumption; cbn [sub s_len]; now rewrite E1).
  assert (L1 : length (sbytes m (sub s n n)) mod w = 0) by (rewrite sbytes_length by assumption; cbn [sub s_len]; now rewrite E1).
  assert (L2 : length (sbytes m (sub s (2 * n) n)) mod w = 0) by (rewrite sbytes_length by assumption; cbn [sub s_len]; now rewrite E1).
  assert (L3 : length (sbytes m (sub s (3 * n) (s_len s - 3 * n))) mod w = 0)
    by (rewrite sbytes_length by assumption; cbn [sub s_len]; now rewrite E2).
  assert (Hadd : forall a b, a mod w = 0 -> b mod w = 0 -> (a + b) mod w = 0).
  { intros a b Ha Hb. rewrite Nat.add_mod, Ha, Hb by lia. cbn [plus]. apply Nat.mod_0_l. lia. }
  rewrite <- (sbytes_quarters m s n Hn).
  rewrite !bswap_app; try assumption; rewrite ?app_length; auto.
Qed.

(** x2 / x4 write_be: the value written, in address order *)
Theorem sb_write2_be_value w v0 v1 m s :
  0 < w -> slice_ok m s ->
  if (s_len s / 2 =? length v0) && (s_len s - s_len s / 2 =? length v1)
  then sb_write2_be w v0 v1 m s
       = Ok (firstn (s_off s) m ++ (bswap_bytes w v0 ++ bswap_bytes w v1) ++ skipn (s_off s + s_len s) m)
  else exists m', sb_write2_be w v0 v1 m s = Panic m' /\ same_outside m m' s.
Proof.
  intros Hw Hs. pose proof (sb_write2_value (bswap_bytes w v0) (bswap_bytes w v1) m s Hs) as H.
  rewrite !bswap_bytes_length in H by assumption. exact H.
Qed.

Theorem sb_write4_be_value w v0 v1 v2 v3 m s :
  0 < w -> slice_ok m s ->
  if (s_len s / 4 =? length v0) && (s_len s / 4 =? length v1) && (s_len s / 4 =? length v2)
       && (s_len s - 3 * (s_len s / 4) =? length v3)
  then sb_write4_be w v0 v1 v2 v3 m s
       = Ok (firstn (s_off s) m
             ++ (bswap_bytes w v0 ++ bswap_bytes w v1 ++ bswap_bytes w v2 ++ bswap_bytes w v3)
             ++ skipn (s_off s + s_len s) m)
  else exists m', sb_write4_be w v0 v1 v2 v3 m s = Panic m' /\ same_outside m m' s.
Proof.
  intros Hw Hs.
  pose proof (sb_write4_value (bswap_bytes w v0) (bswap_bytes w v1) (bswap_bytes w v2) (bswap_bytes w v3) m s Hs) as H.
  rewrite !bswap_bytes_length in H by assumption. exact H.
Qed.

(** * the definitions compute what they are meant to (sanity) *)
Example bswap_example : bswap_bytes 4 [1; 2; 3; 4; 5; 6; 7; 8]%N = [4; 3; 2; 1; 8; 7; 6; 5]%N.
Proof. reflexivity. Qed.

(** lazy: the last full block stays in the buffer (eager [input_block] would emit it); the slice
    starts at the odd address 1 and ends at the last mapped byte *)
Example input_lazy_example :
  a_input_lazy (bb_new 4) [9; 1; 2; 3; 4; 5; 6; 7; 8]%N (Sl 1 8) = Some (BB [5; 6; 7; 8]%N 4, [[1; 2; 3; 4]%N])
  /\ m_input_block (bb_new 4) [9; 1; 2; 3; 4; 5; 6; 7; 8]%N (Sl 1 8)
     = Some (BB [0; 0; 0; 0]%N 0, [[1; 2; 3; 4]%N; [5; 6; 7; 8]%N]).
Proof. split; reflexivity. Qed.

(** x4 write with a wrong third part: the panic after two parts were written, inside the slice *)
Example write4_panic_example :
  sb_write4 [1; 2]%N [3; 4]%N [5]%N [7; 8]%N [0; 0; 0; 0; 0; 0; 0; 0; 0; 0]%N (Sl 1 8)
  = Panic [0; 1; 2; 3; 4; 0; 0; 0; 0; 0]%N.
Proof. reflexivity. Qed.
