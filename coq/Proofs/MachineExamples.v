(** Non-vacuity of the machine-independence theorems (C03): the hypothesis is satisfiable
    ([lane_m_refines]) and it matters: a back end with the pre-repair SSE2
    [u64x2::rotate_each_word_right16] (defect P2: rotation inside the 32-bit halves) is not a
    refinement, and BLAKE-512's round computed on it differs from the lane-wise result. *)
From Coq Require Import NArith List Bool.
From CC Require Import Lib.Words Lib.ListX Spec.Lanes Model.Machine Proofs.Machine.
Import ListNotations.
Local Open Scope N_scope.

Definition p2_rotr16 (x : N) : N :=
  N.lor (rotrw 32 16 (wrap 32 x)) (N.shiftl (rotrw 32 16 (N.shiftr x 32)) 32).

Example p2_value : p2_rotr16 0x0123456789abcdef = 0x45670123cdef89ab /\
                   rotrw 64 16 0x0123456789abcdef = 0xcdef0123456789ab.
Proof. split; vm_compute; reflexivity. Qed.

Definition p2_vops : vops :=
  VOps (list N) (fun _ => True) (fun l => l) (fun l => l)
       (v_add 64) v_xor (fun k a => if k =? 16 then map p2_rotr16 a else v_rotr 64 k a)
       (per_lane4 shuffle1230) (per_lane4 shuffle2301) (per_lane4 shuffle3012).

Definition ex_rows : list N * list N * list N * list N :=
  ([0x6a09e667f3bcc908; 0xbb67ae8584caa73b; 0x3c6ef372fe94f82b; 0xa54ff53a5f1d36f1],
   [0x510e527fade682d1; 0x9b05688c2b3e6c1f; 0x1f83d9abfb41bd6b; 0x5be0cd19137e2179],
   [0x243f6a8885a308d3; 0x13198a2e03707344; 0xa4093822299f31d0; 0x082efa98ec4e6c89],
   [0x452821e638d01377; 0xbe5466cf34e90c6c; 0xc0ac29b7c97c50dd; 0x3f84d5b5b5470917]).
Definition ex_msgs : list (list N * list N * list N * list N) :=
  [([1; 2; 3; 4], [5; 6; 7; 8], [9; 10; 11; 12], [13; 14; 15; 0xffffffffffffffff])].

Ltac words_ok_tac := split; [reflexivity | repeat constructor].

Example p2_machine_differs :
  blake64_rounds_on p2_vops ex_rows ex_msgs <> blake64_rounds_on (lane_vops 64) ex_rows ex_msgs.
Proof. vm_compute. discriminate. Qed.

Lemma p2_machine_not_a_refinement : ~ vops_refines 64 4 ks64 p2_vops.
Proof.
  intro R. apply p2_machine_differs. unfold blake64_rounds_on.
  apply (blake_rounds_indep p2_vops 64 ks64 32 25 16 11 R incl_blake64_ks64).
  - cbn. repeat split; repeat constructor.
  - repeat constructor.
Qed.

(** the lane-wise ChaCha rounds on a concrete state are not the identity (the compared
    functions are not trivially equal) *)
Example chacha_lane_rounds_nontrivial :
  chacha_rounds_on (lane_vops 32) 1 [1; 2; 3; 4] [5; 6; 7; 8] [9; 10; 11; 12] [13; 14; 15; 16]
  <> ([1; 2; 3; 4], [5; 6; 7; 8], [9; 10; 11; 12], [13; 14; 15; 16]).
Proof. vm_compute. discriminate. Qed.

Example jh_lane_round_nontrivial :
  jh_rounds_on lane_jops [1; 2; 3; 4; 5; 6; 7; 8] [(0%nat, (0x72d5dea2df15f867, 0x7b84150ab7231557))]
  <> [1; 2; 3; 4; 5; 6; 7; 8].
Proof. vm_compute. discriminate. Qed.
