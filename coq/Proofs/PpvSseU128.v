(** C12 for [u128x1_sse2]: rotates (64-bit shifts + half swap, after repair P3). *)
From Coq Require Import NArith List Lia Bool Arith.
From CC Require Import Lib.Words Lib.Bytes Lib.ListX Model.Intrinsics Model.PpvSse Spec.Lanes
  Proofs.IntrinsicsLemmas Proofs.PpvSseWords Proofs.PpvSseMove Proofs.PpvStore.
Import ListNotations.
Local Open Scope N_scope.

Definition half_rot (i lo hi : N) : N := N.lor (N.shiftr lo i) (wrap 64 (N.shiftl hi (64 - i))).

Lemma half_rot_lt i lo hi : lo < 2 ^ 64 -> half_rot i lo hi < 2 ^ 64.
Proof. intros. apply lor_lt; [now apply shiftr_lt|apply wrap_lt]. Qed.

Lemma testbit_half_rot i lo hi j : 0 < i -> i < 64 -> lo < 2 ^ 64 -> hi < 2 ^ 64 ->
  N.testbit (half_rot i lo hi) j =
  (j <? 64) && (if j + i <? 64 then N.testbit lo (j + i) else N.testbit hi (j + i - 64)).
Proof.
  intros H0 Hi Hlo Hhi. unfold half_rot.
  rewrite N.lor_spec, N.shiftr_spec', testbit_wrap, testbit_shiftl.
  destruct (N.ltb_spec j 64) as [Hj|Hj]; cbn [andb].
  - rewrite andb_true_r. destruct (N.ltb_spec (j + i) 64) as [H1|H1].
    + destruct (N.leb_spec (64 - i) j); [lia|]. now rewrite orb_false_r.
    + rewrite (testbit_high 64 lo) by (assumption || lia).
      destruct (N.leb_spec (64 - i) j); [|lia]. cbn [orb]. f_equal. lia.
  - rewrite andb_false_r, orb_false_r. apply (testbit_high 64); [assumption|lia].
Qed.

Lemma rotr128_halves i lo hi : 0 < i -> i < 64 -> lo < 2 ^ 64 -> hi < 2 ^ 64 ->
  rotrw 128 i (lo + hi * 2 ^ 64) = half_rot i lo hi + half_rot i hi lo * 2 ^ 64.
Proof.
  intros H0 Hi Hlo Hhi.
  assert (Hx : lo + hi * 2 ^ 64 < 2 ^ 128) by (apply (cat_lt 64 64); assumption).
  apply N.bits_inj; intro j.
  rewrite testbit_rotrw by (assumption || lia).
  rewrite (testbit_cat 64 (half_rot i lo hi)) by now apply half_rot_lt.
  rewrite !testbit_half_rot by assumption.
  destruct (N.ltb_spec j 128) as [Hj|Hj]; cbn [andb].
  - destruct (N.ltb_spec j 64) as [Hj'|Hj']; cbn [andb].
    + destruct (N.ltb_spec (j + i) 128); [|lia]. rewrite (testbit_cat 64) by assumption.
      destruct (N.ltb_spec (j + i) 64); reflexivity.
    + destruct (N.ltb_spec (j - 64) 64); [|lia]. cbn [andb].
      destruct (N.ltb_spec (j + i) 128) as [H1|H1]; rewrite (testbit_cat 64) by assumption.
      * destruct (N.ltb_spec (j + i) 64); [lia|].
        destruct (N.ltb_spec (j - 64 + i) 64); [|lia]. f_equal. lia.
      * destruct (N.ltb_spec (j + i - 128) 64); [|lia].
        destruct (N.ltb_spec (j - 64 + i) 64); [lia|]. f_equal. lia.
  - destruct (N.ltb_spec j 64); [lia|]. destruct (N.ltb_spec (j - 64) 64); [lia|]. reflexivity.
Qed.

Lemma swap_halves lo hi :
  mm_shuffle_epi32 (le_split 8 lo ++ le_split 8 hi) 0x4e = le_split 8 hi ++ le_split 8 lo.
Proof. reflexivity. Qed.

Lemma rotr_128_words i lo hi : 0 < i -> i < 64 -> lo < 2 ^ 64 -> hi < 2 ^ 64 ->
  rotr_128 i (bytes_le 8 [lo; hi])
  = bytes_le 16 (v_rotr 128 i (words_le 16 (bytes_le 8 [lo; hi]))).
Proof.
  intros H0 Hi Hlo Hhi.
  assert (E16 : words_le 16 (bytes_le 8 [lo; hi]) = [lo + hi * 2 ^ 64]).
  { cbn [bytes_le flat_map]. rewrite app_nil_r.
    pose proof (le_split_length 8 lo). pose proof (le_split_length 8 hi).
    unfold words_le. rewrite app_length.
    replace (length (le_split 8 lo) + length (le_split 8 hi))%nat with 16%nat by lia.
    cbn [chunks_exact]. rewrite app_length.
    replace (length (le_split 8 lo) + length (le_split 8 hi))%nat with 16%nat by lia.
    cbn [Nat.leb map]. rewrite firstn_all2 by (rewrite app_length; lia).
    rewrite skipn_all2 by (rewrite app_length; lia). cbn [length Nat.leb map].
    f_equal. now apply (le_join_cat 8 8). }
  rewrite E16. cbn [v_rotr map]. rewrite rotr128_halves by assumption.
  cbn [bytes_le flat_map]. rewrite !app_nil_r.
  rewrite (le_split_cat 8 8) by now apply half_rot_lt.
  unfold rotr_128. rewrite swap_halves.
  change (le_split 8 lo ++ le_split 8 hi) with (bytes_le 8 [lo; hi] ++ []) .
  rewrite app_nil_r.
  change (le_split 8 hi ++ le_split 8 lo) with (bytes_le 8 [hi; lo] ++ []).
  rewrite app_nil_r.
  unfold mm_srli_epi64, mm_slli_epi64.
  rewrite !lanes_map_bytes by (try lia; repeat constructor; assumption).
  unfold mm_or. rewrite bytes_le_lor by reflexivity.
  cbn [map map2 bytes_le flat_map]. now rewrite app_nil_r.
Qed.

Lemma rotr_128_lanewise i x : 0 < i -> i < 64 -> wf 16 x ->
  rotr_128 i x = bytes_le 16 (v_rotr 128 i (words_le 16 x)).
Proof.
  intros H0 Hi Hx.
  destruct (wf_words 8 16 x) as (E & Hw & Hl); [lia|reflexivity|assumption|].
  rewrite E. clear E. change (16 / 8)%nat with 2%nat in Hl.
  generalize dependent (words_le 8 x). intros ws Hw Hl. explode ws.
  inversion Hw as [|? ? Hlo Hw1]; subst. inversion Hw1 as [|? ? Hhi Hw2]; subst.
  now apply rotr_128_words.
Qed.

Theorem sse_u128x1_rotr_lanewise k x :
  In k [7; 8; 11; 12; 16; 20; 24; 25; 32] -> wf 16 x ->
  u128x1_rotr k x = bytes_le 16 (v_rotr 128 k (words_le 16 x)).
Proof.
  intros Hk Hx. cbn [In] in Hk.
  repeat (destruct Hk as [<-|Hk]; [cbn [u128x1_rotr]; apply rotr_128_lanewise; [lia|lia|assumption]|]).
  contradiction.
Qed.
