(** Exhaustion of the ChaCha key stream (C11): consequences of the invariant. *)
From Coq Require Import NArith ZArith List Lia Arith Bool ZifyBool ZifyN ZifyNat.
From CC Require Import Lib.Words Lib.Bytes Lib.ListX Model.ChaChaGuts Model.ChaChaStream.
From CC Require Import Proofs.ChaChaStreamCtr Proofs.ChaChaStreamLoops Proofs.ChaChaStreamBody
  Proofs.ChaChaStreamSpec Proofs.ChaChaStreamSeek Proofs.ChaChaStreamInv Proofs.ChaChaStreamHist.
Import ListNotations.
Ltac Zify.zify_post_hook ::= Z.div_mod_to_equations.
Local Open Scope N_scope.

Section Limits.
  Variable refill1 : chacha -> list N * chacha.
  Variable refill4 : chacha -> list N * chacha.
  Variable blk : chacha -> list N.
  Variable is12 : bool.
  Variable s0 : chacha.
  Hypothesis s0_len : length (cd s0) = 4%nat.
  (** the producers are specified on the states of the stream only ([stA s0 q]: nothing else is ever passed to them) *)
  Hypothesis blk_len : forall q, length (blk (stA s0 q)) = 64%nat.
  Hypothesis refill1_spec : forall q, refill1 (stA s0 q) = (blk (stA s0 q), stA s0 (q + 1)).
  Hypothesis refill4_spec : forall q,
    refill4 (stA s0 q) = (blk (stA s0 q) ++ blk (stA s0 (q + 1)) ++ blk (stA s0 (q + 2)) ++ blk (stA s0 (q + 3)),
                          stA s0 (q + 4)).
  Hypothesis s0_w1 : nth 1 (cd s0) 0 < 2 ^ 32.
  Set Default Proof Using "All".
  Local Notation "'!' x" := (x refill1 refill4 blk is12 s0 s0_len blk_len refill1_spec refill4_spec s0_w1) (at level 9, x at level 0).
  Notation Inv := (Inv blk is12 s0).
  Notation try_apply := (try_apply refill1 refill4 is12).
  Notation limit := (stream_bytes is12).

  (** [try_apply_keystream] succeeds exactly when the request fits into the key stream; it never panics *)
  Lemma apply_ok_iff b pos data : Inv b pos -> N.of_nat (length data) < 2 ^ 64 ->
    (fst (fst (try_apply b data)) = ROk <-> pos + N.of_nat (length data) <= limit)
    /\ fst (fst (try_apply b data)) <> RPanic.
  Proof.
    intros HI Hn. unfold stream_bytes.
    destruct (N.le_gt_cases (pos + N.of_nat (length data)) (64 * nblocks is12)) as [Hfit|Hover].
    - destruct (! try_apply_ok b pos data HI Hn Hfit) as (b' & Heq & _). rewrite Heq. cbn [fst].
      split; [split; [intros _; exact Hfit | reflexivity] | discriminate].
    - destruct (! try_apply_err b pos data HI Hn Hover) as (b' & Heq & _). rewrite Heq. cbn [fst].
      split; [split; [discriminate | lia] | discriminate].
  Qed.

  (** a failed call is atomic: data unchanged, abstract position unchanged, invariant kept *)
  Lemma apply_err_atomic b pos data : Inv b pos -> N.of_nat (length data) < 2 ^ 64 ->
    fst (fst (try_apply b data)) <> ROk ->
    fst (fst (try_apply b data)) = RErr /\ snd (try_apply b data) = data /\ Inv (snd (fst (try_apply b data))) pos.
  Proof.
    intros HI Hn Hne. unfold stream_bytes.
    destruct (N.le_gt_cases (pos + N.of_nat (length data)) (64 * nblocks is12)) as [Hfit|Hover].
    - destruct (! try_apply_ok b pos data HI Hn Hfit) as (b' & Heq & _). rewrite Heq in Hne. cbn [fst] in Hne. congruence.
    - destruct (! try_apply_err b pos data HI Hn Hover) as (b' & Heq & HI'). rewrite Heq. cbn [fst snd].
      split; [reflexivity | split; [reflexivity | exact HI']].
  Qed.

  (** a successful call returns data xor key stream at the abstract position and advances it *)
  Lemma apply_ok_result b pos data : Inv b pos -> N.of_nat (length data) < 2 ^ 64 ->
    fst (fst (try_apply b data)) = ROk ->
    snd (try_apply b data) = xor_bytes data (keystream blk is12 s0 pos (length data))
    /\ Inv (snd (fst (try_apply b data))) (pos + N.of_nat (length data))
    /\ pos + N.of_nat (length data) <= limit.
  Proof.
    intros HI Hn Hok. unfold stream_bytes.
    destruct (N.le_gt_cases (pos + N.of_nat (length data)) (64 * nblocks is12)) as [Hfit|Hover].
    - destruct (! try_apply_ok b pos data HI Hn Hfit) as (b' & Heq & HI'). rewrite Heq. cbn [fst snd].
      split; [reflexivity | split; [exact HI' | exact Hfit]].
    - destruct (! try_apply_err b pos data HI Hn Hover) as (b' & Heq & _). rewrite Heq in Hok. cbn [fst] in Hok. congruence.
  Qed.

  (** every byte handed out is data xor the key-stream byte of an absolute position below the limit *)
  Lemma apply_ok_bytes b pos data i : Inv b pos -> N.of_nat (length data) < 2 ^ 64 ->
    fst (fst (try_apply b data)) = ROk -> (i < length data)%nat ->
    nth i (snd (try_apply b data)) 0 = N.lxor (nth i data 0) (ks_byte blk is12 s0 (pos + N.of_nat i))
    /\ pos + N.of_nat i < limit.
  Proof.
    intros HI Hn Hok Hi. destruct (apply_ok_result b pos data HI Hn Hok) as (Ho & _ & Hl).
    split; [|lia]. rewrite Ho.
    rewrite <- (keystream_nth blk is12 s0 blk_len (length data) pos i Hi).
    assert (Hlk : length (keystream blk is12 s0 pos (length data)) = length data)
      by apply (keystream_length blk is12 s0 blk_len).
    revert Hlk Hi. generalize (keystream blk is12 s0 pos (length data)) as k. clear. revert i.
    induction data as [|x d IH]; intros i k Hlk Hi; cbn [length] in *; [lia|].
    destruct k as [|y k]; cbn [length] in Hlk; [lia|]. destruct i as [|i]; cbn [xor_bytes nth]; [reflexivity|].
    apply IH; lia.
  Qed.

  (** distinct block indices below the number of blocks never share a block-function input:
      the counter words hold the index, every other word is as constructed *)
  Lemma block_inputs_distinct k k' : k < nblocks is12 -> k' < nblocks is12 ->
    stA s0 (ctr_base is12 s0 + k) = stA s0 (ctr_base is12 s0 + k') -> k = k'.
  Proof.
    intros Hk Hk' E. pose proof (! base_T) as HB.
    apply (stA_inj s0 _ _ s0_len) in E; lia.
  Qed.

  Lemma block_input_words k d0 d1 d2 d3 : k < nblocks is12 -> cd s0 = [d0; d1; d2; d3] ->
    kblock blk is12 s0 k =
      blk (CC (cb s0) (cc s0) (if is12 then [k; d1; d2; d3] else [k mod 2 ^ 32; k / 2 ^ 32; d2; d3])).
  Proof.
    intros Hk Hd. unfold kblock, rawblock. f_equal. rewrite (stA_words s0 _ d0 d1 d2 d3 Hd).
    unfold ctr_base, nblocks in *. rewrite Hd in *. cbn [nth] in *. destruct is12; f_equal.
    - replace ((d1 * 2 ^ 32 + k) mod 2 ^ 32) with k by lia.
      replace (((d1 * 2 ^ 32 + k) / 2 ^ 32) mod 2 ^ 32) with d1 by lia. reflexivity.
    - replace ((0 + k) mod 2 ^ 32) with (k mod 2 ^ 32) by lia.
      replace (((0 + k) / 2 ^ 32) mod 2 ^ 32) with (k / 2 ^ 32) by lia. reflexivity.
  Qed.
End Limits.
