(** Permutations, compression function and output transformation:
    [rounds_p_q] / [rounds_p] / [rounds_q] are P and Q, [tf512] / [tf1024] are
    the compression function f, [of512] / [of1024] compute the part of the
    output transformation that the digests are taken from. *)
From Coq Require Import NArith List Arith Bool Lia.
From CC Require Import Lib.Words Lib.Bytes Lib.ListX Spec.AES Spec.Groestl
     Model.GroestlIntrinsics Model.Groestl Proofs.GroestlLayout Proofs.GroestlMix
     Proofs.GroestlRound.
Import ListNotations.

(** a loop on registers is the loop on states when every step is *)
Lemma fold_commute {A B} (L : A -> B) (Inv : A -> Prop) (f : A -> nat -> A) (g : B -> nat -> B)
      (Q : nat -> Prop) (l : list nat) :
  (forall i, In i l -> Q i) ->
  (forall a i, Q i -> Inv a -> g (L a) i = L (f a i) /\ Inv (f a i)) ->
  forall a, Inv a -> fold_left g l (L a) = L (fold_left f l a) /\ Inv (fold_left f l a).
Proof.
  intros Hl Hs. induction l as [|i l IH]; intros a Ha; cbn [fold_left]; [now split|].
  destruct (Hs a i (Hl i (or_introl eq_refl)) Ha) as [E I]. rewrite E.
  apply IH; [|exact I]. intros j Hj. apply Hl. now right.
Qed.

Lemma fold_pair {A B} (f : A -> nat -> A) (g : B -> nat -> B) l a b :
  fold_left (fun p i => (f (fst p) i, g (snd p) i)) l (a, b) = (fold_left f l a, fold_left g l b).
Proof. revert a b; induction l as [|i l IH]; intros a b; cbn [fold_left fst snd]; [reflexivity|apply IH]. Qed.

Lemma fold_left_cons' {A B} (f : A -> B -> A) x l a : fold_left f (x :: l) a = fold_left f l (f a x).
Proof. reflexivity. Qed.
Lemma fold_left_nil' {A B} (f : A -> B -> A) a : fold_left f [] a = a.
Proof. reflexivity. Qed.

Lemma in_seq_lt i n : In i (seq 0 n) -> i < n.
Proof. intros H. apply in_seq in H. lia. Qed.

Section WithSbox.
Variable S : N -> N.

(** * the permutations *)

Lemma perm_length c nr rc sg st : length st = 8 * c -> length (perm S c nr rc sg st) = 8 * c.
Proof.
  unfold perm. intros H.
  assert (G : forall l st, length st = 8 * c ->
              length (fold_left (fun st r => Spec.Groestl.round S c rc sg (N.of_nat r) st) l st) = 8 * c).
  { induction l as [|r l IH]; intros st' H'; cbn [fold_left]; [exact H'|].
    apply IH. now apply spec_round_length. }
  now apply G.
Qed.

Lemma rounds_p_q_fold p :
  rounds_p_q S p = fold_left (fun p i => Model.Groestl.round S (N.of_nat i) p) (seq 0 10) p.
Proof. reflexivity. Qed.

Theorem rounds_p_q_eq a b : length a = 64 -> length b = 64 ->
  rounds_p_q S (rows2 a b) = rows2 (P S p512 a) (Q S p512 b).
Proof.
  intros Ha Hb. rewrite rounds_p_q_fold.
  pose (L := fun ab : list N * list N => rows2 (fst ab) (snd ab)).
  pose (Inv := fun ab : list N * list N => length (fst ab) = 64 /\ length (snd ab) = 64).
  pose (f := fun (ab : list N * list N) (i : nat) =>
               (Spec.Groestl.round S 8 rc_P sigma_P512 (N.of_nat i) (fst ab),
                Spec.Groestl.round S 8 rc_Q sigma_Q512 (N.of_nat i) (snd ab))).
  destruct (fold_commute L Inv f (fun p i => Model.Groestl.round S (N.of_nat i) p)
                         (fun i => i < 10) (seq 0 10)) with (a := (a, b)) as [E _].
  - intros i Hi. now apply in_seq_lt.
  - intros [x y] i Hi [Hx Hy]. unfold L, f, Inv. cbn [fst snd] in *. split.
    + now apply round_512.
    + split; apply (spec_round_length S 8); assumption.
  - split; assumption.
  - unfold L in E. cbn [fst snd] in E. rewrite E. unfold f.
    rewrite (fold_pair (fun x i => Spec.Groestl.round S 8 rc_P sigma_P512 (N.of_nat i) x)
                       (fun y i => Spec.Groestl.round S 8 rc_Q sigma_Q512 (N.of_nat i) y)).
    reflexivity.
Qed.

Theorem rounds_p_eq a : length a = 128 -> rounds_p S (L1024 a) = L1024 (P S p1024 a).
Proof.
  intros Ha. unfold rounds_p.
  destruct (fold_commute L1024 (fun a => length a = 128)
              (fun a i => Spec.Groestl.round S 16 rc_P sigma_P1024 (N.of_nat i) a)
              (fun x i => round_p1024 S (N.of_nat i) x) (fun i => i < 14) (seq 0 14)) with (a := a) as [E _].
  - intros i Hi. now apply in_seq_lt.
  - intros x i Hi Hx. split; [now apply round_P1024|now apply (spec_round_length S 16)].
  - exact Ha.
  - exact E.
Qed.

Theorem rounds_q_eq a : length a = 128 -> rounds_q S (L1024 a) = L1024 (Q S p1024 a).
Proof.
  intros Ha. unfold rounds_q.
  destruct (fold_commute L1024 (fun a => length a = 128)
              (fun a i => Spec.Groestl.round S 16 rc_Q sigma_Q1024 (N.of_nat i) a)
              (fun x i => round_q1024 S (N.of_nat i) x) (fun i => i < 14) (seq 0 14)) with (a := a) as [E _].
  - intros i Hi. now apply in_seq_lt.
  - intros x i Hi Hx. split; [now apply round_Q1024|now apply (spec_round_length S 16)].
  - exact Ha.
  - exact E.
Qed.

Lemma P512_length a : length a = 64 -> length (P S p512 a) = 64.
Proof. intros H. unfold P. now apply (perm_length 8). Qed.
Lemma Q512_length a : length a = 64 -> length (Q S p512 a) = 64.
Proof. intros H. unfold Q. now apply (perm_length 8). Qed.
Lemma P1024_length a : length a = 128 -> length (P S p1024 a) = 128.
Proof. intros H. unfold P. now apply (perm_length 16). Qed.
Lemma Q1024_length a : length a = 128 -> length (Q S p1024 a) = 128.
Proof. intros H. unfold Q. now apply (perm_length 16). Qed.

Lemma f512_length h m : length h = 64 -> length m = 64 -> length (f S p512 h m) = 64.
Proof.
  intros Hh Hm. unfold f. rewrite !xor_bytes_length, P512_length, Q512_length; try assumption; try lia.
  rewrite xor_bytes_length. lia.
Qed.
Lemma f1024_length h m : length h = 128 -> length m = 128 -> length (f S p1024 h m) = 128.
Proof.
  intros Hh Hm. unfold f. rewrite !xor_bytes_length, P1024_length, Q1024_length; try assumption; try lia.
  rewrite xor_bytes_length. lia.
Qed.

Lemma xorP512_length h : length h = 64 -> length (xor_bytes h (P S p512 h)) = 64.
Proof. intros H. rewrite xor_bytes_length, P512_length, H by assumption. reflexivity. Qed.
Lemma xorP1024_length h : length h = 128 -> length (xor_bytes h (P S p1024 h)) = 128.
Proof. intros H. rewrite xor_bytes_length, P1024_length, H by assumption. reflexivity. Qed.

(** * compression *)

Theorem tf512_eq h m : length h = 64 -> length m = 64 ->
  tf512 S (LA h) m = LA (f S p512 h m).
Proof.
  intros Hh Hm. unfold tf512. cbv zeta.
  rewrite transpose_a_layout by assumption.
  change (x_map2 mm_xor_si128 (LA h) (LA m)) with (x_xor (LA h) (LA m)).
  rewrite LA_xor by assumption.
  assert (Hx : length (xor_bytes h m) = 64) by (rewrite xor_bytes_length; lia).
  rewrite transpose_b_layout, rounds_p_q_eq by assumption.
  rewrite transpose_b_inv_layout; [|apply P512_length; assumption|apply Q512_length; assumption].
  rewrite (LA_xor_halves (LA h)); [|apply P512_length; assumption|apply Q512_length; assumption].
  rewrite LA_xor.
  - unfold f. now rewrite xor_bytes_comm.
  - assumption.
  - rewrite xor_bytes_length, P512_length, Q512_length by assumption. reflexivity.
Qed.

Theorem tf1024_eq h m : length h = 128 -> length m = 128 ->
  tf1024 S (L1024 h) m = L1024 (f S p1024 h m).
Proof.
  intros Hh Hm. unfold tf1024. cbv zeta.
  rewrite transpose_layout by assumption.
  rewrite L1024_xor by assumption.
  assert (Hx : length (xor_bytes h m) = 128) by (rewrite xor_bytes_length; lia).
  rewrite rounds_p_eq, rounds_q_eq by assumption.
  rewrite !L1024_xor; rewrite ?xor_bytes_length, ?P1024_length, ?Q1024_length; try assumption; try lia.
  unfold f. f_equal.
  set (X := P S p1024 (xor_bytes h m)). set (Y := Q S p1024 m).
  rewrite (xor_bytes_comm h X), xor_bytes_assoc, (xor_bytes_comm h Y), <- xor_bytes_assoc. reflexivity.
Qed.

(** * output transformation: the bytes the digests are cut from *)

Lemma of512_tail w h : length w = 64 -> length h = 64 ->
  skipn 32 (concat (match regs_of_bytes 4 w, LA h with
                    | [_; _; x9; x11], [c0; c1; _; _] => [c0; c1; x9; x11]
                    | _, _ => []
                    end)) = skipn 32 w.
Proof. intros Hw Hh. explode w. explode h. vm_compute. reflexivity. Qed.

Theorem of512_eq h : length h = 64 ->
  skipn 32 (concat (of512 S (LA h))) = skipn 32 (omega S p512 h).
Proof.
  intros Hh. unfold of512. cbv zeta.
  rewrite transpose_o_b_layout by assumption.
  rewrite rounds_p_q_eq by (assumption || apply repeat_length).
  rewrite transpose_o_b_inv_layout; [|apply P512_length; assumption|apply Q512_length; apply repeat_length].
  rewrite LA_xor; [|assumption|apply P512_length; assumption].
  rewrite transpose_a_back by (apply xorP512_length; assumption).
  rewrite of512_tail; [|apply xorP512_length; assumption|assumption].
  unfold omega. now rewrite xor_bytes_comm.
Qed.

Lemma of1024_tail w h : length w = 128 -> length h = 128 ->
  skipn 64 (concat (match L1024 h, regs_of_bytes 8 w with
                    | [c0; c1; c2; c3; _; _; _; _], [_; _; _; _; p4; p5; p6; p7] =>
                        [c0; c1; c2; c3; p4; p5; p6; p7]
                    | _, _ => []
                    end)) = skipn 64 w.
Proof. intros Hw Hh. explode w. explode h. vm_compute. reflexivity. Qed.

Theorem of1024_eq h : length h = 128 ->
  skipn 64 (concat (of1024 S (L1024 h))) = skipn 64 (omega S p1024 h).
Proof.
  intros Hh. unfold of1024. cbv zeta.
  rewrite rounds_p_eq by assumption.
  rewrite L1024_xor; [|assumption|apply P1024_length; assumption].
  rewrite transpose_inv_layout by (apply xorP1024_length; assumption).
  rewrite of1024_tail; [|apply xorP1024_length; assumption|assumption].
  unfold omega. now rewrite xor_bytes_comm.
Qed.

(** * iterating over the blocks of a message *)

Lemma fold_tf512 bl h : Forall (fun b => length b = 64) bl -> length h = 64 ->
  fold_left (tf512 S) bl (LA h) = LA (fold_left (f S p512) bl h)
  /\ length (fold_left (f S p512) bl h) = 64.
Proof.
  revert h; induction bl as [|b bl IH]; intros h Hbl Hh.
  - rewrite !fold_left_nil'. split; [reflexivity|exact Hh].
  - rewrite !fold_left_cons'.
    inversion_clear Hbl as [|? ? Hb Hbl']. rewrite tf512_eq by assumption.
    apply IH; [assumption|now apply f512_length].
Qed.

Lemma fold_tf1024 bl h : Forall (fun b => length b = 128) bl -> length h = 128 ->
  fold_left (tf1024 S) bl (L1024 h) = L1024 (fold_left (f S p1024) bl h)
  /\ length (fold_left (f S p1024) bl h) = 128.
Proof.
  revert h; induction bl as [|b bl IH]; intros h Hbl Hh.
  - rewrite !fold_left_nil'. split; [reflexivity|exact Hh].
  - rewrite !fold_left_cons'.
    inversion_clear Hbl as [|? ? Hb Hbl']. rewrite tf1024_eq by assumption.
    apply IH; [assumption|now apply f1024_length].
Qed.

End WithSbox.

(** * initial values *)
Lemma init512_iv bits : bits = 224%N \/ bits = 256%N ->
  init512 (regs_of_bytes 4 (iv_block 8 bits)) = LA (iv p512 bits).
Proof. intros [->| ->]; vm_compute; reflexivity. Qed.

Lemma init1024_iv bits : bits = 384%N \/ bits = 512%N ->
  init1024 (regs_of_bytes 8 (iv_block 16 bits)) = L1024 (iv p1024 bits).
Proof. intros [->| ->]; vm_compute; reflexivity. Qed.
