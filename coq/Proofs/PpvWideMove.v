(** C13, x86 wide types (soft.rs x2/x4 over registers, as Model/PpvSse.v models them):
    MultiLane to_lanes/from_lanes, Vec2/Vec4 extract/insert (all indices, out-of-range panics),
    Store unpack / Into storage, StoreBytes read/write in both byte orders (stated byte order,
    wrong length panics, round trip) — for the SSE-family types (elements = 16-byte registers,
    every [s3]) and for u32x4x4_avx2 = x2<u32x4x2_avx2,G0> (elements = 32-byte registers).
    A wide value is the list of its registers; its byte image is [concat v]. *)
From Coq Require Import NArith List Lia Bool Arith.
From CC Require Proofs.PpvSseMove.
From CC Require Import Lib.Words Lib.Bytes Lib.ListX Model.Intrinsics Model.PpvSse Model.PpvAvx2 Spec.Lanes
  Proofs.IntrinsicsLemmas Proofs.PpvSseWords Proofs.PpvAvx2Words Proofs.PpvAvx2Move Proofs.PpvStore
  Proofs.PpvWideLift Proofs.PpvWideSse.
Import ListNotations.
Local Open Scope N_scope.

(** * cutting an image into equal parts *)
Lemma chunks_concat k fuel (v : list (list N)) :
  (0 < k)%nat -> Forall (fun l => length l = k) v -> (length v <= fuel)%nat ->
  chunks_exact k fuel (concat v) = v.
Proof.
  intros Hk F. revert fuel. induction F as [|x v Hx _ IH]; intros fuel Hf.
  - destruct fuel; [reflexivity|]. cbn [concat chunks_exact length].
    destruct (Nat.leb_spec k 0); [lia|reflexivity].
  - destruct fuel; [cbn in Hf; lia|]. cbn [concat chunks_exact].
    rewrite app_length, Hx. destruct (Nat.leb_spec k (k + length (concat v))); [|lia].
    rewrite firstn_app, skipn_app, Hx, Nat.sub_diag. cbn [firstn skipn].
    rewrite firstn_all2, skipn_all2, app_nil_r by lia. cbn [app]. f_equal.
    apply IH. cbn in Hf. lia.
Qed.
Lemma concat_length_eq k (v : list (list N)) :
  Forall (fun l => length l = k) v -> length (concat v) = (k * length v)%nat.
Proof. induction 1 as [|x v Hx _ IH]; cbn [concat length]; [lia|]. rewrite app_length, IH, Hx. lia. Qed.
Lemma wf_len m v : Forall (wf m) v -> Forall (fun l : list N => length l = m) v.
Proof. intros F. eapply Forall_impl; [|exact F]. now intros x [Hx _]. Qed.

Lemma lanes16_concat v : Forall (wf 16) v -> lanes16 (concat v) = v.
Proof.
  intros F. unfold lanes16. apply chunks_concat; [lia|now apply wf_len|].
  rewrite (concat_length_eq 16) by now apply wf_len. lia.
Qed.
Lemma split_regs_concat k n v : length v = n -> Forall (fun l : list N => length l = k) v ->
  split_regs n k (concat v) = v.
Proof.
  intros L F. revert n L. induction F as [|x v Hx _ IH]; intros n L; subst n; [reflexivity|].
  cbn [length split_regs concat]. rewrite firstn_app, skipn_app, Hx, Nat.sub_diag. cbn [firstn skipn].
  rewrite firstn_all2, skipn_all2, app_nil_r by lia. cbn [app]. f_equal. now apply IH.
Qed.
(** an image of [16 n] bytes is the image of a wide value *)
Lemma image_wide n st : wf (16 * n) st -> wide16 n (lanes16 st) /\ concat (lanes16 st) = st.
Proof.
  intros [L B]. unfold lanes16.
  assert (C : concat (chunks_exact 16 (length st) st) = st).
  { apply chunks_exact_concat; [lia|lia|]. rewrite L, Nat.mul_comm. apply Nat.mod_mul. lia. }
  split; [|exact C]. split.
  - rewrite chunks_exact_length by lia. rewrite L, Nat.mul_comm. apply Nat.div_mul. lia.
  - pose proof (chunks_exact_Forall_length 16 (length st) st) as FL.
    pose proof (chunks_exact_Forall_bytes 16 (length st) st B) as FB.
    revert FL FB. generalize (chunks_exact 16 (length st) st). intros l FL FB.
    induction FL as [|x l Hx _ IH]; [constructor|]. inversion FB; subst. constructor; [now split|now apply IH].
Qed.

(** * MultiLane<[W; n]>, UnsafeFrom<[W; n]>: the lanes are the registers in memory order *)
Theorem sse_wide_lanes_order n v : wide16 n v ->
  xn_to_lanes v = lanes16 (concat v) /\ concat (xn_from_lanes v) = concat v /\
  xn_from_lanes (xn_to_lanes v) = v /\ xn_to_lanes (xn_from_lanes v) = v /\
  (forall k, In k [4; 8; 16]%nat -> words_le k (concat v) = concat (map (words_le k) (xn_to_lanes v))).
Proof.
  intros [L F]. repeat split.
  - symmetry. now apply lanes16_concat.
  - intros k Hk. destruct (in_k_ok k Hk) as [H0 Hm]. now apply (words_le_concat k 16).
Qed.
Theorem sse_wide_from_lanes_order (l : list reg) : Forall (wf 16) l ->
  concat (xn_from_lanes l) = concat l /\ xn_to_lanes (xn_from_lanes l) = l /\
  wide16 (length l) (xn_from_lanes l).
Proof. intros F. repeat split. exact F. Qed.

(** * Vec2<W> / Vec4<W>: every index; insert replaces exactly lane [i] *)
Theorem sse_wide_extract_insert n v w i : wide16 n v -> wf 16 w ->
  xn_extract v i = (if i <? N.of_nat n then Ok (nth (N.to_nat i) (lanes16 (concat v)) []) else Panic) /\
  omap (@concat N) (xn_insert v w i)
  = (if i <? N.of_nat n then Ok (concat (upd (N.to_nat i) w (lanes16 (concat v)))) else Panic) /\
  (forall r, xn_insert v w i = Ok r -> wide16 n r).
Proof.
  intros [L F] Hw. rewrite lanes16_concat by exact F. unfold xn_extract, xn_insert. rewrite L.
  destruct (N.ltb_spec i (N.of_nat n)) as [Hi|Hi]; (split; [|split]); try reflexivity; try discriminate.
  - destruct (nth_error v (N.to_nat i)) as [x|] eqn:E.
    + f_equal. symmetry. now apply nth_error_nth.
    + apply nth_error_None in E. lia.
  - intros r [= <-]. split; [now rewrite upd_length|].
    clear -F Hw. revert v F. induction (N.to_nat i) as [|j IH]; intros v F.
    + destruct F; cbn [upd]; constructor; assumption.
    + destruct F; cbn [upd]; constructor; [assumption|now apply IH].
Qed.

(** * Store<vec256_storage> / Store<vec512_storage>, From<x2>/From<x4> for the storage *)
Theorem sse_wide_storage :
  (forall st, wf 32 st ->
     map sse_unpack (x2_unpack st) = lanes16 st /\ wide16 2 (map sse_unpack (x2_unpack st)) /\
     xn_into_storage (map sse_into_storage (map sse_unpack (x2_unpack st))) = st) /\
  (forall st, wf 64 st ->
     map sse_unpack (x4_unpack st) = lanes16 st /\ wide16 4 (map sse_unpack (x4_unpack st)) /\
     xn_into_storage (map sse_into_storage (map sse_unpack (x4_unpack st))) = st) /\
  (forall n v, wide16 n v -> xn_into_storage (map sse_into_storage v) = concat v) /\
  (forall v, wide16 2 v -> map sse_unpack (x2_unpack (xn_into_storage (map sse_into_storage v))) = v) /\
  (forall v, wide16 4 v -> map sse_unpack (x4_unpack (xn_into_storage (map sse_into_storage v))) = v).
Proof.
  assert (I1 : forall l : list reg, map sse_unpack l = l) by (intros l; apply map_id).
  assert (I2 : forall l : list reg, map sse_into_storage l = l) by (intros l; apply map_id).
  assert (U : forall n st, wf (16 * n) st -> split_regs n 16 st = lanes16 st).
  { intros n st Hst. destruct (image_wide n st Hst) as [[L F] C]. rewrite <- C at 1.
    apply split_regs_concat; [exact L|now apply wf_len]. }
  assert (S : forall n st, wf (16 * n) st ->
            split_regs n 16 st = lanes16 st /\ wide16 n (split_regs n 16 st) /\ concat (split_regs n 16 st) = st).
  { intros n st Hst. rewrite (U n st Hst). split; [reflexivity|]. now apply image_wide. }
  split; [|split; [|split; [|split]]].
  - intros st Hst. rewrite ?I1, ?I2. exact (S 2%nat st Hst).
  - intros st Hst. rewrite ?I1, ?I2. exact (S 4%nat st Hst).
  - intros n v _. now rewrite I2.
  - intros v [L F]. rewrite ?I1, ?I2. apply split_regs_concat; [exact L|now apply wf_len].
  - intros v [L F]. rewrite ?I1, ?I2. apply split_regs_concat; [exact L|now apply wf_len].
Qed.

(** u64x4_sse2 = x2<u64x2_sse2, G1>: the methods written in sse2.rs (Words4, Vec4<u64>,
    MultiLane<[u64;4]>; Props/C12.v, C13.v) see the value as the pair of its registers, the
    soft.rs methods as the list; same image, same well-formedness *)
Lemma u64x4_pair_list (v : reg * reg) :
  PpvSseMove.img2 v = concat [fst v; snd v] /\ (PpvSseMove.wf2 v <-> wide16 2 [fst v; snd v]).
Proof.
  split; [unfold PpvSseMove.img2; cbn [concat]; now rewrite app_nil_r|]. split.
  - intros [H1 H2]. split; [reflexivity|]. constructor; [exact H1|]. constructor; [exact H2|constructor].
  - intros [_ F]. inversion F as [|? ? H1 F']; inversion F' as [|? ? H2 _]; subst. now split.
Qed.
