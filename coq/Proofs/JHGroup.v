(** JH: grouping and de-grouping of the specification against the register
    layout of the implementation (bytes of the chaining value <-> bits of the
    eight little-endian 128-bit words <-> the 256 nibbles of E8). *)
From Coq Require Import NArith List Arith Bool Lia.
From CC Require Import Lib.Words Lib.Bytes Lib.ListX Model.JH.
From CC Require Spec.JH.
From CC Require Import Proofs.JHBits Proofs.JHRound Proofs.JHRounds.
Import ListNotations.
Local Open Scope N_scope.

Notation bit := Spec.JH.bit.

(** bits of a little-endian join of bytes *)
Lemma testbit_le_join bs : Forall is_byte bs -> forall (q : nat) t, t < 8 ->
  N.testbit (le_join bs) (8 * N.of_nat q + t) = N.testbit (nth q bs 0) t.
Proof.
  induction 1 as [|b r Hb Hr IH]; intros q t Ht.
  - destruct q; cbn [le_join nth]; rewrite !N.bits_0; reflexivity.
  - cbn [le_join]. rewrite shiftl_8. unfold is_byte in Hb. destruct q as [|q].
    + cbn [nth]. change (8 * N.of_nat 0 + t) with t.
      rewrite <- (N.mod_pow2_bits_low _ 8) by exact Ht. change (2 ^ 8) with 256.
      rewrite N.mod_add by discriminate. rewrite N.mod_small by exact Hb. reflexivity.
    + cbn [nth]. replace (8 * N.of_nat (S q) + t) with (8 * N.of_nat q + t + 8) by lia.
      rewrite <- N.div_pow2_bits. change (2 ^ 8) with 256.
      rewrite N.div_add by discriminate. rewrite N.div_small by exact Hb. rewrite N.add_0_l.
      apply IH. exact Ht.
Qed.

(** * the state as a function of the specification's bit index t < 1024 *)
Definition reg (k : N) (y : x8) : N :=
  match k with 0 => y0 y | 1 => y1 y | 2 => y2 y | 3 => y3 y
             | 4 => y4 y | 5 => y5 y | 6 => y6 y | _ => y7 y end.
Definition sbit (y : x8) (t : N) : bool := bitn (reg (t / 128) y) (t mod 128).

Lemma sbit_add y c k : c < 128 -> sbit y (c + k * 128) = bitn (reg k y) c.
Proof.
  intros Hc. unfold sbit. rewrite N.div_add, N.mod_add by discriminate.
  rewrite N.div_small, N.mod_small by exact Hc. reflexivity.
Qed.

Lemma colE_sbit y c : c < 128 ->
  colE y c = nib (sbit y c) (sbit y (c + 256)) (sbit y (c + 512)) (sbit y (c + 768)).
Proof.
  intros Hc.
  change (colE y c) with (nib (bitn (reg 0 y) c) (bitn (reg 2 y) c) (bitn (reg 4 y) c) (bitn (reg 6 y) c)).
  rewrite <- !(sbit_add y c) by exact Hc.
  change (0 * 128) with 0. rewrite N.add_0_r. reflexivity.
Qed.
Lemma colO_sbit y c : c < 128 ->
  colO y c = nib (sbit y (c + 128)) (sbit y (c + 384)) (sbit y (c + 640)) (sbit y (c + 896)).
Proof.
  intros Hc.
  change (colO y c) with (nib (bitn (reg 1 y) c) (bitn (reg 3 y) c) (bitn (reg 5 y) c) (bitn (reg 7 y) c)).
  rewrite <- !(sbit_add y c) by exact Hc. reflexivity.
Qed.

(** the element at position t0 < 256 is the nibble read down the four
    registers of its parity *)
Lemma elemT_sbit y t0 : t0 < 256 ->
  elemT (cols y) t0 = nib (sbit y t0) (sbit y (t0 + 256)) (sbit y (t0 + 512)) (sbit y (t0 + 768)).
Proof.
  intros H. unfold elemT, cols. destruct (N.ltb_spec t0 128) as [L|G].
  - rewrite nth_map_seq by lia. cbn [fst]. rewrite N2Nat.id. apply colE_sbit. exact L.
  - rewrite nth_map_seq by lia. cbn [snd]. rewrite N2Nat.id.
    rewrite colO_sbit by lia.
    replace (t0 - 128 + 128) with t0 by lia. replace (t0 - 128 + 384) with (t0 + 256) by lia.
    replace (t0 - 128 + 640) with (t0 + 512) by lia. replace (t0 - 128 + 896) with (t0 + 768) by lia.
    reflexivity.
Qed.

(** * bytes of a chaining value = bits of the registers *)
Lemma nth_firstn_lt {A} (l : list A) d : forall n q, (q < n)%nat -> nth q (firstn n l) d = nth q l d.
Proof.
  induction l as [|x l IH]; intros n q H; [destruct n, q; reflexivity|].
  destruct n as [|n]; [lia|]. destruct q as [|q]; [reflexivity|]. cbn [firstn nth]. apply IH. lia.
Qed.
Lemma nth_skipn_add {A} (l : list A) d : forall n q, nth q (skipn n l) d = nth (n + q) l d.
Proof.
  induction l as [|x l IH]; intros n q; [destruct n, q; reflexivity|].
  destruct n as [|n]; [reflexivity|]. cbn [skipn Nat.add nth]. apply IH.
Qed.

Definition idx_ok (t : N) : bool :=
  let k := t / 128 in let j := N.lxor (t mod 128) 7 in
  let q := j / 8 in let u := j mod 8 in
  (q <? 16) && (16 * k + q =? t / 8) && (u =? 7 - t mod 8) && (j =? 8 * q + u) && (u <? 8) && (k <? 8).
Lemma idx_ok_all : forallb (fun t => idx_ok (N.of_nat t)) (seq 0 1024) = true.
Proof. vm_compute. reflexivity. Qed.
Lemma idx_ok_t t : t < 1024 -> idx_ok t = true.
Proof.
  intros H. pose proof idx_ok_all as A. rewrite forallb_forall in A.
  rewrite <- (N2Nat.id t). apply A. apply in_seq. lia.
Qed.

Lemma reg_new a k : k < 8 -> reg k (compressor_new a) = load128 a (N.to_nat k).
Proof.
  intros H. destruct k as [|p]; [reflexivity|].
  destruct p as [p|p|]; [destruct p as [p|p|]|destruct p as [p|p|]|];
    try (destruct p as [p|p|]); try reflexivity; lia.
Qed.

Lemma bit_new a t : length a = 128%nat -> Forall is_byte a -> t < 1024 ->
  bit a t = sbit (compressor_new a) t.
Proof.
  intros Hl Hb Ht. pose proof (idx_ok_t t Ht) as I. unfold idx_ok in I. cbv zeta in I.
  apply andb_prop in I. destruct I as [I Hk]. apply andb_prop in I. destruct I as [I Hu].
  apply andb_prop in I. destruct I as [I Hj]. apply andb_prop in I. destruct I as [I Hu7].
  apply andb_prop in I. destruct I as [Hq Hqk].
  apply N.ltb_lt in Hk, Hu, Hq. apply N.eqb_eq in Hj, Hu7, Hqk.
  unfold sbit, bitn, Spec.JH.bit. rewrite reg_new by exact Hk.
  unfold load128. rewrite Hj.
  replace (8 * (N.lxor (t mod 128) 7 / 8)) with (8 * N.of_nat (N.to_nat (N.lxor (t mod 128) 7 / 8))) by lia.
  rewrite testbit_le_join.
  - rewrite nth_firstn_lt by lia. rewrite nth_skipn_add. rewrite Hu7. f_equal. f_equal. lia.
  - apply Forall_firstn', Forall_skipn'. exact Hb.
  - exact Hu.
Qed.

(** * grouping *)
Lemma posT_0 : posT 0 = pos0.
Proof. vm_compute. reflexivity. Qed.

Lemma div2_lt e : (e < 256)%nat -> (Nat.div2 e < 128)%nat.
Proof. intros H. rewrite Nat.div2_div. apply Nat.div_lt_upper_bound; lia. Qed.

Theorem group_eq_gather a : length a = 128%nat -> Forall is_byte a ->
  Spec.JH.group a = gather (posT 0) (cols (compressor_new a)).
Proof.
  intros Hl Hb. rewrite posT_0. unfold Spec.JH.group, gather, pos0. rewrite map_map.
  apply map_ext_in. intros e He. apply in_seq in He. cbv zeta.
  pose proof (div2_lt e ltac:(lia)) as Hd.
  set (i := N.of_nat (Nat.div2 e) + (if Nat.even e then 0 else 128)).
  assert (Hi : i < 256) by (unfold i; destruct (Nat.even e); lia).
  rewrite elemT_sbit by exact Hi.
  rewrite <- !(bit_new a) by (try assumption; lia). reflexivity.
Qed.

(** * de-grouping *)
Lemma testbit_nib b3 b2 b1 b0 :
  N.testbit (nib b3 b2 b1 b0) 3 = b3 /\ N.testbit (nib b3 b2 b1 b0) 2 = b2 /\
  N.testbit (nib b3 b2 b1 b0) 1 = b1 /\ N.testbit (nib b3 b2 b1 b0) 0 = b0.
Proof. destruct b3, b2, b1, b0; repeat split; reflexivity. Qed.

Definition elem_of (m : N) : N := if m <? 128 then 2 * m else 2 * (m - 128) + 1.
Lemma elem_of_all :
  forallb (fun m => (nth (N.to_nat (elem_of (N.of_nat m))) pos0 0 =? N.of_nat m)
                    && (elem_of (N.of_nat m) <? 256)) (seq 0 256) = true.
Proof. vm_compute. reflexivity. Qed.
Lemma elem_of_m m : m < 256 -> nth (N.to_nat (elem_of m)) pos0 0 = m /\ elem_of m < 256.
Proof.
  intros H. pose proof elem_of_all as A. rewrite forallb_forall in A.
  specialize (A (N.to_nat m)). rewrite N2Nat.id in A.
  specialize (A ltac:(apply in_seq; lia)). apply andb_prop in A. destruct A as [A1 A2].
  apply N.eqb_eq in A1. apply N.ltb_lt in A2. split; assumption.
Qed.

Lemma nth_map_lt {A B} (f : A -> B) l d d' n : (n < length l)%nat -> nth n (map f l) d' = f (nth n l d).
Proof. intros H. rewrite (nth_indep _ d' (f d)) by (rewrite map_length; exact H). apply map_nth. Qed.

Lemma degroup_bit_gather z t : t < 1024 ->
  Spec.JH.degroup_bit (gather (posT 0) (cols z)) t = sbit z t.
Proof.
  intros Ht. rewrite posT_0. unfold Spec.JH.degroup_bit. cbv zeta.
  pose proof (N.mod_upper_bound t 256 ltac:(discriminate)) as Hm.
  pose proof (N.div_mod t 256 ltac:(discriminate)) as Hd.
  set (k := t / 256) in *. set (m := t mod 256) in *.
  assert (Hk : k < 4) by (apply N.div_lt_upper_bound; [discriminate|exact Ht]).
  fold (elem_of m). destruct (elem_of_m m Hm) as [E1 E2].
  unfold gather. rewrite (nth_map_lt _ _ 0) by (change (length pos0) with 256%nat; lia).
  rewrite E1, (elemT_sbit z m Hm).
  destruct (testbit_nib (sbit z m) (sbit z (m + 256)) (sbit z (m + 512)) (sbit z (m + 768)))
    as (T3 & T2 & T1 & T0).
  assert (K : k = 0 \/ k = 1 \/ k = 2 \/ k = 3) by lia.
  destruct K as [K|[K|[K|K]]]; rewrite K in *.
  - change (3 - 0) with 3. rewrite T3. f_equal. lia.
  - change (3 - 1) with 2. rewrite T2. f_equal. lia.
  - change (3 - 2) with 1. rewrite T1. f_equal. lia.
  - change (3 - 3) with 0. rewrite T0. f_equal. lia.
Qed.

(** a byte is its eight bits *)
Lemma byte_bits_all :
  forallb (fun n => let b := N.of_nat n in
    b =? 128 * N.b2n (N.testbit b 7) + 64 * N.b2n (N.testbit b 6) + 32 * N.b2n (N.testbit b 5)
         + 16 * N.b2n (N.testbit b 4) + 8 * N.b2n (N.testbit b 3) + 4 * N.b2n (N.testbit b 2)
         + 2 * N.b2n (N.testbit b 1) + N.b2n (N.testbit b 0)) (seq 0 256) = true.
Proof. vm_compute. reflexivity. Qed.
Lemma byte_bits b : b < 256 ->
  b = 128 * N.b2n (N.testbit b 7) + 64 * N.b2n (N.testbit b 6) + 32 * N.b2n (N.testbit b 5)
      + 16 * N.b2n (N.testbit b 4) + 8 * N.b2n (N.testbit b 3) + 4 * N.b2n (N.testbit b 2)
      + 2 * N.b2n (N.testbit b 1) + N.b2n (N.testbit b 0).
Proof.
  intros H. pose proof byte_bits_all as A. rewrite forallb_forall in A.
  specialize (A (N.to_nat b) ltac:(apply in_seq; lia)). cbv zeta in A. rewrite N2Nat.id in A.
  apply N.eqb_eq in A. exact A.
Qed.

Lemma bit_at l n k : k < 8 -> bit l (8 * n + k) = N.testbit (nth (N.to_nat n) l 0) (7 - k).
Proof.
  intros H. unfold Spec.JH.bit.
  replace ((8 * n + k) / 8) with n by (apply (N.div_unique _ 8 n k); lia).
  replace ((8 * n + k) mod 8) with k by (apply (N.mod_unique _ 8 n k); lia).
  reflexivity.
Qed.

Lemma byte_of_bit l n : nth (N.to_nat n) l 0 < 256 ->
  Spec.JH.byte_of (bit l) n = nth (N.to_nat n) l 0.
Proof.
  intros H. unfold Spec.JH.byte_of. cbv zeta.
  rewrite !bit_at by reflexivity.
  change (7 - 0) with 7. change (7 - 1) with 6. change (7 - 2) with 5. change (7 - 3) with 4.
  change (7 - 4) with 3. change (7 - 5) with 2. change (7 - 6) with 1. change (7 - 7) with 0.
  symmetry. apply byte_bits. exact H.
Qed.

Lemma byte_of_ext f g n : (forall k, k < 8 -> f (8 * n + k) = g (8 * n + k)) ->
  Spec.JH.byte_of f n = Spec.JH.byte_of g n.
Proof. intros H. unfold Spec.JH.byte_of. cbv zeta. rewrite !H by reflexivity. reflexivity. Qed.

Lemma bytes_of_bits l : Forall is_byte l ->
  l = map (fun n => Spec.JH.byte_of (bit l) (N.of_nat n)) (seq 0 (length l)).
Proof.
  intros Hb. apply (nth_ext _ _ 0 0).
  - rewrite map_length, seq_length. reflexivity.
  - intros n Hn. rewrite nth_map_seq by exact Hn. rewrite byte_of_bit; rewrite Nat2N.id; [reflexivity|].
    rewrite Forall_forall in Hb. apply Hb. apply nth_In. exact Hn.
Qed.
