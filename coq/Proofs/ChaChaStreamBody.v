(** [lazy_fill] and [apply_body] computed against the raw block stream (no invariant yet). *)
From Coq Require Import NArith ZArith List Lia Arith Bool ZifyBool ZifyN ZifyNat.
From CC Require Import Lib.Words Lib.Bytes Lib.ListX Model.ChaChaGuts Model.ChaChaStream.
From CC Require Import Proofs.ChaChaStreamCtr Proofs.ChaChaStreamLoops.
Import ListNotations.
Ltac Zify.zify_post_hook ::= Z.div_mod_to_equations.
Local Open Scope N_scope.

Section Body.
  Variable refill1 : chacha -> list N * chacha.
  Variable refill4 : chacha -> list N * chacha.
  Variable blk : chacha -> list N.
  Variable s0 : chacha.
  Hypothesis s0_len : length (cd s0) = 4%nat.
  (** the producers are specified on the states of the stream only ([stA s0 q]: nothing else is ever passed to them) *)
  Hypothesis blk_len : forall q, length (blk (stA s0 q)) = 64%nat.
  Hypothesis refill1_spec : forall q, refill1 (stA s0 q) = (blk (stA s0 q), stA s0 (q + 1)).
  Hypothesis refill4_spec : forall q,
    refill4 (stA s0 q) = (blk (stA s0 q) ++ blk (stA s0 (q + 1)) ++ blk (stA s0 (q + 2)) ++ blk (stA s0 (q + 3)),
                          stA s0 (q + 4)).
  Set Default Proof Using "All".
  Local Notation "'!' x" := (x refill1 refill4 blk s0 s0_len blk_len refill1_spec refill4_spec) (at level 9, x at level 0).

  Notation rawblock := (rawblock blk s0).
  Notation rawstream := (rawstream blk s0).

  Lemma lazy_fill_neg b Q : b_state b = stA s0 Q -> (b_have b < 0)%Z ->
    lazy_fill refill1 b = Buf (stA s0 (Q + 1)) (rawblock Q) (b_have b + 64)%Z (wrap 64 (b_len b + (2 ^ 64 - 1))) false.
  Proof.
    intros Hs Hh. unfold lazy_fill. apply Z.ltb_lt in Hh. rewrite Hh, Hs.
    rewrite (! refill1_stA). reflexivity.
  Qed.

  Lemma lazy_fill_nonneg b : (0 <= b_have b)%Z -> lazy_fill refill1 b = b.
  Proof. intros Hh. unfold lazy_fill. apply Z.ltb_ge in Hh. rewrite Hh. reflexivity. Qed.

  (** number of blocks [apply_body] asks for *)
  Definition needed_of (have : Z) (n : nat) : N :=
    let datalen := N.of_nat n - N.min (Z.to_N have) (N.of_nat n) in
    datalen / 64 + (if datalen mod 64 =? 0 then 0 else 1).

  Lemma apply_body_err wide b data : (0 <= b_have b)%Z ->
    b_len b < needed_of (b_have b) (length data) -> b_fresh b = false ->
    apply_body refill1 refill4 wide b data = (RErr, b, data).
  Proof.
    intros Hh Hlt Hf. unfold apply_body, have_usize.
    replace (b_have b <? 0)%Z with false by lia.
    unfold needed_of in Hlt. cbv zeta in Hlt. apply N.ltb_lt in Hlt. rewrite Hlt, Hf. reflexivity.
  Qed.

  Lemma apply_body_ok wide b data Q :
    b_state b = stA s0 Q -> (0 <= b_have b <= 64)%Z ->
    (needed_of (b_have b) (length data) <= b_len b \/ b_fresh b = true) ->
    let n := length data in
    let have := Z.to_N (b_have b) in
    let hr := N.to_nat (N.min have (N.of_nat n)) in
    let datalen := N.of_nat n - N.min have (N.of_nat n) in
    let needed := needed_of (b_have b) n in
    exists out',
      apply_body refill1 refill4 wide b data =
        (ROk,
         Buf (stA s0 (Q + needed)) out'
             (Z.of_N (if datalen =? 0 then have - N.of_nat hr else 64 * needed - datalen))
             (wrap 64 (b_len b + 2 ^ 64 - needed)) (b_fresh b && (needed =? 0)),
         xor_bytes (firstn hr data) (skipn (N.to_nat (64 - have)) (b_out b))
           ++ xor_bytes (skipn hr data) (rawstream Q (N.to_nat needed)))
      /\ (needed = 0 -> out' = b_out b)
      /\ (datalen mod 64 <> 0 -> out' = rawblock (Q + needed - 1)).
  Proof.
    intros Hs Hh Hok n have hr datalen needed.
    unfold apply_body, have_usize.
    replace (b_have b <? 0)%Z with false by lia.
    fold n. fold have. fold datalen.
    assert (Eneeded : datalen / 64 + (if datalen mod 64 =? 0 then 0 else 1) = needed) by reflexivity.
    rewrite Eneeded.
    assert (Eo : (b_len b <? needed) && negb (b_fresh b) = false).
    { destruct Hok as [Hok|Hok]; [|rewrite Hok; apply andb_false_r].
      fold n in Hok. fold needed in Hok. apply N.ltb_ge in Hok. rewrite Hok. reflexivity. }
    rewrite Eo. replace (64 <? have) with false by lia.
    fold hr. rewrite Hs.
    set (data1 := skipn hr data).
    set (nwide := if wide then (length data1 / 256)%nat else 0%nat).
    assert (Hl1 : length data1 = (n - hr)%nat) by (unfold data1; rewrite skipn_length; reflexivity).
    assert (Hnw : (256 * nwide <= length data1)%nat) by (unfold nwide; destruct wide; lia).
    rewrite (! wide_loop_spec nwide Q data1 Hnw).
    set (data2 := skipn (256 * nwide) data1).
    assert (Hl2 : length data2 = (length data1 - 256 * nwide)%nat) by (unfold data2; rewrite skipn_length; reflexivity).
    set (nb := ((length data2 + 63) / 64)%nat).
    rewrite (! tail_loop_spec (length data2) data2
               (Q + 4 * N.of_nat nwide) (b_out b) (have - N.min have (N.of_nat n)) nb (le_n _) eq_refl).
    assert (Edl : datalen = N.of_nat (length data1)) by (unfold datalen, hr in *; lia).
    assert (Hnd : N.to_nat needed = (4 * nwide + nb)%nat).
    { unfold needed, needed_of. fold have. fold datalen. cbv zeta. rewrite Edl. unfold nb. rewrite Hl2.
      destruct (N.of_nat (length data1) mod 64 =? 0) eqn:Em; lia. }
    exists (if Nat.eqb nb 0 then b_out b else rawblock (Q + 4 * N.of_nat nwide + N.of_nat nb - 1)).
    split; [|split].
    - cbv beta iota. f_equal; [f_equal|].
      + assert (E1 : Q + 4 * N.of_nat nwide + N.of_nat nb = Q + needed) by lia.
        assert (E2 : (if (nb =? 0)%nat then have - N.min have (N.of_nat n) else N.of_nat (64 * nb - length data2))
                     = (if datalen =? 0 then have - N.of_nat hr else 64 * needed - datalen)).
        { rewrite Edl. unfold nb in *. rewrite Hl2 in *.
          destruct (Nat.eqb ((length data1 - 256 * nwide + 63) / 64) 0) eqn:E0;
            [apply Nat.eqb_eq in E0 | apply Nat.eqb_neq in E0];
            destruct (N.of_nat (length data1) =? 0) eqn:E1'; unfold hr in *; lia. }
        rewrite E2, E1. reflexivity.
      + f_equal. rewrite Hnd, (! rawstream_app).
        pose proof (xor_bytes_split (rawstream Q (4 * nwide)) data1
                      (rawstream (Q + N.of_nat (4 * nwide)) nb)) as Hsp.
        rewrite (! rawstream_length) in Hsp.
        replace (64 * (4 * nwide))%nat with (256 * nwide)%nat in Hsp by lia.
        fold data2 in Hsp. rewrite <- Hsp. do 3 f_equal. lia.
    - intros H0. replace nb with 0%nat by lia. reflexivity.
    - intros Hm. replace (Nat.eqb nb 0) with false.
      + f_equal. lia.
      + symmetry. apply Nat.eqb_neq. unfold nb. rewrite Hl2. rewrite Edl in Hm. lia.
  Qed.
End Body.
