(** C02/C11 for the real block producers of Model/ChaChaGuts.v: the Section hypotheses of the
    stream-wrapper theorems are discharged by C14 (Proofs/ChaChaGutsWide.v). *)
From Coq Require Import NArith ZArith List Lia Arith Bool.
From CC Require Import Lib.Words Lib.Bytes Lib.ListX Model.ChaChaGuts Model.ChaChaStream.
From CC Require Import Proofs.ChaChaRounds Proofs.ChaChaGutsWords Proofs.ChaChaGuts Proofs.ChaChaGutsWide.
From CC Require Import Proofs.ChaChaStreamCtr Proofs.ChaChaStreamSpec Proofs.ChaChaStreamSeek Proofs.ChaChaStreamInv
  Proofs.ChaChaStreamHist Proofs.ChaChaStreamMain.
Import ListNotations.
Local Open Scope N_scope.

Lemma real_producers_wf drounds s0 : wf s0 ->
  producers_spec (real_refill1 drounds) (real_refill4 drounds) (fun s => fst (refill s drounds)) s0.
Proof.
  intros Hwf.
  assert (Hq : forall q, wf (stA s0 q)) by (intros q; apply seek64_wf; exact Hwf).
  apply real_producers_spec.
  - exact (proj1 (proj2 (proj2 Hwf))).
  - intros q. apply refill_length, wf_len4, Hq.
  - intros q. cbv zeta. apply refill_wide_eq_inc_chain, Hq.
Qed.

Lemma init_of_wf v drounds key nonce :
  Forall is_byte key -> length key = 32%nat -> Forall is_byte nonce ->
  length nonce = (match v with VDjb => 8 | VIetf => 12 | VX => 24 end)%nat ->
  wf (init_of v drounds key nonce).
Proof.
  intros Hk Hkl Hn Hnl. destruct v; cbn [init_of].
  - apply init_chacha_wf; auto.
  - apply init_chacha_wf; auto.
  - apply init_chacha_x_wf; auto.
Qed.

(** the model of the seven cipher types, run with the real block producers *)
Theorem real_history_correct v drounds key nonce ops :
  Forall is_byte key -> length key = 32%nat -> Forall is_byte nonce ->
  length nonce = (match v with VDjb => 8 | VIetf => 12 | VX => 24 end)%nat ->
  Forall op_ok ops ->
  m_run v drounds key nonce ops
    = spec_run (fun s => fst (refill s drounds)) (is12_of v) (init_of v drounds key nonce) 0 ops
  /\ existsb obs_panics (m_run v drounds key nonce ops) = false.
Proof.
  intros Hk Hkl Hn Hnl Hops. unfold m_run, m_new.
  apply stream_history_correct.
  - apply stream_init_of; assumption.
  - apply real_producers_wf, init_of_wf; assumption.
  - exact Hops.
Qed.
