(** Lemmas about [Model/BlockBuffer.v]: lazy buffering ([input_lazy]).

    [input_lazy_char]: what is emitted and what stays buffered is a function of
    "previously buffered bytes ++ input" only: with L bytes in total, the first
    (L-1)/size full blocks are emitted and the rest (1..size bytes, or 0 if
    L = 0) stays in the buffer.
    [input_lazy_reconstructs]: emitted blocks followed by the buffered tail are
    the buffered bytes followed by the input.
    [input_lazy_app]: feeding [a] then [c] = feeding [a ++ c] (same blocks in
    the same order, same buffered bytes and position; bytes of the buffer at
    and beyond the position are stale and may differ, hence [bb_eqv]).
    [input_lazy_eqv], [pad_with_zero_eqv]: nothing observable depends on the
    stale bytes. *)
From Coq Require Import NArith List Arith Lia.
From CC Require Import Lib.Words Lib.Bytes Lib.ListX Model.BlockBuffer.
Import ListNotations.

(** invariant of the buffer: [pos <= size], [size > 0] *)
Definition bb_wf (b : bb) : Prop := bb_pos b <= bb_size b /\ 0 < bb_size b.
(** the bytes that are buffered: [buffer[..pos]] *)
Definition bb_content (b : bb) : list N := firstn (bb_pos b) (bb_buf b).
(** same size, position and buffered bytes *)
Definition bb_eqv (b1 b2 : bb) : Prop :=
  bb_size b1 = bb_size b2 /\ bb_pos b1 = bb_pos b2 /\ bb_content b1 = bb_content b2.

(** the first [n] consecutive [size]-byte blocks of [l] *)
Fixpoint take_blocks (size n : nat) (l : list N) : list (list N) :=
  match n with
  | O => []
  | S k => firstn size l :: take_blocks size k (skipn size l)
  end.

(** number of blocks emitted when [len] bytes are available in total *)
Definition lazy_count (size len : nat) : nat := (len - 1) / size.

Lemma bb_eqv_refl b : bb_eqv b b.
Proof. now repeat split. Qed.
Lemma bb_eqv_sym a b : bb_eqv a b -> bb_eqv b a.
Proof. intros (H1 & H2 & H3). now repeat split. Qed.
Lemma bb_eqv_trans a b c : bb_eqv a b -> bb_eqv b c -> bb_eqv a c.
Proof. intros (H1 & H2 & H3) (K1 & K2 & K3). repeat split; congruence. Qed.

Lemma bb_content_length b : bb_pos b <= bb_size b -> length (bb_content b) = bb_pos b.
Proof. intros H. unfold bb_content. rewrite firstn_length. unfold bb_size in H. lia. Qed.

Lemma bb_new_wf size : 0 < size -> bb_wf (bb_new size).
Proof. intros H. unfold bb_wf, bb_new, bb_size. cbn [bb_buf bb_pos]. rewrite repeat_length. lia. Qed.

(** * list helpers *)
Lemma firstn_add {A} a b (l : list A) : firstn (a + b) l = firstn a l ++ firstn b (skipn a l).
Proof.
  revert l; induction a as [|a IH]; intros l; [reflexivity|].
  destruct l as [|x l]; cbn [plus firstn skipn app].
  - now rewrite firstn_nil.
  - now rewrite IH.
Qed.

Lemma firstn_exact {A} (a b : list A) n : n = length a -> firstn n (a ++ b) = a.
Proof.
  intros ->. replace (length a) with (length a + 0) by lia.
  rewrite firstn_app_2. cbn [firstn]. apply app_nil_r.
Qed.

Lemma skipn_exact {A} (a b : list A) n : n = length a -> skipn n (a ++ b) = b.
Proof.
  intros ->. rewrite skipn_app, Nat.sub_diag, skipn_all. reflexivity.
Qed.

Lemma skipn_skipn_add {A} a b (l : list A) : skipn b (skipn a l) = skipn (a + b) l.
Proof.
  revert l; induction a as [|a IH]; intros l; [reflexivity|].
  destruct l as [|x l]; cbn [plus skipn]; [now rewrite skipn_nil|apply IH].
Qed.

Lemma skipn_app_le {A} (a b : list A) n : n <= length a -> skipn n (a ++ b) = skipn n a ++ b.
Proof. intros H. rewrite skipn_app. replace (n - length a) with 0 by lia. reflexivity. Qed.

Lemma firstn_app_le {A} (a b : list A) n : n <= length a -> firstn n (a ++ b) = firstn n a.
Proof.
  intros H. rewrite firstn_app. replace (n - length a) with 0 by lia.
  cbn [firstn]. apply app_nil_r.
Qed.

(** * take_blocks *)
Lemma take_blocks_chunks size n l :
  0 < size -> size * n <= length l ->
  chunks_exact size n (firstn (size * n) l) = take_blocks size n l.
Proof.
  intros Hs. revert l. induction n as [|n IH]; intros l Hl; [reflexivity|].
  cbn [chunks_exact take_blocks].
  rewrite firstn_length, Nat.min_l by lia.
  destruct (Nat.leb_spec size (size * S n)) as [_|H]; [|nia].
  rewrite firstn_firstn, Nat.min_l by nia.
  rewrite skipn_firstn_comm. replace (size * S n - size) with (size * n) by nia.
  rewrite IH; [reflexivity|]. rewrite skipn_length. nia.
Qed.

Lemma take_blocks_add size n1 n2 l :
  take_blocks size (n1 + n2) l =
  take_blocks size n1 l ++ take_blocks size n2 (skipn (n1 * size) l).
Proof.
  revert l. induction n1 as [|n1 IH]; intros l; [reflexivity|].
  cbn [plus take_blocks app]. rewrite IH. cbn [mult].
  rewrite <- skipn_skipn_add. reflexivity.
Qed.

Lemma take_blocks_concat size n l : concat (take_blocks size n l) = firstn (n * size) l.
Proof.
  revert l. induction n as [|n IH]; intros l; [reflexivity|].
  cbn [take_blocks concat mult]. rewrite IH. symmetry. apply firstn_add.
Qed.

Lemma take_blocks_app_le size n l l' :
  n * size <= length l -> take_blocks size n (l ++ l') = take_blocks size n l.
Proof.
  revert l. induction n as [|n IH]; intros l H; [reflexivity|].
  cbn [take_blocks]. cbn [mult] in H.
  rewrite firstn_app_le by lia. rewrite skipn_app_le by lia.
  rewrite IH; [reflexivity|]. rewrite skipn_length. lia.
Qed.

Lemma take_blocks_length size n l : length (take_blocks size n l) = n.
Proof. revert l. induction n as [|n IH]; intros l; cbn [take_blocks length]; [reflexivity|now rewrite IH]. Qed.

Lemma take_blocks_Forall_length size n l :
  n * size <= length l -> Forall (fun c => length c = size) (take_blocks size n l).
Proof.
  revert l. induction n as [|n IH]; intros l H; cbn [take_blocks]; constructor.
  - rewrite firstn_length. cbn [mult] in H. lia.
  - apply IH. rewrite skipn_length. cbn [mult] in H. lia.
Qed.

(** * arithmetic of the lazy block count *)
Lemma lazy_count_small size len : len <= size -> lazy_count size len = 0.
Proof.
  intros H. unfold lazy_count. destruct size as [|size]; [reflexivity|].
  apply Nat.div_small. lia.
Qed.

Lemma lazy_count_step size len : 0 < size -> size < len ->
  lazy_count size len = S (lazy_count size (len - size)).
Proof.
  intros Hs H. unfold lazy_count.
  replace (len - 1) with ((len - size - 1) + 1 * size) by lia.
  rewrite Nat.div_add by lia. lia.
Qed.

Lemma lazy_count_bounds size len : 0 < size ->
  lazy_count size len * size <= len /\ len - lazy_count size len * size <= size
  /\ (0 < len -> 0 < len - lazy_count size len * size).
Proof.
  intros Hs. unfold lazy_count.
  pose proof (Nat.div_mod (len - 1) size ltac:(lia)) as E.
  pose proof (Nat.mod_upper_bound (len - 1) size ltac:(lia)) as U.
  nia.
Qed.

Lemma lazy_count_add size l1 lc : 0 < size ->
  lazy_count size (l1 + lc) =
  lazy_count size l1 + lazy_count size (l1 - lazy_count size l1 * size + lc).
Proof.
  intros Hs.
  destruct (Nat.eq_dec l1 0) as [->|Hnz].
  - assert (E : lazy_count size 0 = 0) by (apply lazy_count_small; lia).
    rewrite E. reflexivity.
  - destruct (lazy_count_bounds size l1 Hs) as (B1 & B2 & B3).
    set (n1 := lazy_count size l1) in *.
    unfold lazy_count.
    replace (l1 + lc - 1) with ((l1 - n1 * size + lc - 1) + n1 * size) by lia.
    rewrite Nat.div_add by lia. lia.
Qed.

(** * characterisation of [input_lazy] *)
Lemma copy_at_length dst off src :
  off + length src <= length dst -> length (copy_at dst off src) = length dst.
Proof.
  intros H. unfold copy_at. rewrite !app_length, firstn_length, skipn_length. lia.
Qed.

Lemma input_lazy_char b input :
  bb_wf b ->
  let size := bb_size b in
  let all := bb_content b ++ input in
  let n := lazy_count size (length all) in
  snd (input_lazy b input) = take_blocks size n all
  /\ bb_size (fst (input_lazy b input)) = size
  /\ bb_pos (fst (input_lazy b input)) = length all - n * size
  /\ bb_content (fst (input_lazy b input)) = skipn (n * size) all.
Proof.
  intros [Hpos Hsz]. destruct b as [buf pos].
  unfold bb_size, bb_content in *. cbn [bb_buf bb_pos] in *.
  cbv zeta. set (size := length buf) in *.
  assert (Hc : length (firstn pos buf) = pos) by (rewrite firstn_length; lia).
  unfold input_lazy, bb_remaining, bb_size. cbn [bb_buf bb_pos]. fold size.
  rewrite app_length, Hc.
  destruct (Nat.leb_spec (length input) (size - pos)) as [Hle|Hgt].
  - (* everything fits *)
    cbn [fst snd bb_buf bb_pos].
    rewrite lazy_count_small by lia. cbn [take_blocks mult skipn].
    rewrite Nat.sub_0_r.
    split; [reflexivity|]. split; [apply copy_at_length; fold size; lia|].
    split; [reflexivity|].
    unfold copy_at. rewrite app_assoc. apply firstn_exact.
    rewrite app_length, Hc. reflexivity.
  - destruct (Nat.eqb_spec pos 0) as [->|Hnz]; cbn [negb].
    + (* empty buffer: blocks straight from the input *)
      cbn [firstn app] in *. rewrite Nat.sub_0_r in Hgt.
      cbn [plus]. cbn [fst snd bb_buf bb_pos app].
      fold (lazy_count size (length input)).
      set (n := lazy_count size (length input)).
      destruct (lazy_count_bounds size (length input) Hsz) as (B1 & B2 & B3). fold n in B1, B2, B3.
      rewrite take_blocks_chunks by lia.
      split; [reflexivity|].
      assert (Hr : length (skipn (size * n) input) = length input - n * size)
        by (rewrite skipn_length; lia).
      split; [apply copy_at_length; fold size; lia|].
      split; [exact Hr|].
      unfold copy_at. cbn [firstn app plus]. rewrite Nat.mul_comm.
      apply firstn_exact. reflexivity.
    + (* complete the pending block first *)
      cbn [fst snd bb_buf bb_pos].
      set (r := size - pos) in *.
      assert (Hfr : length (firstn r input) = r) by (rewrite firstn_length; lia).
      assert (Hb1 : copy_at buf pos (firstn r input) = firstn size (firstn pos buf ++ input)).
      { unfold copy_at. rewrite Hfr. replace (pos + r) with size by lia.
        rewrite (skipn_all2 buf) by (unfold size; lia). rewrite app_nil_r.
        replace size with (pos + r) by lia.
        rewrite firstn_add. rewrite firstn_exact by (symmetry; exact Hc).
        rewrite skipn_exact by (symmetry; exact Hc). reflexivity. }
      assert (Hi1 : skipn r input = skipn size (firstn pos buf ++ input)).
      { replace size with (pos + r) by lia. rewrite <- skipn_skipn_add.
        rewrite skipn_exact by (symmetry; exact Hc). reflexivity. }
      rewrite Hb1, Hi1.
      set (all := firstn pos buf ++ input) in *.
      assert (Hall : length all = pos + length input) by (unfold all; rewrite app_length; lia).
      set (in1 := skipn size all).
      assert (Hin1 : length in1 = pos + length input - size)
        by (unfold in1; rewrite skipn_length; lia).
      fold (lazy_count size (length in1)).
      rewrite (lazy_count_step size (pos + length input)) by lia.
      rewrite <- Hin1.
      set (n1 := lazy_count size (length in1)).
      destruct (lazy_count_bounds size (length in1) Hsz) as (B1 & B2 & B3). fold n1 in B1, B2, B3.
      rewrite take_blocks_chunks by lia.
      cbn [take_blocks app]. fold in1.
      split; [reflexivity|].
      assert (Hr : length (skipn (size * n1) in1) = length in1 - n1 * size)
        by (rewrite skipn_length; lia).
      assert (Hf : length (firstn size all) = size) by (rewrite firstn_length; lia).
      split; [rewrite copy_at_length; [exact Hf|rewrite Hf; lia]|].
      split; [rewrite Hr; cbn [mult]; lia|].
      unfold copy_at. cbn [firstn app plus].
      rewrite firstn_exact by reflexivity.
      unfold in1. rewrite skipn_skipn_add. f_equal. cbn [mult]. lia.
Qed.

Lemma input_lazy_wf b input : bb_wf b -> bb_wf (fst (input_lazy b input)).
Proof.
  intros Hwf. destruct (input_lazy_char b input Hwf) as (_ & Hs & Hp & _).
  unfold bb_wf. rewrite Hs, Hp. destruct Hwf as [_ Hsz].
  pose proof (lazy_count_bounds (bb_size b) (length (bb_content b ++ input)) Hsz). lia.
Qed.

(** emitted blocks have the block size *)
Lemma input_lazy_blocks_length b input :
  bb_wf b -> Forall (fun c => length c = bb_size b) (snd (input_lazy b input)).
Proof.
  intros Hwf. destruct (input_lazy_char b input Hwf) as (Ho & _). rewrite Ho.
  apply take_blocks_Forall_length.
  apply (lazy_count_bounds (bb_size b) (length (bb_content b ++ input))), Hwf.
Qed.

(** emitted blocks followed by the buffered tail = buffered bytes followed by the input *)
Theorem input_lazy_reconstructs b input :
  bb_wf b ->
  concat (snd (input_lazy b input)) ++ bb_content (fst (input_lazy b input))
  = bb_content b ++ input.
Proof.
  intros Hwf. destruct (input_lazy_char b input Hwf) as (Ho & _ & _ & Hc).
  rewrite Ho, Hc, take_blocks_concat. apply firstn_skipn.
Qed.

(** only the buffered bytes matter, not the stale part of the buffer *)
Theorem input_lazy_eqv b b' input :
  bb_wf b -> bb_eqv b b' ->
  snd (input_lazy b input) = snd (input_lazy b' input)
  /\ bb_eqv (fst (input_lazy b input)) (fst (input_lazy b' input)).
Proof.
  intros Hwf (E1 & E2 & E3).
  assert (Hwf' : bb_wf b') by (unfold bb_wf in *; rewrite <- E1, <- E2; exact Hwf).
  destruct (input_lazy_char b input Hwf) as (Ho & Hs & Hp & Hc).
  destruct (input_lazy_char b' input Hwf') as (Ho' & Hs' & Hp' & Hc').
  rewrite <- E1 in Ho', Hs', Hp', Hc'. rewrite <- E3 in Ho', Hp', Hc'.
  split; [congruence|]. unfold bb_eqv. repeat split; congruence.
Qed.

(** feeding [a] then [c] = feeding [a ++ c] *)
Theorem input_lazy_app b a c :
  bb_wf b ->
  let r1 := input_lazy b a in
  let r2 := input_lazy (fst r1) c in
  let r3 := input_lazy b (a ++ c) in
  snd r3 = snd r1 ++ snd r2 /\ bb_eqv (fst r2) (fst r3).
Proof.
  intros Hwf. cbv zeta.
  pose proof (input_lazy_wf b a Hwf) as Hwf1.
  destruct (input_lazy_char b a Hwf) as (Ho1 & Hs1 & Hp1 & Hc1).
  destruct (input_lazy_char _ c Hwf1) as (Ho2 & Hs2 & Hp2 & Hc2).
  destruct (input_lazy_char b (a ++ c) Hwf) as (Ho3 & Hs3 & Hp3 & Hc3).
  rewrite Hs1 in Ho2, Hs2, Hp2, Hc2. rewrite Hc1 in Ho2, Hp2, Hc2.
  destruct Hwf as [Hpos Hsz].
  set (size := bb_size b) in *.
  set (all1 := bb_content b ++ a) in *.
  rewrite app_assoc in Ho3, Hp3, Hc3. fold all1 in Ho3, Hp3, Hc3.
  rewrite app_length in Ho3, Hp3, Hc3.
  destruct (lazy_count_bounds size (length all1) Hsz) as (B1 & B2 & B3).
  set (n1 := lazy_count size (length all1)) in *.
  assert (Hl2 : length (skipn (n1 * size) all1 ++ c) = length all1 - n1 * size + length c)
    by (rewrite app_length, skipn_length; reflexivity).
  rewrite Hl2 in Ho2, Hp2, Hc2.
  rewrite (lazy_count_add size (length all1) (length c) Hsz) in Ho3, Hp3, Hc3. fold n1 in Ho3, Hp3, Hc3.
  set (n2 := lazy_count size (length all1 - n1 * size + length c)) in *.
  destruct (lazy_count_bounds size (length all1 - n1 * size + length c) Hsz) as (C1 & C2 & C3).
  fold n2 in C1, C2, C3.
  split.
  - rewrite Ho3, Ho1, Ho2, take_blocks_add.
    rewrite take_blocks_app_le by lia. rewrite skipn_app_le by lia. reflexivity.
  - unfold bb_eqv. rewrite Hs2, Hs3, Hp2, Hp3, Hc2, Hc3.
    split; [reflexivity|]. split; [lia|].
    replace ((n1 + n2) * size) with (n1 * size + n2 * size) by lia.
    rewrite <- skipn_skipn_add.
    rewrite (skipn_app_le all1 c) by lia. reflexivity.
Qed.

(** [pad_with::<ZeroPadding>] only sees the buffered bytes, and never fails under the invariant *)
Lemma pad_with_zero_char b :
  bb_wf b ->
  pad_with_zero b =
  Some (BB (bb_content b ++ repeat 0%N (bb_size b - bb_pos b)) 0,
        bb_content b ++ repeat 0%N (bb_size b - bb_pos b)).
Proof.
  intros [Hpos Hsz]. unfold pad_with_zero.
  destruct (Nat.ltb_spec (bb_size b) (bb_pos b)); [lia|]. reflexivity.
Qed.

Theorem pad_with_zero_eqv b b' :
  bb_wf b -> bb_eqv b b' -> pad_with_zero b = pad_with_zero b'.
Proof.
  intros Hwf (E1 & E2 & E3).
  assert (Hwf' : bb_wf b') by (unfold bb_wf in *; rewrite <- E1, <- E2; exact Hwf).
  rewrite (pad_with_zero_char b Hwf), (pad_with_zero_char b' Hwf'). now rewrite E1, E2, E3.
Qed.
