(** Composition of the two families of theorems about the hashers:
      (1) conformance, one-shot: "model digest of a message = specification digest"
          (Props/C04..C07), under a bound on the message;
      (2) histories, generic: every history of update / clone / reset / finalize_reset /
          finalize returns one-shot digests (Props/C08, any [hasher_ok] record).
    This file has what is common to the four families: the predicate "every message a
    history hashes satisfies [P]", the transfer lemma, and a sufficient condition in terms
    of the bytes passed to [Update] alone. *)
From Coq Require Import NArith List Arith Lia Bool.
From CC Require Import Lib.Words Lib.Bytes Lib.ListX Model.BlockBuffer Model.Hasher
  Proofs.BlockBufferLazy Proofs.BlockBufferEager Proofs.Hasher.
Import ListNotations.

(** the messages a history hashes, in order, with their slots: the reference machine run
    with the identity as "digest" *)
Definition hashed (A : stable) (ops : list op) : list (nat * list N) :=
  snd (srun (fun m => m) A ops).

(** every message that [srun] would hash in the history [ops] (starting from one new
    instance) satisfies [P] *)
Definition ops_bounded (P : list N -> Prop) (ops : list op) : Prop :=
  Forall (fun p => P (snd p)) (hashed [Some []] ops).

Section Transfer.
Context {digest : Type}.

Lemma sexec_map (f : list N -> digest) A o :
  fst (sexec f A o) = fst (sexec (fun m => m) A o)
  /\ snd (sexec f A o) = map (fun p => (fst p, f (snd p))) (snd (sexec (fun m => m) A o)).
Proof.
  destruct o as [k d|k|k|k|k]; cbn [sexec]; destruct (slive A k); cbn [fst snd map]; split; reflexivity.
Qed.

Lemma srun_map (f : list N -> digest) ops : forall A,
  fst (srun f A ops) = fst (srun (fun m => m) A ops)
  /\ snd (srun f A ops) = map (fun p => (fst p, f (snd p))) (hashed A ops).
Proof.
  unfold hashed.
  induction ops as [|o r IH]; intros A; cbn [srun fst snd map]; [split; reflexivity|].
  destruct (sexec_map f A o) as [E1 E2]. rewrite E1.
  destruct (IH (fst (sexec (fun m => m) A o))) as [I1 I2].
  split; [exact I1|]. rewrite E2, I2, map_app. reflexivity.
Qed.

(** two one-shot functions that agree on the hashed messages give the same outputs *)
Lemma srun_ext (P : list N -> Prop) (f g : list N -> digest) A ops :
  (forall m, P m -> f m = g m) ->
  Forall (fun p => P (snd p)) (hashed A ops) ->
  snd (srun f A ops) = snd (srun g A ops).
Proof.
  intros Hfg HP. destruct (srun_map f ops A) as [_ ->]. destruct (srun_map g ops A) as [_ ->].
  induction HP as [|p l Hp _ IH]; cbn [map]; [reflexivity|].
  rewrite IH, (Hfg _ Hp). reflexivity.
Qed.

(** THE COMPOSITION: a record that meets the hypotheses of C08 and whose one-shot
    function is the specified digest on messages satisfying [P] returns, in every history
    that only hashes messages satisfying [P], the specified digests of the absorbed bytes *)
Theorem compose_history {st} (h : hasher st digest) (spec : list N -> digest) (P : list N -> Prop) :
  hasher_ok h ->
  (forall m, P m -> h_oneshot h m = spec m) ->
  forall ops, ops_bounded P ops ->
    snd (run h [Some (h_new h)] ops) = snd (srun spec [Some []] ops).
Proof.
  intros Hok Hs ops HP.
  rewrite (hasher_history_correct h Hok ops).
  exact (srun_ext P _ _ _ _ Hs HP).
Qed.

(** chunked form: any partition of a message satisfying [P] into update calls *)
Theorem compose_chunks {st} (h : hasher st digest) (spec : list N -> digest) (P : list N -> Prop) :
  hasher_ok h ->
  (forall m, P m -> h_oneshot h m = spec m) ->
  forall pieces, P (concat pieces) ->
    h_finalize h (fold_left (h_update h) pieces (h_new h)) = spec (concat pieces).
Proof.
  intros Hok Hs pieces HP. rewrite (chunking_invariant h Hok pieces). now apply Hs.
Qed.
End Transfer.

(** * a sufficient condition that only looks at the [Update] operations

    Every hashed message is made of pieces passed to [Update], each used at most once per
    slot: it is no longer than all update data together, and its bytes are bytes of
    update data. *)
Fixpoint update_bytes (ops : list op) : list N :=
  match ops with
  | [] => []
  | Update _ d :: r => d ++ update_bytes r
  | _ :: r => update_bytes r
  end.

Definition slots_small (Q : N -> Prop) (n : nat) (A : stable) : Prop :=
  Forall (fun om => match om with Some m => length m <= n /\ Forall Q m | None => True end) A.

Lemma slots_small_live Q n A k m : slots_small Q n A -> slive A k = Some m -> length m <= n /\ Forall Q m.
Proof.
  unfold slive. intros HA. destruct (nth_error A k) as [[x|]|] eqn:E; intros [= <-].
  apply nth_error_In in E. unfold slots_small in HA. rewrite Forall_forall in HA. exact (HA _ E).
Qed.

Lemma slots_small_upd Q n A k x :
  slots_small Q n A -> match x with Some m => length m <= n /\ Forall Q m | None => True end ->
  slots_small Q n (upd k x A).
Proof.
  unfold slots_small. intros HA Hx. revert k. induction HA as [|y l Hy HA IH]; intros [|k]; cbn [upd];
    constructor; auto.
Qed.

Lemma slots_small_mono Q n n' A : n <= n' -> slots_small Q n A -> slots_small Q n' A.
Proof.
  unfold slots_small. intros Hn HA. eapply Forall_impl; [|exact HA].
  intros [m|]; [|trivial]. intros [H1 H2]. split; [lia|exact H2].
Qed.

Lemma hashed_small (Q : N -> Prop) ops : forall A n,
  slots_small Q n A -> Forall Q (update_bytes ops) ->
  Forall (fun p => length (snd p) <= n + length (update_bytes ops) /\ Forall Q (snd p)) (hashed A ops).
Proof.
  unfold hashed.
  induction ops as [|o r IH]; intros A n HA HQ; cbn [srun snd]; [constructor|].
  apply Forall_app.
  destruct o as [k d|k|k|k|k]; cbn [sexec update_bytes] in *;
    destruct (slive A k) as [m|] eqn:Em; cbn [fst snd].
  - (* Update *)
    apply Forall_app in HQ. destruct HQ as [Qd Qr].
    destruct (slots_small_live _ _ _ _ _ HA Em) as [L1 L2].
    split; [constructor|].
    rewrite app_length.
    assert (HA' : slots_small Q (n + length d) (upd k (Some (m ++ d)) A)).
    { apply slots_small_upd; [eapply slots_small_mono; [|exact HA]; lia|].
      split; [rewrite app_length; lia|apply Forall_app; now split]. }
    specialize (IH _ _ HA' Qr). eapply Forall_impl; [|exact IH].
    intros p [H1 H2]. split; [lia|exact H2].
  - apply Forall_app in HQ. destruct HQ as [Qd Qr]. split; [constructor|].
    specialize (IH _ _ HA Qr). eapply Forall_impl; [|exact IH].
    intros p [H1 H2]. rewrite app_length. split; [lia|exact H2].
  - (* Clone *)
    split; [constructor|]. apply IH; [|exact HQ].
    apply Forall_app. split; [exact HA|]. constructor; [|constructor].
    exact (slots_small_live _ _ _ _ _ HA Em).
  - split; [constructor|]. now apply IH.
  - (* Reset *)
    split; [constructor|]. apply IH; [|exact HQ].
    apply slots_small_upd; [exact HA|]. cbn [length]. split; [lia|constructor].
  - split; [constructor|]. now apply IH.
  - (* FinalizeReset *)
    destruct (slots_small_live _ _ _ _ _ HA Em) as [L1 L2].
    split; [constructor; [cbn [snd]; split; [lia|exact L2]|constructor]|].
    apply IH; [|exact HQ].
    apply slots_small_upd; [exact HA|]. cbn [length]. split; [lia|constructor].
  - split; [constructor|]. now apply IH.
  - (* Finalize *)
    destruct (slots_small_live _ _ _ _ _ HA Em) as [L1 L2].
    split; [constructor; [cbn [snd]; split; [lia|exact L2]|constructor]|].
    apply IH; [|exact HQ].
    apply slots_small_upd; [exact HA|trivial].
  - split; [constructor|]. now apply IH.
Qed.

(** if [P] holds of every message of bytes satisfying [Q] that is no longer than all the
    update data of the history together, the history is bounded *)
Theorem ops_bounded_of_update_bytes (P : list N -> Prop) (Q : N -> Prop) ops :
  Forall Q (update_bytes ops) ->
  (forall m, length m <= length (update_bytes ops) -> Forall Q m -> P m) ->
  ops_bounded P ops.
Proof.
  intros HQ HP. unfold ops_bounded.
  assert (H0 : slots_small Q 0 [Some []]).
  { constructor; [|constructor]. cbn [length]. split; [lia|constructor]. }
  pose proof (hashed_small Q ops _ _ H0 HQ) as H.
  eapply Forall_impl; [|exact H]. intros p [H1 H2]. apply HP; [exact H1|exact H2].
Qed.
