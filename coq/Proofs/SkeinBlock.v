(** One UBI step: [process_block] of the Skein model = [Spec.Skein.ubi_block]
    with the tweak of the specification (uses C09 for the cipher).

    The model keeps the tweak as the pair [(t.0, t.1)]; the specification as a
    128-bit number.  [t1w ty first final] is the upper word as the code builds
    it ([T1_BLK_TYPE_*], [T1_FLAG_FIRST], [T1_FLAG_FINAL]). *)
From Coq Require Import NArith List Lia Arith Bool.
From CC Require Import Lib.Words Lib.Bytes Lib.ListX.
From CC Require Import Model.Threefish Model.BlockBuffer Model.Skein.
From CC Require Import Proofs.Threefish64.
From CC Require Spec.Threefish Spec.Skein.
Import ListNotations.
Module SS := Spec.Skein.
Local Open Scope N_scope.

(** * the three instantiations of [define_hasher!] *)
Definition std_variant (v : variant) : Prop := v = skein256 \/ v = skein512 \/ v = skein1024.

Definition sp (v : variant) : SS.sparams :=
  if Nat.eqb (v_bytes v) 32 then SS.skein256p else if Nat.eqb (v_bytes v) 64 then SS.skein512p
  else SS.skein1024p.

Record variant_facts (v : variant) : Prop := {
  vf_tf : v_tf v = threefish256 \/ v_tf v = threefish512 \/ v_tf v = threefish1024;
  vf_spec : spec_of (v_tf v) = SS.tf (sp v);
  vf_nb : SS.nb (sp v) = v_bytes v;
  vf_words : (8 * n_w (v_tf v))%nat = v_bytes v;
  vf_bits : v_bits v / 8 = N.of_nat (v_bytes v);
  vf_ge : (32 <= v_bytes v)%nat;
  vf_le : (v_bytes v <= 128)%nat;
  vf_mod8 : (v_bytes v mod 8 = 0)%nat }.

Lemma std_variant_facts v : std_variant v -> variant_facts v.
Proof.
  intros [-> | [-> | ->]]; constructor; cbn; try reflexivity; auto; lia.
Qed.

(** * bytes: xor of the u64 views = byte-wise xor *)
Lemma land_lxor_distr_l a b c : N.land (N.lxor a b) c = N.lxor (N.land a c) (N.land b c).
Proof.
  apply N.bits_inj; intros i. rewrite N.land_spec, !N.lxor_spec, !N.land_spec.
  destruct (N.testbit a i), (N.testbit b i), (N.testbit c i); reflexivity.
Qed.

Lemma le_split_lxor n x y : le_split n (N.lxor x y) = xor_bytes (le_split n x) (le_split n y).
Proof.
  revert x y; induction n as [|n IH]; intros x y; cbn [le_split xor_bytes]; [reflexivity|].
  rewrite land_lxor_distr_l, N.shiftr_lxor, IH. reflexivity.
Qed.

Lemma xor_bytes_app a1 a2 b1 b2 :
  length a1 = length b1 -> xor_bytes (a1 ++ a2) (b1 ++ b2) = xor_bytes a1 b1 ++ xor_bytes a2 b2.
Proof.
  revert b1; induction a1 as [|x a1 IH]; intros [|y b1] H; cbn in H; try discriminate; [reflexivity|].
  cbn [app xor_bytes]. rewrite IH by congruence. reflexivity.
Qed.

Lemma xor_bytes_length a b : length a = length b -> length (xor_bytes a b) = length a.
Proof.
  revert b; induction a as [|x a IH]; intros [|y b] H; cbn in H; try discriminate; [reflexivity|].
  cbn [xor_bytes length]. rewrite IH by congruence. reflexivity.
Qed.

Lemma xor_bytes_bytes a b : Forall is_byte a -> Forall is_byte b -> Forall is_byte (xor_bytes a b).
Proof.
  intros Ha; revert b; induction Ha as [|x a Hx Ha IH]; intros b Hb; [constructor|].
  destruct Hb as [|y b Hy Hb]; cbn [xor_bytes]; constructor; [|now apply IH].
  unfold is_byte in *. change 256 with (2 ^ 8). apply lxor_lt; assumption.
Qed.

Lemma xor_chunks (ca cb : list (list N)) :
  length ca = length cb ->
  Forall (fun c => length c = 8%nat) ca -> Forall (fun c => length c = 8%nat) cb ->
  Forall (Forall is_byte) ca -> Forall (Forall is_byte) cb ->
  bytes_le 8 (map2 N.lxor (map le_join ca) (map le_join cb)) = xor_bytes (concat ca) (concat cb).
Proof.
  revert cb; induction ca as [|a ca IH]; intros [|b cb] Hl La Lb Ba Bb; cbn in Hl; try discriminate;
    [reflexivity|].
  inversion La; inversion Lb; inversion Ba; inversion Bb; subst.
  cbn [map map2 bytes_le flat_map concat].
  rewrite xor_bytes_app by congruence.
  f_equal.
  - rewrite le_split_lxor.
    replace 8%nat with (length a) at 1 by assumption. rewrite le_split_join by assumption.
    replace 8%nat with (length b) at 1 by assumption. rewrite le_split_join by assumption.
    reflexivity.
  - apply IH; auto.
Qed.

Lemma xor_block_eq_xor_bytes a b :
  length a = length b -> (length a mod 8 = 0)%nat -> Forall is_byte a -> Forall is_byte b ->
  xor_block a b = xor_bytes a b.
Proof.
  intros Hl Hm Ha Hb. unfold xor_block, words_le.
  rewrite xor_chunks.
  - rewrite !chunks_exact_concat by (try lia; congruence). reflexivity.
  - rewrite !chunks_exact_length by lia. now rewrite Hl.
  - apply chunks_exact_Forall_length.
  - apply chunks_exact_Forall_length.
  - now apply chunks_exact_Forall_bytes.
  - now apply chunks_exact_Forall_bytes.
Qed.

Lemma bytes_le_bytes k ws : Forall is_byte (bytes_le k ws).
Proof.
  unfold bytes_le. induction ws as [|w ws IH]; cbn [flat_map]; [constructor|].
  apply Forall_app. split; [apply le_split_bytes|exact IH].
Qed.

Lemma m_encrypt_length c nu key t0 t1 block :
  length block = (8 * n_w c)%nat -> length (m_encrypt c nu key t0 t1 block) = (8 * n_w c)%nat.
Proof.
  intros Hl. unfold m_encrypt. rewrite bytes_le_length, encrypt_words_length; [reflexivity| |].
  - apply last_row_length.
  - rewrite words_le_length by lia. rewrite Hl, Nat.mul_comm. apply Nat.div_mul. discriminate.
Qed.

(** * tweak words *)
Definition t1w (ty : N) (first final : bool) : N :=
  N.shiftl ty 56 + (if first then N.shiftl 1 62 else 0) + (if final then N.shiftl 1 63 else 0).

Lemma tweak_words pos ty first final :
  SS.tweak pos ty first final = pos + t1w ty first final * 2 ^ 64.
Proof.
  unfold SS.tweak, t1w. rewrite !N.shiftl_mul_pow2.
  change (2 ^ 120) with (2 ^ 56 * 2 ^ 64). change (2 ^ 126) with (2 ^ 62 * 2 ^ 64).
  change (2 ^ 127) with (2 ^ 63 * 2 ^ 64).
  destruct first, final; lia.
Qed.

Lemma tweak_lo pos ty first final : pos < 2 ^ 64 -> SS.tweak pos ty first final mod 2 ^ 64 = pos.
Proof.
  intros H. rewrite tweak_words, N.mod_add by (apply pow2_nz). now apply N.mod_small.
Qed.

Lemma tweak_hi pos ty first final : pos < 2 ^ 64 -> SS.tweak pos ty first final / 2 ^ 64 = t1w ty first final.
Proof.
  intros H. rewrite tweak_words, N.div_add by (apply pow2_nz). rewrite N.div_small by assumption. lia.
Qed.

Definition std_type (ty : N) : Prop := ty = SS.T_CFG \/ ty = SS.T_MSG \/ ty = SS.T_OUT.

(** the constants of lib.rs are these words *)
Lemma t1_cfg : N.lor (N.lor T1_FLAG_FIRST T1_BLK_TYPE_CFG) T1_FLAG_FINAL = t1w SS.T_CFG true true.
Proof. reflexivity. Qed.
Lemma t1_out : N.lor (N.lor T1_FLAG_FIRST T1_BLK_TYPE_OUT) T1_FLAG_FINAL = t1w SS.T_OUT true true.
Proof. reflexivity. Qed.
Lemma t1_msg : N.lor T1_FLAG_FIRST T1_BLK_TYPE_MSG = t1w SS.T_MSG true false.
Proof. reflexivity. Qed.
Lemma t1_msg_nofirst : T1_BLK_TYPE_MSG = t1w SS.T_MSG false false.
Proof. reflexivity. Qed.

(** [t.1 &= !T1_FLAG_FIRST], [t.1 |= T1_FLAG_FINAL] *)
Lemma t1w_clear_first ty first final :
  std_type ty -> N.land (t1w ty first final) (notw 64 T1_FLAG_FIRST) = t1w ty false final.
Proof. intros [-> | [-> | ->]]; destruct first, final; reflexivity. Qed.
Lemma t1w_set_final ty first final :
  std_type ty -> N.lor (t1w ty first final) T1_FLAG_FINAL = t1w ty first true.
Proof. intros [-> | [-> | ->]]; destruct first, final; reflexivity. Qed.

(** * [process_block] *)
Lemma add_u64_ok prof a b : a + b < 2 ^ 64 -> add_u64 prof a b = Ok (a + b).
Proof.
  intros H. unfold add_u64, two64. change 0x10000000000000000 with (2 ^ 64).
  destruct (N.leb_spec (2 ^ 64) (a + b)); [lia|reflexivity].
Qed.
Lemma add_u64_overflow prof a b :
  2 ^ 64 <= a + b ->
  add_u64 prof a b = match prof with Debug => Panic | Release => Ok ((a + b) mod 2 ^ 64) end.
Proof.
  intros H. unfold add_u64, two64. change 0x10000000000000000 with (2 ^ 64).
  destruct (N.leb_spec (2 ^ 64) (a + b)); [|lia]. destruct prof; [reflexivity|].
  now rewrite wrap_mod.
Qed.
Lemma mul_u64_ok prof a b : a * b < 2 ^ 64 -> mul_u64 prof a b = Ok (a * b).
Proof.
  intros H. unfold mul_u64, two64. change 0x10000000000000000 with (2 ^ 64).
  destruct (N.leb_spec (2 ^ 64) (a * b)); [lia|reflexivity].
Qed.

(** the state transformation of one block, whatever the position word is *)
Lemma process_block_step prof nu v s block add ty first final :
  std_variant v -> std_type ty ->
  st_t1 s = t1w ty first final ->
  length block = v_bytes v -> Forall is_byte block ->
  process_block prof nu v s block add =
  bind (add_u64 prof (st_t0 s) add) (fun t0 =>
    Ok (St t0 (t1w ty false final)
           (xor_bytes (Spec.Threefish.spec_encrypt (SS.tf (sp v)) (st_x s) t0 (t1w ty first final) block)
                      block))).
Proof.
  intros Hv Hty Ht1 Hl Hb. pose proof (std_variant_facts v Hv) as F.
  unfold process_block. destruct (add_u64 prof (st_t0 s) add) as [t0|]; [|reflexivity].
  cbn [bind]. rewrite Ht1, t1w_clear_first by assumption.
  assert (Hl8 : length block = (8 * n_w (v_tf v))%nat) by (rewrite (vf_words v F); exact Hl).
  rewrite xor_block_eq_xor_bytes.
  - rewrite threefish_encrypt_eq_spec by (try exact Hl8; apply (vf_tf v F)).
    rewrite (vf_spec v F). reflexivity.
  - rewrite m_encrypt_length by exact Hl8. congruence.
  - rewrite m_encrypt_length by exact Hl8. rewrite (vf_words v F). apply (vf_mod8 v F).
  - apply bytes_le_bytes.
  - exact Hb.
Qed.

(** C05_ubi_block_eq_spec: below 2^64 the block is one UBI step with the specified tweak *)
Theorem process_block_eq_spec prof nu v s block add ty first final :
  std_variant v -> std_type ty ->
  st_t1 s = t1w ty first final ->
  st_t0 s + add < 2 ^ 64 ->
  length block = v_bytes v -> Forall is_byte block ->
  process_block prof nu v s block add =
  Ok (St (st_t0 s + add) (t1w ty false final)
         (SS.ubi_block (sp v) (st_x s) (SS.tweak (st_t0 s + add) ty first final) block)).
Proof.
  intros Hv Hty Ht1 Hlt Hl Hb.
  rewrite (process_block_step prof nu v s block add ty first final) by assumption.
  rewrite add_u64_ok by assumption. cbn [bind]. unfold SS.ubi_block.
  rewrite tweak_lo, tweak_hi by assumption. reflexivity.
Qed.

(** at and above 2^64 the debug build panics and the release build wraps the position *)
Theorem process_block_overflow prof nu v s block add ty first final :
  std_variant v -> std_type ty ->
  st_t1 s = t1w ty first final ->
  2 ^ 64 <= st_t0 s + add ->
  length block = v_bytes v -> Forall is_byte block ->
  process_block prof nu v s block add =
  match prof with
  | Debug => Panic
  | Release =>
      Ok (St ((st_t0 s + add) mod 2 ^ 64) (t1w ty false final)
             (SS.ubi_block (sp v) (st_x s) (SS.tweak ((st_t0 s + add) mod 2 ^ 64) ty first final) block))
  end.
Proof.
  intros Hv Hty Ht1 Hge Hl Hb.
  rewrite (process_block_step prof nu v s block add ty first final) by assumption.
  rewrite add_u64_overflow by assumption. destruct prof; [reflexivity|]. cbn [bind].
  unfold SS.ubi_block.
  assert (Hm : (st_t0 s + add) mod 2 ^ 64 < 2 ^ 64) by (apply N.mod_lt, pow2_nz).
  rewrite tweak_lo, tweak_hi by assumption. reflexivity.
Qed.

Lemma ubi_block_length v h T m :
  std_variant v -> length m = v_bytes v -> length (SS.ubi_block (sp v) h T m) = v_bytes v.
Proof.
  intros Hv Hl. pose proof (std_variant_facts v Hv) as F. unfold SS.ubi_block.
  assert (Hl8 : length m = (8 * n_w (v_tf v))%nat) by (rewrite (vf_words v F); exact Hl).
  rewrite <- (vf_spec v F).
  rewrite <- (threefish_encrypt_eq_spec (v_tf v) false) by (try exact Hl8; apply (vf_tf v F)).
  rewrite xor_bytes_length; rewrite m_encrypt_length by exact Hl8; congruence.
Qed.

Lemma ubi_block_bytes p h T m : Forall is_byte m -> Forall is_byte (SS.ubi_block p h T m).
Proof.
  intros Hm. unfold SS.ubi_block. apply xor_bytes_bytes; [|exact Hm].
  unfold Spec.Threefish.spec_encrypt. apply bytes_le_bytes.
Qed.
