(** Audit follow-ups, part 4 (audit C03-F2): the remaining dispatch site of c2-chacha composed.

    rustcrypto_impl.rs:273-293, under [dispatch_light128!]:

      fn init_chacha(key: &GenericArray<u8, U32>, nonce: &[u8]) -> ChaCha {
          let ctr_nonce = [0, if nonce.len() == 12 { u32::from_le_bytes(nonce[0..4]) } else { 0 },
                           u32::from_le_bytes(nonce[nonce.len() - 8..nonce.len() - 4]),
                           u32::from_le_bytes(nonce[nonce.len() - 4..])];
          let key0: Mach::u32x4 = m.read_le(&key[..16]);
          let key1: Mach::u32x4 = m.read_le(&key[16..]);
          ChaCha { b: key0.into(), c: key1.into(), d: ctr_nonce.into() }
      }

    The only Machine operations are [m.read_le] and [into] of [u32x4]; [ctr_nonce.into()]
    ([u32; 4] -> vec128_storage) and [from_le_bytes] are scalar code, as in [x_init_chacha_x] of
    Model/MachineFull.v. With this, every dispatch site of the crate (refill_narrow,
    refill_narrow_rounds, refill_wide, init_chacha, init_chacha_x, pos64/seek) is composed. *)
From Coq Require Import NArith List Bool Lia Arith.
From CC Require Import Lib.Words Lib.Bytes Lib.ListX Spec.Lanes Model.PpvSoft.
From CC Require Import Model.Dispatch Model.Machine Model.MachineFull Model.ChaChaGuts Model.ChaChaStream.
From CC Require Import Proofs.Dispatch Proofs.Machine Proofs.MachineFullLib Proofs.MachineFullChaCha Proofs.MachineFullReal.
From CC Require Import Proofs.FollowupsPortable.
Import ListNotations.
Local Open Scope N_scope.

(** [init_chacha] over the extended machine record (the machine chosen by dispatch_light128!) *)
Definition x_init_chacha (m : xmachine) (key nonce : list N) : cstore :=
  let n2 := xm_n m in
  let len := length nonce in
  let ctr_nonce := [0; if Nat.eqb len 12 then le_join (firstn 4 nonce) else 0;
                    le_join (firstn 4 (skipn (len - 8) nonce)); le_join (skipn (len - 4) nonce)] in
  let key0 := v4_read_le n2 (firstn 16 key) in
  let key1 := v4_read_le n2 (skipn 16 key) in
  CSt (v4_into n2 key0) (v4_into n2 key1) (bytes_le 4 ctr_nonce).

(** the same in the outcome monad over an outcome machine (Proofs/FollowupsPortable.v) *)
Definition oxm_init_chacha {m} (om : oxmachine m) (key nonce : list N) : outcome cstore :=
  let len := length nonce in
  let ctr_nonce := [0; if Nat.eqb len 12 then le_join (firstn 4 nonce) else 0;
                    le_join (firstn 4 (skipn (len - 8) nonce)); le_join (skipn (len - 4) nonce)] in
  let* key0 := o4_read_le (ox_n om) (firstn 16 key) in
  let* key1 := o4_read_le (ox_n om) (skipn 16 key) in
  let* b := o4_into (ox_n om) key0 in
  let* c := o4_into (ox_n om) key1 in
  Ok (CSt b c (bytes_le 4 ctr_nonce)).

Lemma key_halves key : bytes_ok 32 key -> bytes_ok 16 (firstn 16 key) /\ bytes_ok 16 (skipn 16 key).
Proof.
  intros [Lk Bk]. split.
  - split; [rewrite firstn_length, Lk; reflexivity | now apply Forall_firstn'].
  - split; [rewrite skipn_length, Lk; reflexivity | now apply Forall_skipn'].
Qed.

(** on every refining machine [init_chacha] is the model's (any nonce: the model has the same
    slicing; the Rust slices panic for fewer than 8 nonce bytes, which the typed constructors -
    8- and 12-byte nonces - exclude) *)
Theorem init_chacha_is_model : forall m, xmachine_refines m ->
  forall key nonce, bytes_ok 32 key -> x_init_chacha m key nonce = store_of (init_chacha key nonce).
Proof.
  intros m X key nonce Hk. destruct (key_halves key Hk) as [K0 K1].
  unfold x_init_chacha, init_chacha, store_of. cbn [cb cc cd].
  rewrite !(read_into _ _ (xr_n _ X)) by assumption.
  now rewrite (proj2 (bytes16_words4 _ K0)), (proj2 (bytes16_words4 _ K1)).
Qed.

Theorem init_chacha_machine_indep : forall m, xmachine_refines m ->
  forall key nonce, bytes_ok 32 key -> x_init_chacha m key nonce = x_init_chacha lane_xm key nonce.
Proof.
  intros m X key nonce Hk. rewrite (init_chacha_is_model m X key nonce Hk).
  now rewrite (init_chacha_is_model lane_xm lane_xm_refines key nonce Hk).
Qed.

(** the six real back ends, both profiles *)
Theorem real_init_chacha_is_model : forall p b key nonce, bytes_ok 32 key ->
  x_init_chacha (real_xinst p b) key nonce = store_of (init_chacha key nonce).
Proof. intros p b. exact (init_chacha_is_model _ (real_xinst_refines p b)). Qed.

(** = the stream constructors' state for the 8-byte (djb) and 12-byte (IETF) nonce variants
    (the XChaCha one is C03_real_xchacha_init_is_model) *)
Theorem real_init_chacha_is_stream_init : forall p b v drounds key nonce, v = VDjb \/ v = VIetf ->
  bytes_ok 32 key ->
  x_init_chacha (real_xinst p b) key nonce = store_of (init_of v drounds key nonce).
Proof.
  intros p b v drounds key nonce [-> | ->] Hk; cbn [init_of]; now apply real_init_chacha_is_model.
Qed.

(** under the selection: in every configuration with SSE2 detected, dispatch_light128! runs a back
    end and the result is the model's; any two configurations agree *)
Theorem config_init_chacha_is_model : forall c, f_sse2 (xcpu c) = true ->
  forall key nonce, bytes_ok 32 key ->
    on_x MLight128 (fun m => x_init_chacha m key) c nonce = Some (store_of (init_chacha key nonce)).
Proof.
  intros c Hc key nonce Hk.
  apply (on_x_is MLight128 (fun m => x_init_chacha m key) (fun nonce => store_of (init_chacha key nonce))
           (fun _ => True)); [|assumption | exact I].
  intros p b x _. now apply real_init_chacha_is_model.
Qed.

(** outcome form: neither call panics on any back end *)
Theorem init_chacha_returns : forall m (om : oxmachine m), xmachine_refines m -> oxm_agree m om ->
  forall key nonce, bytes_ok 32 key -> oxm_init_chacha om key nonce = Ok (x_init_chacha m key nonce).
Proof.
  intros m om X A key nonce Hk. destruct (key_halves key Hk) as [K0 K1].
  pose proof (xr_n _ X) as NR. pose proof (ag_n _ _ A) as AN.
  unfold oxm_init_chacha, x_init_chacha.
  rewrite (a4_read_le _ _ _ AN _ K0). cbn [obind]. rewrite (a4_read_le _ _ _ AN _ K1). cbn [obind].
  rewrite (a4_into _ _ _ AN) by exact (proj1 (nr_read_le _ _ NR _ K0)). cbn [obind].
  rewrite (a4_into _ _ _ AN) by exact (proj1 (nr_read_le _ _ NR _ K1)). reflexivity.
Qed.

Theorem real_init_chacha_returns : forall p b key nonce, bytes_ok 32 key ->
  oxm_init_chacha (real_oxm p b) key nonce = Ok (store_of (init_chacha key nonce)).
Proof.
  intros p b key nonce Hk.
  rewrite (init_chacha_returns _ _ (real_xinst_refines p b) (real_oxm_agree p b) key nonce Hk).
  now rewrite (real_init_chacha_is_model p b key nonce Hk).
Qed.

(** non-vacuity: RFC 7539 2.3.2 key and nonce through the SSE2 and the portable machine *)
Example init_chacha_runs :
  let key := map N.of_nat (seq 0 32) in
  let nonce := [0; 0; 0; 9; 0; 0; 0; 0x4a; 0; 0; 0; 0] in
  x_init_chacha (real_xinst Debug SSE2) key nonce = x_init_chacha (real_xinst Release Generic) key nonce /\
  st_d (x_init_chacha (real_xinst Debug AVX2) key nonce) = bytes_le 4 [0; 0x09000000; 0x4a000000; 0] /\
  oxm_init_chacha (generic_oxm Debug) (firstn 31 key) nonce = Panic.
Proof. vm_compute. repeat split; reflexivity. Qed.

Print Assumptions init_chacha_is_model.
Print Assumptions real_init_chacha_is_model.
Print Assumptions real_init_chacha_is_stream_init.
Print Assumptions config_init_chacha_is_model.
Print Assumptions real_init_chacha_returns.
