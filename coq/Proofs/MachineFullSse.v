(** C03, machine-framing: the extended Machine of the x86 SSE-family back ends of ppv-lite86,
    [sse_xm s3 s4] over [sse_m s3] (Proofs/MachineInstSse.v), built from the intrinsic-level model
    Model/PpvSse.v: storage conversions ([def_vec!]: [unpack]/[into] are the identity on the 16
    bytes; [x2]/[x4]: the registers in memory order), [Vec4<u32>::extract/insert] (S4-dependent
    code paths), [StoreBytes::write_le/write_be], [u64x2] ([from_lanes] S4-dependent, [+]),
    [u64x2x4 = x4<u64x2_sse2>], [u32x4x4 = x4<u32x4_sse2>] ([from_lanes], [to_lanes],
    [transpose4], [write_le]), unaligned loads of [u128x1]. [s3]: SSSE3 available, [s4]: SSE4.1
    available. Every field is discharged with the C12/C13 theorems (Proofs/PpvSse*.v, PpvStore.v). *)
From Coq Require Import NArith List Bool Lia Arith.
From CC Require Import Lib.Words Lib.Bytes Lib.ListX Spec.Lanes Model.Intrinsics Model.PpvSse.
From CC Require Import Model.Machine Model.MachineFull.
From CC Require Import Proofs.Machine Proofs.MachineBytes Proofs.MachineSse Proofs.MachineInstLib Proofs.MachineInstSse.
From CC Require Import Proofs.IntrinsicsLemmas Proofs.PpvSseWords Proofs.PpvSseMove Proofs.PpvStore.
From CC Require Import Proofs.MachineFullLib.
Import ListNotations.
Local Open Scope N_scope.

(** [ptr::read_unaligned(p as *const u128x1_sse2)]: the 16 bytes at [p] are the register *)
Definition sse_read_unaligned (bs : list N) : reg := bs.

(** * u32x4 *)
Definition sse_nops (s3 s4 : bool) : nops (sse_u32x4_vops s3) :=
  NOps (sse_u32x4_vops s3)
       sse_unpack sse_into_storage
       (fun a i => unwrap 0 (u32x4_extract s4 a i))
       (fun a v i => unwrap [] (u32x4_insert s4 a v i))
       (fun a => unwrap [] (sse_write_le a 16))
       (fun a => unwrap [] (sse_write_be (u32x4_bswap s3) a 16))
       (fun bs => unwrap [] (sse_read_le bs)).

Lemma in4 : In 4%nat [4; 8; 16]%nat. Proof. cbn; auto. Qed.

Lemma sse_nops_refines s3 s4 : nops_refines _ (sse_nops s3 s4).
Proof.
  constructor; unfold rel;
    cbn [sse_u32x4_vops v_wf v_rep sse_nops v4_unpack v4_into v4_extract v4_insert v4_write_le v4_write_be v4_read_le].
  - exact wf16_ok.
  - intros st Hst. split; [exact Hst | reflexivity].
  - intros a Wa. symmetry. apply bytes16_words4, Wa.
  - intros a i Wa Hi. rewrite sse_u32x4_extract by exact Wa.
    apply N.ltb_lt in Hi. rewrite Hi. reflexivity.
  - intros a v i Wa Hv Hi. rewrite sse_u32x4_insert by exact Wa.
    apply N.ltb_lt in Hi. rewrite Hi. cbn [unwrap]. unfold v_insert.
    apply ok4_bytes. apply ok_upd; [apply wf16_ok, Wa | exact Hv].
  - intros a Wa. destruct (sse_read_write_le_be 4 s3 in4) as (_ & _ & _ & H).
    rewrite (proj1 (H a Wa)). reflexivity.
  - intros a Wa. destruct (sse_read_write_le_be 4 s3 in4) as (_ & _ & _ & H).
    change (u32x4_bswap s3) with (bswap_of 4 s3). rewrite (proj2 (H a Wa)). reflexivity.
  - intros bs Hbs. unfold sse_read_le. rewrite (proj1 Hbs). cbn [Nat.eqb unwrap].
    split; [exact Hbs | reflexivity].
Qed.

(** * u64x2 and u64x2x4 = x4<u64x2_sse2> *)
Definition sse_dops (s4 : bool) : dops :=
  DOps reg (wf 16) (words_le 8) (u64x2_from_lanes s4) sse_unpack sse_into_storage u64x2_add
       (list reg) (lwf (wf 16) 4) (lrep (words_le 8))
       (fun a b c d => xn_from_lanes [a; b; c; d]) (xn_binop u64x2_add) xn_into_storage.

Lemma wf16_ok64 a : wf 16 a -> words_ok 64 2 (words_le 8 a).
Proof. apply (reg_ok 8 2 k8' eq_refl). Qed.

Lemma u64x2_add_rel a b : wf 16 a -> wf 16 b ->
  wf 16 (u64x2_add a b) /\ words_le 8 (u64x2_add a b) = map2 (addw 64) (words_le 8 a) (words_le 8 b).
Proof.
  intros Wa Wb. rewrite sse_u64x2_add_lanewise by assumption.
  apply ok2q_bytes. apply (ok_add 8 2); apply wf16_ok64; assumption.
Qed.

Lemma lrep4 {T} (rep : T -> list N) a b c d :
  lrep rep [a; b; c; d] = rep a ++ rep b ++ rep c ++ rep d.
Proof. unfold lrep. cbn [map concat]. now rewrite app_nil_r. Qed.

Lemma sse_dops_refines s4 : dops_refines (sse_dops s4).
Proof.
  constructor;
    cbn [sse_dops d2_wf d2_rep d2_vec d2_unpack d2_into d2_add d8_wf d8_rep d8_from_lanes d8_add d8_into].
  - exact wf16_ok64.
  - intros l [Hl Hf]. explode l. inv_fa.
    rewrite sse_u64x2_from_lanes_order by assumption. apply ok2q_bytes. split; [reflexivity | fa].
  - intros st Hst. split; [exact Hst | reflexivity].
  - intros a Wa. symmetry. apply bytes16_words2, Wa.
  - exact u64x2_add_rel.
  - intros v [Hl Hf]. explode v. inv_fa. rewrite lrep4.
    apply (ok_app 64 2 6); [now apply wf16_ok64|]. apply (ok_app 64 2 4); [now apply wf16_ok64|].
    apply (ok_app 64 2 2); now apply wf16_ok64.
  - intros a b c d Wa Wb Wc Wd. unfold xn_from_lanes. split; [split; [reflexivity | fa] | apply lrep4].
  - intros a b Wa Wb.
    apply (lift_bin (wf 16) (words_le 8) 2 4 (fun x Wx => proj1 (wf16_ok64 x Wx)) u64x2_add (addw 64) u64x2_add_rel);
      assumption.
  - intros v [Hl Hf]. unfold xn_into_storage, lrep. symmetry.
    apply (concat_regs_bytes 8 16); [lia | reflexivity | exact Hf].
Qed.

(** * u32x4x4 = x4<u32x4_sse2> *)
Definition sse_wops (s3 : bool) : wops (sse_u32x4_vops s3) (sse_u32x4x4_vops s3) :=
  WOps (sse_u32x4_vops s3) (sse_u32x4x4_vops s3)
       (fun a b c d => xn_from_lanes [a; b; c; d])
       (fun v => let l := xn_to_lanes v in (nth 0 l [], nth 1 l [], nth 2 l [], nth 3 l []))
       x4_unpack
       (x4_transpose4 [])
       (fun v => unwrap [] (x4_write sse_write_le [] v 64)).

Lemma wf16_len4 a : wf 16 a -> length (words_le 4 a) = 4%nat.
Proof. intros Wa. exact (proj1 (wf16_ok a Wa)). Qed.

Lemma sse_wops_refines s3 : wops_refines _ _ (sse_wops s3).
Proof.
  pose proof (sse_u32x4x4_refines s3) as R16.
  constructor; unfold rel;
    cbn [sse_u32x4_vops sse_u32x4x4_vops prod_vops v_wf v_rep sse_wops v16_from_lanes v16_to_lanes v16_unpack
         v16_transpose4 v16_write_le].
  - intros v [Hl Hf]. cbn [sse_u32x4_vops v_wf v_rep] in *. explode v. inv_fa. rewrite lrep4.
    apply (ok_app 32 4 12); [now apply wf16_ok|]. apply (ok_app 32 4 8); [now apply wf16_ok|].
    apply (ok_app 32 4 4); now apply wf16_ok.
  - intros a b c d Wa Wb Wc Wd. unfold xn_from_lanes. split; [split; [reflexivity | fa] | apply lrep4].
  - intros v [Hl Hf]. cbn [sse_u32x4_vops v_wf v_rep] in *. explode v. inv_fa.
    unfold xn_to_lanes, t4_0, t4_1, t4_2, t4_3. cbn [fst snd nth]. rewrite lrep4.
    match goal with |- context [lane4 0 (words_le 4 ?a ++ words_le 4 ?b ++ words_le 4 ?c ++ words_le 4 ?d)] =>
      destruct (lane4_app4 (words_le 4 a) (words_le 4 b) (words_le 4 c) (words_le 4 d)) as (E0 & E1 & E2 & E3);
        try (apply wf16_len4; assumption) end.
    rewrite E0, E1, E2, E3. split; [|split; [|split]]; (split; [assumption | reflexivity]).
  - intros st Hst. destruct (bytes64_words16 st Hst) as [W E].
    pose proof (r_vec _ _ _ _ R16 _ W) as V. unfold rel in V.
    cbn [sse_u32x4x4_vops prod_vops v_wf v_rep v_vec] in V. rewrite E in V. exact V.
  - intros a b c d [La Fa] [Lb Fb] [Lc Fc] [Ld Fd]. cbn [sse_u32x4_vops v_wf v_rep] in *.
    explode a. explode b. explode c. explode d. inv_fa.
    cbv zeta. unfold x4_transpose4, l_transpose4, t4_0, t4_1, t4_2, t4_3. cbn [fst snd nth]. rewrite !lrep4.
    repeat match goal with |- context [lane4 _ (words_le 4 ?a ++ words_le 4 ?b ++ words_le 4 ?c ++ words_le 4 ?d)] =>
      let E0 := fresh "E" in let E1 := fresh "E" in let E2 := fresh "E" in let E3 := fresh "E" in
      destruct (lane4_app4 (words_le 4 a) (words_le 4 b) (words_le 4 c) (words_le 4 d)) as (E0 & E1 & E2 & E3);
        try (apply wf16_len4; assumption); rewrite E0, E1, E2, E3; clear E0 E1 E2 E3 end.
    split; [|split; [|split]]; (split; [split; [reflexivity | fa] | reflexivity]).
  - intros v [Hl Hf]. cbn [sse_u32x4_vops v_wf v_rep] in *. explode v. inv_fa.
    unfold x4_write. change (Nat.div 64 4) with 16%nat. change (64 - 3 * 16)%nat with 16%nat. cbn [nth].
    cbn [sse_write_le Nat.eqb obind unwrap]. unfold write_le. rewrite lrep4, !bytes_le_app.
    repeat match goal with H : wf 16 ?a |- context [bytes_le 4 (words_le 4 ?a)] =>
      rewrite (proj2 (bytes16_words4 a H)) end.
    reflexivity.
Qed.

(** * u64x4 = x2<u64x2_sse2, G1> *)
Definition sse_hops (s3 : bool) : hops (sse_u64x4_vops s3) :=
  HOps (sse_u64x4_vops s3)
       (fun st => pair_of (x2_unpack st))
       (fun v => xn_into_storage (list_of v))
       (fun v => unwrap [] (x2_write (sse_write_be (u64x2_bswap s3)) [] (list_of v) 32)).

Lemma sse_hops_refines s3 : hops_refines _ (sse_hops s3).
Proof.
  pose proof (sse_u64x4_refines s3) as R64.
  constructor; unfold rel; cbn [sse_u64x4_vops v_wf v_rep sse_hops d4_unpack d4_into d4_write_be].
  - intros v Wv. apply (bwf_to_ok 8 4); [lia | auto | apply wf2_img, Wv].
  - intros st Hst. destruct (bytes32_words4 st Hst) as [W E].
    pose proof (r_vec _ _ _ _ R64 _ W) as V. unfold rel in V.
    cbn [sse_u64x4_vops v_wf v_rep v_vec] in V. rewrite E in V. exact V.
  - intros [a b] [Wa Wb]. cbn [fst snd] in *. unfold xn_into_storage, list_of. cbn [fst snd concat].
    rewrite app_nil_r. symmetry. apply (bytes32_words4 (a ++ b)). apply (wf2_img (a, b)). split; assumption.
  - intros [a b] [Wa Wb]. cbn [fst snd] in *. unfold list_of. cbn [fst snd].
    change (x2_write (sse_write_be (u64x2_bswap s3)) [] [a; b] 32) with
      (obind (sse_write_be (u64x2_bswap s3) a 16) (fun x => obind (sse_write_be (u64x2_bswap s3) b 16) (fun y => Ok (x ++ y)))).
    destruct (sse_read_write_le_be 8 s3 in8) as (_ & _ & _ & H).
    change (u64x2_bswap s3) with (bswap_of 8 s3).
    rewrite (proj2 (H a Wa)), (proj2 (H b Wb)). cbn [obind unwrap].
    rewrite img2_words by (split; assumption). cbn [fst snd]. now rewrite write_be_app.
Qed.

(** * u128x1 *)
Definition sse_uops (s3 : bool) : uops (sse_jops s3) :=
  UOps (sse_jops s3) sse_unpack sse_read_unaligned sse_into_storage.

Lemma sse_uops_refines s3 : uops_refines _ (sse_uops s3).
Proof.
  constructor; unfold jrel1; cbn [sse_jops j_wf1 j_rep1 sse_uops o1_unpack o1_read o1_into].
  - exact wf16_lt.
  - intros st Hst. split; [exact Hst | reflexivity].
  - intros st Hst. split; [exact Hst | reflexivity].
  - intros a [La Ba]. unfold sse_into_storage. rewrite <- La. symmetry. apply le_split_join, Ba.
Qed.

(** * the extended machine *)
Definition sse_xm (s3 s4 : bool) : xmachine :=
  XMachine (sse_m s3) (sse_nops s3 s4) (sse_dops s4) (sse_wops s3) (sse_hops s3) (sse_uops s3).

Theorem sse_xm_refines : forall s3 s4, xmachine_refines (sse_xm s3 s4).
Proof.
  intros s3 s4. constructor; cbn [sse_xm xm_base xm_n xm_d xm_w xm_h xm_u].
  - apply sse_m_refines.
  - apply sse_nops_refines.
  - apply sse_dops_refines.
  - apply sse_wops_refines.
  - apply sse_hops_refines.
  - apply sse_uops_refines.
Qed.

(** [Machine::vec] on u64x2 is the S4-dependent [from_lanes]; [extract]/[insert] really depend on S4 *)
Example sse_xm_is_concrete :
  v4_insert (xm_n (sse_xm false false)) (bytes_le 4 [1; 2; 3; 4]) 9 1 = bytes_le 4 [1; 9; 3; 4] /\
  v4_insert (xm_n (sse_xm true true)) (bytes_le 4 [1; 2; 3; 4]) 9 1 = bytes_le 4 [1; 9; 3; 4] /\
  d2_rep (xm_d (sse_xm true false)) (d2_add (xm_d (sse_xm true false)) (d2_vec (xm_d (sse_xm true false)) [2 ^ 64 - 1; 7])
                                             (d2_vec (xm_d (sse_xm true false)) [1; 0])) = [0; 7].
Proof. vm_compute. repeat split; reflexivity. Qed.

Print Assumptions sse_xm_refines.
