(** The concrete Machine of the x86 SSE-family back ends of ppv-lite86 (C03), built from the
    intrinsic-level model Model/PpvSse.v, and the proof that it refines the lane meaning:
    [sse_m s3], [s3 = false]: SSE2 (NoS3 forms), [s3 = true]: SSSE3 / SSE4.1 / AVX (YesS3 forms;
    the S4 parameter selects nothing among the operations of [machine]).

      u32x4    [u32x4_sse2<S3,S4,NI>]   one 16-byte register             (Proofs/MachineSse.v)
      u32x4x4  [x4<u32x4_sse2>]         list of four registers, soft.rs forwarding [xn_binop]/[xn_unop]
      u64x4    [x2<u64x2_sse2, G1>]     pair of registers (the representation of [u64x4_shuffle*]),
                                        soft.rs forwarding for add / xor / rotate, sse2.rs [Words4]
      u128x1   [u128x1_sse2]            one register;  u128x2 = [x2<u128x1_sse2, G0>]: list of two

    Every field is discharged with the C12/C13 theorems of Proofs/PpvSse*.v. *)
From Coq Require Import NArith List Bool Lia Arith.
From CC Require Import Lib.Words Lib.Bytes Lib.ListX Spec.Lanes Model.Intrinsics Model.PpvSse.
From CC Require Import Model.Machine Proofs.Machine Proofs.MachineBytes Proofs.MachineSse Proofs.MachineInstLib.
From CC Require Import Proofs.IntrinsicsLemmas Proofs.PpvSseWords Proofs.PpvSseMove Proofs.PpvSseSwap Proofs.PpvSseSwapAll Proofs.PpvStore.
Import ListNotations.
Local Open Scope N_scope.

Ltac fall := repeat (apply Forall_cons; [assumption|]); apply Forall_nil.

Definition unwrap {A} (d : A) (o : outcome A) : A := match o with Ok a => a | Panic => d end.

(** * 16-byte registers as [n] words of [k] bytes *)
Lemma reg_ok k n : (0 < k)%nat -> (k * n = 16)%nat ->
  forall a, wf 16 a -> words_ok (8 * N.of_nat k) n (words_le k a).
Proof.
  intros Hk Hkn a [Hl Hb]. split.
  - rewrite words_le_length by exact Hk. rewrite Hl, <- Hkn, Nat.mul_comm. apply Nat.div_mul. lia.
  - apply words_le_Forall_word. exact Hb.
Qed.
Lemma ok_reg k n : (0 < k)%nat -> (k * n = 16)%nat ->
  forall l, words_ok (8 * N.of_nat k) n l -> wf 16 (bytes_le k l) /\ words_le k (bytes_le k l) = l.
Proof.
  intros Hk Hkn l H. destruct (ok_to_bytes k n Hk l H) as [[L B] E].
  split; [split|]; [rewrite L; exact Hkn | exact B | exact E].
Qed.

(** * u32x4x4 = x4<u32x4_sse2> *)
Definition sse_u32x4x4_vops (s3 : bool) : vops :=
  prod_vops (sse_u32x4_vops s3) 4
    (fun l => x4_unpack (bytes_le 4 l))          (* [vec512_storage] of the 16 words, [unpack] *)
    (xn_binop u32x4_add) (xn_binop sse_xor) (fun k => xn_unop (u32x4_rotr s3 k))
    (xn_unop u32x4_shuffle1230) (xn_unop u32x4_shuffle2301) (xn_unop u32x4_shuffle3012).

(** the view is [Vector<[u32;16]>::to_scalars] *)
Lemma sse_u32x4x4_rep_is_to_scalars : forall s3 v,
  v_wf (sse_u32x4x4_vops s3) v -> v_rep (sse_u32x4x4_vops s3) v = sse_x4_to_scalars v.
Proof.
  intros s3 v [Hl Hf]. cbn [sse_u32x4x4_vops prod_vops v_rep]. explode v.
  repeat match goal with H : Forall _ (_ :: _) |- _ => inversion H; clear H; subst end.
  cbn [sse_u32x4_vops v_wf] in *.
  rewrite sse_x4_to_scalars_lane_order by assumption.
  unfold lrep. cbn [map concat sse_u32x4_vops v_rep]. now rewrite app_nil_r.
Qed.

Lemma x4_unpack_words : forall l, length l = 16%nat ->
  x4_unpack (bytes_le 4 l) = map (bytes_le 4) (chunk 4 4 l).
Proof. intros l Hl. explode l. reflexivity. Qed.

Lemma sse_u32x4x4_refines : forall s3, vops_refines 32 16 ks32 (sse_u32x4x4_vops s3).
Proof.
  intros s3.
  apply (prod_refines (sse_u32x4_vops s3) 32 4%nat ks32 4%nat 1%nat (sse_u32x4_refines s3)).
  - intros a Wa. exact (proj1 (wf16_ok a Wa)).
  - reflexivity.
  - intros l [Hl _]. apply x4_unpack_words. exact Hl.
  - reflexivity.
  - reflexivity.
  - reflexivity.
  - reflexivity.
  - reflexivity.
  - reflexivity.
Qed.

(** * u64x4 = x2<u64x2_sse2, G1>: pair of registers *)
Definition pair_of (v : list reg) : reg * reg := (nth 0 v [], nth 1 v []).
Definition list_of (v : reg * reg) : list reg := [fst v; snd v].
(** soft.rs [fwd_binop_x2!] / [fwd_unop_x2!] on the pair representation *)
Definition x2p_binop (f : reg -> reg -> reg) (a b : reg * reg) : reg * reg :=
  pair_of (xn_binop f (list_of a) (list_of b)).
Definition x2p_unop (f : reg -> reg) (a : reg * reg) : reg * reg := pair_of (xn_unop f (list_of a)).

Definition sse_u64x4_vops (s3 : bool) : vops :=
  VOps (reg * reg) wf2 (fun v => words_le 8 (img2 v))
       (fun l => pair_of (x2_unpack (bytes_le 8 l)))
       (x2p_binop u64x2_add) (x2p_binop sse_xor) (fun k => x2p_unop (u64x2_rotr s3 k))
       (u64x4_shuffle1230 s3) u64x4_shuffle2301 (u64x4_shuffle3012 s3).

Lemma k8' : (0 < 8)%nat. Proof. lia. Qed.
Lemma in8 : In 8%nat [4; 8; 16]%nat. Proof. cbn; auto. Qed.

Lemma img2_words v : wf2 v -> words_le 8 (img2 v) = words_le 8 (fst v) ++ words_le 8 (snd v).
Proof. intros [H0 H1]. unfold img2. apply words_le_app16; [assumption | assumption | exact in8]. Qed.

Lemma pair_bin (f : reg -> reg -> reg) (g : N -> N -> N) :
  (forall a b, wf 16 a -> wf 16 b ->
     wf 16 (f a b) /\ words_le 8 (f a b) = map2 g (words_le 8 a) (words_le 8 b)) ->
  forall A B, wf2 A -> wf2 B ->
    wf2 (x2p_binop f A B) /\
    words_le 8 (img2 (x2p_binop f A B)) = map2 g (words_le 8 (img2 A)) (words_le 8 (img2 B)).
Proof.
  intros H [a0 a1] [b0 b1] WA WB. pose proof WA as [Wa0 Wa1]. pose proof WB as [Wb0 Wb1].
  cbn [fst snd] in *.
  destruct (H a0 b0 Wa0 Wb0) as [W0 E0]. destruct (H a1 b1 Wa1 Wb1) as [W1 E1].
  assert (W : wf2 (x2p_binop f (a0, a1) (b0, b1))) by (split; assumption).
  split; [exact W|].
  rewrite !img2_words by assumption.
  change (x2p_binop f (a0, a1) (b0, b1)) with (f a0 b0, f a1 b1). cbn [fst snd].
  rewrite E0, E1. symmetry. apply map2_app'.
  rewrite (proj1 (reg_ok 8 2 k8' eq_refl a0 Wa0)), (proj1 (reg_ok 8 2 k8' eq_refl b0 Wb0)). reflexivity.
Qed.

Lemma pair_un (f : reg -> reg) (g : N -> N) :
  (forall a, wf 16 a -> wf 16 (f a) /\ words_le 8 (f a) = map g (words_le 8 a)) ->
  forall A, wf2 A ->
    wf2 (x2p_unop f A) /\ words_le 8 (img2 (x2p_unop f A)) = map g (words_le 8 (img2 A)).
Proof.
  intros H [a0 a1] WA. pose proof WA as [Wa0 Wa1]. cbn [fst snd] in *.
  destruct (H a0 Wa0) as [W0 E0]. destruct (H a1 Wa1) as [W1 E1].
  assert (W : wf2 (x2p_unop f (a0, a1))) by (split; assumption).
  split; [exact W|].
  rewrite !img2_words by assumption.
  change (x2p_unop f (a0, a1)) with (f a0, f a1). cbn [fst snd].
  rewrite E0, E1. symmetry. apply map_app.
Qed.

Lemma x2_unpack_words : forall l, length l = 4%nat ->
  pair_of (x2_unpack (bytes_le 8 l)) = (bytes_le 8 (firstn 2 l), bytes_le 8 (skipn 2 l)).
Proof. intros l Hl. explode l. reflexivity. Qed.

Lemma u64x4_shuffle_wf s3 v : wf2 v ->
  wf2 (u64x4_shuffle1230 s3 v) /\ wf2 (u64x4_shuffle2301 v) /\ wf2 (u64x4_shuffle3012 s3 v).
Proof.
  intros Hv. destruct (sse_u64x4_shuffle_is_perm s3 v Hv) as (E1 & E2 & E3).
  assert (L : forall r : reg * reg, length (fst r) = 16%nat -> length (snd r) = 16%nat ->
              (exists ws, img2 r = bytes_le 8 ws) -> wf2 r).
  { intros r L0 L1 [ws E]. pose proof (bytes_le_bytes 8 ws) as B. rewrite <- E in B.
    unfold img2 in B. apply Forall_app in B. destruct B as [B0 B1]. split; split; assumption. }
  destruct v as [x y]. destruct Hv as [Hx Hy]. cbn [fst snd] in Hx, Hy.
  destruct Hx as [Lx _]. destruct Hy as [Ly _]. explode x. explode y.
  split; [|split]; (apply L; [destruct s3; reflexivity | destruct s3; reflexivity | eexists; eassumption]).
Qed.

Lemma sse_u64x4_refines : forall s3, vops_refines 64 4 ks64 (sse_u64x4_vops s3).
Proof.
  intros s3. apply vops_refines_intro;
    cbn [sse_u64x4_vops v_wf v_rep v_vec o_add o_xor o_rotr o_sh1230 o_sh2301 o_sh3012].
  - (* vec *)
    intros l [Hl Hf]. rewrite x2_unpack_words by exact Hl.
    assert (H0 : words_ok 64 2 (firstn 2 l))
      by (split; [rewrite firstn_length, Hl; reflexivity | now apply Forall_firstn']).
    assert (H1 : words_ok 64 2 (skipn 2 l))
      by (split; [rewrite skipn_length, Hl; reflexivity | now apply Forall_skipn']).
    destruct (ok_reg 8 2 k8' eq_refl _ H0) as [W0 E0]. destruct (ok_reg 8 2 k8' eq_refl _ H1) as [W1 E1].
    assert (W : wf2 (bytes_le 8 (firstn 2 l), bytes_le 8 (skipn 2 l))) by (split; assumption).
    split; [exact W|]. rewrite img2_words by exact W. cbn [fst snd]. rewrite E0, E1. apply firstn_skipn.
  - (* add *)
    apply (pair_bin u64x2_add (addw 64)). intros a b Wa Wb.
    rewrite sse_u64x2_add_lanewise by assumption.
    apply (ok_reg 8 2 k8' eq_refl). apply (ok_add 8 2); apply (reg_ok 8 2 k8' eq_refl); assumption.
  - (* xor *)
    apply (pair_bin sse_xor N.lxor). intros a b Wa Wb.
    destruct (sse_bitops_lanewise 8%nat in8 a b Wa Wb) as (-> & _).
    apply (ok_reg 8 2 k8' eq_refl). apply (ok_xor 8 2); apply (reg_ok 8 2 k8' eq_refl); assumption.
  - (* rotate_each_word_right 11, 16, 25, 32 *)
    intros k a Hk Wa. apply (pair_un (u64x2_rotr s3 k) (rotrw 64 k)); [|exact Wa]. intros x Wx.
    rewrite sse_u64x2_rotr_lanewise; [| cbn in Hk |- *; tauto | assumption].
    apply (ok_reg 8 2 k8' eq_refl). apply (ok_rotr 8 2), (reg_ok 8 2 k8' eq_refl); assumption.
  - intros a Wa. destruct (u64x4_shuffle_wf s3 a Wa) as (W & _ & _). split; [exact W|].
    destruct (sse_u64x4_shuffle_is_perm s3 a Wa) as (-> & _ & _).
    pose proof (wf2_img a Wa) as Wi.
    assert (Ho : words_ok 64 4 (words_le 8 (img2 a))) by (apply (bwf_to_ok 8 4); [lia | auto | exact Wi]).
    rewrite per_lane4_len4 by apply Ho. rewrite <- (per_lane4_len4 shuffle1230) by apply Ho.
    apply (ok_to_bytes 8 4 k8'). apply (ok_sh1230 8 4); [auto | exact Ho].
  - intros a Wa. destruct (u64x4_shuffle_wf s3 a Wa) as (_ & W & _). split; [exact W|].
    destruct (sse_u64x4_shuffle_is_perm s3 a Wa) as (_ & -> & _).
    pose proof (wf2_img a Wa) as Wi.
    assert (Ho : words_ok 64 4 (words_le 8 (img2 a))) by (apply (bwf_to_ok 8 4); [lia | auto | exact Wi]).
    rewrite per_lane4_len4 by apply Ho. rewrite <- (per_lane4_len4 shuffle2301) by apply Ho.
    apply (ok_to_bytes 8 4 k8'). apply (ok_sh2301 8 4); [auto | exact Ho].
  - intros a Wa. destruct (u64x4_shuffle_wf s3 a Wa) as (_ & _ & W). split; [exact W|].
    destruct (sse_u64x4_shuffle_is_perm s3 a Wa) as (_ & _ & ->).
    pose proof (wf2_img a Wa) as Wi.
    assert (Ho : words_ok 64 4 (words_le 8 (img2 a))) by (apply (bwf_to_ok 8 4); [lia | auto | exact Wi]).
    rewrite per_lane4_len4 by apply Ho. rewrite <- (per_lane4_len4 shuffle3012) by apply Ho.
    apply (ok_to_bytes 8 4 k8'). apply (ok_sh3012 8 4); [auto | exact Ho].
Qed.

(** * u128x1_sse2 and u128x2_sse2 = x2<u128x1_sse2, G0> (JH) *)
Definition wfl2 (v : list reg) : Prop := length v = 2%nat /\ Forall (wf 16) v.
Definition rep2 (v : list reg) : N * N := (le_join (nth 0 v []), le_join (nth 1 v [])).

Definition sse_jops (s3 : bool) : jops :=
  JOps reg (list reg) (wf 16) wfl2 le_join rep2
       (fun x => sse_unpack (le_split 16 x))                                 (* the 16 bytes of the word *)
       (fun c => x2_unpack (le_split 16 (fst c) ++ le_split 16 (snd c)))     (* 32 bytes, [x2::unpack] *)
       (fun a b => xn_from_lanes [a; b])
       (fun v i => unwrap [] (xn_extract v (if i then 1 else 0)))
       sse_xor (xn_binop sse_xor) (xn_binop sse_and) (xn_binop sse_or) (xn_binop sse_andnot)
       (xn_unop sse_not)
       (fun k => u128x1_swap s3 (2 ^ N.of_nat k)).

Lemma in16 : In 16%nat [4; 8; 16]%nat. Proof. cbn; auto. Qed.
Lemma w16 x : wf 16 x -> words_le 16 x = [le_join x].
Proof. intros [Hl _]. explode x. reflexivity. Qed.
Lemma wf16_lt x : wf 16 x -> le_join x < 2 ^ 128.
Proof. intros [Hl Hb]. pose proof (le_join_lt x Hb) as H. rewrite Hl in H. exact H. Qed.
Lemma reg16 v r : v < 2 ^ 128 -> r = bytes_le 16 [v] -> wf 16 r /\ le_join r = v.
Proof. intros Hv ->. rewrite bytes_le16_single. apply reg16_of_word, Hv. Qed.

Lemma el_xor a b : wf 16 a -> wf 16 b -> wf 16 (sse_xor a b) /\ le_join (sse_xor a b) = N.lxor (le_join a) (le_join b).
Proof.
  intros Wa Wb. destruct (sse_bitops_lanewise 16%nat in16 a b Wa Wb) as (E & _).
  rewrite !w16 in E by assumption. apply reg16; [apply lxor_lt; now apply wf16_lt | exact E].
Qed.
Lemma el_and a b : wf 16 a -> wf 16 b -> wf 16 (sse_and a b) /\ le_join (sse_and a b) = N.land (le_join a) (le_join b).
Proof.
  intros Wa Wb. destruct (sse_bitops_lanewise 16%nat in16 a b Wa Wb) as (_ & E & _).
  rewrite !w16 in E by assumption. apply reg16; [apply land_lt; now apply wf16_lt | exact E].
Qed.
Lemma el_or a b : wf 16 a -> wf 16 b -> wf 16 (sse_or a b) /\ le_join (sse_or a b) = N.lor (le_join a) (le_join b).
Proof.
  intros Wa Wb. destruct (sse_bitops_lanewise 16%nat in16 a b Wa Wb) as (_ & _ & E & _).
  rewrite !w16 in E by assumption. apply reg16; [apply lor_lt; now apply wf16_lt | exact E].
Qed.
Lemma el_not a : wf 16 a -> wf 16 (sse_not a) /\ le_join (sse_not a) = l_not (le_join a).
Proof.
  intros Wa. destruct (sse_bitops_lanewise 16%nat in16 a a Wa Wa) as (_ & _ & _ & E & _).
  rewrite !w16 in E by assumption. apply reg16; [apply notw_lt' | exact E].
Qed.
Lemma el_andnot a b : wf 16 a -> wf 16 b ->
  wf 16 (sse_andnot a b) /\ le_join (sse_andnot a b) = l_andnot (le_join a) (le_join b).
Proof.
  intros Wa Wb. destruct (sse_bitops_lanewise 16%nat in16 a b Wa Wb) as (_ & _ & _ & _ & E).
  rewrite !w16 in E by assumption. apply reg16; [apply land_lt_r; now apply wf16_lt | exact E].
Qed.

Lemma pow2_swaps k : (k < 7)%nat -> In (2 ^ N.of_nat k) [1; 2; 4; 8; 16; 32; 64].
Proof.
  intros Hk. do 7 (destruct k as [|k]; [vm_compute; repeat (first [left; reflexivity | right]) |]). lia.
Qed.
Lemma el_swap s3 k a : (k < 7)%nat -> wf 16 a ->
  wf 16 (u128x1_swap s3 (2 ^ N.of_nat k) a) /\
  le_join (u128x1_swap s3 (2 ^ N.of_nat k) a) = l_swap k (le_join a).
Proof.
  intros Hk Wa. pose proof (pow2_swaps k Hk) as Hn.
  destruct (sse_u128x1_swap_is_bitgroup_swap s3 _ a Hn Wa) as [E _].
  rewrite w16 in E by assumption. apply reg16; [|exact E].
  apply swapw_lt; [exact Hn | now apply wf16_lt].
Qed.

Lemma j2_bin (f : reg -> reg -> reg) (g : N -> N -> N) :
  (forall a b, wf 16 a -> wf 16 b -> wf 16 (f a b) /\ le_join (f a b) = g (le_join a) (le_join b)) ->
  forall a b x y, wfl2 a /\ rep2 a = x -> wfl2 b /\ rep2 b = y ->
    wfl2 (xn_binop f a b) /\ rep2 (xn_binop f a b) = p2 g x y.
Proof.
  intros H a b x y [[La Fa] <-] [[Lb Fb] <-]. explode a. explode b.
  repeat match goal with H : Forall _ (_ :: _) |- _ => inversion H; clear H; subst end.
  cbn [xn_binop map2]. unfold rep2, p2. cbn [nth fst snd].
  match goal with |- context [f ?a0 ?b0 :: f ?a1 ?b1 :: _] =>
    destruct (H a0 b0) as [W0 E0]; [assumption | assumption |];
    destruct (H a1 b1) as [W1 E1]; [assumption | assumption |] end.
  split; [split; [reflexivity | fall] | now rewrite E0, E1].
Qed.

Lemma split2_regs a b : length a = 16%nat -> length b = 16%nat -> x2_unpack (a ++ b) = [a; b].
Proof. intros La Lb. explode a. explode b. reflexivity. Qed.

Lemma sse_jops_refines : forall s3, jops_refines (sse_jops s3).
Proof.
  intros s3. constructor; unfold jrel1, jrel2;
    cbn [sse_jops j_wf1 j_wf2 j_rep1 j_rep2 j_load j_const j_zip j_ext j_xor1 j_xor2 j_and2 j_or2
         j_andnot2 j_not2 j_swap].
  - intros x Hx. unfold sse_unpack. apply reg16_of_word, Hx.
  - intros [x y] Hx Hy. cbn [fst snd] in *.
    rewrite split2_regs by apply le_split_length.
    destruct (reg16_of_word x Hx) as [Wx Ex]. destruct (reg16_of_word y Hy) as [Wy Ey].
    split; [split; [reflexivity | fall]|].
    unfold rep2. cbn [nth]. now rewrite Ex, Ey.
  - intros a b x y [Wa <-] [Wb <-]. unfold xn_from_lanes.
    split; [split; [reflexivity | fall] | reflexivity].
  - intros a x i [[La Fa] <-]. explode a.
    repeat match goal with H : Forall _ (_ :: _) |- _ => inversion H; clear H; subst end.
    destruct i; (split; [assumption | reflexivity]).
  - intros a b x y [Wa <-] [Wb <-]. now apply el_xor.
  - apply (j2_bin sse_xor N.lxor el_xor).
  - apply (j2_bin sse_and N.land el_and).
  - apply (j2_bin sse_or N.lor el_or).
  - apply (j2_bin sse_andnot l_andnot el_andnot).
  - intros a x [[La Fa] <-]. explode a.
    repeat match goal with H : Forall _ (_ :: _) |- _ => inversion H; clear H; subst end.
    cbn [xn_unop map]. unfold rep2. cbn [nth fst snd].
    match goal with |- context [sse_not ?a0 :: sse_not ?a1 :: _] =>
      destruct (el_not a0) as [W0 E0]; [assumption|]; destruct (el_not a1) as [W1 E1]; [assumption|] end.
    split; [split; [reflexivity | fall] | now rewrite E0, E1].
  - intros k a x Hk [Wa <-]. now apply el_swap.
Qed.

(** [Machine::vec] is [MultiLane::from_lanes]; the [v_vec] fields above (the little-endian image of
    the words, cut into registers) are the values the S4-dependent [from_lanes] code paths of
    sse2.rs build (C13), and [j_load] is [u128x1::from_lanes] *)
Lemma sse_u32x4_vec_is_from_lanes : forall s3 s4 l, words_ok 32 4 l ->
  v_vec (sse_u32x4_vops s3) l = u32x4_from_lanes s4 l.
Proof.
  intros s3 s4 l [Hl Hf]. explode l.
  repeat match goal with H : Forall _ (_ :: _) |- _ => inversion H; clear H; subst end.
  cbn [sse_u32x4_vops v_vec]. symmetry. apply sse_u32x4_from_lanes_order; assumption.
Qed.
Lemma sse_u64x4_vec_is_from_lanes : forall s3 s4 l, words_ok 64 4 l ->
  v_vec (sse_u64x4_vops s3) l = u64x4_from_lanes s4 l.
Proof.
  intros s3 s4 l [Hl Hf]. cbn [sse_u64x4_vops v_vec]. rewrite x2_unpack_words by exact Hl. explode l.
  repeat match goal with H : Forall _ (_ :: _) |- _ => inversion H; clear H; subst end.
  unfold u64x4_from_lanes. cbn [nth firstn skipn].
  rewrite !sse_u64x2_from_lanes_order by assumption. reflexivity.
Qed.
Lemma sse_j_load_is_from_lanes : forall s3 x, j_load (sse_jops s3) x = u128x1_from_lanes [x].
Proof. reflexivity. Qed.

(** * the machine *)
Definition sse_m (s3 : bool) : machine :=
  Machine (sse_u32x4_vops s3) (sse_u32x4x4_vops s3) (sse_u64x4_vops s3) (sse_jops s3).

Theorem sse_m_refines : forall s3, machine_refines (sse_m s3).
Proof.
  intros s3. unfold machine_refines, sse_m. cbn [m_u32x4 m_u32x4x4 m_u64x4 m_u128].
  split; [apply sse_u32x4_refines | split; [apply sse_u32x4x4_refines | split;
    [apply sse_u64x4_refines | apply sse_jops_refines]]].
Qed.

(** the carriers really are registers: a loaded ChaCha row is its 16 bytes, a wide row four
    registers, a BLAKE-512 row two registers *)
Example sse_m_is_concrete :
  v_vec (m_u32x4 (sse_m true)) [1; 2; 3; 4] = [1; 0; 0; 0; 2; 0; 0; 0; 3; 0; 0; 0; 4; 0; 0; 0] /\
  length (v_vec (m_u32x4x4 (sse_m false)) [0; 1; 2; 3; 4; 5; 6; 7; 8; 9; 10; 11; 12; 13; 14; 15]) = 4%nat /\
  fst (v_vec (m_u64x4 (sse_m false)) [1; 2; 3; 4]) = [1; 0; 0; 0; 0; 0; 0; 0; 2; 0; 0; 0; 0; 0; 0; 0].
Proof. vm_compute. repeat split; reflexivity. Qed.
