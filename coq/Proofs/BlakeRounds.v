(** C04, compression function: the vectorised rounds of Model/Blake.v (four
    4-lane rows, column step, diagonalize, diagonal step with the rotated
    message order 14,8,10,12, undiagonalize) equal the index-wise G schedule
    of Spec/Blake.v, for every choice of word operations, constants and
    message words; hence [put_block_words] = [Spec.Blake.compress]. *)
From Coq Require Import NArith List Lia Arith.
From CC Require Import Lib.Words Lib.Bytes Lib.ListX.
From CC Require Spec.Blake.
From CC Require Import Model.Blake.
Import ListNotations.
Module S := Spec.Blake.

(** the 16-word state of the specification as four rows, and back *)
Definition flat (xs : rows) : list N :=
  let '(a, b, c, d) := xs in a ++ b ++ c ++ d.
Definition rows_shape (xs : rows) : Prop :=
  let '(a, b, c, d) := xs in length a = 4 /\ length b = 4 /\ length c = 4 /\ length d = 4.

(** The Rust computes [a += m0; a += b] where the specification writes
    a <- a + b + (m xor c): the two agree because word addition is commutative
    and associative. [Gm] is G with the additions in the order of the code;
    [round_g] is the specification's round over an arbitrary G. *)
Section Eq.
  Variables (add xor : N -> N -> N) (rot1 rot2 rot3 rot4 : N -> N).
  Variable U : list N.
  Hypothesis add_swap : forall a b x, add (add a x) b = add (add a b) x.

  Ltac split_in H := cbn in H; repeat (destruct H as [<-|H]); try contradiction.

  Definition Gm (a b c d x y : N) : N * N * N * N :=
    let a := add (add a x) b in
    let d := rot1 (xor d a) in
    let c := add c d in
    let b := rot2 (xor b c) in
    let a := add (add a y) b in
    let d := rot3 (xor d a) in
    let c := add c d in
    let b := rot4 (xor b c) in
    (a, b, c, d).

  Lemma Gm_eq a b c d x y : Gm a b c d x y = S.G add xor rot1 rot2 rot3 rot4 a b c d x y.
  Proof.
    unfold Gm, S.G. cbv zeta. rewrite (add_swap a b x).
    rewrite (add_swap (add (add a b) x) _ y). reflexivity.
  Qed.

  Definition apply_Gg (Gf : N -> N -> N -> N -> N -> N -> N * N * N * N)
             (m : list N) (r i : nat) (v : list N) : list N :=
    let '(ia, ib, ic, id) := nth i S.G_INDEX (0, 0, 0, 0)%nat in
    let x := xor (nth (S.sigma r (2 * i)) m 0%N) (nth (S.sigma r (2 * i + 1)) U 0%N) in
    let y := xor (nth (S.sigma r (2 * i + 1)) m 0%N) (nth (S.sigma r (2 * i)) U 0%N) in
    let '(a, b, c, d) := Gf (nth ia v 0%N) (nth ib v 0%N) (nth ic v 0%N) (nth id v 0%N) x y in
    upd id d (upd ic c (upd ib b (upd ia a v))).
  Definition round_g Gf (m : list N) (v : list N) (r : nat) : list N :=
    fold_left (fun v i => apply_Gg Gf m r i v) (seq 0 8) v.

  Lemma round_g_spec m v r : round_g Gm m v r = S.round add xor rot1 rot2 rot3 rot4 U m v r.
  Proof.
    unfold round_g, S.round.
    apply (fold_left_ext_inv (fun _ => True)); auto.
    intros a i _ _. unfold apply_Gg, S.apply_G.
    destruct (nth i S.G_INDEX (0, 0, 0, 0)%nat) as [[[ia ib] ic] id].
    now rewrite Gm_eq.
  Qed.

End Eq.

Section Eq2.
  Variables (add xor : N -> N -> N) (rot1 rot2 rot3 rot4 : N -> N).
  Hypothesis add_swap : forall a b x, add (add a x) b = add (add a b) x.
  Hypothesis xor_comm : forall a b, xor a b = xor b a.

  Ltac split_in H := cbn in H; repeat (destruct H as [<-|H]); try contradiction.

  (** one round: [for sigma in &SIGMA[..rounds]] body = column G_0..3 then diagonal G_4..7 *)
  Lemma round_eq_spec U m xs r :
    length U = 16 -> length m = 16 -> rows_shape xs -> r < 16 ->
    flat (round_body add xor rot1 rot2 rot3 rot4 U m xs (nth r SIGMA [])) =
      S.round add xor rot1 rot2 rot3 rot4 U m (flat xs) r
    /\ rows_shape (round_body add xor rot1 rot2 rot3 rot4 U m xs (nth r SIGMA [])).
  Proof.
    intros HU Hm Hs Hr. destruct xs as [[[a b] c] d]. destruct Hs as (Ha & Hb & Hc & Hd).
    rewrite <- (round_g_spec add xor rot1 rot2 rot3 rot4 U add_swap).
    explode a. explode b. explode c. explode d. explode m. explode U.
    assert (Hi : In r (seq 0 16)) by (apply in_seq; lia).
    split_in Hi; (split; [vm_compute; reflexivity | vm_compute; repeat split]).
  Qed.

  Lemma firstn_SIGMA n : n <= 16 -> firstn n SIGMA = map (fun r => nth r SIGMA []) (seq 0 n).
  Proof.
    intros H. assert (Hi : In n (seq 0 17)) by (apply in_seq; lia).
    split_in Hi; reflexivity.
  Qed.

  Lemma fold_left_map' {A B C} (f : A -> B -> A) (g : C -> B) l a :
    fold_left f (map g l) a = fold_left (fun a c => f a (g c)) l a.
  Proof. revert a; induction l as [|x l IH]; intros a; [reflexivity|apply IH]. Qed.

  Lemma fold_left_sim {A B C} (R : A -> B -> Prop) (f : A -> C -> A) (g : B -> C -> B) l :
    (forall a b x, In x l -> R a b -> R (f a x) (g b x)) ->
    forall a b, R a b -> R (fold_left f l a) (fold_left g l b).
  Proof.
    induction l as [|x l IH]; intros H a b Hab; [exact Hab|].
    cbn [fold_left]. apply IH.
    - intros a' b' y Hy. apply H. now right.
    - apply H; [now left|exact Hab].
  Qed.

  Lemma rounds_eq_spec U m n : length U = 16 -> length m = 16 -> n <= 16 -> forall xs, rows_shape xs ->
    flat (fold_left (round_body add xor rot1 rot2 rot3 rot4 U m) (firstn n SIGMA) xs) =
      fold_left (S.round add xor rot1 rot2 rot3 rot4 U m) (seq 0 n) (flat xs)
    /\ rows_shape (fold_left (round_body add xor rot1 rot2 rot3 rot4 U m) (firstn n SIGMA) xs).
  Proof.
    intros HU Hm Hn xs Hs. rewrite firstn_SIGMA by assumption. rewrite fold_left_map'.
    apply (fold_left_sim (fun xs v => flat xs = v /\ rows_shape xs)
             (fun a r => round_body add xor rot1 rot2 rot3 rot4 U m a (nth r SIGMA []))
             (S.round add xor rot1 rot2 rot3 rot4 U m)); [|now split].
    intros a b r Hr [<- Hsa]. apply round_eq_spec; auto. apply in_seq in Hr. lia.
  Qed.

  (** [$X4::put_block] on message words = the specified compression function *)
  Definition xs_init U (h0 h1 : row) (t0 t1 : N) : rows :=
    (h0, h1, [nth 0 U 0%N; nth 1 U 0%N; nth 2 U 0%N; nth 3 U 0%N],
     vxor xor [nth 4 U 0%N; nth 5 U 0%N; nth 6 U 0%N; nth 7 U 0%N] [t0; t0; t1; t1]).
  Definition feed_forward (h0 h1 : row) (xs : rows) : row * row :=
    let '(x0, x1, x2, x3) := xs in (vxor xor (vxor xor h0 x0) x2, vxor xor (vxor xor h1 x1) x3).

  Lemma put_block_words_unfold U n h0 h1 m t0 t1 :
    put_block_words add xor rot1 rot2 rot3 rot4 U n (h0, h1) m (t0, t1) =
    feed_forward h0 h1 (fold_left (round_body add xor rot1 rot2 rot3 rot4 U m) (firstn n SIGMA)
                                  (xs_init U h0 h1 t0 t1)).
  Proof. reflexivity. Qed.

  Lemma compress_unfold U n h m t0 t1 :
    S.compress add xor rot1 rot2 rot3 rot4 U n h m t0 t1 =
    (fun v => map (fun i => xor (xor (nth i h 0%N) (nth i v 0%N)) (nth (i + 8) v 0%N)) (seq 0 8))
      (fold_left (S.round add xor rot1 rot2 rot3 rot4 U m) (seq 0 n) (S.init xor U h t0 t1)).
  Proof. reflexivity. Qed.

  Lemma feed_forward_spec h0 h1 xs : length h0 = 4 -> length h1 = 4 -> rows_shape xs ->
    fst (feed_forward h0 h1 xs) ++ snd (feed_forward h0 h1 xs) =
      map (fun i => xor (xor (nth i (h0 ++ h1) 0%N) (nth i (flat xs) 0%N)) (nth (i + 8) (flat xs) 0%N)) (seq 0 8)
    /\ length (fst (feed_forward h0 h1 xs)) = 4 /\ length (snd (feed_forward h0 h1 xs)) = 4.
  Proof.
    intros H0 H1 Sh. destruct xs as [[[a b] c] d]. destruct Sh as (Ha & Hb & Hc & Hd).
    explode a. explode b. explode c. explode d. explode h0. explode h1.
    repeat split.
  Qed.

  Lemma put_block_words_eq_spec U n h m t0 t1 :
    length U = 16 -> length m = 16 ->
    n <= 16 -> length (fst h) = 4 -> length (snd h) = 4 ->
    fst (put_block_words add xor rot1 rot2 rot3 rot4 U n h m (t0, t1))
      ++ snd (put_block_words add xor rot1 rot2 rot3 rot4 U n h m (t0, t1)) =
      S.compress add xor rot1 rot2 rot3 rot4 U n (fst h ++ snd h) m t0 t1
    /\ length (fst (put_block_words add xor rot1 rot2 rot3 rot4 U n h m (t0, t1))) = 4
    /\ length (snd (put_block_words add xor rot1 rot2 rot3 rot4 U n h m (t0, t1))) = 4.
  Proof.
    intros HU Hm Hn H0 H1. destruct h as [h0 h1]. cbn [fst snd] in *.
    rewrite put_block_words_unfold, compress_unfold.
    assert (Hs0 : rows_shape (xs_init U h0 h1 t0 t1)).
    { unfold xs_init, rows_shape. explode h0. explode h1. cbn. repeat split. }
    assert (Hf0 : flat (xs_init U h0 h1 t0 t1) = S.init xor U (h0 ++ h1) t0 t1).
    { unfold xs_init. explode h0. explode h1. unfold S.init, flat, vxor. cbn [map2 app].
      rewrite (xor_comm (nth 4 U 0%N) t0), (xor_comm (nth 5 U 0%N) t0),
        (xor_comm (nth 6 U 0%N) t1), (xor_comm (nth 7 U 0%N) t1). reflexivity. }
    destruct (rounds_eq_spec U m n HU Hm Hn _ Hs0) as [E Sh].
    rewrite <- Hf0, <- E.
    apply feed_forward_spec; assumption.
  Qed.
End Eq2.

(** * Instances at 32 and 64 bits *)

Lemma addw_swap w a b x : addw w (addw w a x) b = addw w (addw w a b) x.
Proof.
  rewrite !addw_mod. rewrite !N.add_mod_idemp_l by apply pow2_nz. f_equal. lia.
Qed.

Lemma U256_eq : BLAKE256_U = S.C256.
Proof. vm_compute. reflexivity. Qed.
Lemma U512_eq : BLAKE512_U = S.C512.
Proof. vm_compute. reflexivity. Qed.

(** reading the message words: [from_be_bytes] over [chunks_exact] = word j of the block *)
Lemma read_words_32 blk : length blk = 64 -> read_words_be 4 blk = S.block_words S.blake256 blk.
Proof. intros H. explode blk. reflexivity. Qed.
Lemma read_words_64 blk : length blk = 128 -> read_words_be 8 blk = S.block_words S.blake512 blk.
Proof. intros H. explode blk. reflexivity. Qed.

Definition to_list (h : row * row) : list N := fst h ++ snd h.
Definition h_shape (h : row * row) : Prop := length (fst h) = 4 /\ length (snd h) = 4.

Lemma put_block32_eq_spec v h blk t0 t1 :
  v = S.blake224 \/ v = S.blake256 -> h_shape h -> length blk = 64 ->
  to_list (put_block32 h blk (t0, t1)) = S.compress_v v (to_list h) (S.block_words v blk) t0 t1
  /\ h_shape (put_block32 h blk (t0, t1)).
Proof.
  intros Hv [H0 H1] Hb. unfold put_block32, to_list, h_shape.
  rewrite read_words_32 by assumption.
  pose proof (put_block_words_eq_spec (addw 32) N.lxor (rotrw 32 16) (rotrw 32 12) (rotrw 32 8) (rotrw 32 7)
                (addw_swap 32) N.lxor_comm BLAKE256_U 14 h (S.block_words S.blake256 blk) t0 t1) as P.
  destruct P as (E & L0 & L1); [reflexivity|reflexivity|lia|assumption|assumption|].
  split; [|split; assumption].
  rewrite E, U256_eq. destruct Hv as [-> | ->]; reflexivity.
Qed.

Lemma put_block64_eq_spec v h blk t0 t1 :
  v = S.blake384 \/ v = S.blake512 -> h_shape h -> length blk = 128 ->
  to_list (put_block64 h blk (t0, t1)) = S.compress_v v (to_list h) (S.block_words v blk) t0 t1
  /\ h_shape (put_block64 h blk (t0, t1)).
Proof.
  intros Hv [H0 H1] Hb. unfold put_block64, to_list, h_shape.
  rewrite read_words_64 by assumption.
  pose proof (put_block_words_eq_spec (addw 64) N.lxor (rotrw 64 32) (rotrw 64 25) (rotrw 64 16) (rotrw 64 11)
                (addw_swap 64) N.lxor_comm BLAKE512_U 16 h (S.block_words S.blake512 blk) t0 t1) as P.
  destruct P as (E & L0 & L1); [reflexivity|reflexivity|lia|assumption|assumption|].
  split; [|split; assumption].
  rewrite E, U512_eq. destruct Hv as [-> | ->]; reflexivity.
Qed.
