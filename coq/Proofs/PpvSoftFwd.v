(** C12 soft.rs: the x2/x4 wrappers forward every method to each element; flat word view of wide values. *)
From Coq Require Import NArith List Bool Arith Lia.
From CC Require Import Lib.Words Lib.Bytes Lib.ListX Model.PpvSoft.
From CC Require Spec.Lanes.
Import ListNotations.
Local Open Scope N_scope.


(** * soft.rs: every forwarded method of x2 / x4 applies the element's method to each element *)
Section Forwards.
  Context {W : Type}.
  Variable d : W.
  Variable P : W -> Prop.

  (** relational form: if the element method returns normally with a result related to its
      operand by [R] on every element satisfying [P], so does the wide method, element by element *)
  Lemma x2_unop_rel (R : W -> W -> Prop) f v :
    (forall x, P x -> exists y, f x = Ok y /\ R x y) -> length v = 2%nat -> Forall P v ->
    exists r, x2_unop d f v = Ok r /\ Forall2 R v r.
  Proof.
    intros H L F. explode v. inversion F as [|? ? F0 F']; inversion F' as [|? ? F1 _]; subst.
    destruct (H _ F0) as [y0 [E0 R0]]. destruct (H _ F1) as [y1 [E1 R1]].
    exists [y0; y1]. unfold x2_unop. cbn [nth]. rewrite E0. cbn [obind]. rewrite E1. cbn [obind].
    split; [reflexivity | repeat constructor; assumption].
  Qed.
  Lemma x4_unop_rel (R : W -> W -> Prop) f v :
    (forall x, P x -> exists y, f x = Ok y /\ R x y) -> length v = 4%nat -> Forall P v ->
    exists r, x4_unop d f v = Ok r /\ Forall2 R v r.
  Proof.
    intros H L F. explode v.
    inversion F as [|? ? F0 F']; inversion F' as [|? ? F1 F'']; inversion F'' as [|? ? F2 F''']; inversion F''' as [|? ? F3 _]; subst.
    destruct (H _ F0) as [y0 [E0 R0]]. destruct (H _ F1) as [y1 [E1 R1]].
    destruct (H _ F2) as [y2 [E2 R2]]. destruct (H _ F3) as [y3 [E3 R3]].
    exists [y0; y1; y2; y3]. unfold x4_unop. cbn [nth].
    rewrite E0. cbn [obind]. rewrite E1. cbn [obind]. rewrite E2. cbn [obind]. rewrite E3. cbn [obind].
    split; [reflexivity | repeat constructor; assumption].
  Qed.

  (** functional form *)
  Lemma x2_unop_forwards f g v :
    (forall x, P x -> f x = Ok (g x)) -> length v = 2%nat -> Forall P v -> x2_unop d f v = Ok (map g v).
  Proof.
    intros H L F. explode v. inversion F as [|? ? F0 F']; inversion F' as [|? ? F1 _]; subst.
    unfold x2_unop. cbn [nth]. rewrite (H _ F0). cbn [obind]. rewrite (H _ F1). reflexivity.
  Qed.
  Lemma x4_unop_forwards f g v :
    (forall x, P x -> f x = Ok (g x)) -> length v = 4%nat -> Forall P v -> x4_unop d f v = Ok (map g v).
  Proof.
    intros H L F. explode v.
    inversion F as [|? ? F0 F']; inversion F' as [|? ? F1 F'']; inversion F'' as [|? ? F2 F''']; inversion F''' as [|? ? F3 _]; subst.
    unfold x4_unop. cbn [nth]. rewrite (H _ F0). cbn [obind]. rewrite (H _ F1). cbn [obind].
    rewrite (H _ F2). cbn [obind]. rewrite (H _ F3). reflexivity.
  Qed.
  Lemma x2_binop_forwards f g a b :
    (forall x y, P x -> P y -> f x y = Ok (g x y)) ->
    length a = 2%nat -> length b = 2%nat -> Forall P a -> Forall P b ->
    x2_binop d f a b = Ok (map2 g a b).
  Proof.
    intros H La Lb Fa Fb. explode a. explode b.
    inversion Fa as [|? ? A0 Fa']; inversion Fa' as [|? ? A1 _]; subst.
    inversion Fb as [|? ? B0 Fb']; inversion Fb' as [|? ? B1 _]; subst.
    unfold x2_binop. cbn [nth]. rewrite (H _ _ A0 B0). cbn [obind]. rewrite (H _ _ A1 B1). reflexivity.
  Qed.
  Lemma x4_binop_forwards f g a b :
    (forall x y, P x -> P y -> f x y = Ok (g x y)) ->
    length a = 4%nat -> length b = 4%nat -> Forall P a -> Forall P b ->
    x4_binop d f a b = Ok (map2 g a b).
  Proof.
    intros H La Lb Fa Fb. explode a. explode b.
    inversion Fa as [|? ? A0 Fa']; inversion Fa' as [|? ? A1 Fa'']; inversion Fa'' as [|? ? A2 Fa''']; inversion Fa''' as [|? ? A3 _]; subst.
    inversion Fb as [|? ? B0 Fb']; inversion Fb' as [|? ? B1 Fb'']; inversion Fb'' as [|? ? B2 Fb''']; inversion Fb''' as [|? ? B3 _]; subst.
    unfold x4_binop. cbn [nth]. rewrite (H _ _ A0 B0). cbn [obind]. rewrite (H _ _ A1 B1). cbn [obind].
    rewrite (H _ _ A2 B2). cbn [obind]. rewrite (H _ _ A3 B3). reflexivity.
  Qed.
End Forwards.

(** * the flat word view of a wide value is the concatenation of its lanes *)
Lemma map2_app {A B C} (f : A -> B -> C) a a' b b' :
  length a = length b -> map2 f (a ++ a') (b ++ b') = map2 f a b ++ map2 f a' b'.
Proof.
  revert b. induction a as [|x a IH]; intros [|y b] L; try discriminate; [reflexivity|].
  cbn [app map2]. f_equal. apply IH. now inversion L.
Qed.
Lemma map2_concat {A B C} (f : A -> B -> C) a b :
  Forall2 (fun x y => length x = length y) a b ->
  map2 f (concat a) (concat b) = concat (map2 (map2 f) a b).
Proof.
  induction 1 as [|x y a b L _ IH]; [reflexivity|].
  cbn [concat map2]. rewrite map2_app by exact L. now rewrite IH.
Qed.
Lemma lanes4_concat {A} (vs : list (list A)) fuel :
  Forall (fun l => length l = 4%nat) vs -> (length vs <= fuel)%nat -> Lanes.lanes4 fuel (concat vs) = vs.
Proof.
  revert fuel. induction vs as [|l vs IH]; intros fuel F Hf.
  - destruct fuel; reflexivity.
  - inversion F as [|? ? L F']; subst. explode l. destruct fuel; [cbn in Hf; lia|].
    cbn [concat app Lanes.lanes4]. f_equal. apply IH; [exact F' | cbn in Hf; lia].
Qed.
Lemma per_lane4_concat {A} (f : list A -> list A) (vs : list (list A)) :
  Forall (fun l => length l = 4%nat) vs -> Lanes.per_lane4 f (concat vs) = concat (map f vs).
Proof.
  intros F. unfold Lanes.per_lane4. rewrite lanes4_concat; [reflexivity | exact F |].
  clear f. induction F as [|l vs L _ IH]; [apply Nat.le_refl|].
  cbn [concat length]. rewrite app_length, L. lia.
Qed.
