(** BLAKE-224/256/384/512: the generic hasher record of Model/Hasher.v built from the REAL
    functions of Model/Blake.v (the per-block closure of [update] with [increase_count] and
    [put_block32/64], [finalize] with all its [input_block] calls, [compressor_finalize]),
    shown (a) [hasher_ok], (b) to have the concrete model's digest as its one-shot
    function, hence (c) every history of operations returns the SPECIFIED digests
    (Spec/Blake.v) of the absorbed bytes.

    Route: the record is built from the concrete functions ([h_step] := the closure of
    [Model.Blake.update], [h_fin] := [Model.Blake.finalize] + output; a panic [None] is
    rendered as the empty digest, which the conformance theorem excludes below the bound);
    [hasher_ok] is proved for it directly: [finalize] reads the buffer only through
    [input_block] calls and the position, so it is blind to stale bytes. *)
From Coq Require Import NArith List Arith Lia Bool.
From CC Require Import Lib.Words Lib.Bytes Lib.ListX Model.BlockBuffer Model.Hasher
  Proofs.BlockBufferLazy Proofs.BlockBufferEager Proofs.Hasher Proofs.HasherComposeLib.
From CC Require Model.Blake Spec.Blake Proofs.BlakeMain.
Import ListNotations.
Module MB := CC.Model.Blake.
Module SB := CC.Spec.Blake.

(** one [input_block] call on two buffers with the same buffered bytes *)
Lemma input_block_eqv_ex b b' d : bb_wf b -> bb_eqv b b' ->
  exists b1 b1' o, input_block b d = (b1, o) /\ input_block b' d = (b1', o)
                   /\ bb_wf b1 /\ bb_eqv b1 b1'.
Proof.
  intros W E. pose proof (input_block_wf b d W) as W1.
  destruct (input_block_eqv b b' d W E) as [Eo Eb].
  destruct (input_block b d) as [b1 o], (input_block b' d) as [b1' o']. cbn [fst snd] in *.
  subst o'. now exists b1, b1', o.
Qed.

Section Real.
Variable H : Type.
Variable put : H -> list N -> N * N -> H.
Variable w : N.
Variable wb : nat.
Variable isfull : bool.
Variable post : H -> list N.     (* output bytes from the final chaining value *)

(** [finalize_into_dirty] on state [(compressor, t)] and buffer; a panic gives [[]] *)
Definition blake_fin_real (s : H * (N * N)) (b : bb) : list N :=
  match MB.finalize H put w wb isfull (MB.Hasher H (fst s) b (snd s)) with
  | Some h => post h
  | None => []
  end.

(** the closure of [update] *)
Definition blake_step_real (ct : H * (N * N)) (blk : list N) : H * (N * N) :=
  let t' := MB.increase_count w (snd ct) (N.of_nat (wb * 16)) in (put (fst ct) blk t', t').

Definition blake_real (iv : H) : hasher (H * (N * N)) (list N) :=
  Hasher (MB.bufsz wb) false (iv, (0%N, 0%N)) (fun s _ => s) blake_step_real blake_fin_real.

(** [finalize] does not read stale buffer bytes *)
Lemma blake_finalize_eqv c t b b' : bb_wf b -> bb_eqv b b' ->
  MB.finalize H put w wb isfull (MB.Hasher H c b t) = MB.finalize H put w wb isfull (MB.Hasher H c b' t).
Proof.
  intros W E. unfold MB.finalize. cbn [MB.compressor MB.buffer MB.t].
  assert (Ep : bb_pos b' = bb_pos b) by (symmetry; apply E). rewrite Ep.
  destruct (MB.bufsz wb <? bb_pos b + (1 + 2 * wb)) eqn:Ex; cbv beta iota zeta; rewrite ?Ep.
  - match goal with |- context [input_block b ?d] =>
      destruct (input_block_eqv_ex b b' d W E) as (b1 & b1' & o1 & -> & -> & W1 & E1) end.
    assert (Ep1 : bb_pos b1' = bb_pos b1) by (symmetry; apply E1). rewrite Ep1.
    match goal with |- context [input_block b1 ?d] =>
      destruct (input_block_eqv_ex b1 b1' d W1 E1) as (b2 & b2' & o2 & -> & -> & W2 & E2) end.
    match goal with |- context [input_block b2 ?d] =>
      destruct (input_block_eqv_ex b2 b2' d W2 E2) as (b3 & b3' & o3 & -> & -> & W3 & E3) end.
    match goal with |- context [input_block b3 ?d] =>
      destruct (input_block_eqv_ex b3 b3' d W3 E3) as (b4 & b4' & o4 & -> & -> & W4 & E4) end.
    assert (Ep4 : bb_pos b4' = bb_pos b4) by (symmetry; apply E4). rewrite Ep4. reflexivity.
  - match goal with |- context [input_block b ?d] =>
      destruct (input_block_eqv_ex b b' d W E) as (b2 & b2' & o2 & -> & -> & W2 & E2) end.
    match goal with |- context [input_block b2 ?d] =>
      destruct (input_block_eqv_ex b2 b2' d W2 E2) as (b3 & b3' & o3 & -> & -> & W3 & E3) end.
    match goal with |- context [input_block b3 ?d] =>
      destruct (input_block_eqv_ex b3 b3' d W3 E3) as (b4 & b4' & o4 & -> & -> & W4 & E4) end.
    assert (Ep4 : bb_pos b4' = bb_pos b4) by (symmetry; apply E4). rewrite Ep4. reflexivity.
Qed.

Lemma blake_fin_real_ok : fin_ok blake_fin_real.
Proof. intros s b b' W E. unfold blake_fin_real. now rewrite (blake_finalize_eqv _ _ b b' W E). Qed.

(** (a) *)
Lemma blake_real_ok iv : 0 < wb -> hasher_ok (blake_real iv).
Proof.
  intros Hwb. apply hasher_ok_id_pre; [unfold MB.bufsz; lia|apply blake_fin_real_ok].
Qed.

(** (b) the one-shot function of the record is [new; update; finalize; output] of the model *)
Lemma blake_real_oneshot iv msg :
  h_oneshot (blake_real iv) msg
  = match MB.finalize H put w wb isfull (MB.update H put w wb (MB.new H wb iv) msg) with
    | Some h => post h
    | None => []
    end.
Proof.
  unfold h_oneshot, h_finalize, h_update, h_new, blake_real.
  cbn [h_size h_lazy h_init h_pre h_step h_fin i_st i_buf bb_input fst snd].
  unfold MB.update, MB.new. cbn [MB.compressor MB.buffer MB.t].
  destruct (input_block (bb_new (MB.bufsz wb)) msg) as [b blocks]. cbn [fst snd].
  unfold blake_fin_real, blake_step_real.
  destruct (fold_left _ blocks (iv, (0%N, 0%N))) as [c t']. cbn [fst snd]. reflexivity.
Qed.
(** more than (b): the record and the concrete model move in lock-step from EVERY state *)
Definition blake_to_model (i : inst (H * (N * N))) : MB.hasher H :=
  MB.Hasher H (fst (i_st i)) (i_buf i) (snd (i_st i)).

Lemma blake_real_new_sim iv : blake_to_model (h_new (blake_real iv)) = MB.new H wb iv.
Proof. reflexivity. Qed.

Lemma blake_real_update_sim iv i d :
  blake_to_model (h_update (blake_real iv) i d) = MB.update H put w wb (blake_to_model i) d.
Proof.
  destruct i as [[c t] b].
  unfold h_update, blake_real, blake_to_model, MB.update.
  cbn [h_size h_lazy h_init h_pre h_step h_fin i_st i_buf bb_input fst snd MB.compressor MB.buffer MB.t].
  destruct (input_block b d) as [b1 blocks]. cbn [fst snd]. unfold blake_step_real.
  destruct (fold_left _ blocks (c, t)) as [c' t']. reflexivity.
Qed.

Lemma blake_real_finalize_sim iv i :
  h_finalize (blake_real iv) i
  = match MB.finalize H put w wb isfull (blake_to_model i) with Some h => post h | None => [] end.
Proof. reflexivity. Qed.
End Real.

(** * the four types *)
Definition blake_out_bytes (wb n : nat) (h : MB.row * MB.row) : list N := firstn n (MB.compressor_finalize wb h).

Definition blake224_real := blake_real _ MB.put_block32 32 4 false (blake_out_bytes 4 28) MB.BLAKE224_IV.
Definition blake256_real := blake_real _ MB.put_block32 32 4 true (blake_out_bytes 4 32) MB.BLAKE256_IV.
Definition blake384_real := blake_real _ MB.put_block64 64 8 false (blake_out_bytes 8 48) MB.BLAKE384_IV.
Definition blake512_real := blake_real _ MB.put_block64 64 8 true (blake_out_bytes 8 64) MB.BLAKE512_IV.

Lemma blake_reals_ok :
  hasher_ok blake224_real /\ hasher_ok blake256_real /\ hasher_ok blake384_real /\ hasher_ok blake512_real.
Proof. repeat split; apply blake_real_ok; lia. Qed.

Definition blake_or_nil (o : option (list N)) : list N := match o with Some d => d | None => [] end.

(** one-shot function = the concrete model's [Digest::digest] ([None] = panic as [[]]) *)
Lemma blake_reals_oneshot msg :
  h_oneshot blake224_real msg = blake_or_nil (MB.blake224 msg)
  /\ h_oneshot blake256_real msg = blake_or_nil (MB.blake256 msg)
  /\ h_oneshot blake384_real msg = blake_or_nil (MB.blake384 msg)
  /\ h_oneshot blake512_real msg = blake_or_nil (MB.blake512 msg).
Proof.
  repeat split;
    [unfold blake224_real, MB.blake224|unfold blake256_real, MB.blake256
    |unfold blake384_real, MB.blake384|unfold blake512_real, MB.blake512];
    rewrite blake_real_oneshot; unfold MB.digest_gen, blake_out_bytes;
    match goal with |- context [MB.finalize ?a ?b ?c ?d ?e ?f] => destruct (MB.finalize a b c d e f) end;
    reflexivity.
Qed.

Local Open Scope N_scope.
Definition blake_bound (k : N) (m : list N) : Prop := 8 * N.of_nat (length m) < 2 ^ k.

Lemma blake224_real_spec m : blake_bound 64 m -> h_oneshot blake224_real m = SB.hash SB.blake224 m.
Proof. intros Hm. destruct (blake_reals_oneshot m) as (-> & _). now rewrite BlakeMain.blake224_eq_spec. Qed.
Lemma blake256_real_spec m : blake_bound 64 m -> h_oneshot blake256_real m = SB.hash SB.blake256 m.
Proof. intros Hm. destruct (blake_reals_oneshot m) as (_ & -> & _). now rewrite BlakeMain.blake256_eq_spec. Qed.
Lemma blake384_real_spec m : blake_bound 128 m -> h_oneshot blake384_real m = SB.hash SB.blake384 m.
Proof. intros Hm. destruct (blake_reals_oneshot m) as (_ & _ & -> & _). now rewrite BlakeMain.blake384_eq_spec. Qed.
Lemma blake512_real_spec m : blake_bound 128 m -> h_oneshot blake512_real m = SB.hash SB.blake512 m.
Proof. intros Hm. destruct (blake_reals_oneshot m) as (_ & _ & _ & ->). now rewrite BlakeMain.blake512_eq_spec. Qed.

(** (c) capstones: every history whose hashed messages are shorter than 2^64 bits
    (BLAKE-224/256) resp. 2^128 bits (BLAKE-384/512) returns the specified digests *)
Theorem blake224_history ops : ops_bounded (blake_bound 64) ops ->
  snd (run blake224_real [Some (h_new blake224_real)] ops) = snd (srun (SB.hash SB.blake224) [Some []] ops).
Proof. apply compose_history; [apply blake_reals_ok|exact blake224_real_spec]. Qed.
Theorem blake256_history ops : ops_bounded (blake_bound 64) ops ->
  snd (run blake256_real [Some (h_new blake256_real)] ops) = snd (srun (SB.hash SB.blake256) [Some []] ops).
Proof. apply compose_history; [apply blake_reals_ok|exact blake256_real_spec]. Qed.
Theorem blake384_history ops : ops_bounded (blake_bound 128) ops ->
  snd (run blake384_real [Some (h_new blake384_real)] ops) = snd (srun (SB.hash SB.blake384) [Some []] ops).
Proof. apply compose_history; [apply blake_reals_ok|exact blake384_real_spec]. Qed.
Theorem blake512_history ops : ops_bounded (blake_bound 128) ops ->
  snd (run blake512_real [Some (h_new blake512_real)] ops) = snd (srun (SB.hash SB.blake512) [Some []] ops).
Proof. apply compose_history; [apply blake_reals_ok|exact blake512_real_spec]. Qed.

(** from a bound on the bytes passed to [Update] alone *)
Theorem blake_history_update_bytes ops :
  8 * N.of_nat (length (update_bytes ops)) < 2 ^ 64 ->
  snd (run blake224_real [Some (h_new blake224_real)] ops) = snd (srun (SB.hash SB.blake224) [Some []] ops)
  /\ snd (run blake256_real [Some (h_new blake256_real)] ops) = snd (srun (SB.hash SB.blake256) [Some []] ops)
  /\ snd (run blake384_real [Some (h_new blake384_real)] ops) = snd (srun (SB.hash SB.blake384) [Some []] ops)
  /\ snd (run blake512_real [Some (h_new blake512_real)] ops) = snd (srun (SB.hash SB.blake512) [Some []] ops).
Proof.
  intros Hn.
  assert (B64 : ops_bounded (blake_bound 64) ops).
  { apply (ops_bounded_of_update_bytes _ (fun _ => True)); [apply Forall_forall; trivial|].
    intros m Hl _. unfold blake_bound. lia. }
  assert (B128 : ops_bounded (blake_bound 128) ops).
  { apply (ops_bounded_of_update_bytes _ (fun _ => True)); [apply Forall_forall; trivial|].
    intros m Hl _. unfold blake_bound.
    assert (2 ^ 64 < 2 ^ 128) by (apply N.pow_lt_mono_r; lia). lia. }
  repeat split;
    [now apply blake224_history|now apply blake256_history|now apply blake384_history|now apply blake512_history].
Qed.

(** chunked one-instance form *)
Theorem blake256_chunks pieces : blake_bound 64 (concat pieces) ->
  h_finalize blake256_real (fold_left (h_update blake256_real) pieces (h_new blake256_real))
  = SB.hash SB.blake256 (concat pieces).
Proof. apply compose_chunks; [apply blake_reals_ok|exact blake256_real_spec]. Qed.
Theorem blake512_chunks pieces : blake_bound 128 (concat pieces) ->
  h_finalize blake512_real (fold_left (h_update blake512_real) pieces (h_new blake512_real))
  = SB.hash SB.blake512 (concat pieces).
Proof. apply compose_chunks; [apply blake_reals_ok|exact blake512_real_spec]. Qed.

(** * non-vacuity *)
Definition blake_ex_ops : list op :=
  [Update 0 [1; 2; 3]; Clone 0; FinalizeReset 0; Update 1 (repeat 7 70); Update 0 [9]; Finalize 1; Finalize 0].

Example blake256_history_example :
  snd (run blake256_real [Some (h_new blake256_real)] blake_ex_ops)
  = [(0%nat, SB.hash SB.blake256 [1; 2; 3]);
     (1%nat, SB.hash SB.blake256 ([1; 2; 3] ++ repeat 7 70));
     (0%nat, SB.hash SB.blake256 [9])].
Proof. vm_compute. reflexivity. Qed.

Example blake512_history_example :
  snd (run blake512_real [Some (h_new blake512_real)] blake_ex_ops)
  = [(0%nat, SB.hash SB.blake512 [1; 2; 3]);
     (1%nat, SB.hash SB.blake512 ([1; 2; 3] ++ repeat 7 70));
     (0%nat, SB.hash SB.blake512 [9])].
Proof. vm_compute. reflexivity. Qed.

Example blake_example_bounded : ops_bounded (blake_bound 64) blake_ex_ops.
Proof. repeat constructor; vm_compute; reflexivity. Qed.
