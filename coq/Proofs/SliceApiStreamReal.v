(** C16 — the addressed full model of [try_apply_keystream] with the REAL block producers of
    Model/ChaChaGuts.v ([real_refill1] = [refill], [real_refill4] = [refill_wide], any number of
    double rounds): no oracle, no hypothesis about the producers is left. Also: on the states a
    cipher can reach, the bytes of the slice afterwards are the specified key stream xor the
    bytes before (C02), at every address; and the simplified [m_apply] that the C16 runner
    uses is the special case of the full model for the real producers. *)
From Coq Require Import NArith ZArith List Arith Lia Bool.
From CC Require Import Lib.Words Lib.Bytes Lib.ListX Model.BlockBuffer Model.ChaChaGuts Model.ChaChaStream
  Model.SliceApi Model.SliceApiStream.
From CC Require Import Proofs.ChaChaGutsWords Proofs.ChaChaGuts Proofs.ChaChaGutsWide.
From CC Require Import Proofs.ChaChaStreamCtr Proofs.ChaChaStreamSpec Proofs.ChaChaStreamInv Proofs.ChaChaStreamHist
  Proofs.ChaChaStreamMain Proofs.ChaChaStreamReal.
From CC Require Import Proofs.SliceApi Proofs.SliceApiBuf Proofs.SliceApiStream.
Import ListNotations.

(** * the two hypotheses of Section Tie hold for the real producers on well-formed states *)
Lemma real_r1_ok dr st : wf st ->
  length (fst (real_refill1 dr st)) = 64 /\ wf (snd (real_refill1 dr st)).
Proof.
  intros H. unfold real_refill1. split.
  - apply refill_length, wf_len4, H.
  - unfold refill. cbn [snd]. apply inc_block_ct_wf, H.
Qed.

Lemma real_r4_ok dr st : wf st ->
  length (fst (real_refill4 dr st)) = 256 /\ wf (snd (real_refill4 dr st)).
Proof.
  intros W0. unfold real_refill4. rewrite (refill_wide_eq_inc_chain st dr W0). cbn [fst snd].
  pose proof (inc_block_ct_wf _ W0) as W1. pose proof (inc_block_ct_wf _ W1) as W2.
  pose proof (inc_block_ct_wf _ W2) as W3. pose proof (inc_block_ct_wf _ W3) as W4.
  split; [|exact W4].
  rewrite !app_length, !refill_length by (apply wf_len4; assumption). reflexivity.
Qed.

(** the buffer as the Rust type has it: [out : [u8; 64]], a state of 32-bit words *)
Definition real_buf_ok (b : buffer) : Prop := length (b_out b) = 64 /\ wf (b_state b).

Section Real.
  Variable dr : nat.
  Notation R1 := (real_refill1 dr).
  Notation R4 := (real_refill4 dr).

  (** (a)+(b)+(c) for the real producers: every memory, every slice base address and length,
      every buffer (any [have], [len], [fresh]) *)
  Theorem real_try_apply_spec is12 b m s :
    slice_ok m s -> real_buf_ok b ->
    exists m',
      a_try_apply R1 R4 is12 b m s
        = Some (fst (fst (try_apply R1 R4 is12 b (sbytes m s))), snd (fst (try_apply R1 R4 is12 b (sbytes m s))), m')
      /\ sbytes m' s = snd (try_apply R1 R4 is12 b (sbytes m s))
      /\ same_outside m m' s.
  Proof. exact (a_try_apply_spec R1 R4 wf (real_r1_ok dr) (real_r4_ok dr) is12 b m s). Qed.

  Theorem real_try_apply_in_bounds is12 b m s :
    slice_ok m s -> real_buf_ok b -> a_try_apply R1 R4 is12 b m s <> None.
  Proof. exact (a_try_apply_in_bounds R1 R4 wf (real_r1_ok dr) (real_r4_ok dr) is12 b m s). Qed.

  Theorem real_try_apply_writes_exactly is12 b m s r b' m' :
    slice_ok m s -> real_buf_ok b -> a_try_apply R1 R4 is12 b m s = Some (r, b', m') -> same_outside m m' s.
  Proof. exact (a_try_apply_writes_exactly R1 R4 wf (real_r1_ok dr) (real_r4_ok dr) is12 b m s r b' m'). Qed.

  Theorem real_try_apply_address_independent is12 b m1 s1 m2 s2 :
    slice_ok m1 s1 -> slice_ok m2 s2 -> real_buf_ok b -> sbytes m1 s1 = sbytes m2 s2 ->
    exists r b' m1' m2',
      a_try_apply R1 R4 is12 b m1 s1 = Some (r, b', m1')
      /\ a_try_apply R1 R4 is12 b m2 s2 = Some (r, b', m2')
      /\ sbytes m1' s1 = sbytes m2' s2.
  Proof. exact (a_try_apply_address_independent R1 R4 wf (real_r1_ok dr) (real_r4_ok dr) is12 b m1 s1 m2 s2). Qed.

  (** * on the states a cipher reaches (the stream invariant of C02/C11): the value *)
  Variable is12 : bool.
  Variable s0 : chacha.
  Hypothesis HS : stream_init is12 s0.
  Hypothesis Hwf : wf s0.
  Notation blk := (fun st => fst (refill st dr)).

  Lemma reachable_buf_ok b pos : reachable blk is12 s0 b pos -> length (b_out b) = 64 -> real_buf_ok b.
  Proof.
    intros (HC & _) Ho. split; [exact Ho|]. rewrite (co_state _ _ _ _ _ _ HC). apply seek64_wf, Hwf.
  Qed.

  (** every reachable buffer, every memory, every slice base address and length: the call stays
      inside the slice; within the stream's limit it returns Ok, the slice then holds its old
      bytes xor the SPECIFIED key stream from the current position, the successor is reachable
      at the advanced position; beyond the limit it returns Err and memory is untouched; it never
      panics; memory outside the slice is unchanged *)
  Theorem real_apply_reachable b pos m s :
    reachable blk is12 s0 b pos -> length (b_out b) = 64 ->
    slice_ok m s -> (N.of_nat (s_len s) < 2 ^ 64)%N ->
    exists r b' m',
      a_try_apply R1 R4 is12 b m s = Some (r, b', m')
      /\ same_outside m m' s /\ length (b_out b') = 64
      /\ if (pos + N.of_nat (s_len s) <=? 64 * nblocks is12)%N
         then r = ROk /\ sbytes m' s = xor_bytes (sbytes m s) (keystream blk is12 s0 pos (s_len s))
              /\ reachable blk is12 s0 b' (pos + N.of_nat (s_len s))%N
         else r = RErr /\ m' = m /\ reachable blk is12 s0 b' pos.
  Proof.
    intros HI Ho Hs Hn.
    pose proof (reachable_buf_ok b pos HI Ho) as Hb.
    destruct (real_try_apply_spec is12 b m s Hs Hb) as (m' & E & V & Hout).
    pose proof (try_apply_out_len R1 R4 wf (real_r1_ok dr) (real_r4_ok dr) is12 b (sbytes m s) Hb) as Hlen.
    pose proof (sbytes_length m s Hs) as Lb.
    destruct HS as (s0_len & s0_w1 & _).
    destruct (real_producers_wf dr s0 Hwf) as (blk_len & r1s & r4s).
    do 2 eexists. exists m'. split; [exact E|]. split; [exact Hout|]. split; [exact Hlen|].
    destruct (N.leb_spec (pos + N.of_nat (s_len s)) (64 * nblocks is12)) as [Hfit|Hover].
    - destruct (try_apply_ok R1 R4 blk is12 s0 s0_len blk_len r1s r4s s0_w1 b pos (sbytes m s) HI) as (b2 & E2 & HI2);
        rewrite ?Lb; try assumption.
      rewrite V, E2. cbn [fst snd]. rewrite Lb in *. auto.
    - destruct (try_apply_err R1 R4 blk is12 s0 s0_len blk_len r1s r4s s0_w1 b pos (sbytes m s) HI) as (b2 & E2 & HI2);
        rewrite ?Lb; try assumption.
      rewrite E2. cbn [fst snd]. split; [reflexivity|]. split; [|exact HI2].
      rewrite E2 in E. cbn [fst snd] in E.
      eapply a_try_apply_not_ok_untouched; [exact E | discriminate].
  Qed.

  (** the hypotheses are satisfiable: the buffer of a new cipher *)
  Lemma real_new_reachable :
    reachable blk is12 s0 (new_buffer is12 s0) 0 /\ length (b_out (new_buffer is12 s0)) = 64.
  Proof.
    split; [|reflexivity].
    exact (new_reachable R1 R4 blk is12 s0 HS (real_producers_wf dr s0 Hwf)).
  Qed.

  (** * the simplified [m_apply] (what Run/SliceApi.v evaluates) is the full model's special case,
      with the real producers: counter [c] stands for the state [stA s0 c] *)
  Theorem real_m_apply_is_special_case b c m s :
    (0 <= b_have b <= 64)%Z -> b_state b = stA s0 c ->
    a_apply_body R1 R4 true b m s
    = if limit_hit b (s_len s) then Some (RErr, b, m)
      else match m_apply (fun c => fst (R1 (stA s0 c))) (fun c => fst (R4 (stA s0 c))) m s
                   (KS (b_out b) (Z.to_nat (b_have b)) c) with
           | Some (m', st') =>
               Some (ROk, Buf (stA s0 (ks_ctr st')) (ks_out st') (Z.of_nat (ks_have st'))
                              (len_after b (s_len s)) (fresh_after b (s_len s)), m')
           | None => None
           end.
  Proof.
    destruct (real_producers_wf dr s0 Hwf) as (_ & r1s & r4s).
    apply (m_apply_is_special_case R1 R4 (stA s0)).
    - intros q. rewrite r1s. reflexivity.
    - intros q. rewrite r4s. reflexivity.
  Qed.
End Real.

(** * the full addressed model computes (sanity; toy producers of Proofs/ChaChaStreamMain.v):
    a seek to byte 10 leaves [have = -10]; applying 70 bytes at the odd address 3 fills lazily,
    drains 54 buffered bytes and runs one partial tail block; a seek to 3 bytes before the end
    of the 12-byte-nonce stream followed by 4 bytes returns Err and touches nothing *)
Definition ex_mem : mem := [7; 7; 7]%N ++ repeat 0%N 70 ++ [9; 9]%N.
Definition ex_b (p : Z) : buffer := snd (try_seek true (new_buffer true toy_s0) p).

Example a_try_apply_example :
  b_have (ex_b 10) = (-10)%Z
  /\ (exists b' m', a_try_apply toy_refill1 toy_refill4 true (ex_b 10) ex_mem (Sl 3 70) = Some (ROk, b', m')
        /\ b_have b' = 48%Z /\ firstn 3 m' = [7; 7; 7]%N /\ skipn 73 m' = [9; 9]%N
        /\ sbytes m' (Sl 3 70) = snd (try_apply toy_refill1 toy_refill4 true (ex_b 10) (repeat 0%N 70)))
  /\ a_try_apply toy_refill1 toy_refill4 true (ex_b (2 ^ 38 - 3)) ex_mem (Sl 3 4)
     = Some (RErr, snd (fst (try_apply toy_refill1 toy_refill4 true (ex_b (2 ^ 38 - 3)) [0; 0; 0; 0]%N)), ex_mem).
Proof.
  split; [reflexivity|]. split; [|vm_compute; reflexivity].
  do 2 eexists. split; [vm_compute; reflexivity|]. repeat split; vm_compute; reflexivity.
Qed.
