(** C20 — lemmas about the feature lattices and the selection functions of Model/Features.v. *)
From Coq Require Import String List NArith Bool.
From CC Require Import Model.Features.
Import ListNotations.
Open Scope string_scope.

(** * The lattice *)

Lemma lattice_sizes :
  map (fun c => length (points c)) all_crates = [4; 4; 2; 1; 2; 32; 16; 8; 1]%nat.
Proof. vm_compute. reflexivity. Qed.

Lemma lattice_total : total_points manifest = 70%nat.
Proof. vm_compute. reflexivity. Qed.

Lemma all_crates_complete : forall c, In c all_crates.
Proof. destruct c; vm_compute; tauto. Qed.

Fixpoint inb (p : point) (ps : list point) : bool :=
  match ps with [] => false | q :: r => strs_eqb p q || inb p r end.

Lemma strs_eqb_eq : forall a b, strs_eqb a b = true -> a = b.
Proof.
  induction a as [|x a IH]; destruct b as [|y b]; cbn; intros H; try discriminate; auto.
  apply andb_prop in H as [H1 H2]. apply String.eqb_eq in H1. subst. f_equal. now apply IH.
Qed.

Lemma inb_In : forall p ps, inb p ps = true -> In p ps.
Proof.
  induction ps as [|q r IH]; cbn; intros H; [discriminate|].
  apply orb_prop in H as [H|H]; [left; symmetry; now apply strs_eqb_eq | right; auto].
Qed.

(** `default` expands to a point of the lattice, for every crate *)
Lemma default_is_point : forall c, In (default_point c) (points c).
Proof. intros c. apply inb_In. destruct c; vm_compute; reflexivity. Qed.

Lemma env_in_all_envs : forall e, In e all_envs.
Proof. intros [[] [] [] [] [] []]; vm_compute; tauto. Qed.

(** three rounds of [step] reach the fixed point on every lattice point: a fourth adds nothing new *)
Lemma closure_saturated :
  forallb (fun c => forallb (fun p =>
      forallb (fun f => mem f (closure (entry_of c) p)) (step (entry_of c) (closure (entry_of c) p)))
    (points c)) all_crates = true.
Proof. vm_compute. reflexivity. Qed.

(** * Features that occur in no cfg select nothing: adding one to any lattice point, in any
      environment, leaves the selection unchanged (finite sweep: 70 points x 64 environments) *)
Definition noop_check : bool :=
  forallb (fun c => forallb (fun p => forallb (fun f => forallb (fun e =>
      selection_eqb (select c (f :: p) e) (select c p e)) all_envs) (noop c)) (points c)) all_crates.

Lemma noop_check_ok : noop_check = true.
Proof. vm_compute. reflexivity. Qed.

Lemma selection_eqb_eq : forall a b, selection_eqb a b = true -> a = b.
Proof.
  destruct a, b; cbn; intros H; try discriminate; auto;
    repeat match goal with
           | H : _ && _ = true |- _ => apply andb_prop in H as [? ?]
           | H : Bool.eqb _ _ = true |- _ => apply Bool.eqb_prop in H; subst
           end; auto.
  destruct m, m0; try discriminate; reflexivity.
Qed.

Theorem noop_features_select_nothing :
  forall c p f e, In p (points c) -> In f (noop c) -> select c (f :: p) e = select c p e.
Proof.
  intros c p f e Hp Hf. apply selection_eqb_eq.
  pose proof noop_check_ok as H. unfold noop_check in H.
  rewrite forallb_forall in H. specialize (H c (all_crates_complete c)).
  rewrite forallb_forall in H. specialize (H p Hp).
  rewrite forallb_forall in H. specialize (H f Hf).
  rewrite forallb_forall in H. exact (H e (env_in_all_envs e)).
Qed.

(** what the default point selects (default CPU/target left open) *)
Lemma default_selections : forall e,
  select Blake (default_point Blake) e = SelDispatch (other_no_simd e) true false
  /\ select JH (default_point JH) e = SelDispatch (other_no_simd e) true false
  /\ select ChaCha (default_point ChaCha) e = SelDispatch (other_no_simd e) true true
  /\ select PpvLite86 (default_point PpvLite86) e = SelArch (other_no_simd e)
  /\ select Threefish (default_point Threefish) e = SelRounds (other_no_unroll e)
  /\ select Groestl (default_point Groestl) e = SelGroestl true (groestl_module true e).
Proof. intros e. repeat split. Qed.

(** every selection value the model distinguishes is reached at some lattice point: the
    lattice really selects *)
Lemma selections_reached :
  (exists p, In p (points ChaCha) /\ forall e, other_no_simd e = false -> select ChaCha p e = SelDispatch false false false)
  /\ (exists p, In p (points ChaCha) /\ forall e, select ChaCha p e = SelDispatch true true true)
  /\ (exists p, In p (points Threefish) /\ forall e, select Threefish p e = SelRounds true)
  /\ (exists p, In p (points PpvLite86) /\ forall e, select PpvLite86 p e = SelArch true)
  /\ (exists p, In p (points Groestl) /\ forall e, tgt_ssse3 e = false -> select Groestl p e = SelGroestl false GSse2).
Proof.
  repeat split.
  - exists []. split; [apply inb_In; vm_compute; reflexivity|]. intros e H. cbn. now rewrite H.
  - exists ["std"; "rustcrypto_api"; "no_simd"]. split; [apply inb_In; vm_compute; reflexivity|]. intros e. reflexivity.
  - exists ["no_unroll"]. split; [apply inb_In; vm_compute; reflexivity|]. intros e. reflexivity.
  - exists ["no_simd"]. split; [apply inb_In; vm_compute; reflexivity|]. intros e. reflexivity.
  - exists []. split; [apply inb_In; vm_compute; reflexivity|]. intros e H. cbn. unfold groestl_module. now rewrite H.
Qed.

(** * Running the selected implementation

    The meaning of the code a selection names is a parameter:
      [via_dispatch c no_simd std]  crate [c]'s algorithm when the ppv-lite86 dispatch macros
                                    expanded in it see the cargo-level inputs (no_simd, std)
      [arch_ops generic]            ppv-lite86's own Machine operations in module generic / x86_64
      [rounds c looped]             Threefish (and Skein over it) with looped / unrolled rounds
      [groestl_fn]                  tf512_impl, of512_impl, ... : each is ONE source function;
                                    compressor.rs instantiates it in the modules aes, ssse3, sse2,
                                    which differ only in their #[target_feature(enable = ..)]
                                    attributes (code generation: trusted base), so [module_fn]
                                    does not depend on the module
      [fixed c]                     crates with nothing to select
    The RustCrypto wrapper flag selects nothing inside `guts`; it only adds the wrapper. *)
Section Run.
  Variables (I O : Type).
  Variable via_dispatch : crate -> bool -> bool -> I -> O.
  Variable arch_ops : bool -> I -> O.
  Variable rounds : crate -> bool -> I -> O.
  Variable groestl_fn : I -> O.
  Variable fixed : crate -> I -> O.

  Definition module_fn (m : gmodule) : I -> O := groestl_fn.

  Definition run_sel (c : crate) (s : selection) (x : I) : O :=
    match s with
    | SelDispatch n st _ => via_dispatch c n st x
    | SelArch g => arch_ops g x
    | SelRounds l => rounds c l x
    | SelGroestl _ m => module_fn m x
    | SelFixed => fixed c x
    end.

  Definition run (c : crate) (p : point) (e : env) (x : I) : O := run_sel c (select c p e) x.

  (** what is needed from the other properties *)
  Definition dispatch_inputs_irrelevant := forall c n s n' s' x, via_dispatch c n s x = via_dispatch c n' s' x.
  Definition arch_irrelevant := forall g g' x, arch_ops g x = arch_ops g' x.
  Definition rounds_irrelevant := forall c l l' x, rounds c l x = rounds c l' x.

  Theorem selection_irrelevant :
    dispatch_inputs_irrelevant -> arch_irrelevant -> rounds_irrelevant ->
    forall c p p' e e' x, run c p e x = run c p' e' x.
  Proof.
    intros Hd Ha Hr c p p' e e' x. unfold run.
    destruct c; cbn [select run_sel]; auto.
  Qed.

  (** the parts that need nothing: Groestl, the crates without selection *)
  Theorem groestl_selection_irrelevant : forall p p' e e' x, run Groestl p e x = run Groestl p' e' x.
  Proof. reflexivity. Qed.

  Theorem fixed_selection_irrelevant :
    forall c, c = CryptoSimd \/ c = PpvNull -> forall p p' e e' x, run c p e x = run c p' e' x.
  Proof. intros c [-> | ->]; reflexivity. Qed.
End Run.
