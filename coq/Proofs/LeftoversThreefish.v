(** Work package audit-leftovers, item 1 (audit C09-F1).

    [C09_encrypt_eq_spec] is proved parametrically in the word operations and
    model and specification are then instantiated with the same [Lib/Words.v]
    definitions ([addw 64], [N.lxor], [rotlw 64], land/shift based).  Here the
    textbook operations are defined INDEPENDENTLY, in arithmetic form:

      add64a a b   = (a + b) mod 2^64
      rotl64a r x  = (x * 2^r) mod 2^64 + x / 2^(64 - r)      (0 < r < 64; x for r = 0)
      sub64a a b   = (a + 2^64 - b) mod 2^64
      rotr64a r x  = x / 2^r + (x * 2^(64 - r)) mod 2^64      (0 < r < 64; x for r = 0)

    and the index-wise specification of Spec/Threefish.v instantiated with them
    ([spec_encrypt_arith]) is proved equal to [spec_encrypt] for the three
    sizes - for EVERY input (no well-formedness hypothesis is needed: the first
    operand of every rotation is the result of an addition).  Hence the model
    of [encrypt_block] equals the arithmetic-form specification.  The word
    laws behind C10 ([mix]/[inv_mix]) are also given in arithmetic form. *)
From Coq Require Import ZArith NArith List Lia Arith Bool ZifyBool ZifyN.
From CC Require Import Lib.Words Lib.Bytes Lib.ListX.
From CC Require Spec.Threefish.
From CC Require Import Model.Threefish Proofs.Threefish64.
Import ListNotations.
Module SP := Spec.Threefish.
Local Open Scope N_scope.

(** * The textbook word operations, arithmetic form *)
Definition add64a (a b : N) : N := (a + b) mod 2 ^ 64.
Definition sub64a (a b : N) : N := (a + 2 ^ 64 - b) mod 2 ^ 64.
Definition rotl64a (r x : N) : N :=
  if r =? 0 then x else (x * 2 ^ r) mod 2 ^ 64 + x / 2 ^ (64 - r).
Definition rotr64a (r x : N) : N :=
  if r =? 0 then x else x / 2 ^ r + (x * 2 ^ (64 - r)) mod 2 ^ 64.

Lemma add64a_eq a b : add64a a b = SP.add64 a b.
Proof. unfold add64a, SP.add64. now rewrite addw_mod. Qed.

Lemma sub64a_eq a b : b < 2 ^ 64 -> sub64a a b = SP.sub64 a b.
Proof.
  intros Hb. unfold sub64a, SP.sub64. rewrite subw_mod.
  rewrite (N.mod_small b) by exact Hb. f_equal. lia.
Qed.

(** a sum of two numbers without a common bit is their [lor] *)
Lemma add_disjoint_lor a b : N.land a b = 0 -> a + b = N.lor a b.
Proof. intros H. rewrite N.add_nocarry_lxor by exact H. now apply N.lxor_lor. Qed.

Lemma rotl64a_eq r x : r < 64 -> x < 2 ^ 64 -> rotl64a r x = SP.rotl64 r x.
Proof.
  intros Hr Hx. unfold rotl64a, SP.rotl64. rewrite (N.mod_small r 64) by exact Hr.
  destruct (N.eqb_spec r 0) as [->|Hr0].
  - unfold rotlw. rewrite N.shiftl_0_r, N.sub_0_r.
    rewrite (N.shiftr_eq_0 x 64).
    + rewrite N.lor_0_r. symmetry. now apply wrap_small.
    + destruct (N.eq_dec x 0) as [->|Hx0]; [reflexivity|]. apply N.log2_lt_pow2; lia.
  - unfold rotlw.
    rewrite <- N.shiftl_mul_pow2, <- N.shiftr_div_pow2, <- wrap_mod.
    rewrite add_disjoint_lor.
    + apply N.bits_inj. intro i.
      rewrite N.lor_spec, !testbit_wrap, N.lor_spec, N.shiftr_spec'.
      destruct (N.ltb_spec i 64) as [Hi|Hi].
      * now rewrite !andb_true_r.
      * rewrite !andb_false_r. cbn [orb].
        apply (testbit_high 64); [exact Hx|lia].
    + apply N.bits_inj. intro i.
      rewrite N.land_spec, testbit_wrap, testbit_shiftl, N.shiftr_spec', N.bits_0.
      destruct (N.leb_spec r i) as [H|H]; [|reflexivity].
      rewrite (testbit_high 64 x (i + (64 - r))) by (assumption || lia).
      apply andb_false_r.
Qed.

Lemma rotr64a_eq r x : r < 64 -> x < 2 ^ 64 -> rotr64a r x = SP.rotr64 r x.
Proof.
  intros Hr Hx. unfold rotr64a, SP.rotr64. rewrite (N.mod_small r 64) by exact Hr.
  destruct (N.eqb_spec r 0) as [->|Hr0].
  - unfold rotrw. rewrite N.shiftr_0_r, N.sub_0_r.
    apply N.bits_inj. intro i.
    rewrite testbit_wrap, N.lor_spec, testbit_shiftl.
    destruct (N.ltb_spec i 64) as [Hi|Hi].
    + destruct (N.leb_spec 64 i); [lia|]. now rewrite orb_false_r, andb_true_r.
    + rewrite andb_false_r. apply (testbit_high 64); assumption.
  - unfold rotrw.
    rewrite <- N.shiftl_mul_pow2, <- N.shiftr_div_pow2, <- wrap_mod.
    rewrite add_disjoint_lor.
    + apply N.bits_inj. intro i.
      rewrite N.lor_spec, !testbit_wrap, N.lor_spec, N.shiftr_spec'.
      destruct (N.ltb_spec i 64) as [Hi|Hi].
      * now rewrite !andb_true_r.
      * rewrite !andb_false_r, orb_false_r.
        apply (testbit_high 64); [exact Hx|lia].
    + apply N.bits_inj. intro i.
      rewrite N.land_spec, testbit_wrap, testbit_shiftl, N.shiftr_spec', N.bits_0.
      destruct (N.ltb_spec i 64) as [Hi|Hi]; [|now rewrite andb_false_r, andb_false_r].
      destruct (N.leb_spec (64 - r) i) as [H|H]; [|now rewrite andb_false_r].
      rewrite (testbit_high 64 x (i + r)) by (assumption || lia).
      reflexivity.
Qed.

(** range of the arithmetic forms (so that they are operations on 64-bit words) *)
Lemma add64a_lt a b : add64a a b < 2 ^ 64.
Proof. rewrite add64a_eq. apply addw_lt. Qed.
Lemma rotl64a_lt r x : r < 64 -> x < 2 ^ 64 -> rotl64a r x < 2 ^ 64.
Proof. intros. rewrite rotl64a_eq by assumption. apply rotlw_lt. Qed.

(** * Congruence of the index-wise specification in its word operations *)
Section Cong.
  Variables (add add' xor : N -> N -> N) (rotl rotl' : N -> N -> N) (c240 : N).
  Variable p : SP.params.
  Variables (P R : N -> Prop).
  Hypothesis Hadd : forall a b, add a b = add' a b.
  Hypothesis HaddP : forall a b, P (add' a b).
  Hypothesis HxorP : forall a b, P a -> P b -> P (xor a b).
  Hypothesis HrotP : forall r x, P (rotl' r x).
  Hypothesis P0 : P 0.
  Hypothesis Hrot : forall r x, R r -> P x -> rotl r x = rotl' r x.
  Hypothesis R0 : R 0.
  Hypothesis Rtab : Forall (Forall R) (SP.rot p).

  Lemma Forall_nth_d {A} (Q : A -> Prop) l i d : Forall Q l -> Q d -> Q (nth i l d).
  Proof.
    intros Hl Hd. revert i. induction Hl as [|x l Hx Hl IH]; intros [|i]; cbn [nth]; auto.
  Qed.

  Lemma nth2_R i j : R (nth2 i j (SP.rot p) 0).
  Proof.
    unfold nth2. apply Forall_nth_d; [|exact R0].
    apply (Forall_nth_d (Forall R)); [exact Rtab|constructor].
  Qed.

  Lemma map2_add_ext a b : map2 add a b = map2 add' a b.
  Proof.
    revert b; induction a as [|x a IH]; intros [|y b]; cbn [map2]; try reflexivity.
    now rewrite Hadd, IH.
  Qed.

  Lemma subkey_word_ext ek et s i :
    SP.subkey_word add p ek et s i = SP.subkey_word add' p ek et s i.
  Proof. unfold SP.subkey_word. now rewrite !Hadd. Qed.

  Lemma subkey_ext ek et s : SP.subkey add p ek et s = SP.subkey add' p ek et s.
  Proof. unfold SP.subkey. apply map_ext. intro i. apply subkey_word_ext. Qed.

  Lemma round_ext ek et d v :
    (d mod 4 = 0)%nat \/ Forall P v ->
    SP.round add xor rotl p ek et d v = SP.round add' xor rotl' p ek et d v.
  Proof.
    intros Hv. unfold SP.round.
    rewrite subkey_ext, map2_add_ext.
    set (e := if (d mod 4 =? 0)%nat then _ else v).
    assert (He : Forall P e).
    { subst e. destruct (Nat.eqb_spec (d mod 4) 0) as [E|E].
      - apply map2_Forall, HaddP.
      - destruct Hv as [Hv|Hv]; [contradiction|exact Hv]. }
    apply map_ext. intro i. f_equal.
    apply flat_map_ext. intro j. unfold SP.mix.
    rewrite Hadd, Hrot; [reflexivity|apply nth2_R|].
    apply Forall_nth_d; [exact He|exact P0].
  Qed.

  Lemma round_P ek et d v :
    (d mod 4 = 0)%nat \/ Forall P v ->
    Forall P (SP.round add' xor rotl' p ek et d v).
  Proof.
    intros Hv. unfold SP.round.
    set (e := if (d mod 4 =? 0)%nat then _ else v).
    apply Forall_forall. intros x Hx. apply in_map_iff in Hx. destruct Hx as [i [<- _]].
    apply Forall_nth_d; [|exact P0].
    apply Forall_flat_map, Forall_forall. intros j _. unfold SP.mix.
    constructor; [apply HaddP|constructor; [|constructor]].
    apply HxorP; [apply HrotP|apply HaddP].
  Qed.

  Lemma rounds_ext ek et l v :
    Forall P v ->
    fold_left (fun v d => SP.round add xor rotl p ek et d v) l v =
    fold_left (fun v d => SP.round add' xor rotl' p ek et d v) l v.
  Proof.
    intros Hv.
    apply (fold_left_ext_inv (Forall P)); [exact Hv| |].
    - intros a d Ha _. apply round_ext. now right.
    - intros a d Ha _. apply round_P. now right.
  Qed.

  Theorem encrypt_words_ext k t0 t1 v :
    SP.encrypt_words add xor rotl c240 p k t0 t1 v =
    SP.encrypt_words add' xor rotl' c240 p k t0 t1 v.
  Proof.
    unfold SP.encrypt_words. rewrite subkey_ext, map2_add_ext. f_equal.
    destruct (SP.nr p) as [|n]; [reflexivity|].
    cbn [seq fold_left].
    rewrite round_ext by (now left).
    apply rounds_ext. apply round_P. now left.
  Qed.
End Cong.

(** * The arithmetic-form specification *)
Definition spec_encrypt_words_arith (p : SP.params) :=
  SP.encrypt_words add64a N.lxor rotl64a SP.C240 p.

Definition spec_encrypt_arith (p : SP.params) (key : list N) (t0 t1 : N) (block : list N) : list N :=
  bytes_le 8 (spec_encrypt_words_arith p (words_le 8 key) t0 t1 (words_le 8 block)).

(** the rotation constants of the three sizes are < 64 (and non-zero: the
    [r = 0] branch of [rotl64a] is never taken on a table entry) *)
Definition rot_ok (p : SP.params) : bool :=
  forallb (forallb (fun r => (0 <? r) && (r <? 64))) (SP.rot p).

Lemma rot_ok_tab p : rot_ok p = true -> Forall (Forall (fun r => r < 64)) (SP.rot p).
Proof.
  unfold rot_ok. intros H. apply Forall_forall. intros row Hrow.
  apply Forall_forall. intros r Hr.
  rewrite forallb_forall in H. specialize (H row Hrow).
  rewrite forallb_forall in H. specialize (H r Hr). lia.
Qed.

Theorem spec_words_arith_eq p k t0 t1 v :
  rot_ok p = true ->
  spec_encrypt_words_arith p k t0 t1 v = SP.spec_encrypt_words p k t0 t1 v.
Proof.
  intros Hp. unfold spec_encrypt_words_arith, SP.spec_encrypt_words.
  apply (encrypt_words_ext add64a SP.add64 N.lxor rotl64a SP.rotl64 SP.C240 p
           (fun x => x < 2 ^ 64) (fun r => r < 64)).
  - apply add64a_eq.
  - intros. apply addw_lt.
  - intros. now apply lxor_lt.
  - intros. apply rotlw_lt.
  - reflexivity.
  - intros. now apply rotl64a_eq.
  - reflexivity.
  - now apply rot_ok_tab.
Qed.

Theorem spec_arith_eq p key t0 t1 block :
  p = SP.tf256 \/ p = SP.tf512 \/ p = SP.tf1024 ->
  spec_encrypt_arith p key t0 t1 block = SP.spec_encrypt p key t0 t1 block.
Proof.
  intros Hp. unfold spec_encrypt_arith, SP.spec_encrypt. f_equal.
  apply spec_words_arith_eq. destruct Hp as [-> | [-> | ->]]; reflexivity.
Qed.

(** the MODEL of [encrypt_block] equals the arithmetic-form specification *)
Theorem model_eq_spec_arith c nu key t0 t1 block :
  c = threefish256 \/ c = threefish512 \/ c = threefish1024 ->
  length block = (8 * n_w c)%nat ->
  m_encrypt c nu key t0 t1 block = spec_encrypt_arith (spec_of c) key t0 t1 block.
Proof.
  intros Hc Hl. rewrite threefish_encrypt_eq_spec by assumption.
  symmetry. apply spec_arith_eq.
  destruct Hc as [-> | [-> | ->]]; cbn; auto.
Qed.

(** word level, same statement *)
Theorem model_words_eq_spec_arith c nu k t0 t1 v :
  c = threefish256 \/ c = threefish512 \/ c = threefish1024 ->
  length v = n_w c ->
  m_encrypt_words c nu (m_with_tweak c k t0 t1) v = spec_encrypt_words_arith (spec_of c) k t0 t1 v.
Proof.
  intros Hc Hl. rewrite threefish_encrypt_words_eq_spec by assumption.
  symmetry. apply spec_words_arith_eq.
  destruct Hc as [-> | [-> | ->]]; reflexivity.
Qed.

(** * The word laws behind C10 in arithmetic form *)
Ltac Zify.zify_post_hook ::= Z.div_mod_to_equations.
Definition W64a (x : N) : Prop := x < 2 ^ 64.

Lemma sub_add_arith a b : W64a a -> W64a b -> sub64a (add64a a b) b = a.
Proof.
  unfold W64a, sub64a, add64a. intros Ha Hb.
  set (M := 2 ^ 64) in *. assert (0 < M) by (subst M; reflexivity). lia.
Qed.

Lemma add_sub_arith a b : W64a a -> W64a b -> add64a (sub64a a b) b = a.
Proof.
  unfold W64a, sub64a, add64a. intros Ha Hb.
  set (M := 2 ^ 64) in *. assert (0 < M) by (subst M; reflexivity). lia.
Qed.

Lemma rotr_rotl_arith r a : r < 64 -> W64a a -> rotr64a r (rotl64a r a) = a.
Proof.
  intros Hr Ha. rewrite rotl64a_eq by assumption.
  rewrite rotr64a_eq by (assumption || apply rotlw_lt).
  now apply rotr64_rotl64.
Qed.

Lemma rotl_rotr_arith r a : r < 64 -> W64a a -> rotl64a r (rotr64a r a) = a.
Proof.
  intros Hr Ha. rewrite rotr64a_eq by assumption.
  rewrite rotl64a_eq by (assumption || apply rotrw_lt).
  now apply rotl64_rotr64.
Qed.

(** [inv_mix] undoes [mix] (and conversely) with the arithmetic operations *)
Definition mix_a := mix add64a N.lxor rotl64a.
Definition inv_mix_a := inv_mix sub64a N.lxor rotr64a.

Theorem inv_mix_mix_arith r x0 x1 :
  r < 64 -> W64a x0 -> W64a x1 -> inv_mix_a r (mix_a r (x0, x1)) = (x0, x1).
Proof.
  intros Hr H0 H1. unfold inv_mix_a, mix_a, inv_mix, mix. cbn [fst snd].
  rewrite xor_c1, rotr_rotl_arith by assumption.
  now rewrite sub_add_arith.
Qed.

Theorem mix_inv_mix_arith r y0 y1 :
  r < 64 -> W64a y0 -> W64a y1 -> mix_a r (inv_mix_a r (y0, y1)) = (y0, y1).
Proof.
  intros Hr H0 H1. unfold inv_mix_a, mix_a, inv_mix, mix. cbn [fst snd].
  assert (Hx : W64a (N.lxor y0 y1)) by now apply lxor_lt.
  assert (Hrr : W64a (rotr64a r (N.lxor y0 y1))).
  { unfold W64a. rewrite rotr64a_eq by assumption. apply rotrw_lt. }
  rewrite add_sub_arith by assumption.
  rewrite rotl_rotr_arith by assumption.
  now rewrite xor_c2.
Qed.

(** the model's [mix]/[inv_mix] at the Lib/Words.v operations agree with the
    arithmetic ones on words *)
Theorem mix_model_eq_arith r x0 x1 :
  r < 64 -> W64a x1 ->
  mix add64 N.lxor rotl64 r (x0, x1) = mix_a r (x0, x1).
Proof.
  intros Hr H1. unfold mix_a, mix. cbn [fst snd].
  rewrite add64a_eq, rotl64a_eq by assumption. reflexivity.
Qed.

Theorem inv_mix_model_eq_arith r y0 y1 :
  r < 64 -> W64a y0 -> W64a y1 ->
  inv_mix sub64 N.lxor rotr64 r (y0, y1) = inv_mix_a r (y0, y1).
Proof.
  intros Hr H0 H1. unfold inv_mix_a, inv_mix. cbn [fst snd].
  assert (Hx : W64a (N.lxor y0 y1)) by now apply lxor_lt.
  rewrite rotr64a_eq by assumption.
  rewrite sub64a_eq by apply rotrw_lt. reflexivity.
Qed.

(** * Statements collected for Props/C09.v, Props/C10.v *)
(** the arithmetic operations ARE the textbook ones (by unfolding) *)
Lemma arith_ops_textbook :
  (forall a b, add64a a b = (a + b) mod 2 ^ 64) /\
  (forall a b, sub64a a b = (a + 2 ^ 64 - b) mod 2 ^ 64) /\
  (forall r x, 0 < r -> rotl64a r x = (x * 2 ^ r) mod 2 ^ 64 + x / 2 ^ (64 - r)) /\
  (forall r x, 0 < r -> rotr64a r x = x / 2 ^ r + (x * 2 ^ (64 - r)) mod 2 ^ 64) /\
  (forall x, rotl64a 0 x = x /\ rotr64a 0 x = x).
Proof.
  repeat split; try reflexivity; intros r x Hr; unfold rotl64a, rotr64a;
    destruct (N.eqb_spec r 0); (lia || reflexivity).
Qed.

(** and agree with the Lib/Words.v operations used by model and specification, on words *)
Lemma arith_ops_agree :
  (forall a b, add64a a b = SP.add64 a b) /\
  (forall a b, b < 2 ^ 64 -> sub64a a b = SP.sub64 a b) /\
  (forall r x, r < 64 -> x < 2 ^ 64 -> rotl64a r x = SP.rotl64 r x) /\
  (forall r x, r < 64 -> x < 2 ^ 64 -> rotr64a r x = SP.rotr64 r x).
Proof. exact (conj add64a_eq (conj sub64a_eq (conj rotl64a_eq rotr64a_eq))). Qed.

(** [spec_encrypt_arith] is the index-wise specification of Spec/Threefish.v at these operations *)
Lemma spec_encrypt_arith_unfold p key t0 t1 block :
  spec_encrypt_arith p key t0 t1 block
  = bytes_le 8 (SP.encrypt_words add64a N.lxor rotl64a SP.C240 p (words_le 8 key) t0 t1 (words_le 8 block)).
Proof. reflexivity. Qed.

Lemma mix_laws_arith r x0 x1 :
  r < 64 -> x0 < 2 ^ 64 -> x1 < 2 ^ 64 ->
  inv_mix sub64a N.lxor rotr64a r (mix add64a N.lxor rotl64a r (x0, x1)) = (x0, x1)
  /\ mix add64a N.lxor rotl64a r (inv_mix sub64a N.lxor rotr64a r (x0, x1)) = (x0, x1)
  /\ mix add64 N.lxor rotl64 r (x0, x1) = mix add64a N.lxor rotl64a r (x0, x1)
  /\ inv_mix sub64 N.lxor rotr64 r (x0, x1) = inv_mix sub64a N.lxor rotr64a r (x0, x1).
Proof.
  intros Hr H0 H1. split; [|split; [|split]].
  - now apply inv_mix_mix_arith.
  - now apply mix_inv_mix_arith.
  - now apply mix_model_eq_arith.
  - now apply inv_mix_model_eq_arith.
Qed.

(** sanity: the arithmetic operations on concrete words *)
Example rotl64a_ex : rotl64a 1 0x8000000000000001 = 3 /\ rotl64a 63 1 = 0x8000000000000000
                     /\ rotl64a 14 0xFFFEFDFCFBFAF9F8 = 0xBF7F3EFEBE7E3FFF.
Proof. vm_compute. auto. Qed.
Example add64a_ex : add64a 0xFFFFFFFFFFFFFFFF 2 = 1.
Proof. reflexivity. Qed.
