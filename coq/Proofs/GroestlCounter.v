(** Groestl part of C17: the block counter is exact from any entered state, and the
    digest continued from a state reached after [prior] blocks is the specified one
    (Spec.Groestl.hash_from), as long as the total stays below 2^64 blocks. *)
From Coq Require Import NArith List Arith Bool Lia.
From CC Require Import Lib.Words Lib.Bytes Lib.ListX Spec.AES Spec.Groestl
     Model.GroestlIntrinsics Model.BlockBuffer Model.Groestl Proofs.GroestlLayout Proofs.GroestlMix
     Proofs.GroestlRound Proofs.GroestlCompress Proofs.GroestlSchedule Proofs.GroestlHash.
Import ListNotations.

(** the counter after [update]: exactly the blocks completed, no wrap below 2^64 *)
Theorem count_exact c h buffered data :
  0 < c_bytes c -> holds (c_bytes c) (h_buf h) buffered ->
  (h_count h + N.of_nat ((length buffered + length data) / c_bytes c) < 2 ^ 64)%N ->
  h_count (update c h data) = (h_count h + N.of_nat ((length buffered + length data) / c_bytes c))%N
  /\ holds (c_bytes c) (h_buf (update c h data))
           (skipn (c_bytes c * ((length buffered + length data) / c_bytes c)) (buffered ++ data)).
Proof.
  intros Hbs Hh Hlt.
  destruct (update_char c h buffered data Hbs Hh ltac:(lia)) as (Uc & _ & Ub).
  rewrite app_length in Uc, Ub. split; [|exact Ub].
  rewrite Uc. unfold addw. apply wrap_small. exact Hlt.
Qed.

(** the count serialised at finalisation is prior + all blocks including padding *)
Theorem final_count_exact bs prior msg : 8 < bs ->
  (prior + N.of_nat (pad_blocks bs (length msg)) < 2 ^ 64)%N ->
  let out := finalize_dirty (comp_rec bs) (update (comp_rec bs) (H (bb_new bs) prior []) msg) in
  be_join (skipn (length out - 8) out) = (prior + N.of_nat (pad_blocks bs (length msg)))%N
  /\ length out = bs * pad_blocks bs (length msg).
Proof.
  intros Hbs Hlt out. subst out.
  rewrite hasher_schedule_recorded by assumption.
  split; [|now apply pad_from_length].
  now apply pad_from_count_bytes.
Qed.

Section FromState.
Variable S : N -> N.

Theorem from_state_512 (b : bb) (prior : N) (h buffered tail : list N) :
  length h = 64 -> holds 64 b buffered ->
  (prior + N.of_nat (pad_blocks 64 (length buffered + length tail)) < 2 ^ 64)%N ->
  let r := finalize_dirty (comp512 S) (update (comp512 S) (H b prior (LA h)) tail) in
  out256 r = hash_from S p512 32 h prior (buffered ++ tail).
Proof.
  intros Hh Hb Hlt r. subst r.
  rewrite (hasher_schedule (comp512 S) _ buffered tail); cbn [comp512 c_bytes c_of c_tf h_buf h_count h_cv];
    [|lia|exact Hb|exact Hlt].
  destruct (fold_tf512 S (blocks 64 (pad_from 64 prior (buffered ++ tail))) h) as [E L];
    [apply blocks_Forall_length|exact Hh|].
  rewrite E. unfold out256. change (8 * 4) with 32. rewrite of512_eq by exact L.
  unfold hash_from, trunc. cbn [block_bytes p512 cols]. change (8 * 8) with 64.
  now rewrite omega512_length by exact L.
Qed.

Theorem from_state_1024 (b : bb) (prior : N) (h buffered tail : list N) :
  length h = 128 -> holds 128 b buffered ->
  (prior + N.of_nat (pad_blocks 128 (length buffered + length tail)) < 2 ^ 64)%N ->
  let r := finalize_dirty (comp1024 S) (update (comp1024 S) (H b prior (L1024 h)) tail) in
  out512 r = hash_from S p1024 64 h prior (buffered ++ tail).
Proof.
  intros Hh Hb Hlt r. subst r.
  rewrite (hasher_schedule (comp1024 S) _ buffered tail); cbn [comp1024 c_bytes c_of c_tf h_buf h_count h_cv];
    [|lia|exact Hb|exact Hlt].
  destruct (fold_tf1024 S (blocks 128 (pad_from 128 prior (buffered ++ tail))) h) as [E L];
    [apply blocks_Forall_length|exact Hh|].
  rewrite E. unfold out512. change (8 * 8) with 64. rewrite of1024_eq by exact L.
  unfold hash_from, trunc. cbn [block_bytes p1024 cols]. change (8 * 16) with 128.
  now rewrite omega1024_length by exact L.
Qed.

Theorem from_state_384 (b : bb) (prior : N) (h buffered tail : list N) :
  length h = 128 -> holds 128 b buffered ->
  (prior + N.of_nat (pad_blocks 128 (length buffered + length tail)) < 2 ^ 64)%N ->
  let r := finalize_dirty (comp1024 S) (update (comp1024 S) (H b prior (L1024 h)) tail) in
  out384 r = hash_from S p1024 48 h prior (buffered ++ tail).
Proof.
  intros Hh Hb Hlt r. subst r.
  rewrite (hasher_schedule (comp1024 S) _ buffered tail); cbn [comp1024 c_bytes c_of c_tf h_buf h_count h_cv];
    [|lia|exact Hb|exact Hlt].
  destruct (fold_tf1024 S (blocks 128 (pad_from 128 prior (buffered ++ tail))) h) as [E L];
    [apply blocks_Forall_length|exact Hh|].
  rewrite E.
  set (hf := fold_left (f S p1024) (blocks 128 (pad_from 128 prior (buffered ++ tail))) h) in *.
  pose proof (of1024_eq S hf L) as T.
  unfold hash_from, trunc. cbn [block_bytes p1024 cols]. change (8 * 16) with 128.
  fold hf. rewrite omega1024_length by exact L.
  unfold out384. change (128 - 48) with 80. change (8 * 10) with 80.
  replace 80 with (64 + 16) by reflexivity. rewrite <- !skipn_add. now rewrite T.
Qed.

End FromState.

(** Groestl-224 cuts its digest with a 32-bit shift: needs byte-valued states *)
Theorem from_state_224 (b : bb) (prior : N) (h buffered tail : list N) :
  length h = 64 -> Forall is_byte h -> holds 64 b buffered ->
  (prior + N.of_nat (pad_blocks 64 (length buffered + length tail)) < 2 ^ 64)%N ->
  let r := finalize_dirty (comp512 sbox_fast) (update (comp512 sbox_fast) (H b prior (LA h)) tail) in
  out224 r = hash_from sbox_fast p512 28 h prior (buffered ++ tail).
Proof.
  intros Hh Bh Hb Hlt r. subst r.
  rewrite (hasher_schedule (comp512 sbox_fast) _ buffered tail); cbn [comp512 c_bytes c_of c_tf h_buf h_count h_cv];
    [|lia|exact Hb|exact Hlt].
  destruct (fold_tf512 sbox_fast (blocks 64 (pad_from 64 prior (buffered ++ tail))) h) as [E L];
    [apply blocks_Forall_length|exact Hh|].
  rewrite E.
  set (hf := fold_left (f sbox_fast p512) (blocks 64 (pad_from 64 prior (buffered ++ tail))) h) in *.
  set (r := concat (of512 sbox_fast (LA hf))).
  assert (T : skipn 32 r = skipn 32 (omega sbox_fast p512 hf)) by (apply of512_eq; exact L).
  assert (Lo : length (omega sbox_fast p512 hf) = 64) by (apply omega512_length; exact L).
  assert (Bo : Forall is_byte (omega sbox_fast p512 hf)).
  { apply omega_bytes; [exact sbox_fast_byte'|cbn; lia|].
    apply fold_f_bytes; [exact sbox_fast_byte'|cbn; lia|exact Bh]. }
  unfold hash_from, trunc. change (block_bytes p512) with 64. fold hf.
  unfold out224. rewrite Lo. change (64 - 28) with 36. change (8 * 5) with 40.
  replace (skipn 40 r) with (skipn 8 (skipn 32 r)) by (rewrite skipn_add; reflexivity).
  rewrite T.
  replace (skipn 36 (omega sbox_fast p512 hf)) with (skipn 4 (skipn 32 (omega sbox_fast p512 hf)))
    by (rewrite skipn_add; reflexivity).
  apply out224_cut; [rewrite skipn_length; lia|now apply Forall_skipn'].
Qed.

(** the counter really carries: 255 blocks absorbed + one more + padding = 0x0101 in the
    last two bytes; 2^32 - 1 prior blocks carry into the fifth byte *)
Example count_carry_8 :
  let out := finalize_dirty (comp_rec 64) (update (comp_rec 64) (H (bb_new 64) 255 []) (repeat 7%N 64)) in
  skipn (length out - 8) out = [0; 0; 0; 0; 0; 0; 1; 1]%N.
Proof. vm_compute. reflexivity. Qed.

Example count_carry_32 :
  let out := finalize_dirty (comp_rec 64) (update (comp_rec 64) (H (bb_new 64) (2^32 - 1) []) [1%N]) in
  skipn (length out - 8) out = [0; 0; 0; 1; 0; 0; 0; 0]%N.
Proof. vm_compute. reflexivity. Qed.
