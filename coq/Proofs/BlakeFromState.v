(** C17 (BLAKE part), work package c17-fromstate: the model of a hasher ENTERED through the
    state hook (chaining value, two-word bit counter, buffered bytes), continued by [update]
    and [finalize], equals the specification continued from that state:

      [Model.Blake.digest_from] (the function Run/Blake.v evaluates for hook cases [BH])
        = [Spec.Blake.hash_from] (the function Run/Blake.v compares it with)

    for every chaining value (8 words), every counter value that is a whole number of blocks,
    every buffered prefix shorter than a block and every tail, for the four variants; and the
    debug-profile overflow checks of [increase_count] do not fire while the total bit count
    stays below 2^(2w).

    [update_finalize_from]             any compressor: the (block, counter) sequence compressed is
                                       [Spec.Blake.schedule_from v K (buffered ++ tail)]
    [update_finalize_from_no_overflow] no overflow check fires below the format limit
    [digest_from_eq_spec]              digest level, generic in the variant
    [blake{224,256,384,512}_from_state_eq_spec]   the four variants, counter as [tpair w (8*bs*K)]
    [blake{224,256,384,512}_from_state_words]     the same in the vocabulary of Run/Blake.v:
                                       counter words t0, t1 and a flat list of 8 chaining words
    [blake{32,64}_from_state_no_overflow]         the overflow statement for t0, t1

    The schedule-level proof is the auditor's (Proofs/AuditExamplesHist.v, module BlakeFromState):
    [finalize_inv] of Proofs/BlakeSchedule.v with an arbitrary prior block count [K : N]. *)
From Coq Require Import NArith ZArith List Arith Lia Bool ZifyBool ZifyN.
From CC Require Import Lib.Words Lib.Bytes Lib.ListX Model.BlockBuffer Model.Blake.
From CC Require Spec.Blake.
From CC Require Import Proofs.BlakeBuffer Proofs.BlakeSchedule Proofs.BlakeCounter Proofs.BlakeRounds
  Proofs.BlakeMain.
Import ListNotations.
Ltac Zify.zify_post_hook ::= Z.div_mod_to_equations.

Section FromState.
  Variable v : S.variant.
  Variables (w : N) (wb : nat) (isfull : bool).
  Hypothesis Hcase : (w = 32%N /\ wb = 4) \/ (w = 64%N /\ wb = 8).
  Hypothesis Hw : S.wbits v = w.
  Hypothesis Hwb : S.wbytes v = wb.
  Hypothesis Hmk : S.marker v = (if isfull then 1 else 0)%N.
  Variable H : Type.
  Variable put : H -> list N -> N * N -> H.
  Local Notation bs := (16 * wb).
  Local Notation bsN := (N.of_nat (16 * wb)).
  Local Notation tpair := (BlakeSchedule.tpair w).
  Local Notation putf := (BlakeSchedule.putf w H put).

  Lemma finalize_from (K : N) (c : H) (b : bb) (rest : list N) :
    wfb bs b -> content b = rest ->
    finalize H put w wb isfull (Hasher H c b (tpair (8 * bsN * K))) =
      Some (fold_left putf (S.schedule_from v K rest) c).
  Proof.
    intros W C. cbn [compressor buffer t] in *.
    assert (Hpos : bb_pos b = length rest) by (rewrite <- C; symmetry; apply (content_length bs); exact W).
    assert (Hlt : length rest < bs) by (destruct W; lia).
    assert (Hwb8 : 0 < wb <= 8) by (destruct Hcase as [[_ ->]|[_ ->]]; lia).
    unfold finalize. cbn [compressor buffer t]. 
    rewrite (increase_count_tpair v w wb isfull Hcase Hw Hwb Hmk) by lia.
    replace (8 * bsN * K + 8 * N.of_nat (bb_pos b))%N
      with (8 * (K * bsN + N.of_nat (length rest)))%N by lia.
    set (len := (K * bsN + N.of_nat (length rest))%N).
    cbv zeta. unfold bufsz. rewrite !Hpos.
    replace (be_split wb (snd (tpair (8 * len))) ++ be_split wb (fst (tpair (8 * len))))
      with (be_split (wb + wb) (8 * len))
      by (unfold tpair; cbn [fst snd]; symmetry; apply be_split_pair; lia).
    assert (HP := PADDING_length).
    assert (Emk : forall x : bool, N.lor (if isfull then 1%N else 0%N) (if x then 0%N else 128%N)
                    = if x then S.marker v else (0x80 + S.marker v)%N).
    { intros x. rewrite Hmk. destruct isfull, x; reflexivity. }
    destruct (Nat.ltb_spec bs (length rest + (1 + 2 * wb))) as [Hx|Hx].
    - (* the header does not fit *)
      destruct (input_block_fill bs b (firstn (bs - length rest) PADDING) W) as (b1 & E1 & W1 & C1 & P1).
      { rewrite firstn_length, HP. lia. }
      rewrite E1. cbv beta iota. cbn [fold_left]. rewrite P1.
      change (Nat.eqb 0 0) with true. cbv beta iota.
      rewrite Nat.sub_0_r, (slice_PADDING_1 v w wb isfull Hcase Hw Hwb Hmk) by lia.
      destruct (input_block_small bs b1 (repeat 0%N (bs - (1 + 2 * wb))) W1) as (b2 & E2 & W2 & C2 & P2).
      { rewrite P1, repeat_length. lia. }
      rewrite E2. cbv beta iota.
      match goal with |- context [input_block b2 ?i] =>
        destruct (input_block_small bs b2 i W2) as (b3 & E3 & W3 & C3 & P3) end.
      { cbn [length]. rewrite P2, P1, repeat_length. lia. }
      rewrite E3. cbv beta iota.
      destruct (input_block_fill bs b3 (be_split (wb + wb) (8 * len)) W3) as (b4 & E4 & W4 & C4 & P4).
      { rewrite be_split_length, P3, P2, P1, repeat_length. cbn [length]. lia. }
      rewrite E4. cbv beta iota. rewrite P4. change (Nat.eqb 0 0) with true. cbn [andb fold_left].
      rewrite (sched_final_two v w wb isfull Hcase Hw Hwb) by lia.
      cbn [fold_left]. unfold putf. cbn [fst snd]. rewrite tpair_0. fold len. f_equal. f_equal.
      + f_equal. rewrite C, (firstn_PADDING v w wb isfull Hcase Hw Hwb Hmk) by lia. reflexivity.
      + rewrite C3, C2, C1. cbn [app].
        replace (Nat.eqb (length rest + (1 + 2 * wb)) bs) with false by (symmetry; apply Nat.eqb_neq; lia).
        cbn [negb]. rewrite (Emk true). rewrite <- !app_assoc.
        replace (bs - (1 + 2 * wb)) with (bs - (wb + wb) - 1) by lia. reflexivity.
    - (* the header fits *)
      cbv beta iota. rewrite Hpos.
      assert (Esl : forall q, slice PADDING 0 (0 + q) = firstn q PADDING).
      { intros q. unfold slice. cbn [skipn plus]. now rewrite Nat.sub_0_r. }
      rewrite Esl. set (q := bs - (1 + 2 * wb) - length rest).
      destruct (input_block_small bs b (firstn q PADDING) W) as (b1 & E1 & W1 & C1 & P1).
      { rewrite firstn_length, HP. unfold q. lia. }
      assert (Lq : length (firstn q PADDING) = q) by (rewrite firstn_length, HP; unfold q; lia).
      rewrite E1. cbv beta iota.
      match goal with |- context [input_block b1 ?i] =>
        destruct (input_block_small bs b1 i W1) as (b2 & E2 & W2 & C2 & P2) end.
      { cbn [length]. rewrite P1, Lq. unfold q. lia. }
      rewrite E2. cbv beta iota.
      destruct (input_block_fill bs b2 (be_split (wb + wb) (8 * len)) W2) as (b3 & E3 & W3 & C3 & P3).
      { rewrite be_split_length, P2, P1, Lq. cbn [length]. unfold q. lia. }
      rewrite E3. cbv beta iota. rewrite P3. change (Nat.eqb 0 0) with true. cbn [andb fold_left].
      rewrite (sched_final_one v w wb isfull Hcase Hw Hwb) by lia.
      cbn [fold_left]. unfold putf. cbn [fst snd]. fold len. f_equal.
      replace (tpair (if Nat.eqb (length rest) 0 then 0%N else (8 * len)%N))
        with (if Nat.eqb (length rest) 0 then (0%N, 0%N) else tpair (8 * len))
        by (destruct (Nat.eqb (length rest) 0); [now rewrite tpair_0|reflexivity]).
      f_equal. rewrite C2, C1, C. rewrite <- !app_assoc. f_equal.
      destruct (Nat.eqb_spec (length rest + (1 + 2 * wb)) bs) as [Ef|Ef]; cbn [negb].
      + replace q with 0 by (unfold q; lia).
        replace (bs - length rest - (wb + wb)) with 1 by lia.
        cbn [firstn app seq map]. rewrite (Emk false). reflexivity.
      + rewrite (firstn_PADDING v w wb isfull Hcase Hw Hwb Hmk) by (unfold q; lia).
        rewrite pad_explicit by lia. rewrite (Emk true). cbn [app]. rewrite <- !app_assoc. cbn [app].
        replace (bs - length rest - (wb + wb) - 2) with (q - 1) by (unfold q; lia). reflexivity.
  Qed.



  (** one [update] from an entered state, then [finalize]: the compressor is fed the specified
      schedule continued at block [K] over buffered bytes ++ tail *)
  Theorem update_finalize_from (K : N) (c : H) (b : bb) (buffered tail : list N) :
    wfb bs b -> content b = buffered ->
    finalize H put w wb isfull (update H put w wb (Hasher H c b (tpair (8 * bsN * K))) tail) =
      Some (fold_left putf (S.schedule_from v K (buffered ++ tail)) c).
  Proof.
    intros W C. rewrite update_unfold. cbn [compressor buffer t].
    destruct (input_block_spec bs b tail W) as (b' & E & W' & C'). rewrite E, C in *.
    rewrite (update_fold v w wb isfull Hcase Hw Hwb Hmk).
    set (L := buffered ++ tail) in *. set (n := length L / bs) in *.
    rewrite (finalize_from (K + N.of_nat n) _ b' (skipn (bs * n) L) W' C').
    f_equal.
    rewrite (sched_split v w wb isfull Hcase Hw Hwb Hmk n K L).
    - now rewrite fold_left_app.
    - unfold n. pose proof (bs_pos v w wb isfull Hcase Hw Hwb Hmk). apply Nat.mul_div_le. lia.
  Qed.

  (** the state after the [update] from the entered state: counter = bits of the blocks compressed *)
  Lemma update_from_shape (K : N) (c : H) (b : bb) (buffered tail : list N) :
    wfb bs b -> content b = buffered ->
    let L := buffered ++ tail in
    let s := update H put w wb (Hasher H c b (tpair (8 * bsN * K))) tail in
    t H s = tpair (8 * bsN * (K + N.of_nat (length L / bs)))
    /\ compressor H s = fold_left putf (full_sched wb K (length L / bs) L) c
    /\ wfb bs (buffer H s) /\ content (buffer H s) = skipn (bs * (length L / bs)) L.
  Proof.
    intros W C. cbv zeta. rewrite update_unfold. cbn [compressor buffer t].
    destruct (input_block_spec bs b tail W) as (b' & E & W' & C'). rewrite E, C in *.
    rewrite (update_fold v w wb isfull Hcase Hw Hwb Hmk). cbn [compressor buffer t].
    repeat split; try apply W'; auto.
  Qed.

  (** debug profile: none of the overflow-checked operations of [increase_count] fires in the
      [update] from the entered state nor in the following [finalize], while the total number
      of message bits (compressed before + buffered + tail) stays below the format limit *)
  Theorem update_finalize_from_no_overflow (K : N) (c : H) (b : bb) (buffered tail : list N) :
    wfb bs b -> content b = buffered ->
    (8 * bsN * K + 8 * N.of_nat (length buffered + length tail) < 2 ^ (2 * w))%N ->
    update_overflows H w wb (Hasher H c b (tpair (8 * bsN * K))) tail = false
    /\ finalize_overflows H w (update H put w wb (Hasher H c b (tpair (8 * bsN * K))) tail) = false.
  Proof.
    intros W C Hb.
    pose proof (bs_pos v w wb isfull Hcase Hw Hwb Hmk) as Hbs.
    set (L := buffered ++ tail).
    assert (HL : length L = length buffered + length tail) by (unfold L; now rewrite app_length).
    pose proof (Nat.mul_div_le (length L) bs ltac:(lia)) as Hn.
    split.
    - rewrite (update_overflows_unfold w wb H). cbn [buffer t].
      destruct (input_block_spec bs b tail W) as (b' & E & W' & C'). rewrite E, C in *. fold L.
      rewrite (ovf_fold w wb Hcase H put); [reflexivity|]. lia.
    - destruct (update_from_shape K c b buffered tail W C) as (Et & _ & W' & C'). fold L in Et, C'.
      unfold finalize_overflows. rewrite Et.
      assert (Hpos : bb_pos (buffer H (update H put w wb (Hasher H c b (tpair (8 * bsN * K))) tail))
                     = length L - bs * (length L / bs)).
      { rewrite <- (content_length bs _ W'), C', skipn_length. reflexivity. }
      rewrite Hpos.
      assert (Hlt : length L - bs * (length L / bs) < bs).
      { pose proof (Nat.div_mod (length L) bs ltac:(lia)). pose proof (Nat.mod_upper_bound (length L) bs ltac:(lia)). lia. }
      apply (increase_count_no_overflow w wb Hcase).
      + change (2 ^ 32)%N with 4294967296%N. destruct Hcase as [[_ ->]|[_ ->]]; lia.
      + lia.
  Qed.
End FromState.


(** digest level: [digest_from] (the model of hook-entered states) = [Spec.Blake.hash_from] *)
Section DigestFrom.
  Variable v : SB.variant.
  Variables (w : N) (wb : nat) (isfull : bool).
  Hypothesis Hcase : (w = 32%N /\ wb = 4) \/ (w = 64%N /\ wb = 8).
  Hypothesis Hw : SB.wbits v = w.
  Hypothesis Hwb : SB.wbytes v = wb.
  Hypothesis Hmk : SB.marker v = (if isfull then 1 else 0)%N.
  Variable put : row * row -> list N -> N * N -> row * row.
  Hypothesis put_spec : forall h blk t0 t1, h_shape h -> length blk = 16 * wb ->
    to_list (put h blk (t0, t1)) = SB.compress_v v (to_list h) (SB.block_words v blk) t0 t1
    /\ h_shape (put h blk (t0, t1)).
  Variable outbytes : nat.
  Hypothesis Hout : SB.outbytes v = outbytes.

  Lemma chain_sim_from sched h :
    h_shape h ->
    (forall bt, In bt sched -> length (fst bt) = 16 * wb) ->
    to_list (fold_left (putf w _ put) sched h) = fold_left (SB.chain v) sched (to_list h).
  Proof.
    intros Sh Hl.
    apply (fold_left_sim (fun a b => to_list a = b /\ h_shape a) (putf w _ put) (SB.chain v)).
    - intros a b bt Hin [<- Sa]. unfold putf, SB.chain. rewrite (tpair_spec v w Hw).
      apply put_spec; auto.
    - split; [reflexivity|exact Sh].
  Qed.

  Theorem digest_from_eq_spec (h : row * row) (K : N) (buffered tail : list N) :
    h_shape h -> length buffered < 16 * wb ->
    digest_from put w wb isfull outbytes h
      (fst (tpair w (8 * N.of_nat (16 * wb) * K))) (snd (tpair w (8 * N.of_nat (16 * wb) * K))) buffered tail
    = Some (SB.hash_from v (to_list h) K (buffered ++ tail)).
  Proof.
    intros Sh Hlen. unfold digest_from.
    assert (Hbs : 0 < 16 * wb) by (destruct Hcase as [[_ ->]|[_ ->]]; lia).
    destruct (wfb_new (16 * wb) Hbs) as [W0 C0].
    destruct (input_block_small (16 * wb) (bb_new (16 * wb)) buffered W0) as (b & E & W & C & _).
    { unfold bb_new. cbn [bb_pos]. lia. }
    rewrite E. cbn [fst]. rewrite C0 in C. cbn [app] in C.
    rewrite <- surjective_pairing.
    rewrite (update_finalize_from v w wb isfull Hcase Hw Hwb Hmk _ put K h b buffered tail W C).
    f_equal. unfold SB.hash_from, SB.output.
    rewrite <- chain_sim_from; [| exact Sh |].
    - rewrite <- Hwb, Hout. unfold compressor_finalize, to_list. now rewrite flat_map_app.
    - intros bt Hin. apply schedule_block_length in Hin.
      + rewrite Hin. unfold SB.block_bytes. now rewrite Hwb.
      + unfold SB.block_bytes. now rewrite Hwb.
  Qed.
End DigestFrom.
(** * the four variants, counter given as [tpair w (8 * block bytes * K)] *)
Theorem blake256_from_state_eq_spec h K buffered tail :
  h_shape h -> length buffered < 64 ->
  digest_from put_block32 32 4 true 32 h (fst (tpair 32 (512 * K))) (snd (tpair 32 (512 * K))) buffered tail
  = Some (SB.hash_from SB.blake256 (to_list h) K (buffered ++ tail)).
Proof.
  intros Sh Hl.
  apply (digest_from_eq_spec SB.blake256 32 4 true (or_introl (conj eq_refl eq_refl)) eq_refl eq_refl eq_refl
           put_block32); auto.
  intros h0 blk t0 t1 S0 L0. apply put_block32_eq_spec; auto.
Qed.
Theorem blake224_from_state_eq_spec h K buffered tail :
  h_shape h -> length buffered < 64 ->
  digest_from put_block32 32 4 false 28 h (fst (tpair 32 (512 * K))) (snd (tpair 32 (512 * K))) buffered tail
  = Some (SB.hash_from SB.blake224 (to_list h) K (buffered ++ tail)).
Proof.
  intros Sh Hl.
  apply (digest_from_eq_spec SB.blake224 32 4 false (or_introl (conj eq_refl eq_refl)) eq_refl eq_refl eq_refl
           put_block32); auto.
  intros h0 blk t0 t1 S0 L0. apply put_block32_eq_spec; auto.
Qed.
Theorem blake512_from_state_eq_spec h K buffered tail :
  h_shape h -> length buffered < 128 ->
  digest_from put_block64 64 8 true 64 h (fst (tpair 64 (1024 * K))) (snd (tpair 64 (1024 * K))) buffered tail
  = Some (SB.hash_from SB.blake512 (to_list h) K (buffered ++ tail)).
Proof.
  intros Sh Hl.
  apply (digest_from_eq_spec SB.blake512 64 8 true (or_intror (conj eq_refl eq_refl)) eq_refl eq_refl eq_refl
           put_block64); auto.
  intros h0 blk t0 t1 S0 L0. apply put_block64_eq_spec; auto.
Qed.
Theorem blake384_from_state_eq_spec h K buffered tail :
  h_shape h -> length buffered < 128 ->
  digest_from put_block64 64 8 false 48 h (fst (tpair 64 (1024 * K))) (snd (tpair 64 (1024 * K))) buffered tail
  = Some (SB.hash_from SB.blake384 (to_list h) K (buffered ++ tail)).
Proof.
  intros Sh Hl.
  apply (digest_from_eq_spec SB.blake384 64 8 false (or_intror (conj eq_refl eq_refl)) eq_refl eq_refl eq_refl
           put_block64); auto.
  intros h0 blk t0 t1 S0 L0. apply put_block64_eq_spec; auto.
Qed.

(** * the same in the vocabulary of Run/Blake.v ([eval_case], constructor [BH])

    The hook case carries the counter as two words [t0], [t1] and the chaining value as a flat
    list [hw] of 8 words; the runner evaluates the model on [(firstn 4 hw, skipn 4 hw)] and the
    specification at block index [(t0 + t1 * 2^w) / (8 * block bytes)].  The consistency
    hypothesis is that the counter is a whole number of blocks (it is, between [update] calls:
    [blake256_reachable_shape] below). *)
Local Open Scope N_scope.

Lemma tpair32_words t0 t1 : t0 < 2 ^ 32 -> t1 < 2 ^ 32 -> tpair 32 (t0 + t1 * 2 ^ 32) = (t0, t1).
Proof.
  unfold tpair. change (2 ^ 32) with 4294967296. intros H0 H1. f_equal; lia.
Qed.
Lemma tpair64_words t0 t1 : t0 < 2 ^ 64 -> t1 < 2 ^ 64 -> tpair 64 (t0 + t1 * 2 ^ 64) = (t0, t1).
Proof.
  unfold tpair. change (2 ^ 64) with 18446744073709551616. intros H0 H1. f_equal; lia.
Qed.
Lemma whole_blocks T b : b <> 0 -> T mod b = 0 -> b * (T / b) = T.
Proof. intros Hb Hm. pose proof (N.div_mod T b Hb). lia. Qed.

Lemma split_words (hw : list N) : length hw = 8%nat ->
  h_shape (firstn 4 hw, skipn 4 hw) /\ to_list (firstn 4 hw, skipn 4 hw) = hw.
Proof.
  intros L. unfold h_shape, to_list. cbn [fst snd].
  rewrite firstn_length, skipn_length, L, firstn_skipn. repeat split.
Qed.

Section Words32.
  Variables (hw : list N) (t0 t1 : N) (buffered tail : list N).
  Hypothesis Hhw : length hw = 8%nat.
  Hypothesis Ht0 : t0 < 2 ^ 32.
  Hypothesis Ht1 : t1 < 2 ^ 32.
  Hypothesis Hblk : (t0 + t1 * 2 ^ 32) mod 512 = 0.
  Hypothesis Hbuf : (length buffered < 64)%nat.

  Lemma words32_counter :
    (t0, t1) = tpair 32 (512 * ((t0 + t1 * 2 ^ 32) / 512)).
  Proof. rewrite whole_blocks by (try discriminate; exact Hblk). symmetry. now apply tpair32_words. Qed.

  Theorem blake256_from_state_words :
    digest_from put_block32 32 4 true 32 (firstn 4 hw, skipn 4 hw) t0 t1 buffered tail
    = Some (SB.hash_from SB.blake256 hw
              ((t0 + t1 * 2 ^ SB.wbits SB.blake256) / (8 * SB.block_N SB.blake256)) (buffered ++ tail)).
  Proof.
    change (SB.wbits SB.blake256) with 32. change (8 * SB.block_N SB.blake256) with 512.
    destruct (split_words hw Hhw) as [Sh E].
    pose proof (blake256_from_state_eq_spec _ ((t0 + t1 * 2 ^ 32) / 512) buffered tail Sh Hbuf) as T.
    rewrite <- words32_counter in T. cbn [fst snd] in T. rewrite E in T. exact T.
  Qed.
  Theorem blake224_from_state_words :
    digest_from put_block32 32 4 false 28 (firstn 4 hw, skipn 4 hw) t0 t1 buffered tail
    = Some (SB.hash_from SB.blake224 hw
              ((t0 + t1 * 2 ^ SB.wbits SB.blake224) / (8 * SB.block_N SB.blake224)) (buffered ++ tail)).
  Proof.
    change (SB.wbits SB.blake224) with 32. change (8 * SB.block_N SB.blake224) with 512.
    destruct (split_words hw Hhw) as [Sh E].
    pose proof (blake224_from_state_eq_spec _ ((t0 + t1 * 2 ^ 32) / 512) buffered tail Sh Hbuf) as T.
    rewrite <- words32_counter in T. cbn [fst snd] in T. rewrite E in T. exact T.
  Qed.

  (** debug profile: no overflow check fires, for ANY compressor state type and function *)
  Theorem blake32_from_state_no_overflow (X : Type) (put : X -> list N -> N * N -> X) (c : X) :
    t0 + t1 * 2 ^ 32 + 8 * N.of_nat (length buffered + length tail) < 2 ^ 64 ->
    let s0 := Hasher X c (fst (input_block (bb_new 64) buffered)) (t0, t1) in
    update_overflows X 32 4 s0 tail = false
    /\ finalize_overflows X 32 (update X put 32 4 s0 tail) = false.
  Proof.
    clear Hhw. clear hw. intros Hb. cbv zeta.
    destruct (wfb_new 64 ltac:(lia)) as [W0 C0].
    destruct (input_block_small 64 (bb_new 64) buffered W0) as (b & E & W & C & _).
    { unfold bb_new. cbn [bb_pos]. lia. }
    rewrite E. cbn [fst]. rewrite C0 in C. cbn [app] in C.
    rewrite words32_counter.
    apply (update_finalize_from_no_overflow SB.blake256 32 4 true (or_introl (conj eq_refl eq_refl))
             eq_refl eq_refl eq_refl X put ((t0 + t1 * 2 ^ 32) / 512) c b buffered tail W C).
    change (8 * N.of_nat (16 * 4)) with 512. rewrite whole_blocks by (try discriminate; exact Hblk).
    exact Hb.
  Qed.
End Words32.

Section Words64.
  Variables (hw : list N) (t0 t1 : N) (buffered tail : list N).
  Hypothesis Hhw : length hw = 8%nat.
  Hypothesis Ht0 : t0 < 2 ^ 64.
  Hypothesis Ht1 : t1 < 2 ^ 64.
  Hypothesis Hblk : (t0 + t1 * 2 ^ 64) mod 1024 = 0.
  Hypothesis Hbuf : (length buffered < 128)%nat.

  Lemma words64_counter :
    (t0, t1) = tpair 64 (1024 * ((t0 + t1 * 2 ^ 64) / 1024)).
  Proof. rewrite whole_blocks by (try discriminate; exact Hblk). symmetry. now apply tpair64_words. Qed.

  Theorem blake512_from_state_words :
    digest_from put_block64 64 8 true 64 (firstn 4 hw, skipn 4 hw) t0 t1 buffered tail
    = Some (SB.hash_from SB.blake512 hw
              ((t0 + t1 * 2 ^ SB.wbits SB.blake512) / (8 * SB.block_N SB.blake512)) (buffered ++ tail)).
  Proof.
    change (SB.wbits SB.blake512) with 64. change (8 * SB.block_N SB.blake512) with 1024.
    destruct (split_words hw Hhw) as [Sh E].
    pose proof (blake512_from_state_eq_spec _ ((t0 + t1 * 2 ^ 64) / 1024) buffered tail Sh Hbuf) as T.
    rewrite <- words64_counter in T. cbn [fst snd] in T. rewrite E in T. exact T.
  Qed.
  Theorem blake384_from_state_words :
    digest_from put_block64 64 8 false 48 (firstn 4 hw, skipn 4 hw) t0 t1 buffered tail
    = Some (SB.hash_from SB.blake384 hw
              ((t0 + t1 * 2 ^ SB.wbits SB.blake384) / (8 * SB.block_N SB.blake384)) (buffered ++ tail)).
  Proof.
    change (SB.wbits SB.blake384) with 64. change (8 * SB.block_N SB.blake384) with 1024.
    destruct (split_words hw Hhw) as [Sh E].
    pose proof (blake384_from_state_eq_spec _ ((t0 + t1 * 2 ^ 64) / 1024) buffered tail Sh Hbuf) as T.
    rewrite <- words64_counter in T. cbn [fst snd] in T. rewrite E in T. exact T.
  Qed.

  Theorem blake64_from_state_no_overflow (X : Type) (put : X -> list N -> N * N -> X) (c : X) :
    t0 + t1 * 2 ^ 64 + 8 * N.of_nat (length buffered + length tail) < 2 ^ 128 ->
    let s0 := Hasher X c (fst (input_block (bb_new 128) buffered)) (t0, t1) in
    update_overflows X 64 8 s0 tail = false
    /\ finalize_overflows X 64 (update X put 64 8 s0 tail) = false.
  Proof.
    clear Hhw. clear hw. intros Hb. cbv zeta.
    destruct (wfb_new 128 ltac:(lia)) as [W0 C0].
    destruct (input_block_small 128 (bb_new 128) buffered W0) as (b & E & W & C & _).
    { unfold bb_new. cbn [bb_pos]. lia. }
    rewrite E. cbn [fst]. rewrite C0 in C. cbn [app] in C.
    rewrite words64_counter.
    apply (update_finalize_from_no_overflow SB.blake512 64 8 true (or_intror (conj eq_refl eq_refl))
             eq_refl eq_refl eq_refl X put ((t0 + t1 * 2 ^ 64) / 1024) c b buffered tail W C).
    change (8 * N.of_nat (16 * 8)) with 1024. rewrite whole_blocks by (try discriminate; exact Hblk).
    exact Hb.
  Qed.
End Words64.

(** * instances: symbolic chaining value, counters around the carries *)
Definition ex_buffered : list N := map N.of_nat (seq 1 10).
Definition ex_tail : list N := map N.of_nat (seq 50 100).

(** BLAKE-256 entered one block below 2^32 bits (the carry into t.1 happens in the next
    compression), and one block above *)
Example blake256_from_state_below_2_32 : forall hw, length hw = 8%nat ->
  digest_from put_block32 32 4 true 32 (firstn 4 hw, skipn 4 hw) (2 ^ 32 - 512) 0 ex_buffered ex_tail
  = Some (SB.hash_from SB.blake256 hw (2 ^ 23 - 1) (ex_buffered ++ ex_tail)).
Proof.
  intros hw Hh.
  apply (blake256_from_state_words hw (2 ^ 32 - 512) 0 ex_buffered ex_tail Hh); first [vm_compute; reflexivity | vm_compute; lia].
Qed.
Example blake256_from_state_above_2_32 : forall hw, length hw = 8%nat ->
  digest_from put_block32 32 4 true 32 (firstn 4 hw, skipn 4 hw) 512 1 ex_buffered ex_tail
  = Some (SB.hash_from SB.blake256 hw (2 ^ 23 + 1) (ex_buffered ++ ex_tail)).
Proof.
  intros hw Hh.
  apply (blake256_from_state_words hw 512 1 ex_buffered ex_tail Hh); first [vm_compute; reflexivity | vm_compute; lia].
Qed.
Example blake256_no_overflow_below_2_32 : forall (X : Type) put (c : X),
  let s0 := Hasher X c (fst (input_block (bb_new 64) ex_buffered)) (2 ^ 32 - 512, 0) in
  update_overflows X 32 4 s0 ex_tail = false
  /\ finalize_overflows X 32 (update X put 32 4 s0 ex_tail) = false.
Proof.
  intros X put c.
  apply (blake32_from_state_no_overflow (2 ^ 32 - 512) 0 ex_buffered ex_tail); first [vm_compute; reflexivity | vm_compute; lia].
Qed.
(** BLAKE-512 entered one block below the 2^64-bit carry of t.0, with t.1 = 7 *)
Example blake512_from_state_below_2_64 : forall hw, length hw = 8%nat ->
  digest_from put_block64 64 8 true 64 (firstn 4 hw, skipn 4 hw) (2 ^ 64 - 1024) 7 ex_buffered (ex_tail ++ ex_tail)
  = Some (SB.hash_from SB.blake512 hw (7 * 2 ^ 54 + 2 ^ 54 - 1) (ex_buffered ++ ex_tail ++ ex_tail)).
Proof.
  intros hw Hh.
  apply (blake512_from_state_words hw (2 ^ 64 - 1024) 7 ex_buffered (ex_tail ++ ex_tail) Hh); first [vm_compute; reflexivity | vm_compute; lia].
Qed.
(** the specification's counters in the two compressions of the first instance: 2^32 (carry) and
    2^32 + 8 * 46 *)
Example blake256_schedule_counters_across_2_32 :
  map snd (SB.schedule_from SB.blake256 (2 ^ 23 - 1) (ex_buffered ++ ex_tail)) = [2 ^ 32; 2 ^ 32 + 8 * 46].
Proof. vm_compute. reflexivity. Qed.

(** * the hypotheses are met by every state reached from [new] by hashing: the counter is a whole
    number of blocks ([tpair w (8 * bs * blocks)]), the chaining value has 4 + 4 words, the
    buffer holds the unprocessed rest (shorter than a block) *)
Local Close Scope N_scope.
Lemma full_sched_block_length (wbb n : nat) : forall (k : N) (L : list N), 16 * wbb * n <= length L ->
  forall bt, In bt (full_sched wbb k n L) -> length (fst bt) = 16 * wbb.
Proof.
  induction n as [|n IH]; intros k L Hl bt Hin; cbn [full_sched] in Hin; [contradiction|].
  destruct Hin as [<-|Hin].
  - cbn [fst]. rewrite firstn_length. lia.
  - apply (IH (k + 1)%N (skipn (16 * wbb) L)); [rewrite skipn_length; lia|exact Hin].
Qed.

Lemma blake256_reachable_shape parts :
  let s := fold_left (update (row * row) put_block32 32 4) parts (new (row * row) 4 BLAKE256_IV) in
  let m := concat parts in
  t _ s = tpair 32 (512 * N.of_nat (length m / 64))
  /\ h_shape (compressor _ s)
  /\ wfb 64 (buffer _ s) /\ content (buffer _ s) = skipn (64 * (length m / 64)) m.
Proof.
  cbv zeta.
  pose proof (BlakeCounter.reachable_inv 32 4 (or_introl (conj eq_refl eq_refl)) _ put_block32 BLAKE256_IV parts)
    as (Hc & Ht & W & C).
  split; [exact Ht|]. split; [|split; [exact W|exact C]].
  rewrite Hc.
  refine (fold_left_sim (fun a (_ : unit) => h_shape a) (putf 32 _ put_block32) (fun u _ => u) _ _ BLAKE256_IV tt _).
  - intros a b bt Hin Sa. unfold putf.
    destruct (tpair 32 (snd bt)) as [t0 t1].
    apply (put_block32_eq_spec SB.blake256); [now right|exact Sa|].
    apply (full_sched_block_length 4 _ _ _ (Nat.mul_div_le (length (concat parts)) 64 ltac:(lia)) bt Hin).
  - split; reflexivity.
Qed.
Lemma blake512_reachable_shape parts :
  let s := fold_left (update (row * row) put_block64 64 8) parts (new (row * row) 8 BLAKE512_IV) in
  let m := concat parts in
  t _ s = tpair 64 (1024 * N.of_nat (length m / 128))
  /\ h_shape (compressor _ s)
  /\ wfb 128 (buffer _ s) /\ content (buffer _ s) = skipn (128 * (length m / 128)) m.
Proof.
  cbv zeta.
  pose proof (BlakeCounter.reachable_inv 64 8 (or_intror (conj eq_refl eq_refl)) _ put_block64 BLAKE512_IV parts)
    as (Hc & Ht & W & C).
  split; [exact Ht|]. split; [|split; [exact W|exact C]].
  rewrite Hc.
  refine (fold_left_sim (fun a (_ : unit) => h_shape a) (putf 64 _ put_block64) (fun u _ => u) _ _ BLAKE512_IV tt _).
  - intros a b bt Hin Sa. unfold putf.
    destruct (tpair 64 (snd bt)) as [t0 t1].
    apply (put_block64_eq_spec SB.blake512); [|exact Sa|].
    2: apply (full_sched_block_length 8 _ _ _ (Nat.mul_div_le (length (concat parts)) 128 ltac:(lia)) bt Hin).
    now right.
  - split; reflexivity.
Qed.

(** ... in the vocabulary of the [_words] theorems: the two counter words of a reached state are
    below 2^w and represent a whole number of blocks (for every block count, also beyond the
    format limit where the counter has wrapped) *)
Local Open Scope N_scope.
Lemma tpair32_blocks_ok K :
  fst (tpair 32 (512 * K)) < 2 ^ 32 /\ snd (tpair 32 (512 * K)) < 2 ^ 32
  /\ (fst (tpair 32 (512 * K)) + snd (tpair 32 (512 * K)) * 2 ^ 32) mod 512 = 0.
Proof. unfold tpair. cbn [fst snd]. change (2 ^ 32) with 4294967296. lia. Qed.
Lemma tpair64_blocks_ok K :
  fst (tpair 64 (1024 * K)) < 2 ^ 64 /\ snd (tpair 64 (1024 * K)) < 2 ^ 64
  /\ (fst (tpair 64 (1024 * K)) + snd (tpair 64 (1024 * K)) * 2 ^ 64) mod 1024 = 0.
Proof. unfold tpair. cbn [fst snd]. change (2 ^ 64) with 18446744073709551616. lia. Qed.

Example blake256_reached_state_meets_hypotheses parts :
  let s := fold_left (update (row * row) put_block32 32 4) parts (new (row * row) 4 BLAKE256_IV) in
  let hw := to_list (compressor _ s) in
  length hw = 8%nat /\ fst (t _ s) < 2 ^ 32 /\ snd (t _ s) < 2 ^ 32
  /\ (fst (t _ s) + snd (t _ s) * 2 ^ 32) mod 512 = 0
  /\ (length (content (buffer _ s)) < 64)%nat.
Proof.
  cbv zeta. destruct (blake256_reachable_shape parts) as (Et & [S0 S1] & W & _).
  rewrite Et. destruct (tpair32_blocks_ok (N.of_nat (length (concat parts) / 64))) as (A & B & C).
  split; [unfold to_list; rewrite app_length, S0, S1; reflexivity|].
  split; [exact A|]. split; [exact B|]. split; [exact C|].
  rewrite (content_length 64 _ W). apply W.
Qed.

(** * the same in the vocabulary of Run/Blake.v

    For every hook case [BH] of the correspondence check whose entered counter is a whole number
    of blocks (words below 2^w) and whose buffered prefix is shorter than a block, whatever the
    implementation's digest stored in the case: the model value the runner computes IS the
    specification value it computes ([eval_case]: first component = [Some] second component).
    So on such a case [run_blake c = true] says: implementation = model = specification
    continued from the entered state. *)
From CC Require Run.Runner Run.Blake.

Lemma h_words_length v h : In v [224; 256; 384; 512] -> length (Run.Blake.h_words v h) = 8%nat.
Proof.
  cbn [In]. intros [<-|[<-|[<-|[<-|[]]]]]; unfold Run.Blake.h_words; cbv zeta;
    rewrite map_length, chunks_exact_length;
    try (unfold Run.Runner.B; rewrite le_split_length); vm_compute; try reflexivity; lia.
Qed.

Theorem run_hook_model_eq_spec v h t0 t1 blen buffered tlen tail dg :
  In v [224; 256; 384; 512] ->
  let sv := Run.Blake.spec_of v in
  t0 < 2 ^ SB.wbits sv -> t1 < 2 ^ SB.wbits sv ->
  (t0 + t1 * 2 ^ SB.wbits sv) mod (8 * SB.block_N sv) = 0 ->
  blen < SB.block_N sv ->
  fst (fst (Run.Blake.eval_case (Run.Blake.BH v h t0 t1 blen buffered tlen tail dg)))
  = Some (snd (fst (Run.Blake.eval_case (Run.Blake.BH v h t0 t1 blen buffered tlen tail dg)))).
Proof.
  intros Hv. pose proof (h_words_length v h Hv) as Lh. revert Lh.
  unfold Run.Blake.eval_case. cbv zeta. cbn [fst snd].
  set (hw := Run.Blake.h_words v h). clearbody hw.
  assert (Lb : length (Run.Runner.B blen buffered) = N.to_nat blen) by apply le_split_length.
  set (bf := Run.Runner.B blen buffered) in *. clearbody bf.
  set (tl := Run.Runner.B tlen tail). clearbody tl.
  cbn [In] in Hv. destruct Hv as [<-|[<-|[<-|[<-|[]]]]]; intros Lh.
  - change (Run.Blake.spec_of 224) with SB.blake224.
    change (Run.Blake.model_from 224) with (digest_from put_block32 32 4 false 28).
    change (SB.block_N SB.blake224) with 64. change (8 * 64) with 512. change (SB.wbits SB.blake224) with 32.
    intros H0 H1 Hb Hl.
    exact (blake224_from_state_words hw t0 t1 bf tl Lh H0 H1 Hb ltac:(lia)).
  - change (Run.Blake.spec_of 256) with SB.blake256.
    change (Run.Blake.model_from 256) with (digest_from put_block32 32 4 true 32).
    change (SB.block_N SB.blake256) with 64. change (8 * 64) with 512. change (SB.wbits SB.blake256) with 32.
    intros H0 H1 Hb Hl.
    exact (blake256_from_state_words hw t0 t1 bf tl Lh H0 H1 Hb ltac:(lia)).
  - change (Run.Blake.spec_of 384) with SB.blake384.
    change (Run.Blake.model_from 384) with (digest_from put_block64 64 8 false 48).
    change (SB.block_N SB.blake384) with 128. change (8 * 128) with 1024. change (SB.wbits SB.blake384) with 64.
    intros H0 H1 Hb Hl.
    exact (blake384_from_state_words hw t0 t1 bf tl Lh H0 H1 Hb ltac:(lia)).
  - change (Run.Blake.spec_of 512) with SB.blake512.
    change (Run.Blake.model_from 512) with (digest_from put_block64 64 8 true 64).
    change (SB.block_N SB.blake512) with 128. change (8 * 128) with 1024. change (SB.wbits SB.blake512) with 64.
    intros H0 H1 Hb Hl.
    exact (blake512_from_state_words hw t0 t1 bf tl Lh H0 H1 Hb ltac:(lia)).
Qed.
