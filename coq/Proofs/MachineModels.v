(** The lane-wise instance of the parametric ChaCha rounds (Model/Machine.v) is the executable
    model the correspondence runs (Model/ChaChaGuts.v [m_rounds], used by C01/C14 and by the
    C03 battery). So "machine-independent" means: equal to the model the implementation is
    compared with under every configuration. *)
From Coq Require Import NArith List Bool.
From CC Require Import Lib.Words Lib.ListX Spec.Lanes Model.Machine Model.ChaChaGuts.
Import ListNotations.
Local Open Scope N_scope.

Definition to_vs (y : cstate (lane_vops 32)) : vstate := VS (sa y) (sb y) (sc y) (sd y).

Lemma lane_dround_is_model : forall y,
  to_vs (c_dround (lane_vops 32) y) = dround add32 N.lxor rotr32 (to_vs y).
Proof. intros [a b c d]. reflexivity. Qed.

Lemma lane_rounds_is_model : forall k y,
  to_vs (c_rounds (lane_vops 32) k y) = m_rounds k (to_vs y).
Proof.
  unfold m_rounds, rounds.
  induction k as [|k IH]; intros y; cbn [c_rounds iter]; [reflexivity|].
  now rewrite IH, lane_dround_is_model.
Qed.

(** on word lists: the machine-level function of Model/Machine.v at the lane instance *)
Lemma lane_chacha_rounds_on_is_model : forall k a b c d,
  chacha_rounds_on (lane_vops 32) k a b c d =
  let r := m_rounds k (VS a b c d) in (va r, vb r, vc r, vd r).
Proof.
  intros. unfold chacha_rounds_on, c_rep.
  change (VS a b c d) with (to_vs (c_vec (lane_vops 32) a b c d)).
  rewrite <- lane_rounds_is_model. reflexivity.
Qed.

(** * BLAKE: one iteration of the round loop at the lane instance is [round_body] of the
      executable model (Model/Blake.v), for all 4-word rows; [ms] are the message vectors the
      model builds from [m], [U] and [sigma] *)
From CC Require Model.Blake.

Section BlakeLink.
  Variables (w k1 k2 k3 k4 : N) (U m : list N) (sigma : list nat).
  Let m0 e := N.lxor (nth (nth e sigma 0%nat) m 0) (nth (nth (e + 1) sigma 0%nat) U 0).
  Let m1 e := N.lxor (nth (nth (e + 1) sigma 0%nat) m 0) (nth (nth e sigma 0%nat) U 0).
  Definition blake_msgs : list N * list N * list N * list N :=
    ([m0 0%nat; m0 2%nat; m0 4%nat; m0 6%nat], [m1 0%nat; m1 2%nat; m1 4%nat; m1 6%nat],
     [m0 14%nat; m0 8%nat; m0 10%nat; m0 12%nat], [m1 14%nat; m1 8%nat; m1 10%nat; m1 12%nat]).

  Lemma lane_b_step_is_model : forall a0 a1 a2 a3 b0 b1 b2 b3 c0 c1 c2 c3 d0 d1 d2 d3 : N,
    b_step (lane_vops w) k1 k2 k3 k4
           ([a0; a1; a2; a3], [b0; b1; b2; b3], [c0; c1; c2; c3], [d0; d1; d2; d3]) blake_msgs =
    Model.Blake.round_body (addw w) N.lxor (rotrw w k1) (rotrw w k2) (rotrw w k3) (rotrw w k4) U m
           ([a0; a1; a2; a3], [b0; b1; b2; b3], [c0; c1; c2; c3], [d0; d1; d2; d3]) sigma.
  Proof. intros. reflexivity. Qed.
End BlakeLink.
