(** Lemmas about the byte-list intrinsic models (Model/Intrinsics.v): registers as little-endian
    word lists, byte-wise logic = word-wise logic, shift-or rotation, byte rotation / reversal /
    word permutation of little-endian words. Used by Proofs/PpvSse*.v, PpvAvx2*.v (C12, C13). *)
From Coq Require Import NArith List Lia Bool Arith.
From CC Require Import Lib.Words Lib.Bytes Lib.ListX Model.Intrinsics Spec.Lanes.
Import ListNotations.
Local Open Scope N_scope.

Definition is_wordk (k : nat) (x : N) : Prop := x < 2 ^ (8 * N.of_nat k).

(** * registers as word lists *)
Lemma wf_words k n x :
  (0 < k)%nat -> (n mod k = 0)%nat -> wf n x ->
  x = bytes_le k (words_le k x) /\ Forall (is_wordk k) (words_le k x)
  /\ length (words_le k x) = (n / k)%nat.
Proof.
  intros Hk Hm [Hl Hb]. split; [|split].
  - symmetry. apply bytes_words_le; try assumption. now rewrite Hl.
  - now apply words_le_Forall_word.
  - rewrite words_le_length by assumption. now rewrite Hl.
Qed.

Lemma bytes_le_wf k ws : wf (k * length ws) (bytes_le k ws).
Proof.
  split; [apply bytes_le_length|].
  unfold bytes_le. induction ws as [|w ws IH]; cbn [flat_map]; [constructor|].
  apply Forall_app. split; [apply le_split_bytes|exact IH].
Qed.

Lemma lanes_map_bytes k f ws :
  (0 < k)%nat -> Forall (is_wordk k) ws ->
  lanes_map k f (bytes_le k ws) = bytes_le k (map f ws).
Proof. intros. unfold lanes_map. now rewrite words_bytes_le. Qed.
Lemma lanes_map2_bytes k f ws vs :
  (0 < k)%nat -> Forall (is_wordk k) ws -> Forall (is_wordk k) vs ->
  lanes_map2 k f (bytes_le k ws) (bytes_le k vs) = bytes_le k (map2 f ws vs).
Proof. intros. unfold lanes_map2. now rewrite !words_bytes_le. Qed.

(** * byte-wise logic = word-wise logic *)
Lemma map2_app {A B C} (f : A -> B -> C) a1 a2 b1 b2 :
  length a1 = length b1 -> map2 f (a1 ++ a2) (b1 ++ b2) = map2 f a1 b1 ++ map2 f a2 b2.
Proof.
  revert b1. induction a1 as [|x a1 IH]; intros [|y b1] H; try discriminate; [reflexivity|].
  cbn. f_equal. apply IH. now injection H.
Qed.

Section Bitop.
  Variable op : N -> N -> N.
  Hypothesis op_land : forall a b c, N.land (op a b) c = op (N.land a c) (N.land b c).
  Hypothesis op_shr : forall a b n, N.shiftr (op a b) n = op (N.shiftr a n) (N.shiftr b n).
  Lemma le_split_op n a b : map2 op (le_split n a) (le_split n b) = le_split n (op a b).
  Proof.
    revert a b. induction n as [|n IH]; intros a b; [reflexivity|].
    cbn [le_split map2]. rewrite IH, op_land, op_shr. reflexivity.
  Qed.
  Lemma bytes_le_op k ws vs :
    length ws = length vs -> map2 op (bytes_le k ws) (bytes_le k vs) = bytes_le k (map2 op ws vs).
  Proof.
    unfold bytes_le. revert vs. induction ws as [|w ws IH]; intros [|v vs] H; try discriminate;
      [reflexivity|].
    cbn [flat_map map2]. rewrite map2_app by now rewrite !le_split_length.
    rewrite le_split_op, IH; [reflexivity|now injection H].
  Qed.
End Bitop.

Lemma land_land_distr a b c : N.land (N.land a b) c = N.land (N.land a c) (N.land b c).
Proof. apply N.bits_inj; intro i. rewrite !N.land_spec. destruct (N.testbit a i), (N.testbit b i), (N.testbit c i); reflexivity. Qed.
Lemma land_lxor_distr a b c : N.land (N.lxor a b) c = N.lxor (N.land a c) (N.land b c).
Proof. apply N.bits_inj; intro i. rewrite !N.land_spec, !N.lxor_spec, !N.land_spec. destruct (N.testbit a i), (N.testbit b i), (N.testbit c i); reflexivity. Qed.
Lemma land_lor_distr a b c : N.land (N.lor a b) c = N.lor (N.land a c) (N.land b c).
Proof. apply N.bits_inj; intro i. rewrite !N.land_spec, !N.lor_spec, !N.land_spec. destruct (N.testbit a i), (N.testbit b i), (N.testbit c i); reflexivity. Qed.

Definition bytes_le_lor := bytes_le_op N.lor land_lor_distr N.shiftr_lor.
Definition bytes_le_land := bytes_le_op N.land land_land_distr N.shiftr_land.
Definition bytes_le_lxor := bytes_le_op N.lxor land_lxor_distr N.shiftr_lxor.

Lemma map2_map_same {A B} (f g : A -> B) (h : B -> B -> B) l :
  map2 h (map f l) (map g l) = map (fun x => h (f x) (g x)) l.
Proof. induction l; cbn; congruence. Qed.
Lemma map2_length_eq {A B C} (f : A -> B -> C) a b : length a = length b -> length (map2 f a b) = length a.
Proof. revert b; induction a as [|x a IH]; intros [|y b] H; try discriminate; cbn; auto. Qed.

(** * word facts *)
Lemma shiftr_lt w x r : x < 2 ^ w -> N.shiftr x r < 2 ^ w.
Proof.
  intros H. rewrite N.shiftr_div_pow2. eapply N.le_lt_trans; [|exact H].
  apply N.div_le_upper_bound; [apply pow2_nz|]. pose proof (pow2_pos r). nia.
Qed.
Lemma rotrw_shift_or w r x :
  x < 2 ^ w -> N.lor (N.shiftr x r) (wrap w (N.shiftl x (w - r))) = rotrw w r x.
Proof.
  intros H. unfold rotrw, wrap. rewrite land_lor_distr. f_equal.
  symmetry. apply (wrap_small w). now apply shiftr_lt.
Qed.
Lemma lt_pow2_bits w x : (forall i, w <= i -> N.testbit x i = false) -> x < 2 ^ w.
Proof.
  intros H. assert (E : x = x mod 2 ^ w).
  { apply N.bits_inj; intro i. destruct (N.lt_ge_cases i w) as [Hi|Hi].
    - now rewrite N.mod_pow2_bits_low.
    - rewrite N.mod_pow2_bits_high by assumption. now apply H. }
  rewrite E. apply N.mod_lt, pow2_nz.
Qed.
Lemma lor_lt w a b : a < 2 ^ w -> b < 2 ^ w -> N.lor a b < 2 ^ w.
Proof.
  intros Ha Hb. apply lt_pow2_bits; intros i Hi.
  now rewrite N.lor_spec, (testbit_high w a), (testbit_high w b).
Qed.
Lemma land_lt w a b : a < 2 ^ w -> N.land a b < 2 ^ w.
Proof.
  intros Ha. apply lt_pow2_bits; intros i Hi. now rewrite N.land_spec, (testbit_high w a).
Qed.
Lemma land_lt_r w a b : b < 2 ^ w -> N.land a b < 2 ^ w.
Proof. rewrite N.land_comm. apply land_lt. Qed.

(** [lo + hi * 2^r] is the concatenation of [lo] (r bits) and [hi] *)
Lemma testbit_cat r lo hi i :
  lo < 2 ^ r -> N.testbit (lo + hi * 2 ^ r) i = if i <? r then N.testbit lo i else N.testbit hi (i - r).
Proof.
  intros Hlo. destruct (N.ltb_spec i r) as [Hi|Hi].
  - rewrite <- (N.mod_pow2_bits_low (lo + hi * 2 ^ r) r i) by assumption.
    rewrite N.mod_add by apply pow2_nz. now rewrite N.mod_small.
  - replace i with ((i - r) + r) at 1 by lia. rewrite <- N.div_pow2_bits.
    rewrite N.div_add by apply pow2_nz. now rewrite N.div_small, N.add_0_l.
Qed.
Lemma cat_lt r s lo hi : lo < 2 ^ r -> hi < 2 ^ s -> lo + hi * 2 ^ r < 2 ^ (r + s).
Proof. intros. rewrite N.pow_add_r. nia. Qed.

Lemma rotrw_cat w r lo hi :
  r <= w -> lo < 2 ^ r -> hi < 2 ^ (w - r) ->
  rotrw w r (lo + hi * 2 ^ r) = hi + lo * 2 ^ (w - r).
Proof.
  intros Hr Hlo Hhi.
  assert (Hx : lo + hi * 2 ^ r < 2 ^ w).
  { replace w with (r + (w - r)) at 1 by lia. now apply cat_lt. }
  apply N.bits_inj; intro i.
  rewrite testbit_rotrw by assumption. rewrite (testbit_cat (w - r)) by assumption.
  destruct (N.ltb_spec i w) as [Hi|Hi]; cbn [andb].
  - destruct (N.ltb_spec (i + r) w) as [H1|H1]; destruct (N.ltb_spec i (w - r)) as [H2|H2]; try lia;
      rewrite testbit_cat by assumption.
    + destruct (N.ltb_spec (i + r) r); [lia|]. f_equal; lia.
    + destruct (N.ltb_spec (i + r - w) r); [|lia]. f_equal; lia.
  - destruct (N.ltb_spec i (w - r)); [lia|]. symmetry. apply (testbit_high r); [assumption|lia].
Qed.

(** * little-endian joins *)
Lemma le_join_app a b : le_join (a ++ b) = le_join a + le_join b * 2 ^ (8 * N.of_nat (length a)).
Proof.
  induction a as [|x a IH]; [cbn; lia|].
  cbn [app le_join length]. rewrite IH, !N.shiftl_mul_pow2.
  rewrite Nat2N.inj_succ, N.mul_succ_r, N.pow_add_r. lia.
Qed.

Lemma rotr_bytes n k bs :
  length bs = n -> (k <= n)%nat -> Forall is_byte bs ->
  rotrw (8 * N.of_nat n) (8 * N.of_nat k) (le_join bs) = le_join (skipn k bs ++ firstn k bs).
Proof.
  intros Hn Hk Hb.
  pose proof (Forall_firstn' _ k _ Hb) as Hf. pose proof (Forall_skipn' _ k _ Hb) as Hs.
  rewrite <- (firstn_skipn k bs) at 1. rewrite !le_join_app.
  pose proof (le_join_lt _ Hf) as L1. pose proof (le_join_lt _ Hs) as L2.
  rewrite firstn_length_le in * by lia. rewrite skipn_length in *. rewrite Hn in *.
  replace (8 * N.of_nat (n - k)) with (8 * N.of_nat n - 8 * N.of_nat k) in * by lia.
  apply rotrw_cat; try assumption; lia.
Qed.

(** transfer from word lists to registers *)
Lemma lift1 k n (f : reg -> reg) (g : list N -> list N) :
  (0 < k)%nat -> (n mod k = 0)%nat ->
  (forall ws, Forall (is_wordk k) ws -> length ws = (n / k)%nat -> f (bytes_le k ws) = bytes_le k (g ws)) ->
  forall x, wf n x -> f x = bytes_le k (g (words_le k x)).
Proof.
  intros Hk Hm H x Hx. destruct (wf_words k n x Hk Hm Hx) as (E & Hw & Hl).
  transitivity (f (bytes_le k (words_le k x))); [now rewrite <- E|]. now apply H.
Qed.
Lemma lift2 k n (f : reg -> reg -> reg) (g : list N -> list N -> list N) :
  (0 < k)%nat -> (n mod k = 0)%nat ->
  (forall ws vs, Forall (is_wordk k) ws -> length ws = (n / k)%nat ->
                 Forall (is_wordk k) vs -> length vs = (n / k)%nat ->
                 f (bytes_le k ws) (bytes_le k vs) = bytes_le k (g ws vs)) ->
  forall x y, wf n x -> wf n y -> f x y = bytes_le k (g (words_le k x) (words_le k y)).
Proof.
  intros Hk Hm H x y Hx Hy.
  destruct (wf_words k n x Hk Hm Hx) as (E & Hw & Hl).
  destruct (wf_words k n y Hk Hm Hy) as (E' & Hw' & Hl').
  transitivity (f (bytes_le k (words_le k x)) (bytes_le k (words_le k y))); [now rewrite <- E, <- E'|].
  now apply H.
Qed.

(** shift-or rotate of every [k]-byte lane *)
Lemma shift_or_rotr k i ws :
  (0 < k)%nat -> Forall (is_wordk k) ws ->
  let w := 8 * N.of_nat k in
  mm_or (lanes_map k (fun x => N.shiftr x i) (bytes_le k ws))
        (lanes_map k (fun x => wrap w (N.shiftl x (w - i))) (bytes_le k ws))
  = bytes_le k (v_rotr w i ws).
Proof.
  intros Hk Hw w. rewrite !lanes_map_bytes by assumption. unfold mm_or.
  rewrite bytes_le_lor by now rewrite !map_length. rewrite map2_map_same. f_equal.
  unfold v_rotr. apply map_ext_in. intros x Hx. apply rotrw_shift_or.
  rewrite Forall_forall in Hw. now apply Hw.
Qed.

(** byte-list form of the word-wise meaning of byte-granular operations *)
Lemma bytes_le_joins k cs :
  Forall (fun c => length c = k) cs -> Forall (Forall is_byte) cs ->
  bytes_le k (map le_join cs) = concat cs.
Proof.
  intros Hl Hb. unfold bytes_le. rewrite flat_map_concat_map, map_map. f_equal.
  now apply map_split_join.
Qed.
Lemma chunks_wf k n x : wf n x ->
  Forall (fun c => length c = k) (chunks_exact k (length x) x)
  /\ Forall (Forall is_byte) (chunks_exact k (length x) x).
Proof.
  intros [_ Hb]. split; [apply chunks_exact_Forall_length|now apply chunks_exact_Forall_bytes].
Qed.

Lemma Forall_map_in {A B} (P : B -> Prop) (Q : A -> Prop) (f : A -> B) l :
  (forall a, Q a -> P (f a)) -> Forall Q l -> Forall P (map f l).
Proof. intros H HQ. induction HQ; cbn; constructor; auto. Qed.
Lemma Forall_and {A} (P Q : A -> Prop) l : Forall P l -> Forall Q l -> Forall (fun a => P a /\ Q a) l.
Proof. intros HP HQ. induction HP; inversion HQ; subst; constructor; auto. Qed.

Lemma v_rotr_bytes k j r n x :
  wf n x -> (j <= k)%nat -> r = 8 * N.of_nat j ->
  bytes_le k (v_rotr (8 * N.of_nat k) r (words_le k x))
  = concat (map (fun c => skipn j c ++ firstn j c) (chunks_exact k (length x) x)).
Proof.
  intros Hx Hj ->. destruct (chunks_wf k n x Hx) as [Hl Hb].
  unfold v_rotr, words_le. rewrite map_map.
  pose proof (Forall_and _ _ _ Hl Hb) as Hlb.
  rewrite (map_ext_in _ (fun c => le_join (skipn j c ++ firstn j c))).
  - rewrite <- (map_map (fun c => skipn j c ++ firstn j c) le_join). apply bytes_le_joins.
    + eapply Forall_map_in; [|exact Hl]. intros c Hc. cbn beta in *.
      rewrite app_length, skipn_length, firstn_length_le by lia. lia.
    + eapply Forall_map_in; [|exact Hb]. intros c Hc. cbn beta in *.
      apply Forall_app. split; [now apply Forall_skipn'|now apply Forall_firstn'].
  - intros c Hc. rewrite Forall_forall in Hlb. destruct (Hlb c Hc) as [H1 H2].
    now apply rotr_bytes.
Qed.

Lemma bswapw_bytes k c : length c = k -> Forall is_byte c ->
  bswapw (8 * N.of_nat k) (le_join c) = le_join (rev c).
Proof.
  intros Hl Hb. unfold bswapw, be_join.
  replace (N.to_nat (8 * N.of_nat k / 8)) with k.
  - rewrite <- Hl. now rewrite le_split_join.
  - rewrite N.mul_comm, N.div_mul by lia. now rewrite Nat2N.id.
Qed.
Lemma v_bswap_bytes k n x :
  wf n x ->
  bytes_le k (v_bswap (8 * N.of_nat k) (words_le k x))
  = concat (map (@rev N) (chunks_exact k (length x) x)).
Proof.
  intros Hx. destruct (chunks_wf k n x Hx) as [Hl Hb].
  unfold v_bswap, words_le. rewrite map_map.
  pose proof (Forall_and _ _ _ Hl Hb) as Hlb.
  rewrite (map_ext_in _ (fun c => le_join (rev c))).
  - rewrite <- (map_map (@rev N) le_join). apply bytes_le_joins.
    + eapply Forall_map_in; [|exact Hl]. intros c Hc. cbn beta in *. now rewrite rev_length.
    + eapply Forall_map_in; [|exact Hb]. intros c Hc. cbn beta in *. now apply Forall_rev.
  - intros c Hc. rewrite Forall_forall in Hlb. destruct (Hlb c Hc) as [H1 H2].
    now apply bswapw_bytes.
Qed.

(** word permutations: any list function that commutes with [map] *)
Lemma v_perm_bytes k n x (p : forall A, list A -> list A) :
  (forall A B (f : A -> B) l, p B (map f l) = map f (p A l)) ->
  (forall A (P : A -> Prop) l, Forall P l -> Forall P (p A l)) ->
  wf n x ->
  bytes_le k (p N (words_le k x)) = concat (p (list N) (chunks_exact k (length x) x)).
Proof.
  intros Hnat HP Hx. destruct (chunks_wf k n x Hx) as [Hl Hb].
  unfold words_le. rewrite Hnat. apply bytes_le_joins; now apply HP.
Qed.

(** destruct a well-formed register into byte variables *)
Ltac bytes_of x :=
  match goal with
  | H : wf _ x |- _ =>
      let Hl := fresh "Hl" in let Hb := fresh "Hb" in
      destruct H as [Hl Hb]; explode x;
      repeat match goal with
             | Hf : Forall is_byte (_ :: _) |- _ => inversion Hf; clear Hf; subst
             end
  end.

(** complement *)
Lemma ones_land_255 n : N.land (N.ones (8 * N.of_nat (S n))) 255 = 255.
Proof.
  change 255 with (N.ones 8). rewrite N.land_ones. rewrite N.ones_mod_pow2 by lia. reflexivity.
Qed.
Lemma ones_shr8 n : N.shiftr (N.ones (8 * N.of_nat (S n))) 8 = N.ones (8 * N.of_nat n).
Proof. rewrite N.shiftr_div_pow2, N.ones_div_pow2 by lia. f_equal. lia. Qed.
Lemma le_split_not n x :
  le_split n (N.lxor x (N.ones (8 * N.of_nat n))) = map (fun b => N.lxor b 255) (le_split n x).
Proof.
  revert x. induction n as [|n IH]; intro x; [reflexivity|].
  cbn [le_split map]. rewrite land_lxor_distr, ones_land_255, N.shiftr_lxor, ones_shr8, IH. reflexivity.
Qed.
Lemma bytes_le_not k ws :
  map (fun b => N.lxor b 255) (bytes_le k ws) = bytes_le k (map (fun x => N.lxor x (N.ones (8 * N.of_nat k))) ws).
Proof.
  unfold bytes_le. induction ws as [|x ws IH]; [reflexivity|].
  cbn [flat_map map]. now rewrite map_app, IH, le_split_not.
Qed.
Lemma map2_repeat_r {A B C} (f : A -> B -> C) a y n :
  length a = n -> map2 f a (repeat y n) = map (fun x => f x y) a.
Proof. revert n; induction a as [|x a IH]; intros [|n] H; try discriminate; cbn; [reflexivity|]. f_equal. apply IH. now injection H. Qed.
Lemma map2_repeat_l {A B C} (f : A -> B -> C) a y n :
  length a = n -> map2 f (repeat y n) a = map (fun x => f y x) a.
Proof. revert n; induction a as [|x a IH]; intros [|n] H; try discriminate; cbn; [reflexivity|]. f_equal. apply IH. now injection H. Qed.
Lemma map2_map_l {A A' B C} (f : A' -> B -> C) (g : A -> A') a b :
  map2 f (map g a) b = map2 (fun x y => f (g x) y) a b.
Proof. revert b; induction a as [|x a IH]; intros [|y b]; cbn; try reflexivity. now rewrite IH. Qed.
Lemma map2_ext_Forall {A B C} (P : A -> Prop) (f g : A -> B -> C) a b :
  (forall x y, P x -> f x y = g x y) -> Forall P a -> map2 f a b = map2 g a b.
Proof. intros H Ha. revert b. induction Ha; intros [|y b]; cbn; try reflexivity. f_equal; auto. Qed.
Lemma notw_word k x : is_wordk k x -> N.lxor x (N.ones (8 * N.of_nat k)) = notw (8 * N.of_nat k) x.
Proof. intro H. unfold notw. now rewrite wrap_small. Qed.
