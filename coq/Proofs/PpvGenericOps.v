(** C12 portable part: bitwise operations, wrapping add, rotate, byte swap of the three 128-bit types equal their lane-wise meaning (Spec/Lanes.v), for every operand and both build profiles. *)
From Coq Require Import NArith List Bool Arith Lia.
From CC Require Import Lib.Words Lib.Bytes Lib.ListX Model.PpvSoft Model.PpvGeneric.
From CC Require Spec.Lanes.
From CC Require Import Proofs.PpvGenericLib.
Import ListNotations.
Local Open Scope N_scope.


Lemma le_split_join' n c : length c = n -> Forall is_byte c -> le_split n (le_join c) = c.
Proof. intros <-. apply le_split_join. Qed.
Definition le_split_lxor' := le_split_op N.lxor land_lxor_distr N.shiftr_lxor.
Definition le_split_land' := le_split_op N.land land_land_distr N.shiftr_land.
Definition le_split_lor' := le_split_op N.lor N.land_lor_distr_l N.shiftr_lor.

Ltac bytes_side := first [reflexivity | repeat constructor; (assumption || reflexivity)].
Ltac img_compute :=
  unfold imap, imap2, words_le, bytes_le;
  cbn [length chunks_exact Nat.leb firstn skipn map map2 flat_map app].

(** a bitwise binary operation on any word size is the byte-wise operation on the image *)
Section BitwiseImg.
  Variable op : N -> N -> N.
  Hypothesis op_land : forall a b c, N.land (op a b) c = op (N.land a c) (N.land b c).
  Hypothesis op_shiftr : forall a b n, N.shiftr (op a b) n = op (N.shiftr a n) (N.shiftr b n).
  Lemma imap2_bitwise k a b : (k = 4 \/ k = 8 \/ k = 16)%nat -> wfb a -> wfb b ->
    imap2 k op a b = map2 op a b.
  Proof.
    intros Hk [La Ba] [Lb Bb]. explode a. explode b. inv_forall.
    destruct Hk as [->|[->| ->]]; img_compute;
      rewrite !(le_split_op op op_land op_shiftr), !le_split_join' by bytes_side; reflexivity.
  Qed.
End BitwiseImg.

(** [!x] on a [8k]-bit word is [x ^ 0xff..ff] on its bytes *)
Lemma notw_join k c : (k = 4 \/ k = 8 \/ k = 16)%nat -> length c = k -> Forall is_byte c ->
  notw (8 * N.of_nat k) (le_join c) = N.lxor (le_join c) (le_join (repeat 255 k)).
Proof.
  intros Hk L B. unfold notw. rewrite wrap_small by now apply le_join_lt'.
  destruct Hk as [->|[->| ->]]; reflexivity.
Qed.
Definition notb (x : N) : N := N.lxor x 255.
Lemma imap_not k s : (k = 4 \/ k = 8 \/ k = 16)%nat -> wfb s ->
  imap k (notw (8 * N.of_nat k)) s = map notb s.
Proof.
  intros Hk [L B]. explode s. inv_forall.
  destruct Hk as [->|[->| ->]]; img_compute;
    rewrite !notw_join by (bytes_side || lia);
    rewrite !le_split_lxor', !le_split_join' by bytes_side; reflexivity.
Qed.
Lemma imap2_andnot k a b : (k = 4 \/ k = 8 \/ k = 16)%nat -> wfb a -> wfb b ->
  imap2 k (fun x y => N.land (notw (8 * N.of_nat k) x) y) a b = map2 (fun x y => N.land (notb x) y) a b.
Proof.
  intros Hk [La Ba] [Lb Bb]. explode a. explode b. inv_forall.
  destruct Hk as [->|[->| ->]]; img_compute;
    rewrite !notw_join by (bytes_side || lia);
    rewrite !le_split_land', !le_split_lxor', !le_split_join' by bytes_side; reflexivity.
Qed.

Lemma bitwise_lt op w a b :
  (forall a b c, N.land (op a b) c = op (N.land a c) (N.land b c)) ->
  a < 2 ^ w -> b < 2 ^ w -> op a b < 2 ^ w.
Proof.
  intros H Ha Hb. rewrite <- (wrap_small w a Ha), <- (wrap_small w b Hb).
  unfold wrap. rewrite <- H. apply wrap_lt.
Qed.
Lemma ones_lt w : N.ones w < 2 ^ w.
Proof. rewrite N.ones_equiv. pose proof (pow2_pos w). lia. Qed.
Lemma notw_lt w a : notw w a < 2 ^ w.
Proof. unfold notw. apply lxor_lt; [apply wrap_lt | apply ones_lt]. Qed.

(** * bitwise operations of the three 128-bit types (all through [omap]/[omap2]) *)
Section BitopsLanewise.
  Variable p : profile.
  Variable t : vt.
  Let k := vt_k t.
  Lemma k_cases : (vt_k t = 4 \/ vt_k t = 8 \/ vt_k t = 16)%nat.
  Proof. destruct t; cbn; lia. Qed.
  Lemma w_k : vt_w t = 8 * N.of_nat (vt_k t).
  Proof. now destruct t. Qed.

  Lemma g_bitwise_lanewise op :
    (forall a b c, N.land (op a b) c = op (N.land a c) (N.land b c)) ->
    (forall a b n, N.shiftr (op a b) n = op (N.shiftr a n) (N.shiftr b n)) ->
    forall a b, wfv t a -> wfv t b ->
    omap2 p t (fun x y => Ok (op x y)) a b = Ok (map2 op a b).
  Proof.
    intros H1 H2 a b Ha Hb.
    rewrite (omap2_img p t _ op) by (auto || reflexivity).
    pose proof (img_wfb t a Ha) as Hsa. pose proof (img_wfb t b Hb) as Hsb.
    rewrite (imap2_bitwise op H1 H2 16) by (assumption || lia).
    rewrite <- (imap2_bitwise op H1 H2 (vt_k t)) by (assumption || apply k_cases).
    f_equal. apply imap2_same; try assumption.
    intros x y Hx Hy. now apply bitwise_lt.
  Qed.

  Theorem g_xor_lanewise a b : wfv t a -> wfv t b -> g_xor p t a b = Ok (Lanes.v_xor a b).
  Proof. apply (g_bitwise_lanewise N.lxor land_lxor_distr N.shiftr_lxor). Qed.
  Theorem g_and_lanewise a b : wfv t a -> wfv t b -> g_and p t a b = Ok (Lanes.v_and a b).
  Proof. apply (g_bitwise_lanewise N.land land_land_distr N.shiftr_land). Qed.
  Theorem g_or_lanewise a b : wfv t a -> wfv t b -> g_or p t a b = Ok (Lanes.v_or a b).
  Proof. apply (g_bitwise_lanewise N.lor N.land_lor_distr_l N.shiftr_lor). Qed.

  Theorem g_not_lanewise v : wfv t v -> g_not p t v = Ok (Lanes.v_not (vt_w t) v).
  Proof.
    intros Hv. unfold g_not. rewrite (omap_img p t _ (bitnot 128)) by (auto || reflexivity).
    pose proof (img_wfb t v Hv) as Hs.
    change (bitnot 128) with (notw (8 * N.of_nat 16)).
    rewrite imap_not by (assumption || lia).
    rewrite <- (imap_not (vt_k t)) by (assumption || apply k_cases).
    f_equal. rewrite <- w_k. apply imap_same; [assumption|]. intros x _. apply notw_lt.
  Qed.
  Theorem g_andnot_lanewise a b : wfv t a -> wfv t b ->
    g_andnot p t a b = Ok (Lanes.v_andnot (vt_w t) a b).
  Proof.
    intros Ha Hb. unfold g_andnot.
    rewrite (omap2_img p t _ (fun x y => N.land (bitnot 128 x) y)) by (auto || reflexivity).
    pose proof (img_wfb t a Ha) as Hsa. pose proof (img_wfb t b Hb) as Hsb.
    change (bitnot 128) with (notw (8 * N.of_nat 16)).
    rewrite imap2_andnot by (assumption || lia).
    rewrite <- (imap2_andnot (vt_k t)) by (assumption || apply k_cases).
    f_equal. rewrite <- w_k. apply (imap2_same t (fun x y => N.land (notw (vt_w t) x) y)); try assumption.
    intros x y _ Hy. rewrite N.land_comm. apply (bitwise_lt N.land); [apply land_land_distr| assumption | apply notw_lt].
  Qed.
End BitopsLanewise.


(** * wrapping add *)
Theorem g_add_lanewise p t a b : wfv t a -> wfv t b -> g_add p t a b = Ok (Lanes.v_add (vt_w t) a b).
Proof.
  intros Ha Hb. destruct t; cbn [g_add].
  - rewrite (dmap2_img p U32x4 _ (addw 32)) by (auto || reflexivity). f_equal.
    apply (imap2_same U32x4); auto. intros; apply addw_lt.
  - rewrite (qmap2_img p U64x2 _ (addw 64)) by (auto || reflexivity). f_equal.
    apply (imap2_same U64x2); auto. intros; apply addw_lt.
  - rewrite (omap2_img p U128x1 _ (addw 128)) by (auto || reflexivity). f_equal.
    apply (imap2_same U128x1); auto. intros; apply addw_lt.
Qed.

(** * rotate each word right *)
Definition rot_amounts (t : vt) : list N :=
  match t with U32x4 => [7; 8; 11; 12; 16; 20; 24; 25] | _ => [7; 8; 11; 12; 16; 20; 24; 25; 32] end.

Lemma wrap_lor w a b : wrap w (N.lor a b) = N.lor (wrap w a) (wrap w b).
Proof. unfold wrap. apply N.land_lor_distr_l. Qed.
Lemma shiftr_lt w x k : x < 2 ^ w -> N.shiftr x k < 2 ^ w.
Proof.
  intros Hx. rewrite N.shiftr_div_pow2. apply N.le_lt_trans with x; [|exact Hx].
  apply N.div_le_upper_bound; [apply pow2_nz|]. pose proof (pow2_pos k). nia.
Qed.
Lemma rot128_eq p x k : In k (rot_amounts U128x1) -> x < 2 ^ 128 ->
  rotate_u128_right p x k = Ok (rotrw 128 k x).
Proof.
  intros Hk Hx. unfold rotrw. rewrite wrap_lor, (wrap_small 128 (N.shiftr x k)) by now apply shiftr_lt.
  cbn [rot_amounts In] in Hk.
  repeat (destruct Hk as [<-|Hk]; [reflexivity|]). destruct Hk.
Qed.

Theorem g_rotr_lanewise p t k v : In k (rot_amounts t) -> wfv t v ->
  g_rotr p t k v = Ok (Lanes.v_rotr (vt_w t) k v).
Proof.
  intros Hk Hv. destruct t; cbn [g_rotr].
  - rewrite (dmap_img p U32x4 _ (fun x => rotate_right 32 x k)) by (auto || reflexivity).
    rewrite (imap_same U32x4) by (auto; intros; apply rotrw_lt). f_equal.
    unfold Lanes.v_rotr, rotate_right. cbn [rot_amounts In] in Hk.
    repeat (destruct Hk as [<-|Hk]; [reflexivity|]). destruct Hk.
  - rewrite (qmap_img p U64x2 _ (fun x => rotate_right 64 x k)) by (auto || reflexivity).
    rewrite (imap_same U64x2) by (auto; intros; apply rotrw_lt). f_equal.
    unfold Lanes.v_rotr, rotate_right. cbn [rot_amounts In] in Hk.
    repeat (destruct Hk as [<-|Hk]; [reflexivity|]). destruct Hk.
  - destruct Hv as [L F]. cbn in L. explode v. inv_forall. cbn [nth].
    rewrite rot128_eq by assumption. reflexivity.
Qed.

(** * byte swap *)
Lemma swap_bytes_lt w x : swap_bytes w x < 2 ^ (8 * N.of_nat (N.to_nat (w / 8))).
Proof.
  unfold swap_bytes. apply le_join_lt'; [now rewrite rev_length, le_split_length|].
  apply Forall_rev, le_split_bytes.
Qed.
Theorem g_bswap_lanewise p t v : wfv t v -> g_bswap p t v = Ok (Lanes.v_bswap (vt_w t) v).
Proof.
  intros Hv. destruct t; cbn [g_bswap].
  - rewrite (dmap_img p U32x4 _ (swap_bytes 32)) by (auto || reflexivity).
    rewrite (imap_same U32x4) by (auto; intros; apply (swap_bytes_lt 32)). reflexivity.
  - rewrite (qmap_img p U64x2 _ (swap_bytes 64)) by (auto || reflexivity).
    rewrite (imap_same U64x2) by (auto; intros; apply (swap_bytes_lt 64)). reflexivity.
  - rewrite (omap_img p U128x1 _ (swap_bytes 128)) by (auto || reflexivity).
    rewrite (imap_same U128x1) by (auto; intros; apply (swap_bytes_lt 128)). reflexivity.
Qed.
