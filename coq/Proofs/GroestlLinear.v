(** A small reflexive decision procedure for equalities between GF(2)-linear
    byte expressions built from [N.lxor] and [xtime] over variables.

    An expression denotes  xor_k p_k(xtime)(x_k)  where each p_k is a
    polynomial in [xtime] with coefficients in GF(2).  [norm] computes the
    list of coefficient lists; two expressions with the same normal form are
    equal for every assignment of the variables (every [N], not only bytes),
    because [xtime] is additive ([xtime_lxor]) and [xtime 0 = 0].  Used for
    MixBytes: the addition chain of [submix] against the circulant matrix. *)
From Coq Require Import NArith List Bool Lia.
From CC Require Import Lib.Words Lib.Bytes Lib.ListX Spec.AES.
Import ListNotations.
Local Open Scope N_scope.

Inductive lexp :=
| LVar (i : nat)
| LZero
| LXor (a b : lexp)
| LXt (a : lexp).

Fixpoint leval (env : list N) (e : lexp) : N :=
  match e with
  | LVar i => nth i env 0
  | LZero => 0
  | LXor a b => N.lxor (leval env a) (leval env b)
  | LXt a => xtime (leval env a)
  end.

(** polynomials in xtime, lowest degree first; Horner evaluation *)
Fixpoint peval (x : N) (p : list bool) : N :=
  match p with
  | [] => 0
  | c :: p' => N.lxor (if c then x else 0) (xtime (peval x p'))
  end.

Fixpoint pxor (p q : list bool) : list bool :=
  match p, q with
  | [], _ => q
  | _, [] => p
  | a :: p', b :: q' => xorb a b :: pxor p' q'
  end.

Definition nf := list (list bool).

Fixpoint nfeval (env : list N) (n : nf) : N :=
  match env, n with
  | x :: env', p :: n' => N.lxor (peval x p) (nfeval env' n')
  | _, _ => 0
  end.

Fixpoint nfxor (a b : nf) : nf :=
  match a, b with
  | [], _ => b
  | _, [] => a
  | p :: a', q :: b' => pxor p q :: nfxor a' b'
  end.

Fixpoint norm (e : lexp) : nf :=
  match e with
  | LVar i => repeat [] i ++ [[true]]
  | LZero => []
  | LXor a b => nfxor (norm a) (norm b)
  | LXt a => map (cons false) (norm a)
  end.

(** canonical form: strip trailing zero coefficients / empty polynomials, so
    that equal linear maps get equal normal forms *)
Fixpoint ptrim (p : list bool) : list bool :=
  match p with
  | [] => []
  | c :: p' => match ptrim p' with
               | [] => if c then [true] else []
               | t => c :: t
               end
  end.
Fixpoint nftrim (n : nf) : nf :=
  match n with
  | [] => []
  | p :: n' => match nftrim n', ptrim p with
               | [], [] => []
               | t, p' => p' :: t
               end
  end.

Lemma lxor4 a b c d : N.lxor (N.lxor a b) (N.lxor c d) = N.lxor (N.lxor a c) (N.lxor b d).
Proof.
  rewrite !N.lxor_assoc. f_equal. rewrite <- !N.lxor_assoc. f_equal. apply N.lxor_comm.
Qed.

Lemma peval_pxor x p q : peval x (pxor p q) = N.lxor (peval x p) (peval x q).
Proof.
  revert q; induction p as [|a p IH]; intros q.
  - cbn [pxor peval]. now rewrite N.lxor_0_l.
  - destruct q as [|b q]; cbn [pxor peval].
    + now rewrite N.lxor_0_r.
    + rewrite IH, xtime_lxor, lxor4. f_equal.
      destruct a, b; cbn [xorb]; now rewrite ?N.lxor_nilpotent, ?N.lxor_0_l, ?N.lxor_0_r.
Qed.

Lemma nfeval_nil env : nfeval env [] = 0.
Proof. destruct env; reflexivity. Qed.

Lemma nfeval_nfxor env a b : nfeval env (nfxor a b) = N.lxor (nfeval env a) (nfeval env b).
Proof.
  revert a b; induction env as [|x env IH]; intros a b.
  - destruct a, b; reflexivity.
  - destruct a as [|p a]; [cbn [nfxor]; now rewrite nfeval_nil, N.lxor_0_l|].
    destruct b as [|q b]; [cbn [nfxor]; now rewrite nfeval_nil, N.lxor_0_r|].
    cbn [nfxor nfeval]. now rewrite peval_pxor, IH, lxor4.
Qed.

Lemma nfeval_shift env a : nfeval env (map (cons false) a) = xtime (nfeval env a).
Proof.
  revert a; induction env as [|x env IH]; intros a.
  - destruct a; reflexivity.
  - destruct a as [|p a]; [reflexivity|].
    cbn [map nfeval peval]. now rewrite IH, xtime_lxor, N.lxor_0_l.
Qed.

Lemma nfeval_var env i : nfeval env (repeat [] i ++ [[true]]) = nth i env 0.
Proof.
  revert env; induction i as [|i IH]; intros env.
  - destruct env as [|x env]; [reflexivity|].
    cbn [repeat app nfeval peval nth]. now rewrite nfeval_nil, N.lxor_0_r, N.lxor_0_r.
  - destruct env as [|x env]; [reflexivity|].
    cbn [repeat app nfeval peval nth]. now rewrite IH, N.lxor_0_l.
Qed.

Lemma norm_sound env e : leval env e = nfeval env (norm e).
Proof.
  induction e as [i| |a IHa b IHb|a IHa]; cbn [leval norm].
  - now rewrite nfeval_var.
  - now rewrite nfeval_nil.
  - now rewrite nfeval_nfxor, IHa, IHb.
  - now rewrite nfeval_shift, IHa.
Qed.

Lemma peval_ptrim x p : peval x (ptrim p) = peval x p.
Proof.
  induction p as [|c p IH]; [reflexivity|].
  cbn [ptrim]. destruct (ptrim p) as [|d t] eqn:E.
  - cbn [peval]. rewrite <- IH. cbn [peval].
    destruct c; cbn [peval]; reflexivity.
  - cbn [peval]. now rewrite <- IH.
Qed.

Lemma nfeval_nftrim env n : nfeval env (nftrim n) = nfeval env n.
Proof.
  revert env; induction n as [|p n IH]; intros env; [reflexivity|].
  destruct env as [|x env]; [cbn [nftrim]; destruct (nftrim n), (ptrim p); reflexivity|].
  cbn [nftrim nfeval]. rewrite <- (IH env), <- (peval_ptrim x p).
  destruct (nftrim n) as [|q t]; destruct (ptrim p) as [|c r]; cbn [nfeval]; try reflexivity.
  now rewrite nfeval_nil.
Qed.

Fixpoint pol_eqb (a b : list bool) : bool :=
  match a, b with
  | [], [] => true
  | x :: a', y :: b' => Bool.eqb x y && pol_eqb a' b'
  | _, _ => false
  end.
Fixpoint nf_eqb (a b : nf) : bool :=
  match a, b with
  | [], [] => true
  | x :: a', y :: b' => pol_eqb x y && nf_eqb a' b'
  | _, _ => false
  end.
Lemma pol_eqb_eq a b : pol_eqb a b = true -> a = b.
Proof.
  revert b; induction a as [|x a IH]; intros [|y b] H; try discriminate; [reflexivity|].
  cbn [pol_eqb] in H. apply andb_true_iff in H as [H1 H2].
  apply Bool.eqb_prop in H1. now rewrite H1, (IH _ H2).
Qed.
Lemma nf_eqb_eq a b : nf_eqb a b = true -> a = b.
Proof.
  revert b; induction a as [|x a IH]; intros [|y b] H; try discriminate; [reflexivity|].
  cbn [nf_eqb] in H. apply andb_true_iff in H as [H1 H2].
  now rewrite (pol_eqb_eq _ _ H1), (IH _ H2).
Qed.

Definition lexp_eqb (a b : lexp) : bool := nf_eqb (nftrim (norm a)) (nftrim (norm b)).

(** the decision procedure is sound *)
Theorem lexp_eqb_sound a b : lexp_eqb a b = true -> forall env, leval env a = leval env b.
Proof.
  intros H env. apply nf_eqb_eq in H.
  rewrite !norm_sound, <- (nfeval_nftrim env (norm a)), <- (nfeval_nftrim env (norm b)).
  now rewrite H.
Qed.

Fixpoint lexps_eqb (a b : list lexp) : bool :=
  match a, b with
  | [], [] => true
  | x :: a', y :: b' => lexp_eqb x y && lexps_eqb a' b'
  | _, _ => false
  end.
Lemma lexps_eqb_sound a b : lexps_eqb a b = true ->
  forall env, map (leval env) a = map (leval env) b.
Proof.
  revert b; induction a as [|x a IH]; intros [|y b] H env; try discriminate; [reflexivity|].
  cbn [lexps_eqb] in H. apply andb_true_iff in H as [H1 H2].
  cbn [map]. now rewrite (lexp_eqb_sound _ _ H1 env), (IH _ H2 env).
Qed.

(** non-vacuity: the procedure separates different maps and identifies equal ones *)
Example lexp_eqb_ex1 :
  lexp_eqb (LXt (LXor (LVar 0) (LVar 1))) (LXor (LXt (LVar 1)) (LXor (LXt (LVar 0)) LZero)) = true.
Proof. reflexivity. Qed.
Example lexp_eqb_ex2 : lexp_eqb (LXt (LVar 0)) (LVar 0) = false.
Proof. reflexivity. Qed.
