(** JH: the blocks the modelled hasher ([Model/JH.v], lib.rs [define_hasher!])
    feeds to the compression function are the blocks of the specified padding
    ([Spec/JH.v] [pad]), and the byte counter is exact, for every message
    shorter than 2^61 bytes, in both build profiles and for every way of
    splitting the message over [update] calls.

    [pad_eq_pad_tail]          the two forms of the specified padding agree
    [schedule_eq_spec]         one-shot digest: blocks fed to F8 = blocks of the padding
    [digest_is_fold]           the digest is the fold of the compressor over these blocks
    [bitlen_overflow_at_2_61]  the bound is tight
    [updates_len_exact]        any history of [update] calls: no panic, exact counter,
                               bit length written = 8 * total, same result as one-shot
    [updates_blocks_eq_spec]   ... and the blocks compressed over the whole history are
                               the blocks of the padding of the concatenation *)
From Coq Require Import NArith List Arith Bool Lia.
From CC Require Import Lib.Words Lib.Bytes Lib.ListX Model.BlockBuffer Model.JH
  Proofs.BlockBufferLazy Proofs.BlockBufferEager.
From CC Require Spec.JH.
Import ListNotations.

(** * arithmetic helpers *)
Lemma sub_div_mod a : a - a / 64 * 64 = a mod 64.
Proof. pose proof (Nat.div_mod a 64 ltac:(discriminate)). lia. Qed.

Lemma pow_2_64 : (2 ^ 64 = 18446744073709551616)%N.
Proof. reflexivity. Qed.
Lemma pow_2_61 : (2 ^ 61 = 2305843009213693952)%N.
Proof. reflexivity. Qed.

(** * the two forms of the specified padding *)
Lemma pad_eq_pad_tail msg : Spec.JH.pad msg = Spec.JH.pad_tail (N.of_nat (length msg)) msg.
Proof.
  unfold Spec.JH.pad, Spec.JH.pad_tail. cbv zeta.
  do 4 f_equal.
  generalize (length msg); intros len.
  pose proof (Nat.mod_upper_bound len 64 ltac:(discriminate)) as U.
  assert (E2 : forall m, m < 64 -> (64 - N.of_nat m)%N = N.of_nat (64 - m)) by (intros; lia).
  assert (E1 : (N.of_nat len mod 64)%N = N.of_nat (len mod 64)).
  { change 64%N with (N.of_nat 64). rewrite <- Nat2N.inj_mod. reflexivity. }
  rewrite E1, (E2 _ U). change 64%N with (N.of_nat 64). rewrite <- Nat2N.inj_mod.
  rewrite Nat2N.id. reflexivity.
Qed.

(** * byte-level helpers *)
Lemma le_split_app n m x :
  le_split (n + m) x = le_split n x ++ le_split m (N.shiftr x (8 * N.of_nat n)).
Proof.
  revert x. induction n as [|n IH]; intros x.
  - cbn [plus le_split app]. rewrite N.shiftr_0_r. reflexivity.
  - cbn [plus le_split app]. rewrite IH, N.shiftr_shiftr. do 4 f_equal. lia.
Qed.

(** the 128-bit length field of the specification = 8 zero bytes and the
    64-bit field written by the code, as long as the bit length fits 64 bits *)
Lemma be_split_16_8 x : (x < 2 ^ 64)%N -> be_split 16 x = repeat 0%N 8 ++ be_split 8 x.
Proof.
  intros H. unfold be_split. change 16 with (8 + 8). rewrite le_split_app.
  change (8 * N.of_nat 8)%N with 64%N.
  rewrite N.shiftr_div_pow2, N.div_small by exact H.
  rewrite rev_app_distr. reflexivity.
Qed.

Lemma be_split_length n x : length (be_split n x) = n.
Proof. unfold be_split. rewrite rev_length. apply le_split_length. Qed.

Lemma firstn_S_upd {A} pos (x : A) buf :
  pos < length buf -> firstn (S pos) (upd pos x buf) = firstn pos buf ++ [x].
Proof.
  revert buf. induction pos as [|pos IH]; intros [|y buf] H; cbn [length] in H; try lia.
  - reflexivity.
  - cbn [upd firstn app]. f_equal. apply IH. lia.
Qed.

(** * blocks of a byte string *)
Lemma blocks_of_concat bl :
  Forall (fun c => length c = 64) bl -> Spec.JH.blocks_of (concat bl) = bl.
Proof.
  unfold Spec.JH.blocks_of. intros H.
  rewrite chunks_exact_take_blocks by lia.
  induction H as [|c bl Hc Hbl IH]; [reflexivity|].
  cbn [concat]. rewrite app_length, Hc.
  rewrite eager_count_step by lia.
  replace (64 + length (concat bl) - 64) with (length (concat bl)) by lia.
  cbn [take_blocks]. rewrite firstn_exact, skipn_exact by (symmetry; exact Hc).
  rewrite IH. reflexivity.
Qed.

(** the first [q] blocks come from [D] alone when [D] has at least [q] blocks *)
Lemma blocks_of_split D S q :
  q * 64 <= length D ->
  Spec.JH.blocks_of (D ++ S) =
  take_blocks 64 q D ++ Spec.JH.blocks_of (skipn (q * 64) D ++ S).
Proof.
  intros H. unfold Spec.JH.blocks_of.
  rewrite !chunks_exact_take_blocks by lia.
  assert (E : length (D ++ S) = length (skipn (q * 64) D ++ S) + q * 64)
    by (rewrite !app_length, skipn_length; lia).
  rewrite E. unfold eager_count. rewrite Nat.div_add by discriminate.
  rewrite Nat.add_comm, take_blocks_add.
  rewrite take_blocks_app_le by exact H. rewrite skipn_app_le by exact H. reflexivity.
Qed.

(** * what [finalize_into_dirty] feeds to the compressor *)

(** what follows the buffered bytes in the specified padding: [pos] buffered
    bytes, [len] the value of the length field *)
Definition suffix (pos : nat) (len : N) : list N :=
  [0x80%N] ++ repeat 0%N (47 + (64 - pos) mod 64) ++ be_split 16 len.

Lemma pad_suffix msg :
  Spec.JH.pad msg = msg ++ suffix (length msg mod 64) (8 * N.of_nat (length msg)).
Proof. reflexivity. Qed.

(** both padding branches: only the buffered bytes [buffer[..pos]] matter, the
    stale rest of the buffer is overwritten *)
Lemma final_blocks_char st b dl len :
  bb_size b = 64 -> bb_pos b < 64 -> (len < 2 ^ 64)%N ->
  h_final_blocks (Hasher st b dl) len =
  Some (Spec.JH.blocks_of (bb_content b ++ suffix (bb_pos b) len)).
Proof.
  destruct b as [buf pos]. unfold bb_size, bb_content. cbn [bb_buf bb_pos].
  intros Hs Hp Hl. unfold h_final_blocks, len_padding_be, suffix. cbn [h_buffer bb_pos].
  rewrite (be_split_16_8 len Hl).
  pose proof (be_split_length 8 len) as Hl8. set (l8 := be_split 8 len) in *. clearbody l8.
  destruct (Nat.eqb_spec pos 0) as [->|Hnz].
  - (* position 0: [len64_padding_be], a single block *)
    explode l8. explode buf. vm_compute. reflexivity.
  - (* Iso7816 padding of the partial block, then a block with the length *)
    unfold pad_with_iso7816, bb_size. cbn [bb_buf bb_pos]. rewrite Hs.
    destruct (Nat.leb_spec 64 pos) as [H|_]; [lia|].
    f_equal. symmetry.
    set (blk := zero_from (upd pos 128%N buf) (pos + 1)).
    set (last := copy_at (repeat 0%N 64) 56 l8).
    assert (Eb : blk = firstn pos buf ++ [128%N] ++ repeat 0%N (63 - pos)).
    { unfold blk, zero_from. rewrite upd_length, Hs, Nat.add_1_r.
      rewrite firstn_S_upd by lia. rewrite <- app_assoc.
      replace (64 - S pos) with (63 - pos) by lia. reflexivity. }
    assert (El : last = repeat 0%N 56 ++ l8).
    { unfold last. explode l8. vm_compute. reflexivity. }
    assert (Hfl : length (firstn pos buf) = pos) by (rewrite firstn_length; lia).
    replace (firstn pos buf ++ [128%N] ++ repeat 0%N (47 + (64 - pos) mod 64)
               ++ repeat 0%N 8 ++ l8)
      with (concat [blk; last]).
    + apply blocks_of_concat. repeat constructor.
      * rewrite Eb, !app_length, repeat_length, Hfl. cbn [length]. lia.
      * rewrite El, app_length, repeat_length, Hl8. reflexivity.
    + cbn [concat]. rewrite app_nil_r, Eb, El.
      rewrite Nat.mod_small by lia.
      replace (47 + (64 - pos)) with ((63 - pos) + 48) by lia.
      rewrite repeat_app.
      change (repeat 0%N 56) with (repeat 0%N 48 ++ repeat 0%N 8).
      rewrite <- !app_assoc. reflexivity.
Qed.

(** * the state of the hasher after absorbing the bytes [D] *)
Definition inv (v : variant) (h : hasher) (D : list N) : Prop :=
  let q := length D / 64 in
  bb_size (h_buffer h) = 64
  /\ bb_pos (h_buffer h) = length D - q * 64
  /\ bb_content (h_buffer h) = skipn (q * 64) D
  /\ h_state h = fold_left compressor_input (take_blocks 64 q D) (compressor_new (v_h0 v))
  /\ h_datalen h = N.of_nat (length D).

Lemma inv_default v : inv v (h_default v) [].
Proof. unfold inv, h_default. cbn. repeat split; reflexivity. Qed.

Lemma inv_pos v h D : inv v h D -> bb_pos (h_buffer h) = length D mod 64.
Proof. intros (_ & Hp & _). rewrite Hp. apply sub_div_mod. Qed.

Lemma inv_wf v h D : inv v h D -> bb_wf (h_buffer h).
Proof.
  intros Hi. pose proof (inv_pos v h D Hi) as Hp. destruct Hi as (Hs & _).
  pose proof (Nat.mod_upper_bound (length D) 64 ltac:(discriminate)).
  unfold bb_wf. rewrite Hs, Hp. lia.
Qed.

(** one [update]: no overflow below 2^64 bytes, and the invariant is kept *)
Lemma update_inv p v h D d :
  inv v h D -> (N.of_nat (length (D ++ d)) < 2 ^ 64)%N ->
  exists h1, h_update p h d = Some h1 /\ inv v h1 (D ++ d).
Proof.
  intros Hi Hlt. pose proof (inv_wf v h D Hi) as Hwf.
  destruct Hi as (Hs & Hp & Hc & Hst & Hdl).
  destruct h as [st b dl]. cbn [h_state h_buffer h_datalen] in *.
  unfold h_update. cbn [h_datalen h_buffer h_state].
  rewrite Hdl, <- Nat2N.inj_add, <- app_length.
  destruct (N.leb_spec (2 ^ 64) (N.of_nat (length (D ++ d)))) as [H|_]; [lia|].
  rewrite andb_false_r.
  destruct (input_block_char b d Hwf) as (Ho & Hs1 & Hp1 & Hc1).
  destruct (input_block b d) as [b1 blocks]. cbn [fst snd] in *.
  eexists. split; [reflexivity|].
  rewrite Hs, Hc in *. clear Hs Hc.
  set (q := length D / 64) in *.
  assert (B1 : q * 64 <= length D)
    by (apply (eager_count_bounds 64 (length D)); lia).
  set (all := skipn (q * 64) D ++ d) in *.
  assert (Hall : length all = length D - q * 64 + length d)
    by (unfold all; rewrite app_length, skipn_length; reflexivity).
  set (n := eager_count 64 (length all)) in *.
  assert (Hq : length (D ++ d) / 64 = q + n).
  { rewrite app_length. unfold n. rewrite Hall.
    apply (eager_count_add 64 (length D) (length d)). lia. }
  assert (C1 : n * 64 <= length all)
    by (apply (eager_count_bounds 64 (length all)); lia).
  unfold inv. cbn [h_state h_buffer h_datalen]. cbv zeta. rewrite Hq.
  split; [exact Hs1|].
  split; [rewrite Hp1, app_length; lia|].
  split.
  { rewrite Hc1. replace ((q + n) * 64) with (q * 64 + n * 64) by lia.
    rewrite <- skipn_skipn_add. rewrite (skipn_app_le D d) by lia. reflexivity. }
  split.
  { rewrite Hst, Ho, <- fold_left_app. f_equal.
    rewrite take_blocks_add. rewrite take_blocks_app_le by lia.
    rewrite skipn_app_le by lia. reflexivity. }
  apply wrap_small. exact Hlt.
Qed.

(** any sequence of [update] calls *)
Lemma updates_inv p v calls : forall h D,
  inv v h D -> (N.of_nat (length (D ++ concat calls)) < 2 ^ 64)%N ->
  exists h', h_updates p h calls = Some h' /\ inv v h' (D ++ concat calls).
Proof.
  induction calls as [|d r IH]; intros h D Hi Hlt; cbn [h_updates concat] in *.
  - exists h. rewrite app_nil_r. split; [reflexivity|exact Hi].
  - destruct (update_inv p v h D d Hi) as (h1 & Hu & Hi1).
    { rewrite !app_length in *. lia. }
    rewrite Hu. rewrite app_assoc in *. apply IH; assumption.
Qed.

(** [self.datalen as u64 * 8] is exact below 2^61 bytes *)
Lemma bitlen_inv p v h D :
  inv v h D -> (N.of_nat (length D) < 2 ^ 61)%N ->
  h_bitlen p h = Some (8 * N.of_nat (length D))%N.
Proof.
  intros (_ & _ & _ & _ & Hdl) Hlt. unfold h_bitlen. rewrite Hdl.
  rewrite pow_2_61 in Hlt.
  destruct (N.leb_spec (2 ^ 64) (N.of_nat (length D) * 8)) as [H|H];
    [rewrite pow_2_64 in H; lia|].
  rewrite andb_false_r, wrap_small by exact H. f_equal. apply N.mul_comm.
Qed.

Lemma final_inv v h D len :
  inv v h D -> (len < 2 ^ 64)%N ->
  h_final_blocks h len =
  Some (Spec.JH.blocks_of (skipn (length D / 64 * 64) D ++ suffix (length D mod 64) len)).
Proof.
  intros Hi Hl. pose proof (inv_pos v h D Hi) as Hp. destruct Hi as (Hs & _ & Hc & _).
  destruct h as [st b dl]. cbn [h_buffer] in *.
  rewrite final_blocks_char; [rewrite Hc, Hp; reflexivity|exact Hs| |exact Hl].
  rewrite Hp. apply Nat.mod_upper_bound. discriminate.
Qed.

Lemma bitlen_lt n : (n < 2 ^ 61)%N -> (8 * n < 2 ^ 64)%N.
Proof. rewrite pow_2_61, pow_2_64. lia. Qed.

Lemma lt_61_64 n : (n < 2 ^ 61)%N -> (n < 2 ^ 64)%N.
Proof. rewrite pow_2_61, pow_2_64. lia. Qed.

(** the complete list of blocks compressed for a hasher that absorbed [D]:
    those already compressed, then those of [finalize] *)
Lemma inv_blocks_spec v h D :
  inv v h D -> (N.of_nat (length D) < 2 ^ 61)%N ->
  exists fin, h_final_blocks h (8 * N.of_nat (length D)) = Some fin
    /\ take_blocks 64 (length D / 64) D ++ fin = Spec.JH.blocks_of (Spec.JH.pad D).
Proof.
  intros Hi Hlt. eexists. split; [apply (final_inv v h D _ Hi), bitlen_lt, Hlt|].
  rewrite pad_suffix. symmetry. apply blocks_of_split.
  apply (eager_count_bounds 64 (length D)). lia.
Qed.

(** * one-shot digest *)
Theorem schedule_eq_spec : forall p v msg,
  (N.of_nat (length msg) < 2 ^ 61)%N ->
  m_blocks p v msg = Some (Spec.JH.blocks_of (Spec.JH.pad msg)).
Proof.
  intros p v msg Hlt. unfold m_blocks.
  destruct (update_inv p v (h_default v) [] msg (inv_default v)) as (h & Hu & Hi).
  { apply lt_61_64, Hlt. }
  cbn [app] in Hi. rewrite Hu, (bitlen_inv p v h msg Hi Hlt).
  destruct (inv_blocks_spec v h msg Hi Hlt) as (fin & Hf & Hb). rewrite Hf, <- Hb.
  do 2 f_equal.
  destruct (input_block_char (bb_new 64) msg (bb_new_wf 64 ltac:(lia))) as (Ho & _).
  exact Ho.
Qed.

Theorem digest_is_fold : forall p v msg,
  m_digest p v msg =
  match m_blocks p v msg with
  | None => None
  | Some bl => Some (skipn (128 - v_out v)
                 (compressor_finalize (fold_left compressor_input bl (compressor_new (v_h0 v)))))
  end.
Proof.
  intros p v msg. unfold m_digest, m_blocks, h_finalize.
  destruct (h_update p (h_default v) msg) as [h|] eqn:Hu; [|reflexivity].
  destruct (h_bitlen p h) as [len|]; [|reflexivity].
  destruct (h_final_blocks h len) as [fin|]; [|reflexivity].
  rewrite fold_left_app. do 3 f_equal.
  unfold h_update, h_default in Hu. cbn [h_datalen h_buffer h_state] in Hu.
  destruct (checked p && _) in Hu; [discriminate|].
  destruct (input_block (bb_new 64) msg) as [b blocks].
  injection Hu as <-. reflexivity.
Qed.

(** * the bound is tight *)
Lemma bitlen_overflow_at_2_61 : forall st,
  h_bitlen Debug (Hasher st (bb_new 64) (2 ^ 61)) = None
  /\ h_bitlen Release (Hasher st (bb_new 64) (2 ^ 61)) = Some 0%N.
Proof. intros st. split; reflexivity. Qed.

(** * both padding branches occur *)
Example schedule_aligned_example :
  length (Spec.JH.blocks_of (Spec.JH.pad (repeat 7%N 64))) = 2%nat.
Proof. vm_compute. reflexivity. Qed.
Example schedule_unaligned_example :
  length (Spec.JH.blocks_of (Spec.JH.pad (repeat 7%N 65))) = 3%nat.
Proof. vm_compute. reflexivity. Qed.

(** * histories of [update] calls *)

(** [finalize] is a function of the absorbed bytes only *)
Lemma finalize_inv p v h h' D :
  inv v h D -> inv v h' D -> (N.of_nat (length D) < 2 ^ 61)%N ->
  h_finalize p v h = h_finalize p v h'.
Proof.
  intros Hi Hi' Hlt. unfold h_finalize.
  rewrite (bitlen_inv p v h D Hi Hlt), (bitlen_inv p v h' D Hi' Hlt).
  rewrite (final_inv v h D _ Hi (bitlen_lt _ Hlt)), (final_inv v h' D _ Hi' (bitlen_lt _ Hlt)).
  destruct Hi as (_ & _ & _ & Hst & _), Hi' as (_ & _ & _ & Hst' & _).
  rewrite Hst, Hst'. reflexivity.
Qed.

(** any sequence of [update] calls: no panic, the counter is exact (it neither
    wraps nor overflows below 2^61 bytes), the length written into the final
    block is 8 * total, and the result is that of the one-shot digest *)
Theorem updates_len_exact : forall p v calls,
  (N.of_nat (length (concat calls)) < 2 ^ 61)%N ->
  exists h, h_updates p (h_default v) calls = Some h
         /\ h_datalen h = N.of_nat (length (concat calls))
         /\ h_bitlen p h = Some (8 * N.of_nat (length (concat calls)))%N
         /\ h_finalize p v h = m_digest p v (concat calls).
Proof.
  intros p v calls Hlt.
  destruct (updates_inv p v calls (h_default v) [] (inv_default v)) as (h & Hu & Hi).
  { apply lt_61_64, Hlt. }
  cbn [app] in Hi. exists h. split; [exact Hu|].
  split; [apply Hi|]. split; [exact (bitlen_inv p v h _ Hi Hlt)|].
  unfold m_digest.
  destruct (update_inv p v (h_default v) [] (concat calls) (inv_default v)) as (h1 & Hu1 & Hi1).
  { apply lt_61_64, Hlt. }
  cbn [app] in Hi1. rewrite Hu1. exact (finalize_inv p v h h1 _ Hi Hi1 Hlt).
Qed.

(** the blocks compressed over a whole history (by the [update] calls, then by
    [finalize]) are the blocks of the specified padding of the concatenation *)
Theorem updates_blocks_eq_spec : forall p v calls,
  (N.of_nat (length (concat calls)) < 2 ^ 61)%N ->
  exists h bl fin,
    h_updates p (h_default v) calls = Some h
    /\ h_state h = fold_left compressor_input bl (compressor_new (v_h0 v))
    /\ h_final_blocks h (8 * N.of_nat (length (concat calls))) = Some fin
    /\ bl ++ fin = Spec.JH.blocks_of (Spec.JH.pad (concat calls)).
Proof.
  intros p v calls Hlt.
  destruct (updates_inv p v calls (h_default v) [] (inv_default v)) as (h & Hu & Hi).
  { apply lt_61_64, Hlt. }
  cbn [app] in Hi.
  destruct (inv_blocks_spec v h _ Hi Hlt) as (fin & Hf & Hb).
  exists h, (take_blocks 64 (length (concat calls) / 64) (concat calls)), fin.
  split; [exact Hu|]. split; [apply Hi|]. split; [exact Hf|exact Hb].
Qed.

(** non-vacuity of the history theorem: a three-call history crossing a block
    boundary, with a stale buffer tail *)
Example updates_example :
  exists h, h_updates Debug (h_default Jh256) [repeat 1%N 60; repeat 2%N 10; repeat 3%N 5] = Some h
    /\ h_datalen h = 75%N /\ bb_pos (h_buffer h) = 11
    /\ h_finalize Debug Jh256 h = m_digest Debug Jh256 (repeat 1%N 60 ++ repeat 2%N 10 ++ repeat 3%N 5).
Proof.
  destruct (updates_len_exact Debug Jh256 [repeat 1%N 60; repeat 2%N 10; repeat 3%N 5])
    as (h & Hu & Hd & _ & Hf).
  { vm_compute. reflexivity. }
  exists h. split; [exact Hu|]. split; [exact Hd|]. split; [|rewrite Hf; cbn [concat]; rewrite app_nil_r; reflexivity].
  destruct (updates_inv Debug Jh256 [repeat 1%N 60; repeat 2%N 10; repeat 3%N 5]
              (h_default Jh256) [] (inv_default Jh256)) as (h2 & Hu2 & Hi).
  { vm_compute. reflexivity. }
  rewrite Hu in Hu2. injection Hu2 as <-. rewrite (inv_pos _ _ _ Hi). vm_compute. reflexivity.
Qed.

