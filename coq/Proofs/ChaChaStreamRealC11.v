(** C11 (and the reachability part of C02) for the REAL block producers of Model/ChaChaGuts.v
    and the states the seven constructors produce: closed instances of every theorem of
    Props/C11.v - no [producers_spec] / [stream_init] hypothesis left, only byte-ness and
    lengths of key and nonce (audit finding "C11: real instantiation missing from Props").

    [blk_of drounds] is the block function of the real narrow producer; [is12_of v] selects the
    layout: VIetf = 12-byte nonce / 32-bit counter (2^38 bytes), VDjb / VX = 64-bit counter.
    The last part lifts the C11 statements about [try_apply] to the profile-explicit
    [try_apply_chk prof] of Model/ChaChaStreamChk.v (debug and release). *)
From Coq Require Import NArith ZArith List Lia Arith Bool.
From CC Require Import Lib.Words Lib.Bytes Lib.ListX Model.ChaChaGuts Model.ChaChaStream Model.ChaChaStreamChk.
From CC Require Import Proofs.ChaChaStreamCtr Proofs.ChaChaStreamSpec Proofs.ChaChaStreamSeek Proofs.ChaChaStreamInv
  Proofs.ChaChaStreamHist Proofs.ChaChaStreamMain Proofs.ChaChaStreamReal Proofs.ChaChaStreamChk.
Import ListNotations.
Local Open Scope N_scope.

Definition blk_of (drounds : nat) : chacha -> list N := fun s => fst (refill s drounds).

(** key and nonce as the constructor of variant [v] takes them *)
Definition key_nonce_ok (v : variant) (key nonce : list N) : Prop :=
  Forall is_byte key /\ length key = 32%nat /\ Forall is_byte nonce /\
  length nonce = (match v with VDjb => 8 | VIetf => 12 | VX => 24 end)%nat.

(** the two hypotheses of every generic C02 / C11 theorem hold of the real model *)
Lemma real_closed v drounds key nonce : key_nonce_ok v key nonce ->
  producers_spec (real_refill1 drounds) (real_refill4 drounds) (blk_of drounds) (init_of v drounds key nonce)
  /\ stream_init (is12_of v) (init_of v drounds key nonce).
Proof.
  intros (Hk & Hkl & Hn & Hnl). split.
  - apply real_producers_wf, init_of_wf; assumption.
  - apply stream_init_of; assumption.
Qed.

Section RealC11.
  Variables (drounds : nat) (key nonce : list N).
  Notation r1 := (real_refill1 drounds).
  Notation r4 := (real_refill4 drounds).
  Notation blk := (blk_of drounds).
  Notation s0 v := (init_of v drounds key nonce).

  (** reachable states of the real model exist and are closed under every operation *)
  Theorem real_reachable_init v : key_nonce_ok v key nonce ->
    reachable blk (is12_of v) (s0 v) (m_new v drounds key nonce) 0.
  Proof. intros H. destruct (real_closed v drounds key nonce H) as [HP HS]. exact (new_reachable _ _ _ _ _ HS HP). Qed.

  Theorem real_reachable_step v : key_nonce_ok v key nonce ->
    forall b pos o, reachable blk (is12_of v) (s0 v) b pos -> op_ok o ->
      reachable blk (is12_of v) (s0 v) (fst (step r1 r4 (is12_of v) b o))
                (fst (spec_step blk (is12_of v) (s0 v) pos o)).
  Proof. intros H. destruct (real_closed v drounds key nonce H) as [HP HS]. exact (step_reachable _ _ _ _ _ HS HP). Qed.

  (** IETF: apply of n bytes at position pos succeeds <-> pos + n <= 2^38; never panics *)
  Theorem real_ietf_apply_ok_iff : key_nonce_ok VIetf key nonce ->
    forall b pos data, reachable blk true (s0 VIetf) b pos -> N.of_nat (length data) < 2 ^ 64 ->
      (fst (fst (try_apply r1 r4 true b data)) = ROk <-> pos + N.of_nat (length data) <= 2 ^ 38)
      /\ fst (fst (try_apply r1 r4 true b data)) <> RPanic.
  Proof. intros H. destruct (real_closed VIetf drounds key nonce H) as [HP HS]. exact (ietf_apply_ok_iff _ _ _ _ HP HS). Qed.

  (** every variant: a call that does not succeed is Err, returns the data unchanged and leaves the
      buffer reachable at the same abstract position *)
  Theorem real_apply_err_atomic v : key_nonce_ok v key nonce ->
    forall b pos data, reachable blk (is12_of v) (s0 v) b pos -> N.of_nat (length data) < 2 ^ 64 ->
      fst (fst (try_apply r1 r4 (is12_of v) b data)) <> ROk ->
      fst (fst (try_apply r1 r4 (is12_of v) b data)) = RErr
      /\ snd (try_apply r1 r4 (is12_of v) b data) = data
      /\ reachable blk (is12_of v) (s0 v) (snd (fst (try_apply r1 r4 (is12_of v) b data))) pos.
  Proof. intros H. destruct (real_closed v drounds key nonce H) as [HP HS]. exact (apply_err_atomic_closed _ _ _ _ _ HS HP). Qed.

  (** an accepted seek leads to a reachable state at exactly that position (every variant) *)
  Theorem real_seek_ok_reachable v : key_nonce_ok v key nonce ->
    forall b pos p, reachable blk (is12_of v) (s0 v) b pos -> seek_in_range (is12_of v) p ->
      exists b', try_seek (is12_of v) b p = (ROk, b') /\ reachable blk (is12_of v) (s0 v) b' (Z.to_N p).
  Proof. intros H. destruct (real_closed v drounds key nonce H) as [HP HS]. exact (seek_reachable _ _ _ _ _ HS HP). Qed.

  (** IETF, on every reachable buffer of the real model: try_seek p = Ok <-> 0 <= p <= 2^38; the
      failing case is Err, never Panic, and leaves the buffer unchanged; the accepted case leaves a
      buffer reachable at p *)
  Theorem real_ietf_seek_ok_iff : key_nonce_ok VIetf key nonce ->
    forall b pos p, reachable blk true (s0 VIetf) b pos ->
      (fst (try_seek true b p) = ROk <-> (0 <= p <= 2 ^ 38)%Z)
      /\ fst (try_seek true b p) <> RPanic
      /\ (fst (try_seek true b p) <> ROk -> snd (try_seek true b p) = b)
      /\ (fst (try_seek true b p) = ROk -> reachable blk true (s0 VIetf) (snd (try_seek true b p)) (Z.to_N p)).
  Proof.
    intros H b pos p HR. destruct (try_seek_ok_iff true b p) as [H1 H2].
    assert (Hiff : seek_in_range true p <-> (0 <= p <= 2 ^ 38)%Z).
    { unfold seek_in_range. split.
      - intros (A & B & C). split; [exact A | exact (C eq_refl)].
      - intros (A & B). split; [exact A|]. split; [|intros _; exact B].
        eapply Z.le_lt_trans; [exact B | reflexivity]. }
    split; [rewrite H1; exact Hiff|]. split; [exact H2|]. split; [apply try_seek_err_unchanged|].
    intros Hok. apply H1 in Hok.
    destruct (real_seek_ok_reachable VIetf H b pos p HR Hok) as (b' & E & HR'). cbn [is12_of] in E.
    rewrite E. exact HR'.
  Qed.

  (** IETF: seek to exactly 2^38 is accepted; there an empty apply is Ok, a one-byte apply is Err
      with the byte unchanged, a further empty apply is still Ok and current_pos is 2^38 *)
  Theorem real_seek_to_limit_then_apply0_ok : key_nonce_ok VIetf key nonce ->
    forall b pos x, reachable blk true (s0 VIetf) b pos ->
      run r1 r4 true b [OSeek (2 ^ 38); OApply []; OApply [x]; OApply []; OPos (2 ^ 64 - 1)]
      = [ObsSeek ROk; ObsApply ROk []; ObsApply RErr [x]; ObsApply ROk []; ObsPos (Some (2 ^ 38)%Z)].
  Proof. intros H. destruct (real_closed VIetf drounds key nonce H) as [HP HS]. exact (seek_to_limit_then_apply0_ok _ _ _ _ HP HS). Qed.

  (** 64-bit variants (ChaCha8/12/20 with the 8-byte nonce, XChaCha8/12/20): 2^70 bytes *)
  Theorem real_big_apply_ok_iff v : is12_of v = false -> key_nonce_ok v key nonce ->
    forall b pos data, reachable blk false (s0 v) b pos -> N.of_nat (length data) < 2 ^ 64 ->
      (fst (fst (try_apply r1 r4 false b data)) = ROk <-> pos + N.of_nat (length data) <= 2 ^ 70)
      /\ fst (fst (try_apply r1 r4 false b data)) <> RPanic.
  Proof.
    intros E H. destruct (real_closed v drounds key nonce H) as [HP HS]. rewrite E in HS.
    exact (big_apply_ok_iff _ _ _ _ HP HS).
  Qed.

  Theorem real_big_counter_never_exhausts v : is12_of v = false -> key_nonce_ok v key nonce ->
    forall b pos data, reachable blk false (s0 v) b pos -> N.of_nat (length data) < 2 ^ 64 ->
      pos + N.of_nat (length data) <= 2 ^ 64 ->
      fst (fst (try_apply r1 r4 false b data)) = ROk.
  Proof.
    intros E H. destruct (real_closed v drounds key nonce H) as [HP HS]. rewrite E in HS.
    exact (big_counter_never_exhausts _ _ _ _ HP HS).
  Qed.

  (** no key-stream reuse (1): every byte handed out is data xor the key-stream byte of its absolute
      position, and that position is below the end of the stream *)
  Theorem real_no_keystream_reuse_bytes v : key_nonce_ok v key nonce ->
    forall b pos data i, reachable blk (is12_of v) (s0 v) b pos -> N.of_nat (length data) < 2 ^ 64 ->
      fst (fst (try_apply r1 r4 (is12_of v) b data)) = ROk -> (i < length data)%nat ->
      nth i (snd (try_apply r1 r4 (is12_of v) b data)) 0
        = N.lxor (nth i data 0) (ks_byte blk (is12_of v) (s0 v) (pos + N.of_nat i))
      /\ pos + N.of_nat i < stream_bytes (is12_of v).
  Proof. intros H. destruct (real_closed v drounds key nonce H) as [HP HS]. exact (apply_ok_bytes_closed _ _ _ _ _ HS HP). Qed.

  (** (2): block k is the real block function on the state with counter word(s) = k, every other
      word as constructed *)
  Theorem real_no_keystream_reuse_block_input v : key_nonce_ok v key nonce ->
    forall k d0 d1 d2 d3, k < nblocks (is12_of v) -> cd (s0 v) = [d0; d1; d2; d3] ->
      kblock blk (is12_of v) (s0 v) k =
        fst (refill (CC (cb (s0 v)) (cc (s0 v))
                        (if is12_of v then [k; d1; d2; d3] else [k mod 2 ^ 32; k / 2 ^ 32; d2; d3])) drounds).
  Proof. intros H. destruct (real_closed v drounds key nonce H) as [HP HS]. exact (block_input_words_closed _ _ _ _ _ HS HP). Qed.

  (** (3): distinct block indices below the number of blocks give distinct block-function inputs *)
  Theorem real_no_keystream_reuse_distinct v : key_nonce_ok v key nonce ->
    forall k k', k < nblocks (is12_of v) -> k' < nblocks (is12_of v) ->
      stA (s0 v) (ctr_base (is12_of v) (s0 v) + k) = stA (s0 v) (ctr_base (is12_of v) (s0 v) + k') -> k = k'.
  Proof. intros H. destruct (real_closed v drounds key nonce H) as [HP HS]. exact (block_inputs_distinct_closed _ _ _ _ _ HS HP). Qed.

  (** * the same in both build profiles: on a reachable buffer the profile-explicit
        [try_apply_chk] / [try_seek_chk] ARE [try_apply] / [try_seek], so every statement above
        holds verbatim of debug and of release code; the two exhaustion statements spelled out *)
  Theorem real_try_apply_chk_eq prof v : key_nonce_ok v key nonce ->
    forall b pos data, reachable blk (is12_of v) (s0 v) b pos -> N.of_nat (length data) < 2 ^ 64 ->
      try_apply_chk prof r1 r4 (is12_of v) b data = try_apply r1 r4 (is12_of v) b data.
  Proof.
    intros _ b pos data HR Hn. apply try_apply_chk_eq; [exact Hn|].
    exact (reachable_have_i8 _ _ _ _ _ HR).
  Qed.

  Theorem real_ietf_apply_ok_iff_profile prof : key_nonce_ok VIetf key nonce ->
    forall b pos data, reachable blk true (s0 VIetf) b pos -> N.of_nat (length data) < 2 ^ 64 ->
      (fst (fst (try_apply_chk prof r1 r4 true b data)) = ROk <-> pos + N.of_nat (length data) <= 2 ^ 38)
      /\ fst (fst (try_apply_chk prof r1 r4 true b data)) <> RPanic.
  Proof.
    intros H b pos data HR Hn.
    pose proof (real_try_apply_chk_eq prof VIetf H b pos data HR Hn) as E. cbn [is12_of] in E. rewrite E.
    exact (real_ietf_apply_ok_iff H b pos data HR Hn).
  Qed.

  Theorem real_apply_err_atomic_profile prof v : key_nonce_ok v key nonce ->
    forall b pos data, reachable blk (is12_of v) (s0 v) b pos -> N.of_nat (length data) < 2 ^ 64 ->
      fst (fst (try_apply_chk prof r1 r4 (is12_of v) b data)) <> ROk ->
      fst (fst (try_apply_chk prof r1 r4 (is12_of v) b data)) = RErr
      /\ snd (try_apply_chk prof r1 r4 (is12_of v) b data) = data
      /\ reachable blk (is12_of v) (s0 v) (snd (fst (try_apply_chk prof r1 r4 (is12_of v) b data))) pos.
  Proof.
    intros H b pos data HR Hn. rewrite (real_try_apply_chk_eq prof v H b pos data HR Hn).
    exact (real_apply_err_atomic v H b pos data HR Hn).
  Qed.
End RealC11.
