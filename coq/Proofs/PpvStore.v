(** C13: byte I/O (StoreBytes) in both byte orders, storage views, soft x4 transpose4 / to_scalars. *)
From Coq Require Import NArith List Lia Bool Arith.
From CC Require Import Lib.Words Lib.Bytes Lib.ListX Model.Intrinsics Model.PpvSse Model.PpvAvx2 Spec.Lanes
  Proofs.IntrinsicsLemmas Proofs.PpvSseWords Proofs.PpvSseMove Proofs.PpvAvx2Words.
Import ListNotations.
Local Open Scope N_scope.

(** * big-endian word views *)
Lemma v_bswap_read_be k n x : wf n x ->
  v_bswap (8 * N.of_nat k) (words_le k x) = read_be k x.
Proof.
  intros Hx. destruct (chunks_wf k n x Hx) as [Hl Hb]. unfold v_bswap, words_le, read_be.
  rewrite map_map. apply map_ext_in. intros c Hc.
  rewrite Forall_forall in Hl, Hb. now apply bswapw_bytes; [apply Hl|apply Hb].
Qed.
Lemma le_split_bswapw k w : is_wordk k w -> le_split k (bswapw (8 * N.of_nat k) w) = be_split k w.
Proof.
  intros Hw. unfold bswapw, be_join, be_split.
  replace (N.to_nat (8 * N.of_nat k / 8)) with k
    by (rewrite N.mul_comm, N.div_mul by lia; now rewrite Nat2N.id).
  set (r := rev (le_split k w)).
  assert (Hr : length r = k) by (unfold r; now rewrite rev_length, le_split_length).
  rewrite <- Hr at 1. apply le_split_join. apply Forall_rev, le_split_bytes.
Qed.
Lemma bytes_le_bswap_write_be k ws : Forall (is_wordk k) ws ->
  bytes_le k (v_bswap (8 * N.of_nat k) ws) = write_be k ws.
Proof.
  intros Hw. unfold bytes_le, v_bswap, write_be. rewrite !flat_map_concat_map, map_map. f_equal.
  apply map_ext_in. intros w Hin. rewrite Forall_forall in Hw. now apply le_split_bswapw, Hw.
Qed.

(** * StoreBytes of the 128-bit types: [k] = 4 (u32x4), 8 (u64x2), 16 (u128x1) *)
Definition bswap_of (k : nat) (s3 : bool) : reg -> reg :=
  match k with 4%nat => u32x4_bswap s3 | 8%nat => u64x2_bswap s3 | _ => u128x1_bswap s3 end.
Lemma bswap_of_lanewise k s3 x : In k [4; 8; 16]%nat -> wf 16 x ->
  bswap_of k s3 x = bytes_le k (v_bswap (8 * N.of_nat k) (words_le k x)).
Proof.
  intros Hk Hx. cbn [In] in Hk. destruct Hk as [<-|[<-|[<-|[]]]]; cbn [bswap_of].
  - now apply sse_u32x4_bswap_lanewise.
  - now apply sse_u64x2_bswap_lanewise.
  - now apply sse_u128x1_bswap_lanewise.
Qed.

Theorem sse_read_write_le_be k s3 : In k [4; 8; 16]%nat ->
  (forall bs, length bs <> 16%nat ->
     sse_read_le bs = Panic /\ sse_read_be (bswap_of k s3) bs = Panic) /\
  (forall x n, n <> 16%nat ->
     sse_write_le x n = Panic /\ sse_write_be (bswap_of k s3) x n = Panic) /\
  (forall bs, wf 16 bs ->
     sse_read_le bs = Ok (bytes_le k (read_le k bs)) /\
     sse_read_be (bswap_of k s3) bs = Ok (bytes_le k (read_be k bs))) /\
  (forall x, wf 16 x ->
     sse_write_le x 16 = Ok (write_le k (words_le k x)) /\
     sse_write_be (bswap_of k s3) x 16 = Ok (write_be k (words_le k x))).
Proof.
  intros Hk. assert (H0 : (0 < k)%nat /\ (16 mod k = 0)%nat).
  { cbn [In] in Hk. destruct Hk as [<-|[<-|[<-|[]]]]; split; try lia; reflexivity. }
  destruct H0 as [H0 Hm]. repeat split.
  - unfold sse_read_le. destruct (Nat.eqb_spec (length bs) 16); [contradiction|reflexivity].
  - unfold sse_read_be. destruct (Nat.eqb_spec (length bs) 16); [contradiction|reflexivity].
  - unfold sse_write_le. destruct (Nat.eqb_spec n 16); [contradiction|reflexivity].
  - unfold sse_write_be. destruct (Nat.eqb_spec n 16); [contradiction|reflexivity].
  - destruct H as [Hl Hb]. unfold sse_read_le, read_le. rewrite Hl. cbn [Nat.eqb]. f_equal.
    symmetry. apply bytes_words_le; [assumption|now rewrite Hl|assumption].
  - pose proof H as [Hl Hb]. unfold sse_read_be. rewrite Hl. cbn [Nat.eqb]. f_equal.
    rewrite bswap_of_lanewise by assumption. f_equal. now apply (v_bswap_read_be k 16).
  - destruct H as [Hl Hb]. unfold sse_write_le, write_le. cbn [Nat.eqb]. f_equal.
    symmetry. apply bytes_words_le; [assumption|now rewrite Hl|assumption].
  - pose proof H as [Hl Hb]. unfold sse_write_be. cbn [Nat.eqb]. f_equal.
    rewrite bswap_of_lanewise by assumption. apply bytes_le_bswap_write_be.
    now apply words_le_Forall_word.
Qed.

(** round trips of the byte-order contract itself *)
Theorem read_write_roundtrip k n bs : (0 < k)%nat -> (n mod k = 0)%nat -> wf n bs ->
  write_le k (read_le k bs) = bs /\ write_be k (read_be k bs) = bs.
Proof.
  intros Hk Hm Hx. pose proof Hx as [Hl Hb]. split.
  - unfold write_le, read_le. apply bytes_words_le; [assumption|now rewrite Hl|assumption].
  - rewrite <- (v_bswap_read_be k n bs Hx).
    rewrite <- bytes_le_bswap_write_be.
    2:{ unfold v_bswap. eapply Forall_map_in; [|apply (words_le_Forall_word k bs Hb)].
        intros w Hw. unfold bswapw, be_join.
        replace (N.to_nat (8 * N.of_nat k / 8)) with k
          by (rewrite N.mul_comm, N.div_mul by lia; now rewrite Nat2N.id).
        pose proof (le_join_lt (rev (le_split k w)) (Forall_rev (le_split_bytes k w))) as L.
        now rewrite rev_length, le_split_length in L. }
    destruct (chunks_wf k n bs Hx) as [HL HB].
    unfold v_bswap, words_le. rewrite !map_map.
    rewrite (map_ext_in _ le_join).
    + apply bytes_words_le; [assumption|now rewrite Hl|assumption].
    + intros c Hc. rewrite Forall_forall in HL, HB.
      rewrite bswapw_bytes by (try apply HL; try apply HB; assumption).
      rewrite bswapw_bytes; [now rewrite rev_involutive|rewrite rev_length; now apply HL|apply Forall_rev; now apply HB].
Qed.

(** * StoreBytes of u32x4x2_avx2 *)
Theorem avx2_read_write_le_be :
  (forall bs, length bs <> 32%nat -> avx2_read_le bs = Panic /\ avx2_read_be bs = Panic) /\
  (forall x n, n <> 32%nat -> avx2_write_le x n = Panic /\ avx2_write_be x n = Panic) /\
  (forall bs, wf 32 bs ->
     avx2_read_le bs = Ok (bytes_le 4 (read_le 4 bs)) /\
     avx2_read_be bs = Ok (bytes_le 4 (read_be 4 bs))) /\
  (forall x, wf 32 x ->
     avx2_write_le x 32 = Ok (write_le 4 (words_le 4 x)) /\
     avx2_write_be x 32 = Ok (write_be 4 (words_le 4 x))).
Proof.
  repeat split.
  - unfold avx2_read_le. destruct (Nat.eqb_spec (length bs) 32); [contradiction|reflexivity].
  - unfold avx2_read_be, avx2_read_le. destruct (Nat.eqb_spec (length bs) 32); [contradiction|reflexivity].
  - unfold avx2_write_le. destruct (Nat.eqb_spec n 32); [contradiction|reflexivity].
  - unfold avx2_write_be, avx2_write_le. destruct (Nat.eqb_spec n 32); [contradiction|reflexivity].
  - destruct H as [Hl Hb]. unfold avx2_read_le, read_le. rewrite Hl. cbn [Nat.eqb]. f_equal.
    symmetry. apply bytes_words_le; [lia|now rewrite Hl|assumption].
  - pose proof H as [Hl Hb]. unfold avx2_read_be, avx2_read_le. rewrite Hl. cbn [Nat.eqb omap]. f_equal.
    rewrite avx2_bswap_lanewise by assumption. f_equal. now apply (v_bswap_read_be 4 32).
  - destruct H as [Hl Hb]. unfold avx2_write_le, write_le. cbn [Nat.eqb]. f_equal.
    symmetry. apply bytes_words_le; [lia|now rewrite Hl|assumption].
  - pose proof H as [Hl Hb]. unfold avx2_write_be, avx2_write_le. cbn [Nat.eqb]. f_equal.
    rewrite avx2_bswap_lanewise by assumption. apply (bytes_le_bswap_write_be 4).
    now apply words_le_Forall_word.
Qed.

(** * storage views: the unions are byte images (little-endian host); the word views pack
    little-endian *)
Lemma le_join_cat n m a b : a < 2 ^ (8 * N.of_nat n) -> b < 2 ^ (8 * N.of_nat m) ->
  le_join (le_split n a ++ le_split m b) = a + b * 2 ^ (8 * N.of_nat n).
Proof. intros Ha Hb. now rewrite le_join_app, le_split_length, !le_join_split. Qed.

Theorem storage_views_little_endian :
  (forall a b, a < 2 ^ 32 -> b < 2 ^ 32 -> reinterpret 4 8 [a; b] = [a + b * 2 ^ 32]) /\
  (forall a b, a < 2 ^ 64 -> b < 2 ^ 64 -> reinterpret 8 16 [a; b] = [a + b * 2 ^ 64]) /\
  (forall a b c d, a < 2 ^ 32 -> b < 2 ^ 32 -> c < 2 ^ 32 -> d < 2 ^ 32 ->
     reinterpret 4 16 [a; b; c; d] = [a + b * 2 ^ 32 + (c + d * 2 ^ 32) * 2 ^ 64]) /\
  (forall f t ws, (0 < f)%nat -> (0 < t)%nat -> ((f * length ws) mod t = 0)%nat ->
     Forall (is_wordk f) ws -> reinterpret t f (reinterpret f t ws) = ws) /\
  (forall x, sse_into_storage (sse_unpack x) = x) /\
  (forall x, avx2_into_storage (avx2_unpack x) = x).
Proof.
  repeat split.
  - intros a b Ha Hb. unfold reinterpret. cbn [bytes_le flat_map]. rewrite app_nil_r.
    pose proof (le_split_length 4 a). pose proof (le_split_length 4 b).
    unfold words_le. rewrite app_length. replace (length (le_split 4 a) + length (le_split 4 b))%nat with 8%nat by lia.
    cbn [chunks_exact]. rewrite app_length. replace (length (le_split 4 a) + length (le_split 4 b))%nat with 8%nat by lia.
    cbn [Nat.leb map]. rewrite firstn_all2 by (rewrite app_length; lia).
    rewrite skipn_all2 by (rewrite app_length; lia). cbn [length Nat.leb map].
    f_equal. now apply (le_join_cat 4 4).
  - intros a b Ha Hb. unfold reinterpret. cbn [bytes_le flat_map]. rewrite app_nil_r.
    pose proof (le_split_length 8 a). pose proof (le_split_length 8 b).
    unfold words_le. rewrite app_length. replace (length (le_split 8 a) + length (le_split 8 b))%nat with 16%nat by lia.
    cbn [chunks_exact]. rewrite app_length. replace (length (le_split 8 a) + length (le_split 8 b))%nat with 16%nat by lia.
    cbn [Nat.leb map]. rewrite firstn_all2 by (rewrite app_length; lia).
    rewrite skipn_all2 by (rewrite app_length; lia). cbn [length Nat.leb map].
    f_equal. now apply (le_join_cat 8 8).
  - intros a b c d Ha Hb Hc Hd.
    assert (E : bytes_le 4 [a; b; c; d] = le_split 8 (a + b * 2 ^ 32) ++ le_split 8 (c + d * 2 ^ 32)).
    { cbn [bytes_le flat_map]. rewrite app_nil_r, !app_assoc. rewrite <- app_assoc.
      now rewrite <- !(le_split_cat 4 4). }
    unfold reinterpret. rewrite E.
    pose proof (le_split_length 8 (a + b * 2 ^ 32)). pose proof (le_split_length 8 (c + d * 2 ^ 32)).
    unfold words_le. rewrite app_length.
    replace (length (le_split 8 (a + b * 2 ^ 32)) + length (le_split 8 (c + d * 2 ^ 32)))%nat with 16%nat by lia.
    cbn [chunks_exact]. rewrite app_length.
    replace (length (le_split 8 (a + b * 2 ^ 32)) + length (le_split 8 (c + d * 2 ^ 32)))%nat with 16%nat by lia.
    cbn [Nat.leb map]. rewrite firstn_all2 by (rewrite app_length; lia).
    rewrite skipn_all2 by (rewrite app_length; lia). cbn [length Nat.leb map].
    f_equal. apply (le_join_cat 8 8); apply (cat_lt 32 32); assumption.
  - intros f t ws Hf Ht Hm Hw. unfold reinterpret.
    rewrite bytes_words_le; [now apply words_bytes_le|assumption|now rewrite bytes_le_length|].
    apply bytes_le_wf.
Qed.

(** * x4<u32x4_sse2>: transpose4 and to_scalars as written for the SSE machines *)
Theorem sse_x4_transpose4_is_transpose (a b c d : list reg) :
  x4_transpose4 [] a b c d = transpose4 [] a b c d.
Proof. reflexivity. Qed.
Theorem sse_x4_to_scalars_lane_order a b c d : wf 16 a -> wf 16 b -> wf 16 c -> wf 16 d ->
  sse_x4_to_scalars [a; b; c; d] = words_le 4 a ++ words_le 4 b ++ words_le 4 c ++ words_le 4 d.
Proof. intros Ha Hb Hc Hd. bytes_of a. bytes_of b. bytes_of c. bytes_of d. reflexivity. Qed.
