(** MixBytes: [mul2] is [xtime] on every byte lane; the addition chain of
    [submix] (on registers holding one matrix row each) is the multiplication
    of every column by circ(02,02,03,04,05,03,05,07). *)
From Coq Require Import NArith List Arith Bool Lia.
From CC Require Import Lib.Words Lib.Bytes Lib.ListX Spec.AES Spec.Groestl
     Model.GroestlIntrinsics Model.Groestl Proofs.GroestlLayout Proofs.GroestlLinear.
Import ListNotations.

(** * mul2 *)

(** what [mul2] does to one byte lane *)
Definition mul2b (x : N) : N := N.lxor (add8 x x) (N.land (cmpgt8 0 x) 0x1b).

Lemma mul2b_xtime x : mul2b x = xtime x.
Proof.
  unfold mul2b, xtime, add8, cmpgt8, sgt8.
  replace (N.testbit 0 7) with false by reflexivity.
  replace (x + x)%N with (N.shiftl x 1) by (rewrite N.shiftl_mul_pow2; change (2 ^ 1)%N with 2%N; lia).
  f_equal. destruct (N.testbit x 7); [reflexivity|].
  replace (N.land 0 255) with 0%N by reflexivity.
  replace (N.land x 255 <? 0)%N with false; [reflexivity|].
  symmetry. apply N.ltb_ge. apply N.le_0_l.
Qed.

Lemma mul2_lanes r : length r = 16 -> mul2 r = map mul2b r.
Proof. intros H. explode r. vm_compute. reflexivity. Qed.

Lemma mul2_length r : length (mul2 r) = Nat.min 16 (length r).
Proof.
  unfold mul2, mm_xor_si128, mm_and_si128, mm_add_epi8, mm_cmpgt_epi8.
  rewrite !map2_length.
  change (length (mm_cvtsi64_si128 0)) with 16.
  change (length (mm_set1_epi64x 1953184666628070171)) with 16. lia.
Qed.

(** [mul2] multiplies every byte lane by x in GF(2^8) — for all lane values *)
Lemma mul2_eq_xtime r : length r = 16 -> mul2 r = map xtime r.
Proof. intros H. rewrite mul2_lanes by assumption. apply map_ext, mul2b_xtime. Qed.

(** * the addition chain on one column *)

Definition shuf {V} (d : V) (a : list V) (i : list nat) : list V := map (fun k => nth k a d) i.
Definition rotk {V} (d : V) (k : nat) (a : list V) : list V :=
  match k with
  | 1 => shuf d a [1; 2; 3; 4; 5; 6; 7; 0]
  | 2 => shuf d a [2; 3; 4; 5; 6; 7; 0; 1]
  | 3 => shuf d a [3; 4; 5; 6; 7; 0; 1; 2]
  | 4 => shuf d a [4; 5; 6; 7; 0; 1; 2; 3]
  | 6 => shuf d a [6; 7; 0; 1; 2; 3; 4; 5]
  | _ => a
  end.

Lemma rot_x_rotk k a : rot_x k a = rotk [] k a.
Proof. do 7 (destruct k as [|k]; [reflexivity|]). reflexivity. Qed.

(** the circulant multiplication of Spec/Groestl.v over an arbitrary carrier *)
Section GenericColumn.
Context {V : Type}.
Variables (vxor : V -> V -> V) (vxt : V -> V) (vzero : V).
Fixpoint gmul_pos (c : positive) (a : V) : V :=
  match c with
  | xH => a
  | xO c' => gmul_pos c' (vxt a)
  | xI c' => vxor a (gmul_pos c' (vxt a))
  end.
Definition gmul (c : N) (a : V) : V :=
  match c with N0 => vzero | Npos p => gmul_pos p a end.
Definition gmix_column (a : list V) : list V :=
  map (fun i =>
         fold_left vxor
           (map (fun k => gmul (nth ((k + 8 - i) mod 8) circ 0%N) (nth k a vzero)) (seq 0 8)) vzero)
      (seq 0 8).
End GenericColumn.

Lemma mix_column_generic a : mix_column a = gmix_column N.lxor xtime 0%N a.
Proof. reflexivity. Qed.

Definition col_vars : list lexp := map LVar (seq 0 8).

Lemma leval_chain env : length env = 8 ->
  mix_net N.lxor xtime (rotk 0%N) env = map (leval env) (mix_net LXor LXt (rotk LZero) col_vars).
Proof. intros H. explode env. reflexivity. Qed.

Lemma leval_circ env : length env = 8 ->
  gmix_column N.lxor xtime 0%N env = map (leval env) (gmix_column LXor LXt LZero col_vars).
Proof. intros H. explode env. reflexivity. Qed.

Lemma chain_eq_circ_exprs :
  lexps_eqb (mix_net LXor LXt (rotk LZero) col_vars) (gmix_column LXor LXt LZero col_vars) = true.
Proof. vm_compute. reflexivity. Qed.

(** the addition chain of [submix], run on the eight bytes of a column, is MixBytes *)
Lemma chain_eq_mix_column env : length env = 8 ->
  mix_net N.lxor xtime (rotk 0%N) env = mix_column env.
Proof.
  intros H. rewrite mix_column_generic, leval_chain, leval_circ by assumption.
  apply lexps_eqb_sound, chain_eq_circ_exprs.
Qed.

(** non-vacuity / sanity: a wrong coefficient is noticed by the procedure *)
Example chain_ne_wrong_matrix :
  lexps_eqb (mix_net LXor LXt (rotk LZero) col_vars)
            (map (fun i => fold_left LXor
                   (map (fun k => gmul LXor LXt LZero (nth ((k + 8 - i) mod 8) [2;2;3;4;5;3;5;6]%N 0%N)
                                       (nth k col_vars LZero)) (seq 0 8)) LZero) (seq 0 8)) = false.
Proof. vm_compute. reflexivity. Qed.

(** * from registers to columns *)

Definition column (st : list N) (col : nat) : list N := map (fun row => get st row col) (seq 0 8).

Section Lanes.
Variables (xor : N -> N -> N) (xt : N -> N).

(** MixBytes of a [c]-column state with the chain in place of the matrix *)
Definition chain_bytes (c : nat) (st : list N) : list N :=
  flat_map (fun col => mix_net xor xt (rotk 0%N) (column st col)) (seq 0 c).

(** 512-bit rounds: P-state rows in the low, Q-state rows in the high halves *)
Lemma chain_rows2 u v : length u = 64 -> length v = 64 ->
  mix_net (map2 xor) (map xt) rot_x (rows2 u v) = rows2 (chain_bytes 8 u) (chain_bytes 8 v).
Proof. intros Hu Hv. explode u. explode v. vm_compute. reflexivity. Qed.

(** 1024-bit rounds: one row per register *)
Lemma chain_L1024 u : length u = 128 ->
  mix_net (map2 xor) (map xt) rot_x (L1024 u) = L1024 (chain_bytes 16 u).
Proof. intros Hu. explode u. vm_compute. reflexivity. Qed.
End Lanes.

Lemma chain_bytes_mix c st : chain_bytes N.lxor xtime c st = mix_bytes c st.
Proof.
  unfold chain_bytes, mix_bytes. induction (seq 0 c) as [|col l IH]; [reflexivity|].
  cbn [flat_map]. rewrite IH. f_equal.
  unfold column. apply chain_eq_mix_column. now rewrite map_length, seq_length.
Qed.

(** [mix_net] with [mul2] = [mix_net] with [map xtime], on registers of 16 lanes *)
Definition regs16 (a : X) : Prop := Forall (fun r => length r = 16) a.

Lemma mix_net_mul2 a : length a = 8 -> regs16 a ->
  mix_net mm_xor_si128 mul2 rot_x a = mix_net (map2 N.lxor) (map xtime) rot_x a.
Proof.
  intros H8 H16. explode a. unfold regs16 in H16.
  repeat match goal with H : Forall _ (_ :: _) |- _ => inversion_clear H end.
  unfold mix_net, mm_xor_si128.
  cbn [rot_x rotl1 rotl2 rotl3 rotl4 rotl6 x_shuffle map map2 nth].
  rewrite !mul2_eq_xtime; [reflexivity|..]; rewrite ?map2_length, ?map_length, ?mul2_length, ?map2_length; lia.
Qed.

(** MixBytes as [submix] performs it, both register arrangements *)
Lemma mixnet_rows2 u v : length u = 64 -> length v = 64 ->
  mix_net mm_xor_si128 mul2 rot_x (rows2 u v) = rows2 (mix_bytes 8 u) (mix_bytes 8 v).
Proof.
  intros Hu Hv. rewrite mix_net_mul2.
  - rewrite chain_rows2 by assumption. now rewrite !chain_bytes_mix.
  - reflexivity.
  - explode u. explode v. repeat constructor.
Qed.

Lemma mixnet_L1024 u : length u = 128 ->
  mix_net mm_xor_si128 mul2 rot_x (L1024 u) = L1024 (mix_bytes 16 u).
Proof.
  intros Hu. rewrite mix_net_mul2.
  - rewrite chain_L1024 by assumption. now rewrite chain_bytes_mix.
  - reflexivity.
  - explode u. repeat constructor.
Qed.
