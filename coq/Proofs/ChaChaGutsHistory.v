(** History theorem for the low-level block API [c2_chacha::guts::ChaCha]
    ([new], [refill], [refill4], [set_stream_param], [get_stream_param], [stream64_eq]):
    every finite sequence of operations on the model (Model/ChaChaGuts.v, used exactly as it
    is) behaves like an abstract machine whose state is a pair (block counter, stream id) and
    whose outputs are blocks of the specified key stream (Spec/ChaCha.v).

    Invariant: the model state is [seek64 (init_chacha key (le_split 8 id)) ctr] ([rep]).
    Every operation preserves it; the per-operation facts are the C14 / C15 / C01 lemmas
    (Proofs/ChaChaGutsWide.v, ChaChaGutsParams.v, ChaChaGuts.v), not re-proved here. *)
From Coq Require Import NArith List Lia Arith Bool ZArith ZifyBool ZifyN.
From CC Require Import Lib.Words Lib.Bytes Lib.ListX Spec.Lanes Model.ChaChaGuts.
From CC Require Import Proofs.ChaChaRounds Proofs.ChaChaGutsWords Proofs.ChaChaGuts
                       Proofs.ChaChaGutsWide Proofs.ChaChaGutsParams.
From CC Require Spec.ChaCha.
Import ListNotations.
Local Open Scope N_scope.
Ltac Zify.zify_post_hook ::= Z.div_mod_to_equations.

(** * Operations, observations, the model run *)
Inductive gop :=
| GRefill                (* [refill]: one 64-byte block, counter += 1 *)
| GRefill4               (* [refill4]: four blocks = 256 bytes, counter += 4 *)
| GSet (p : N) (v : N)   (* [set_stream_param(p, v)] *)
| GGet (p : N).          (* [get_stream_param(p)] *)

Inductive gobs :=
| GOut (bytes : list N)  (* the bytes written by [refill] / [refill4] *)
| GVal (v : N)           (* the value returned by [get_stream_param] *)
| GUnit.                 (* [set_stream_param] returns nothing *)

(** the operations of the property: parameter 0 or 1, value a u64 *)
Definition gop_ok (o : gop) : Prop :=
  match o with
  | GSet p v => p < 2 /\ v < 2^64
  | GGet p => p < 2
  | _ => True
  end.

(** one operation on the model; [None] = the model's [None] (out-of-bounds index panic) *)
Definition g_step (drounds : nat) (s : chacha) (o : gop) : option (gobs * chacha) :=
  match o with
  | GRefill => let '(out, s') := refill s drounds in Some (GOut out, s')
  | GRefill4 => let '(out, s') := refill_wide s drounds in Some (GOut out, s')
  | GSet p v => match set_stream_param s p v with Some s' => Some (GUnit, s') | None => None end
  | GGet p => match get_stream_param s p with Some v => Some (GVal v, s) | None => None end
  end.

(** a history; [None] as soon as one operation fails *)
Fixpoint g_run (drounds : nat) (s : chacha) (ops : list gop) : option (list gobs * chacha) :=
  match ops with
  | [] => Some ([], s)
  | o :: r =>
      match g_step drounds s o with
      | None => None
      | Some (ob, s') =>
          match g_run drounds s' r with
          | None => None
          | Some (obs, sf) => Some (ob :: obs, sf)
          end
      end
  end.

(** * The abstract machine: state (ctr, id), fixed key; written with Spec/ChaCha.v alone *)
Definition astate := (N * N)%type.

Definition a_block (drounds : nat) (key : list N) (id ctr : N) : list N :=
  S.spec_block S.Djb drounds key (le_split 8 id) ctr.

Definition a_step (drounds : nat) (key : list N) (st : astate) (o : gop) : gobs * astate :=
  let '(ctr, id) := st in
  match o with
  | GRefill => (GOut (a_block drounds key id ctr), ((ctr + 1) mod 2^64, id))
  | GRefill4 =>
      (GOut (a_block drounds key id ctr ++ a_block drounds key id ((ctr + 1) mod 2^64) ++
             a_block drounds key id ((ctr + 2) mod 2^64) ++ a_block drounds key id ((ctr + 3) mod 2^64)),
       ((ctr + 4) mod 2^64, id))
  | GSet p v => (GUnit, if p =? 0 then (v, id) else (ctr, v))
  | GGet p => (GVal (if p =? 0 then ctr else id), st)
  end.

Fixpoint abstract_run (drounds : nat) (key : list N) (st : astate) (ops : list gop)
  : list gobs * astate :=
  match ops with
  | [] => ([], st)
  | o :: r =>
      let '(ob, st') := a_step drounds key st o in
      let '(obs, sf) := abstract_run drounds key st' r in
      (ob :: obs, sf)
  end.

Definition astate_ok (st : astate) : Prop := fst st < 2^64 /\ snd st < 2^64.

(** the model state that represents an abstract state *)
Definition rep (key : list N) (st : astate) : chacha :=
  seek64 (init_chacha key (le_split 8 (snd st))) (fst st).

(** * The invariant, operation by operation *)
Section Inv.
  Variables (key : list N) (dr : nat).
  Hypothesis Bk : Forall is_byte key.
  Hypothesis Lk : length key = 32%nat.

  Lemma base_wf id : wf (init_chacha key (le_split 8 id)).
  Proof.
    apply init_chacha_wf; try assumption; [apply le_split_bytes | left; apply le_split_length].
  Qed.

  Lemma rep_wf st : wf (rep key st).
  Proof. apply seek64_wf, base_wf. Qed.

  Lemma seek64_seek64 s a b : wf4 (cd s) -> seek64 (seek64 s a) b = seek64 s b.
  Proof. intros H. unfold seek64. cbn [cb cc cd]. now rewrite set_pos_set_pos. Qed.

  Lemma seek64_rep st c : seek64 (rep key st) c = rep key (c, snd st).
  Proof. unfold rep. cbn [fst snd]. apply seek64_seek64, base_wf. Qed.

  (** the serialised block of a represented state is the specified block (C01_block_djb) *)
  Lemma rep_block ctr id :
    bytes_le 4 (S.spec_block_words dr (init_words (rep key (ctr, id)))) = a_block dr key id ctr.
  Proof.
    unfold rep, a_block. cbn [fst snd].
    rewrite <- refill_eq_block by apply wf_len4, seek64_wf, base_wf.
    apply block_djb; [exact Lk | apply le_split_length].
  Qed.

  (** [refill] (C14_refill_emits_then_advances in seek form, C01_block_djb) *)
  Lemma step_refill ctr id : ctr < 2^64 ->
    g_step dr (rep key (ctr, id)) GRefill
    = Some (GOut (a_block dr key id ctr), rep key ((ctr + 1) mod 2^64, id)).
  Proof.
    intros Hc. unfold g_step, rep at 1. cbn [fst snd].
    rewrite refill_seek64 by (apply base_wf || exact Hc).
    rewrite wrap_mod. rewrite <- (rep_block ctr id). reflexivity.
  Qed.

  (** [refill4] (C14_refill4_emits_then_advances in seek form) *)
  Lemma step_refill4 ctr id : ctr < 2^64 ->
    g_step dr (rep key (ctr, id)) GRefill4
    = Some (GOut (a_block dr key id ctr ++ a_block dr key id ((ctr + 1) mod 2^64) ++
                  a_block dr key id ((ctr + 2) mod 2^64) ++ a_block dr key id ((ctr + 3) mod 2^64)),
            rep key ((ctr + 4) mod 2^64, id)).
  Proof.
    intros Hc. unfold g_step, rep at 1. cbn [fst snd].
    rewrite refill_wide_seek64 by (apply base_wf || exact Hc).
    rewrite N.add_0_r, (wrap_small 64 ctr) by exact Hc. rewrite !wrap_mod.
    rewrite <- !rep_block. reflexivity.
  Qed.

  (** [set_stream_param(0, v)] (C15_set_param0_eq_seek) *)
  Lemma step_set0 ctr id v :
    g_step dr (rep key (ctr, id)) (GSet 0 v) = Some (GUnit, rep key (v, id)).
  Proof.
    unfold g_step. rewrite set_param0_eq_seek. now rewrite (seek64_rep (ctr, id) v).
  Qed.

  (** [set_stream_param(1, v)] (C15_set_params_eq_new, C15_set_param_ok) *)
  Lemma set1_rep ctr id v :
    set_stream_param (rep key (ctr, id)) 1 v = Some (rep key (ctr, v)).
  Proof.
    destruct (set_param_ok (rep key (ctr, id)) 1 v (rep_wf _) ltac:(lia)) as (s' & E & _).
    rewrite E. f_equal.
    apply (set_params_eq_new key (le_split 8 id) ctr v (rep key (ctr, id)) s' Lk (le_split_length 8 id)).
    right. split; [apply set_param0_eq_seek | exact E].
  Qed.

  Lemma step_set1 ctr id v :
    g_step dr (rep key (ctr, id)) (GSet 1 v) = Some (GUnit, rep key (ctr, v)).
  Proof. unfold g_step. now rewrite set1_rep. Qed.

  (** [get_stream_param(0)] (C15_get_set_param on [set 0 ctr = seek64]) *)
  Lemma get0_rep ctr id : ctr < 2^64 -> get_stream_param (rep key (ctr, id)) 0 = Some ctr.
  Proof.
    intros Hc.
    apply (get_set_param (init_chacha key (le_split 8 id)) 0 ctr); try assumption; try lia.
    - apply base_wf.
    - apply set_param0_eq_seek.
  Qed.

  (** [get_stream_param(1)] (C15_get_set_param on [set 1 id = new], C15_set_param_isolated) *)
  Lemma get1_base id : id < 2^64 -> get_stream_param (init_chacha key (le_split 8 id)) 1 = Some id.
  Proof.
    intros Hi.
    apply (get_set_param (init_chacha key (le_split 8 id)) 1 id); try assumption; try lia.
    - apply base_wf.
    - apply set_param1_eq_new; [exact Lk | apply le_split_length].
  Qed.

  Lemma get1_rep ctr id : id < 2^64 -> get_stream_param (rep key (ctr, id)) 1 = Some id.
  Proof.
    intros Hi.
    destruct (set_param_isolated (init_chacha key (le_split 8 id)) 0 ctr (rep key (ctr, id)))
      as (E & _); try lia.
    - apply base_wf.
    - apply set_param0_eq_seek.
    - change (1 - 0) with 1 in E. rewrite E. now apply get1_base.
  Qed.

  (** every operation of the property, from every represented state *)
  Lemma step_rep st o : astate_ok st -> gop_ok o ->
    g_step dr (rep key st) o
    = Some (fst (a_step dr key st o), rep key (snd (a_step dr key st o)))
    /\ astate_ok (snd (a_step dr key st o)).
  Proof.
    destruct st as [ctr id]. intros [Hc Hi] Ho. cbn [fst snd] in Hc, Hi.
    destruct o as [| | p v | p]; cbn [gop_ok] in Ho.
    - split; [now apply step_refill|].
      split; cbn [a_step fst snd]; [apply N.mod_lt; discriminate | exact Hi].
    - split; [now apply step_refill4|].
      split; cbn [a_step fst snd]; [apply N.mod_lt; discriminate | exact Hi].
    - destruct Ho as [Hp Hv]. assert (E : p = 0 \/ p = 1) by lia.
      destruct E as [-> | ->]; cbn [a_step fst snd N.eqb Pos.eqb].
      + split; [apply step_set0 | split; assumption].
      + split; [apply step_set1 | split; assumption].
    - assert (E : p = 0 \/ p = 1) by lia.
      destruct E as [-> | ->]; cbn [a_step fst snd N.eqb Pos.eqb]; (split; [|split; assumption]);
        unfold g_step.
      + now rewrite get0_rep.
      + now rewrite get1_rep.
  Qed.

  (** * The history theorem, from every represented state *)
  Theorem run_rep ops : forall st, astate_ok st -> Forall gop_ok ops ->
    g_run dr (rep key st) ops
    = Some (fst (abstract_run dr key st ops), rep key (snd (abstract_run dr key st ops)))
    /\ astate_ok (snd (abstract_run dr key st ops)).
  Proof.
    induction ops as [|o r IH]; intros st Hst Hops.
    - split; [reflexivity | exact Hst].
    - inversion Hops as [|? ? Ho Hr]; subst.
      destruct (step_rep st o Hst Ho) as [E Hst'].
      cbn [g_run abstract_run]. rewrite E.
      destruct (a_step dr key st o) as [ob st'] eqn:Ea. cbn [fst snd] in *.
      destruct (IH st' Hst' Hr) as [E' Hf]. rewrite E'.
      destruct (abstract_run dr key st' r) as [obs sf]. cbn [fst snd] in *.
      split; [reflexivity | exact Hf].
  Qed.
End Inv.

(** * [ChaCha::new] *)
Lemma set_pos_zero c e : set_pos [0; 0; c; e] 0 = [0; 0; c; e].
Proof. reflexivity. Qed.

Lemma init_rep key nonce : Forall is_byte nonce -> length nonce = 8%nat ->
  init_chacha key nonce = rep key (0, le_join nonce).
Proof.
  intros Bn Ln. unfold rep. cbn [fst snd].
  replace (le_split 8 (le_join nonce)) with nonce
    by (symmetry; rewrite <- Ln; now apply le_split_join).
  unfold init_chacha, seek64. rewrite Ln. cbn [cb cc cd Nat.eqb]. now rewrite set_pos_zero.
Qed.

Lemma init_astate_ok nonce : Forall is_byte nonce -> length nonce = 8%nat ->
  astate_ok (0, le_join nonce).
Proof.
  intros Bn Ln. split; cbn [fst snd]; [reflexivity|].
  pose proof (le_join_lt nonce Bn) as H. now rewrite Ln in H.
Qed.

(** THE HISTORY THEOREM: for every 32-byte key, 8-byte nonce, number of double rounds and
    finite list of operations (parameters 0/1, values below 2^64): no operation fails, the
    observations are those of the abstract machine started at (ctr, id) = (0, nonce), and the
    final model state is the one [new] + [seek64] make from the abstract final state. *)
Theorem guts_history drounds key nonce ops :
  Forall is_byte key -> length key = 32%nat -> Forall is_byte nonce -> length nonce = 8%nat ->
  Forall gop_ok ops ->
  g_run drounds (init_chacha key nonce) ops
  = Some (fst (abstract_run drounds key (0, le_join nonce) ops),
          seek64 (init_chacha key (le_split 8 (snd (snd (abstract_run drounds key (0, le_join nonce) ops)))))
                 (fst (snd (abstract_run drounds key (0, le_join nonce) ops))))
  /\ fst (snd (abstract_run drounds key (0, le_join nonce) ops)) < 2^64
  /\ snd (snd (abstract_run drounds key (0, le_join nonce) ops)) < 2^64.
Proof.
  intros Bk Lk Bn Ln Hops. rewrite (init_rep key nonce Bn Ln).
  exact (run_rep key drounds Bk Lk ops _ (init_astate_ok nonce Bn Ln) Hops).
Qed.

(** the three readings of it *)
Corollary guts_history_obs drounds key nonce ops :
  Forall is_byte key -> length key = 32%nat -> Forall is_byte nonce -> length nonce = 8%nat ->
  Forall gop_ok ops ->
  option_map fst (g_run drounds (init_chacha key nonce) ops)
  = Some (fst (abstract_run drounds key (0, le_join nonce) ops)).
Proof. intros Bk Lk Bn Ln Hops. now rewrite (proj1 (guts_history drounds key nonce ops Bk Lk Bn Ln Hops)). Qed.

Corollary guts_history_never_fails drounds key nonce ops :
  Forall is_byte key -> length key = 32%nat -> Forall is_byte nonce -> length nonce = 8%nat ->
  Forall gop_ok ops ->
  g_run drounds (init_chacha key nonce) ops <> None.
Proof. intros Bk Lk Bn Ln Hops. now rewrite (proj1 (guts_history drounds key nonce ops Bk Lk Bn Ln Hops)). Qed.

(** * The guards are exact *)
(** a parameter >= 2 is the model's [None] (the Rust indexes out of bounds; see
    [param_u32_alias] in ChaChaGutsParams.v for 2^31 and 2^31 + 1) *)
Lemma step_bad_param drounds s p v : 2 <= p ->
  g_step drounds s (GSet p v) = None /\ g_step drounds s (GGet p) = None.
Proof.
  intros Hp. unfold g_step, set_stream_param, get_stream_param.
  destruct (N.leb_spec 2 p) as [_|H]; [split; reflexivity | lia].
Qed.

(** a value >= 2^64 (not a u64) is taken modulo 2^64 by the model, in every state: without
    the guard [v < 2^64] the statement "GSet 0 v; GGet 0 returns v" is false, and this is
    the only way in which it is *)
Lemma mod64_lo v : (v mod 2^64) mod 2^32 = v mod 2^32.
Proof. change (2^64) with 18446744073709551616. change (2^32) with 4294967296. lia. Qed.
Lemma mod64_hi v : ((v mod 2^64) / 2^32) mod 2^32 = (v / 2^32) mod 2^32.
Proof. change (2^64) with 18446744073709551616. change (2^32) with 4294967296. lia. Qed.

Lemma step_set_mod drounds s p v :
  g_step drounds s (GSet p v) = g_step drounds s (GSet p (v mod 2^64)).
Proof.
  unfold g_step, set_stream_param.
  now rewrite !wrap_mod, !N.shiftr_div_pow2, mod64_lo, mod64_hi.
Qed.

Definition norm_op (o : gop) : gop :=
  match o with GSet p v => GSet p (v mod 2^64) | _ => o end.

Lemma run_norm drounds ops : forall s, g_run drounds s ops = g_run drounds s (map norm_op ops).
Proof.
  induction ops as [|o r IH]; intro s; [reflexivity|].
  cbn [g_run map].
  assert (E : g_step drounds s (norm_op o) = g_step drounds s o)
    by (destruct o; try reflexivity; symmetry; apply step_set_mod).
  rewrite E. destruct (g_step drounds s o) as [[ob s']|]; [|reflexivity]. now rewrite IH.
Qed.

Definition gop_ok_param (o : gop) : Prop :=
  match o with GSet p _ => p < 2 | GGet p => p < 2 | _ => True end.

Lemma norm_ok ops : Forall gop_ok_param ops -> Forall gop_ok (map norm_op ops).
Proof.
  induction 1 as [|o r Ho Hr IH]; constructor; [|exact IH].
  destruct o; cbn [norm_op gop_ok gop_ok_param] in *; try exact Ho.
  split; [exact Ho | apply N.mod_lt; discriminate].
Qed.

(** the history theorem without the guard on the values *)
Theorem guts_history_any_value drounds key nonce ops :
  Forall is_byte key -> length key = 32%nat -> Forall is_byte nonce -> length nonce = 8%nat ->
  Forall gop_ok_param ops ->
  let ar := abstract_run drounds key (0, le_join nonce) (map norm_op ops) in
  g_run drounds (init_chacha key nonce) ops
  = Some (fst ar, seek64 (init_chacha key (le_split 8 (snd (snd ar)))) (fst (snd ar))).
Proof.
  intros Bk Lk Bn Ln Hops ar. rewrite run_norm.
  exact (proj1 (guts_history drounds key nonce _ Bk Lk Bn Ln (norm_ok ops Hops))).
Qed.

(** * Appending histories *)
Lemma g_run_app dr ops1 ops2 : forall s,
  g_run dr s (ops1 ++ ops2) =
  match g_run dr s ops1 with
  | None => None
  | Some (o1, s1) =>
      match g_run dr s1 ops2 with None => None | Some (o2, s2) => Some (o1 ++ o2, s2) end
  end.
Proof.
  induction ops1 as [|o r IH]; intro s; cbn [app g_run].
  - now destruct (g_run dr s ops2) as [[o2 s2]|].
  - destruct (g_step dr s o) as [[ob s']|]; [|reflexivity].
    rewrite IH. destruct (g_run dr s' r) as [[o1 s1]|]; [|reflexivity].
    now destruct (g_run dr s1 ops2) as [[o2 s2]|].
Qed.

Lemma abstract_run_app dr key ops1 ops2 : forall st,
  abstract_run dr key st (ops1 ++ ops2) =
  (fst (abstract_run dr key st ops1) ++ fst (abstract_run dr key (snd (abstract_run dr key st ops1)) ops2),
   snd (abstract_run dr key (snd (abstract_run dr key st ops1)) ops2)).
Proof.
  induction ops1 as [|o r IH]; intro st; cbn [app abstract_run].
  - cbn [fst snd app]. now destruct (abstract_run dr key st ops2).
  - destruct (a_step dr key st o) as [ob st']. rewrite IH.
    destruct (abstract_run dr key st' r) as [o1 s1]. cbn [fst snd]. reflexivity.
Qed.

Lemma Forall_app_ok (ops1 ops2 : list gop) :
  Forall gop_ok ops1 -> Forall gop_ok ops2 -> Forall gop_ok (ops1 ++ ops2).
Proof. intros H1 H2. apply Forall_app. now split. Qed.

(** * (b) History independence: two histories (same key; nonces and operations may differ)
    that reach the same abstract (ctr, id) reach the SAME model state, and whatever follows
    produces identical observations and final states *)
Theorem guts_history_independence drounds key nonce1 nonce2 ops1 ops2 rest :
  Forall is_byte key -> length key = 32%nat ->
  Forall is_byte nonce1 -> length nonce1 = 8%nat -> Forall is_byte nonce2 -> length nonce2 = 8%nat ->
  Forall gop_ok ops1 -> Forall gop_ok ops2 -> Forall gop_ok rest ->
  let a1 := abstract_run drounds key (0, le_join nonce1) ops1 in
  let a2 := abstract_run drounds key (0, le_join nonce2) ops2 in
  snd a1 = snd a2 ->
  let tail := abstract_run drounds key (snd a1) rest in
  g_run drounds (init_chacha key nonce1) ops1 = Some (fst a1, rep key (snd a1)) /\
  g_run drounds (init_chacha key nonce2) ops2 = Some (fst a2, rep key (snd a1)) /\
  g_run drounds (init_chacha key nonce1) (ops1 ++ rest) = Some (fst a1 ++ fst tail, rep key (snd tail)) /\
  g_run drounds (init_chacha key nonce2) (ops2 ++ rest) = Some (fst a2 ++ fst tail, rep key (snd tail)).
Proof.
  intros Bk Lk B1 L1 B2 L2 H1 H2 Hr a1 a2 E tail.
  pose proof (guts_history drounds key nonce1 ops1 Bk Lk B1 L1 H1) as (G1 & _).
  pose proof (guts_history drounds key nonce2 ops2 Bk Lk B2 L2 H2) as (G2 & _).
  pose proof (guts_history drounds key nonce1 (ops1 ++ rest) Bk Lk B1 L1 (Forall_app_ok _ _ H1 Hr)) as (G3 & _).
  pose proof (guts_history drounds key nonce2 (ops2 ++ rest) Bk Lk B2 L2 (Forall_app_ok _ _ H2 Hr)) as (G4 & _).
  rewrite abstract_run_app in G3, G4. cbn [fst snd] in G3, G4.
  fold a1 in G1, G3. fold a2 in G2, G4. rewrite <- E in G2, G4. fold tail in G3, G4.
  repeat split; assumption.
Qed.

(** * (c) [stream64_eq] on the states reached by two histories from the same key: true
    exactly when the abstract stream ids agree (C15_stream64_eq_iff_seek) *)
Section Stream.
  Variable key : list N.
  Hypothesis Bk : Forall is_byte key.
  Hypothesis Lk : length key = 32%nat.

  Lemma pos64_rep st : fst st < 2^64 -> pos64 (rep key st) = fst st.
  Proof.
    intros H. rewrite pos64_ctr by apply (rep_wf key Bk Lk).
    unfold rep, seek64. cbn [cd]. apply ctr_set_pos; [apply (base_wf key Bk Lk) | exact H].
  Qed.

  Lemma rep_stream64_eq st1 st2 : astate_ok st1 -> astate_ok st2 ->
    (stream64_eq (rep key st1) (rep key st2) = true <-> snd st1 = snd st2) /\
    (stream64_eq (rep key st1) (rep key st2) = true <-> rep key st2 = seek64 (rep key st1) (fst st2)).
  Proof.
    intros [Hc1 Hi1] [Hc2 Hi2].
    pose proof (stream64_eq_iff_seek (rep key st1) (rep key st2)
                  (rep_wf key Bk Lk st1) (rep_wf key Bk Lk st2)) as I.
    rewrite (pos64_rep st2 Hc2) in I. split; [|exact I].
    rewrite I, (seek64_rep key Bk Lk st1 (fst st2)).
    destruct st1 as [c1 i1], st2 as [c2 i2]. cbn [fst snd] in *. split.
    - intros E. apply (f_equal (fun s => get_stream_param s 1)) in E.
      rewrite !(get1_rep key Bk Lk) in E by assumption. now injection E.
    - now intros ->.
  Qed.
End Stream.

Theorem guts_history_stream64_eq drounds key nonce1 nonce2 ops1 ops2 o1 o2 s1 s2 :
  Forall is_byte key -> length key = 32%nat ->
  Forall is_byte nonce1 -> length nonce1 = 8%nat -> Forall is_byte nonce2 -> length nonce2 = 8%nat ->
  Forall gop_ok ops1 -> Forall gop_ok ops2 ->
  g_run drounds (init_chacha key nonce1) ops1 = Some (o1, s1) ->
  g_run drounds (init_chacha key nonce2) ops2 = Some (o2, s2) ->
  let f1 := snd (abstract_run drounds key (0, le_join nonce1) ops1) in
  let f2 := snd (abstract_run drounds key (0, le_join nonce2) ops2) in
  (stream64_eq s1 s2 = true <-> snd f1 = snd f2) /\
  (stream64_eq s1 s2 = true <-> s2 = seek64 s1 (fst f2)).
Proof.
  intros Bk Lk B1 L1 B2 L2 H1 H2 R1 R2 f1 f2.
  pose proof (guts_history drounds key nonce1 ops1 Bk Lk B1 L1 H1) as (G1 & A1 & A1').
  pose proof (guts_history drounds key nonce2 ops2 Bk Lk B2 L2 H2) as (G2 & A2 & A2').
  rewrite G1 in R1. rewrite G2 in R2.
  apply Some_inj, pair_equal_spec in R1. apply Some_inj, pair_equal_spec in R2.
  destruct R1 as [_ <-]. destruct R2 as [_ <-].
  apply (rep_stream64_eq key Bk Lk f1 f2); split; assumption.
Qed.

(** * (a) the wrap at 2^64 inside one [refill4]: at ctr = 2^64 - 2 the four blocks are those
    numbered 2^64-2, 2^64-1, 0, 1 and the counter afterwards is 2 *)
Theorem guts_refill4_wraps drounds key nonce :
  Forall is_byte key -> length key = 32%nat -> Forall is_byte nonce -> length nonce = 8%nat ->
  exists sf,
  g_run drounds (init_chacha key nonce) [GSet 0 (2^64 - 2); GRefill4; GGet 0]
  = Some ([GUnit;
           GOut (S.spec_block S.Djb drounds key nonce (2^64 - 2) ++
                 S.spec_block S.Djb drounds key nonce (2^64 - 1) ++
                 S.spec_block S.Djb drounds key nonce 0 ++
                 S.spec_block S.Djb drounds key nonce 1);
           GVal 2], sf)
  /\ sf = seek64 (init_chacha key nonce) 2.
Proof.
  intros Bk Lk Bn Ln. eexists.
  assert (Hops : Forall gop_ok [GSet 0 (2^64 - 2); GRefill4; GGet 0]).
  { repeat constructor. }
  destruct (guts_history drounds key nonce _ Bk Lk Bn Ln Hops) as (G & _).
  rewrite G. clear G.
  assert (En : le_split 8 (le_join nonce) = nonce) by (rewrite <- Ln; now apply le_split_join).
  cbn [abstract_run a_step fst snd N.eqb]. unfold a_block. rewrite En.
  change ((2^64 - 2 + 1) mod 2^64) with (2^64 - 1).
  change ((2^64 - 2 + 2) mod 2^64) with 0.
  change ((2^64 - 2 + 3) mod 2^64) with 1.
  change ((2^64 - 2 + 4) mod 2^64) with 2.
  split; reflexivity.
Qed.

(** * The 12-byte-nonce reading (how the IETF wrapper holds its state): [new] with a 12-byte
    nonce is the same machine started at ctr = 2^32 * (nonce word 0), id = nonce words 1,2 *)
Lemma init12_rep key nonce : Forall is_byte nonce -> length nonce = 12%nat ->
  init_chacha key nonce = rep key (2^32 * le_join (firstn 4 nonce), le_join (skipn 4 nonce))
  /\ astate_ok (2^32 * le_join (firstn 4 nonce), le_join (skipn 4 nonce)).
Proof.
  intros Bn Ln.
  assert (B0 : le_join (firstn 4 nonce) < 2^32).
  { apply le_join_4_w32; [now apply Forall_firstn'|]. explode nonce. reflexivity. }
  assert (B1 : le_join (skipn 4 nonce) < 2^64).
  { pose proof (le_join_lt (skipn 4 nonce) (Forall_skipn' _ 4 _ Bn)) as H.
    rewrite skipn_length, Ln in H. exact H. }
  split; [|split; cbn [fst snd]; [|exact B1]].
  - unfold rep. cbn [fst snd].
    replace (le_split 8 (le_join (skipn 4 nonce))) with (skipn 4 nonce).
    2:{ symmetry. replace 8%nat with (length (skipn 4 nonce)) by (rewrite skipn_length, Ln; reflexivity).
        apply le_split_join. now apply Forall_skipn'. }
    set (w0 := le_join (firstn 4 nonce)) in *.
    unfold init_chacha, seek64. rewrite skipn_length, Ln. cbn [cb cc cd Nat.eqb Nat.sub].
    fold w0. rewrite set_pos_words.
    rewrite (N.mul_comm (2^32) w0), N.mod_mul, N.div_mul by discriminate.
    rewrite (N.mod_small w0) by exact B0.
    explode nonce. reflexivity.
  - change (2^64) with (2^32 * 2^32). apply N.mul_lt_mono_pos_l; [reflexivity | exact B0].
Qed.

Theorem guts_history_nonce12 drounds key nonce ops :
  Forall is_byte key -> length key = 32%nat -> Forall is_byte nonce -> length nonce = 12%nat ->
  Forall gop_ok ops ->
  let st0 := (2^32 * le_join (firstn 4 nonce), le_join (skipn 4 nonce)) in
  g_run drounds (init_chacha key nonce) ops
  = Some (fst (abstract_run drounds key st0 ops), rep key (snd (abstract_run drounds key st0 ops)))
  /\ astate_ok (snd (abstract_run drounds key st0 ops)).
Proof.
  intros Bk Lk Bn Ln Hops st0. destruct (init12_rep key nonce Bn Ln) as [E H0].
  rewrite E. exact (run_rep key drounds Bk Lk ops st0 H0 Hops).
Qed.

(** * Non-vacuity: an 8-operation history computed on the model and on the abstract machine *)
Definition gh_key : list N := map N.of_nat (seq 0 32).
Definition gh_nonce : list N := [0xf0; 0xe1; 0xd2; 0xc3; 0xb4; 0xa5; 0x96; 0x87].
Definition gh_id : N := 0x0123456789abcdef.
Definition gh_ops : list gop :=
  [GSet 1 gh_id; GSet 0 (2^32 - 2); GRefill4; GGet 0; GRefill; GSet 0 (2^32 - 2); GRefill; GGet 1].

Definition obs_bytes (o : gobs) : list N := match o with GOut b => b | _ => [] end.

Example guts_history_example :
  Forall is_byte gh_key /\ length gh_key = 32%nat /\ Forall is_byte gh_nonce /\ length gh_nonce = 8%nat /\
  Forall gop_ok gh_ops /\
  (* computed on both sides, no theorem involved *)
  g_run 10 (init_chacha gh_key gh_nonce) gh_ops
  = Some (fst (abstract_run 10 gh_key (0, le_join gh_nonce) gh_ops),
          rep gh_key (snd (abstract_run 10 gh_key (0, le_join gh_nonce) gh_ops))) /\
  snd (abstract_run 10 gh_key (0, le_join gh_nonce) gh_ops) = (2^32 - 1, gh_id) /\
  (* the shape of the observations *)
  (let obs := fst (abstract_run 10 gh_key (0, le_join gh_nonce) gh_ops) in
   map (fun o => length (obs_bytes o)) obs = [0; 0; 256; 0; 64; 0; 64; 0]%nat /\
   nth 3 obs GUnit = GVal (2^32 + 2) /\ nth 7 obs GUnit = GVal gh_id /\
   (* the refill after seeking back repeats the first block of the refill4 and differs from
      the block at 2^32 + 2 *)
   obs_bytes (nth 6 obs GUnit) = firstn 64 (obs_bytes (nth 2 obs GUnit)) /\
   obs_bytes (nth 4 obs GUnit) <> obs_bytes (nth 6 obs GUnit)).
Proof.
  split; [repeat constructor|]. split; [reflexivity|]. split; [repeat constructor|].
  split; [reflexivity|]. split; [repeat constructor|].
  split; [vm_compute; reflexivity|]. split; [vm_compute; reflexivity|].
  cbv zeta. split; [vm_compute; reflexivity|]. split; [vm_compute; reflexivity|].
  split; [vm_compute; reflexivity|]. split; [vm_compute; reflexivity|].
  vm_compute. discriminate.
Qed.

Print Assumptions guts_history.
Print Assumptions guts_history_obs.
Print Assumptions guts_history_never_fails.
Print Assumptions guts_history_any_value.
Print Assumptions guts_history_independence.
Print Assumptions guts_history_stream64_eq.
Print Assumptions guts_refill4_wraps.
Print Assumptions guts_history_nonce12.
Print Assumptions guts_history_example.
