(** C12 (audit finding F2): the compound-assignment macros of soft.rs ([fwd_binop_assign_x2!],
    [fwd_binop_assign_x4!]; Model/PpvSoftAssign.v) compute the same array as the by-value
    macros ([fwd_binop_x2!], [fwd_binop_x4!]; Model/PpvSoft.v) for EVERY element assign
    method, and hence have the lane-wise meaning; portable instance ([&=], [|=], [^=], [+=] on
    the x2/x4 types of the generic.rs back end, both profiles). x86 instances:
    Proofs/PpvWideTie.v. *)
From Coq Require Import NArith List Bool Arith Lia.
From CC Require Import Lib.Words Lib.Bytes Lib.ListX Model.PpvSoft Model.PpvSoftAssign Model.PpvGeneric.
From CC Require Spec.Lanes.
From CC Require Import Proofs.PpvGenericLib Proofs.PpvSoftFwd Proofs.PpvGenericWide.
Import ListNotations.
Local Open Scope N_scope.

Section Assign.
  Context {W : Type}.
  Variable d : W.

  (** [*self = self.f(rhs)] yields what [self.f(rhs)] yields *)
  Lemma elem_assign_is_binop (f : W -> W -> outcome W) s r : elem_assign f s r = f s r.
  Proof. unfold elem_assign. now destruct (f s r). Qed.

  (** the two statements of [fwd_binop_assign_x2!] leave in [self] the array that
      [fwd_binop_x2!] builds (and panic exactly when it does), whatever the element method *)
  Theorem x2_assign_is_binop (fa : W -> W -> outcome W) (self rhs : list W) :
    length self = 2%nat -> x2_binop_assign d fa self rhs = x2_binop d fa self rhs.
  Proof.
    intros L. explode self. unfold x2_binop_assign, x2_binop. cbn [nth upd].
    destruct (fa w (nth 0 rhs d)); cbn [obind]; [|reflexivity]. cbn [nth upd].
    destruct (fa w0 (nth 1 rhs d)); reflexivity.
  Qed.
  Theorem x4_assign_is_binop (fa : W -> W -> outcome W) (self rhs : list W) :
    length self = 4%nat -> x4_binop_assign d fa self rhs = x4_binop d fa self rhs.
  Proof.
    intros L. explode self. unfold x4_binop_assign, x4_binop. cbn [nth upd].
    destruct (fa w (nth 0 rhs d)); cbn [obind]; [|reflexivity]. cbn [nth upd].
    destruct (fa w0 (nth 1 rhs d)); cbn [obind]; [|reflexivity]. cbn [nth upd].
    destruct (fa w1 (nth 2 rhs d)); cbn [obind]; [|reflexivity]. cbn [nth upd].
    destruct (fa w2 (nth 3 rhs d)); reflexivity.
  Qed.

  (** with the element assign methods of the crate ([*self = self.f(rhs)]) *)
  Corollary x2_assign_elem (f : W -> W -> outcome W) self rhs :
    length self = 2%nat -> x2_binop_assign d (elem_assign f) self rhs = x2_binop d f self rhs.
  Proof.
    intros L. rewrite x2_assign_is_binop by exact L. unfold x2_binop.
    now rewrite !elem_assign_is_binop.
  Qed.
  Corollary x4_assign_elem (f : W -> W -> outcome W) self rhs :
    length self = 4%nat -> x4_binop_assign d (elem_assign f) self rhs = x4_binop d f self rhs.
  Proof.
    intros L. rewrite x4_assign_is_binop by exact L. unfold x4_binop.
    now rewrite !elem_assign_is_binop.
  Qed.

  (** lane-wise meaning, any element type: if the element method returns [g x y] on the
      elements satisfying [P], the assign form leaves [map2 g self rhs] *)
  Theorem x2_assign_forwards (P : W -> Prop) f g a b :
    (forall x y, P x -> P y -> f x y = Ok (g x y)) ->
    length a = 2%nat -> length b = 2%nat -> Forall P a -> Forall P b ->
    x2_binop_assign d (elem_assign f) a b = Ok (map2 g a b).
  Proof. intros H La Lb Fa Fb. rewrite x2_assign_elem by exact La. now apply (x2_binop_forwards d P). Qed.
  Theorem x4_assign_forwards (P : W -> Prop) f g a b :
    (forall x y, P x -> P y -> f x y = Ok (g x y)) ->
    length a = 4%nat -> length b = 4%nat -> Forall P a -> Forall P b ->
    x4_binop_assign d (elem_assign f) a b = Ok (map2 g a b).
  Proof. intros H La Lb Fa Fb. rewrite x4_assign_elem by exact La. now apply (x4_binop_forwards d P). Qed.
End Assign.

(** * portable back end: [+=], [^=], [|=], [&=] of the x2 / x4 types over u32x4_generic,
    u64x2_generic, u128x1_generic ([g_add_assign] = [g_add] etc. are [*self = *self op rhs]) *)
Theorem portable_wide_assign_lanewise p t o a b : In o [OAdd; OXor; OOr; OAnd] ->
  (wide t 2 a -> wide t 2 b ->
     exists r, x2_binop_assign [] (elem_assign (g_binop p t o)) a b = Ok r /\
               concat r = spec_bin (vt_w t) o (concat a) (concat b)) /\
  (wide t 4 a -> wide t 4 b ->
     exists r, x4_binop_assign [] (elem_assign (g_binop p t o)) a b = Ok r /\
               concat r = spec_bin (vt_w t) o (concat a) (concat b)).
Proof.
  intros _. split; intros Ha Hb.
  - rewrite x2_assign_elem by exact (proj1 Ha).
    exact (wide_binop_lanewise p t 2 o a b (or_introl eq_refl) Ha Hb).
  - rewrite x4_assign_elem by exact (proj1 Ha).
    exact (wide_binop_lanewise p t 4 o a b (or_intror eq_refl) Ha Hb).
Qed.

(** the model distinguishes the assign macro from the by-value macro: a slip confined to the
    assign macro (here: statement 3 of [fwd_binop_assign_x4!] reading [rhs.0[2]], the project's
    seeded change C12-4) is a different function, so the theorems above would fail for it *)
Definition x4_binop_assign_seeded {W} (d : W) (fa : W -> W -> outcome W) (self rhs : list W) :=
  let* e0 := fa (nth 0 self d) (nth 0 rhs d) in
  let self := upd 0 e0 self in
  let* e1 := fa (nth 1 self d) (nth 1 rhs d) in
  let self := upd 1 e1 self in
  let* e2 := fa (nth 2 self d) (nth 2 rhs d) in
  let self := upd 2 e2 self in
  let* e3 := fa (nth 3 self d) (nth 2 rhs d) in
  let self := upd 3 e3 self in
  Ok self.
Example seeded_assign_differs :
  x4_binop_assign_seeded 0 (fun x y => Ok (x + y)) [0; 0; 0; 0] [1; 2; 3; 4] = Ok [1; 2; 3; 3] /\
  x4_binop_assign 0 (fun x y => Ok (x + y)) [0; 0; 0; 0] [1; 2; 3; 4] = Ok [1; 2; 3; 4] /\
  x4_binop 0 (fun x y => Ok (x + y)) [0; 0; 0; 0] [1; 2; 3; 4] = Ok [1; 2; 3; 4].
Proof. repeat split. Qed.
