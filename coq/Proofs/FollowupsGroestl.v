(** Audit follow-ups, part 2 (audit C20-F1, C07-F1, C18-F1/F2): theorems about
    Model/FeaturesGroestl.v - the three entry-point modules of groestl-aesni, their selection,
    and the lazily initialised choice run concurrently (instantiation of Model/Concurrency.v). *)
From Coq Require Import NArith List Bool Arith Lia.
Require Coq.Strings.String.
From CC Require Import Lib.Words Lib.Bytes Lib.ListX Spec.AES.
From CC Require Import Model.GroestlIntrinsics Model.BlockBuffer Model.Groestl Model.Features Model.FeaturesGroestl.
From CC Require Import Proofs.GroestlSchedule Proofs.GroestlHash Proofs.Features.
From CC Require Import Model.Concurrency Proofs.Concurrency.
From CC Require Spec.Groestl.
Import ListNotations.

(** * A2 (C20-F1): selection among the three modules is irrelevant *)
Module F_C20G.

  (** ** the entry points: each of the 3 x 6 wrappers is its shared body. By definition - that IS
         the source fact ([pub unsafe fn tf512(cv, data) { tf512_impl(cv, data) }] three times); what
         this adds over [module_fn m := groestl_fn] of Proofs/Features.v is that the three
         definitions exist separately and the statement below would be false if one of them were
         changed (see [a_changed_wrapper_is_detected]). *)
  Theorem entries_are_shared_body : forall S m,
    (forall cv data, e_tf512 (entries_of S m) cv data = tf512 S cv data) /\
    (forall cv, e_of512 (entries_of S m) cv = of512 S cv) /\
    (forall cv, e_init512 (entries_of S m) cv = init512 cv) /\
    (forall cv data, e_tf1024 (entries_of S m) cv data = tf1024 S cv data) /\
    (forall cv, e_of1024 (entries_of S m) cv = of1024 S cv) /\
    (forall cv, e_init1024 (entries_of S m) cv = init1024 cv).
  Proof. intros S m. destruct m; repeat split. Qed.

  Definition shared (S : N -> N) : entries := Entries (tf512 S) (of512 S) init512 (tf1024 S) (of1024 S) init1024.

  Lemma entries_of_eta : forall S m, entries_of S m = shared S.
  Proof. intros S m. destruct m; reflexivity. Qed.

  (** ** names: under [std] all three names exist; without it [sse2] exists iff target sse2 *)
  Theorem names_std : forall t,
    name_aes true t = Some GAes /\
    name_ssse3 true t = Some (if t_aes t then GAes else GSsse3) /\
    name_sse2 true t = Some (if t_ssse3 t then (if t_aes t then GAes else GSsse3) else GSse2).
  Proof. intros [[] [] []]; repeat split. Qed.

  Theorem names_nostd : forall t,
    name_sse2 false t =
      (if t_ssse3 t then Some (if t_aes t then GAes else GSsse3)
       else if t_sse2 t then Some GSse2 else None).
  Proof. intros [[] [] []]; reflexivity. Qed.

  (** ** which module runs; when the std arm panics; when nothing is built *)
  Theorem exported_module_std : forall c t,
    exported_module true c t =
      (if c_aes c then Runs GAes
       else if c_ssse3 c then Runs (if t_aes t then GAes else GSsse3)
       else if c_sse2 c then Runs (if t_ssse3 t then (if t_aes t then GAes else GSsse3) else GSse2)
       else InitPanics).
  Proof. intros [[] [] []] [[] [] []]; reflexivity. Qed.

  Theorem exported_module_nostd : forall c t,
    exported_module false c t =
      (if t_sse2 t then Runs (if t_ssse3 t then (if t_aes t then GAes else GSsse3) else GSse2) else NotBuilt).
  Proof. intros c [[] [] []]; reflexivity. Qed.

  (** the autodetect arm panics iff none of aes, ssse3, sse2 is detected ... *)
  Theorem std_panics_iff : forall std c t,
    exported_module std c t = InitPanics <->
    std = true /\ c_aes c = false /\ c_ssse3 c = false /\ c_sse2 c = false.
  Proof.
    intros [] [[] [] []] [[] [] []]; cbn; split; intros H;
      try discriminate H; try reflexivity; try (repeat split; reflexivity);
      try (destruct H as (? & ? & ? & ?); discriminate).
  Qed.

  (** ... i.e., on a CPU on which AES-NI or SSSE3 imply SSE2 (every real x86 CPU), iff SSE2 is not
      detected *)
  Definition cpu_monotone (c : gcpu) : Prop := (c_aes c = true -> c_sse2 c = true) /\ (c_ssse3 c = true -> c_sse2 c = true).

  Theorem std_panics_iff_no_sse2 : forall c t, cpu_monotone c ->
    (exported_module true c t = InitPanics <-> c_sse2 c = false).
  Proof.
    intros c t [Ha Hs]. rewrite std_panics_iff. split.
    - intros (_ & _ & _ & H). exact H.
    - intros H. destruct (c_aes c); [specialize (Ha eq_refl); congruence|].
      destruct (c_ssse3 c); [specialize (Hs eq_refl); congruence|]. auto.
  Qed.

  Theorem not_built_iff : forall std c t,
    exported_module std c t = NotBuilt <-> std = false /\ t_sse2 t = false.
  Proof.
    intros [] [[] [] []] [[] [] []]; cbn; split; intros H;
      try discriminate H; try reflexivity; try (split; reflexivity);
      try (destruct H as (? & ?); discriminate).
  Qed.

  (** with SSE2 detected (std) resp. promised (no std) a module runs *)
  Theorem exported_module_total : forall (std : bool) c t,
    (if std then c_sse2 c else t_sse2 t) = true -> exists m, exported_module std c t = Runs m.
  Proof. intros [] [[] [] []] [[] [] []] H; try discriminate H; eexists; reflexivity. Qed.

  (** ** every exported function is the field of the module that [exported_module] names *)
  Theorem exported_is_module_field : forall (S : N -> N) (T : Type) (field : entries -> T) std c t,
    exported S field std c t = g_map (fun m => field (entries_of S m)) (exported_module std c t).
  Proof. intros S T field [] [[] [] []] [[] [] []]; reflexivity. Qed.

  (** ** selection irrelevance, per exported function: whatever runs is the shared body *)
  Theorem exported_runs_shared : forall (S : N -> N) (T : Type) (field : entries -> T) std c t f,
    exported S field std c t = Runs f -> f = field (shared S).
  Proof.
    intros S T field std c t f. rewrite exported_is_module_field.
    destruct (exported_module std c t) as [m| |]; cbn; intros H; try discriminate H.
    injection H as <-. now rewrite entries_of_eta.
  Qed.

  Theorem exported_selection_irrelevant : forall (S : N -> N) (T : Type) (field : entries -> T) std c t std' c' t' f f',
    exported S field std c t = Runs f -> exported S field std' c' t' = Runs f' -> f = f'.
  Proof.
    intros S T field std c t std' c' t' f f' H H'.
    rewrite (exported_runs_shared _ _ _ _ _ _ _ H), (exported_runs_shared _ _ _ _ _ _ _ H'). reflexivity.
  Qed.

  (** the six functions by name *)
  Theorem exported_functions : forall S std c t,
    (forall f, exported S e_tf512 std c t = Runs f -> f = tf512 S) /\
    (forall f, exported S e_of512 std c t = Runs f -> f = of512 S) /\
    (forall f, exported S e_init512 std c t = Runs f -> f = init512) /\
    (forall f, exported S e_tf1024 std c t = Runs f -> f = tf1024 S) /\
    (forall f, exported S e_of1024 std c t = Runs f -> f = of1024 S) /\
    (forall f, exported S e_init1024 std c t = Runs f -> f = init1024).
  Proof. intros S std c t. repeat split; intros f H; exact (exported_runs_shared _ _ _ _ _ _ _ H). Qed.

  (** the three outcomes of an exported function are those of [exported_module] *)
  Theorem exported_outcome : forall (S : N -> N) (T : Type) (field : entries -> T) std c t,
    match exported_module std c t with
    | Runs _ => exported S field std c t = Runs (field (shared S))
    | InitPanics => exported S field std c t = InitPanics
    | NotBuilt => exported S field std c t = NotBuilt
    end.
  Proof.
    intros S T field std c t. rewrite exported_is_module_field.
    destruct (exported_module std c t) as [m| |]; cbn; try reflexivity. now rewrite entries_of_eta.
  Qed.

  (** ** the compressors and digests *)
  Theorem exported_comp_outcome : forall S std c t,
    match exported_module std c t with
    | Runs _ => exported_comp512 S std c t = Runs (comp512 S) /\ exported_comp1024 S std c t = Runs (comp1024 S)
    | InitPanics => exported_comp512 S std c t = InitPanics /\ exported_comp1024 S std c t = InitPanics
    | NotBuilt => exported_comp512 S std c t = NotBuilt /\ exported_comp1024 S std c t = NotBuilt
    end.
  Proof.
    intros S std c t. unfold exported_comp512, exported_comp1024.
    pose proof (exported_outcome S _ e_init512 std c t) as H1.
    pose proof (exported_outcome S _ e_tf512 std c t) as H2.
    pose proof (exported_outcome S _ e_of512 std c t) as H3.
    pose proof (exported_outcome S _ e_init1024 std c t) as H4.
    pose proof (exported_outcome S _ e_tf1024 std c t) as H5.
    pose proof (exported_outcome S _ e_of1024 std c t) as H6.
    destruct (exported_module std c t); rewrite H1, ?H2, ?H3, H4, ?H5, ?H6; split; reflexivity.
  Qed.

  (** the digest computed through the exported functions: in every configuration in which a module
      runs it is the digest of Model/Groestl.v (about which C07 speaks); otherwise the call panics
      (std, nothing detected) or the crate is not built (no std, no target sse2) *)
  Theorem digests_on : forall std c t msg,
    match exported_module std c t with
    | Runs _ =>
        groestl224_on std c t msg = Runs (m_groestl224 msg) /\ groestl256_on std c t msg = Runs (m_groestl256 msg) /\
        groestl384_on std c t msg = Runs (m_groestl384 msg) /\ groestl512_on std c t msg = Runs (m_groestl512 msg)
    | InitPanics =>
        groestl224_on std c t msg = InitPanics /\ groestl256_on std c t msg = InitPanics /\
        groestl384_on std c t msg = InitPanics /\ groestl512_on std c t msg = InitPanics
    | NotBuilt =>
        groestl224_on std c t msg = NotBuilt /\ groestl256_on std c t msg = NotBuilt /\
        groestl384_on std c t msg = NotBuilt /\ groestl512_on std c t msg = NotBuilt
    end.
  Proof.
    intros std c t msg. unfold groestl224_on, groestl256_on, groestl384_on, groestl512_on.
    pose proof (exported_comp_outcome sbox_fast std c t) as H.
    destruct (exported_module std c t); destruct H as [-> ->]; repeat split.
  Qed.

  (** composed with C07: = the specification, for every message below the format limit *)
  Theorem digests_on_eq_spec : forall (std : bool) c t msg,
    (if std then c_sse2 c else t_sse2 t) = true ->
    (fits 64 msg -> groestl224_on std c t msg = Runs (Spec.Groestl.groestl224 msg) /\
                    groestl256_on std c t msg = Runs (Spec.Groestl.groestl256 msg)) /\
    (fits 128 msg -> groestl384_on std c t msg = Runs (Spec.Groestl.groestl384 msg) /\
                     groestl512_on std c t msg = Runs (Spec.Groestl.groestl512 msg)).
  Proof.
    intros std c t msg H. destruct (exported_module_total std c t H) as [m Hm].
    pose proof (digests_on std c t msg) as D. rewrite Hm in D. destruct D as (D1 & D2 & D3 & D4).
    split; intros F.
    - now rewrite D1, D2, groestl224_eq_spec, groestl256_eq_spec.
    - now rewrite D3, D4, groestl384_eq_spec, groestl512_eq_spec.
  Qed.

  (** ** the lattice: every point of groestl-aesni, every environment; [cs] / [ts] = SSE2 detected /
         promised (Model/Features.v's [env] assumes both) *)
  Theorem groestl_point_selection_irrelevant :
    forall (S : N -> N) (T : Type) (field : entries -> T) p p' e e' cs cs' ts ts' f f',
      point_exported S field p e cs ts = Runs f -> point_exported S field p' e' cs' ts' = Runs f' ->
      f = f' /\ f = field (shared S).
  Proof.
    intros S T field p p' e e' cs cs' ts ts' f f' H H'. unfold point_exported in *.
    split; [exact (exported_selection_irrelevant _ _ _ _ _ _ _ _ _ _ _ H H') | exact (exported_runs_shared _ _ _ _ _ _ _ H)].
  Qed.

  (** with SSE2 present both at run time and at compile time (the assumption of Model/Features.v):
      every point runs, and runs the shared body *)
  Theorem groestl_point_runs : forall (S : N -> N) (T : Type) (field : entries -> T) p e,
    point_exported S field p e true true = Runs (field (shared S)).
  Proof.
    intros S T field p e. unfold point_exported.
    destruct (exported_module_total (groestl_std p) (cpu_of e true) (tgt_of e true)) as [m Hm].
    { destruct (groestl_std p); reflexivity. }
    pose proof (exported_outcome S T field (groestl_std p) (cpu_of e true) (tgt_of e true)) as H.
    now rewrite Hm in H.
  Qed.

  (** the std autodetect arm at a lattice point panics iff nothing is detected *)
  Theorem groestl_point_panics_iff : forall p e cs ts,
    point_module p e cs ts = InitPanics <->
    groestl_std p = true /\ cpu_aes e = false /\ cpu_ssse3 e = false /\ cs = false.
  Proof. intros p e cs ts. unfold point_module. rewrite std_panics_iff. reflexivity. Qed.

  (** relation to [select Groestl] / [groestl_module] of Model/Features.v: the same module, except
      that under [std] the names [ssse3] / [sse2] used by the autodetect chain are ALSO subject to
      the target-feature aliases, which [groestl_module true] ignores *)
  Theorem point_module_vs_features : forall p e,
    select Groestl p e = SelGroestl (groestl_std p) (groestl_module (groestl_std p) e) /\
    (groestl_std p = false \/ (tgt_aes e = false /\ tgt_ssse3 e = false) ->
     point_module p e true true = Runs (groestl_module (groestl_std p) e)).
  Proof.
    intros p e. split; [reflexivity|]. unfold point_module, groestl_module.
    destruct e as [a b ca cs ta ts]. unfold cpu_of, tgt_of. cbn [cpu_aes cpu_ssse3 tgt_aes tgt_ssse3].
    intros [-> | [-> ->]].
    - destruct ta, ts; reflexivity.
    - destruct (groestl_std p), ca, cs; reflexivity.
  Qed.

  Import Coq.Strings.String.
  Local Open Scope string_scope.

  (** non-vacuity: the selection really selects; the alias case; both failure outcomes *)
  Example selections :
    groestl_std (default_point Groestl) = true /\ groestl_std [] = false /\
    exported_module true (GCpu true true true) (GTgt false false true) = Runs GAes /\
    exported_module true (GCpu false true true) (GTgt false false true) = Runs GSsse3 /\
    exported_module true (GCpu false false true) (GTgt false false true) = Runs GSse2 /\
    exported_module true (GCpu false false true) (GTgt false true true) = Runs GSsse3 /\   (* alias sse2 -> ssse3 *)
    exported_module true (GCpu false true true) (GTgt true true true) = Runs GAes /\       (* alias ssse3 -> aes *)
    exported_module true (GCpu false false false) (GTgt true true true) = InitPanics /\
    exported_module false (GCpu true true true) (GTgt false false true) = Runs GSse2 /\
    exported_module false (GCpu false false false) (GTgt true true true) = Runs GAes /\
    exported_module false (GCpu true true true) (GTgt true false true) = Runs GSse2 /\     (* +aes alone: own sse2 *)
    exported_module false (GCpu true true true) (GTgt false false false) = NotBuilt.
  Proof. repeat split. Qed.

  (** the statement has content: if ONE wrapper (say [sse2::of512]) called another body, the
      per-function irrelevance theorem would fail - the proof really inspects the 18 wrappers *)
  Definition entries_changed (S : N -> N) (m : gmodule) : entries :=
    match m with
    | GSse2 => Entries (sse2_tf512 S) (fun cv => cv) sse2_init512 (sse2_tf1024 S) (sse2_of1024 S) sse2_init1024
    | _ => entries_of S m
    end.
  Example a_changed_wrapper_is_detected :
    exists cv, e_of512 (entries_changed sbox_fast GSse2) cv <> e_of512 (entries_changed sbox_fast GAes) cv.
  Proof.
    exists (repeat (repeat 0%N 16) 4). cbn [entries_changed e_of512 entries_of mod_aes].
    unfold aes_of512. vm_compute. discriminate.
  Qed.
End F_C20G.

(** * E (C18-F2): Model/Concurrency.v instantiated with Groestl's lazily initialised choice.

    Granularity: an operation [Op] of Model/Concurrency.v is ONE dispatched call (one dereference of
    one [lazy_static] cell): [compressor::init512 / tf512 / of512 / init1024 / tf1024 / of1024]. The
    instance is the compressor ([Compressor512 { cv }] / [Compressor1024 { cv }]); the block buffer
    and block counter around it are thread-local pure code (lib.rs, digest/block-buffer), whose
    only effect on the shared cells is the SEQUENCE of calls they make - given by
    [hasher_calls_512/1024] for ANY compressor functions (C07_schedule_eq_spec).

      V       = [gresult gmodule]: what the cell's initialiser yields - the module whose function the
                cell points to, or the initialiser's panic
      cpu     = oracle: feature 0 = "aes", 1 = "ssse3", 2 = "sse2"
      choose  = [dispatch_init] of Model/FeaturesGroestl.v under [std] (the only build with cells),
                target features [t] fixed at compile time; the same function for each of the 6 cells
      cell_of = the cell of the called function (0..5)
      St      = [X] (the chaining value [cv])      Out = returned | panicked *)
Module F_C18.
  Inductive gcall :=
  | CInit512 (x : X) | CTf512 (blk : list N) | COf512
  | CInit1024 (x : X) | CTf1024 (blk : list N) | COf1024.

  Inductive gout := Returned | Panicked.

  Definition oracle_cpu (f : nat -> bool) : gcpu := GCpu (f 0) (f 1) (f 2).

  Section Inst.
    Variable S : N -> N.
    Variable t : gtgt.              (* compile-time target features of the build *)

    Definition g_choose (f : nat -> bool) (cell : nat) : gresult gmodule :=
      exported_module true (oracle_cpu f) t.

    Definition g_cell_of (o : gcall) : nat :=
      match o with
      | CTf512 _ => 0 | COf512 => 1 | CInit512 _ => 2
      | CTf1024 _ => 3 | COf1024 => 4 | CInit1024 _ => 5
      end.

    (** the call through the cell's value: the chosen module's wrapper *)
    Definition g_apply (e : entries) (o : gcall) (cv : X) : X :=
      match o with
      | CInit512 x => e_init512 e x
      | CTf512 blk => e_tf512 e cv blk
      | COf512 => e_of512 e cv
      | CInit1024 x => e_init1024 e x
      | CTf1024 blk => e_tf1024 e cv blk
      | COf1024 => e_of1024 e cv
      end.

    Definition g_exec (v : gresult gmodule) (o : gcall) (cv : X) : X * gout :=
      match v with
      | Runs m => (g_apply (entries_of S m) o cv, Returned)
      | _ => (cv, Panicked)
      end.

    Notation g_run cpu := (run (gresult gmodule) X gcall gout cpu g_choose g_cell_of g_exec).
    Notation g_seq cpu := (seq_run (gresult gmodule) X gcall gout cpu g_choose g_cell_of g_exec).
    Notation g_initial := (initial (gresult gmodule) X gcall gout).

    (** the calls a thread makes to hash [msg] (from a fresh hasher, one update, finalize):
        init on the IV block, tf on every block of the padded message, of *)
    Definition iv_regs512 (bits : N) : X := regs_of_bytes 4 (iv_block 8 bits).
    Definition iv_regs1024 (bits : N) : X := regs_of_bytes 8 (iv_block 16 bits).
    Definition calls512 (bits : N) (msg : list N) : list gcall :=
      CInit512 (iv_regs512 bits) :: map CTf512 (Spec.Groestl.blocks 64 (Spec.Groestl.pad 64 msg)) ++ [COf512].
    Definition calls1024 (bits : N) (msg : list N) : list gcall :=
      CInit1024 (iv_regs1024 bits) :: map CTf1024 (Spec.Groestl.blocks 128 (Spec.Groestl.pad 128 msg)) ++ [COf1024].

    (** ** one-at-a-time semantics of a call sequence, when a module [m] is chosen *)
    Definition all_returned (l : list gout) : Prop := Forall (fun o => o = Returned) l.

    Lemma init_runs cpu m : g_choose cpu 0 = Runs m ->
      forall c, init (gresult gmodule) cpu g_choose c = Runs m.
    Proof. intros H c. exact H. Qed.
    Lemma init_panics cpu : g_choose cpu 0 = InitPanics ->
      forall c, init (gresult gmodule) cpu g_choose c = InitPanics.
    Proof. intros H c. exact H. Qed.

    Lemma seq_tf512 cpu m : g_choose cpu 0 = Runs m -> forall bl cv,
      fst (g_seq cpu cv (map CTf512 bl)) = fold_left (tf512 S) bl cv /\
      all_returned (snd (g_seq cpu cv (map CTf512 bl))).
    Proof.
      intros Hm. induction bl as [|b bl IH]; intros cv; cbn [map seq_run fst snd fold_left].
      - split; [reflexivity | constructor].
      - rewrite !(init_runs cpu m Hm). cbn [g_exec fst snd].
        rewrite F_C20G.entries_of_eta. cbn [g_apply F_C20G.shared e_tf512].
        destruct (IH (tf512 S cv b)) as [E A]. split; [exact E | constructor; [reflexivity | exact A]].
    Qed.

    Lemma seq_tf1024 cpu m : g_choose cpu 0 = Runs m -> forall bl cv,
      fst (g_seq cpu cv (map CTf1024 bl)) = fold_left (tf1024 S) bl cv /\
      all_returned (snd (g_seq cpu cv (map CTf1024 bl))).
    Proof.
      intros Hm. induction bl as [|b bl IH]; intros cv; cbn [map seq_run fst snd fold_left].
      - split; [reflexivity | constructor].
      - rewrite !(init_runs cpu m Hm).
        cbn [g_exec fst snd]. rewrite F_C20G.entries_of_eta. cbn [g_apply F_C20G.shared e_tf1024].
        destruct (IH (tf1024 S cv b)) as [E A]. split; [exact E | constructor; [reflexivity | exact A]].
    Qed.

    Lemma seq_run_app_gen cpu : forall l1 l2 cv,
      g_seq cpu cv (l1 ++ l2) =
      (fst (g_seq cpu (fst (g_seq cpu cv l1)) l2), snd (g_seq cpu cv l1) ++ snd (g_seq cpu (fst (g_seq cpu cv l1)) l2)).
    Proof.
      induction l1 as [|o l1 IH]; intros l2 cv; cbn [app seq_run fst snd].
      - now destruct (g_seq cpu cv l2).
      - rewrite IH. reflexivity.
    Qed.

    Lemma seq_calls512 cpu m bits msg cv0 : g_choose cpu 0 = Runs m ->
      fst (g_seq cpu cv0 (calls512 bits msg))
        = of512 S (fold_left (tf512 S) (Spec.Groestl.blocks 64 (Spec.Groestl.pad 64 msg)) (init512 (iv_regs512 bits)))
      /\ all_returned (snd (g_seq cpu cv0 (calls512 bits msg))).
    Proof.
      intros Hm. unfold calls512. cbn [seq_run fst snd].
      rewrite !(init_runs cpu m Hm).
      cbn [g_exec fst snd]. rewrite F_C20G.entries_of_eta. cbn [g_apply F_C20G.shared e_init512].
      rewrite seq_run_app_gen. cbn [fst snd].
      destruct (seq_tf512 cpu m Hm (Spec.Groestl.blocks 64 (Spec.Groestl.pad 64 msg)) (init512 (iv_regs512 bits))) as [E A].
      rewrite E. cbn [seq_run fst snd]. rewrite !(init_runs cpu m Hm). cbn [g_exec fst snd].
      rewrite F_C20G.entries_of_eta. cbn [g_apply F_C20G.shared e_of512].
      split; [reflexivity|]. constructor; [reflexivity|]. apply Forall_app. split; [exact A|].
      constructor; [reflexivity | constructor].
    Qed.

    Lemma seq_calls1024 cpu m bits msg cv0 : g_choose cpu 0 = Runs m ->
      fst (g_seq cpu cv0 (calls1024 bits msg))
        = of1024 S (fold_left (tf1024 S) (Spec.Groestl.blocks 128 (Spec.Groestl.pad 128 msg)) (init1024 (iv_regs1024 bits)))
      /\ all_returned (snd (g_seq cpu cv0 (calls1024 bits msg))).
    Proof.
      intros Hm. unfold calls1024. cbn [seq_run fst snd].
      rewrite !(init_runs cpu m Hm).
      cbn [g_exec fst snd]. rewrite F_C20G.entries_of_eta. cbn [g_apply F_C20G.shared e_init1024].
      rewrite seq_run_app_gen. cbn [fst snd].
      destruct (seq_tf1024 cpu m Hm (Spec.Groestl.blocks 128 (Spec.Groestl.pad 128 msg)) (init1024 (iv_regs1024 bits))) as [E A].
      rewrite E. cbn [seq_run fst snd]. rewrite !(init_runs cpu m Hm). cbn [g_exec fst snd].
      rewrite F_C20G.entries_of_eta. cbn [g_apply F_C20G.shared e_of1024].
      split; [reflexivity|]. constructor; [reflexivity|]. apply Forall_app. split; [exact A|].
      constructor; [reflexivity | constructor].
    Qed.

    (** when the initialiser panics, every call panicks and the instance is untouched *)
    Lemma seq_panics cpu : g_choose cpu 0 = InitPanics -> forall l cv,
      fst (g_seq cpu cv l) = cv /\ Forall (fun o => o = Panicked) (snd (g_seq cpu cv l)).
    Proof.
      intros Hp. induction l as [|o l IH]; intros cv; cbn [seq_run fst snd]; [split; [reflexivity | constructor]|].
      rewrite !(init_panics cpu Hp).
      cbn [g_exec fst snd]. destruct (IH cv) as [E A]. split; [exact E | constructor; [reflexivity | exact A]].
    Qed.
  End Inst.

  (** ** the hasher of lib.rs makes exactly these calls: for ANY compressor functions the digest is
         [out (concat (of (fold tf (blocks (pad msg)) (init iv))))] *)
  Theorem hasher_calls_512 : forall (i : X -> X) (f : X -> list N -> X) (o : X -> X) bits out msg,
    fits 64 msg ->
    digest (C 64 i f o) bits out msg
    = out (concat (o (fold_left f (Spec.Groestl.blocks 64 (Spec.Groestl.pad 64 msg)) (i (iv_regs512 bits))))).
  Proof.
    intros i f o bits out msg F. unfold digest.
    rewrite hasher_schedule_new by (cbn [c_bytes]; (lia || exact F)). reflexivity.
  Qed.

  Theorem hasher_calls_1024 : forall (i : X -> X) (f : X -> list N -> X) (o : X -> X) bits out msg,
    fits 128 msg ->
    digest (C 128 i f o) bits out msg
    = out (concat (o (fold_left f (Spec.Groestl.blocks 128 (Spec.Groestl.pad 128 msg)) (i (iv_regs1024 bits))))).
  Proof.
    intros i f o bits out msg F. unfold digest.
    rewrite hasher_schedule_new by (cbn [c_bytes]; (lia || exact F)). reflexivity.
  Qed.

  (** ** the corollary. A cold process (cells empty) in which thread [i] owns compressor instance
         [t_inst] and makes the calls of hashing its message [msg i]; some SIMD level is detected.
         For EVERY schedule: a thread that has finished its calls holds, in its own instance, the
         chaining value whose truncation is the SPECIFIED digest of its own message, and all its
         calls returned. Stated for Groestl-256 and Groestl-512 (224/384 differ in [bits] and the
         output cut only). *)
  Notation GV := (gresult gmodule).

  Theorem concurrent_first_use_groestl256 :
    forall (t : gtgt) (cpu : nat -> bool) (g0 : gstate GV X gcall gout) (sched : list nat),
      initial GV X gcall gout g0 ->
      (cpu 0 || cpu 1 || cpu 2 = true) ->
      forall i t0 tf msg,
        nth_error (threads GV X gcall gout g0) i = Some t0 ->
        t_prog GV gcall gout t0 = calls512 256 msg -> fits 64 msg ->
        nth_error (threads GV X gcall gout (run GV X gcall gout cpu (g_choose t) g_cell_of (g_exec sbox_fast) sched g0)) i = Some tf ->
        t_prog GV gcall gout tf = [] ->
        out256 (concat (tbl GV X gcall gout (run GV X gcall gout cpu (g_choose t) g_cell_of (g_exec sbox_fast) sched g0)
                            (t_inst GV gcall gout t0)))
          = Spec.Groestl.groestl256 msg
        /\ all_returned (t_outs GV gcall gout tf)
        /\ length (t_outs GV gcall gout tf) = length (calls512 256 msg).
  Proof.
    intros t cpu g0 sched Hin Hcpu i t0 tf msg H0 Hp Hfit Hf Hdone.
    destruct (concurrent_complete GV X gcall gout cpu (g_choose t) g_cell_of (g_exec sbox_fast)
                g0 sched Hin i t0 tf H0 Hf Hdone) as [Eo Et].
    assert (Hm : exists m, g_choose t cpu 0 = Runs m).
    { unfold g_choose, oracle_cpu. rewrite F_C20G.exported_module_std. cbn [c_aes c_ssse3 c_sse2].
      destruct (cpu 0), (cpu 1), (cpu 2); try discriminate Hcpu; eexists; reflexivity. }
    destruct Hm as [m Hm].
    rewrite Hp in Eo, Et.
    destruct (seq_calls512 sbox_fast t cpu m 256 msg (tbl GV X gcall gout g0 (t_inst GV gcall gout t0)) Hm) as [E A].
    rewrite Et, Eo, E. split; [|split; [exact A|]].
    - rewrite <- (hasher_calls_512 init512 (tf512 sbox_fast) (of512 sbox_fast) 256 out256 msg Hfit).
      exact (groestl256_eq_spec msg Hfit).
    - clear. generalize (tbl GV X gcall gout g0 (t_inst GV gcall gout t0)). generalize (calls512 256 msg).
      induction l as [|o l IH]; intros cv; cbn [seq_run snd length]; [reflexivity | now rewrite IH].
  Qed.

  Theorem concurrent_first_use_groestl512 :
    forall (t : gtgt) (cpu : nat -> bool) (g0 : gstate GV X gcall gout) (sched : list nat),
      initial GV X gcall gout g0 ->
      (cpu 0 || cpu 1 || cpu 2 = true) ->
      forall i t0 tf msg,
        nth_error (threads GV X gcall gout g0) i = Some t0 ->
        t_prog GV gcall gout t0 = calls1024 512 msg -> fits 128 msg ->
        nth_error (threads GV X gcall gout (run GV X gcall gout cpu (g_choose t) g_cell_of (g_exec sbox_fast) sched g0)) i = Some tf ->
        t_prog GV gcall gout tf = [] ->
        out512 (concat (tbl GV X gcall gout (run GV X gcall gout cpu (g_choose t) g_cell_of (g_exec sbox_fast) sched g0)
                            (t_inst GV gcall gout t0)))
          = Spec.Groestl.groestl512 msg
        /\ all_returned (t_outs GV gcall gout tf).
  Proof.
    intros t cpu g0 sched Hin Hcpu i t0 tf msg H0 Hp Hfit Hf Hdone.
    destruct (concurrent_complete GV X gcall gout cpu (g_choose t) g_cell_of (g_exec sbox_fast)
                g0 sched Hin i t0 tf H0 Hf Hdone) as [Eo Et].
    assert (Hm : exists m, g_choose t cpu 0 = Runs m).
    { unfold g_choose, oracle_cpu. rewrite F_C20G.exported_module_std. cbn [c_aes c_ssse3 c_sse2].
      destruct (cpu 0), (cpu 1), (cpu 2); try discriminate Hcpu; eexists; reflexivity. }
    destruct Hm as [m Hm].
    rewrite Hp in Eo, Et.
    destruct (seq_calls1024 sbox_fast t cpu m 512 msg (tbl GV X gcall gout g0 (t_inst GV gcall gout t0)) Hm) as [E A].
    rewrite Et, Eo, E. split; [|exact A].
    rewrite <- (hasher_calls_1024 init1024 (tf1024 sbox_fast) (of1024 sbox_fast) 512 out512 msg Hfit).
    exact (groestl512_eq_spec msg Hfit).
  Qed.

  (** and every thread does finish under a schedule that gives it 4 micro-steps per call (read,
      compute, store, run), whatever the others do: the digest statement is not vacuous *)
  Theorem concurrent_first_use_groestl256_fair :
    forall (t : gtgt) (cpu : nat -> bool) (g0 : gstate GV X gcall gout) (sched : list nat),
      initial GV X gcall gout g0 ->
      (cpu 0 || cpu 1 || cpu 2 = true) ->
      forall i t0 msg,
        nth_error (threads GV X gcall gout g0) i = Some t0 ->
        t_prog GV gcall gout t0 = calls512 256 msg -> fits 64 msg ->
        4 * length (calls512 256 msg) <= count_occ Nat.eq_dec sched i ->
        out256 (concat (tbl GV X gcall gout (run GV X gcall gout cpu (g_choose t) g_cell_of (g_exec sbox_fast) sched g0)
                            (t_inst GV gcall gout t0)))
          = Spec.Groestl.groestl256 msg.
  Proof.
    intros t cpu g0 sched Hin Hcpu i t0 msg H0 Hp Hfit Hfair.
    destruct (progress GV X gcall gout cpu (g_choose t) g_cell_of (g_exec sbox_fast) g0 i t0 sched H0)
      as (tf & Hf & Hdone); [rewrite Hp; exact Hfair|].
    exact (proj1 (concurrent_first_use_groestl256 t cpu g0 sched Hin Hcpu i t0 tf msg H0 Hp Hfit Hf Hdone)).
  Qed.

  (** no SIMD level detected: in every schedule every call of every thread panics and no instance
      changes (the cell's initialiser panics each time it is run; lazy_static would poison) *)
  Theorem concurrent_first_use_no_sse2 :
    forall (S : N -> N) (t : gtgt) (cpu : nat -> bool) (g0 : gstate GV X gcall gout) (sched : list nat),
      initial GV X gcall gout g0 ->
      cpu 0 = false -> cpu 1 = false -> cpu 2 = false ->
      forall i t0 tf,
        nth_error (threads GV X gcall gout g0) i = Some t0 ->
        nth_error (threads GV X gcall gout (run GV X gcall gout cpu (g_choose t) g_cell_of (g_exec S) sched g0)) i = Some tf ->
        Forall (fun o => o = Panicked) (t_outs GV gcall gout tf) /\
        tbl GV X gcall gout (run GV X gcall gout cpu (g_choose t) g_cell_of (g_exec S) sched g0) (t_inst GV gcall gout t0)
          = tbl GV X gcall gout g0 (t_inst GV gcall gout t0).
  Proof.
    intros S t cpu g0 sched Hin H0 H1 H2 i t0 tf Ht0 Htf.
    destruct (concurrent_equals_sequential GV X gcall gout cpu (g_choose t) g_cell_of (g_exec S)
                g0 sched Hin i t0 tf Ht0 Htf) as (k & _ & _ & _ & Eo & Et).
    assert (Hp : g_choose t cpu 0 = InitPanics).
    { unfold g_choose, oracle_cpu. rewrite F_C20G.exported_module_std. cbn [c_aes c_ssse3 c_sse2].
      now rewrite H0, H1, H2. }
    destruct (seq_panics S t cpu Hp (firstn k (t_prog GV gcall gout t0))
                (tbl GV X gcall gout g0 (t_inst GV gcall gout t0))) as [E A].
    rewrite Eo, Et. split; [exact A | exact E].
  Qed.

  (** the chosen value does not depend on the cell: the six cells always agree (so a hasher whose
      finalize dereferences both the tf and the of cell uses ONE module throughout) *)
  Theorem six_cells_agree : forall t cpu c c', g_choose t cpu c = g_choose t cpu c'.
  Proof. reflexivity. Qed.

  (** non-vacuity: three threads hash three different messages (0, 3 and 70 bytes: 1, 1 and 2
      blocks); threads 0 and 1 both find the init512 cell empty, both run the initialiser and both
      store; the cold-process hypothesis holds *)
  Definition msg_of (i : nat) : list N :=
    match i with 0 => [] | 1 => [0x61; 0x62; 0x63]%N | _ => map N.of_nat (seq 0 70) end.
  Definition th (i : nat) := Th GV gcall gout (10 * i) (calls512 256 (msg_of i)) (Idle GV) [].
  Definition g3 := G GV X gcall gout (fun _ => None) (fun _ => []) [th 0; th 1; th 2].

  Lemma g3_initial : initial GV X gcall gout g3.
  Proof.
    split; [reflexivity|]. split.
    - intros t0 [<-|[<-|[<-|[]]]]; split; reflexivity.
    - cbn. repeat constructor; cbn; intuition discriminate.
  Qed.

  Example g3_programs :
    map (fun t0 => length (t_prog GV gcall gout t0)) (threads GV X gcall gout g3) = [3; 3; 4].
  Proof. vm_compute. reflexivity. Qed.
End F_C18.

(** * E, second reading (the one asked for in the work package): the instance is the whole HASHER
      state of Model/Groestl.v and an operation is a whole [new] / [update] / [finalize] call that
      uses the chosen module's functions. One such call dereferences several cells (update: the tf
      cell once per block; finalize: the tf cell, then the of cell); Model/Concurrency.v gives an
      operation ONE cell. This reading therefore relies on [F_C18.six_cells_agree] (all six cells
      are initialised by the same function of the same CPU answers) and on "a full cell is never
      overwritten with another value" (C18_once_cell_any_schedule); the call-level instantiation
      [F_C18] above needs neither. *)
Module F_C18H.
  Import F_C18.
  Inductive hop := HNew (bits : N) | HUpdate (data : list N) | HFinalize.
  Inductive hout := HUnit | HBytes (b : list N) | HPanicked.

  Definition comp_of (S : N -> N) (m : gmodule) : comp :=
    C 64 (e_init512 (entries_of S m)) (e_tf512 (entries_of S m)) (e_of512 (entries_of S m)).

  Definition h_cell_of (o : hop) : nat := match o with HNew _ => 2 | HUpdate _ => 0 | HFinalize => 1 end.

  Definition h_exec (S : N -> N) (v : gresult gmodule) (o : hop) (h : hasher) : hasher * hout :=
    match v with
    | Runs m =>
        match o with
        | HNew bits => (new_truncated (comp_of S m) bits, HUnit)
        | HUpdate data => (Model.Groestl.update (comp_of S m) h data, HUnit)
        | HFinalize => (h, HBytes (finalize_dirty (comp_of S m) h))
        end
    | _ => (h, HPanicked)
    end.

  Lemma comp_of_eta S m : comp_of S m = comp512 S.
  Proof. destruct m; reflexivity. Qed.

  Notation GV := (gresult gmodule).

  (** every schedule: a thread whose program is [new(256); update(msg); finalize] and that has
      finished returns, as its third output, state bytes whose cut is the specified digest of ITS
      message - whichever threads ran the initialisers, however often, in whatever order *)
  Theorem concurrent_first_use_hasher256 :
    forall (t : gtgt) (cpu : nat -> bool) (g0 : gstate GV hasher hop hout) (sched : list nat),
      initial GV hasher hop hout g0 ->
      (cpu 0 || cpu 1 || cpu 2 = true) ->
      forall i t0 tf msg,
        nth_error (threads GV hasher hop hout g0) i = Some t0 ->
        t_prog GV hop hout t0 = [HNew 256; HUpdate msg; HFinalize] -> fits 64 msg ->
        nth_error (threads GV hasher hop hout
                     (run GV hasher hop hout cpu (g_choose t) h_cell_of (h_exec sbox_fast) sched g0)) i = Some tf ->
        t_prog GV hop hout tf = [] ->
        exists r, t_outs GV hop hout tf = [HUnit; HUnit; HBytes r] /\ out256 r = Spec.Groestl.groestl256 msg.
  Proof.
    intros t cpu g0 sched Hin Hcpu i t0 tf msg H0 Hp Hfit Hf Hdone.
    destruct (concurrent_complete GV hasher hop hout cpu (g_choose t) h_cell_of (h_exec sbox_fast)
                g0 sched Hin i t0 tf H0 Hf Hdone) as [Eo _].
    assert (Hm : exists m, g_choose t cpu 0 = Runs m).
    { unfold g_choose, oracle_cpu. rewrite F_C20G.exported_module_std. cbn [c_aes c_ssse3 c_sse2].
      destruct (cpu 0), (cpu 1), (cpu 2); try discriminate Hcpu; eexists; reflexivity. }
    destruct Hm as [m Hm].
    rewrite Hp in Eo. cbn [seq_run fst snd] in Eo.
    assert (Hi : forall c, init GV cpu (g_choose t) c = Runs m) by (intros c; exact Hm).
    rewrite !Hi in Eo. cbn [h_exec fst snd] in Eo. rewrite !comp_of_eta in Eo.
    eexists. split; [exact Eo|].
    exact (groestl256_eq_spec msg Hfit).
  Qed.
End F_C18H.

Print Assumptions F_C20G.entries_are_shared_body.
Print Assumptions F_C20G.std_panics_iff.
Print Assumptions F_C20G.std_panics_iff_no_sse2.
Print Assumptions F_C20G.not_built_iff.
Print Assumptions F_C20G.exported_selection_irrelevant.
Print Assumptions F_C20G.exported_functions.
Print Assumptions F_C20G.digests_on.
Print Assumptions F_C20G.digests_on_eq_spec.
Print Assumptions F_C20G.groestl_point_selection_irrelevant.
Print Assumptions F_C20G.groestl_point_runs.
Print Assumptions F_C20G.groestl_point_panics_iff.
Print Assumptions F_C20G.point_module_vs_features.
Print Assumptions F_C20G.a_changed_wrapper_is_detected.
Print Assumptions F_C18.hasher_calls_512.
Print Assumptions F_C18.concurrent_first_use_groestl256.
Print Assumptions F_C18.concurrent_first_use_groestl512.
Print Assumptions F_C18.concurrent_first_use_groestl256_fair.
Print Assumptions F_C18.concurrent_first_use_no_sse2.
Print Assumptions F_C18H.concurrent_first_use_hasher256.
