(** C12, Swap64 of [u128x1_sse2], part 1: the contract's [swapw] is the bit-group swap (bit j of the result = bit j xor n of the operand); swaps of whole bytes (pshufb / pshuflw+pshufhw / pshufd forms). *)
From Coq Require Import NArith List Lia Bool Arith.
From CC Require Import Lib.Words Lib.Bytes Lib.ListX Model.Intrinsics Model.PpvSse Spec.Lanes
  Proofs.IntrinsicsLemmas Proofs.PpvSseWords.
Import ListNotations.
Local Open Scope N_scope.

Definition below (n : nat) : list N := map N.of_nat (seq 0 n).
Lemma in_below n j : j < N.of_nat n -> In j (below n).
Proof.
  intros H. unfold below. rewrite <- (N2Nat.id j). apply in_map, in_seq. lia.
Qed.

(** * the contract's executable [swapw] is the bit-group swap *)
Definition chk_swap (n m j : N) : bool :=
  if N.testbit m j
  then (N.lxor j n =? j + n) && (j + n <? 128) && (if n <=? j then negb (N.testbit m (j - n)) else true)
  else (n <=? j) && (N.lxor j n =? j - n) && N.testbit m (j - n).

Lemma swapw_bits n x j : In n [1; 2; 4; 8; 16; 32; 64] -> x < 2 ^ 128 ->
  N.testbit (swapw n 128 x) j = (j <? 128) && swap_spec_bit n x j.
Proof.
  intros Hn Hx. unfold swapw, swap_spec_bit.
  set (m := group_mask (N.to_nat (128 / (2 * n))) n 128).
  assert (Hm : m < 2 ^ 128).
  { subst m. cbn [In] in Hn. repeat (destruct Hn as [<-|Hn]; [vm_compute; reflexivity|]). contradiction. }
  assert (Hc : forallb (chk_swap n m) (below 128) = true).
  { subst m. cbn [In] in Hn. repeat (destruct Hn as [<-|Hn]; [vm_compute; reflexivity|]). contradiction. }
  rewrite forallb_forall in Hc.
  rewrite N.lor_spec, testbit_shiftl, !N.land_spec, N.shiftr_spec'.
  destruct (N.ltb_spec j 128) as [Hj|Hj]; cbn [andb].
  - specialize (Hc j (in_below 128 j Hj)). unfold chk_swap in Hc.
    destruct (N.testbit m j) eqn:Emj.
    + apply andb_prop in Hc. destruct Hc as [Hc H3]. apply andb_prop in Hc. destruct Hc as [H1 H2].
      apply N.eqb_eq in H1. rewrite H1, andb_true_r.
      destruct (N.leb_spec n j); [|reflexivity].
      apply negb_true_iff in H3. now rewrite H3, andb_false_r.
    + apply andb_prop in Hc. destruct Hc as [Hc H3]. apply andb_prop in Hc. destruct Hc as [H1 H2].
      apply N.eqb_eq in H2. rewrite H1, H2, H3, andb_true_r, andb_false_r, orb_false_r. reflexivity.
  - rewrite (testbit_high 128 m j) by assumption. rewrite andb_false_r, orb_false_r.
    destruct (N.leb_spec n j); [|reflexivity].
    destruct (N.ltb_spec (j - n) 128) as [Hjn|Hjn].
    + specialize (Hc (j - n) (in_below 128 _ Hjn)). unfold chk_swap in Hc.
      destruct (N.testbit m (j - n)); [|now rewrite andb_false_r].
      apply andb_prop in Hc. destruct Hc as [Hc _]. apply andb_prop in Hc. destruct Hc as [_ H2].
      apply N.ltb_lt in H2. lia.
    + now rewrite (testbit_high 128 x (j - n)).
Qed.

(** two values below 2^128 with the same low 128 bits are equal *)
Lemma eq_by_bits128 a b : a < 2 ^ 128 -> b < 2 ^ 128 ->
  (forall j, j < 128 -> N.testbit a j = N.testbit b j) -> a = b.
Proof.
  intros Ha Hb H. apply N.bits_inj; intro j. destruct (N.lt_ge_cases j 128) as [Hj|Hj]; [now apply H|].
  now rewrite (testbit_high 128 a), (testbit_high 128 b).
Qed.

(** bits of little-endian joins *)
Lemma testbit_le_join bs j : Forall is_byte bs ->
  N.testbit (le_join bs) j = N.testbit (nth (N.to_nat (j / 8)) bs 0) (j mod 8).
Proof.
  intros Hb. revert j. induction Hb as [|b bs Hb0 Hb IH]; intro j.
  - cbn [le_join]. destruct (N.to_nat (j / 8)); now rewrite !N.bits_0.
  - cbn [le_join]. rewrite N.shiftl_mul_pow2, (testbit_cat 8) by exact Hb0.
    destruct (N.ltb_spec j 8) as [Hj|Hj].
    + rewrite N.div_small, N.mod_small by assumption. reflexivity.
    + rewrite IH.
      assert (E1 : j / 8 = (j - 8) / 8 + 1).
      { replace j with ((j - 8) + 1 * 8) at 1 by lia. now rewrite N.div_add by lia. }
      assert (E2 : j mod 8 = (j - 8) mod 8).
      { replace j with ((j - 8) + 1 * 8) at 1 by lia. now rewrite N.mod_add by lia. }
      rewrite E1, E2. rewrite N.add_1_r, N2Nat.inj_succ. reflexivity.
Qed.

Lemma swapw_lt n x : In n [1; 2; 4; 8; 16; 32; 64] -> x < 2 ^ 128 -> swapw n 128 x < 2 ^ 128.
Proof.
  intros Hn Hx. apply lt_pow2_bits. intros j Hj. rewrite swapw_bits by assumption.
  destruct (N.ltb_spec j 128); [lia|reflexivity].
Qed.

(** * swaps of whole bytes: pshufb / pshuflw+pshufhw / pshufd forms *)
Definition chk_byte (n j : N) : bool :=
  (N.lxor j n / 8 =? N.lxor (j / 8) (n / 8)) && (N.lxor j n mod 8 =? j mod 8).

Lemma byte_swap_bits n x R :
  In n [8; 16; 32; 64] -> wf 16 x -> wf 16 R ->
  (forall q, In q (below 16) -> nth (N.to_nat q) R 0 = nth (N.to_nat (N.lxor q (n / 8))) x 0) ->
  le_join R = swapw n 128 (le_join x).
Proof.
  intros Hn [Lx Bx] [LR BR] Hq.
  assert (Hn' : In n [1; 2; 4; 8; 16; 32; 64]) by (cbn [In] in *; intuition).
  pose proof (le_join_lt x Bx) as Hx. pose proof (le_join_lt R BR) as HR.
  rewrite Lx in Hx. rewrite LR in HR. change (2 ^ (8 * N.of_nat 16)) with (2 ^ 128) in *.
  apply eq_by_bits128; [assumption|now apply swapw_lt|].
  intros j Hj. rewrite swapw_bits by assumption.
  destruct (N.ltb_spec j 128); [|lia]. cbn [andb]. unfold swap_spec_bit.
  rewrite !testbit_le_join by assumption.
  assert (Hc : forallb (chk_byte n) (below 128) = true).
  { cbn [In] in Hn. repeat (destruct Hn as [<-|Hn]; [vm_compute; reflexivity|]). contradiction. }
  rewrite forallb_forall in Hc. specialize (Hc j (in_below 128 j Hj)).
  unfold chk_byte in Hc. apply andb_prop in Hc. destruct Hc as [H1 H2].
  apply N.eqb_eq in H1, H2. rewrite H1, H2. f_equal.
  apply Hq. apply in_below. change (N.of_nat 16) with 16.
  apply N.div_lt_upper_bound; lia.
Qed.

Ltac all_below H :=
  cbn [below seq map In N.of_nat Pos.of_succ_nat Pos.succ] in H;
  repeat (destruct H as [<-|H]; [reflexivity|]); contradiction.

Ltac perm_wf := split; [reflexivity|cbv -[is_byte]; repeat constructor; assumption].
Lemma swap_bytes_wf s3 n x : In n [8; 16; 32; 64] -> (n = 8 -> s3 = true) -> wf 16 x ->
  wf 16 (u128x1_swap s3 n x).
Proof.
  intros Hn H8 Hx. cbn [In] in Hn. bytes_of x.
  destruct s3.
  - destruct Hn as [<-|Hn]; [perm_wf|]. destruct Hn as [<-|Hn]; [perm_wf|].
    destruct Hn as [<-|Hn]; [perm_wf|]. destruct Hn as [<-|Hn]; [perm_wf|]. contradiction.
  - destruct Hn as [<-|Hn]; [specialize (H8 eq_refl); discriminate|]. destruct Hn as [<-|Hn]; [perm_wf|].
    destruct Hn as [<-|Hn]; [perm_wf|]. destruct Hn as [<-|Hn]; [perm_wf|]. contradiction.
Qed.

Theorem sse_u128x1_swap_bytes_is_bitgroup_swap s3 n x :
  In n [8; 16; 32; 64] -> (n = 8 -> s3 = true) -> wf 16 x ->
  u128x1_swap s3 n x = bytes_le 16 (v_swap n 128 (words_le 16 x)).
Proof.
  intros Hn H8 Hx.
  assert (E : words_le 16 x = [le_join x]) by (bytes_of x; reflexivity).
  rewrite E. cbn [v_swap map bytes_le flat_map]. rewrite app_nil_r.
  pose proof (swap_bytes_wf s3 n x Hn H8 Hx) as HR.
  rewrite <- (byte_swap_bits n x _ Hn Hx HR).
  - destruct HR as [LR BR]. rewrite <- LR. symmetry. now apply le_split_join.
  - intros q Hq. cbn [In] in Hn. bytes_of x.
    destruct s3.
    + destruct Hn as [<-|Hn]; [all_below Hq|]. destruct Hn as [<-|Hn]; [all_below Hq|].
      destruct Hn as [<-|Hn]; [all_below Hq|]. destruct Hn as [<-|Hn]; [all_below Hq|]. contradiction.
    + destruct Hn as [<-|Hn]; [specialize (H8 eq_refl); discriminate|]. destruct Hn as [<-|Hn]; [all_below Hq|].
      destruct Hn as [<-|Hn]; [all_below Hq|]. destruct Hn as [<-|Hn]; [all_below Hq|]. contradiction.
Qed.
