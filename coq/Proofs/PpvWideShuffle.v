(** C12 (audit finding F3): the portable lane-word shuffle theorems restated over the three
    method names only. [g32_lane_shuffle] / [spec_shuffle] (Proofs/PpvGenericWide.v) send every
    [k] outside {1230, 2301, 3012} to the 3012 form on BOTH sides, so the pinned
    [C12g_portable_u32x4_shuffle_is_perm] "holds for all k"; here [k] ranges over the names,
    and the statement is also given directly over the model's methods. *)
From Coq Require Import NArith List Bool Arith Lia.
From CC Require Import Lib.Words Lib.Bytes Lib.ListX Model.PpvSoft Model.PpvGeneric.
From CC Require Spec.Lanes.
From CC Require Import Proofs.PpvGenericLib Proofs.PpvGenericOps Proofs.PpvSoftFwd Proofs.PpvGenericWide.
Import ListNotations.
Local Open Scope N_scope.

Theorem g32_lane_shuffle_named p k v : In k [1230; 2301; 3012] -> wfv U32x4 v ->
  g32_lane_shuffle p k v = Ok (spec_shuffle k v) /\
  (k = 1230 -> spec_shuffle k v = Lanes.shuffle1230 v) /\
  (k = 2301 -> spec_shuffle k v = Lanes.shuffle2301 v) /\
  (k = 3012 -> spec_shuffle k v = Lanes.shuffle3012 v).
Proof.
  intros Hk Hv. split; [now apply g32_lane_shuffle_perm|].
  repeat split; intros ->; reflexivity.
Qed.

(** the same without the dispatch wrappers: Words4 / LaneWords4 of u32x4_generic *)
Theorem g32_shuffles_are_perms p v : wfv U32x4 v ->
  g32_shuffle_lane_words1230 v = Lanes.shuffle1230 v /\
  g32_shuffle_lane_words2301 p v = Ok (Lanes.shuffle2301 v) /\
  g32_shuffle_lane_words3012 v = Lanes.shuffle3012 v /\
  g32_shuffle1230 v = Lanes.shuffle1230 v /\
  g32_shuffle2301 p v = Ok (Lanes.shuffle2301 v) /\
  g32_shuffle3012 v = Lanes.shuffle3012 v.
Proof.
  intros Hv.
  pose proof (g32_lane_shuffle_perm p 1230 v Hv) as H1.
  pose proof (g32_lane_shuffle_perm p 2301 v Hv) as H2.
  pose proof (g32_lane_shuffle_perm p 3012 v Hv) as H3.
  unfold g32_lane_shuffle, spec_shuffle in H1, H2, H3. cbn [N.eqb Pos.eqb] in H1, H2, H3.
  injection H1 as H1. injection H3 as H3. repeat split; assumption.
Qed.

(** LaneWords4 of u32x4x2 / u32x4x4 (portable), over the three names *)
Theorem wide_lane_shuffle_named p n k v : (n = 2 \/ n = 4)%nat -> In k [1230; 2301; 3012] -> wide U32x4 n v ->
  exists r, xn_unop' n (g32_lane_shuffle p k) v = Ok r /\
            concat r = Lanes.per_lane4 (spec_shuffle k) (concat v) /\
            (k = 1230 -> concat r = Lanes.per_lane4 (@Lanes.shuffle1230 N) (concat v)) /\
            (k = 2301 -> concat r = Lanes.per_lane4 (@Lanes.shuffle2301 N) (concat v)) /\
            (k = 3012 -> concat r = Lanes.per_lane4 (@Lanes.shuffle3012 N) (concat v)).
Proof.
  intros Hn Hk Hv. destruct (wide_lane_shuffle_perm p n k v Hn Hv) as (r & E & C).
  exists r. split; [exact E|]. split; [exact C|]. repeat split; intros ->; exact C.
Qed.
