(** Histories of the ChaCha stream wrapper against the abstract position machine. *)
From Coq Require Import NArith ZArith List Lia Arith Bool ZifyBool ZifyN ZifyNat.
From CC Require Import Lib.Words Lib.Bytes Lib.ListX Model.ChaChaGuts Model.ChaChaStream.
From CC Require Import Proofs.ChaChaStreamCtr Proofs.ChaChaStreamLoops Proofs.ChaChaStreamBody
  Proofs.ChaChaStreamSpec Proofs.ChaChaStreamSeek Proofs.ChaChaStreamInv.
Import ListNotations.
Ltac Zify.zify_post_hook ::= Z.div_mod_to_equations.
Local Open Scope N_scope.

(** * the abstract machine: a byte position, nothing else *)
Section Abstract.
  Variable blk : chacha -> list N.
  Variable is12 : bool.
  Variable s0 : chacha.

  (** total length of the key stream in bytes: 2^38 (12-byte nonce) or 2^70 *)
  Definition stream_bytes : N := 64 * nblocks is12.

  Definition seek_in_rangeb (p : Z) : bool :=
    ((0 <=? p) && (p <? 2 ^ 64) && (negb is12 || (p <=? 2 ^ 38)))%Z.

  Definition spec_step (pos : N) (o : op) : N * obs :=
    match o with
    | OSeek p => if seek_in_rangeb p then (Z.to_N p, ObsSeek ROk) else (pos, ObsSeek RErr)
    | OApply data =>
        let n := N.of_nat (length data) in
        if pos + n <=? stream_bytes
        then (pos + n, ObsApply ROk (xor_bytes data (keystream blk is12 s0 pos (length data))))
        else (pos, ObsApply RErr data)
    | OPos tmax => (pos, ObsPos (if (Z.of_N pos <=? tmax)%Z then Some (Z.of_N pos) else None))
    end.

  Fixpoint spec_run (pos : N) (ops : list op) : list obs :=
    match ops with
    | [] => []
    | o :: r => let '(pos', ob) := spec_step pos o in ob :: spec_run pos' r
    end.

  Fixpoint spec_pos (pos : N) (ops : list op) : N :=
    match ops with
    | [] => pos
    | o :: r => spec_pos (fst (spec_step pos o)) r
    end.

  Lemma spec_run_app a : forall pos b, spec_run pos (a ++ b) = spec_run pos a ++ spec_run (spec_pos pos a) b.
  Proof.
    induction a as [|o a IH]; intros pos b; [reflexivity|].
    cbn [app spec_run spec_pos]. destruct (spec_step pos o) as [pos' ob]. cbn [fst app]. rewrite IH. reflexivity.
  Qed.

  Lemma spec_pos_app a : forall pos b, spec_pos pos (a ++ b) = spec_pos (spec_pos pos a) b.
  Proof. induction a as [|o a IH]; intros pos b; [reflexivity|]. cbn [app spec_pos]. apply IH. Qed.

  (** slices have a [usize] length *)
  Definition op_ok (o : op) : Prop :=
    match o with OApply data => N.of_nat (length data) < 2 ^ 64 | _ => True end.

  Definition obs_panics (o : obs) : bool :=
    match o with ObsSeek RPanic | ObsApply RPanic _ => true | _ => false end.

  Lemma spec_run_no_panic ops : forall pos, existsb obs_panics (spec_run pos ops) = false.
  Proof.
    induction ops as [|o r IH]; intros pos; [reflexivity|].
    cbn [spec_run]. destruct (spec_step pos o) as [pos' ob] eqn:E. cbn [existsb]. rewrite IH, orb_false_r.
    destruct o; cbn [spec_step] in E.
    - destruct (seek_in_rangeb pos0); injection E as _ <-; reflexivity.
    - destruct (pos + N.of_nat (length data) <=? stream_bytes); injection E as _ <-; reflexivity.
    - injection E as _ <-. reflexivity.
  Qed.
End Abstract.

Lemma seek_in_rangeb_spec is12 p : seek_in_rangeb is12 p = true <-> seek_in_range is12 p.
Proof.
  unfold seek_in_rangeb, seek_in_range. destruct is12; cbn [negb orb].
  - split; [intros H; split; [lia | split; [lia | intros _; lia]] | intros (A & B & C); specialize (C eq_refl); lia].
  - split; [intros H; split; [lia | split; [lia | discriminate]] | intros (A & B & C); lia].
Qed.

Section Hist.
  Variable refill1 : chacha -> list N * chacha.
  Variable refill4 : chacha -> list N * chacha.
  Variable blk : chacha -> list N.
  Variable is12 : bool.
  Variable s0 : chacha.
  Hypothesis s0_len : length (cd s0) = 4%nat.
  (** the producers are specified on the states of the stream only ([stA s0 q]: nothing else is ever passed to them) *)
  Hypothesis blk_len : forall q, length (blk (stA s0 q)) = 64%nat.
  Hypothesis refill1_spec : forall q, refill1 (stA s0 q) = (blk (stA s0 q), stA s0 (q + 1)).
  Hypothesis refill4_spec : forall q,
    refill4 (stA s0 q) = (blk (stA s0 q) ++ blk (stA s0 (q + 1)) ++ blk (stA s0 (q + 2)) ++ blk (stA s0 (q + 3)),
                          stA s0 (q + 4)).
  Hypothesis s0_w1 : nth 1 (cd s0) 0 < 2 ^ 32.
  Set Default Proof Using "All".
  Local Notation "'!' x" := (x refill1 refill4 blk is12 s0 s0_len blk_len refill1_spec refill4_spec s0_w1) (at level 9, x at level 0).
  Notation Inv := (Inv blk is12 s0).
  Notation step := (step refill1 refill4 is12).
  Notation run := (run refill1 refill4 is12).

  (** one operation: the observation is the abstract one and the invariant is kept *)
  Lemma step_correct b pos o : Inv b pos -> op_ok o ->
    exists b', step b o = (b', snd (spec_step blk is12 s0 pos o)) /\ Inv b' (fst (spec_step blk is12 s0 pos o)).
  Proof.
    intros HI Hok. destruct o as [p|data|tmax]; cbn [ChaChaStream.step spec_step].
    - destruct (seek_in_rangeb is12 p) eqn:Er.
      + apply seek_in_rangeb_spec in Er. destruct (! inv_seek b pos p HI Er) as (b' & Heq & HI').
        rewrite Heq. exists b'. split; [reflexivity | exact HI'].
      + destruct (try_seek_ok_iff is12 b p) as [Hiff Hnp].
        pose proof (try_seek_err_unchanged is12 b p) as Hun.
        destruct (try_seek is12 b p) as [r b'] eqn:Ets. cbn [fst snd] in *.
        assert (Hr : r = RErr).
        { destruct r; [|reflexivity|congruence]. exfalso.
          assert (seek_in_rangeb is12 p = true) by (apply seek_in_rangeb_spec, Hiff; reflexivity). congruence. }
        subst r. rewrite (Hun ltac:(discriminate)). exists b. split; [reflexivity | exact HI].
    - cbn [op_ok] in Hok. unfold stream_bytes.
      destruct (N.leb_spec (pos + N.of_nat (length data)) (64 * nblocks is12)) as [Hfit|Hover].
      + destruct (! try_apply_ok b pos data HI Hok Hfit) as (b' & Heq & HI').
        rewrite Heq. exists b'. split; [reflexivity | exact HI'].
      + destruct (! try_apply_err b pos data HI Hok Hover) as (b' & Heq & HI').
        rewrite Heq. exists b'. split; [reflexivity | exact HI'].
    - exists b. destruct (! try_current_pos_spec b pos tmax HI) as [Heq _]. rewrite Heq.
      split; [reflexivity | exact HI].
  Qed.

  (** every finite history from every state satisfying the invariant *)
  Theorem run_correct ops : forall b pos, Inv b pos -> Forall op_ok ops ->
    run b ops = spec_run blk is12 s0 pos ops.
  Proof.
    induction ops as [|o r IH]; intros b pos HI Hok; [reflexivity|].
    inversion Hok as [|? ? Ho Hr]; subst.
    destruct (step_correct b pos o HI Ho) as (b' & Heq & HI').
    cbn [ChaChaStream.run spec_run]. rewrite Heq.
    destruct (spec_step blk is12 s0 pos o) as [pos' ob]. cbn [fst snd] in *.
    rewrite (IH b' pos' HI' Hr). reflexivity.
  Qed.

  (** from a new buffer *)
  Theorem history_correct ops : wf_init is12 s0 -> Forall op_ok ops ->
    run (new_buffer is12 s0) ops = spec_run blk is12 s0 0 ops
    /\ existsb obs_panics (run (new_buffer is12 s0) ops) = false.
  Proof.
    intros Hwf Hok. pose proof (run_correct ops _ 0 (! inv_init Hwf) Hok) as H.
    split; [exact H|]. rewrite H. apply spec_run_no_panic.
  Qed.

  Notation R := (run (new_buffer is12 s0)).
  Notation SR := (spec_run blk is12 s0).
  Notation SP := (spec_pos blk is12 s0).
  Notation limit := (stream_bytes is12).

  Lemma Forall_app_inv {A} (P : A -> Prop) a b : Forall P (a ++ b) -> Forall P a /\ Forall P b.
  Proof. intros H. apply Forall_app in H. exact H. Qed.

  (** a history splits at any point: the rest runs as from the abstract position reached *)
  Lemma R_app pre post : wf_init is12 s0 -> Forall op_ok (pre ++ post) ->
    R (pre ++ post) = R pre ++ SR (SP 0 pre) post.
  Proof.
    intros Hwf Hok. destruct (Forall_app_inv _ _ _ Hok) as [Hpre _].
    rewrite (proj1 (history_correct _ Hwf Hok)), (proj1 (history_correct _ Hwf Hpre)).
    apply spec_run_app.
  Qed.

  (** * re-chunking *)
  Lemma rechunk_invariant pre d1 d2 post : wf_init is12 s0 ->
    Forall op_ok pre -> Forall op_ok post ->
    N.of_nat (length d1 + length d2) < 2 ^ 64 ->
    SP 0 pre + N.of_nat (length d1 + length d2) <= limit ->
    exists o1 o2 tl,
      R (pre ++ OApply d1 :: OApply d2 :: post) = R pre ++ ObsApply ROk o1 :: ObsApply ROk o2 :: tl /\
      R (pre ++ OApply (d1 ++ d2) :: post) = R pre ++ ObsApply ROk (o1 ++ o2) :: tl.
  Proof.
    intros Hwf Hpre Hpost Hn Hfit. set (p := SP 0 pre) in *.
    exists (xor_bytes d1 (keystream blk is12 s0 p (length d1))),
           (xor_bytes d2 (keystream blk is12 s0 (p + N.of_nat (length d1)) (length d2))),
           (SR (p + N.of_nat (length d1) + N.of_nat (length d2)) post).
    split.
    - rewrite R_app; [|exact Hwf|].
      2:{ apply Forall_app. split; [exact Hpre|]. constructor; [cbn; lia|]. constructor; [cbn; lia | exact Hpost]. }
      fold p. f_equal. cbn [spec_run spec_step].
      replace (p + N.of_nat (length d1) <=? limit) with true by lia.
      replace (p + N.of_nat (length d1) + N.of_nat (length d2) <=? limit) with true by lia.
      reflexivity.
    - rewrite R_app; [|exact Hwf|].
      2:{ apply Forall_app. split; [exact Hpre|]. constructor; [cbn; rewrite app_length; lia | exact Hpost]. }
      fold p. f_equal. cbn [spec_run spec_step]. rewrite app_length.
      replace (p + N.of_nat (length d1 + length d2) <=? limit) with true by lia.
      rewrite (! xor_keystream_app).
      replace (p + N.of_nat (length d1 + length d2)) with (p + N.of_nat (length d1) + N.of_nat (length d2)) by lia.
      reflexivity.
  Qed.

  (** * re-seeking: what follows an accepted seek does not depend on what came before *)
  Lemma reseek_invariant pre p post : wf_init is12 s0 ->
    Forall op_ok pre -> Forall op_ok post -> seek_in_range is12 p ->
    R (pre ++ OSeek p :: post) = R pre ++ R (OSeek p :: post).
  Proof.
    intros Hwf Hpre Hpost Hr. apply seek_in_rangeb_spec in Hr.
    rewrite R_app; [|exact Hwf | apply Forall_app; split; [exact Hpre | constructor; [exact I | exact Hpost]]].
    f_equal. rewrite (proj1 (history_correct (OSeek p :: post) Hwf ltac:(constructor; [exact I | exact Hpost]))).
    cbn [spec_run spec_step]. rewrite Hr. reflexivity.
  Qed.

  (** * applying the key stream twice at the same position restores the data *)
  Lemma xor_bytes_twice d : forall k, length k = length d -> xor_bytes (xor_bytes d k) k = d.
  Proof.
    induction d as [|x d IH]; intros [|y k] H; cbn [length] in H; try lia; [reflexivity|].
    cbn [xor_bytes]. rewrite lxor_cancel_r, IH by lia. reflexivity.
  Qed.

  Lemma apply_twice_restores pre d : wf_init is12 s0 ->
    Forall op_ok pre -> N.of_nat (length d) < 2 ^ 64 ->
    SP 0 pre + N.of_nat (length d) <= limit -> SP 0 pre < 2 ^ 64 ->
    exists o,
      R (pre ++ [OApply d; OSeek (Z.of_N (SP 0 pre)); OApply o])
      = R pre ++ [ObsApply ROk o; ObsSeek ROk; ObsApply ROk d].
  Proof.
    intros Hwf Hpre Hn Hfit H64. set (p := SP 0 pre) in *.
    set (k := keystream blk is12 s0 p (length d)).
    assert (Hlk : length k = length d) by apply (keystream_length blk is12 s0 blk_len).
    assert (Hlo : length (xor_bytes d k) = length d) by (rewrite xor_bytes_length; lia).
    exists (xor_bytes d k).
    rewrite R_app; [|exact Hwf|].
    2:{ apply Forall_app. split; [exact Hpre|]. repeat constructor; cbn; lia. }
    fold p. f_equal. cbn [spec_run spec_step].
    replace (p + N.of_nat (length d) <=? limit) with true by lia.
    assert (Hr : seek_in_rangeb is12 (Z.of_N p) = true).
    { apply seek_in_rangeb_spec. unfold seek_in_range, stream_bytes, nblocks in *. destruct is12; lia. }
    rewrite Hr, N2Z.id, Hlo.
    replace (p + N.of_nat (length d) <=? limit) with true by lia.
    fold k. rewrite xor_bytes_twice by exact Hlk. reflexivity.
  Qed.
End Hist.
