(** Skein-256/512/1024 with any output size: the generic hasher record of Model/Hasher.v
    (lazy buffering) built from the REAL functions of Model/Skein.v ([default],
    [process_block] with Threefish, [finalize_into_dirty] with the output loop), shown
    (a) [hasher_ok], (b) to have the concrete model's [digest] as its one-shot function,
    hence (c) every history of operations returns the SPECIFIED digests (Spec/Skein.v).

    Route: the record is built from the concrete functions in the release profile, where
    nothing panics in [default]/[process_block] ([u64] arithmetic wraps), so the
    [res]-typed functions are total and can be used as [h_init], [h_step]; [h_fin] :=
    [finalize_into_dirty] (a panic, only possible through [pad_with().unwrap()], is
    rendered as [[]]).  [hasher_ok] is proved for it directly: the finalisation reads the
    buffer only through [pad_with::<ZeroPadding>] and the position.  Below 2^64 bytes the
    debug profile gives the same digests (C05), so the capstone covers both. *)
From Coq Require Import NArith List Arith Lia Bool.
From CC Require Import Lib.Words Lib.Bytes Lib.ListX Model.BlockBuffer Model.Hasher
  Proofs.BlockBufferLazy Proofs.BlockBufferEager Proofs.Hasher Proofs.HasherFin
  Proofs.HasherComposeLib.
From CC Require Model.Threefish Model.Skein Spec.Skein Proofs.SkeinProps.
Import ListNotations.
Module MS := CC.Model.Skein.
Module SS := CC.Spec.Skein.
Local Open Scope N_scope.

Definition skein_or_nil (o : MS.res (list N)) : list N := match o with MS.Ok d => d | MS.Panic => [] end.

Section Real.
Variable nu : bool.            (* threefish-cipher feature no_unroll *)
Variable v : MS.variant.
Variable n_out : nat.          (* output bytes *)

(** in the release profile [process_block] and [default] cannot panic *)
Definition skein_pb (s : MS.state) (blk : list N) (add : N) : MS.state :=
  match MS.process_block MS.Release nu v s blk add with MS.Ok s' => s' | MS.Panic => s end.

Lemma skein_pb_ok s blk add : MS.process_block MS.Release nu v s blk add = MS.Ok (skein_pb s blk add).
Proof.
  unfold skein_pb, MS.process_block, MS.add_u64.
  destruct (MS.two64 <=? MS.st_t0 s + add); reflexivity.
Qed.

Definition skein_init : MS.state :=
  match MS.default MS.Release nu v (N.of_nat n_out) with
  | MS.Ok h => MS.h_state h
  | MS.Panic => MS.St 0 0 []
  end.

Lemma skein_default_ok :
  MS.default MS.Release nu v (N.of_nat n_out) = MS.Ok (MS.Hs skein_init (bb_new (MS.v_bytes v))).
Proof.
  unfold skein_init, MS.default, MS.mul_u64.
  destruct (MS.two64 <=? N.of_nat n_out * 8); cbn [MS.bind]; rewrite skein_pb_ok; reflexivity.
Qed.

Definition skein_step (s : MS.state) (blk : list N) : MS.state := skein_pb s blk (MS.v_bits v / 8).

Lemma skein_process_blocks_ok blocks : forall s,
  MS.process_blocks MS.Release nu v s blocks = MS.Ok (fold_left skein_step blocks s).
Proof.
  induction blocks as [|b r IH]; intros s; cbn [MS.process_blocks fold_left]; [reflexivity|].
  rewrite skein_pb_ok. cbn [MS.bind]. apply IH.
Qed.

(** [finalize_into_dirty], digest part *)
Definition skein_fin_real (s : MS.state) (b : bb) : list N :=
  match MS.finalize_into_dirty MS.Release nu v (MS.Hs s b) n_out with
  | MS.Ok r => fst r
  | MS.Panic => []
  end.

Definition skein_real : hasher MS.state (list N) :=
  Hasher (MS.v_bytes v) true skein_init (fun s _ => s) skein_step skein_fin_real.

Lemma skein_fin_real_ok : fin_ok skein_fin_real.
Proof.
  exact (fin_ok_pad_with_zero
    (fun (s : MS.state) (_ pos : nat) (r : option (bb * list N)) =>
       match
         MS.bind
           (match r with
            | None => MS.Panic
            | Some (buffer, final_block) =>
                MS.bind (MS.process_block MS.Release nu v
                           (MS.St (MS.st_t0 s) (N.lor (MS.st_t1 s) MS.T1_FLAG_FINAL) (MS.st_x s))
                           final_block (N.of_nat pos))
                        (fun s => MS.Ok (s, buffer))
            end)
           (fun sb =>
              MS.bind (MS.output_loop MS.Release nu v (MS.st_x (fst sb)) (N.to_nat (MS.v_bits v / 8)) n_out
                         (seq 0 ((n_out + N.to_nat (MS.v_bits v / 8) - 1) / N.to_nat (MS.v_bits v / 8))))
                      (fun out => MS.Ok (out, MS.Hs (fst sb) (snd sb))))
       with
       | MS.Ok r => fst r
       | MS.Panic => []
       end)).
Qed.

(** (a) *)
Lemma skein_real_ok : (0 < MS.v_bytes v)%nat -> hasher_ok skein_real.
Proof. intros Hs. apply hasher_ok_id_pre; [exact Hs|apply skein_fin_real_ok]. Qed.

(** (b) the one-shot function of the record IS [Digest::digest] of the concrete model in
    the release profile, for every message *)
Theorem skein_real_oneshot msg :
  h_oneshot skein_real msg = skein_or_nil (MS.digest MS.Release nu v n_out msg).
Proof.
  unfold h_oneshot, h_finalize, h_update, h_new, skein_real.
  cbn [h_size h_lazy h_init h_pre h_step h_fin i_st i_buf bb_input fst snd].
  unfold MS.digest. rewrite skein_default_ok. cbn [MS.bind].
  unfold MS.update. cbn [MS.h_buffer MS.h_state].
  destruct (input_lazy (bb_new (MS.v_bytes v)) msg) as [b blocks]. cbn [fst snd].
  rewrite skein_process_blocks_ok. cbn [MS.bind].
  unfold skein_fin_real.
  destruct (MS.finalize_into_dirty MS.Release nu v (MS.Hs (fold_left skein_step blocks skein_init) b) n_out);
    reflexivity.
Qed.
(** more than (b): the record and the concrete model (release profile) move in lock-step
    from EVERY state *)
Definition skein_to_model (i : inst MS.state) : MS.hasher := MS.Hs (i_st i) (i_buf i).

Lemma skein_real_new_sim :
  MS.default MS.Release nu v (N.of_nat n_out) = MS.Ok (skein_to_model (h_new skein_real)).
Proof. exact skein_default_ok. Qed.

Lemma skein_real_update_sim i d :
  MS.update MS.Release nu v (skein_to_model i) d = MS.Ok (skein_to_model (h_update skein_real i d)).
Proof.
  destruct i as [s b].
  unfold h_update, skein_real, skein_to_model, MS.update.
  cbn [h_size h_lazy h_init h_pre h_step h_fin i_st i_buf bb_input fst snd MS.h_buffer MS.h_state].
  destruct (input_lazy b d) as [b1 blocks]. cbn [fst snd].
  rewrite skein_process_blocks_ok. reflexivity.
Qed.

Lemma skein_real_finalize_sim i :
  h_finalize skein_real i
  = match MS.finalize_into_dirty MS.Release nu v (skein_to_model i) n_out with
    | MS.Ok r => fst r | MS.Panic => [] end.
Proof. reflexivity. Qed.
End Real.

(** the bound of the conformance theorem C05: bytes, fewer than 2^64 of them *)
Definition skein_bound (m : list N) : Prop := Forall is_byte m /\ N.of_nat (length m) < 2 ^ 64.

Definition skein_variant_params (v : MS.variant) (p : SS.sparams) : Prop :=
  (v = MS.skein256 /\ p = SS.skein256p) \/ (v = MS.skein512 /\ p = SS.skein512p)
  \/ (v = MS.skein1024 /\ p = SS.skein1024p).

Lemma skein_variant_bytes_pos v p : skein_variant_params v p -> (0 < MS.v_bytes v)%nat.
Proof. intros [[-> _]|[[-> _]|[-> _]]]; cbn; lia. Qed.

Section Spec.
Variable nu : bool.
Variables (v : MS.variant) (p : SS.sparams) (n : nat).
Hypothesis Hv : skein_variant_params v p.
Hypothesis Hn1 : (1 <= n)%nat.
Hypothesis Hn2 : 8 * N.of_nat n < 2 ^ 64.

Lemma skein_real_spec m : skein_bound m -> h_oneshot (skein_real nu v n) m = SS.skein p n m.
Proof.
  intros [Hb Hl]. rewrite skein_real_oneshot.
  now rewrite (SkeinProps.skein_digest_eq_spec_explicit MS.Release nu v p Hv m n Hb Hn1 Hn2 Hl).
Qed.

(** both build profiles return the digest of the record below the bound *)
Lemma skein_real_oneshot_any_profile prof m : skein_bound m ->
  MS.digest prof nu v n m = MS.Ok (h_oneshot (skein_real nu v n) m).
Proof.
  intros Hm. rewrite (skein_real_spec m Hm). destruct Hm as [Hb Hl].
  exact (SkeinProps.skein_digest_eq_spec_explicit prof nu v p Hv m n Hb Hn1 Hn2 Hl).
Qed.

(** (c) capstone: Skein-256/512/1024, any output size 1 <= n < 2^61 bytes, either unroll
    setting: every history that hashes only byte strings shorter than 2^64 bytes returns
    the Skein 1.3 digests of the absorbed bytes *)
Theorem skein_history ops : ops_bounded skein_bound ops ->
  snd (run (skein_real nu v n) [Some (h_new (skein_real nu v n))] ops)
  = snd (srun (SS.skein p n) [Some []] ops).
Proof.
  apply compose_history; [apply skein_real_ok, (skein_variant_bytes_pos v p Hv)|exact skein_real_spec].
Qed.

Theorem skein_history_update_bytes ops :
  Forall is_byte (update_bytes ops) -> N.of_nat (length (update_bytes ops)) < 2 ^ 64 ->
  snd (run (skein_real nu v n) [Some (h_new (skein_real nu v n))] ops)
  = snd (srun (SS.skein p n) [Some []] ops).
Proof.
  intros Hb Hl. apply skein_history.
  apply (ops_bounded_of_update_bytes _ is_byte); [exact Hb|].
  intros m Hm Hq. split; [exact Hq|lia].
Qed.

Theorem skein_chunks pieces : skein_bound (concat pieces) ->
  h_finalize (skein_real nu v n) (fold_left (h_update (skein_real nu v n)) pieces (h_new (skein_real nu v n)))
  = SS.skein p n (concat pieces).
Proof.
  apply compose_chunks; [apply skein_real_ok, (skein_variant_bytes_pos v p Hv)|exact skein_real_spec].
Qed.
End Spec.

(** the instances the crate's tests and the harness use *)
Lemma vp256 : skein_variant_params MS.skein256 SS.skein256p. Proof. left. split; reflexivity. Qed.
Lemma vp512 : skein_variant_params MS.skein512 SS.skein512p. Proof. right. left. split; reflexivity. Qed.
Lemma vp1024 : skein_variant_params MS.skein1024 SS.skein1024p. Proof. right. right. split; reflexivity. Qed.

Lemma skein_small_out n : (n <= 1024)%nat -> 8 * N.of_nat n < 2 ^ 64.
Proof.
  intros H. assert (2 ^ 14 < 2 ^ 64) by (apply N.pow_lt_mono_r; lia). change (2 ^ 14) with 16384 in *. lia.
Qed.

Theorem skein256_32_history nu ops : ops_bounded skein_bound ops ->
  snd (run (skein_real nu MS.skein256 32) [Some (h_new (skein_real nu MS.skein256 32))] ops)
  = snd (srun (SS.skein SS.skein256p 32) [Some []] ops).
Proof. apply (skein_history nu _ _ 32 vp256); [lia|apply skein_small_out; lia]. Qed.
Theorem skein512_64_history nu ops : ops_bounded skein_bound ops ->
  snd (run (skein_real nu MS.skein512 64) [Some (h_new (skein_real nu MS.skein512 64))] ops)
  = snd (srun (SS.skein SS.skein512p 64) [Some []] ops).
Proof. apply (skein_history nu _ _ 64 vp512); [lia|apply skein_small_out; lia]. Qed.
Theorem skein1024_128_history nu ops : ops_bounded skein_bound ops ->
  snd (run (skein_real nu MS.skein1024 128) [Some (h_new (skein_real nu MS.skein1024 128))] ops)
  = snd (srun (SS.skein SS.skein1024p 128) [Some []] ops).
Proof. apply (skein_history nu _ _ 128 vp1024); [lia|apply skein_small_out; lia]. Qed.

(** * non-vacuity (lazy buffering: slot 1 finalises with one block compressed and a
    partial block pending; a full pending block in [skein_ex_ops_full]) *)
Definition skein_ex_ops : list op :=
  [Update 0 [1; 2; 3]; Clone 0; FinalizeReset 0; Update 1 (repeat 7 70); Update 0 [9]; Finalize 1; Finalize 0].
Definition skein_ex_ops_full : list op :=
  [Update 0 (repeat 5 20); Clone 0; Update 0 (repeat 6 12); Update 1 (repeat 8 44); FinalizeReset 0; Finalize 1].

Example skein256_history_example :
  snd (run (skein_real false MS.skein256 32) [Some (h_new (skein_real false MS.skein256 32))] skein_ex_ops)
  = [(0%nat, SS.skein SS.skein256p 32 [1; 2; 3]);
     (1%nat, SS.skein SS.skein256p 32 ([1; 2; 3] ++ repeat 7 70));
     (0%nat, SS.skein SS.skein256p 32 [9])].
Proof. vm_compute. reflexivity. Qed.

Example skein256_history_example_full_block :
  snd (run (skein_real false MS.skein256 32) [Some (h_new (skein_real false MS.skein256 32))] skein_ex_ops_full)
  = [(0%nat, SS.skein SS.skein256p 32 (repeat 5 20 ++ repeat 6 12));
     (1%nat, SS.skein SS.skein256p 32 (repeat 5 20 ++ repeat 8 44))].
Proof. vm_compute. reflexivity. Qed.

Example skein512_history_example :
  snd (run (skein_real false MS.skein512 64) [Some (h_new (skein_real false MS.skein512 64))] skein_ex_ops)
  = [(0%nat, SS.skein SS.skein512p 64 [1; 2; 3]);
     (1%nat, SS.skein SS.skein512p 64 ([1; 2; 3] ++ repeat 7 70));
     (0%nat, SS.skein SS.skein512p 64 [9])].
Proof. vm_compute. reflexivity. Qed.

Example skein_example_bounded : ops_bounded skein_bound skein_ex_ops.
Proof.
  apply (ops_bounded_of_update_bytes _ is_byte).
  - cbn [skein_ex_ops update_bytes repeat app]. repeat constructor.
  - intros m Hm Hq. split; [exact Hq|]. cbn [skein_ex_ops update_bytes repeat app length] in Hm.
    assert (2 ^ 10 < 2 ^ 64) by (apply N.pow_lt_mono_r; lia). change (2 ^ 10) with 1024 in *. lia.
Qed.
