(** Work package audit-leftovers, item 4 (audit C15-F1).

    guts.rs [set_stream_param]/[get_stream_param] compute the word indices as
    [p1 = (param << 1) as usize], [p0 = ((param << 1) | 1) as usize] on [param : u32]
    and index the 4-word array [d] with them.  Proofs/ChaChaGutsParams.v has this exact
    computation ([set_stream_param_u32], [get_stream_param_u32]; [None] = the index panic)
    and [C15_param_index_agrees] for [param < 2].  Here: the EXACT behaviour on the whole
    u32 range.  The shift drops the top bit, so the functions only see [param mod 2^31]:

      [*_u32 s p] = [* s (p mod 2^31)]              (every p)
      p = 2^31, 2^31 + 1     : behave as parameter 0, 1 (no panic)
      every other 2 <= p < 2^32 : index out of bounds ([None]) *)
From Coq Require Import ZArith NArith List Lia Arith Bool ZifyBool ZifyN.
From CC Require Import Lib.Words Lib.Bytes Lib.ListX Model.ChaChaGuts Proofs.ChaChaGutsParams.
Import ListNotations.
Local Open Scope N_scope.
Ltac Zify.zify_post_hook ::= Z.div_mod_to_equations.

Lemma param_index_mod p : param_index p = 2 * (p mod 2 ^ 31).
Proof.
  unfold param_index. rewrite wrap_mod, N.shiftl_mul_pow2.
  change (2 ^ 1) with 2. change (2 ^ 32) with (2 * 2 ^ 31).
  rewrite (N.mul_comm p 2). apply N.mul_mod_distr_l; discriminate.
Qed.

Lemma lor_even_1 q : N.lor (2 * q) 1 = 2 * q + 1.
Proof. destruct q; reflexivity. Qed.

(** the exact index computation only sees [param mod 2^31] *)
Theorem param_u32_exact s p v :
  set_stream_param_u32 s p v = set_stream_param s (p mod 2 ^ 31) v /\
  get_stream_param_u32 s p = get_stream_param s (p mod 2 ^ 31).
Proof.
  unfold set_stream_param_u32, get_stream_param_u32, set_stream_param, get_stream_param.
  cbv zeta. rewrite param_index_mod, lor_even_1.
  set (q := p mod 2 ^ 31).
  destruct (N.leb_spec 4 (2 * q + 1)) as [H4|H4]; destruct (N.leb_spec 2 q) as [H2|H2];
    try lia; split; reflexivity.
Qed.

(** 2^31 and 2^31 + 1 alias parameters 0 and 1 (no panic) *)
Theorem param_u32_alias_exact s p v :
  p = 2 ^ 31 \/ p = 2 ^ 31 + 1 ->
  set_stream_param_u32 s p v = set_stream_param s (p - 2 ^ 31) v /\
  get_stream_param_u32 s p = get_stream_param s (p - 2 ^ 31) /\
  p - 2 ^ 31 < 2.
Proof.
  intros Hp. destruct (param_u32_exact s p v) as [E1 E2]. rewrite E1, E2.
  destruct Hp as [-> | ->]; repeat split; reflexivity.
Qed.

(** every other u32 value >= 2 indexes [d] out of bounds: panic *)
Theorem param_u32_panics s p v :
  2 <= p -> p < 2 ^ 32 -> p <> 2 ^ 31 -> p <> 2 ^ 31 + 1 ->
  set_stream_param_u32 s p v = None /\ get_stream_param_u32 s p = None.
Proof.
  intros H2 H32 Ha Hb. destruct (param_u32_exact s p v) as [E1 E2]. rewrite E1, E2.
  unfold set_stream_param, get_stream_param.
  assert (Hq : 2 <= p mod 2 ^ 31).
  { change (2 ^ 32) with 4294967296 in *. change (2 ^ 31) with 2147483648 in *. lia. }
  destruct (N.leb_spec 2 (p mod 2 ^ 31)); [split; reflexivity|lia].
Qed.

(** the partition of the u32 range: no panic exactly on four values *)
Theorem param_u32_defined_iff s p v :
  p < 2 ^ 32 ->
  (set_stream_param_u32 s p v <> None <-> (p = 0 \/ p = 1 \/ p = 2 ^ 31 \/ p = 2 ^ 31 + 1)) /\
  (get_stream_param_u32 s p <> None <-> (p = 0 \/ p = 1 \/ p = 2 ^ 31 \/ p = 2 ^ 31 + 1)).
Proof.
  intros H32.
  assert (D : p < 2 \/ p = 2 ^ 31 \/ p = 2 ^ 31 + 1 \/ (2 <= p /\ p <> 2 ^ 31 /\ p <> 2 ^ 31 + 1)).
  { change (2 ^ 31) with 2147483648 in *. lia. }
  destruct D as [D | [D | [D | (D1 & D2 & D3)]]].
  - assert (E : p = 0 \/ p = 1) by lia.
    destruct E as [-> | ->]; split; (split; [intros _; auto|intros _; discriminate]).
  - subst p. split; (split; [intros _; auto|intros _; discriminate]).
  - subst p. split; (split; [intros _; auto|intros _; discriminate]).
  - destruct (param_u32_panics s p v D1 H32 D2 D3) as [-> ->].
    split; (split; [congruence|]); change (2 ^ 31) with 2147483648 in *; lia.
Qed.

(** on a concrete state: the aliases really write words 0,1 / 2,3 *)
Example param_u32_alias_example :
  let s := CC [1; 2; 3; 4] [5; 6; 7; 8] [9; 10; 11; 12] in
  set_stream_param_u32 s (2 ^ 31) 0x1111111122222222
    = Some (CC [1; 2; 3; 4] [5; 6; 7; 8] [0x22222222; 0x11111111; 11; 12]) /\
  set_stream_param_u32 s (2 ^ 31 + 1) 0x1111111122222222
    = Some (CC [1; 2; 3; 4] [5; 6; 7; 8] [9; 10; 0x22222222; 0x11111111]) /\
  get_stream_param_u32 s (2 ^ 31 + 1) = Some (12 * 2 ^ 32 + 11) /\
  set_stream_param_u32 s 2 0 = None /\ set_stream_param_u32 s (2 ^ 31 + 2) 0 = None /\
  get_stream_param_u32 s (2 ^ 31 - 1) = None /\ get_stream_param_u32 s (2 ^ 32 - 1) = None.
Proof. cbv zeta. repeat split; reflexivity. Qed.
