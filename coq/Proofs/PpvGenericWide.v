(** C12 portable part: operations by name, and their lifting to the 2- and 4-lane types through the soft.rs wrappers. *)
From Coq Require Import NArith List Bool Arith Lia.
From CC Require Import Lib.Words Lib.Bytes Lib.ListX Model.PpvSoft Model.PpvGeneric.
From CC Require Spec.Lanes.
From CC Require Import Proofs.PpvGenericLib Proofs.PpvGenericOps Proofs.PpvGenericSwap Proofs.PpvSoftFwd.
Import ListNotations.
Local Open Scope N_scope.


(** * the word-wise operations by name *)
Definition word_bin (w : N) (o : binop) : N -> N -> N :=
  match o with
  | OAdd => addw w | OXor => N.lxor | OAnd => N.land | OOr => N.lor
  | OAndnot => fun x y => N.land (notw w x) y
  end.
Definition spec_bin (w : N) (o : binop) : list N -> list N -> list N :=
  match o with
  | OAdd => Lanes.v_add w | OXor => Lanes.v_xor | OAnd => Lanes.v_and | OOr => Lanes.v_or
  | OAndnot => Lanes.v_andnot w
  end.
Lemma spec_bin_map2 w o : spec_bin w o = map2 (word_bin w o).
Proof. now destruct o. Qed.
Theorem g_binop_lanewise p t o a b : wfv t a -> wfv t b ->
  g_binop p t o a b = Ok (spec_bin (vt_w t) o a b).
Proof.
  intros Ha Hb. destruct o; cbn [g_binop spec_bin].
  - now apply g_add_lanewise. - now apply g_xor_lanewise. - now apply g_and_lanewise.
  - now apply g_or_lanewise. - now apply g_andnot_lanewise.
Qed.

(** unary word-wise operations: not, rotate right by a named amount, byte swap *)
Inductive wunop := WNot | WRotr (k : N) | WBswap.
Definition wun_ok (t : vt) (o : wunop) : Prop :=
  match o with WRotr k => In k (rot_amounts t) | _ => True end.
Definition g_wunop (p : profile) (t : vt) (o : wunop) (v : list N) : outcome (list N) :=
  match o with WNot => g_not p t v | WRotr k => g_rotr p t k v | WBswap => g_bswap p t v end.
Definition word_un (w : N) (o : wunop) : N -> N :=
  match o with WNot => notw w | WRotr k => rotrw w k | WBswap => Lanes.bswapw w end.
Definition spec_un (w : N) (o : wunop) : list N -> list N :=
  match o with WNot => Lanes.v_not w | WRotr k => Lanes.v_rotr w k | WBswap => Lanes.v_bswap w end.
Lemma spec_un_map w o : spec_un w o = map (word_un w o).
Proof. now destruct o. Qed.
Theorem g_wunop_lanewise p t o v : wun_ok t o -> wfv t v ->
  g_wunop p t o v = Ok (spec_un (vt_w t) o v).
Proof.
  intros Ho Hv. destruct o; cbn [g_wunop spec_un].
  - now apply g_not_lanewise. - now apply g_rotr_lanewise. - now apply g_bswap_lanewise.
Qed.

(** * wide types: x2 / x4 of the three 128-bit types; flat word view = concatenation of lanes *)
Definition wide (t : vt) (n : nat) (vs : list (list N)) : Prop := length vs = n /\ Forall (wfv t) vs.
Definition xn_unop' (n : nat) (f : list N -> outcome (list N)) (v : list (list N)) :=
  if (n =? 2)%nat then x2_unop [] f v else x4_unop [] f v.
Definition xn_binop' (n : nat) (f : list N -> list N -> outcome (list N)) (a b : list (list N)) :=
  if (n =? 2)%nat then x2_binop [] f a b else x4_binop [] f a b.

Lemma wide_same_len t n a b : wide t n a -> wide t n b ->
  Forall2 (fun x y : list N => length x = length y) a b.
Proof.
  intros [La Fa] [Lb Fb]. revert n b La Lb Fb.
  induction Fa as [|x a Hx Fa IH]; intros n b La Lb Fb.
  - destruct b; [constructor | cbn in *; lia].
  - destruct Fb as [|y b Hy Fb]; [cbn in *; lia|]. constructor.
    + destruct Hx as [-> _], Hy as [-> _]. reflexivity.
    + apply (IH (length a)); cbn in *; (reflexivity || lia || assumption).
Qed.

Theorem wide_binop_lanewise p t n o a b : (n = 2 \/ n = 4)%nat -> wide t n a -> wide t n b ->
  exists r, xn_binop' n (g_binop p t o) a b = Ok r /\
            concat r = spec_bin (vt_w t) o (concat a) (concat b).
Proof.
  intros Hn Ha Hb. exists (map2 (spec_bin (vt_w t) o) a b). split.
  - destruct Ha as [La Fa], Hb as [Lb Fb]. unfold xn_binop'. destruct Hn as [-> | ->]; cbn [Nat.eqb].
    + apply (x2_binop_forwards [] (wfv t)); auto. intros; now apply g_binop_lanewise.
    + apply (x4_binop_forwards [] (wfv t)); auto. intros; now apply g_binop_lanewise.
  - rewrite spec_bin_map2. symmetry. apply map2_concat. eapply wide_same_len; eassumption.
Qed.
Theorem wide_wunop_lanewise p t n o v : (n = 2 \/ n = 4)%nat -> wun_ok t o -> wide t n v ->
  exists r, xn_unop' n (g_wunop p t o) v = Ok r /\ concat r = spec_un (vt_w t) o (concat v).
Proof.
  intros Hn Ho [L F]. exists (map (spec_un (vt_w t) o) v). split.
  - unfold xn_unop'. destruct Hn as [-> | ->]; cbn [Nat.eqb].
    + apply (x2_unop_forwards [] (wfv t)); auto. intros; now apply g_wunop_lanewise.
    + apply (x4_unop_forwards [] (wfv t)); auto. intros; now apply g_wunop_lanewise.
  - rewrite spec_un_map. symmetry. apply concat_map.
Qed.

(** LaneWords4 of u32x4x2 / u32x4x4: the named permutation within every 4-word lane *)
Definition g32_lane_shuffle (p : profile) (k : N) (v : list N) : outcome (list N) :=
  if k =? 2301 then g32_shuffle_lane_words2301 p v
  else if k =? 1230 then Ok (g32_shuffle_lane_words1230 v)
  else Ok (g32_shuffle_lane_words3012 v).
Definition spec_shuffle (k : N) : list N -> list N :=
  if k =? 2301 then @Lanes.shuffle2301 N else if k =? 1230 then @Lanes.shuffle1230 N
  else @Lanes.shuffle3012 N.
Theorem g32_lane_shuffle_perm p k v : wfv U32x4 v -> g32_lane_shuffle p k v = Ok (spec_shuffle k v).
Proof.
  intros Hv. unfold g32_lane_shuffle, spec_shuffle.
  destruct (k =? 2301); [now apply g32_shuffle2301_perm|].
  destruct (k =? 1230); f_equal; [now apply g32_shuffle1230_perm | now apply g32_shuffle3012_perm].
Qed.
Theorem wide_lane_shuffle_perm p n k v : (n = 2 \/ n = 4)%nat -> wide U32x4 n v ->
  exists r, xn_unop' n (g32_lane_shuffle p k) v = Ok r /\
            concat r = Lanes.per_lane4 (spec_shuffle k) (concat v).
Proof.
  intros Hn [L F]. exists (map (spec_shuffle k) v). split.
  - unfold xn_unop'. destruct Hn as [-> | ->]; cbn [Nat.eqb].
    + apply (x2_unop_forwards [] (wfv U32x4)); auto. intros; now apply g32_lane_shuffle_perm.
    + apply (x4_unop_forwards [] (wfv U32x4)); auto. intros; now apply g32_lane_shuffle_perm.
  - symmetry. apply per_lane4_concat. eapply Forall_impl; [|exact F]. intros l [Hl _]; exact Hl.
Qed.

(** Swap64 of the wide types: every lane has its adjacent n-bit groups exchanged *)
Definition g_swap (p : profile) (t : vt) (n : N) : list N -> outcome (list N) :=
  match n with
  | 1 => g_swap1 p t | 2 => g_swap2 p t | 4 => g_swap4 p t | 8 => g_swap8 p t
  | 16 => g_swap16 p t | 32 => g_swap32 p t | _ => g_swap64 p t
  end.
Theorem g_swap_groups p t n v : In n [1; 2; 4; 8; 16; 32; 64] -> wfv t v ->
  is_group_swap n t v (g_swap p t n v).
Proof.
  intros Hn Hv. cbn [In] in Hn.
  destruct Hn as [<-|[<-|[<-|[<-|[<-|[<-|[<-|[]]]]]]]]; cbn [g_swap].
  - now apply g_swap1_groups. - now apply g_swap2_groups. - now apply g_swap4_groups.
  - now apply g_swap8_groups. - now apply g_swap16_groups. - now apply g_swap32_groups.
  - now apply g_swap64_groups.
Qed.
Definition group_swapped (n : N) (t : vt) (v r : list N) : Prop :=
  wfv t r /\ forall j, j < 128 -> N.testbit (lane t r) j = N.testbit (lane t v) (N.lxor j n).
Theorem wide_swap_groups p t m n v : (m = 2 \/ m = 4)%nat -> In n [1; 2; 4; 8; 16; 32; 64] -> wide t m v ->
  exists r, xn_unop' m (g_swap p t n) v = Ok r /\ Forall2 (group_swapped n t) v r.
Proof.
  intros Hm Hn [L F].
  assert (H : forall x, wfv t x -> exists y, g_swap p t n x = Ok y /\ group_swapped n t x y).
  { intros x Hx. destruct (g_swap_groups p t n x Hn Hx) as [r [E [W B]]]. exists r. split; [exact E | split; [exact W | exact B]]. }
  unfold xn_unop'. destruct Hm as [-> | ->]; cbn [Nat.eqb].
  - now apply (x2_unop_rel [] (wfv t)).
  - now apply (x4_unop_rel [] (wfv t)).
Qed.
