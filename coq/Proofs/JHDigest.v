(** JH: the digests of the four hashers are the specified ones, for every
    message shorter than 2^61 bytes, fed in any number of update calls. *)
From Coq Require Import NArith List Arith Bool Lia.
From CC Require Import Lib.Words Lib.Bytes Lib.ListX Model.BlockBuffer Model.JH.
From CC Require Spec.JH.
From CC Require Import Proofs.JHWf Proofs.JHF8 Proofs.JHTables Proofs.JHPad.
Import ListNotations.
Local Open Scope N_scope.

Definition block_ok (b : list N) : Prop := length b = 64%nat /\ Forall is_byte b.

(** folding the implementation's compression function = folding F8 *)
Lemma fold_f8_eq_spec : forall blocks y, x8_wf y -> Forall block_ok blocks ->
  compressor_finalize (fold_left compressor_input blocks y)
  = fold_left Spec.JH.F8 blocks (compressor_finalize y).
Proof.
  induction blocks as [|b bl IH]; intros y Hy Hb; [reflexivity|].
  inversion Hb as [|? ? [Hl Hbb] Hb']; subst. cbn [fold_left]. unfold compressor_input at 2.
  destruct (f8_impl_eq_spec y b Hy Hl Hbb) as [E W]. rewrite <- E. apply IH; assumption.
Qed.

Lemma be_split_bytes n x : Forall is_byte (be_split n x).
Proof. unfold be_split. apply Forall_rev. apply le_split_bytes. Qed.

Lemma pad_bytes msg : Forall is_byte msg -> Forall is_byte (Spec.JH.pad msg).
Proof.
  intros H. unfold Spec.JH.pad. cbv zeta.
  apply Forall_app. split; [exact H|]. apply Forall_app. split; [repeat constructor|].
  apply Forall_app. split; [|apply be_split_bytes].
  apply Forall_forall. intros x Hx. apply repeat_spec in Hx. subst x. reflexivity.
Qed.

Lemma blocks_ok msg : Forall is_byte msg -> Forall block_ok (Spec.JH.blocks_of (Spec.JH.pad msg)).
Proof.
  intros H. unfold Spec.JH.blocks_of.
  pose proof (chunks_exact_Forall_length 64 (length (Spec.JH.pad msg)) (Spec.JH.pad msg)) as L.
  pose proof (chunks_exact_Forall_bytes 64 (length (Spec.JH.pad msg)) (Spec.JH.pad msg) (pad_bytes msg H)) as B.
  rewrite Forall_forall in *. intros b Hb. split; [apply L|apply B]; exact Hb.
Qed.

(** the variants of the implementation and the digest size of the specification *)
Definition variant_size (v : variant) (size : N) : Prop :=
  (v = Jh224 /\ size = 224) \/ (v = Jh256 /\ size = 256) \/
  (v = Jh384 /\ size = 384) \/ (v = Jh512 /\ size = 512).

Lemma h0_length x : length (be_split 128 x) = 128%nat.
Proof. unfold be_split. rewrite rev_length. apply le_split_length. Qed.

Lemma variant_facts v size : variant_size v size ->
  v_h0 v = Spec.JH.iv size /\ (128 - v_out v = 128 - N.to_nat size / 8)%nat
  /\ length (v_h0 v) = 128%nat /\ Forall is_byte (v_h0 v).
Proof.
  destruct iv_table_eq_spec as (I1 & I2 & I3 & I4).
  intros [[-> ->]|[[-> ->]|[[-> ->]|[-> ->]]]]; cbn [v_h0 v_out].
  - split; [exact I1|]. split; [reflexivity|]. split; [apply h0_length|apply be_split_bytes].
  - split; [exact I2|]. split; [reflexivity|]. split; [apply h0_length|apply be_split_bytes].
  - split; [exact I3|]. split; [reflexivity|]. split; [apply h0_length|apply be_split_bytes].
  - split; [exact I4|]. split; [reflexivity|]. split; [apply h0_length|apply be_split_bytes].
Qed.

Theorem digest_eq_spec p v size msg : variant_size v size ->
  Forall is_byte msg -> N.of_nat (length msg) < 2 ^ 61 ->
  m_digest p v msg = Some (Spec.JH.jh size msg).
Proof.
  intros Hv Hb Hl. destruct (variant_facts v size Hv) as (E0 & Eo & L0 & B0).
  rewrite digest_is_fold, (schedule_eq_spec p v msg Hl).
  rewrite fold_f8_eq_spec; [|apply new_wf; assumption|apply blocks_ok; exact Hb].
  rewrite finalize_new by assumption.
  unfold Spec.JH.jh, Spec.JH.jh_from. cbv zeta. rewrite Eo, E0. reflexivity.
Qed.

(** histories: any sequence of update calls *)
Theorem updates_digest_eq_spec p v size calls : variant_size v size ->
  Forall is_byte (concat calls) -> N.of_nat (length (concat calls)) < 2 ^ 61 ->
  exists h, h_updates p (h_default v) calls = Some h
         /\ h_datalen h = N.of_nat (length (concat calls))
         /\ h_bitlen p h = Some (8 * N.of_nat (length (concat calls)))
         /\ h_finalize p v h = Some (Spec.JH.jh size (concat calls)).
Proof.
  intros Hv Hb Hl. destruct (updates_len_exact p v calls Hl) as (h & H1 & H2 & H3 & H4).
  exists h. repeat split; try assumption. rewrite H4. apply digest_eq_spec; assumption.
Qed.

(** non-vacuity: the hypotheses are satisfiable and the conclusion is the published vector *)
Example digest_eq_spec_example :
  m_digest Debug Jh256 [] = Some (be_split 32 0x46e64619c18bb0a92a5e87185a47eef83ca747b8fcc8e1412921357e326df434).
Proof. vm_compute. reflexivity. Qed.
