(** C03, machine-framing: the extended Machine of the AVX2 back end, [avx2_xm] over [avx2_m]
    (Proofs/MachineInstAvx2.v). [Avx2Machine] differs from [SseMachine<YesS3,YesS4,NI>] only in
    [u32x4x2]/[u32x4x4]; the extra operations of u32x4, u64x2, u64x2x4, u64x4, u128x1 are those of
    [sse_xm true true]. [u32x4x4_avx2 = x2<u32x4x2_avx2, G0>] (Model/PpvAvx2.v): [from_lanes] /
    [to_lanes] with [_mm256_setr_m128i] / [_mm256_extracti128_si256], [unpack] of the two halves
    of [vec512_storage], [transpose4] with [_mm256_permute2x128_si256], [write_le] through the
    generic [x2] wrapper. *)
From Coq Require Import NArith List Bool Lia Arith.
From CC Require Import Lib.Words Lib.Bytes Lib.ListX Spec.Lanes Model.Intrinsics Model.PpvSse Model.PpvAvx2.
From CC Require Import Model.Machine Model.MachineFull.
From CC Require Import Proofs.Machine Proofs.MachineBytes Proofs.MachineSse Proofs.MachineInstLib Proofs.MachineInstSse
  Proofs.MachineInstAvx2.
From CC Require Import Proofs.IntrinsicsLemmas Proofs.PpvSseMove Proofs.PpvAvx2Move.
From CC Require Import Proofs.MachineFullLib Proofs.MachineFullSse.
Import ListNotations.
Local Open Scope N_scope.

Notation L := (words_le 4).

Lemma split32 r : wf 32 r ->
  wf 16 (lo128 r) /\ wf 16 (hi128 r) /\ L r = L (lo128 r) ++ L (hi128 r).
Proof.
  intros [Hl Hb]. unfold lo128, hi128.
  assert (W0 : wf 16 (firstn 16 r)) by (split; [rewrite firstn_length, Hl; reflexivity | now apply Forall_firstn']).
  assert (W1 : wf 16 (skipn 16 r)) by (split; [rewrite skipn_length, Hl; reflexivity | now apply Forall_skipn']).
  split; [exact W0 | split; [exact W1|]].
  rewrite <- (firstn_skipn 16 r) at 1. apply words_le_app16; [assumption | assumption | cbn; auto].
Qed.

Lemma join32 a b : wf 16 a -> wf 16 b -> wf 32 (a ++ b) /\ L (a ++ b) = L a ++ L b.
Proof.
  intros Wa Wb. split; [|apply words_le_app16; [assumption | assumption | cbn; auto]].
  destruct Wa as [La Ba], Wb as [Lb Bb]. split; [rewrite app_length, La, Lb; reflexivity | now apply Forall_app].
Qed.

Lemma lrep2 {T} (rep : T -> list N) a b : lrep rep [a; b] = rep a ++ rep b.
Proof. unfold lrep. cbn [map concat]. now rewrite app_nil_r. Qed.
Lemma rep32x2 r0 r1 : wf 32 r0 -> wf 32 r1 ->
  L r0 ++ L r1 = L (lo128 r0) ++ L (hi128 r0) ++ L (lo128 r1) ++ L (hi128 r1).
Proof.
  intros W0 W1. destruct (split32 r0 W0) as (_ & _ & E0). destruct (split32 r1 W1) as (_ & _ & E1).
  now rewrite E0, E1, <- app_assoc.
Qed.

Definition avx2_wops : wops (sse_u32x4_vops true) avx2_u32x4x4_vops :=
  WOps (sse_u32x4_vops true) avx2_u32x4x4_vops
       (fun a b c d => avx4_from_lanes [a; b; c; d])
       (fun v => let l := avx4_to_lanes v in (nth 0 l [], nth 1 l [], nth 2 l [], nth 3 l []))
       avx4_unpack
       avx4_transpose4
       (fun v => unwrap [] (x2_write avx2_write_le [] v 64)).

Lemma avx2_wops_refines : wops_refines _ _ avx2_wops.
Proof.
  pose proof avx2_u32x4x4_refines as R16.
  constructor; unfold rel;
    cbn [sse_u32x4_vops avx2_u32x4x4_vops avx2_u32x4x2_vops prod_vops v_wf v_rep avx2_wops v16_from_lanes v16_to_lanes
         v16_unpack v16_transpose4 v16_write_le].
  - intros v [Hl Hf]. explode v. inv_fa. rewrite lrep2.
    apply (ok_app 32 8 8); now apply wf32_ok.
  - intros a b c d Wa Wb Wc Wd.
    change (avx4_from_lanes [a; b; c; d]) with [a ++ b; c ++ d].
    destruct (join32 a b Wa Wb) as [W0 E0]. destruct (join32 c d Wc Wd) as [W1 E1].
    split; [split; [reflexivity | fa]|].
    now rewrite lrep2, E0, E1, <- app_assoc.
  - intros v [Hl Hf]. explode v. inv_fa.
    match goal with H0 : wf 32 ?r0, H1 : wf 32 ?r1 |- _ =>
      change (avx4_to_lanes [r0; r1]) with [lo128 r0; hi128 r0; lo128 r1; hi128 r1];
      rewrite lrep2, (rep32x2 r0 r1 H0 H1);
      destruct (split32 r0 H0) as (A0 & A1 & _); destruct (split32 r1 H1) as (A2 & A3 & _);
      destruct (lane4_app4 (L (lo128 r0)) (L (hi128 r0)) (L (lo128 r1)) (L (hi128 r1))) as (E0 & E1 & E2 & E3);
        try (apply wf16_len4; assumption)
    end.
    unfold t4_0, t4_1, t4_2, t4_3. cbn [fst snd nth]. rewrite E0, E1, E2, E3.
    split; [|split; [|split]]; (split; [assumption | reflexivity]).
  - intros st Hst. destruct (bytes64_words16 st Hst) as [W E].
    pose proof (r_vec _ _ _ _ R16 _ W) as V. unfold rel in V.
    cbn [avx2_u32x4x4_vops avx2_u32x4x2_vops prod_vops v_wf v_rep v_vec] in V. rewrite E in V. exact V.
  - intros a b c d [La Fa] [Lb Fb] [Lc Fc] [Ld Fd]. explode a. explode b. explode c. explode d. inv_fa.
    match goal with
      Ha0 : wf 32 ?a0, Ha1 : wf 32 ?a1, Hb0 : wf 32 ?b0, Hb1 : wf 32 ?b1,
      Hc0 : wf 32 ?c0, Hc1 : wf 32 ?c1, Hd0 : wf 32 ?d0, Hd1 : wf 32 ?d1
      |- context [avx4_transpose4 [?a0; ?a1] [?b0; ?b1] [?c0; ?c1] [?d0; ?d1]] =>
      change (avx4_transpose4 [a0; a1] [b0; b1] [c0; c1] [d0; d1]) with
        ([lo128 a0 ++ lo128 b0; lo128 c0 ++ lo128 d0], [hi128 a0 ++ hi128 b0; hi128 c0 ++ hi128 d0],
         [lo128 a1 ++ lo128 b1; lo128 c1 ++ lo128 d1], [hi128 a1 ++ hi128 b1; hi128 c1 ++ hi128 d1]);
      rewrite !lrep2, (rep32x2 a0 a1 Ha0 Ha1), (rep32x2 b0 b1 Hb0 Hb1), (rep32x2 c0 c1 Hc0 Hc1), (rep32x2 d0 d1 Hd0 Hd1);
      destruct (split32 a0 Ha0) as (A0 & A1 & _); destruct (split32 a1 Ha1) as (A2 & A3 & _);
      destruct (split32 b0 Hb0) as (B0 & B1 & _); destruct (split32 b1 Hb1) as (B2 & B3 & _);
      destruct (split32 c0 Hc0) as (C0 & C1 & _); destruct (split32 c1 Hc1) as (C2 & C3 & _);
      destruct (split32 d0 Hd0) as (D0 & D1 & _); destruct (split32 d1 Hd1) as (D2 & D3 & _)
    end.
    cbv zeta. unfold l_transpose4, t4_0, t4_1, t4_2, t4_3. cbn [fst snd].
    repeat match goal with |- context [lane4 _ (L ?a ++ L ?b ++ L ?c ++ L ?d)] =>
      let E0 := fresh "E" in let E1 := fresh "E" in let E2 := fresh "E" in let E3 := fresh "E" in
      destruct (lane4_app4 (L a) (L b) (L c) (L d)) as (E0 & E1 & E2 & E3);
        try (apply wf16_len4; assumption); rewrite E0, E1, E2, E3; clear E0 E1 E2 E3 end.
    assert (J : forall p q r s, wf 16 p -> wf 16 q -> wf 16 r -> wf 16 s ->
              lwf (wf 32) 2 [p ++ q; r ++ s] /\ lrep L [p ++ q; r ++ s] = L p ++ L q ++ L r ++ L s).
    { intros p q r s Wp Wq Wr Ws.
      destruct (join32 p q Wp Wq) as [W0 E0]. destruct (join32 r s Wr Ws) as [W1 E1].
      split; [split; [reflexivity | fa]|].
      now rewrite lrep2, E0, E1, <- app_assoc. }
    split; [|split; [|split]]; apply J; assumption.
  - intros v [Hl Hf]. explode v. inv_fa.
    unfold x2_write. change (Nat.div 64 2) with 32%nat. change (64 - 32)%nat with 32%nat. cbn [nth].
    cbn [avx2_write_le Nat.eqb obind unwrap]. unfold write_le, lrep.
    match goal with |- ?a ++ ?b = _ =>
      replace (a ++ b) with (concat [a; b]) by (cbn [concat]; now rewrite app_nil_r) end.
    symmetry.
    apply (concat_regs_bytes 4 32); [lia | reflexivity | fa].
Qed.

(** * the extended machine *)
Definition avx2_xm : xmachine :=
  XMachine avx2_m (sse_nops true true) (sse_dops true) avx2_wops (sse_hops true) (sse_uops true).

Theorem avx2_xm_refines : xmachine_refines avx2_xm.
Proof.
  constructor; cbn [avx2_xm xm_base xm_n xm_d xm_w xm_h xm_u].
  - apply avx2_m_refines.
  - apply sse_nops_refines.
  - apply sse_dops_refines.
  - apply avx2_wops_refines.
  - apply sse_hops_refines.
  - apply sse_uops_refines.
Qed.

Example avx2_xm_is_concrete :
  let w := xm_w avx2_xm in
  let v := v16_unpack w (bytes_le 4 [0; 1; 2; 3; 4; 5; 6; 7; 8; 9; 10; 11; 12; 13; 14; 15]) in
  map (@length N) v = [32; 32]%nat /\
  L (t4_2 (v16_to_lanes w v)) = [8; 9; 10; 11] /\
  lrep L (t4_1 (v16_transpose4 w v v v v)) = [4; 5; 6; 7; 4; 5; 6; 7; 4; 5; 6; 7; 4; 5; 6; 7].
Proof. vm_compute. repeat split; reflexivity. Qed.

Print Assumptions avx2_xm_refines.
