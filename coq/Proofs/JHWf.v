(** JH: every register of the model stays below 2^128; [Compressor::new] and
    [finalize] are inverse on such states. *)
From Coq Require Import NArith List Arith Bool Lia.
From CC Require Import Lib.Words Lib.Bytes Lib.ListX Model.JH.
Import ListNotations.
Local Open Scope N_scope.

Definition hi0 (x : N) : Prop := forall j, 128 <= j -> N.testbit x j = false.

Lemma hi0_lt x : hi0 x <-> x < 2 ^ 128.
Proof.
  split.
  - intros H. assert (E : x = wrap 128 x).
    { apply N.bits_inj. intros j. rewrite testbit_wrap.
      destruct (N.ltb_spec j 128) as [L|G]; [rewrite andb_true_r; reflexivity|].
      rewrite andb_false_r. apply H. exact G. }
    rewrite E. apply wrap_lt.
  - intros H j Hj. apply (testbit_high 128); assumption.
Qed.

Lemma hi0_lxor a b : hi0 a -> hi0 b -> hi0 (N.lxor a b).
Proof. intros Ha Hb j Hj. rewrite N.lxor_spec, Ha, Hb by exact Hj. reflexivity. Qed.
Lemma hi0_land a b : hi0 a -> hi0 b -> hi0 (N.land a b).
Proof. intros Ha Hb j Hj. rewrite N.land_spec, Ha by exact Hj. reflexivity. Qed.
Lemma hi0_lor a b : hi0 a -> hi0 b -> hi0 (N.lor a b).
Proof. intros Ha Hb j Hj. rewrite N.lor_spec, Ha, Hb by exact Hj. reflexivity. Qed.
Lemma hi0_ones : hi0 ones128.
Proof. intros j Hj. unfold ones128. apply N.ones_spec_high. exact Hj. Qed.
Lemma hi0_not a : hi0 a -> hi0 (not128 a).
Proof. intros Ha. apply hi0_lxor; [exact Ha|exact hi0_ones]. Qed.
Lemma hi0_andnot a b : hi0 a -> hi0 b -> hi0 (andnot128 a b).
Proof. intros Ha Hb. apply hi0_land; [apply hi0_not; exact Ha|exact Hb]. Qed.

Lemma swap_lo_small k : (k < 7)%nat -> swap_lo k < 2 ^ (128 - swap_amount k).
Proof. intros H. do 7 (destruct k as [|k]; [reflexivity|]). lia. Qed.
Lemma swap_amount_le k : (k < 7)%nat -> swap_amount k <= 64.
Proof. intros H. do 7 (destruct k as [|k]; [vm_compute; discriminate|]). lia. Qed.

Lemma hi0_swapk k x : (k < 7)%nat -> hi0 x -> hi0 (swapk k x).
Proof.
  intros Hk Hx j Hj. unfold swapk. pose proof (swap_amount_le k Hk) as Hn.
  set (n := swap_amount k) in *.
  rewrite N.lor_spec, N.shiftr_spec', N.land_spec, (Hx (j + n)) by lia.
  rewrite N.shiftl_spec_high' by lia. rewrite N.land_spec.
  rewrite (testbit_high (128 - n) (swap_lo k) (j - n)); [|apply swap_lo_small; exact Hk|lia].
  rewrite andb_false_r. reflexivity.
Qed.

Definition x8_wf (y : x8) : Prop :=
  hi0 (y0 y) /\ hi0 (y1 y) /\ hi0 (y2 y) /\ hi0 (y3 y) /\
  hi0 (y4 y) /\ hi0 (y5 y) /\ hi0 (y6 y) /\ hi0 (y7 y).

Ltac hi0_tac :=
  repeat first [assumption | exact hi0_ones | apply hi0_lxor | apply hi0_land | apply hi0_lor
               | apply hi0_not | apply hi0_andnot].

Lemma ss_wf s k : x8_wf s -> hi0 (fst k) -> hi0 (snd k) -> x8_wf (ss s k).
Proof.
  intros (H0 & H1 & H2 & H3 & H4 & H5 & H6 & H7) K0 K1.
  destruct s as [a0 a1 a2 a3 a4 a5 a6 a7], k as [k0 k1].
  cbn [y0 y1 y2 y3 y4 y5 y6 y7 fst snd] in *.
  unfold ss, x8_wf, xor2, and2, or2, not2, andnot2. cbn [y0 y1 y2 y3 y4 y5 y6 y7 fst snd].
  repeat split; hi0_tac.
Qed.

Lemma l_wf y : x8_wf y -> x8_wf (l y).
Proof.
  intros (H0 & H1 & H2 & H3 & H4 & H5 & H6 & H7).
  destruct y as [a0 a1 a2 a3 a4 a5 a6 a7]. cbn [y0 y1 y2 y3 y4 y5 y6 y7] in *.
  unfold l, x8_wf. cbn [y0 y1 y2 y3 y4 y5 y6 y7]. repeat split; hi0_tac.
Qed.

Lemma round_wf k rc y : (k < 7)%nat -> hi0 (fst rc) -> hi0 (snd rc) -> x8_wf y -> x8_wf (round k rc y).
Proof.
  intros Hk K0 K1 Hy. unfold round.
  pose proof (l_wf _ (ss_wf y rc Hy K0 K1)) as (H0 & H1 & H2 & H3 & H4 & H5 & H6 & H7).
  unfold x8_wf. cbn [y0 y1 y2 y3 y4 y5 y6 y7].
  repeat split; try assumption; apply hi0_swapk; assumption.
Qed.
