(** Instantiation for the real x86 back ends, [u32x4] component (ChaCha narrow path,
    BLAKE-224/256): the intrinsic-level model of [u32x4_sse2<S3, S4, NI>] (Model/PpvSse.v) with
    the C12 theorems of Proofs/PpvSseWords.v / PpvSseMove.v is a refinement, for both [s3]
    variants, i.e. for the types used by SSE2 (NoS3), SSSE3, SSE4.1, AVX and AVX2 (YesS3; the
    AVX2 machine's [u32x4] is [u32x4_sse2<YesS3, YesS4, NI>]). *)
From Coq Require Import NArith List Bool Lia.
From CC Require Import Lib.Words Lib.Bytes Lib.ListX Spec.Lanes Model.Intrinsics Model.PpvSse.
From CC Require Import Model.Machine Proofs.Machine Proofs.MachineBytes.
From CC Require Import Proofs.PpvSseWords Proofs.PpvSseMove.
Import ListNotations.
Local Open Scope N_scope.

Definition sse_u32x4_vops (s3 : bool) : vops :=
  VOps reg (wf 16) (words_le 4) (bytes_le 4)
       u32x4_add sse_xor (u32x4_rotr s3)
       u32x4_shuffle1230 u32x4_shuffle2301 u32x4_shuffle3012.

Lemma wf16_ok : forall a, wf 16 a -> words_ok 32 4 (words_le 4 a).
Proof. intros a H. apply (bwf_to_ok 4 4); [lia | auto | exact H]. Qed.
Lemma ok_wf16 : forall l, words_ok 32 4 l -> wf 16 (bytes_le 4 l) /\ words_le 4 (bytes_le 4 l) = l.
Proof. intros l H. apply (ok_to_bytes 4 4); [lia | exact H]. Qed.

Lemma per_lane4_4 : forall (f : list N -> list N) l,
  length l = 4%nat -> (forall a b c d, length (f [a; b; c; d]) = 4%nat) -> per_lane4 f l = f l.
Proof.
  intros f l Hl Hf. explode l. unfold per_lane4. cbn [length lanes4 map concat].
  apply app_nil_r.
Qed.

Lemma sse_u32x4_refines : forall s3, vops_refines 32 4 ks32 (sse_u32x4_vops s3).
Proof.
  intros s3. apply vops_refines_intro;
    cbn [sse_u32x4_vops v_wf v_rep v_vec o_add o_xor o_rotr o_sh1230 o_sh2301 o_sh3012].
  - exact ok_wf16.
  - intros a b Wa Wb. rewrite sse_u32x4_add_lanewise by assumption.
    apply ok_wf16. apply (ok_add 4 4); apply wf16_ok; assumption.
  - intros a b Wa Wb.
    destruct (sse_bitops_lanewise 4%nat (or_introl eq_refl) a b Wa Wb) as (-> & _).
    apply ok_wf16. apply (ok_xor 4 4); apply wf16_ok; assumption.
  - intros k a Hk Wa. rewrite sse_u32x4_rotr_lanewise; [| cbn in Hk |- *; tauto | assumption].
    apply ok_wf16. apply (ok_rotr 4 4), wf16_ok; assumption.
  - intros a Wa. destruct (sse_u32x4_shuffle_is_perm a Wa) as (-> & _ & _).
    rewrite <- (per_lane4_4 shuffle1230) by (first [apply wf16_ok; assumption | reflexivity]).
    apply ok_wf16. apply (ok_sh1230 4 4); [auto | apply wf16_ok; assumption].
  - intros a Wa. destruct (sse_u32x4_shuffle_is_perm a Wa) as (_ & -> & _).
    rewrite <- (per_lane4_4 shuffle2301) by (first [apply wf16_ok; assumption | reflexivity]).
    apply ok_wf16. apply (ok_sh2301 4 4); [auto | apply wf16_ok; assumption].
  - intros a Wa. destruct (sse_u32x4_shuffle_is_perm a Wa) as (_ & _ & ->).
    rewrite <- (per_lane4_4 shuffle3012) by (first [apply wf16_ok; assumption | reflexivity]).
    apply ok_wf16. apply (ok_sh3012 4 4); [auto | apply wf16_ok; assumption].
Qed.

(** consequences without hypotheses: ChaCha's narrow rounds and BLAKE-224/256's rounds on the
    real x86 [u32x4] types equal the lane-wise result *)
Lemma sse_chacha_narrow_indep : forall s3 k a b c d,
  words_ok 32 4 a -> words_ok 32 4 b -> words_ok 32 4 c -> words_ok 32 4 d ->
  chacha_rounds_on (sse_u32x4_vops s3) k a b c d = chacha_rounds_on (lane_vops 32) k a b c d.
Proof.
  intros s3 k a b c d. apply (chacha_rounds_on_indep _ 32 4%nat ks32 (sse_u32x4_refines s3) incl_chacha_ks32).
Qed.

Lemma sse_blake32_indep : forall s3 xs mss,
  (let '(a, b, c, d) := xs in words_ok 32 4 a /\ words_ok 32 4 b /\ words_ok 32 4 c /\ words_ok 32 4 d) ->
  msgs_ok 32 mss ->
  blake32_rounds_on (sse_u32x4_vops s3) xs mss = blake32_rounds_on (lane_vops 32) xs mss.
Proof.
  intros s3 xs mss. apply (blake_rounds_indep _ 32 ks32 16 12 8 7 (sse_u32x4_refines s3) incl_blake32_ks32).
Qed.
