(** Counter words of the ChaCha state as seen by the stream wrapper:
    [stA s0 q] = the state of stream [s0] with the 64-bit quantity in d words 0,1 set to [q mod 2^64]. *)
From Coq Require Import NArith ZArith List Lia Arith Bool ZifyBool ZifyN.
From CC Require Import Lib.Words Lib.Bytes Lib.ListX Model.ChaChaGuts Model.ChaChaStream.
Import ListNotations.
Ltac Zify.zify_post_hook ::= Z.div_mod_to_equations.
Local Open Scope N_scope.

Definition stA (s0 : chacha) (q : N) : chacha := seek64 s0 (wrap 64 q).

Lemma lor_shiftl32 hi lo : lo < 2 ^ 32 -> N.lor (N.shiftl hi 32) lo = hi * 2 ^ 32 + lo.
Proof.
  intros Hlo. rewrite N.shiftl_mul_pow2.
  rewrite <- N.lxor_lor.
  - symmetry. apply N.add_nocarry_lxor.
    apply N.bits_inj. intros i. rewrite N.land_spec, N.bits_0.
    destruct (N.lt_ge_cases i 32) as [Hi|Hi].
    + rewrite N.mul_pow2_bits_low by exact Hi. reflexivity.
    + rewrite (testbit_high 32 lo i Hlo Hi). apply andb_false_r.
  - apply N.bits_inj. intros i. rewrite N.land_spec, N.bits_0.
    destruct (N.lt_ge_cases i 32) as [Hi|Hi].
    + rewrite N.mul_pow2_bits_low by exact Hi. reflexivity.
    + rewrite (testbit_high 32 lo i Hlo Hi). apply andb_false_r.
Qed.

Lemma stA_words s0 q d0 d1 d2 d3 :
  cd s0 = [d0; d1; d2; d3] ->
  stA s0 q = CC (cb s0) (cc s0) [q mod 2 ^ 32; (q / 2 ^ 32) mod 2 ^ 32; d2; d3].
Proof.
  intros Hd. unfold stA, seek64, set_pos. rewrite Hd. cbn [upd].
  rewrite !wrap_mod, N.shiftr_div_pow2. f_equal. f_equal; [|f_equal]; lia.
Qed.

Lemma words_stA s0 w0 w1 d0 d1 d2 d3 :
  cd s0 = [d0; d1; d2; d3] -> w0 < 2 ^ 32 -> w1 < 2 ^ 32 ->
  CC (cb s0) (cc s0) [w0; w1; d2; d3] = stA s0 (w1 * 2 ^ 32 + w0).
Proof.
  intros Hd H0 H1. rewrite (stA_words s0 _ d0 d1 d2 d3 Hd). f_equal. f_equal; [|f_equal]; lia.
Qed.

Lemma stA_wrap s0 q : stA s0 (wrap 64 q) = stA s0 q.
Proof. unfold stA. rewrite wrap_wrap. reflexivity. Qed.

Lemma stA_cb s0 q : cb (stA s0 q) = cb s0. Proof. reflexivity. Qed.
Lemma stA_cc s0 q : cc (stA s0 q) = cc s0. Proof. reflexivity. Qed.

Lemma pos64_stA s0 q : length (cd s0) = 4%nat -> pos64 (stA s0 q) = wrap 64 q.
Proof.
  intros Hl. destruct (cd s0) as [|d0 [|d1 [|d2 [|d3 [|]]]]] eqn:Hd; try discriminate.
  rewrite (stA_words s0 q d0 d1 d2 d3 Hd). unfold pos64. cbn [cd nth].
  rewrite lor_shiftl32 by lia. rewrite wrap_mod. lia.
Qed.

(** [inc_block_ct] *)
Lemma inc_stA s0 q : length (cd s0) = 4%nat -> inc_block_ct (stA s0 q) = stA s0 (q + 1).
Proof.
  intros Hl. unfold inc_block_ct. rewrite pos64_stA by exact Hl.
  destruct (cd s0) as [|d0 [|d1 [|d2 [|d3 [|]]]]] eqn:Hd; try discriminate.
  rewrite (stA_words s0 (q + 1) d0 d1 d2 d3 Hd).
  rewrite (stA_words s0 q d0 d1 d2 d3 Hd). cbn [cb cc cd]. unfold set_pos. cbn [upd].
  rewrite !wrap_mod, N.shiftr_div_pow2. f_equal. f_equal; [|f_equal]; lia.
Qed.

(** [seek64] on a state of the stream *)
Lemma seek64_stA s0 q k : length (cd s0) = 4%nat -> k < 2 ^ 64 -> seek64 (stA s0 q) k = stA s0 k.
Proof.
  intros Hl Hk. destruct (cd s0) as [|d0 [|d1 [|d2 [|d3 [|]]]]] eqn:Hd; try discriminate.
  rewrite (stA_words s0 k d0 d1 d2 d3 Hd), (stA_words s0 q d0 d1 d2 d3 Hd).
  unfold seek64, set_pos. cbn [cb cc cd upd]. rewrite !wrap_mod, N.shiftr_div_pow2. reflexivity.
Qed.

(** [seek32] (writes d word 0 only) on a state of the stream *)
Lemma seek32_stA s0 q k : length (cd s0) = 4%nat ->
  seek32 (stA s0 q) k = stA s0 ((wrap 64 q / 2 ^ 32) * 2 ^ 32 + wrap 32 k).
Proof.
  intros Hl. destruct (cd s0) as [|d0 [|d1 [|d2 [|d3 [|]]]]] eqn:Hd; try discriminate.
  rewrite (stA_words s0 q d0 d1 d2 d3 Hd), (stA_words s0 _ d0 d1 d2 d3 Hd).
  unfold seek32. cbn [cb cc cd upd]. rewrite !wrap_mod. f_equal. f_equal; [|f_equal]; lia.
Qed.

(** d word 1 (the first nonce word of the 12-byte-nonce layout) *)
Lemma word1_stA s0 q : length (cd s0) = 4%nat -> nth 1 (cd (stA s0 q)) 0 = (q / 2 ^ 32) mod 2 ^ 32.
Proof.
  intros Hl. destruct (cd s0) as [|d0 [|d1 [|d2 [|d3 [|]]]]] eqn:Hd; try discriminate.
  rewrite (stA_words s0 q d0 d1 d2 d3 Hd). reflexivity.
Qed.

(** the nonce-word restore of the 12-byte-nonce variant *)
Lemma restore_stA s0 q n0 : length (cd s0) = 4%nat -> n0 < 2 ^ 32 ->
  CC (cb (stA s0 q)) (cc (stA s0 q)) (upd 1 n0 (cd (stA s0 q))) = stA s0 (n0 * 2 ^ 32 + wrap 32 q).
Proof.
  intros Hl Hn. destruct (cd s0) as [|d0 [|d1 [|d2 [|d3 [|]]]]] eqn:Hd; try discriminate.
  rewrite (stA_words s0 q d0 d1 d2 d3 Hd), (stA_words s0 _ d0 d1 d2 d3 Hd).
  cbn [cb cc cd upd]. rewrite !wrap_mod. f_equal. f_equal; [|f_equal]; lia.
Qed.

(** distinct 64-bit counter values give distinct states *)
Lemma stA_inj s0 q q' : length (cd s0) = 4%nat -> q < 2 ^ 64 -> q' < 2 ^ 64 -> stA s0 q = stA s0 q' -> q = q'.
Proof.
  intros Hl Hq Hq' E. apply (f_equal pos64) in E. rewrite !pos64_stA in E by exact Hl.
  rewrite !wrap_small in E by assumption. exact E.
Qed.

(** a well-formed initial state is the state at counter value (nonce word, 0) *)
Lemma stA_init s0 : length (cd s0) = 4%nat -> nth 0 (cd s0) 0 = 0 -> nth 1 (cd s0) 0 < 2 ^ 32 ->
  s0 = stA s0 (nth 1 (cd s0) 0 * 2 ^ 32).
Proof.
  intros Hl H0 H1. destruct s0 as [b c d]. cbn [cd] in *.
  destruct d as [|d0 [|d1 [|d2 [|d3 [|]]]]]; try discriminate. cbn [nth] in *. subst d0.
  rewrite (stA_words (CC b c [0; d1; d2; d3]) _ 0 d1 d2 d3 eq_refl). cbn [cb cc]. f_equal. f_equal; [|f_equal]; lia.
Qed.
