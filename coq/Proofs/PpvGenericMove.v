(** C13 portable part: lanes, storage views, insert/extract, transpose4, to_scalars. *)
From Coq Require Import NArith List Bool Arith Lia.
From CC Require Import Lib.Words Lib.Bytes Lib.ListX Model.PpvSoft Model.PpvGeneric.
From CC Require Spec.Lanes.
From CC Require Import Proofs.PpvGenericLib Proofs.PpvGenericOps Proofs.PpvGenericSwap Proofs.PpvSoftFwd Proofs.PpvGenericWide.
Import ListNotations.
Local Open Scope N_scope.

Ltac lanes_explode :=
  repeat match goal with H : wfv _ ?l |- _ =>
    let L := fresh "L" in destruct H as [L _]; cbn in L; explode l end.

(** * from_lanes / to_lanes *)
Theorem g_from_to_lanes (v : list N) : g_to_lanes (g_from_lanes v) = v /\ g_from_lanes (g_to_lanes v) = v.
Proof. split; reflexivity. Qed.
Theorem xn_from_to_lanes {W} (v : list W) : xn_to_lanes (xn_from_lanes v) = v /\ xn_from_lanes (xn_to_lanes v) = v.
Proof. split; reflexivity. Qed.
Theorem u64x4_from_to_lanes xs : length xs = 4%nat -> u64x4_to_lanes (u64x4_from_lanes xs) = xs.
Proof. intros L. explode xs. reflexivity. Qed.
Theorem u64x4_to_from_lanes v : wide U64x2 2 v ->
  u64x4_from_lanes (u64x4_to_lanes v) = v /\ u64x4_to_lanes v = concat v.
Proof.
  intros [L F]. explode v. inv_forall.
  lanes_explode. split; reflexivity.
Qed.

(** * element access: [extract (insert v x i) j = if i = j then x else extract v j] *)
Lemma nth_error_upd {A} i j (x : A) l : (i < length l)%nat ->
  nth_error (upd i x l) j = if (j =? i)%nat then Some x else nth_error l j.
Proof.
  revert i j. induction l as [|y l IH]; intros i j Hi; [cbn in Hi; lia|].
  destruct i, j; cbn [upd nth_error Nat.eqb]; try reflexivity. apply IH. cbn in Hi. lia.
Qed.
Theorem store_ok {A} (v : list A) i x : i < N.of_nat (length v) -> store v i x = Ok (upd (N.to_nat i) x v).
Proof. intros H. unfold store. apply N.ltb_lt in H. now rewrite H. Qed.
Theorem store_panics {A} (v : list A) i x : N.of_nat (length v) <= i -> store v i x = Panic.
Proof. intros H. unfold store. destruct (N.ltb_spec i (N.of_nat (length v))); [lia | reflexivity]. Qed.
Theorem index_panics {A} (v : list A) i : N.of_nat (length v) <= i -> index v i = Panic.
Proof. intros H. unfold index. destruct (N.ltb_spec i (N.of_nat (length v))); [lia | reflexivity]. Qed.
Theorem index_ok (v : list N) i : i < N.of_nat (length v) -> index v i = Ok (Lanes.v_extract v (N.to_nat i)).
Proof.
  intros H. unfold index, Lanes.v_extract. apply N.ltb_lt in H. rewrite H. apply N.ltb_lt in H.
  destruct (nth_error v (N.to_nat i)) eqn:E.
  - now rewrite (nth_error_nth _ _ _ E).
  - apply nth_error_None in E. lia.
Qed.
Theorem insert_extract {A} (v v' : list A) (x : A) i j :
  store v i x = Ok v' -> index v' j = if j =? i then Ok x else index v j.
Proof.
  unfold store. destruct (N.ltb_spec i (N.of_nat (length v))) as [Hi|Hi]; [|discriminate].
  intros E. inversion E; subst v'. unfold index. rewrite upd_length.
  destruct (N.ltb_spec j (N.of_nat (length v))) as [Hj|Hj].
  - rewrite nth_error_upd by lia.
    destruct (N.eqb_spec j i) as [->|Hne]; [now rewrite Nat.eqb_refl|].
    destruct (Nat.eqb_spec (N.to_nat j) (N.to_nat i)) as [E'|_]; [lia | reflexivity].
  - destruct (N.eqb_spec j i); [lia | reflexivity].
Qed.
(** [Vec4<u32> for u32x4_generic], [Vec2<u64> for u64x2_generic], [Vec2/Vec4 for x2/x4] are [index]/[store] *)
Theorem g_insert_is_lane_insert v x i : i < N.of_nat (length v) ->
  g_insert v x i = Ok (Lanes.v_insert v x (N.to_nat i)).
Proof. apply store_ok. Qed.

(** [Vec4<u64> for u64x4_generic] (after repair P6) in terms of the four words in lane order *)
Theorem u64x4_insert_extract v x i : wide U64x2 2 v -> i < 4 ->
  u64x4_extract v i = Ok (Lanes.v_extract (concat v) (N.to_nat i)) /\
  exists v', u64x4_insert v x i = Ok v' /\ length v' = 2%nat /\
             concat v' = Lanes.v_insert (concat v) x (N.to_nat i) /\
             Forall (fun l => length l = 2%nat) v'.
Proof.
  intros [L F] Hi. explode v. inv_forall.
  lanes_explode.
  assert (Hc : i = 0 \/ i = 1 \/ i = 2 \/ i = 3) by lia.
  destruct Hc as [->|[->|[->| ->]]]; (split; [reflexivity|]); eexists; (split; [reflexivity|]);
    repeat split; repeat constructor.
Qed.
Theorem u64x4_index_panics v x i : length v = 2%nat -> 4 <= i ->
  u64x4_insert v x i = Panic /\ u64x4_extract v i = Panic.
Proof.
  intros L Hi. split.
  - unfold u64x4_insert. rewrite index_panics; [reflexivity|]. rewrite L.
    change (N.of_nat 2) with 2. apply N.div_le_lower_bound; lia.
  - unfold u64x4_extract. apply index_panics. cbn. lia.
Qed.

(** [Words4 for u64x4_generic] (after repair P7): the named permutations of the four words *)
Theorem u64x4_shuffle_is_perm v : wide U64x2 2 v ->
  concat (u64x4_shuffle2301 v) = Lanes.shuffle2301 (concat v) /\
  concat (u64x4_shuffle1230 v) = Lanes.shuffle1230 (concat v) /\
  concat (u64x4_shuffle3012 v) = Lanes.shuffle3012 (concat v).
Proof.
  intros [L F]. explode v. inv_forall.
  lanes_explode. repeat split.
Qed.

(** * transpose4, to_scalars *)
Theorem x4_transpose4_is_transpose {W} (d : W) a b c e :
  x4_transpose4 d a b c e = Lanes.transpose4 d a b c e.
Proof. reflexivity. Qed.
Theorem u32x4x4_to_scalars_lane_order v : wide U32x4 4 v -> u32x4x4_to_scalars v = concat v.
Proof.
  intros [L F]. explode v. inv_forall.
  lanes_explode. reflexivity.
Qed.

(** * storage: vec128_storage is the little-endian byte image; reading it through another
      word view is [Lanes.reinterpret] *)
Theorem storage128_views p t t' v : wfv t v ->
  into128 p t v = Ok (img t v) /\
  unpack128 p t' (img t v) = Ok (Lanes.reinterpret (vt_k t) (vt_k t') v) /\
  unpack128 p t (img t v) = Ok v.
Proof.
  intros Hv. pose proof (img_wfb t v Hv) as Hs. split; [now apply into128_img|]. split.
  - now apply unpack128_words.
  - rewrite unpack128_words by exact Hs. now rewrite words_img.
Qed.
Theorem storage128_array_views d q :
  st_q (st_of_d d) = Lanes.reinterpret 4 8 d /\ st_d (st_of_q q) = Lanes.reinterpret 8 4 q.
Proof. split; reflexivity. Qed.

(** explicit little-endian packing of the views *)
Lemma join_split_app k a r : a < 2 ^ (8 * N.of_nat k) ->
  le_join (le_split k a ++ r) = a + N.shiftl (le_join r) (8 * N.of_nat k).
Proof. intros Ha. rewrite le_join_app, le_split_length, le_join_split by exact Ha. reflexivity. Qed.
Theorem reinterpret_32_to_64 a b c d : a < 2 ^ 32 -> b < 2 ^ 32 -> c < 2 ^ 32 -> d < 2 ^ 32 ->
  Lanes.reinterpret 4 8 [a; b; c; d] = [a + N.shiftl b 32; c + N.shiftl d 32].
Proof.
  intros Ha Hb Hc Hd. unfold Lanes.reinterpret, bytes_le. cbn [flat_map]. rewrite app_nil_r.
  assert (E : forall x y, x < 2 ^ 32 -> y < 2 ^ 32 -> le_join (le_split 4 x ++ le_split 4 y) = x + N.shiftl y 32).
  { intros x y Hx Hy. rewrite (join_split_app 4) by exact Hx. now rewrite (le_join_split 4) by exact Hy. }
  rewrite <- (E a b Ha Hb), <- (E c d Hc Hd). reflexivity.
Qed.
Theorem reinterpret_64_to_128 a b : a < 2 ^ 64 -> b < 2 ^ 64 ->
  Lanes.reinterpret 8 16 [a; b] = [a + N.shiftl b 64].
Proof.
  intros Ha Hb. unfold Lanes.reinterpret, bytes_le. cbn [flat_map]. rewrite app_nil_r.
  assert (E : le_join (le_split 8 a ++ le_split 8 b) = a + N.shiftl b 64).
  { rewrite (join_split_app 8) by exact Ha. now rewrite (le_join_split 8) by exact Hb. }
  rewrite <- E. reflexivity.
Qed.

(** vec256_storage / vec512_storage: [Into<storage>] then [Store::unpack] is the identity on wide values,
    and the storage is the list of the lanes' images in order *)
Theorem wide_storage_roundtrip p t n v : (n = 2 \/ n = 4)%nat -> wide t n v ->
  (if (n =? 2)%nat then x2_into [] (into128 p t) v else x4_into [] (into128 p t) v) = Ok (map (img t) v) /\
  (if (n =? 2)%nat then x2_unpack [] (unpack128 p t) (split128 (new128 (map (img t) v)))
   else x4_unpack [] (unpack128 p t) (split128 (new128 (map (img t) v)))) = Ok v.
Proof.
  intros Hn [L F].
  assert (U : forall x, wfv t x -> unpack128 p t (img t x) = Ok x).
  { intros x Hx. now apply (storage128_views p t t x Hx). }
  destruct Hn as [-> | ->]; cbn [Nat.eqb]; explode v; inv_forall; unfold x2_into, x4_into, x2_unpack, x4_unpack, split128, new128;
    cbn [nth map]; rewrite !into128_img, ?U by assumption; cbn [obind]; rewrite ?U by assumption; cbn [obind];
    rewrite ?U by assumption; cbn [obind]; rewrite ?U by assumption; split; reflexivity.
Qed.
(** [[u64;4]] view of vec256_storage *)
Theorem st256_q4_roundtrip q : length q = 4%nat -> Forall (fun x => x < 2 ^ 64) q ->
  st256_to_q4 (st256_of_q4 q) = q.
Proof.
  intros L F. explode q. inv_forall. unfold st256_to_q4, st256_of_q4. cbn [nth].
  unfold st_q, st_of_q. rewrite !words_bytes_le by (try lia; repeat constructor; assumption). reflexivity.
Qed.
Theorem st256_q4_of_lanes s0 s1 : wfb s0 -> wfb s1 ->
  st256_to_q4 [s0; s1] = words_le 8 s0 ++ words_le 8 s1.
Proof.
  intros [L0 _] [L1 _]. explode s0. explode s1. reflexivity.
Qed.
