(** C03, machine-framing: BLAKE's whole compression of one block (lib.rs [$X4::put_block]: unpack of
    the chaining value, constant rows through [vec], counter injection, the [SIGMA] message
    schedule through [vec], the rounds, feed-forward, store) and [$compressor::finalize]
    ([write_be]) for both word sizes, written over the extended machine record, equal on every
    back end that refines the lane meaning the executable model Model/Blake.v ([put_block32],
    [put_block64], [compressor_finalize]). *)
From Coq Require Import NArith List Bool Lia Arith.
From CC Require Import Lib.Words Lib.Bytes Lib.ListX Spec.Lanes Model.Machine Model.MachineFull.
From CC Require Import Proofs.Machine Proofs.MachineBytes Proofs.MachineFullLib.
From CC Require Model.Blake.
Import ListNotations.
Local Open Scope N_scope.

Lemma nth_Forall {A} (P : A -> Prop) l i d : Forall P l -> P d -> P (nth i l d).
Proof.
  intros Hf Hd. revert i. induction Hf as [|x l Hx Hf IH]; intros i; destruct i; cbn [nth]; auto.
Qed.

(** the message words read by [from_be_bytes] are words *)
Lemma read_words_be_lt wb block : Forall is_byte block ->
  Forall (fun x => x < 2 ^ (8 * N.of_nat wb)) (Blake.read_words_be wb block).
Proof.
  intros Hb. unfold Blake.read_words_be. apply Forall_firstn'.
  pose proof (chunks_exact_Forall_length wb (length block) block) as Hl.
  pose proof (chunks_exact_Forall_bytes wb (length block) block Hb) as Hc.
  induction Hl as [|c cs Hlc _ IH]; cbn [map]; [constructor|].
  inversion Hc as [|? ? Hbc Hcs]; subst. constructor; [|apply IH; assumption].
  unfold be_join. rewrite <- (rev_length c).
  apply le_join_lt. apply Forall_rev. exact Hbc.
Qed.

Section PutBlock.
  Variables (o : vops) (kb : nat) (ks : list N) (k1 k2 k3 k4 : N) (U : list N) (nrounds : nat).
  Variables (unpack : list N -> vt o) (into : vt o -> list N) (wr_be : vt o -> list N).
  Let w : N := 8 * N.of_nat kb.
  Hypothesis Hkb : (0 < kb)%nat.
  Hypothesis R : vops_refines w 4 ks o.
  Hypothesis Hks : incl [k1; k2; k3; k4] ks.
  Hypothesis Hok : forall a, v_wf o a -> words_ok w 4 (v_rep o a).
  Hypothesis Hun : forall st, bytes_ok (kb * 4) st -> rel o (unpack st) (words_le kb st).
  Hypothesis Hin : forall a, v_wf o a -> into a = bytes_le kb (v_rep o a).
  Hypothesis Hbe : forall a, v_wf o a -> wr_be a = write_be kb (v_rep o a).
  Hypothesis HU : Forall (fun x => x < 2 ^ w) U.

  Notation mrows := (Blake.rows).
  Notation model_round := (Blake.round_body (addw w) N.lxor (rotrw w k1) (rotrw w k2) (rotrw w k3) (rotrw w k4) U).

  Lemma x_msgs_ok mw sigma : Forall (fun x => x < 2 ^ w) mw ->
    let '(c0, c1, d0, d1) := x_msgs U mw sigma in
    words_ok w 4 c0 /\ words_ok w 4 c1 /\ words_ok w 4 d0 /\ words_ok w 4 d1.
  Proof.
    intros Hm. unfold x_msgs.
    assert (P : forall a b, N.lxor (nth a mw 0) (nth b U 0) < 2 ^ w).
    { intros a b. apply lxor_lt; apply nth_Forall; try assumption; apply pow2_pos. }
    split4; (split; [reflexivity | repeat (apply Forall_cons; [apply P|]); apply Forall_nil]).
  Qed.

  (** one loop iteration at the lane instance is the model's [round_body] *)
  Lemma lane_step_is_model mw sigma : forall a0 a1 a2 a3 b0 b1 b2 b3 c0 c1 c2 c3 d0 d1 d2 d3 : N,
    b_step (lane_vops w) k1 k2 k3 k4
           ([a0; a1; a2; a3], [b0; b1; b2; b3], [c0; c1; c2; c3], [d0; d1; d2; d3]) (x_msgs U mw sigma) =
    model_round mw ([a0; a1; a2; a3], [b0; b1; b2; b3], [c0; c1; c2; c3], [d0; d1; d2; d3]) sigma.
  Proof. intros. reflexivity. Qed.

  Lemma sim_shape (x : brows o) (y : brows (lane_vops w)) : b_sim o w x y ->
    let '(a, b, c, d) := y in length a = 4%nat /\ length b = 4%nat /\ length c = 4%nat /\ length d = 4%nat.
  Proof.
    destruct x as [[[xa xb] xc] xd], y as [[[a b] c] d]. intros ([Wa <-] & [Wb <-] & [Wc <-] & [Wd <-]).
    split4; apply Hok; assumption.
  Qed.

  Lemma rounds_is_model mw : Forall (fun x => x < 2 ^ w) mw ->
    forall sigmas (x : brows o) (y : brows (lane_vops w)), b_sim o w x y ->
      b_sim o w (b_rounds o k1 k2 k3 k4 x (map (x_msgs U mw) sigmas)) (fold_left (model_round mw) sigmas y).
  Proof.
    intros Hm. unfold b_rounds.
    induction sigmas as [|sigma sigmas IH]; intros x y S; cbn [map fold_left]; [exact S|].
    apply IH.
    pose proof (b_step_sim o w ks k1 k2 k3 k4 R Hks x y (x_msgs U mw sigma) (x_msgs_ok mw sigma Hm) S) as S'.
    pose proof (sim_shape x y S) as Sh. destruct y as [[[a b] c] d]. destruct Sh as (La & Lb & Lc & Ld).
    explode a. explode b. explode c. explode d.
    rewrite lane_step_is_model in S'. exact S'.
  Qed.

  Theorem put_block_words_is_model : forall h mw t,
    bytes_ok (kb * 4) (fst h) -> bytes_ok (kb * 4) (snd h) ->
    Forall (fun x => x < 2 ^ w) mw -> fst t < 2 ^ w -> snd t < 2 ^ w ->
    x_put_block_words o k1 k2 k3 k4 U nrounds unpack into h mw t =
    let r := Blake.put_block_words (addw w) N.lxor (rotrw w k1) (rotrw w k2) (rotrw w k3) (rotrw w k4) U nrounds
               (words_le kb (fst h), words_le kb (snd h)) mw t in
    (bytes_le kb (fst r), bytes_le kb (snd r)).
  Proof.
    intros [h0 h1] mw [t0 t1] H0 H1 Hm Ht0 Ht1. cbn [fst snd] in *.
    unfold x_put_block_words, Blake.put_block_words. cbn [fst snd].
    pose proof (Hun _ H0) as R0. pose proof (Hun _ H1) as R1.
    assert (PU : forall i, nth i U 0 < 2 ^ w) by (intros i; apply nth_Forall; [exact HU | apply pow2_pos]).
    assert (RU0 : rel o (v_vec o [nth 0 U 0; nth 1 U 0; nth 2 U 0; nth 3 U 0]) [nth 0 U 0; nth 1 U 0; nth 2 U 0; nth 3 U 0]).
    { apply (r_vec _ _ _ _ R). split; [reflexivity | repeat (apply Forall_cons; [apply PU|]); apply Forall_nil]. }
    assert (RU1 : rel o (v_vec o [nth 4 U 0; nth 5 U 0; nth 6 U 0; nth 7 U 0]) [nth 4 U 0; nth 5 U 0; nth 6 U 0; nth 7 U 0]).
    { apply (r_vec _ _ _ _ R). split; [reflexivity | repeat (apply Forall_cons; [apply PU|]); apply Forall_nil]. }
    assert (RT : rel o (v_vec o [t0; t0; t1; t1]) [t0; t0; t1; t1]).
    { apply (r_vec _ _ _ _ R). split; [reflexivity | repeat (apply Forall_cons; [assumption|]); apply Forall_nil]. }
    pose proof (r_xor _ _ _ _ R _ _ _ _ RU1 RT) as R3.
    set (x0 := (unpack h0, unpack h1, v_vec o [nth 0 U 0; nth 1 U 0; nth 2 U 0; nth 3 U 0],
                o_xor o (v_vec o [nth 4 U 0; nth 5 U 0; nth 6 U 0; nth 7 U 0]) (v_vec o [t0; t0; t1; t1]))).
    match goal with |- context [fold_left _ _ ?y] => set (y0 := y) end.
    assert (S0 : b_sim o w x0 y0) by (unfold b_sim, x0, y0; split4; assumption).
    pose proof (rounds_is_model mw Hm (firstn nrounds Blake.SIGMA) x0 y0 S0) as S1.
    destruct (b_rounds o k1 k2 k3 k4 x0 (map (x_msgs U mw) (firstn nrounds Blake.SIGMA))) as [[[xa xb] xc] xd].
    destruct (fold_left (model_round mw) (firstn nrounds Blake.SIGMA) y0) as [[[ya yb] yc] yd].
    destruct S1 as (Sa & Sb & Sc & Sd). unfold t4_0, t4_1, t4_2, t4_3. cbn [fst snd].
    pose proof (r_xor _ _ _ _ R _ _ _ _ (r_xor _ _ _ _ R _ _ _ _ R0 Sa) Sc) as [W0 E0].
    pose proof (r_xor _ _ _ _ R _ _ _ _ (r_xor _ _ _ _ R _ _ _ _ R1 Sb) Sd) as [W1 E1].
    rewrite (Hin _ W0), (Hin _ W1), E0, E1. reflexivity.
  Qed.

  Theorem finalize_is_model : forall h, bytes_ok (kb * 4) (fst h) -> bytes_ok (kb * 4) (snd h) ->
    x_finalize o unpack wr_be h = Blake.compressor_finalize kb (words_le kb (fst h), words_le kb (snd h)).
  Proof.
    intros [h0 h1] H0 H1. cbn [fst snd] in *. unfold x_finalize, Blake.compressor_finalize. cbn [fst snd].
    destruct (Hun _ H0) as [W0 E0]. destruct (Hun _ H1) as [W1 E1].
    rewrite (Hbe _ W0), (Hbe _ W1), E0, E1. reflexivity.
  Qed.
End PutBlock.

Lemma U256_ok : Forall (fun x => x < 2 ^ 32) Blake.BLAKE256_U.
Proof. repeat (apply Forall_cons; [reflexivity|]). apply Forall_nil. Qed.
Lemma U512_ok : Forall (fun x => x < 2 ^ 64) Blake.BLAKE512_U.
Proof. repeat (apply Forall_cons; [reflexivity|]). apply Forall_nil. Qed.

(** the model's chaining value of two storages, and back *)
Definition h_words (kb : nat) (h : list N * list N) : list N * list N := (words_le kb (fst h), words_le kb (snd h)).
Definition h_bytes (kb : nat) (r : list N * list N) : list N * list N := (bytes_le kb (fst r), bytes_le kb (snd r)).

Theorem put_block32_is_model : forall m, xmachine_refines m ->
  forall h block t0 t1, bytes_ok 16 (fst h) -> bytes_ok 16 (snd h) -> Forall is_byte block ->
    t0 < 2 ^ 32 -> t1 < 2 ^ 32 ->
    xm_put_block32 m h block (t0, t1) = h_bytes 4 (Blake.put_block32 (h_words 4 h) block (t0, t1)).
Proof.
  intros m X h block t0 t1 H0 H1 Hb Ht0 Ht1. destruct (xr_base _ X) as (R4 & _).
  pose proof (xr_n _ X) as NR. unfold xm_put_block32, Blake.put_block32, h_bytes, h_words.
  apply (put_block_words_is_model (m_u32x4 (xm_base m)) 4 ks32 16 12 8 7 Blake.BLAKE256_U 14
           (v4_unpack (xm_n m)) (v4_into (xm_n m)) R4 incl_blake32_ks32
           (nr_ok _ _ NR) (nr_unpack _ _ NR) (nr_into _ _ NR) U256_ok h _ (t0, t1)); try assumption.
  exact (read_words_be_lt 4 block Hb).
Qed.

Theorem put_block64_is_model : forall m, xmachine_refines m ->
  forall h block t0 t1, bytes_ok 32 (fst h) -> bytes_ok 32 (snd h) -> Forall is_byte block ->
    t0 < 2 ^ 64 -> t1 < 2 ^ 64 ->
    xm_put_block64 m h block (t0, t1) = h_bytes 8 (Blake.put_block64 (h_words 8 h) block (t0, t1)).
Proof.
  intros m X h block t0 t1 H0 H1 Hb Ht0 Ht1. destruct (xr_base _ X) as (_ & _ & R64 & _).
  pose proof (xr_h _ X) as HR. unfold xm_put_block64, Blake.put_block64, h_bytes, h_words.
  apply (put_block_words_is_model (m_u64x4 (xm_base m)) 8 ks64 32 25 16 11 Blake.BLAKE512_U 16
           (d4_unpack (xm_h m)) (d4_into (xm_h m)) R64 incl_blake64_ks64
           (hr_ok _ _ HR) (hr_unpack _ _ HR) (hr_into _ _ HR) U512_ok h _ (t0, t1)); try assumption.
  exact (read_words_be_lt 8 block Hb).
Qed.

Theorem finalize32_is_model : forall m, xmachine_refines m ->
  forall h, bytes_ok 16 (fst h) -> bytes_ok 16 (snd h) ->
    xm_finalize32 m h = Blake.compressor_finalize 4 (h_words 4 h).
Proof.
  intros m X h H0 H1. pose proof (xr_n _ X) as NR.
  exact (finalize_is_model (m_u32x4 (xm_base m)) 4 (v4_unpack (xm_n m)) (v4_write_be (xm_n m))
           (nr_unpack _ _ NR) (nr_write_be _ _ NR) h H0 H1).
Qed.
Theorem finalize64_is_model : forall m, xmachine_refines m ->
  forall h, bytes_ok 32 (fst h) -> bytes_ok 32 (snd h) ->
    xm_finalize64 m h = Blake.compressor_finalize 8 (h_words 8 h).
Proof.
  intros m X h H0 H1. pose proof (xr_h _ X) as HR.
  exact (finalize_is_model (m_u64x4 (xm_base m)) 8 (d4_unpack (xm_h m)) (d4_write_be (xm_h m))
           (hr_unpack _ _ HR) (hr_write_be _ _ HR) h H0 H1).
Qed.

(** machine independence as corollaries *)
Theorem put_block32_machine_indep : forall m, xmachine_refines m ->
  forall h block t0 t1, bytes_ok 16 (fst h) -> bytes_ok 16 (snd h) -> Forall is_byte block ->
    t0 < 2 ^ 32 -> t1 < 2 ^ 32 ->
    xm_put_block32 m h block (t0, t1) = xm_put_block32 lane_xm h block (t0, t1).
Proof.
  intros m X h block t0 t1 H0 H1 Hb Ht0 Ht1.
  rewrite (put_block32_is_model m X) by assumption.
  now rewrite (put_block32_is_model lane_xm lane_xm_refines) by assumption.
Qed.
Theorem put_block64_machine_indep : forall m, xmachine_refines m ->
  forall h block t0 t1, bytes_ok 32 (fst h) -> bytes_ok 32 (snd h) -> Forall is_byte block ->
    t0 < 2 ^ 64 -> t1 < 2 ^ 64 ->
    xm_put_block64 m h block (t0, t1) = xm_put_block64 lane_xm h block (t0, t1).
Proof.
  intros m X h block t0 t1 H0 H1 Hb Ht0 Ht1.
  rewrite (put_block64_is_model m X) by assumption.
  now rewrite (put_block64_is_model lane_xm lane_xm_refines) by assumption.
Qed.

Print Assumptions put_block32_is_model.
Print Assumptions put_block64_is_model.
Print Assumptions finalize32_is_model.
Print Assumptions finalize64_is_model.
