(** C12 portable part: swapN exchanges adjacent N-bit groups of every 128-bit lane (bit j of the result = bit (j xor N) of the operand); Words4/LaneWords4 of u32x4_generic are the named permutations. *)
From Coq Require Import NArith List Bool Arith Lia.
From CC Require Import Lib.Words Lib.Bytes Lib.ListX Model.PpvSoft Model.PpvGeneric.
From CC Require Spec.Lanes.
From CC Require Import Proofs.PpvGenericLib Proofs.PpvGenericOps.
Import ListNotations.
Local Open Scope N_scope.


(** * finite sweeps *)
Definition upto (n : nat) : list N := map N.of_nat (seq 0 n).
Lemma sweep (P : N -> bool) n : forallb P (upto n) = true -> forall j, j < N.of_nat n -> P j = true.
Proof.
  intros H j Hj. rewrite forallb_forall in H. apply H. unfold upto.
  apply in_map_iff. exists (N.to_nat j). split; [apply N2Nat.id|]. apply in_seq. lia.
Qed.

(** * bits of a 128-bit lane in terms of its words *)
Fixpoint lane_bit (m : N) (ws : list N) (j : N) : bool :=
  match ws with
  | [] => false
  | w :: r => if j <? m then N.testbit w j else lane_bit m r (j - m)
  end.
Lemma lane_bit_join k ws j :
  N.testbit (le_join (bytes_le k ws)) j = lane_bit (8 * N.of_nat k) ws j.
Proof.
  revert j. induction ws as [|w r IH]; intro j; cbn [bytes_le flat_map lane_bit le_join].
  - apply N.bits_0.
  - fold (bytes_le k r). rewrite le_join_app, le_split_length, le_join_split_wrap.
    rewrite testbit_add_shiftl by apply wrap_lt. rewrite testbit_wrap, IH.
    destruct (N.ltb_spec j (8 * N.of_nat k)); [now rewrite andb_true_r | reflexivity].
Qed.

(** a word function that exchanges [n]-bit groups inside each [m]-bit word exchanges them in the lane *)
Definition grp_ok (m n : N) (j : N) : bool :=
  if j <? m then N.lxor j n <? m
  else (m <=? N.lxor j n) && (N.lxor j n - m =? N.lxor (j - m) n).
Lemma lane_bit_map m n g ws j :
  forallb (grp_ok m n) (upto 128) = true -> j < 128 ->
  Forall (fun x => forall i, i < m -> N.testbit (g x) i = N.testbit x (N.lxor i n)) ws ->
  lane_bit m (map g ws) j = lane_bit m ws (N.lxor j n).
Proof.
  intros Hs. revert j. induction ws as [|w r IH]; intros j Hj Hw; [reflexivity|].
  inversion Hw as [|? ? Hw1 Hw2]; subst. cbn [map lane_bit].
  pose proof (sweep _ 128 Hs j Hj) as Hg. unfold grp_ok in Hg.
  destruct (N.ltb_spec j m) as [H|H].
  - rewrite Hg. now apply Hw1.
  - apply andb_prop in Hg. destruct Hg as [G1 G2]. apply N.leb_le in G1. apply N.eqb_eq in G2.
    destruct (N.ltb_spec (N.lxor j n) m); [lia|]. rewrite G2. apply IH; [lia | exact Hw2].
Qed.

(** per-word facts *)
Definition sf (lo hi n x : N) : N := N.lor (wrap 64 (N.shiftl (N.land x lo) n)) (N.shiftr (N.land x hi) n).
Definition sf_ok (lo hi n i : N) : bool :=
  let a := (n <=? i) && N.testbit lo (i - n) in
  let b := N.testbit hi (i + n) in
  xorb a b && (if a then N.lxor i n =? i - n else N.lxor i n =? i + n).
Lemma sf_bit lo hi n x i :
  forallb (sf_ok lo hi n) (upto 64) = true -> i < 64 ->
  N.testbit (sf lo hi n x) i = N.testbit x (N.lxor i n).
Proof.
  intros Hs Hi. pose proof (sweep _ 64 Hs i Hi) as H. unfold sf_ok in H.
  unfold sf. rewrite N.lor_spec, testbit_wrap, testbit_shiftl, N.shiftr_spec', !N.land_spec.
  destruct (N.ltb_spec i 64); [|lia]. rewrite andb_true_r.
  destruct (N.leb_spec n i) as [Hn|Hn]; cbn [andb] in H.
  - destruct (N.testbit lo (i - n)), (N.testbit hi (i + n)); cbn in H; try discriminate;
      apply N.eqb_eq in H; rewrite H; now rewrite ?andb_true_r, ?andb_false_r, ?orb_false_r.
  - destruct (N.testbit hi (i + n)); cbn in H; try discriminate.
    apply N.eqb_eq in H; rewrite H. now rewrite andb_true_r.
Qed.

Definition rotl_ok (w r i : N) : bool := N.lxor i r =? (if r <=? i then i - r else i + (w - r)).
Lemma rotl_bit w r x i :
  forallb (rotl_ok w r) (upto (N.to_nat w)) = true -> r <= w -> x < 2 ^ w -> i < w ->
  N.testbit (rotlw w r x) i = N.testbit x (N.lxor i r).
Proof.
  intros Hs Hr Hx Hi. assert (Hi' : i < N.of_nat (N.to_nat w)) by lia.
  pose proof (sweep _ _ Hs i Hi') as H. unfold rotl_ok in H. apply N.eqb_eq in H.
  rewrite testbit_rotlw by assumption. destruct (N.ltb_spec i w); [|lia]. rewrite H.
  now destruct (N.leb_spec r i).
Qed.

Definition s64 (x : N) : N := N.lor (wrap 128 (N.shiftl x 64)) (N.shiftr x 64).
Lemma s64_bit x i : x < 2 ^ 128 -> i < 128 -> N.testbit (s64 x) i = N.testbit x (N.lxor i 64).
Proof.
  intros Hx Hi. assert (Hs : forallb (rotl_ok 128 64) (upto 128) = true) by (vm_compute; reflexivity).
  pose proof (sweep _ 128 Hs i Hi) as H. unfold rotl_ok in H. apply N.eqb_eq in H. rewrite H.
  unfold s64. rewrite N.lor_spec, testbit_wrap, testbit_shiftl, N.shiftr_spec'.
  destruct (N.ltb_spec i 128); [|lia]. rewrite andb_true_r.
  destruct (N.leb_spec 64 i).
  - rewrite (testbit_high 128 x (i + 64)) by (assumption || lia). now rewrite orb_false_r.
  - reflexivity.
Qed.

(** * swapN: every 128-bit lane has its adjacent N-bit groups exchanged *)
Definition lane (t : vt) (v : list N) : N := le_join (img t v).
Definition is_group_swap (n : N) (t : vt) (v : list N) (o : outcome (list N)) : Prop :=
  exists r, o = Ok r /\ wfv t r /\
            forall j, j < 128 -> N.testbit (lane t r) j = N.testbit (lane t v) (N.lxor j n).

Lemma swap_via_imap t k g n v :
  (k = 4 \/ k = 8 \/ k = 16)%nat ->
  forallb (grp_ok (8 * N.of_nat k) n) (upto 128) = true ->
  (forall x i, x < 2 ^ (8 * N.of_nat k) -> i < 8 * N.of_nat k -> N.testbit (g x) i = N.testbit x (N.lxor i n)) ->
  wfv t v ->
  is_group_swap n t v (Ok (words_le (vt_k t) (imap k g (img t v)))).
Proof.
  intros Hk Hs Hg Hv. pose proof (img_wfb t v Hv) as Hb.
  assert (Hi : wfb (imap k g (img t v))) by now apply imap_wfb.
  eexists. split; [reflexivity|]. split; [now apply words_wfv|].
  intros j Hj. unfold lane. rewrite img_words by exact Hi.
  unfold imap at 1. rewrite lane_bit_join.
  assert (F : Forall (fun x => forall i, i < 8 * N.of_nat k -> N.testbit (g x) i = N.testbit x (N.lxor i n))
                     (words_le k (img t v))).
  { pose proof (words_le_Forall_word k (img t v) (proj2 Hb)) as F.
    eapply Forall_impl; [|exact F]. cbn beta. intros x Hx i Hi'. now apply Hg. }
  rewrite (lane_bit_map _ n g _ j Hs Hj F).
  rewrite <- lane_bit_join. f_equal. f_equal. destruct Hb as [L B].
  apply bytes_words_le; [lia | rewrite L; destruct Hk as [->|[->| ->]]; reflexivity | exact B].
Qed.

Lemma swap_formula_eq p lo hi n x : n < 64 -> swap_formula p lo hi n x = Ok (sf lo hi n x).
Proof.
  intros Hn. unfold swap_formula, shl_chk, shr_chk. apply N.ltb_lt in Hn. rewrite Hn. reflexivity.
Qed.

Section Swaps.
  Variable p : profile.
  Variable t : vt.
  Variable v : list N.
  Hypothesis Hv : wfv t v.
  Theorem g_swap1_groups : is_group_swap 1 t v (g_swap1 p t v).
  Proof.
    unfold g_swap1. rewrite (qmap_img p t _ (sf 0x5555555555555555 0xaaaaaaaaaaaaaaaa 1))
      by (auto; intro; now apply swap_formula_eq).
    apply (swap_via_imap t 8); [lia | vm_compute; reflexivity | | exact Hv].
    intros x i _ Hi. apply sf_bit; [vm_compute; reflexivity | exact Hi].
  Qed.
  Theorem g_swap2_groups : is_group_swap 2 t v (g_swap2 p t v).
  Proof.
    unfold g_swap2. rewrite (qmap_img p t _ (sf 0x3333333333333333 0xcccccccccccccccc 2))
      by (auto; intro; now apply swap_formula_eq).
    apply (swap_via_imap t 8); [lia | vm_compute; reflexivity | | exact Hv].
    intros x i _ Hi. apply sf_bit; [vm_compute; reflexivity | exact Hi].
  Qed.
  Theorem g_swap4_groups : is_group_swap 4 t v (g_swap4 p t v).
  Proof.
    unfold g_swap4. rewrite (qmap_img p t _ (sf 0x0f0f0f0f0f0f0f0f 0xf0f0f0f0f0f0f0f0 4))
      by (auto; intro; now apply swap_formula_eq).
    apply (swap_via_imap t 8); [lia | vm_compute; reflexivity | | exact Hv].
    intros x i _ Hi. apply sf_bit; [vm_compute; reflexivity | exact Hi].
  Qed.
  Theorem g_swap8_groups : is_group_swap 8 t v (g_swap8 p t v).
  Proof.
    unfold g_swap8. rewrite (qmap_img p t _ (sf 0x00ff00ff00ff00ff 0xff00ff00ff00ff00 8))
      by (auto; intro; now apply swap_formula_eq).
    apply (swap_via_imap t 8); [lia | vm_compute; reflexivity | | exact Hv].
    intros x i _ Hi. apply sf_bit; [vm_compute; reflexivity | exact Hi].
  Qed.
  Theorem g_swap16_groups : is_group_swap 16 t v (g_swap16 p t v).
  Proof.
    unfold g_swap16. rewrite (dmap_img p t _ (fun x => rotate_left 32 x 16)) by (auto || reflexivity).
    apply (swap_via_imap t 4); [lia | vm_compute; reflexivity | | exact Hv].
    intros x i Hx Hi. apply (rotl_bit 32 16); [vm_compute; reflexivity | lia | exact Hx | exact Hi].
  Qed.
  Theorem g_swap32_groups : is_group_swap 32 t v (g_swap32 p t v).
  Proof.
    unfold g_swap32. rewrite (qmap_img p t _ (fun x => rotate_left 64 x 32)) by (auto || reflexivity).
    apply (swap_via_imap t 8); [lia | vm_compute; reflexivity | | exact Hv].
    intros x i Hx Hi. apply (rotl_bit 64 32); [vm_compute; reflexivity | lia | exact Hx | exact Hi].
  Qed.
  Theorem g_swap64_groups : is_group_swap 64 t v (g_swap64 p t v).
  Proof.
    unfold g_swap64. rewrite (omap_img p t _ s64) by (auto || reflexivity).
    apply (swap_via_imap t 16); [lia | vm_compute; reflexivity | | exact Hv].
    intros x i Hx Hi. now apply s64_bit.
  Qed.
End Swaps.


(** * Words4 / LaneWords4 of u32x4_generic *)
Lemma s64_swap lo hi : lo < 2 ^ 64 -> hi < 2 ^ 64 -> s64 (lo + N.shiftl hi 64) = hi + N.shiftl lo 64.
Proof.
  intros Hlo Hhi. unfold s64.
  assert (E1 : N.shiftr (lo + N.shiftl hi 64) 64 = hi).
  { rewrite N.shiftr_div_pow2, N.shiftl_mul_pow2, N.div_add by apply pow2_nz.
    rewrite N.div_small by exact Hlo. reflexivity. }
  assert (E2 : wrap 128 (N.shiftl (lo + N.shiftl hi 64) 64) = N.shiftl lo 64).
  { rewrite wrap_mod, !N.shiftl_mul_pow2.
    replace ((lo + hi * 2 ^ 64) * 2 ^ 64) with (lo * 2 ^ 64 + hi * 2 ^ 128)
      by (change (2 ^ 128) with (2 ^ 64 * 2 ^ 64); ring).
    rewrite N.mod_add by apply pow2_nz. apply N.mod_small.
    change (2 ^ 128) with (2 ^ 64 * 2 ^ 64). apply N.mul_lt_mono_pos_r; [reflexivity | exact Hlo]. }
  rewrite E1, E2, N.lor_comm. now apply lor_add_shiftl.
Qed.
Lemma s64_join lo hi : length lo = 8%nat -> length hi = 8%nat -> Forall is_byte lo -> Forall is_byte hi ->
  le_split 16 (s64 (le_join (lo ++ hi))) = hi ++ lo.
Proof.
  intros Ll Lh Bl Bh. rewrite le_join_app, Ll. change (8 * N.of_nat 8) with 64.
  rewrite s64_swap by (apply (le_join_lt' 8); assumption).
  replace 64 with (8 * N.of_nat (length hi)) by (rewrite Lh; reflexivity).
  rewrite <- le_join_app. apply le_split_join'; [rewrite app_length, Ll, Lh; reflexivity|].
  apply Forall_app; split; assumption.
Qed.
Lemma imap16_s64 s : wfb s -> imap 16 s64 s = skipn 8 s ++ firstn 8 s.
Proof.
  intros [L B]. unfold imap. rewrite words16 by exact L. cbn [map bytes_le flat_map]. rewrite app_nil_r.
  rewrite <- (firstn_skipn 8 s) at 1.
  apply s64_join; [rewrite firstn_length, L; reflexivity | rewrite skipn_length, L; reflexivity
                  | now apply Forall_firstn' | now apply Forall_skipn'].
Qed.

Lemma shuffle2301_img s : wfb s ->
  words_le (vt_k U32x4) (skipn 8 s ++ firstn 8 s) = Lanes.shuffle2301 (words_le (vt_k U32x4) s).
Proof. intros [L B]. explode s. reflexivity. Qed.
Theorem g32_shuffle2301_perm p v : wfv U32x4 v -> g32_shuffle2301 p v = Ok (Lanes.shuffle2301 v).
Proof.
  intros Hv. unfold g32_shuffle2301, g_swap64.
  rewrite (omap_img p U32x4 _ s64) by (auto || reflexivity).
  pose proof (img_wfb _ _ Hv) as Hs. rewrite imap16_s64 by exact Hs.
  rewrite shuffle2301_img by exact Hs. now rewrite words_img.
Qed.
Theorem g32_shuffle1230_perm v : wfv U32x4 v -> g32_shuffle1230 v = Lanes.shuffle1230 v.
Proof. intros [L _]. cbn in L. explode v. reflexivity. Qed.
Theorem g32_shuffle3012_perm v : wfv U32x4 v -> g32_shuffle3012 v = Lanes.shuffle3012 v.
Proof. intros [L _]. cbn in L. explode v. reflexivity. Qed.
