(** C13, x86 wide types: StoreBytes of x2<W,G> / x4<W> over registers (soft.rs: the slice is cut
    in 2 / 4 parts and each part is read / written by the element) — SSE-family types for every
    [s3] and word size, and u32x4x4_avx2 = x2<u32x4x2_avx2,G0>. Stated byte order, wrong length
    panics, round trip. *)
From Coq Require Import NArith List Lia Bool Arith.
From CC Require Import Lib.Words Lib.Bytes Lib.ListX Model.Intrinsics Model.PpvSse Model.PpvAvx2 Spec.Lanes
  Proofs.IntrinsicsLemmas Proofs.PpvSseWords Proofs.PpvAvx2Words Proofs.PpvAvx2Move Proofs.PpvStore
  Proofs.PpvWideLift Proofs.PpvWideSse Proofs.PpvWideMove.
Import ListNotations.
Local Open Scope N_scope.

Lemma skipn_add {A} a b (l : list A) : skipn (a + b) l = skipn b (skipn a l).
Proof. revert l. induction a as [|a IH]; intros [|x l]; cbn [Nat.add skipn]; try reflexivity; [now destruct b|apply IH]. Qed.

(** * the wrappers over an element reader / writer that checks the slice length ([m] bytes) and
    then applies [g] to the bytes (identity for the little-endian forms, bswap for big-endian) *)
Section Wrap.
  Variable m : nat.
  Variables (rd : list N -> outcome reg) (g : reg -> reg).
  Hypothesis rd_bad : forall bs, length bs <> m -> rd bs = Panic.
  Hypothesis rd_ok : forall bs, length bs = m -> rd bs = Ok (g bs).

  Definition cut2 (bs : list N) : list reg := [firstn m bs; skipn m bs].
  Definition cut4 (bs : list N) : list reg :=
    [firstn m bs; firstn m (skipn m bs); firstn m (skipn (2 * m) bs); skipn (3 * m) bs].

  Lemma div2_facts L : (L = 2 * (L / 2) \/ L = 2 * (L / 2) + 1)%nat.
  Proof. pose proof (Nat.div_mod_eq L 2). pose proof (Nat.mod_upper_bound L 2). lia. Qed.
  Lemma div4_facts L : (4 * (L / 4) <= L < 4 * (L / 4) + 4)%nat.
  Proof. pose proof (Nat.div_mod_eq L 4). pose proof (Nat.mod_upper_bound L 4). lia. Qed.

  Lemma x2_read_len bs : length bs <> (2 * m)%nat -> x2_read rd bs = Panic.
  Proof.
    intros H. unfold x2_read. cbv zeta. set (h := Nat.div (length bs) 2).
    pose proof (div2_facts (length bs)) as D. fold h in D.
    destruct (Nat.eq_dec h m) as [E|E].
    - rewrite (rd_ok (firstn h bs)) by (rewrite firstn_length; lia). cbn [obind].
      rewrite (rd_bad (skipn h bs)) by (rewrite skipn_length; lia). reflexivity.
    - rewrite (rd_bad (firstn h bs)) by (rewrite firstn_length; lia). reflexivity.
  Qed.
  Lemma x2_read_ok bs : length bs = (2 * m)%nat -> x2_read rd bs = Ok (xn_unop g (cut2 bs)).
  Proof.
    intros H. unfold x2_read. cbv zeta. replace (Nat.div (length bs) 2) with m
      by (rewrite H, Nat.mul_comm, Nat.div_mul; lia).
    rewrite (rd_ok (firstn m bs)) by (rewrite firstn_length; lia). cbn [obind].
    rewrite (rd_ok (skipn m bs)) by (rewrite skipn_length; lia). reflexivity.
  Qed.
  Lemma x4_read_len bs : length bs <> (4 * m)%nat -> x4_read rd bs = Panic.
  Proof.
    intros H. unfold x4_read. cbv zeta. set (n := Nat.div (length bs) 4).
    pose proof (div4_facts (length bs)) as D. fold n in D.
    destruct (Nat.eq_dec n m) as [E|E].
    - rewrite (rd_ok (firstn n bs)) by (rewrite firstn_length; lia). cbn [obind].
      rewrite (rd_ok (firstn n (skipn n bs))) by (rewrite firstn_length, skipn_length; lia). cbn [obind].
      rewrite (rd_ok (firstn n (skipn (2 * n) bs))) by (rewrite firstn_length, skipn_length; lia). cbn [obind].
      rewrite (rd_bad (skipn (3 * n) bs)) by (rewrite skipn_length; lia). reflexivity.
    - rewrite (rd_bad (firstn n bs)) by (rewrite firstn_length; lia). reflexivity.
  Qed.
  Lemma x4_read_ok bs : length bs = (4 * m)%nat -> x4_read rd bs = Ok (xn_unop g (cut4 bs)).
  Proof.
    intros H. unfold x4_read. cbv zeta. replace (Nat.div (length bs) 4) with m
      by (rewrite H, Nat.mul_comm, Nat.div_mul; lia).
    rewrite (rd_ok (firstn m bs)) by (rewrite firstn_length; lia). cbn [obind].
    rewrite (rd_ok (firstn m (skipn m bs))) by (rewrite firstn_length, skipn_length; lia). cbn [obind].
    rewrite (rd_ok (firstn m (skipn (2 * m) bs))) by (rewrite firstn_length, skipn_length; lia). cbn [obind].
    rewrite (rd_ok (skipn (3 * m) bs)) by (rewrite skipn_length; lia). reflexivity.
  Qed.

  Variable wr : reg -> nat -> outcome (list N).
  Hypothesis wr_bad : forall x n, n <> m -> wr x n = Panic.
  Hypothesis wr_ok : forall x, wr x m = Ok (g x).

  Lemma x2_write_len v n : n <> (2 * m)%nat -> x2_write wr [] v n = Panic.
  Proof.
    intros H. unfold x2_write. cbv zeta. set (h := Nat.div n 2).
    pose proof (div2_facts n) as D. fold h in D.
    destruct (Nat.eq_dec h m) as [E|E].
    - rewrite E, wr_ok. cbn [obind]. rewrite wr_bad by lia. reflexivity.
    - rewrite wr_bad by exact E. reflexivity.
  Qed.
  Lemma x2_write_ok v : length v = 2%nat -> x2_write wr [] v (2 * m) = Ok (concat (xn_unop g v)).
  Proof.
    intros L. explode v. unfold x2_write. cbv zeta.
    replace (Nat.div (2 * m) 2) with m by (rewrite Nat.mul_comm, Nat.div_mul; lia).
    replace (2 * m - m)%nat with m by lia. cbn [nth]. rewrite !wr_ok. cbn [obind xn_unop map concat].
    now rewrite app_nil_r.
  Qed.
  Lemma x4_write_len v n : n <> (4 * m)%nat -> x4_write wr [] v n = Panic.
  Proof.
    intros H. unfold x4_write. cbv zeta. set (q := Nat.div n 4).
    pose proof (div4_facts n) as D. fold q in D.
    destruct (Nat.eq_dec q m) as [E|E].
    - rewrite E, !wr_ok. cbn [obind]. rewrite wr_bad by lia. reflexivity.
    - rewrite wr_bad by exact E. reflexivity.
  Qed.
  Lemma x4_write_ok v : length v = 4%nat -> x4_write wr [] v (4 * m) = Ok (concat (xn_unop g v)).
  Proof.
    intros L. explode v. unfold x4_write. cbv zeta.
    replace (Nat.div (4 * m) 4) with m by (rewrite Nat.mul_comm, Nat.div_mul; lia).
    replace (4 * m - 3 * m)%nat with m by lia. cbn [nth]. rewrite !wr_ok. cbn [obind xn_unop map concat].
    now rewrite app_nil_r.
  Qed.

  (** the parts of a well-formed image are well-formed registers, in memory order *)
  Lemma cut2_wf bs : wf (2 * m) bs -> Forall (wf m) (cut2 bs) /\ concat (cut2 bs) = bs.
  Proof.
    intros [L B]. split.
    - repeat constructor.
      + rewrite firstn_length. lia. + now apply Forall_firstn'.
      + rewrite skipn_length. lia. + now apply Forall_skipn'.
    - cbn [cut2 concat]. rewrite app_nil_r. apply firstn_skipn.
  Qed.
  Lemma cut4_wf bs : wf (4 * m) bs -> Forall (wf m) (cut4 bs) /\ concat (cut4 bs) = bs.
  Proof.
    intros [L B]. split.
    - repeat constructor; rewrite ?firstn_length, ?skipn_length; try lia;
        repeat first [apply Forall_firstn' | apply Forall_skipn']; assumption.
    - cbn [cut4 concat]. rewrite app_nil_r.
      replace (3 * m)%nat with (2 * m + m)%nat by lia. rewrite (skipn_add (2 * m) m bs).
      rewrite firstn_skipn.
      replace (2 * m)%nat with (m + m)%nat by lia. rewrite (skipn_add m m bs).
      rewrite firstn_skipn. apply firstn_skipn.
  Qed.
End Wrap.

Lemma xn_unop_id {W} (v : list W) : xn_unop (fun x => x) v = v.
Proof. apply map_id. Qed.
Lemma mul_mod0 c m k : (0 < k)%nat -> (m mod k = 0)%nat -> ((c * m) mod k = 0)%nat.
Proof.
  intros Hk Hm. apply Nat.div_exact in Hm; [|lia]. rewrite Hm.
  replace (c * (k * (m / k)))%nat with ((c * (m / k)) * k)%nat by lia. apply Nat.mod_mul. lia.
Qed.

(** * element readers / writers of one register type and the wrappers over them *)
Section Final.
  Variables (m k : nat).
  Hypothesis Hk : (0 < k)%nat.
  Hypothesis Hm : (m mod k = 0)%nat.
  Variables (rdle rdbe : list N -> outcome reg) (wrle wrbe : reg -> nat -> outcome (list N)) (bsw : reg -> reg).
  Hypothesis rdle_bad : forall bs, length bs <> m -> rdle bs = Panic.
  Hypothesis rdle_ok : forall bs, length bs = m -> rdle bs = Ok ((fun x => x) bs).
  Hypothesis rdbe_bad : forall bs, length bs <> m -> rdbe bs = Panic.
  Hypothesis rdbe_ok : forall bs, length bs = m -> rdbe bs = Ok (bsw bs).
  Hypothesis wrle_bad : forall x n, n <> m -> wrle x n = Panic.
  Hypothesis wrle_ok : forall x, wrle x m = Ok ((fun x => x) x).
  Hypothesis wrbe_bad : forall x n, n <> m -> wrbe x n = Panic.
  Hypothesis wrbe_ok : forall x, wrbe x m = Ok (bsw x).
  Hypothesis bsw_lane : forall x, wf m x -> bsw x = bytes_le k (v_bswap (8 * N.of_nat k) (words_le k x)).

  Lemma bsw_wf x : wf m x -> wf m (bsw x).
  Proof.
    intros Hx. rewrite bsw_lane by exact Hx.
    pose proof (bytes_le_wf k (v_bswap (8 * N.of_nat k) (words_le k x))) as H.
    unfold v_bswap in H at 1. rewrite map_length, (words_len k m Hk Hm x Hx) in H.
    apply Nat.div_exact in Hm; [|lia]. now rewrite <- Hm in H.
  Qed.
  Lemma be_image v : Forall (wf m) v ->
    concat (xn_unop bsw v) = bytes_le k (v_bswap (8 * N.of_nat k) (words_le k (concat v))).
  Proof. intros F. now apply (lift_unop k m Hk Hm bsw (bswapw (8 * N.of_nat k))). Qed.

  (** generic in the number of parts: [c] = 2 with [cut2], 4 with [cut4] *)
  Lemma le_parts c parts bs : wf (c * m) bs -> Forall (wf m) parts -> concat parts = bs ->
    concat (xn_unop (fun x => x) parts) = bytes_le k (read_le k bs).
  Proof.
    intros [L B] _ C. rewrite xn_unop_id, C. unfold read_le. symmetry.
    apply bytes_words_le; [exact Hk| |exact B]. rewrite L. now apply mul_mod0.
  Qed.
  Lemma be_parts c parts bs : wf (c * m) bs -> Forall (wf m) parts -> concat parts = bs ->
    concat (xn_unop bsw parts) = bytes_le k (read_be k bs).
  Proof.
    intros Hbs F C. rewrite be_image by exact F. rewrite C. f_equal.
    now apply (v_bswap_read_be k (c * m)).
  Qed.
  Lemma le_out c v : widem m c v ->
    concat (xn_unop (fun x => x) v) = write_le k (words_le k (concat v)).
  Proof.
    intros Hv. rewrite xn_unop_id. destruct (wf_image m c v Hv) as [L B]. unfold write_le. symmetry.
    apply bytes_words_le; [exact Hk| |exact B]. rewrite L, Nat.mul_comm. now apply mul_mod0.
  Qed.
  Lemma be_out c v : widem m c v ->
    concat (xn_unop bsw v) = write_be k (words_le k (concat v)).
  Proof.
    intros Hv. rewrite be_image by exact (proj2 Hv). apply bytes_le_bswap_write_be.
    apply words_le_Forall_word. exact (proj2 (wf_image m c v Hv)).
  Qed.
  Lemma parts_wide_id c parts : length parts = c -> Forall (wf m) parts -> widem m c (xn_unop (fun x => x) parts).
  Proof. intros L F. rewrite xn_unop_id. now split. Qed.
  Lemma parts_wide_bsw c parts : length parts = c -> Forall (wf m) parts -> widem m c (xn_unop bsw parts).
  Proof.
    intros L F. split; [unfold xn_unop; now rewrite map_length|].
    apply (lift_wf m bsw bsw_wf). exact F.
  Qed.

  Lemma read_be_words n bs : wf n bs -> Forall (is_wordk k) (read_be k bs).
  Proof.
    intros Hbs. rewrite <- (v_bswap_read_be k n bs Hbs).
    unfold v_bswap. apply Forall_forall. intros y Hy. apply in_map_iff in Hy. destruct Hy as [x [<- Hx]].
    unfold is_wordk, bswapw, be_join.
    replace (N.to_nat (8 * N.of_nat k / 8)) with k
      by (rewrite N.mul_comm, N.div_mul by lia; now rewrite Nat2N.id).
    pose proof (le_join_lt (rev (le_split k x)) (Forall_rev (le_split_bytes k x))) as Lt.
    now rewrite rev_length, le_split_length in Lt.
  Qed.
  Lemma rt_le c bs (v : list reg) : wf (c * m) bs -> concat v = bytes_le k (read_le k bs) ->
    write_le k (words_le k (concat v)) = bs.
  Proof.
    intros Hbs C. rewrite C. unfold read_le at 1.
    rewrite words_bytes_le by (try exact Hk; apply words_le_Forall_word; exact (proj2 Hbs)).
    exact (proj1 (read_write_roundtrip k (c * m) bs Hk (mul_mod0 c m k Hk Hm) Hbs)).
  Qed.
  Lemma rt_be c bs (v : list reg) : wf (c * m) bs -> concat v = bytes_le k (read_be k bs) ->
    write_be k (words_le k (concat v)) = bs.
  Proof.
    intros Hbs C. rewrite C.
    rewrite words_bytes_le by (try exact Hk; now apply (read_be_words (c * m))).
    exact (proj2 (read_write_roundtrip k (c * m) bs Hk (mul_mod0 c m k Hk Hm) Hbs)).
  Qed.

  (** StoreBytes for x2<W,G> *)
  Theorem x2_read_write_spec :
    (forall bs, length bs <> (2 * m)%nat -> x2_read rdle bs = Panic /\ x2_read rdbe bs = Panic) /\
    (forall v n, n <> (2 * m)%nat -> x2_write wrle [] v n = Panic /\ x2_write wrbe [] v n = Panic) /\
    (forall bs, wf (2 * m) bs ->
       (exists v, x2_read rdle bs = Ok v /\ widem m 2 v /\ concat v = bytes_le k (read_le k bs)) /\
       (exists v, x2_read rdbe bs = Ok v /\ widem m 2 v /\ concat v = bytes_le k (read_be k bs))) /\
    (forall v, widem m 2 v ->
       x2_write wrle [] v (2 * m) = Ok (write_le k (words_le k (concat v))) /\
       x2_write wrbe [] v (2 * m) = Ok (write_be k (words_le k (concat v)))) /\
    (forall bs, wf (2 * m) bs ->
       obind (x2_read rdle bs) (fun v => x2_write wrle [] v (2 * m)) = Ok bs /\
       obind (x2_read rdbe bs) (fun v => x2_write wrbe [] v (2 * m)) = Ok bs).
  Proof.
    assert (R : forall bs, wf (2 * m) bs ->
       (exists v, x2_read rdle bs = Ok v /\ widem m 2 v /\ concat v = bytes_le k (read_le k bs)) /\
       (exists v, x2_read rdbe bs = Ok v /\ widem m 2 v /\ concat v = bytes_le k (read_be k bs))).
    { intros bs Hbs. destruct (cut2_wf m bs Hbs) as [F C]. split.
      - exists (xn_unop (fun x => x) (cut2 m bs)). split; [|split].
        + apply (x2_read_ok m rdle _ rdle_ok). exact (proj1 Hbs).
        + now apply parts_wide_id.
        + now apply (le_parts 2).
      - exists (xn_unop bsw (cut2 m bs)). split; [|split].
        + apply (x2_read_ok m rdbe _ rdbe_ok). exact (proj1 Hbs).
        + now apply parts_wide_bsw.
        + now apply (be_parts 2). }
    assert (Wr : forall v, widem m 2 v ->
       x2_write wrle [] v (2 * m) = Ok (write_le k (words_le k (concat v))) /\
       x2_write wrbe [] v (2 * m) = Ok (write_be k (words_le k (concat v)))).
    { intros v Hv. split.
      - rewrite (x2_write_ok m _ wrle wrle_ok v (proj1 Hv)). f_equal. now apply (le_out 2).
      - rewrite (x2_write_ok m _ wrbe wrbe_ok v (proj1 Hv)). f_equal. now apply (be_out 2). }
    split; [|split; [|split; [|split]]].
    - intros bs H. split; [now apply (x2_read_len m rdle _ rdle_bad rdle_ok)|now apply (x2_read_len m rdbe _ rdbe_bad rdbe_ok)].
    - intros v n H. split; [now apply (x2_write_len m _ wrle wrle_bad wrle_ok)|now apply (x2_write_len m _ wrbe wrbe_bad wrbe_ok)].
    - exact R.
    - exact Wr.
    - intros bs Hbs. destruct (R bs Hbs) as [(v & E & Hv & C) (v' & E' & Hv' & C')]. split.
      + rewrite E. cbn [obind]. rewrite (proj1 (Wr v Hv)). f_equal. now apply (rt_le 2).
      + rewrite E'. cbn [obind]. rewrite (proj2 (Wr v' Hv')). f_equal. now apply (rt_be 2).
  Qed.

  (** StoreBytes for x4<W> *)
  Theorem x4_read_write_spec :
    (forall bs, length bs <> (4 * m)%nat -> x4_read rdle bs = Panic /\ x4_read rdbe bs = Panic) /\
    (forall v n, n <> (4 * m)%nat -> x4_write wrle [] v n = Panic /\ x4_write wrbe [] v n = Panic) /\
    (forall bs, wf (4 * m) bs ->
       (exists v, x4_read rdle bs = Ok v /\ widem m 4 v /\ concat v = bytes_le k (read_le k bs)) /\
       (exists v, x4_read rdbe bs = Ok v /\ widem m 4 v /\ concat v = bytes_le k (read_be k bs))) /\
    (forall v, widem m 4 v ->
       x4_write wrle [] v (4 * m) = Ok (write_le k (words_le k (concat v))) /\
       x4_write wrbe [] v (4 * m) = Ok (write_be k (words_le k (concat v)))) /\
    (forall bs, wf (4 * m) bs ->
       obind (x4_read rdle bs) (fun v => x4_write wrle [] v (4 * m)) = Ok bs /\
       obind (x4_read rdbe bs) (fun v => x4_write wrbe [] v (4 * m)) = Ok bs).
  Proof.
    assert (R : forall bs, wf (4 * m) bs ->
       (exists v, x4_read rdle bs = Ok v /\ widem m 4 v /\ concat v = bytes_le k (read_le k bs)) /\
       (exists v, x4_read rdbe bs = Ok v /\ widem m 4 v /\ concat v = bytes_le k (read_be k bs))).
    { intros bs Hbs. destruct (cut4_wf m bs Hbs) as [F C]. split.
      - exists (xn_unop (fun x => x) (cut4 m bs)). split; [|split].
        + apply (x4_read_ok m rdle _ rdle_ok). exact (proj1 Hbs).
        + now apply parts_wide_id.
        + now apply (le_parts 4).
      - exists (xn_unop bsw (cut4 m bs)). split; [|split].
        + apply (x4_read_ok m rdbe _ rdbe_ok). exact (proj1 Hbs).
        + now apply parts_wide_bsw.
        + now apply (be_parts 4). }
    assert (Wr : forall v, widem m 4 v ->
       x4_write wrle [] v (4 * m) = Ok (write_le k (words_le k (concat v))) /\
       x4_write wrbe [] v (4 * m) = Ok (write_be k (words_le k (concat v)))).
    { intros v Hv. split.
      - rewrite (x4_write_ok m _ wrle wrle_ok v (proj1 Hv)). f_equal. now apply (le_out 4).
      - rewrite (x4_write_ok m _ wrbe wrbe_ok v (proj1 Hv)). f_equal. now apply (be_out 4). }
    split; [|split; [|split; [|split]]].
    - intros bs H. split; [now apply (x4_read_len m rdle _ rdle_bad rdle_ok)|now apply (x4_read_len m rdbe _ rdbe_bad rdbe_ok)].
    - intros v n H. split; [now apply (x4_write_len m _ wrle wrle_bad wrle_ok)|now apply (x4_write_len m _ wrbe wrbe_bad wrbe_ok)].
    - exact R.
    - exact Wr.
    - intros bs Hbs. destruct (R bs Hbs) as [(v & E & Hv & C) (v' & E' & Hv' & C')]. split.
      + rewrite E. cbn [obind]. rewrite (proj1 (Wr v Hv)). f_equal. now apply (rt_le 4).
      + rewrite E'. cbn [obind]. rewrite (proj2 (Wr v' Hv')). f_equal. now apply (rt_be 4).
  Qed.
End Final.

(** * instances *)
(** SSE-family: x2 / x4 over u32x4_sse2 ([k] = 4), u64x2_sse2 (8), u128x1_sse2 (16), both [s3] *)
Theorem sse_x2_read_write_le_be k s3 : In k [4; 8; 16]%nat ->
  (forall bs, length bs <> 32%nat ->
     x2_read sse_read_le bs = Panic /\ x2_read (sse_read_be (bswap_of k s3)) bs = Panic) /\
  (forall v n, n <> 32%nat ->
     x2_write sse_write_le [] v n = Panic /\ x2_write (sse_write_be (bswap_of k s3)) [] v n = Panic) /\
  (forall bs, wf 32 bs ->
     (exists v, x2_read sse_read_le bs = Ok v /\ wide16 2 v /\ concat v = bytes_le k (read_le k bs)) /\
     (exists v, x2_read (sse_read_be (bswap_of k s3)) bs = Ok v /\ wide16 2 v /\
                concat v = bytes_le k (read_be k bs))) /\
  (forall v, wide16 2 v ->
     x2_write sse_write_le [] v 32 = Ok (write_le k (words_le k (concat v))) /\
     x2_write (sse_write_be (bswap_of k s3)) [] v 32 = Ok (write_be k (words_le k (concat v)))) /\
  (forall bs, wf 32 bs ->
     obind (x2_read sse_read_le bs) (fun v => x2_write sse_write_le [] v 32) = Ok bs /\
     obind (x2_read (sse_read_be (bswap_of k s3)) bs)
           (fun v => x2_write (sse_write_be (bswap_of k s3)) [] v 32) = Ok bs).
Proof.
  intros Hk. destruct (in_k_ok k Hk) as [H0 Hm].
  apply (x2_read_write_spec 16 k H0 Hm sse_read_le (sse_read_be (bswap_of k s3))
           sse_write_le (sse_write_be (bswap_of k s3)) (bswap_of k s3)).
  - intros bs H. unfold sse_read_le. now destruct (Nat.eqb_spec (length bs) 16).
  - intros bs H. unfold sse_read_le. now rewrite H.
  - intros bs H. unfold sse_read_be. now destruct (Nat.eqb_spec (length bs) 16).
  - intros bs H. unfold sse_read_be. now rewrite H.
  - intros x n H. unfold sse_write_le. now destruct (Nat.eqb_spec n 16).
  - reflexivity.
  - intros x n H. unfold sse_write_be. now destruct (Nat.eqb_spec n 16).
  - reflexivity.
  - intros x Hx. now apply bswap_of_lanewise.
Qed.
Theorem sse_x4_read_write_le_be k s3 : In k [4; 8; 16]%nat ->
  (forall bs, length bs <> 64%nat ->
     x4_read sse_read_le bs = Panic /\ x4_read (sse_read_be (bswap_of k s3)) bs = Panic) /\
  (forall v n, n <> 64%nat ->
     x4_write sse_write_le [] v n = Panic /\ x4_write (sse_write_be (bswap_of k s3)) [] v n = Panic) /\
  (forall bs, wf 64 bs ->
     (exists v, x4_read sse_read_le bs = Ok v /\ wide16 4 v /\ concat v = bytes_le k (read_le k bs)) /\
     (exists v, x4_read (sse_read_be (bswap_of k s3)) bs = Ok v /\ wide16 4 v /\
                concat v = bytes_le k (read_be k bs))) /\
  (forall v, wide16 4 v ->
     x4_write sse_write_le [] v 64 = Ok (write_le k (words_le k (concat v))) /\
     x4_write (sse_write_be (bswap_of k s3)) [] v 64 = Ok (write_be k (words_le k (concat v)))) /\
  (forall bs, wf 64 bs ->
     obind (x4_read sse_read_le bs) (fun v => x4_write sse_write_le [] v 64) = Ok bs /\
     obind (x4_read (sse_read_be (bswap_of k s3)) bs)
           (fun v => x4_write (sse_write_be (bswap_of k s3)) [] v 64) = Ok bs).
Proof.
  intros Hk. destruct (in_k_ok k Hk) as [H0 Hm].
  apply (x4_read_write_spec 16 k H0 Hm sse_read_le (sse_read_be (bswap_of k s3))
           sse_write_le (sse_write_be (bswap_of k s3)) (bswap_of k s3)).
  - intros bs H. unfold sse_read_le. now destruct (Nat.eqb_spec (length bs) 16).
  - intros bs H. unfold sse_read_le. now rewrite H.
  - intros bs H. unfold sse_read_be. now destruct (Nat.eqb_spec (length bs) 16).
  - intros bs H. unfold sse_read_be. now rewrite H.
  - intros x n H. unfold sse_write_le. now destruct (Nat.eqb_spec n 16).
  - reflexivity.
  - intros x n H. unfold sse_write_be. now destruct (Nat.eqb_spec n 16).
  - reflexivity.
  - intros x Hx. now apply bswap_of_lanewise.
Qed.
(** AVX2: u32x4x4_avx2 = x2<u32x4x2_avx2, G0> *)
Theorem avx2_x2_read_write_le_be :
  (forall bs, length bs <> 64%nat -> x2_read avx2_read_le bs = Panic /\ x2_read avx2_read_be bs = Panic) /\
  (forall v n, n <> 64%nat -> x2_write avx2_write_le [] v n = Panic /\ x2_write avx2_write_be [] v n = Panic) /\
  (forall bs, wf 64 bs ->
     (exists v, x2_read avx2_read_le bs = Ok v /\ wide32 2 v /\ concat v = bytes_le 4 (read_le 4 bs)) /\
     (exists v, x2_read avx2_read_be bs = Ok v /\ wide32 2 v /\ concat v = bytes_le 4 (read_be 4 bs))) /\
  (forall v, wide32 2 v ->
     x2_write avx2_write_le [] v 64 = Ok (write_le 4 (words_le 4 (concat v))) /\
     x2_write avx2_write_be [] v 64 = Ok (write_be 4 (words_le 4 (concat v)))) /\
  (forall bs, wf 64 bs ->
     obind (x2_read avx2_read_le bs) (fun v => x2_write avx2_write_le [] v 64) = Ok bs /\
     obind (x2_read avx2_read_be bs) (fun v => x2_write avx2_write_be [] v 64) = Ok bs).
Proof.
  apply (x2_read_write_spec 32 4 ltac:(lia) eq_refl avx2_read_le avx2_read_be
           avx2_write_le avx2_write_be avx2_bswap).
  - intros bs H. unfold avx2_read_le. now destruct (Nat.eqb_spec (length bs) 32).
  - intros bs H. unfold avx2_read_le. now rewrite H.
  - intros bs H. unfold avx2_read_be, avx2_read_le. now destruct (Nat.eqb_spec (length bs) 32).
  - intros bs H. unfold avx2_read_be, avx2_read_le. now rewrite H.
  - intros x n H. unfold avx2_write_le. now destruct (Nat.eqb_spec n 32).
  - reflexivity.
  - intros x n H. unfold avx2_write_be, avx2_write_le. now destruct (Nat.eqb_spec n 32).
  - reflexivity.
  - intros x Hx. now apply avx2_bswap_lanewise.
Qed.
