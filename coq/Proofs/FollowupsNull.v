(** Audit follow-ups, part 5 (audit C19-F1): the build profile of ppv-null as TWO independent
    switches.

    Model/PpvNull.v has one [profile := Debug | Release] that drives both the arithmetic-overflow
    checks ([overflow], used by [add_chk], [sub_chk], [shl_chk], [shr_chk]) and the debug assertions
    ([debug_assert]). rustc has two settings: [-C overflow-checks] and [-C debug-assertions]
    (e.g. a release build with [overflow-checks = true] in the Cargo profile). In the model EVERY
    method consults its profile argument for only ONE of the two purposes:

      debug assertions only:  load / from_slice_unaligned, xor_store / write_to_slice_unaligned,
                              u128x1::extract, rotate_words_right            ([debug_assert])
      overflow checks only:   swap1 .. swap64, splat_rotate_right            ([shl_chk], [shr_chk], [sub_chk])
      neither:                every other method                             (no profile argument at all)

    (read off Model/PpvNull.v: no definition there mentions both [debug_assert] and a [*_chk]
    primitive). So the two-switch model [run_op2 q] below simply hands each method the switch it
    consults - it reuses the method models of Model/PpvNull.v unchanged - and the four combinations
    reduce to the two modelled profiles method by method ([run_op2_is_run_op]). Every theorem of
    Props/C19.v that is quantified over [p : profile] therefore holds for every
    [q : profile2] ([transfer]); the profile-specific ones ("outside the domain") split by the
    switch concerned. *)
From Coq Require Import NArith List Bool Arith.
From CC Require Import Lib.Words Lib.ListX Spec.NullLanes Model.PpvNull.
From CC Require Import Proofs.PpvNullLanes Proofs.PpvNull.
Import ListNotations.
Local Open Scope N_scope.

Record profile2 := P2 { overflow_checks : bool; debug_assertions : bool }.
Definition prof (b : bool) : profile := if b then Debug else Release.

(** * the dispatch tables of Model/PpvNull.v ([run_v4], [run_v1], [run_v2], [run_x44], [run_op])
      again, each method applied to the switch it consults *)
Definition run_v4_2 (w : N) (q : profile2) (o : op) (a b : list N) (i : N) : option (res (list N)) :=
  let po := prof (overflow_checks q) in
  let pd := prof (debug_assertions q) in
  match o with
  | ONew => Some (Ok (v4_new (f0 a) (f1 a) (f2 a) (f3 a)))
  | ORotr => Some (Ok (v4_rotate_right w a b))
  | OLoad => Some (v4_from_slice_unaligned pd b)
  | OStore => Some (v4_write_to_slice_unaligned pd a b)
  | OSplat => Some (Ok (v4_splat i))
  | OReplace => Some (v4_replace a i (f0 b))
  | OExtract => Some (ok1 (v4_extract a i))
  | OAddAssign => Some (Ok (v4_add_assign w a b))
  | OXorAssign => Some (Ok (v4_bitxor_assign a b))
  | OAdd => Some (Ok (v4_add w a b))
  | OXor => Some (Ok (v4_bitxor a b))
  | OOr => Some (Ok (v4_bitor a b))
  | OAnd => Some (Ok (v4_bitand a b))
  | ORotWords => Some (v4_rotate_words_right pd a i)
  | OSplatRotr => Some (v4_splat_rotate_right w po a i)
  | _ => None
  end.

Definition run_v1_2 (w : N) (q : profile2) (o : op) (a b : list N) (i : N) : option (res (list N)) :=
  let po := prof (overflow_checks q) in
  let pd := prof (debug_assertions q) in
  match o with
  | ONew => Some (Ok (v1_new (f0 a)))
  | ORotr => Some (Ok (v1_rotate_right w a i))
  | OLoad => Some (v1_load pd b)
  | OXorStore => Some (v1_xor_store pd a b)
  | OIntoInner => Some (Ok [v1_into_inner a])
  | OSwap1 => Some (v1_swap1 w po a)
  | OSwap2 => Some (v1_swap2 w po a)
  | OSwap4 => Some (v1_swap4 w po a)
  | OSwap8 => Some (v1_swap8 w po a)
  | OSwap16 => Some (v1_swap16 w po a)
  | OSwap32 => Some (v1_swap32 w po a)
  | OSwap64 => Some (v1_swap64 w po a)
  | OAndNot => Some (Ok (v1_andnot w a b))
  | OExtract => Some (ok1 (v1_extract pd a i))
  | OAddAssign => Some (Ok (v1_add_assign w a b))
  | OXorAssign => Some (Ok (v1_bitxor_assign a b))
  | OXor => Some (Ok (v1_bitxor a b))
  | OAnd => Some (Ok (v1_bitand a b))
  | ONot => Some (Ok (v1_not w a))
  | _ => None
  end.

Definition run_v2_2 (w : N) (q : profile2) (o : op) (a b : list N) (i : N) : option (res (list N)) :=
  let pd := prof (debug_assertions q) in
  match o with
  | ONew => Some (Ok (v2_new (f0 a) (f1 a)))
  | ORotr => Some (Ok (v2_rotate_right w a i))
  | OLoad => Some (v2_load pd b)
  | OXorStore => Some (v2_xor_store pd a b)
  | OExtract => Some (ok1 (v2_extract a i))
  | OAndNot => Some (Ok (v2_andnot w a b))
  | OAddAssign => Some (Ok (v2_add_assign w a b))
  | OXorAssign => Some (Ok (v2_bitxor_assign a b))
  | OAnd => Some (Ok (v2_bitand a b))
  | ONot => Some (Ok (v2_not w a))
  | OOr => Some (Ok (v2_bitor a b))
  | _ => None
  end.

Definition run_x44_2 (q : profile2) (o : op) (a b : list N) (i : N) : option (res (list N)) :=
  let po := prof (overflow_checks q) in
  let pd := prof (debug_assertions q) in
  let A := parts a in let B := parts b in
  match o with
  | ONew => Some (Ok (flat (x44_from (g 0 A) (g 1 A) (g 2 A) (g 3 A))))
  | OSplat => Some (Ok (flat (x44_splat a)))
  | OIntoParts => Some (Ok (flat (x44_into_parts A)))
  | OXor => Some (Ok (flat (x44_bitxor A B)))
  | OOr => Some (Ok (flat (x44_bitor A B)))
  | OAnd => Some (Ok (flat (x44_bitand A B)))
  | OAdd => Some (Ok (flat (x44_add A B)))
  | OXorAssign => Some (Ok (flat (x44_bitxor_assign A B)))
  | OAddAssign => Some (Ok (flat (x44_add_assign A B)))
  | ORotWords => Some (okf (x44_rotate_words_right pd A i))
  | OSplatRotr => Some (okf (x44_splat_rotate_right po A i))
  | _ => None
  end.

Definition run_op2 (q : profile2) (t : ty) (o : op) (a b : list N) (i : N) : option (res (list N)) :=
  match t with
  | U32x4 => run_v4_2 32 q o a b i
  | U64x4 => run_v4_2 64 q o a b i
  | U128x1 => run_v1_2 128 q o a b i
  | U128x2 => run_v2_2 128 q o a b i
  | U32x4x4 => run_x44_2 q o a b i
  end.

(** * the reduction: which single-profile run a method's two-switch run is *)
Definition uses_overflow (o : op) : bool :=
  match o with OSwap1 | OSwap2 | OSwap4 | OSwap8 | OSwap16 | OSwap32 | OSwap64 | OSplatRotr => true | _ => false end.
Definition profile_for (q : profile2) (o : op) : profile :=
  if uses_overflow o then prof (overflow_checks q) else prof (debug_assertions q).

Theorem run_op2_is_run_op : forall q t o a b i, run_op2 q t o a b i = run_op (profile_for q o) t o a b i.
Proof. intros q t o a b i. destruct t, o; reflexivity. Qed.

(** the two modelled profiles are the two diagonal combinations *)
Theorem run_op2_diagonal : forall t o a b i,
  run_op2 (P2 true true) t o a b i = run_op Debug t o a b i /\
  run_op2 (P2 false false) t o a b i = run_op Release t o a b i.
Proof. intros t o a b i. split; destruct t, o; reflexivity. Qed.

(** the two mixed combinations, method by method: a method behaves as in [Debug] iff the switch it
    consults is on (and no method consults both) *)
Theorem run_op2_mixed : forall oc da t o a b i,
  run_op2 (P2 oc da) t o a b i = run_op (prof (if uses_overflow o then oc else da)) t o a b i.
Proof.
  intros oc da t o a b i. rewrite run_op2_is_run_op. unfold profile_for. cbn [overflow_checks debug_assertions].
  now destruct (uses_overflow o).
Qed.

(** only the consulted switch matters *)
Theorem run_op2_other_switch_irrelevant : forall q q' t o a b i,
  (if uses_overflow o then overflow_checks q = overflow_checks q' else debug_assertions q = debug_assertions q') ->
  run_op2 q t o a b i = run_op2 q' t o a b i.
Proof.
  intros q q' t o a b i H. rewrite !run_op2_is_run_op. unfold profile_for.
  destruct (uses_overflow o); now rewrite H.
Qed.

(** * every "for every profile" theorem of Props/C19.v holds for every pair of switches *)
Theorem transfer : forall t o a b i (P : option (res (list N)) -> Prop),
  (forall p, P (run_op p t o a b i)) -> forall q, P (run_op2 q t o a b i).
Proof. intros t o a b i P H q. rewrite run_op2_is_run_op. apply H. Qed.

Theorem model2_eq_spec : forall q t o a b i,
  in_domain t o a b i = true -> run_op2 q t o a b i = Some (Ok (spec_op t o a b i)).
Proof. intros q t o a b i H. rewrite run_op2_is_run_op. now apply run_op_eq_spec. Qed.

Theorem total2 : forall q t o a b i,
  in_domain t o a b i = true ->
  run_op2 q t o a b i <> Some Panic /\ run_op2 q t o a b i <> None /\
  exists r, run_op2 q t o a b i = Some (Ok r).
Proof. intros q t o a b i H. rewrite run_op2_is_run_op. now apply total. Qed.

Theorem add2_lanewise : forall q t o a b i,
  (o = OAdd \/ o = OAddAssign) -> has_op t o = true -> ok_vec t a -> ok_vec t b ->
  run_op2 q t o a b i = Some (Ok (map2 (fun x y => (x + y) mod 2 ^ width t) a b)).
Proof. intros q t o a b i Ho Hh Ha Hb. rewrite run_op2_is_run_op. now apply add_lanewise. Qed.

Theorem splat_rotate_right2 : forall q t a b i,
  has_op t OSplatRotr = true -> ok_vec t a -> 1 <= i -> i < width t ->
  run_op2 q t OSplatRotr a b i = Some (Ok (map (lane_rotr (width t) i) a)).
Proof. intros q t a b i Hh Ha H1 H2. rewrite run_op2_is_run_op. now apply splat_rotate_right_lanewise. Qed.

Theorem swapN2_bits : forall q o n x b i,
  In (o, n) [(OSwap1, 1); (OSwap2, 2); (OSwap4, 4); (OSwap8, 8); (OSwap16, 16); (OSwap32, 32); (OSwap64, 64)] ->
  x < 2 ^ 128 ->
  exists y, run_op2 q U128x1 o [x] b i = Some (Ok [y]) /\ y < 2 ^ 128 /\
            forall j, j < 128 -> N.testbit y j = N.testbit x (N.lxor j n).
Proof. intros q o n x b i Hin Hx. rewrite run_op2_is_run_op. now apply swapN_bits. Qed.

(** * outside the domain: which switch decides *)
(** splat_rotate_right by 0 or >= bits: panics iff OVERFLOW CHECKS are on (whatever debug assertions) *)
Theorem outside2_splat_rotr : forall q t a b i,
  has_op t OSplatRotr = true ->
  (overflow_checks q = true -> i = 0 \/ width t <= i -> run_op2 q t OSplatRotr a b i = Some Panic) /\
  (overflow_checks q = false -> ok_vec t a -> i < 2 ^ 32 ->
     run_op2 q t OSplatRotr a b i = Some (Ok (map (lane_rotr (width t) (i mod width t)) a))).
Proof.
  intros q t a b i Hh. rewrite run_op2_is_run_op. unfold profile_for. cbn [uses_overflow]. split; intros ->; cbn [prof].
  - now apply outside_splat_rotr_debug.
  - now apply outside_splat_rotr_release_any.
Qed.

(** u128x1::extract(i <> 0) and rotate_words_right(i >= 4): panic iff DEBUG ASSERTIONS are on
    (whatever the overflow checks) *)
Theorem outside2_u128x1_extract : forall q x b i, i <> 0 ->
  run_op2 q U128x1 OExtract [x] b i = if debug_assertions q then Some Panic else Some (Ok [x]).
Proof.
  intros q x b i Hi. rewrite run_op2_is_run_op. unfold profile_for. cbn [uses_overflow].
  rewrite (outside_u128x1_extract _ x b i Hi). now destruct (debug_assertions q).
Qed.

Theorem outside2_rot_words : forall q t a b i,
  has_op t ORotWords = true ->
  (debug_assertions q = false -> run_op2 q t ORotWords a b i = run_op2 q t ORotWords a b (i mod 4)) /\
  (debug_assertions q = true -> 4 <= i -> i < 2 ^ 32 -> run_op2 q t ORotWords a b i = Some Panic).
Proof.
  intros q t a b i Hh. rewrite !run_op2_is_run_op. unfold profile_for. cbn [uses_overflow].
  destruct (outside_rot_words_both t a b i Hh) as [R D]. split; intros ->; cbn [prof]; assumption.
Qed.

(** index out of range: panics under every combination *)
Theorem outside2_index_panics : forall q t a b i,
  (t = U32x4 \/ t = U64x4 \/ t = U128x2) -> N.of_nat (nlanes t) <= i ->
  run_op2 q t OExtract a b i = Some Panic /\
  ((t = U32x4 \/ t = U64x4) -> run_op2 q t OReplace a b i = Some Panic).
Proof. intros q t a b i Ht Hi. rewrite !run_op2_is_run_op. now apply outside_index_panics. Qed.

(** non-vacuity: a release build with overflow checks on, and a debug build with them off, differ
    from both modelled profiles - on different methods *)
Example mixed_profiles_differ :
  let relchk := P2 true false in let dbgwrap := P2 false true in
  run_op2 relchk U32x4 OSplatRotr [1; 2; 3; 4] [] 32 = Some Panic /\
  run_op Release U32x4 OSplatRotr [1; 2; 3; 4] [] 32 = Some (Ok [1; 2; 3; 4]) /\
  run_op2 relchk U128x1 OExtract [7] [] 1 = Some (Ok [7]) /\
  run_op Debug U128x1 OExtract [7] [] 1 = Some Panic /\
  run_op2 dbgwrap U32x4 OSplatRotr [1; 2; 3; 4] [] 32 = Some (Ok [1; 2; 3; 4]) /\
  run_op2 dbgwrap U128x1 OExtract [7] [] 1 = Some Panic /\
  run_op2 dbgwrap U32x4 ORotWords [1; 2; 3; 4] [] 5 = Some Panic /\
  run_op2 relchk U32x4 ORotWords [1; 2; 3; 4] [] 5 = Some (Ok [4; 1; 2; 3]).
Proof. vm_compute. repeat split; reflexivity. Qed.

Print Assumptions run_op2_is_run_op.
Print Assumptions run_op2_mixed.
Print Assumptions transfer.
Print Assumptions model2_eq_spec.
Print Assumptions total2.
Print Assumptions outside2_splat_rotr.
Print Assumptions outside2_u128x1_extract.
Print Assumptions outside2_rot_words.
Print Assumptions outside2_index_panics.
Print Assumptions mixed_profiles_differ.
