(** C18 — proofs about the scheduling model: every schedule, any number of threads. *)
From Coq Require Import List Arith Lia Bool.
From CC Require Import Model.Concurrency.
Import ListNotations.

(** * Lists *)
Lemma set_nth_length {A} (l : list A) i x : length (set_nth l i x) = length l.
Proof. revert i; induction l as [|y l IH]; intros [|i]; simpl; auto. Qed.

Lemma nth_error_set_nth_eq {A} (l : list A) i x :
  i < length l -> nth_error (set_nth l i x) i = Some x.
Proof. revert i; induction l as [|y l IH]; intros [|i] H; simpl in *; try lia; auto. apply IH; lia. Qed.

Lemma nth_error_set_nth_neq {A} (l : list A) i j x :
  i <> j -> nth_error (set_nth l i x) j = nth_error l j.
Proof.
  revert i j; induction l as [|y l IH]; intros [|i] [|j] H; simpl; auto; try congruence.
Qed.

Lemma skipn_cons_step {A} (l : list A) k o rest :
  skipn k l = o :: rest ->
  firstn (S k) l = firstn k l ++ [o] /\ skipn (S k) l = rest /\ k < length l.
Proof.
  revert l; induction k as [|k IH]; intros l H.
  - simpl in H. subst l. simpl. repeat split; auto. lia.
  - destruct l as [|x l]; [discriminate|]. simpl in H. destruct (IH l H) as (a & b & c).
    repeat split.
    + change (firstn (S (S k)) (x :: l)) with (x :: firstn (S k) l). rewrite a. reflexivity.
    + exact b.
    + simpl. lia.
Qed.

Lemma update_eq {A} (f : nat -> A) k v : update f k v k = v.
Proof. unfold update. now rewrite Nat.eqb_refl. Qed.
Lemma update_neq {A} (f : nat -> A) k v x : x <> k -> update f k v x = f x.
Proof. unfold update. intros H. destruct (Nat.eqb_spec x k); congruence. Qed.

Section Conc.
  Variables (V St Op Out : Type).
  Variable cpu : nat -> bool.
  Variable choose : (nat -> bool) -> nat -> V.
  Variable cell_of : Op -> nat.
  Variable exec : V -> Op -> St -> St * Out.

  Notation init := (init V cpu choose).
  Notation thread := (thread V Op Out).
  Notation gstate := (gstate V St Op Out).
  Notation step := (step V St Op Out cpu choose cell_of exec).
  Notation run := (run V St Op Out cpu choose cell_of exec).
  Notation seq_run := (seq_run V St Op Out cpu choose cell_of exec).
  Notation pc_ok := (pc_ok V Op Out cpu choose cell_of).
  Notation initial := (initial V St Op Out).
  Notation interleave_run := (interleave_run V St Op Out cpu choose cell_of exec).

  Lemma seq_run_app s l o :
    seq_run s (l ++ [o])
    = (fst (exec (init (cell_of o)) o (fst (seq_run s l))),
       snd (seq_run s l) ++ [snd (exec (init (cell_of o)) o (fst (seq_run s l)))]).
  Proof.
    revert s; induction l as [|x l IH]; intros s; cbn [app seq_run fst snd].
    - reflexivity.
    - rewrite IH. reflexivity.
  Qed.

  (** ** The invariant, relative to a fixed cold start [g0] *)
  Variable g0 : gstate.
  Hypothesis g0_distinct : NoDup (map (t_inst V Op Out) (threads _ _ _ _ g0)).

  Definition tracks (g : gstate) (t0 t : thread) : Prop :=
    exists k, k <= length (t_prog _ _ _ t0)
      /\ t_prog _ _ _ t = skipn k (t_prog _ _ _ t0)
      /\ t_inst _ _ _ t = t_inst _ _ _ t0
      /\ t_outs _ _ _ t = snd (seq_run (tbl _ _ _ _ g0 (t_inst _ _ _ t0)) (firstn k (t_prog _ _ _ t0)))
      /\ tbl _ _ _ _ g (t_inst _ _ _ t0) = fst (seq_run (tbl _ _ _ _ g0 (t_inst _ _ _ t0)) (firstn k (t_prog _ _ _ t0))).

  Definition Inv (g : gstate) : Prop :=
    (forall c, cells _ _ _ _ g c = None \/ cells _ _ _ _ g c = Some (init c))
    /\ length (threads _ _ _ _ g) = length (threads _ _ _ _ g0)
    /\ (forall i t, nth_error (threads _ _ _ _ g) i = Some t -> pc_ok t)
    /\ (forall i t0 t, nth_error (threads _ _ _ _ g0) i = Some t0 ->
                       nth_error (threads _ _ _ _ g) i = Some t -> tracks g t0 t)
    /\ (forall j, ~ In j (map (t_inst _ _ _) (threads _ _ _ _ g0)) -> tbl _ _ _ _ g j = tbl _ _ _ _ g0 j).

  Lemma inst_distinct i j ti tj :
    nth_error (threads _ _ _ _ g0) i = Some ti -> nth_error (threads _ _ _ _ g0) j = Some tj ->
    i <> j -> t_inst _ _ _ ti <> t_inst _ _ _ tj.
  Proof.
    intros Hi Hj Hne E. apply Hne.
    assert (Hl : i < length (map (t_inst V Op Out) (threads _ _ _ _ g0))).
    { rewrite map_length. apply nth_error_Some. congruence. }
    apply (proj1 (NoDup_nth_error _) g0_distinct i j Hl).
    rewrite !nth_error_map, Hi, Hj. simpl. now rewrite E.
  Qed.

  Lemma inst_in i ti : nth_error (threads _ _ _ _ g0) i = Some ti ->
    In (t_inst _ _ _ ti) (map (t_inst V Op Out) (threads _ _ _ _ g0)).
  Proof. intros H. apply in_map. eapply nth_error_In; eauto. Qed.

  (** a step that changes only the program counter of thread [i] (and possibly fills a cell) *)
  Lemma Inv_pc_step g i t p cs :
    Inv g -> nth_error (threads _ _ _ _ g) i = Some t ->
    (forall c, cs c = None \/ cs c = Some (init c)) ->
    pc_ok (Th _ _ _ (t_inst _ _ _ t) (t_prog _ _ _ t) p (t_outs _ _ _ t)) ->
    Inv (G _ _ _ _ cs (tbl _ _ _ _ g)
           (set_nth (threads _ _ _ _ g) i (Th _ _ _ (t_inst _ _ _ t) (t_prog _ _ _ t) p (t_outs _ _ _ t)))).
  Proof.
    intros (Hc & Hl & Hp & Ht & Hf) Hi Hcs Hpc.
    assert (Hil : i < length (threads _ _ _ _ g)) by (apply nth_error_Some; congruence).
    split; [exact Hcs|]. split; [cbn [threads]; now rewrite set_nth_length|].
    split; [|split].
    - intros j tj. cbn [threads]. destruct (Nat.eq_dec i j) as [<-|Hne].
      + rewrite nth_error_set_nth_eq by assumption. intros E; inversion E; subst. exact Hpc.
      + rewrite nth_error_set_nth_neq by assumption. apply Hp.
    - intros j t0 tj H0. cbn [threads]. destruct (Nat.eq_dec i j) as [<-|Hne].
      + rewrite nth_error_set_nth_eq by assumption. intros E; inversion E; subst.
        destruct (Ht i t0 t H0 Hi) as (k & a & b & c & d & e).
        exists k. cbn [t_prog t_inst t_outs tbl]. auto.
      + rewrite nth_error_set_nth_neq by assumption. intros Hj.
        destruct (Ht j t0 tj H0 Hj) as (k & a & b & c & d & e). exists k. cbn [tbl]. auto.
    - exact Hf.
  Qed.

  Lemma Inv_step g i : Inv g -> Inv (step g i).
  Proof.
    intros HI. unfold step. destruct (nth_error (threads _ _ _ _ g) i) as [t|] eqn:Hi; [|exact HI].
    unfold step_thread. destruct (t_prog _ _ _ t) as [|o rest] eqn:Hprog; [exact HI|].
    pose proof HI as (Hc & Hl & Hp & Ht & Hf).
    pose proof (Hp i t Hi) as Hpc. unfold Concurrency.pc_ok in Hpc.
    destruct (t_pc _ _ _ t) as [|c|c v|v] eqn:Hpcs.
    - (* read the cell *)
      destruct (cells _ _ _ _ g (cell_of o)) as [v|] eqn:Hcell.
      + rewrite <- Hprog. apply Inv_pc_step; auto.
        unfold Concurrency.pc_ok; cbn [t_pc t_prog]. intros o' r' E. rewrite Hprog in E. inversion E; subst.
        destruct (Hc (cell_of o')) as [H|H]; congruence.
      + rewrite <- Hprog. apply Inv_pc_step; auto.
        unfold Concurrency.pc_ok; cbn [t_pc t_prog]. intros o' r' E. rewrite Hprog in E. now inversion E.
    - (* compute *)
      rewrite <- Hprog. apply Inv_pc_step; auto.
      unfold Concurrency.pc_ok; cbn [t_pc t_prog]. split; [reflexivity|]. exact Hpc.
    - (* store *)
      destruct Hpc as (Hv & Hcc).
      rewrite <- Hprog. apply Inv_pc_step; auto.
      + intros c'. unfold update. destruct (Nat.eqb_spec c' c) as [->|]; [right; now rewrite Hv|apply Hc].
      + unfold Concurrency.pc_ok; cbn [t_pc t_prog]. intros o' r' E.
        rewrite (Hcc o' r') in Hv by (now rewrite <- E). exact Hv.
    - (* run the operation on the thread's own instance *)
      assert (Hil : i < length (threads _ _ _ _ g)) by (apply nth_error_Some; congruence).
      assert (Hv : v = init (cell_of o)) by (apply (Hpc o rest); exact Hprog). subst v.
      destruct (nth_error (threads _ _ _ _ g0) i) as [t0|] eqn:H0.
      2:{ apply nth_error_None in H0. lia. }
      destruct (Ht i t0 t H0 Hi) as (k & Hk & Hsk & Hin & Hout & Htb).
      rewrite Hprog in Hsk. symmetry in Hsk.
      destruct (skipn_cons_step _ _ _ _ Hsk) as (Hf1 & Hs1 & Hlt).
      split; [exact Hc|]. split; [cbn [threads]; now rewrite set_nth_length|].
      split; [|split].
      + intros j tj. cbn [threads]. destruct (Nat.eq_dec i j) as [<-|Hne].
        * rewrite nth_error_set_nth_eq by assumption. intros E; inversion E; subst.
          unfold Concurrency.pc_ok; cbn [t_pc]. exact I.
        * rewrite nth_error_set_nth_neq by assumption. apply Hp.
      + intros j t0j tj H0j. cbn [threads]. destruct (Nat.eq_dec i j) as [<-|Hne].
        * rewrite nth_error_set_nth_eq by assumption. intros E; inversion E; subst tj. clear E.
          rewrite H0 in H0j. inversion H0j; subst t0j. clear H0j.
          exists (S k). cbn [t_prog t_inst t_outs tbl].
          rewrite Hin, Hf1, seq_run_app. cbn [fst snd]. rewrite update_eq.
          rewrite <- Htb, <- Hout. repeat split; auto.
        * rewrite nth_error_set_nth_neq by assumption. intros Hj.
          destruct (Ht j t0j tj H0j Hj) as (k' & a & b & c & d & e). exists k'. cbn [tbl].
          rewrite update_neq; [auto 6|].
          rewrite Hin. intro E. apply (inst_distinct i j t0 t0j H0 H0j Hne). now symmetry.
      + intros j Hj. cbn [tbl]. rewrite update_neq; [now apply Hf|].
        intro E. apply Hj. rewrite E, Hin. eapply inst_in; eauto.
  Qed.

  Lemma Inv_run sched : forall g, Inv g -> Inv (run sched g).
  Proof. induction sched as [|i l IH]; intros g H; [exact H|]. apply IH. now apply Inv_step. Qed.

  Hypothesis g0_cold : (forall c, cells _ _ _ _ g0 c = None)
                       /\ (forall t, In t (threads _ _ _ _ g0) -> t_pc _ _ _ t = Idle _ /\ t_outs _ _ _ t = []).

  Lemma Inv_initial : Inv g0.
  Proof.
    destruct g0_cold as (Hc & Ht).
    split; [intros c; left; apply Hc|]. split; [reflexivity|]. split; [|split].
    - intros i t Hi. destruct (Ht t (nth_error_In _ _ Hi)) as (Hp & _).
      unfold Concurrency.pc_ok. now rewrite Hp.
    - intros i t0 t H0 H1. rewrite H0 in H1. inversion H1; subst t. exists 0.
      destruct (Ht t0 (nth_error_In _ _ H0)) as (_ & Ho). cbn [skipn firstn]. cbn. rewrite Ho.
      repeat split; auto. lia.
    - auto.
  Qed.
End Conc.

(** * The theorems *)
Section Theorems.
  Variables (V St Op Out : Type).
  Variable cpu : nat -> bool.
  Variable choose : (nat -> bool) -> nat -> V.
  Variable cell_of : Op -> nat.
  Variable exec : V -> Op -> St -> St * Out.

  Notation init := (init V cpu choose).
  Notation run := (run V St Op Out cpu choose cell_of exec).
  Notation seq_run := (seq_run V St Op Out cpu choose cell_of exec).
  Notation pc_ok := (pc_ok V Op Out cpu choose cell_of).
  Notation initial := (initial V St Op Out).
  Notation interleave_run := (interleave_run V St Op Out cpu choose cell_of exec).

  Lemma Inv_reached g0 sched : initial g0 ->
    Inv V St Op Out cpu choose cell_of exec g0 (run sched g0).
  Proof.
    intros (Hc & Ht & Hd). apply Inv_run; [exact Hd|]. apply Inv_initial. split; assumption.
  Qed.

  (** every schedule: a cell only ever holds None or [init c], and whatever a caller holds
      (computed but not yet stored, or ready to be used) is [init] of the cell its operation
      consults *)
  Theorem once_cell_any_schedule g0 sched : initial g0 ->
    (forall c, cells _ _ _ _ (run sched g0) c = None \/ cells _ _ _ _ (run sched g0) c = Some (init c))
    /\ (forall i t, nth_error (threads _ _ _ _ (run sched g0)) i = Some t -> pc_ok t).
  Proof. intros H. destruct (Inv_reached g0 sched H) as (a & _ & b & _). split; assumption. Qed.

  (** every schedule: each thread has executed a prefix of its program, and its outputs and its
      instance's state are those of the sequential one-at-a-time run of that prefix *)
  Theorem concurrent_equals_sequential g0 sched : initial g0 ->
    forall i t0 t, nth_error (threads _ _ _ _ g0) i = Some t0 ->
                   nth_error (threads _ _ _ _ (run sched g0)) i = Some t ->
    exists k, k <= length (t_prog _ _ _ t0)
      /\ t_prog _ _ _ t = skipn k (t_prog _ _ _ t0)
      /\ t_inst _ _ _ t = t_inst _ _ _ t0
      /\ t_outs _ _ _ t = snd (seq_run (tbl _ _ _ _ g0 (t_inst _ _ _ t0)) (firstn k (t_prog _ _ _ t0)))
      /\ tbl _ _ _ _ (run sched g0) (t_inst _ _ _ t0)
         = fst (seq_run (tbl _ _ _ _ g0 (t_inst _ _ _ t0)) (firstn k (t_prog _ _ _ t0))).
  Proof.
    intros H i t0 t H0 H1. destruct (Inv_reached g0 sched H) as (_ & _ & _ & Ht & _).
    exact (Ht i t0 t H0 H1).
  Qed.

  (** a thread that has finished produced exactly the sequential outputs *)
  Theorem concurrent_complete g0 sched : initial g0 ->
    forall i t0 t, nth_error (threads _ _ _ _ g0) i = Some t0 ->
                   nth_error (threads _ _ _ _ (run sched g0)) i = Some t ->
                   t_prog _ _ _ t = [] ->
    t_outs _ _ _ t = snd (seq_run (tbl _ _ _ _ g0 (t_inst _ _ _ t0)) (t_prog _ _ _ t0))
    /\ tbl _ _ _ _ (run sched g0) (t_inst _ _ _ t0)
       = fst (seq_run (tbl _ _ _ _ g0 (t_inst _ _ _ t0)) (t_prog _ _ _ t0)).
  Proof.
    intros H i t0 t H0 H1 Hfin.
    destruct (concurrent_equals_sequential g0 sched H i t0 t H0 H1) as (k & Hk & Hs & _ & Ho & Htb).
    rewrite Hfin in Hs. symmetry in Hs.
    assert (Hlen : length (skipn k (t_prog _ _ _ t0)) = 0) by now rewrite Hs.
    rewrite skipn_length in Hlen.
    rewrite firstn_all2 in Ho, Htb by lia. split; assumption.
  Qed.

  (** threads neither appear nor disappear *)
  Theorem threads_preserved g0 sched : initial g0 ->
    length (threads _ _ _ _ (run sched g0)) = length (threads _ _ _ _ g0).
  Proof. intros H. now destruct (Inv_reached g0 sched H) as (_ & a & _). Qed.

  (** no instance is touched by a thread that does not own it *)
  Theorem no_foreign_writes g0 sched : initial g0 ->
    forall j, ~ In j (map (t_inst _ _ _) (threads _ _ _ _ g0)) ->
              tbl _ _ _ _ (run sched g0) j = tbl _ _ _ _ g0 j.
  Proof. intros H. now destruct (Inv_reached g0 sched H) as (_ & _ & _ & _ & a). Qed.

  (** operations on several instances interleaved within one thread: for every interleaving,
      each instance's outputs and final state equal its own sequential run (the projection of
      the schedule onto that instance) *)
  Theorem interleaving_independent : forall (l : list (nat * Op)) (tb : nat -> St) (i : nat),
    proj i (snd (interleave_run tb l)) = snd (seq_run (tb i) (proj i l))
    /\ fst (interleave_run tb l) i = fst (seq_run (tb i) (proj i l)).
  Proof.
    unfold proj. induction l as [|[j o] r IH]; intros tb i; cbn [interleave_run filter map fst snd seq_run].
    - split; reflexivity.
    - destruct (Nat.eqb_spec j i) as [->|Hne]; cbn [map snd fst seq_run].
      + destruct (IH (update tb i (fst (exec (init (cell_of o)) o (tb i)))) i) as (a & b).
        rewrite update_eq in a, b. rewrite a, b. split; reflexivity.
      + destruct (IH (update tb j (fst (exec (init (cell_of o)) o (tb j)))) i) as (a & b).
        rewrite update_neq in a, b by congruence. split; assumption.
  Qed.
End Theorems.

(** * Progress: a thread that is scheduled often enough finishes (non-vacuity of "finished") *)
Section Progress.
  Variables (V St Op Out : Type).
  Variable cpu : nat -> bool.
  Variable choose : (nat -> bool) -> nat -> V.
  Variable cell_of : Op -> nat.
  Variable exec : V -> Op -> St -> St * Out.
  Notation step := (step V St Op Out cpu choose cell_of exec).
  Notation run := (run V St Op Out cpu choose cell_of exec).

  Definition stage (p : pc V) : nat :=
    match p with Idle _ => 0 | SawNone _ _ => 1 | Computed _ _ _ => 2 | Ready _ _ => 3 end.
  (** micro-steps still needed, at most *)
  Definition work (t : thread V Op Out) : nat := 4 * length (t_prog _ _ _ t) - stage (t_pc _ _ _ t).

  Lemma step_other g i j t : i <> j ->
    nth_error (threads _ _ _ _ g) i = Some t -> nth_error (threads _ _ _ _ (step g j)) i = Some t.
  Proof.
    intros Hne Hi. unfold Concurrency.step.
    destruct (nth_error (threads _ _ _ _ g) j) as [tj|]; [|exact Hi].
    unfold step_thread. destruct (t_prog _ _ _ tj); [exact Hi|].
    destruct (t_pc _ _ _ tj); try destruct (cells _ _ _ _ g _); cbn [threads];
      rewrite nth_error_set_nth_neq by congruence; exact Hi.
  Qed.

  Lemma step_self g i t :
    nth_error (threads _ _ _ _ g) i = Some t ->
    exists t', nth_error (threads _ _ _ _ (step g i)) i = Some t' /\ work t' <= work t - 1.
  Proof.
    intros Hi. assert (Hil : i < length (threads _ _ _ _ g)) by (apply nth_error_Some; congruence).
    unfold Concurrency.step. rewrite Hi. unfold step_thread.
    destruct (t_prog _ _ _ t) as [|o rest] eqn:Hp.
    - exists t. split; [exact Hi|]. unfold work. rewrite Hp. simpl. lia.
    - destruct (t_pc _ _ _ t) eqn:Hpc; try destruct (cells _ _ _ _ g _); cbn [threads];
        eexists; (split; [apply nth_error_set_nth_eq; exact Hil|]);
        unfold work; cbn [t_prog t_pc stage]; rewrite ?Hp, ?Hpc; cbn [length stage]; lia.
  Qed.

  Lemma run_work i : forall sched g t,
    nth_error (threads _ _ _ _ g) i = Some t ->
    exists t', nth_error (threads _ _ _ _ (run sched g)) i = Some t'
               /\ work t' <= work t - count_occ Nat.eq_dec sched i.
  Proof.
    induction sched as [|j l IH]; intros g t Hi.
    - exists t. split; [exact Hi|]. simpl. lia.
    - cbn [Concurrency.run fold_left count_occ]. destruct (Nat.eq_dec j i) as [->|Hne].
      + destruct (step_self g i t Hi) as (t1 & H1 & W1).
        destruct (IH _ _ H1) as (t' & H' & W'). exists t'. split; [exact H'|]. lia.
      + destruct (IH _ _ (step_other g i j t ltac:(congruence) Hi)) as (t' & H' & W').
        exists t'. split; [exact H'|]. lia.
  Qed.

  Theorem progress g i t sched :
    nth_error (threads _ _ _ _ g) i = Some t ->
    4 * length (t_prog _ _ _ t) <= count_occ Nat.eq_dec sched i ->
    exists t', nth_error (threads _ _ _ _ (run sched g)) i = Some t' /\ t_prog _ _ _ t' = [].
  Proof.
    intros Hi Hc. destruct (run_work i sched g t Hi) as (t' & H' & W).
    exists t'. split; [exact H'|].
    assert (W0 : work t' = 0) by (unfold work in *; lia).
    unfold work in W0. destruct (t_prog _ _ _ t') as [|o r]; [reflexivity|].
    exfalso. destruct (t_pc _ _ _ t'); cbn [length stage] in W0; lia.
  Qed.

  (** under any schedule that gives every thread enough steps, every thread's outputs are
      exactly those of its single-threaded one-at-a-time run *)
  Theorem fair_schedule_sequential g0 sched :
    initial V St Op Out g0 ->
    (forall i t0, nth_error (threads _ _ _ _ g0) i = Some t0 ->
                  4 * length (t_prog _ _ _ t0) <= count_occ Nat.eq_dec sched i) ->
    forall i t0, nth_error (threads _ _ _ _ g0) i = Some t0 ->
    exists t, nth_error (threads _ _ _ _ (run sched g0)) i = Some t
      /\ t_prog _ _ _ t = []
      /\ t_outs _ _ _ t
         = snd (seq_run V St Op Out cpu choose cell_of exec (tbl _ _ _ _ g0 (t_inst _ _ _ t0)) (t_prog _ _ _ t0))
      /\ tbl _ _ _ _ (run sched g0) (t_inst _ _ _ t0)
         = fst (seq_run V St Op Out cpu choose cell_of exec (tbl _ _ _ _ g0 (t_inst _ _ _ t0)) (t_prog _ _ _ t0)).
  Proof.
    intros Hinit Hfair i t0 H0.
    destruct (progress g0 i t0 sched H0 (Hfair i t0 H0)) as (t & Ht & Hfin).
    exists t. split; [exact Ht|]. split; [exact Hfin|].
    exact (concurrent_complete V St Op Out cpu choose cell_of exec g0 sched Hinit i t0 t H0 Ht Hfin).
  Qed.
End Progress.

(** * Non-vacuity: three threads, a racy double initialisation of one cell *)
Module Example3.
  Definition cpu (_ : nat) := true.
  Definition choose (f : nat -> bool) (c : nat) : nat := if f c then 7 + c else 0.
  Definition cell_of (o : nat) : nat := o mod 2.
  Definition exec (v o s : nat) : nat * nat := (s + v * o, s + v * o).
  Definition th (i : nat) (p : list nat) := Th nat nat nat i p (Idle nat) [].
  Definition g0 := G nat nat nat nat (fun _ => None) (fun _ => 0) [th 0 [1; 2]; th 1 [3]; th 2 [4; 5]].
  Definition run := run nat nat nat nat cpu choose cell_of exec.
  (** threads 0 and 1 both read cell 1 while it is empty, both compute, both store *)
  Definition prefix := [0; 1; 0; 1].
  Definition sched := prefix ++ [0; 1; 0; 1; 2; 2; 2; 2; 0; 0; 2; 2; 0; 1; 2].

  Lemma g0_initial : initial nat nat nat nat g0.
  Proof.
    split; [reflexivity|]. split.
    - intros t [<-|[<-|[<-|[]]]]; split; reflexivity.
    - cbn. repeat constructor; cbn; intuition discriminate.
  Qed.

  Lemma both_computed :
    map (t_pc nat nat nat) (threads _ _ _ _ (run prefix g0)) = [Computed nat 1 8; Computed nat 1 8; Idle nat].
  Proof. reflexivity. Qed.

  Lemma all_finished_sequential :
    map (fun t => (t_prog nat nat nat t, t_outs nat nat nat t)) (threads _ _ _ _ (run sched g0))
    = map (fun t => ([], snd (seq_run nat nat nat nat cpu choose cell_of exec 0 (t_prog _ _ _ t))))
          (threads _ _ _ _ g0).
  Proof. reflexivity. Qed.

  Lemma outputs : map (t_outs nat nat nat) (threads _ _ _ _ (run sched g0)) = [[8; 22]; [24]; [28; 68]].
  Proof. reflexivity. Qed.
End Example3.
