(** Groestl-224/256/384/512: the generic hasher record of Model/Hasher.v instantiated with
    the REAL compression / output functions of Model/Groestl.v ([c_tf], [c_of], the IV of
    [new_truncated]), shown (a) [hasher_ok], (b) to have the concrete model's
    [digest] as its one-shot function, hence (c) every history of operations returns the
    SPECIFIED digests (Spec/Groestl.v) of the absorbed bytes.

    Route: direct instantiation of the transcribed shape [groestl_hasher]
    ([C08_crate_hashers_ok] gives [hasher_ok]); the equality with the concrete model is
    structural and unconditional (both count blocks modulo 2^64); the bound (fewer than
    2^64 blocks incl. padding) comes only from the conformance theorem C07. *)
From Coq Require Import NArith List Arith Lia Bool.
From CC Require Import Lib.Words Lib.Bytes Lib.ListX Spec.AES Model.BlockBuffer
  Model.GroestlIntrinsics Model.Groestl Model.Hasher
  Proofs.BlockBufferLazy Proofs.BlockBufferEager Proofs.Hasher Proofs.HasherFin
  Proofs.HasherComposeLib Proofs.GroestlHash.
From CC Require Spec.Groestl.
Import ListNotations.
Local Open Scope N_scope.

Section Real.
Variable S : N -> N.

(** the record: block size, IV, compression and output of compressor [c], digest cut [out] *)
Definition groestl_real (c : comp) (bits : N) (out : list N -> list N) : Hasher.hasher (X * N) (list N) :=
  groestl_hasher (c_bytes c)
    (c_init c (regs_of_bytes (c_bytes c / 16) (iv_block (c_bytes c / 8) bits)))
    (c_tf c)
    (fun cv => out (concat (c_of c cv))).

Lemma groestl_real_ok c bits out : (0 < c_bytes c)%nat -> hasher_ok (groestl_real c bits out).
Proof.
  intros Hs. unfold groestl_real.
  destruct (@crate_hashers_ok X (list N) []) as (_ & Hg & _). now apply Hg.
Qed.

(** the closure of the record and [absorb] of the model are the same fold (the pair is
    kept the other way round) *)
Lemma groestl_fold_step_absorb c blocks : forall cv n,
  fold_left (fun (s : X * N) blk => (c_tf c (fst s) blk, wrap 64 (snd s + 1))) blocks (cv, n)
  = (snd (fold_left (absorb c) blocks (n, cv)), fst (fold_left (absorb c) blocks (n, cv))).
Proof.
  induction blocks as [|b r IH]; intros cv n; cbn [fold_left fst snd]; [reflexivity|].
  rewrite IH. unfold absorb at 2 4. cbn [fst snd]. reflexivity.
Qed.

Lemma groestl_count_eq n e : wrap 64 (n + 1 + e) = addw 64 (addw 64 n 1) e.
Proof. unfold addw. rewrite !wrap_mod. now rewrite N.add_mod_idemp_l by discriminate. Qed.

(** (b) the one-shot function of the record IS [Digest::digest] of the concrete model *)
Theorem groestl_real_oneshot c bits out msg :
  h_oneshot (groestl_real c bits out) msg = digest c bits out msg.
Proof.
  unfold h_oneshot, h_finalize, h_update, h_new, groestl_real, groestl_hasher, groestl_shape, groestl_fin.
  cbn [h_size h_lazy h_init h_pre h_step h_fin i_st i_buf bb_input fst snd].
  unfold digest, update, new_truncated. cbn [h_buf h_count h_cv].
  destruct (input_block (bb_new (c_bytes c)) msg) as [b blocks]. cbn [fst snd].
  rewrite groestl_fold_step_absorb.
  destruct (fold_left (absorb c) blocks
             (0, c_init c (regs_of_bytes (c_bytes c / 16) (iv_block (c_bytes c / 8) bits)))) as [cnt cv].
  cbn [fst snd].
  unfold finalize_dirty, finalize_with, extra_block. cbn [h_buf h_count h_cv].
  rewrite groestl_count_eq.
  destruct (len_padding_be 8 b _) as [b' outb]. cbn [snd]. reflexivity.
Qed.
(** more than (b): the record and the concrete model move in lock-step from EVERY state
    ([groestl_to_model] reads an instance of the record as the model's hasher struct) *)
Definition groestl_to_model (i : inst (X * N)) : Model.Groestl.hasher :=
  H (i_buf i) (snd (i_st i)) (fst (i_st i)).

Lemma groestl_real_new_sim c bits out :
  groestl_to_model (h_new (groestl_real c bits out)) = new_truncated c bits.
Proof. reflexivity. Qed.

Lemma groestl_real_update_sim c bits out i d :
  groestl_to_model (h_update (groestl_real c bits out) i d) = update c (groestl_to_model i) d.
Proof.
  destruct i as [[cv n] b].
  unfold h_update, groestl_real, groestl_hasher, groestl_shape, groestl_to_model, update.
  cbn [h_size h_lazy h_init h_pre h_step h_fin i_st i_buf bb_input fst snd h_buf h_count h_cv].
  destruct (input_block b d) as [b1 blocks]. cbn [fst snd].
  rewrite groestl_fold_step_absorb.
  destruct (fold_left (absorb c) blocks (n, cv)) as [cnt cv']. reflexivity.
Qed.

Lemma groestl_real_finalize_sim c bits out i :
  h_finalize (groestl_real c bits out) i = out (finalize_dirty c (groestl_to_model i)).
Proof.
  destruct i as [[cv n] b].
  unfold h_finalize, groestl_real, groestl_hasher, groestl_shape, groestl_fin, groestl_to_model.
  cbn [h_fin i_st i_buf fst snd].
  unfold finalize_dirty, finalize_with, extra_block. cbn [h_buf h_count h_cv].
  rewrite groestl_count_eq.
  destruct (len_padding_be 8 b _) as [b' outb]. reflexivity.
Qed.
End Real.

(** * the four types *)
Definition groestl224_real := groestl_real (comp512 sbox_fast) 224 out224.
Definition groestl256_real := groestl_real (comp512 sbox_fast) 256 out256.
Definition groestl384_real := groestl_real (comp1024 sbox_fast) 384 out384.
Definition groestl512_real := groestl_real (comp1024 sbox_fast) 512 out512.

Lemma groestl_reals_ok :
  hasher_ok groestl224_real /\ hasher_ok groestl256_real /\ hasher_ok groestl384_real /\ hasher_ok groestl512_real.
Proof. repeat split; apply groestl_real_ok; cbn; lia. Qed.

Lemma groestl_reals_oneshot msg :
  h_oneshot groestl224_real msg = m_groestl224 msg /\ h_oneshot groestl256_real msg = m_groestl256 msg
  /\ h_oneshot groestl384_real msg = m_groestl384 msg /\ h_oneshot groestl512_real msg = m_groestl512 msg.
Proof. repeat split; apply groestl_real_oneshot. Qed.

(** one-shot = specification, below the format limit of 2^64 blocks *)
Lemma groestl224_real_spec m : fits 64 m -> h_oneshot groestl224_real m = Spec.Groestl.groestl224 m.
Proof. intros H. unfold groestl224_real. rewrite groestl_real_oneshot. now apply groestl224_eq_spec. Qed.
Lemma groestl256_real_spec m : fits 64 m -> h_oneshot groestl256_real m = Spec.Groestl.groestl256 m.
Proof. intros H. unfold groestl256_real. rewrite groestl_real_oneshot. now apply groestl256_eq_spec. Qed.
Lemma groestl384_real_spec m : fits 128 m -> h_oneshot groestl384_real m = Spec.Groestl.groestl384 m.
Proof. intros H. unfold groestl384_real. rewrite groestl_real_oneshot. now apply groestl384_eq_spec. Qed.
Lemma groestl512_real_spec m : fits 128 m -> h_oneshot groestl512_real m = Spec.Groestl.groestl512 m.
Proof. intros H. unfold groestl512_real. rewrite groestl_real_oneshot. now apply groestl512_eq_spec. Qed.

(** (c) capstones: every history all of whose hashed messages have fewer than 2^64 blocks
    (padding included) returns the specified digests of the absorbed bytes *)
Theorem groestl224_history ops : ops_bounded (fits 64) ops ->
  snd (run groestl224_real [Some (h_new groestl224_real)] ops) = snd (srun Spec.Groestl.groestl224 [Some []] ops).
Proof. apply compose_history; [apply groestl_reals_ok|exact groestl224_real_spec]. Qed.
Theorem groestl256_history ops : ops_bounded (fits 64) ops ->
  snd (run groestl256_real [Some (h_new groestl256_real)] ops) = snd (srun Spec.Groestl.groestl256 [Some []] ops).
Proof. apply compose_history; [apply groestl_reals_ok|exact groestl256_real_spec]. Qed.
Theorem groestl384_history ops : ops_bounded (fits 128) ops ->
  snd (run groestl384_real [Some (h_new groestl384_real)] ops) = snd (srun Spec.Groestl.groestl384 [Some []] ops).
Proof. apply compose_history; [apply groestl_reals_ok|exact groestl384_real_spec]. Qed.
Theorem groestl512_history ops : ops_bounded (fits 128) ops ->
  snd (run groestl512_real [Some (h_new groestl512_real)] ops) = snd (srun Spec.Groestl.groestl512 [Some []] ops).
Proof. apply compose_history; [apply groestl_reals_ok|exact groestl512_real_spec]. Qed.

(** the hypothesis follows from a bound on the bytes passed to [Update] alone:
    fewer than 2^64 bytes in all update calls together is (more than) enough *)
Lemma fits_of_length bs m n : (bs = 64 \/ bs = 128)%nat ->
  (length m <= n)%nat -> N.of_nat n < 2 ^ 64 - 256 -> fits bs m.
Proof.
  intros Hbs Hl Hn. unfold fits, Spec.Groestl.pad_blocks.
  assert (Hz : (Spec.Groestl.pad_zeros bs (length m) < bs)%nat).
  { unfold Spec.Groestl.pad_zeros. destruct Hbs as [-> | ->]; apply Nat.mod_upper_bound; discriminate. }
  assert (Hd : ((length m + Spec.Groestl.pad_zeros bs (length m) + 9) / bs <= length m + 200)%nat).
  { destruct Hbs as [-> | ->].
    - apply Nat.div_le_upper_bound; lia.
    - apply Nat.div_le_upper_bound; lia. }
  lia.
Qed.

Theorem groestl_history_update_bytes ops :
  N.of_nat (length (update_bytes ops)) < 2 ^ 64 - 256 ->
  snd (run groestl224_real [Some (h_new groestl224_real)] ops) = snd (srun Spec.Groestl.groestl224 [Some []] ops)
  /\ snd (run groestl256_real [Some (h_new groestl256_real)] ops) = snd (srun Spec.Groestl.groestl256 [Some []] ops)
  /\ snd (run groestl384_real [Some (h_new groestl384_real)] ops) = snd (srun Spec.Groestl.groestl384 [Some []] ops)
  /\ snd (run groestl512_real [Some (h_new groestl512_real)] ops) = snd (srun Spec.Groestl.groestl512 [Some []] ops).
Proof.
  intros Hn.
  assert (B : forall bs, (bs = 64 \/ bs = 128)%nat -> ops_bounded (fits bs) ops).
  { intros bs Hbs. apply (ops_bounded_of_update_bytes _ (fun _ => True)).
    - apply Forall_forall. trivial.
    - intros m Hl _. now apply (fits_of_length bs m _ Hbs Hl). }
  repeat split;
    [apply groestl224_history|apply groestl256_history|apply groestl384_history|apply groestl512_history];
    apply B; auto.
Qed.

(** chunked one-instance form *)
Theorem groestl256_chunks pieces : fits 64 (concat pieces) ->
  h_finalize groestl256_real (fold_left (h_update groestl256_real) pieces (h_new groestl256_real))
  = Spec.Groestl.groestl256 (concat pieces).
Proof. apply compose_chunks; [apply groestl_reals_ok|exact groestl256_real_spec]. Qed.
Theorem groestl512_chunks pieces : fits 128 (concat pieces) ->
  h_finalize groestl512_real (fold_left (h_update groestl512_real) pieces (h_new groestl512_real))
  = Spec.Groestl.groestl512 (concat pieces).
Proof. apply compose_chunks; [apply groestl_reals_ok|exact groestl512_real_spec]. Qed.

(** * non-vacuity: a concrete history (update, clone, finalize_reset, update, finalize of
    both slots) evaluated on the real record returns the specification's digests *)
Definition groestl_ex_ops : list op :=
  [Update 0 [1; 2; 3]; Clone 0; FinalizeReset 0; Update 1 (repeat 7 70); Update 0 [9]; Finalize 1; Finalize 0].

Example groestl256_history_example :
  snd (run groestl256_real [Some (h_new groestl256_real)] groestl_ex_ops)
  = [(0%nat, Spec.Groestl.groestl256 [1; 2; 3]);
     (1%nat, Spec.Groestl.groestl256 ([1; 2; 3] ++ repeat 7 70));
     (0%nat, Spec.Groestl.groestl256 [9])].
Proof. vm_compute. reflexivity. Qed.

Example groestl512_history_example :
  snd (run groestl512_real [Some (h_new groestl512_real)] groestl_ex_ops)
  = [(0%nat, Spec.Groestl.groestl512 [1; 2; 3]);
     (1%nat, Spec.Groestl.groestl512 ([1; 2; 3] ++ repeat 7 70));
     (0%nat, Spec.Groestl.groestl512 [9])].
Proof. vm_compute. reflexivity. Qed.

Example groestl_example_bounded : ops_bounded (fits 64) groestl_ex_ops /\ ops_bounded (fits 128) groestl_ex_ops.
Proof.
  split; repeat constructor; vm_compute; reflexivity.
Qed.
