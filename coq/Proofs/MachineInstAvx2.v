(** The concrete Machine of the AVX2 back end of ppv-lite86 (C03): [Avx2Machine<NI>] has
    u32x4 = [u32x4_sse2<YesS3,YesS4,NI>], u64x4 = [u64x4_sse2<YesS3,YesS4,NI>], u128x1/u128x2 as the
    SSE machine with S3 = yes, and u32x4x4 = [u32x4x4_avx2] = [x2<u32x4x2_avx2, G0>]: a list of two
    32-byte register images (Model/PpvAvx2.v), soft.rs forwarding of the one-register methods. *)
From Coq Require Import NArith List Bool Lia Arith.
From CC Require Import Lib.Words Lib.Bytes Lib.ListX Spec.Lanes Model.Intrinsics Model.PpvSse Model.PpvAvx2.
From CC Require Import Model.Machine Proofs.Machine Proofs.MachineBytes Proofs.MachineSse Proofs.MachineInstLib Proofs.MachineInstSse.
From CC Require Import Proofs.IntrinsicsLemmas Proofs.PpvSseWords Proofs.PpvAvx2Words Proofs.PpvAvx2Move.
Import ListNotations.
Local Open Scope N_scope.

(** * u32x4x2_avx2: one 32-byte register, 8 words in two 128-bit lanes *)
Definition avx2_u32x4x2_vops : vops :=
  VOps reg (wf 32) (words_le 4) (fun l => avx2_unpack (bytes_le 4 l))
       avx2_add avx2_xor avx2_rotr
       avx2_shuffle_lane_words1230 avx2_shuffle_lane_words2301 avx2_shuffle_lane_words3012.

Lemma k4' : (0 < 4)%nat. Proof. lia. Qed.
Lemma wf32_ok : forall a, wf 32 a -> words_ok 32 8 (words_le 4 a).
Proof.
  intros a [Hl Hb]. split.
  - rewrite words_le_length by exact k4'. rewrite Hl. reflexivity.
  - exact (words_le_Forall_word 4 a Hb).
Qed.
Lemma ok_wf32 : forall l, words_ok 32 8 l -> wf 32 (bytes_le 4 l) /\ words_le 4 (bytes_le 4 l) = l.
Proof. intros l H. exact (ok_to_bytes 4 8 k4' l H). Qed.

Ltac shuffle_ok8 :=
  intros a [La Fa]; explode a;
  repeat match goal with H : Forall _ (_ :: _) |- _ => inversion H; clear H; subst end;
  (split; [reflexivity |
    cbn [per_lane4 lanes4 length map concat app shuffle1230 shuffle2301 shuffle3012];
    repeat (apply Forall_cons; [assumption|]); apply Forall_nil]).
Lemma ok8_sh1230 : forall a, words_ok 32 8 a -> words_ok 32 8 (per_lane4 shuffle1230 a).
Proof. shuffle_ok8. Qed.
Lemma ok8_sh2301 : forall a, words_ok 32 8 a -> words_ok 32 8 (per_lane4 shuffle2301 a).
Proof. shuffle_ok8. Qed.
Lemma ok8_sh3012 : forall a, words_ok 32 8 a -> words_ok 32 8 (per_lane4 shuffle3012 a).
Proof. shuffle_ok8. Qed.

Lemma avx2_u32x4x2_refines : vops_refines 32 8 ks32 avx2_u32x4x2_vops.
Proof.
  apply vops_refines_intro;
    cbn [avx2_u32x4x2_vops v_wf v_rep v_vec o_add o_xor o_rotr o_sh1230 o_sh2301 o_sh3012].
  - exact ok_wf32.
  - intros a b Wa Wb. rewrite avx2_add_lanewise by assumption.
    apply ok_wf32. apply (ok_add 4 8); apply wf32_ok; assumption.
  - intros a b Wa Wb. destruct (avx2_bitops_lanewise a b Wa Wb) as (-> & _).
    apply ok_wf32. apply (ok_xor 4 8); apply wf32_ok; assumption.
  - intros k a Hk Wa. rewrite avx2_rotr_lanewise; [| cbn in Hk |- *; tauto | assumption].
    apply ok_wf32. apply (ok_rotr 4 8), wf32_ok; assumption.
  - intros a Wa. destruct (avx2_lane_shuffle_is_perm a Wa) as (-> & _ & _).
    apply ok_wf32, ok8_sh1230, wf32_ok; assumption.
  - intros a Wa. destruct (avx2_lane_shuffle_is_perm a Wa) as (_ & -> & _).
    apply ok_wf32, ok8_sh2301, wf32_ok; assumption.
  - intros a Wa. destruct (avx2_lane_shuffle_is_perm a Wa) as (_ & _ & ->).
    apply ok_wf32, ok8_sh3012, wf32_ok; assumption.
Qed.

(** * u32x4x4_avx2 = x2<u32x4x2_avx2, G0> *)
Definition avx2_u32x4x4_vops : vops :=
  prod_vops avx2_u32x4x2_vops 2
    (fun l => avx4_unpack (bytes_le 4 l))        (* [vec512_storage] of the 16 words: p.avx[0], p.avx[1] *)
    (xn_binop avx2_add) (xn_binop avx2_xor) (fun k => xn_unop (avx2_rotr k))
    (xn_unop avx2_shuffle_lane_words1230) (xn_unop avx2_shuffle_lane_words2301)
    (xn_unop avx2_shuffle_lane_words3012).

Lemma avx4_unpack_words : forall l, length l = 16%nat ->
  avx4_unpack (bytes_le 4 l) = map (fun c => avx2_unpack (bytes_le 4 c)) (chunk 8 2 l).
Proof. intros l Hl. explode l. reflexivity. Qed.

Lemma avx2_u32x4x4_refines : vops_refines 32 16 ks32 avx2_u32x4x4_vops.
Proof.
  apply (prod_refines avx2_u32x4x2_vops 32 8%nat ks32 2%nat 2%nat avx2_u32x4x2_refines).
  - intros a Wa. exact (proj1 (wf32_ok a Wa)).
  - reflexivity.
  - intros l [Hl _]. apply avx4_unpack_words. exact Hl.
  - reflexivity.
  - reflexivity.
  - reflexivity.
  - reflexivity.
  - reflexivity.
  - reflexivity.
Qed.

(** well-formedness is ppv-x86's [wfv] (two 32-byte images), and the view is
    [Vector<[u32;16]>::to_scalars] *)
Lemma avx2_u32x4x4_wf_is_wfv : forall v, v_wf avx2_u32x4x4_vops v <-> wfv v.
Proof.
  intros v. cbn [avx2_u32x4x4_vops prod_vops v_wf]. unfold lwf, wfv. cbn [avx2_u32x4x2_vops v_wf]. split.
  - intros [Hl Hf]. explode v.
    repeat match goal with H : Forall _ (_ :: _) |- _ => inversion H; clear H; subst end.
    eexists _, _. split; [reflexivity | split; assumption].
  - intros (r0 & r1 & -> & W0 & W1). split; [reflexivity | repeat (apply Forall_cons; [assumption|]); apply Forall_nil].
Qed.
Lemma avx2_u32x4x4_rep_is_to_scalars : forall v,
  v_wf avx2_u32x4x4_vops v -> v_rep avx2_u32x4x4_vops v = avx4_to_scalars v.
Proof.
  intros v [Hl Hf]. cbn [avx2_u32x4x2_vops v_wf] in Hf. explode v.
  repeat match goal with H : Forall _ (_ :: _) |- _ => inversion H; clear H; subst end.
  cbn [avx2_u32x4x4_vops prod_vops v_rep avx2_u32x4x2_vops]. unfold lrep, avx4_to_scalars.
  cbn [map concat nth]. rewrite app_nil_r.
  match goal with Ha : wf 32 ?a, Hb : wf 32 ?b |- _ = words_le 4 (?a ++ ?b) =>
    destruct Ha as [La _]; destruct Hb as [Lb _]; explode a; explode b end.
  reflexivity.
Qed.

(** * the machine *)
Definition avx2_m : machine :=
  Machine (sse_u32x4_vops true) avx2_u32x4x4_vops (sse_u64x4_vops true) (sse_jops true).

Theorem avx2_m_refines : machine_refines avx2_m.
Proof.
  unfold machine_refines, avx2_m. cbn [m_u32x4 m_u32x4x4 m_u64x4 m_u128].
  split; [apply sse_u32x4_refines | split; [apply avx2_u32x4x4_refines | split;
    [apply sse_u64x4_refines | apply sse_jops_refines]]].
Qed.

Example avx2_m_is_concrete :
  map (@length N) (v_vec (m_u32x4x4 avx2_m) [0; 1; 2; 3; 4; 5; 6; 7; 8; 9; 10; 11; 12; 13; 14; 15]) = [32; 32]%nat.
Proof. vm_compute. reflexivity. Qed.
