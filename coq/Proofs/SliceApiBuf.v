(** C16 — proofs about the addressed slice model: block-buffer absorption, StoreBytes,
    in-place block operations, chunk splitting. *)
From Coq Require Import NArith List Arith Lia Bool.
From CC Require Import Lib.Words Lib.Bytes Lib.ListX Model.BlockBuffer Model.SliceApi Proofs.SliceApi.
Import ListNotations.

(** * Block-buffer absorption *)

Lemma read_blocks_view pre post L size body : length body = L -> 0 < size ->
  forall nb i fuel, i <= L -> nb = (L - i) / size -> nb <= fuel ->
  read_blocks nb (pre ++ body ++ post) (Sl (length pre) L) i size
  = Some (chunks_exact size fuel (skipn i body)).
Proof.
  intros HL Hsz. induction nb as [|k IH]; intros i fuel Hi Hnb Hf; cbn [read_blocks].
  - symmetry in Hnb. apply Nat.div_small_iff in Hnb; [|lia].
    destruct fuel as [|f]; cbn [chunks_exact]; [reflexivity|].
    destruct (Nat.leb_spec size (length (skipn i body))) as [H|H]; [|reflexivity].
    rewrite skipn_length in H. lia.
  - assert (Hge : size <= L - i).
    { destruct (Nat.lt_ge_cases (L - i) size) as [Hlt|]; [|assumption].
      rewrite Nat.div_small in Hnb by assumption. discriminate. }
    destruct fuel as [|f]; [lia|]. cbn [chunks_exact].
    destruct (Nat.leb_spec size (length (skipn i body))) as [H|H]; [|rewrite skipn_length in H; lia].
    rewrite sread_view by (try assumption; lia).
    rewrite (IH (i + size) f); try lia.
    + rewrite skipn_skipn'. reflexivity.
    + replace (L - i) with ((L - (i + size)) + 1 * size) in Hnb by lia.
      rewrite Nat.div_add in Hnb by lia. lia.
Qed.

Definition bb_ok (b : bb) : Prop := 0 < bb_size b /\ bb_pos b <= bb_size b.

Lemma m_input_block_view pre body post L b :
  length body = L -> bb_ok b ->
  m_input_block b (pre ++ body ++ post) (Sl (length pre) L) = Some (input_block b body).
Proof.
  intros HL (Hsz & Hpos). unfold m_input_block, input_block; cbn [s_len]. rewrite HL.
  unfold bb_remaining.
  destruct (Nat.ltb_spec L (bb_size b - bb_pos b)) as [Hlt|Hge].
  - rewrite sread_view by (try assumption; lia). cbn [skipn].
    rewrite firstn_all2 by lia. reflexivity.
  - destruct (Nat.eqb_spec (bb_pos b) 0) as [Hz|Hnz]; cbn [negb].
    + (* empty buffer: full blocks straight from the slice *)
      rewrite Nat.sub_0_r.
      rewrite (read_blocks_view pre post L (bb_size b) body HL Hsz _ 0 (length body)); try lia.
      2:{ rewrite Nat.sub_0_r. reflexivity. }
      2:{ rewrite HL. apply Nat.div_le_upper_bound; [lia|]. nia. }
      cbn [skipn].
      assert (Hm : bb_size b * (L / bb_size b) <= L) by (apply Nat.mul_div_le; lia).
      rewrite sread_view by (try assumption; lia).
      rewrite chunks_exact_length by (try assumption; lia). rewrite HL.
      cbn [plus]. rewrite firstn_all2 by (rewrite skipn_length; lia).
      reflexivity.
    + (* partial block first *)
      set (r := bb_size b - bb_pos b) in *.
      rewrite sread_view by (try assumption; lia). cbn [skipn].
      assert (Hm : bb_size b * ((L - r) / bb_size b) <= L - r) by (apply Nat.mul_div_le; lia).
      rewrite (read_blocks_view pre post L (bb_size b) body HL Hsz _ r (length (skipn r body))); try lia.
      2:{ rewrite skipn_length, HL. apply Nat.div_le_upper_bound; [lia|]. nia. }
      rewrite sread_view by (try assumption; lia).
      rewrite chunks_exact_length by (try assumption; lia). rewrite skipn_length, HL.
      rewrite skipn_skipn'.
      rewrite (firstn_all2 (n := L - r - bb_size b * ((L - r) / bb_size b))) by (rewrite skipn_length; lia).
      reflexivity.
Qed.

(** (a)+(b)+address independence for hash update: on a slice in mapped memory the addressed
    absorption never leaves the slice and equals [Model.BlockBuffer.input_block] applied to the
    slice's bytes — a function of content and length only; memory is not written at all
    (the function does not return a memory) *)
Theorem input_block_spec m s b :
  slice_ok m s -> bb_ok b -> m_input_block b m s = Some (input_block b (sbytes m s)).
Proof.
  intros Hs Hb. destruct (slice_view m s Hs) as (pre & body & post & -> & Hp & Hl).
  destruct s as [off len]; cbn [s_off s_len] in *. subst off.
  rewrite (sbytes_view pre body post len Hl). now apply m_input_block_view.
Qed.

Theorem input_block_reads_in_bounds m s b :
  slice_ok m s -> bb_ok b -> m_input_block b m s <> None.
Proof. intros Hs Hb. now rewrite input_block_spec. Qed.

Theorem input_block_address_independent m1 s1 m2 s2 b :
  slice_ok m1 s1 -> slice_ok m2 s2 -> bb_ok b -> sbytes m1 s1 = sbytes m2 s2 ->
  m_input_block b m1 s1 = m_input_block b m2 s2.
Proof. intros H1 H2 Hb E. rewrite !input_block_spec by assumption. now rewrite E. Qed.

(** * StoreBytes *)

Lemma sbytes_length m s : slice_ok m s -> length (sbytes m s) = s_len s.
Proof. unfold slice_ok, sbytes. intros H. apply firstn_length_le. rewrite skipn_length. lia. Qed.

Theorem sb_read_spec size m s :
  slice_ok m s -> sb_read size m s = if s_len s =? size then Ok (sbytes m s) else Panic m.
Proof.
  intros Hs. unfold sb_read. destruct (Nat.eqb_spec (s_len s) size) as [E|]; [|reflexivity].
  destruct (slice_view m s Hs) as (pre & body & post & -> & Hp & Hl).
  destruct s as [off len]; cbn [s_off s_len] in *. subst off size.
  rewrite sread_view by (try assumption; lia). rewrite sbytes_view by assumption.
  cbn [skipn]. now rewrite firstn_all2 by lia.
Qed.

Theorem sb_write_spec v m s :
  slice_ok m s ->
  sb_write v m s = if s_len s =? length v
                   then Ok (firstn (s_off s) m ++ v ++ skipn (s_off s + s_len s) m)
                   else Panic m.
Proof.
  intros Hs. unfold sb_write. destruct (Nat.eqb_spec (s_len s) (length v)) as [E|]; [|reflexivity].
  destruct (slice_view m s Hs) as (pre & body & post & -> & Hp & Hl).
  destruct s as [off len]; cbn [s_off s_len] in *. subst off.
  rewrite swrite_view by (try assumption; lia). cbn [firstn plus app].
  rewrite firstn_len_app. rewrite skipn_plus_app. rewrite <- Hl. rewrite skipn_len_app.
  rewrite skipn_all2 by lia. now rewrite app_nil_r.
Qed.

(** what may be said of every outcome: no access outside the slice (never [Fault]); whether the
    call returns or panics, memory outside the slice is unchanged *)
Definition res_safe {A} (m : mem) (s : slice) (r : res A) (mem_of : A -> mem) : Prop :=
  match r with
  | Ok a => same_outside m (mem_of a) s
  | Panic m' => same_outside m m' s
  | Fault => False
  end.

Lemma sb_write_safe v m s : slice_ok m s -> res_safe m s (sb_write v m s) (fun m' => m').
Proof.
  intros Hs. rewrite sb_write_spec by assumption.
  destruct (Nat.eqb_spec (s_len s) (length v)) as [E|]; cbn [res_safe]; [|apply same_outside_refl].
  unfold slice_ok in Hs. unfold same_outside. repeat split.
  - rewrite !app_length, firstn_length, skipn_length. lia.
  - rewrite firstn_app_le by (rewrite firstn_length; lia). rewrite firstn_firstn. f_equal. lia.
  - assert (El : s_off s + s_len s = length (firstn (s_off s) m ++ v) + 0).
    { rewrite app_length, firstn_length. lia. }
    rewrite app_assoc. rewrite El at 1. rewrite skipn_plus_app. reflexivity.
Qed.

Lemma res_safe_sub_write (r : res mem) m0 m s i n :
  i + n <= s_len s -> same_outside m0 m s ->
  res_safe m (sub s i n) r (fun m' => m') -> res_safe m0 s r (fun m' => m').
Proof.
  intros Hin H0 Hr. destruct r as [m'|m'|]; cbn [res_safe] in *; auto;
    (eapply same_outside_trans; [exact H0|]; eapply same_outside_sub; eauto).
Qed.

Theorem sb_write2_safe v0 v1 m s : slice_ok m s -> res_safe m s (sb_write2 v0 v1 m s) (fun m' => m').
Proof.
  intros Hs. unfold sb_write2.
  assert (Hh : s_len s / 2 <= s_len s) by (apply Nat.div_le_upper_bound; lia).
  pose proof (sb_write_safe v0 m (sub s 0 (s_len s / 2)) (slice_ok_sub m s 0 (s_len s / 2) ltac:(lia) Hs)) as H0.
  destruct (sb_write v0 m (sub s 0 (s_len s / 2))) as [m1|m1|]; cbn [res_safe] in H0.
  - apply same_outside_sub in H0; [|lia].
    apply (res_safe_sub_write _ m m1 s (s_len s / 2) (s_len s - s_len s / 2)); [lia|assumption|].
    apply sb_write_safe. apply slice_ok_sub; [lia|]. destruct H0 as (Hl & _). eapply slice_ok_same; eauto.
  - cbn [res_safe]. apply same_outside_sub in H0; [assumption|lia].
  - contradiction.
Qed.

Theorem sb_write4_safe v0 v1 v2 v3 m s :
  slice_ok m s -> res_safe m s (sb_write4 v0 v1 v2 v3 m s) (fun m' => m').
Proof.
  intros Hs. unfold sb_write4. set (n := s_len s / 4).
  assert (Hn : 4 * n <= s_len s) by (unfold n; apply Nat.mul_div_le; lia).
  pose proof (sb_write_safe v0 m (sub s 0 n) (slice_ok_sub m s 0 n ltac:(lia) Hs)) as H0.
  destruct (sb_write v0 m (sub s 0 n)) as [m1|m1|]; cbn [res_safe] in H0;
    [|cbn [res_safe]; apply same_outside_sub in H0; [assumption|lia]|contradiction].
  apply same_outside_sub in H0; [|lia].
  assert (S1 : slice_ok m1 s) by (destruct H0 as (Hl & _); eapply slice_ok_same; eauto).
  pose proof (sb_write_safe v1 m1 (sub s n n) (slice_ok_sub m1 s n n ltac:(lia) S1)) as H1.
  destruct (sb_write v1 m1 (sub s n n)) as [m2|m2|]; cbn [res_safe] in H1;
    [|cbn [res_safe]; apply same_outside_sub in H1; [eapply same_outside_trans; eauto|lia]|contradiction].
  apply same_outside_sub in H1; [|lia].
  assert (H01 : same_outside m m2 s) by (eapply same_outside_trans; eauto).
  assert (S2 : slice_ok m2 s) by (destruct H01 as (Hl & _); eapply slice_ok_same; eauto).
  pose proof (sb_write_safe v2 m2 (sub s (2 * n) n) (slice_ok_sub m2 s (2 * n) n ltac:(lia) S2)) as H2.
  destruct (sb_write v2 m2 (sub s (2 * n) n)) as [m3|m3|]; cbn [res_safe] in H2;
    [|cbn [res_safe]; apply same_outside_sub in H2; [eapply same_outside_trans; eauto|lia]|contradiction].
  apply same_outside_sub in H2; [|lia].
  assert (H02 : same_outside m m3 s) by (eapply same_outside_trans; eauto).
  assert (S3 : slice_ok m3 s) by (destruct H02 as (Hl & _); eapply slice_ok_same; eauto).
  apply (res_safe_sub_write _ m m3 s (3 * n) (s_len s - 3 * n)); [lia|assumption|].
  apply sb_write_safe. apply slice_ok_sub; [lia|assumption].
Qed.

Lemma firstn_add {A} (l : list A) a b : firstn a l ++ firstn b (skipn a l) = firstn (a + b) l.
Proof.
  revert l; induction a as [|a IH]; intros l; [reflexivity|].
  destruct l as [|x l]; simpl; [now rewrite firstn_nil|]. f_equal. apply IH.
Qed.

(** reads: never a fault; a result is the content of the slice; a panic leaves memory alone *)
Theorem sb_read2_spec size m s :
  slice_ok m s ->
  sb_read2 size m s = if (s_len s / 2 =? size) && (s_len s - s_len s / 2 =? size)
                      then Ok (sbytes m s) else Panic m.
Proof.
  intros Hs. unfold sb_read2.
  assert (Hh : s_len s / 2 <= s_len s) by (apply Nat.div_le_upper_bound; lia).
  rewrite !sb_read_spec by (apply slice_ok_sub; [lia|assumption]).
  cbn [sub s_len s_off].
  destruct (Nat.eqb_spec (s_len s / 2) size) as [E1|]; cbn [andb]; [|reflexivity].
  destruct (Nat.eqb_spec (s_len s - s_len s / 2) size) as [E2|]; [|reflexivity].
  f_equal. unfold sbytes; cbn [s_off s_len]. unfold sub; cbn [s_off s_len]. rewrite Nat.add_0_r.
  rewrite <- skipn_skipn'.
  set (l := skipn (s_off s) m).
  rewrite firstn_add. f_equal. lia.
Qed.

(** * In-place block operation *)
Theorem blk_apply_spec n f m s :
  slice_ok m s -> (forall d, length d = n -> length (f d) = n) ->
  blk_apply n f m s = if s_len s =? n
                      then Ok (firstn (s_off s) m ++ f (sbytes m s) ++ skipn (s_off s + s_len s) m)
                      else Panic m.
Proof.
  intros Hs Hf. unfold blk_apply. destruct (Nat.eqb_spec (s_len s) n) as [E|]; [|reflexivity].
  destruct (slice_view m s Hs) as (pre & body & post & -> & Hp & Hl).
  destruct s as [off len]; cbn [s_off s_len] in *. subst off n len.
  rewrite sread_view by (try reflexivity; lia). cbn [skipn]. rewrite firstn_all2 by lia.
  rewrite sbytes_view by reflexivity.
  rewrite swrite_view by (try reflexivity; rewrite Hf; lia). cbn [firstn plus app].
  rewrite Hf by reflexivity. rewrite firstn_len_app. rewrite skipn_plus_app.
  rewrite skipn_len_app.
  rewrite skipn_all2 by lia. now rewrite app_nil_r.
Qed.

Theorem blk_apply_safe n f m s :
  slice_ok m s -> (forall d, length d = n -> length (f d) = n) ->
  res_safe m s (blk_apply n f m s) (fun m' => m').
Proof.
  intros Hs Hf. unfold blk_apply. destruct (Nat.eqb_spec (s_len s) n) as [E|]; [|apply same_outside_refl].
  pose proof (sbytes_length m s Hs) as Hb.
  destruct (slice_view m s Hs) as (pre & body & post & -> & Hp & Hl).
  destruct s as [off len]; cbn [s_off s_len] in *. subst off n.
  rewrite sread_view by (try assumption; lia). cbn [skipn]. rewrite firstn_all2 by lia.
  rewrite swrite_view by (try assumption; rewrite Hf; lia). cbn [res_safe firstn plus app].
  rewrite Hf by assumption. rewrite <- Hl at 1. rewrite skipn_all. rewrite app_nil_r.
  apply same_outside_view; [assumption|now apply Hf].
Qed.

(** * Chunk splitting covers the slice exactly once *)

Lemma chunks_concat k : 0 < k -> forall fuel l, length l <= fuel -> concat (chunks k fuel l) = l.
Proof.
  intros Hk. induction fuel as [|f IH]; intros l Hl.
  - destruct l; [reflexivity|simpl in Hl; lia].
  - cbn [chunks]. destruct l as [|x l']; [reflexivity|]. cbn [concat].
    rewrite IH; [apply firstn_skipn|]. rewrite skipn_length. cbn [length] in *. lia.
Qed.

Lemma chunks_sizes k : 0 < k -> forall fuel l, Forall (fun c => 0 < length c <= k) (chunks k fuel l).
Proof.
  intros Hk. induction fuel as [|f IH]; intros l; cbn [chunks]; [constructor|].
  destruct l as [|x l']; constructor; [|apply IH].
  rewrite firstn_length. cbn [length]. lia.
Qed.

Lemma chunks_count k : 0 < k -> forall fuel l, length l <= fuel ->
  length (chunks k fuel l) = (length l + k - 1) / k.
Proof.
  intros Hk. induction fuel as [|f IH]; intros l Hl.
  - destruct l; [|simpl in Hl; lia]. simpl. symmetry. apply Nat.div_small. lia.
  - cbn [chunks]. destruct l as [|x l']; [simpl; symmetry; apply Nat.div_small; lia|].
    assert (0 < length (x :: l')) by (cbn [length]; lia).
    set (l := x :: l') in *.
    change (length (firstn k l :: chunks k f (skipn k l))) with (S (length (chunks k f (skipn k l)))).
    rewrite IH by (rewrite skipn_length; lia).
    rewrite skipn_length. set (n := length l) in *.
    destruct (Nat.le_gt_cases k n) as [Hge|Hlt].
    + replace (n + k - 1) with ((n - k + k - 1) + 1 * k) by lia.
      rewrite Nat.div_add by lia. lia.
    + replace (n - k) with 0 by lia. cbn [plus].
      rewrite (Nat.div_small (k - 1) k) by lia.
      replace (n + k - 1) with ((n - 1) + 1 * k) by lia. rewrite Nat.div_add by lia.
      rewrite Nat.div_small by lia. reflexivity.
Qed.

(** [chunks_exact] leaves exactly the remainder *)
Lemma chunks_exact_concat_rem k : 0 < k -> forall fuel l, length l <= fuel ->
  concat (chunks_exact k fuel l) ++ skipn (k * (length l / k)) l = l.
Proof.
  intros Hk. induction fuel as [|f IH]; intros l Hl.
  - destruct l; [|simpl in Hl; lia]. rewrite skipn_nil. reflexivity.
  - cbn [chunks_exact]. destruct (Nat.leb_spec k (length l)) as [H|H].
    + cbn [concat]. rewrite <- app_assoc.
      replace (length l) with ((length l - k) + 1 * k) by lia. rewrite Nat.div_add by lia.
      replace (k * ((length l - k) / k + 1)) with (k + k * ((length l - k) / k)) by lia.
      rewrite <- skipn_skipn'. rewrite <- (skipn_length k l).
      rewrite IH by (rewrite skipn_length; lia). apply firstn_skipn.
    + rewrite Nat.div_small by assumption. rewrite Nat.mul_0_r. reflexivity.
Qed.

(** the three segments of [try_apply_keystream] (buffered prefix, wide part, tail) partition the data *)
Lemma apply_segments (l : list N) hr :
  hr <= length l ->
  let rest := skipn hr l in
  let w := 256 * (length rest / 256) in
  l = firstn hr l ++ firstn w rest ++ skipn w rest
  /\ length (firstn w rest) mod 256 = 0 /\ length (skipn w rest) < 256.
Proof.
  intros H rest w. split; [now rewrite !firstn_skipn|].
  assert (Hw : w <= length rest) by (apply Nat.mul_div_le; lia).
  rewrite firstn_length, skipn_length, Nat.min_l by assumption. split.
  - unfold w. rewrite Nat.mul_comm. apply Nat.mod_mul. lia.
  - unfold w. pose proof (Nat.div_mod (length rest) 256 ltac:(lia)).
    pose proof (Nat.mod_upper_bound (length rest) 256 ltac:(lia)). lia.
Qed.
