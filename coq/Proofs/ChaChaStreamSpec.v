(** Abstract key stream of a ChaCha stream: byte [p] is byte [p mod 64] of block [p / 64];
    block [k] is the block function applied to the state of the stream with its counter at [k]. *)
From Coq Require Import NArith ZArith List Lia Arith Bool ZifyBool ZifyN ZifyNat.
From CC Require Import Lib.Words Lib.Bytes Lib.ListX Model.ChaChaGuts Model.ChaChaStream.
From CC Require Import Proofs.ChaChaStreamCtr Proofs.ChaChaStreamLoops.
Import ListNotations.
Ltac Zify.zify_post_hook ::= Z.div_mod_to_equations.
Local Open Scope N_scope.

Lemma skipn_add {A} a : forall b (l : list A), skipn (a + b) l = skipn b (skipn a l).
Proof.
  induction a as [|a IH]; intros b l; [reflexivity|].
  destruct l as [|x l]; cbn [Nat.add skipn]; [destruct b; reflexivity | apply IH].
Qed.

Lemma skipn_nth_cons {A} (d : A) r : forall l, (r < length l)%nat -> skipn r l = nth r l d :: skipn (S r) l.
Proof.
  induction r as [|r IH]; intros [|x l] H; cbn [length] in H; try lia; [reflexivity|].
  cbn [skipn nth]. rewrite (IH l) by lia. reflexivity.
Qed.

Section Spec.
  Variable blk : chacha -> list N.
  Variable is12 : bool.
  Variable s0 : chacha.
  Hypothesis blk_len : forall q, length (blk (stA s0 q)) = 64%nat.
  Set Default Proof Using "All".

  (** number of blocks of the stream *)
  Definition nblocks : N := if is12 then 2 ^ 32 else 2 ^ 64.
  (** the 64-bit quantity in d words 0,1 for block 0: the 12-byte-nonce layout keeps its first nonce word in word 1 *)
  Definition ctr_base : N := if is12 then nth 1 (cd s0) 0 * 2 ^ 32 else 0.

  (** block [k] of the key stream *)
  Definition kblock (k : N) : list N := rawblock blk s0 (ctr_base + k).
  Definition ks_byte (p : N) : N := nth (N.to_nat (p mod 64)) (kblock (p / 64)) 0.
  Fixpoint keystream (p : N) (n : nat) : list N :=
    match n with
    | O => []
    | S k => ks_byte p :: keystream (p + 1) k
    end.

  Lemma keystream_length n : forall p, length (keystream p n) = n.
  Proof. induction n as [|n IH]; intros p; cbn [keystream length]; [reflexivity | rewrite IH; reflexivity]. Qed.

  Lemma keystream_nth n : forall p i, (i < n)%nat -> nth i (keystream p n) 0 = ks_byte (p + N.of_nat i).
  Proof.
    induction n as [|n IH]; intros p i Hi; [lia|].
    destruct i as [|i]; cbn [keystream nth].
    - f_equal. lia.
    - rewrite IH by lia. f_equal. lia.
  Qed.

  Lemma keystream_add a : forall p b, keystream p (a + b) = keystream p a ++ keystream (p + N.of_nat a) b.
  Proof.
    induction a as [|a IH]; intros p b.
    - cbn [Nat.add keystream app]. f_equal. lia.
    - cbn [Nat.add keystream app]. rewrite IH. do 3 f_equal. lia.
  Qed.

  Lemma keystream_prefix n : forall p n', (n <= n')%nat -> keystream p n = firstn n (keystream p n').
  Proof.
    induction n as [|n IH]; intros p n' H; [reflexivity|].
    destruct n' as [|n']; [lia|]. cbn [keystream firstn]. rewrite (IH (p + 1) n') by lia. reflexivity.
  Qed.

  Lemma kblock_length k : length (kblock k) = 64%nat.
  Proof. apply blk_len. Qed.

  Lemma keystream_in_block n : forall k r, (r + n <= 64)%nat ->
    keystream (64 * k + N.of_nat r) n = firstn n (skipn r (kblock k)).
  Proof.
    induction n as [|n IH]; intros k r H; [reflexivity|].
    cbn [keystream]. rewrite (skipn_nth_cons 0 r (kblock k)) by (rewrite kblock_length; lia).
    cbn [firstn]. f_equal.
    - unfold ks_byte. replace ((64 * k + N.of_nat r) / 64) with k by lia.
      replace (N.to_nat ((64 * k + N.of_nat r) mod 64)) with r by lia. reflexivity.
    - rewrite <- (IH k (S r)) by lia. f_equal. lia.
  Qed.

  Lemma keystream_block k : keystream (64 * k) 64 = kblock k.
  Proof.
    replace (64 * k) with (64 * k + N.of_nat 0) by lia. rewrite keystream_in_block by lia.
    cbn [skipn]. apply firstn_all2. rewrite kblock_length. lia.
  Qed.

  Lemma keystream_blocks m : forall k, keystream (64 * k) (64 * m) = rawstream blk s0 (ctr_base + k) m.
  Proof.
    induction m as [|m IH]; intros k; [reflexivity|].
    replace (64 * S m)%nat with (64 + 64 * m)%nat by lia.
    rewrite keystream_add, keystream_block. cbn [rawstream]. f_equal.
    replace (64 * k + N.of_nat 64) with (64 * (k + 1)) by lia. rewrite IH. f_equal. lia.
  Qed.

  (** xor with whole blocks = xor with the key stream of the same length *)
  Lemma xor_rawstream_keystream d k m : (length d <= 64 * m)%nat ->
    xor_bytes d (rawstream blk s0 (ctr_base + k) m) = xor_bytes d (keystream (64 * k) (length d)).
  Proof.
    intros H. rewrite <- keystream_blocks.
    rewrite (keystream_prefix (length d) (64 * k) (64 * m)) by exact H.
    rewrite xor_bytes_firstn_r by lia. reflexivity.
  Qed.
End Spec.
