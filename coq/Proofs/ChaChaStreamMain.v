(** Closed statements of the ChaCha stream wrapper theorems (C02, C11): the Section
    hypotheses bundled as [producers_spec] / [stream_init], the instance for the real
    producers, and a worked example. *)
From Coq Require Import NArith ZArith List Lia Arith Bool ZifyBool ZifyN ZifyNat.
From CC Require Import Lib.Words Lib.Bytes Lib.ListX Model.ChaChaGuts Model.ChaChaStream.
From CC Require Import Proofs.ChaChaStreamCtr Proofs.ChaChaStreamLoops Proofs.ChaChaStreamBody
  Proofs.ChaChaStreamSpec Proofs.ChaChaStreamSeek Proofs.ChaChaStreamInv Proofs.ChaChaStreamHist
  Proofs.ChaChaStreamLimits.
Import ListNotations.
Ltac Zify.zify_post_hook ::= Z.div_mod_to_equations.
Local Open Scope N_scope.

(** the two block producers are specified by one block function [blk : state -> 64 bytes] on the
    states of the stream [stA s0 q] (the initial state with the 64-bit quantity in d words 0,1
    set to [q mod 2^64]; nothing else is ever passed to them):
    [refill] emits the block of the current state and increments the 64-bit counter,
    [refill4] emits four consecutive blocks (C14: wide = 4 x narrow) *)
Definition producers_spec (refill1 refill4 : chacha -> list N * chacha) (blk : chacha -> list N) (s0 : chacha) : Prop :=
  (forall q, length (blk (stA s0 q)) = 64%nat) /\
  (forall q, refill1 (stA s0 q) = (blk (stA s0 q), stA s0 (q + 1))) /\
  (forall q, refill4 (stA s0 q) = (blk (stA s0 q) ++ blk (stA s0 (q + 1)) ++ blk (stA s0 (q + 2)) ++ blk (stA s0 (q + 3)),
                                   stA s0 (q + 4))).

(** the same, stated for all states with [inc_block_ct] *)
Lemma producers_spec_all refill1 refill4 blk s0 : length (cd s0) = 4%nat ->
  (forall s, length (blk s) = 64%nat) ->
  (forall s, refill1 s = (blk s, inc_block_ct s)) ->
  (forall s, refill4 s = (blk s ++ blk (inc_block_ct s) ++ blk (inc_block_ct (inc_block_ct s))
                            ++ blk (inc_block_ct (inc_block_ct (inc_block_ct s))),
                          inc_block_ct (inc_block_ct (inc_block_ct (inc_block_ct s))))) ->
  producers_spec refill1 refill4 blk s0.
Proof.
  intros Hl H0 H1 H4. split; [intros q; apply H0 | split; intros q].
  - rewrite H1, inc_stA by exact Hl. reflexivity.
  - rewrite H4, !inc_stA by exact Hl. rewrite <- !N.add_assoc. reflexivity.
Qed.

(** the state handed to [ChaChaAny::new]: four d words, counter word(s) zero,
    the first nonce word of the 12-byte layout a 32-bit value *)
Definition stream_init (is12 : bool) (s0 : chacha) : Prop :=
  length (cd s0) = 4%nat /\ nth 1 (cd s0) 0 < 2 ^ 32 /\ wf_init is12 s0.

(** reachable states: the invariant for some abstract position *)
Definition reachable blk is12 s0 (b : buffer) (pos : N) : Prop := Inv blk is12 s0 b pos.

Section Closed.
  Variables (refill1 refill4 : chacha -> list N * chacha) (blk : chacha -> list N).
  Variables (is12 : bool) (s0 : chacha).
  Hypothesis HS : stream_init is12 s0.
  Hypothesis HP : producers_spec refill1 refill4 blk s0.
  Set Default Proof Using "All".

  Let blk_len := proj1 HP.
  Let r1 := proj1 (proj2 HP).
  Let r4 := proj2 (proj2 HP).
  Let s0_len := proj1 HS.
  Let s0_w1 := proj1 (proj2 HS).
  Let wf := proj2 (proj2 HS).
  Local Notation "'!' x" := (x refill1 refill4 blk is12 s0 s0_len blk_len r1 r4 s0_w1) (at level 9, x at level 0).

  Notation run := (run refill1 refill4 is12).
  Notation try_apply := (try_apply refill1 refill4 is12).
  Notation R := (run (new_buffer is12 s0)).
  Notation SR := (spec_run blk is12 s0).
  Notation SP := (spec_pos blk is12 s0).

  Theorem stream_history_correct ops : Forall op_ok ops ->
    R ops = SR 0 ops /\ existsb obs_panics (R ops) = false.
  Proof. intros H. exact (! history_correct ops wf H). Qed.

  Theorem stream_history_correct_from b pos ops : reachable blk is12 s0 b pos -> Forall op_ok ops ->
    run b ops = SR pos ops.
  Proof. intros HI H. exact (! run_correct ops b pos HI H). Qed.

  Theorem new_reachable : reachable blk is12 s0 (new_buffer is12 s0) 0.
  Proof. exact (! inv_init wf). Qed.

  Theorem step_reachable b pos o : reachable blk is12 s0 b pos -> op_ok o ->
    reachable blk is12 s0 (fst (step refill1 refill4 is12 b o)) (fst (spec_step blk is12 s0 pos o)).
  Proof.
    intros HI Ho. destruct (! step_correct b pos o HI Ho) as (b' & Heq & HI'). rewrite Heq. exact HI'.
  Qed.

  Theorem rechunk pre d1 d2 post :
    Forall op_ok pre -> Forall op_ok post ->
    N.of_nat (length d1 + length d2) < 2 ^ 64 ->
    SP 0 pre + N.of_nat (length d1 + length d2) <= stream_bytes is12 ->
    exists o1 o2 tl,
      R (pre ++ OApply d1 :: OApply d2 :: post) = R pre ++ ObsApply ROk o1 :: ObsApply ROk o2 :: tl /\
      R (pre ++ OApply (d1 ++ d2) :: post) = R pre ++ ObsApply ROk (o1 ++ o2) :: tl.
  Proof. exact (! rechunk_invariant pre d1 d2 post wf). Qed.

  Theorem reseek pre p post :
    Forall op_ok pre -> Forall op_ok post -> seek_in_range is12 p ->
    R (pre ++ OSeek p :: post) = R pre ++ R (OSeek p :: post).
  Proof. exact (! reseek_invariant pre p post wf). Qed.

  Theorem apply_twice pre d :
    Forall op_ok pre -> N.of_nat (length d) < 2 ^ 64 ->
    SP 0 pre + N.of_nat (length d) <= stream_bytes is12 -> SP 0 pre < 2 ^ 64 ->
    exists o,
      R (pre ++ [OApply d; OSeek (Z.of_N (SP 0 pre)); OApply o])
      = R pre ++ [ObsApply ROk o; ObsSeek ROk; ObsApply ROk d].
  Proof. exact (! apply_twice_restores pre d wf). Qed.

  Theorem apply_ok_iff_closed b pos data : reachable blk is12 s0 b pos -> N.of_nat (length data) < 2 ^ 64 ->
    (fst (fst (try_apply b data)) = ROk <-> pos + N.of_nat (length data) <= stream_bytes is12)
    /\ fst (fst (try_apply b data)) <> RPanic.
  Proof. exact (! apply_ok_iff b pos data). Qed.

  Theorem apply_err_atomic_closed b pos data : reachable blk is12 s0 b pos -> N.of_nat (length data) < 2 ^ 64 ->
    fst (fst (try_apply b data)) <> ROk ->
    fst (fst (try_apply b data)) = RErr /\ snd (try_apply b data) = data
    /\ reachable blk is12 s0 (snd (fst (try_apply b data))) pos.
  Proof. exact (! apply_err_atomic b pos data). Qed.

  Theorem apply_ok_bytes_closed b pos data i : reachable blk is12 s0 b pos -> N.of_nat (length data) < 2 ^ 64 ->
    fst (fst (try_apply b data)) = ROk -> (i < length data)%nat ->
    nth i (snd (try_apply b data)) 0 = N.lxor (nth i data 0) (ks_byte blk is12 s0 (pos + N.of_nat i))
    /\ pos + N.of_nat i < stream_bytes is12.
  Proof. exact (! apply_ok_bytes b pos data i). Qed.

  Theorem seek_reachable b pos p : reachable blk is12 s0 b pos -> seek_in_range is12 p ->
    exists b', try_seek is12 b p = (ROk, b') /\ reachable blk is12 s0 b' (Z.to_N p).
  Proof. exact (! inv_seek b pos p). Qed.

  Theorem block_inputs_distinct_closed k k' : k < nblocks is12 -> k' < nblocks is12 ->
    stA s0 (ctr_base is12 s0 + k) = stA s0 (ctr_base is12 s0 + k') -> k = k'.
  Proof. exact (! block_inputs_distinct k k'). Qed.

  Theorem block_input_words_closed k d0 d1 d2 d3 : k < nblocks is12 -> cd s0 = [d0; d1; d2; d3] ->
    kblock blk is12 s0 k =
      blk (CC (cb s0) (cc s0) (if is12 then [k; d1; d2; d3] else [k mod 2 ^ 32; k / 2 ^ 32; d2; d3])).
  Proof. exact (! block_input_words k d0 d1 d2 d3). Qed.
End Closed.

(** * the constructors of the seven variants produce a [stream_init] state *)
Lemma stream_init_of v drounds key nonce :
  Forall is_byte nonce ->
  length nonce = (match v with VDjb => 8 | VIetf => 12 | VX => 24 end)%nat ->
  stream_init (is12_of v) (init_of v drounds key nonce).
Proof.
  intros Hb Hl. unfold stream_init, wf_init, init_of, init_chacha, init_chacha_x.
  destruct v; rewrite ?Hl; cbn [cd is12_of length nth Nat.eqb]; repeat split; try reflexivity; try lia; try discriminate.
  pose proof (le_join_lt (firstn 4 nonce) (Forall_firstn' _ 4 _ Hb)) as H.
  rewrite firstn_length, Hl in H. exact H.
Qed.

(** * the real producers: [refill] is specified by its own first component; what remains is
    the block length and C14 (wide = 4 x narrow) on the states of the stream, both about
    Model/ChaChaGuts.v *)
Lemma real_producers_spec drounds s0 : length (cd s0) = 4%nat ->
  (forall q, length (fst (refill (stA s0 q) drounds)) = 64%nat) ->
  (forall q, let s := stA s0 q in
     refill_wide s drounds =
     (fst (refill s drounds) ++ fst (refill (inc_block_ct s) drounds)
        ++ fst (refill (inc_block_ct (inc_block_ct s)) drounds)
        ++ fst (refill (inc_block_ct (inc_block_ct (inc_block_ct s))) drounds),
      inc_block_ct (inc_block_ct (inc_block_ct (inc_block_ct s))))) ->
  producers_spec (real_refill1 drounds) (real_refill4 drounds) (fun s => fst (refill s drounds)) s0.
Proof.
  intros Hl H0 Hw. split; [exact H0 | split; intros q].
  - unfold real_refill1, refill. cbn [fst]. rewrite inc_stA by exact Hl. reflexivity.
  - unfold real_refill4. rewrite (Hw q). cbv zeta. rewrite !inc_stA by exact Hl. rewrite <- !N.add_assoc. reflexivity.
Qed.

(** * a worked example: the hypotheses are satisfiable and a 6-operation history with a
    mid-block seek, a position query, a multi-block apply, a seek to 3 bytes before the end
    of the IETF stream and an apply that runs over the end behaves as the theorem says.
    The toy block function writes the state's 64-bit counter value into every byte position
    (byte i of block q is (q + i) mod 256); the wide producer is four narrow ones. *)
Definition toy_blk (s : chacha) : list N := map (fun i => (pos64 s + N.of_nat i) mod 256) (seq 0 64).
Definition toy_refill1 (s : chacha) : list N * chacha := (toy_blk s, inc_block_ct s).
Definition toy_refill4 (s : chacha) : list N * chacha :=
  (toy_blk s ++ toy_blk (inc_block_ct s) ++ toy_blk (inc_block_ct (inc_block_ct s))
     ++ toy_blk (inc_block_ct (inc_block_ct (inc_block_ct s))),
   inc_block_ct (inc_block_ct (inc_block_ct (inc_block_ct s)))).

Definition toy_s0 : chacha := CC [1; 2; 3; 4] [5; 6; 7; 8] [0; 7; 8; 9].

Lemma toy_producers_spec : producers_spec toy_refill1 toy_refill4 toy_blk toy_s0.
Proof.
  apply producers_spec_all; [reflexivity | | intros s; reflexivity | intros s; reflexivity].
  intros s. unfold toy_blk. rewrite map_length, seq_length. reflexivity.
Qed.

Definition toy_ops : list op :=
  [OSeek 10; OApply [1; 2; 3; 4; 5]; OPos (2 ^ 64 - 1); OApply (repeat 0 70);
   OSeek (2 ^ 38 - 3); OApply [1; 2; 3; 4]].

Lemma toy_stream_init : stream_init true toy_s0.
Proof. unfold stream_init, wf_init, toy_s0. cbn [cd length nth]. repeat split; try lia; try discriminate. Qed.

Lemma toy_ops_ok : Forall op_ok toy_ops.
Proof. repeat constructor; cbn; lia. Qed.

Example toy_history :
  run toy_refill1 toy_refill4 true (new_buffer true toy_s0) toy_ops = spec_run toy_blk true toy_s0 0 toy_ops
  /\ map (fun o => match o with ObsSeek r => (r, 0) | ObsApply r out => (r, N.of_nat (length out)) | ObsPos (Some z) => (ROk, Z.to_N z) | ObsPos None => (RErr, 0) end)
       (run toy_refill1 toy_refill4 true (new_buffer true toy_s0) toy_ops)
     = [(ROk, 0); (ROk, 5); (ROk, 15); (ROk, 70); (ROk, 0); (RErr, 4)].
Proof.
  split.
  - exact (proj1 (stream_history_correct _ _ _ _ _ toy_stream_init toy_producers_spec toy_ops toy_ops_ok)).
  - vm_compute. reflexivity.
Qed.

(** * the limits, numerically *)
Section ClosedLimits.
  Variables (refill1 refill4 : chacha -> list N * chacha) (blk : chacha -> list N).
  Variable s0 : chacha.
  Hypothesis HP : producers_spec refill1 refill4 blk s0.

  Theorem ietf_apply_ok_iff (HS : stream_init true s0) b pos data :
    reachable blk true s0 b pos -> N.of_nat (length data) < 2 ^ 64 ->
    (fst (fst (try_apply refill1 refill4 true b data)) = ROk <-> pos + N.of_nat (length data) <= 2 ^ 38)
    /\ fst (fst (try_apply refill1 refill4 true b data)) <> RPanic.
  Proof. exact (apply_ok_iff_closed _ _ _ _ _ HS HP b pos data). Qed.

  Theorem big_apply_ok_iff (HS : stream_init false s0) b pos data :
    reachable blk false s0 b pos -> N.of_nat (length data) < 2 ^ 64 ->
    (fst (fst (try_apply refill1 refill4 false b data)) = ROk <-> pos + N.of_nat (length data) <= 2 ^ 70)
    /\ fst (fst (try_apply refill1 refill4 false b data)) <> RPanic.
  Proof. exact (apply_ok_iff_closed _ _ _ _ _ HS HP b pos data). Qed.

  Theorem big_counter_never_exhausts (HS : stream_init false s0) b pos data :
    reachable blk false s0 b pos -> N.of_nat (length data) < 2 ^ 64 ->
    pos + N.of_nat (length data) <= 2 ^ 64 ->
    fst (fst (try_apply refill1 refill4 false b data)) = ROk.
  Proof.
    intros HI Hn Hfit. apply (proj1 (big_apply_ok_iff HS b pos data HI Hn)). lia.
  Qed.

  (** seek to exactly the end is accepted; there, an empty apply succeeds, a one-byte apply is
      [Err] with the byte unchanged, and the position is still 2^38 *)
  Theorem seek_to_limit_then_apply0_ok (HS : stream_init true s0) b pos x :
    reachable blk true s0 b pos ->
    run refill1 refill4 true b [OSeek (2 ^ 38); OApply []; OApply [x]; OApply []; OPos (2 ^ 64 - 1)]
    = [ObsSeek ROk; ObsApply ROk []; ObsApply RErr [x]; ObsApply ROk []; ObsPos (Some (2 ^ 38)%Z)].
  Proof.
    intros HI. rewrite (stream_history_correct_from _ _ _ _ _ HS HP b pos _ HI).
    - reflexivity.
    - repeat constructor; cbn; lia.
  Qed.
End ClosedLimits.
