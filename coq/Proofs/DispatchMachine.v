(** Selection + machine independence composed (C03): given a Machine instance per back-end name
    and the proof that each refines the lane-wise meaning (the content of C12/C13 for that back
    end), every dispatched algorithm returns, in every configuration, the value of the lane-wise
    instance, and never the [unimplemented!()] panic. *)
From Coq Require Import NArith List Bool.
From CC Require Import Lib.Words Lib.ListX Spec.Lanes Model.Dispatch Model.Machine.
From CC Require Import Proofs.Dispatch Proofs.Machine.
Import ListNotations.
Local Open Scope N_scope.

Definition rows4 := (list N * list N * list N * list N)%type.
Definition rows_ok (w : N) (n : nat) (x : rows4) : Prop :=
  let '(a, b, c, d) := x in words_ok w n a /\ words_ok w n b /\ words_ok w n c /\ words_ok w n d.

Section Composed.
  Variable inst : backend -> machine.

  Definition chacha_narrow (k : nat) (b : backend) (x : rows4) : rows4 :=
    let '(a, bb, c, d) := x in chacha_rounds_on (m_u32x4 (inst b)) k a bb c d.
  Definition chacha_wide (k : nat) (b : backend) (x : rows4) : rows4 :=
    let '(a, bb, c, d) := x in chacha_rounds_on (m_u32x4x4 (inst b)) k a bb c d.
  Definition blake32 (mss : list rows4) (b : backend) (x : rows4) : rows4 :=
    blake32_rounds_on (m_u32x4 (inst b)) x mss.
  Definition blake64 (mss : list rows4) (b : backend) (x : rows4) : rows4 :=
    blake64_rounds_on (m_u64x4 (inst b)) x mss.
  Definition jh (sched : list (nat * (N * N))) (b : backend) (l : list N) : list N :=
    jh_rounds_on (m_u128 (inst b)) l sched.

  Hypothesis all_refine : forall b, machine_refines (inst b).

  Lemma chacha_narrow_same : forall k b x, rows_ok 32 4 x ->
    chacha_narrow k b x = (let '(a, bb, c, d) := x in chacha_rounds_on (m_u32x4 lane_m) k a bb c d).
  Proof.
    intros k b [[[a bb] c] d] (Ha & Hb & Hc & Hd). unfold chacha_narrow.
    apply (proj1 (chacha_round_machine_indep _ (all_refine b) k a bb c d)); assumption.
  Qed.
  Lemma chacha_wide_same : forall k b x, rows_ok 32 16 x ->
    chacha_wide k b x = (let '(a, bb, c, d) := x in chacha_rounds_on (m_u32x4x4 lane_m) k a bb c d).
  Proof.
    intros k b [[[a bb] c] d] (Ha & Hb & Hc & Hd). unfold chacha_wide.
    apply (proj2 (chacha_round_machine_indep _ (all_refine b) k a bb c d)); assumption.
  Qed.
  Lemma blake32_same : forall mss b x, msgs_ok 32 mss -> rows_ok 32 4 x ->
    blake32 mss b x = blake32_rounds_on (m_u32x4 lane_m) x mss.
  Proof.
    intros mss b x Hm Hx. unfold blake32.
    apply (proj1 (blake_round_machine_indep _ (all_refine b) x mss)); [destruct x as [[[? ?] ?] ?]; exact Hx | exact Hm].
  Qed.
  Lemma blake64_same : forall mss b x, msgs_ok 64 mss -> rows_ok 64 4 x ->
    blake64 mss b x = blake64_rounds_on (m_u64x4 lane_m) x mss.
  Proof.
    intros mss b x Hm Hx. unfold blake64.
    apply (proj2 (blake_round_machine_indep _ (all_refine b) x mss)); [destruct x as [[[? ?] ?] ?]; exact Hx | exact Hm].
  Qed.
  Lemma jh_same : forall sched b l, sched_ok sched -> length l = 8%nat /\ Forall w128 l ->
    jh sched b l = jh_rounds_on (m_u128 lane_m) l sched.
  Proof.
    intros sched b l Hs [Hl Hw]. unfold jh. apply (jh_layer_machine_indep _ (all_refine b)); assumption.
  Qed.

  (** a configuration: macro, no_simd, std, detected CPU features, target features *)
  Definition config := (macro * bool * bool * features * features)%type.
  Definition cpu_of (c : config) : features := let '(_, _, _, cpu, _) := c in cpu.
  Definition on {X Y} (algo : backend -> X -> Y) (c : config) (x : X) : option Y :=
    let '(m, n, s, cpu, tf) := c in dispatched algo m n s cpu tf x.

  Lemma on_indep : forall {X Y} (algo : backend -> X -> Y) (ref : X -> Y) (dom : X -> Prop),
    (forall b x, dom x -> algo b x = ref x) ->
    forall c1 c2 x, f_sse2 (cpu_of c1) = true -> f_sse2 (cpu_of c2) = true -> dom x ->
      on algo c1 x = on algo c2 x /\ on algo c1 x = Some (ref x).
  Proof.
    intros X Y algo ref dom H [[[[m1 n1] s1] cpu1] tf1] [[[[m2 n2] s2] cpu2] tf2] x H1 H2 Hx.
    cbn [cpu_of] in *. unfold on.
    rewrite !(dispatched_eq_ref algo ref dom H) by assumption. split; reflexivity.
  Qed.

  Theorem backends_agree : forall c1 c2,
    f_sse2 (cpu_of c1) = true -> f_sse2 (cpu_of c2) = true ->
    (forall k x, rows_ok 32 4 x ->
       on (chacha_narrow k) c1 x = on (chacha_narrow k) c2 x /\ on (chacha_narrow k) c1 x <> None) /\
    (forall k x, rows_ok 32 16 x ->
       on (chacha_wide k) c1 x = on (chacha_wide k) c2 x /\ on (chacha_wide k) c1 x <> None) /\
    (forall mss x, msgs_ok 32 mss -> rows_ok 32 4 x ->
       on (blake32 mss) c1 x = on (blake32 mss) c2 x /\ on (blake32 mss) c1 x <> None) /\
    (forall mss x, msgs_ok 64 mss -> rows_ok 64 4 x ->
       on (blake64 mss) c1 x = on (blake64 mss) c2 x /\ on (blake64 mss) c1 x <> None) /\
    (forall sched l, sched_ok sched -> length l = 8%nat -> Forall w128 l ->
       on (jh sched) c1 l = on (jh sched) c2 l /\ on (jh sched) c1 l <> None).
  Proof.
    intros c1 c2 H1 H2. repeat apply conj.
    - intros k x Hx.
      destruct (on_indep (chacha_narrow k) _ _ (chacha_narrow_same k) c1 c2 x H1 H2 Hx) as [E S].
      split; [exact E | rewrite S; discriminate].
    - intros k x Hx.
      destruct (on_indep (chacha_wide k) _ _ (chacha_wide_same k) c1 c2 x H1 H2 Hx) as [E S].
      split; [exact E | rewrite S; discriminate].
    - intros mss x Hm Hx.
      destruct (on_indep (blake32 mss) _ _ (fun b x => blake32_same mss b x Hm) c1 c2 x H1 H2 Hx) as [E S].
      split; [exact E | rewrite S; discriminate].
    - intros mss x Hm Hx.
      destruct (on_indep (blake64 mss) _ _ (fun b x => blake64_same mss b x Hm) c1 c2 x H1 H2 Hx) as [E S].
      split; [exact E | rewrite S; discriminate].
    - intros sched l Hs Hl Hw.
      destruct (on_indep (jh sched) _ _ (fun b x => jh_same sched b x Hs) c1 c2 l H1 H2 (conj Hl Hw)) as [E S].
      split; [exact E | rewrite S; discriminate].
  Qed.
End Composed.
