(** C12 portable part: the per-word form of swapN for N below the word width. *)
From Coq Require Import NArith List Bool Arith Lia.
From CC Require Import Lib.Words Lib.Bytes Lib.ListX Model.PpvSoft Model.PpvGeneric.
From CC Require Spec.Lanes.
From CC Require Import Proofs.PpvGenericLib Proofs.PpvGenericOps Proofs.PpvGenericSwap Proofs.PpvSoftFwd Proofs.PpvGenericWide.
Import ListNotations.
Local Open Scope N_scope.

Lemma lane_bit_nth w v (i : nat) j : (i < length v)%nat -> j < w ->
  lane_bit w v (w * N.of_nat i + j) = N.testbit (nth i v 0) j.
Proof.
  revert i. induction v as [|x r IH]; intros i Hi Hj; [cbn in Hi; lia|].
  destruct i as [|i]; cbn [lane_bit nth].
  - rewrite N.mul_0_r, N.add_0_l. destruct (N.ltb_spec j w); [reflexivity | lia].
  - destruct (N.ltb_spec (w * N.of_nat (S i) + j) w) as [H|H]; [nia|].
    replace (w * N.of_nat (S i) + j - w) with (w * N.of_nat i + j) by nia.
    apply IH; [cbn in Hi; lia | exact Hj].
Qed.

(** index arithmetic of [xor] with a group size below the word width, for all 128 positions *)
Definition word_ok (w n : N) (J : N) : bool :=
  (N.lxor J n =? (J / w) * w + N.lxor (J mod w) n) && (N.lxor (J mod w) n <? w).
Definition swaps_below (w : N) : list N := filter (fun n => n <? w) [1; 2; 4; 8; 16; 32; 64].
Lemma word_ok_all t :
  forallb (fun n => forallb (word_ok (vt_w t) n) (upto 128)) (swaps_below (vt_w t)) = true.
Proof. destruct t; vm_compute; reflexivity. Qed.

Theorem g_swap_words p t n v : In n (swaps_below (vt_w t)) -> wfv t v ->
  exists r, g_swap p t n v = Ok r /\ wfv t r /\
    forall (i : nat) j, (i < vt_n t)%nat -> j < vt_w t ->
      N.testbit (nth i r 0) j = N.testbit (nth i v 0) (N.lxor j n).
Proof.
  intros Hn Hv.
  assert (Hn' : In n [1; 2; 4; 8; 16; 32; 64]) by (apply filter_In in Hn; tauto).
  destruct (g_swap_groups p t n v Hn' Hv) as [r [E [Hr B]]].
  exists r. split; [exact E|]. split; [exact Hr|]. intros i j Hi Hj.
  pose proof (word_ok_all t) as W. rewrite forallb_forall in W. specialize (W n Hn).
  set (J := vt_w t * N.of_nat i + j).
  assert (HJ : J < 128).
  { unfold J. destruct t; cbn [vt_w vt_n] in *; lia. }
  pose proof (sweep _ 128 W J HJ) as K. unfold word_ok in K. apply andb_prop in K. destruct K as [K1 K2].
  apply N.eqb_eq in K1. apply N.ltb_lt in K2.
  assert (Hw : vt_w t <> 0) by (destruct t; discriminate).
  assert (Jd : J / vt_w t = N.of_nat i).
  { unfold J. rewrite N.mul_comm, N.div_add_l by exact Hw. rewrite N.div_small by exact Hj. lia. }
  assert (Jm : J mod vt_w t = j).
  { unfold J. rewrite N.add_comm, N.mul_comm, N.mod_add by exact Hw. now apply N.mod_small. }
  rewrite Jd, Jm in K1. rewrite Jm in K2.
  specialize (B J HJ). unfold lane, img in B. rewrite !lane_bit_join, <- !w_k in B.
  rewrite K1 in B. unfold J in B.
  rewrite lane_bit_nth in B by (try exact Hj; rewrite (proj1 Hr); exact Hi).
  rewrite (N.mul_comm (N.of_nat i)) in B.
  rewrite lane_bit_nth in B by (try exact K2; rewrite (proj1 Hv); exact Hi).
  exact B.
Qed.
