(** C12/C13 portable part: byte/word view lemmas, well-formedness, the image-level characterisation of generic.rs's dmap/qmap/omap helpers. *)
From Coq Require Import NArith List Bool Arith Lia.
From CC Require Import Lib.Words Lib.Bytes Lib.ListX Model.PpvSoft Model.PpvGeneric.
From CC Require Spec.Lanes.
Import ListNotations.
Local Open Scope N_scope.


(** * bits of sums of disjoint parts *)
Lemma testbit_add_shiftl a b m j :
  a < 2 ^ m -> N.testbit (a + N.shiftl b m) j = if j <? m then N.testbit a j else N.testbit b (j - m).
Proof.
  intros Ha. rewrite N.shiftl_mul_pow2.
  destruct (N.ltb_spec j m) as [H|H].
  - rewrite <- (N.mod_pow2_bits_low (a + b * 2 ^ m) m j H).
    rewrite N.mod_add by apply pow2_nz. rewrite N.mod_small by exact Ha. reflexivity.
  - replace j with (j - m + m) at 1 by lia.
    rewrite <- N.div_pow2_bits. rewrite N.div_add by apply pow2_nz.
    rewrite N.div_small by exact Ha. reflexivity.
Qed.

Lemma lor_add_shiftl a b m : a < 2 ^ m -> N.lor a (N.shiftl b m) = a + N.shiftl b m.
Proof.
  intros Ha. apply N.bits_inj; intro j.
  rewrite N.lor_spec, testbit_add_shiftl by exact Ha. rewrite testbit_shiftl.
  destruct (N.ltb_spec j m) as [H|H].
  - destruct (N.leb_spec m j); [lia|]. now rewrite orb_false_r.
  - destruct (N.leb_spec m j); [|lia]. rewrite (testbit_high m a j) by (assumption || lia). reflexivity.
Qed.

(** * le_join / le_split structure *)
Lemma le_join_app xs ys :
  le_join (xs ++ ys) = le_join xs + N.shiftl (le_join ys) (8 * N.of_nat (length xs)).
Proof.
  induction xs as [|b r IH]; cbn [app le_join length].
  - now rewrite N.shiftl_0_r.
  - rewrite IH, !N.shiftl_mul_pow2.
    replace (8 * N.of_nat (S (length r))) with (8 * N.of_nat (length r) + 8) by (rewrite Nat2N.inj_succ; lia).
    rewrite N.pow_add_r. ring.
Qed.

Lemma le_split_app n m x :
  le_split (n + m) x = le_split n x ++ le_split m (N.shiftr x (8 * N.of_nat n)).
Proof.
  revert x. induction n as [|n IH]; intro x; cbn [Nat.add le_split app].
  - now rewrite N.shiftr_0_r.
  - rewrite IH, N.shiftr_shiftr.
    replace (8 + 8 * N.of_nat n) with (8 * N.of_nat (S n)) by lia. reflexivity.
Qed.

Lemma land255_wrap w x : 8 <= w -> N.land (wrap w x) 255 = N.land x 255.
Proof.
  intros Hw. apply N.bits_inj; intro i. change 255 with (N.ones 8).
  rewrite !N.land_spec, testbit_wrap.
  destruct (N.ltb_spec i 8) as [H|H].
  - rewrite N.ones_spec_low by exact H. destruct (N.ltb_spec i w); [|lia]. now rewrite !andb_true_r.
  - rewrite N.ones_spec_high by exact H. now rewrite !andb_false_r.
Qed.
Lemma shiftr8_wrap w x : N.shiftr (wrap (8 + w) x) 8 = wrap w (N.shiftr x 8).
Proof.
  apply N.bits_inj; intro i. rewrite N.shiftr_spec', !testbit_wrap, N.shiftr_spec'.
  f_equal. destruct (N.ltb_spec (i + 8) (8 + w)), (N.ltb_spec i w); (reflexivity || lia).
Qed.
Lemma le_split_wrap n x : le_split n (wrap (8 * N.of_nat n) x) = le_split n x.
Proof.
  revert x. induction n as [|n IH]; intro x; [reflexivity|]. cbn [le_split].
  replace (8 * N.of_nat (S n)) with (8 + 8 * N.of_nat n) by (rewrite Nat2N.inj_succ; lia).
  rewrite land255_wrap by lia. rewrite shiftr8_wrap, IH. reflexivity.
Qed.
Lemma le_join_split_wrap n x : le_join (le_split n x) = wrap (8 * N.of_nat n) x.
Proof.
  rewrite <- (le_split_wrap n x). apply le_join_split. apply wrap_lt.
Qed.

(** * bitwise operations commute with the byte views *)
Section Bitwise.
  Variable op : N -> N -> N.
  Hypothesis op_land : forall a b c, N.land (op a b) c = op (N.land a c) (N.land b c).
  Hypothesis op_shiftr : forall a b n, N.shiftr (op a b) n = op (N.shiftr a n) (N.shiftr b n).
  Lemma le_split_op n x y : le_split n (op x y) = map2 op (le_split n x) (le_split n y).
  Proof.
    revert x y. induction n as [|n IH]; intros x y; [reflexivity|].
    cbn [le_split map2]. now rewrite op_land, op_shiftr, IH.
  Qed.
  Lemma le_split_op_join n c c' :
    length c = n -> length c' = n -> Forall is_byte c -> Forall is_byte c' ->
    le_split n (op (le_join c) (le_join c')) = map2 op c c'.
  Proof.
    intros L L' B B'. rewrite le_split_op. subst n.
    rewrite le_split_join by exact B. rewrite <- L', le_split_join by exact B'. reflexivity.
  Qed.
End Bitwise.

Lemma land_land_distr a b c : N.land (N.land a b) c = N.land (N.land a c) (N.land b c).
Proof. apply N.bits_inj; intro i. rewrite !N.land_spec. destruct (N.testbit a i), (N.testbit b i), (N.testbit c i); reflexivity. Qed.

Lemma land_lxor_distr a b c : N.land (N.lxor a b) c = N.lxor (N.land a c) (N.land b c).
Proof. apply N.bits_inj; intro i. rewrite !N.lxor_spec, !N.land_spec, N.lxor_spec. destruct (N.testbit a i), (N.testbit b i), (N.testbit c i); reflexivity. Qed.

Definition le_split_lxor := le_split_op_join N.lxor land_lxor_distr N.shiftr_lxor.
Definition le_split_land := le_split_op_join N.land land_land_distr N.shiftr_land.
Definition le_split_lor := le_split_op_join N.lor N.land_lor_distr_l N.shiftr_lor.


Definition wfv (t : vt) (v : list N) : Prop :=
  length v = vt_n t /\ Forall (fun x => x < 2 ^ vt_w t) v.
Definition wfb (s : list N) : Prop := length s = 16%nat /\ Forall is_byte s.
Definition img (t : vt) (v : list N) : list N := bytes_le (vt_k t) v.

Lemma bytes_le_bytes k ws : Forall is_byte (bytes_le k ws).
Proof.
  unfold bytes_le. induction ws as [|w ws IH]; cbn [flat_map]; [constructor|].
  apply Forall_app; split; [apply le_split_bytes | exact IH].
Qed.
Lemma img_wfb t v : wfv t v -> wfb (img t v).
Proof.
  intros [L _]. split; [|apply bytes_le_bytes].
  unfold img. rewrite bytes_le_length, L. now destruct t.
Qed.
Lemma words_img t v : wfv t v -> words_le (vt_k t) (img t v) = v.
Proof.
  intros [_ F]. unfold img. apply words_bytes_le; [destruct t; cbn; lia|].
  destruct t; exact F.
Qed.
Lemma img_words t s : wfb s -> img t (words_le (vt_k t) s) = s.
Proof.
  intros [L B]. unfold img. apply bytes_words_le; [destruct t; cbn; lia| rewrite L; now destruct t | exact B].
Qed.
Lemma words_wfv t s : wfb s -> wfv t (words_le (vt_k t) s).
Proof.
  intros [L B]. split.
  - rewrite words_le_length by (destruct t; cbn; lia). rewrite L. now destruct t.
  - pose proof (words_le_Forall_word (vt_k t) s B) as H. destruct t; exact H.
Qed.

Ltac inv_forall :=
  repeat match goal with H : Forall _ (_ :: _) |- _ => inversion H; clear H; subst end;
  repeat match goal with H : Forall _ [] |- _ => clear H end.

(** [o_of_q] / [q_of_o] never overflow: the shift amount is the constant 64 < 128 *)
Definition oq (q : list N) : N := N.lor (nth 0 q 0) (wrap 128 (N.shiftl (nth 1 q 0) 64)).
Definition qo (o : N) : list N := [wrap 64 o; wrap 64 (N.shiftr o 64)].
Lemma o_of_q_eq p q : o_of_q p q = Ok (oq q).
Proof. reflexivity. Qed.
Lemma q_of_o_eq p o : q_of_o p o = Ok (qo o).
Proof. reflexivity. Qed.

Lemma words16 s : length s = 16%nat -> words_le 16 s = [le_join s].
Proof. intros L. explode s. reflexivity. Qed.

Lemma le_join_lt' n bs : length bs = n -> Forall is_byte bs -> le_join bs < 2 ^ (8 * N.of_nat n).
Proof. intros <- B. now apply le_join_lt. Qed.

Lemma oq_words s : wfb s -> oq (words_le 8 s) = le_join s.
Proof.
  intros [L B]. rewrite <- (firstn_skipn 8 s) at 2.
  rewrite le_join_app. rewrite firstn_length, L. change (8 * N.of_nat (Nat.min 8 16)) with 64.
  assert (Hlo : le_join (firstn 8 s) < 2 ^ 64).
  { apply (le_join_lt' 8); [rewrite firstn_length, L; reflexivity | now apply Forall_firstn']. }
  assert (Hhi : le_join (skipn 8 s) < 2 ^ 64).
  { apply (le_join_lt' 8); [rewrite skipn_length, L; reflexivity | now apply Forall_skipn']. }
  assert (W : words_le 8 s = [le_join (firstn 8 s); le_join (skipn 8 s)]).
  { explode s. reflexivity. }
  rewrite W. unfold oq. cbn [nth].
  rewrite wrap_small.
  - now apply lor_add_shiftl.
  - rewrite N.shiftl_mul_pow2. change (2 ^ 128) with (2 ^ 64 * 2 ^ 64).
    apply N.mul_lt_mono_pos_r; [reflexivity | exact Hhi].
Qed.

Lemma qo_bytes x : bytes_le 8 (qo x) = bytes_le 16 [x].
Proof.
  unfold qo, bytes_le. cbn [flat_map]. rewrite !app_nil_r.
  change 64 with (8 * N.of_nat 8). rewrite !le_split_wrap.
  change 16%nat with (8 + 8)%nat. now rewrite le_split_app.
Qed.

Lemma into128_img p t v : wfv t v -> into128 p t v = Ok (img t v).
Proof.
  intros [L F]. destruct t; try reflexivity.
  cbn in L. explode v. cbn [into128 nth]. rewrite q_of_o_eq. cbn [obind].
  unfold st_of_q. now rewrite qo_bytes.
Qed.
Lemma unpack128_words p t s : wfb s -> unpack128 p t s = Ok (words_le (vt_k t) s).
Proof.
  intros H. destruct t; try reflexivity.
  cbn [unpack128]. rewrite o_of_q_eq. cbn [obind]. unfold st_q. rewrite oq_words by exact H.
  cbn [vt_k]. rewrite words16 by apply H. reflexivity.
Qed.

(** image-level transformers *)
Definition imap (k : nat) (g : N -> N) (s : list N) : list N := bytes_le k (map g (words_le k s)).
Definition imap2 (k : nat) (g : N -> N -> N) (a b : list N) : list N :=
  bytes_le k (map2 g (words_le k a) (words_le k b)).
Lemma imap_wfb k g s : (k = 4 \/ k = 8 \/ k = 16)%nat -> wfb s -> wfb (imap k g s).
Proof.
  intros Hk [L B]. split; [|apply bytes_le_bytes].
  unfold imap. rewrite bytes_le_length, map_length, words_le_length, L by lia.
  destruct Hk as [->|[->| ->]]; reflexivity.
Qed.
Lemma imap2_wfb k g a b : (k = 4 \/ k = 8 \/ k = 16)%nat -> wfb a -> wfb b -> wfb (imap2 k g a b).
Proof.
  intros Hk [L B] [L' B']. split; [|apply bytes_le_bytes].
  unfold imap2. rewrite bytes_le_length, map2_length, !words_le_length, L, L' by lia.
  destruct Hk as [->|[->| ->]]; reflexivity.
Qed.

Lemma nth4 {A} (l : list A) d : length l = 4%nat -> [nth 0 l d; nth 1 l d; nth 2 l d; nth 3 l d] = l.
Proof. intros L. explode l. reflexivity. Qed.
Lemma nth2' {A} (l : list A) d : length l = 2%nat -> [nth 0 l d; nth 1 l d] = l.
Proof. intros L. explode l. reflexivity. Qed.
Lemma map4 {A B} (g : A -> B) (l : list A) d : length l = 4%nat ->
  [g (nth 0 l d); g (nth 1 l d); g (nth 2 l d); g (nth 3 l d)] = map g l.
Proof. intros L. explode l. reflexivity. Qed.
Lemma map2' {A B} (g : A -> B) (l : list A) d : length l = 2%nat ->
  [g (nth 0 l d); g (nth 1 l d)] = map g l.
Proof. intros L. explode l. reflexivity. Qed.
Lemma map24 {A B} (g : A -> A -> B) (l l' : list A) d : length l = 4%nat -> length l' = 4%nat ->
  [g (nth 0 l d) (nth 0 l' d); g (nth 1 l d) (nth 1 l' d); g (nth 2 l d) (nth 2 l' d); g (nth 3 l d) (nth 3 l' d)] = map2 g l l'.
Proof. intros L L'. explode l. explode l'. reflexivity. Qed.
Lemma map22 {A B} (g : A -> A -> B) (l l' : list A) d : length l = 2%nat -> length l' = 2%nat ->
  [g (nth 0 l d) (nth 0 l' d); g (nth 1 l d) (nth 1 l' d)] = map2 g l l'.
Proof. intros L L'. explode l. explode l'. reflexivity. Qed.

Lemma wlen k s : wfb s -> (0 < k)%nat -> length (words_le k s) = (16 / k)%nat.
Proof. intros [L _] Hk. now rewrite words_le_length, L. Qed.

Section MapsOk.
  Variable p : profile.
  Variable t : vt.
  Lemma dmap_img f g v : (forall x, f x = Ok (g x)) -> wfv t v ->
    dmap p t f v = Ok (words_le (vt_k t) (imap 4 g (img t v))).
  Proof.
    intros Hf Hv. unfold dmap. rewrite into128_img by exact Hv. cbn [obind].
    pose proof (img_wfb t v Hv) as Hs.
    rewrite !Hf. cbn [obind].
    unfold st_d. rewrite (map4 g) by (rewrite (wlen 4) by (assumption || lia); reflexivity).
    apply unpack128_words. apply (imap_wfb 4 g); [lia | exact Hs].
  Qed.
  Lemma qmap_img f g v : (forall x, f x = Ok (g x)) -> wfv t v ->
    qmap p t f v = Ok (words_le (vt_k t) (imap 8 g (img t v))).
  Proof.
    intros Hf Hv. unfold qmap. rewrite into128_img by exact Hv. cbn [obind].
    pose proof (img_wfb t v Hv) as Hs.
    rewrite !Hf. cbn [obind].
    unfold st_q. rewrite (map2' g) by (rewrite (wlen 8) by (assumption || lia); reflexivity).
    apply unpack128_words. apply (imap_wfb 8 g); [lia | exact Hs].
  Qed.
  Lemma omap_img f g v : (forall x, f x = Ok (g x)) -> wfv t v ->
    omap p t f v = Ok (words_le (vt_k t) (imap 16 g (img t v))).
  Proof.
    intros Hf Hv. unfold omap. rewrite into128_img by exact Hv. cbn [obind].
    pose proof (img_wfb t v Hv) as Hs.
    rewrite o_of_q_eq. cbn [obind]. unfold st_q. rewrite oq_words by exact Hs.
    rewrite Hf. cbn [obind]. rewrite q_of_o_eq. cbn [obind].
    unfold st_of_q. rewrite qo_bytes.
    replace (bytes_le 16 [g (le_join (img t v))]) with (imap 16 g (img t v))
      by (unfold imap; rewrite words16 by apply Hs; reflexivity).
    apply unpack128_words. apply (imap_wfb 16 g); [lia | exact Hs].
  Qed.
  Lemma dmap2_img f g a b : (forall x y, f x y = Ok (g x y)) -> wfv t a -> wfv t b ->
    dmap2 p t f a b = Ok (words_le (vt_k t) (imap2 4 g (img t a) (img t b))).
  Proof.
    intros Hf Ha Hb. unfold dmap2. rewrite !into128_img by assumption. cbn [obind].
    pose proof (img_wfb t a Ha) as Hsa. pose proof (img_wfb t b Hb) as Hsb.
    rewrite !Hf. cbn [obind].
    unfold st_d. rewrite (map24 g) by (rewrite (wlen 4) by (assumption || lia); reflexivity).
    apply unpack128_words. apply (imap2_wfb 4 g); [lia | exact Hsa | exact Hsb].
  Qed.
  Lemma qmap2_img f g a b : (forall x y, f x y = Ok (g x y)) -> wfv t a -> wfv t b ->
    qmap2 p t f a b = Ok (words_le (vt_k t) (imap2 8 g (img t a) (img t b))).
  Proof.
    intros Hf Ha Hb. unfold qmap2. rewrite !into128_img by assumption. cbn [obind].
    pose proof (img_wfb t a Ha) as Hsa. pose proof (img_wfb t b Hb) as Hsb.
    rewrite !Hf. cbn [obind].
    unfold st_q. rewrite (map22 g) by (rewrite (wlen 8) by (assumption || lia); reflexivity).
    apply unpack128_words. apply (imap2_wfb 8 g); [lia | exact Hsa | exact Hsb].
  Qed.
  Lemma omap2_img f g a b : (forall x y, f x y = Ok (g x y)) -> wfv t a -> wfv t b ->
    omap2 p t f a b = Ok (words_le (vt_k t) (imap2 16 g (img t a) (img t b))).
  Proof.
    intros Hf Ha Hb. unfold omap2. rewrite !into128_img by assumption. cbn [obind].
    pose proof (img_wfb t a Ha) as Hsa. pose proof (img_wfb t b Hb) as Hsb.
    rewrite !o_of_q_eq. cbn [obind]. unfold st_q. rewrite !oq_words by assumption.
    rewrite Hf. cbn [obind]. rewrite q_of_o_eq. cbn [obind].
    unfold st_of_q. rewrite qo_bytes.
    replace (bytes_le 16 [g (le_join (img t a)) (le_join (img t b))]) with (imap2 16 g (img t a) (img t b))
      by (unfold imap2; rewrite !words16 by (apply Hsa || apply Hsb); reflexivity).
    apply unpack128_words. apply (imap2_wfb 16 g); [lia | exact Hsa | exact Hsb].
  Qed.
End MapsOk.

(** an image-level transformer at the type's own word size is the word-wise map *)
Lemma imap_same t g v : wfv t v -> (forall x, x < 2 ^ vt_w t -> g x < 2 ^ vt_w t) ->
  words_le (vt_k t) (imap (vt_k t) g (img t v)) = map g v.
Proof.
  intros Hv Hg. unfold imap. rewrite words_img by exact Hv.
  apply (words_img t (map g v)). destruct Hv as [L F]. split; [now rewrite map_length|].
  rewrite Forall_forall in *. intros y Hy. apply in_map_iff in Hy. destruct Hy as [x [<- Hx]].
  apply Hg, F, Hx.
Qed.
Lemma map2_Forall2 {A} (P : A -> Prop) (g : A -> A -> A) a b :
  (forall x y, P x -> P y -> P (g x y)) -> Forall P a -> Forall P b -> Forall P (map2 g a b).
Proof.
  intros Hg Ha. revert b. induction Ha as [|x a Hx Ha IH]; intros b Hb; [constructor|].
  destruct Hb as [|y b Hy Hb]; cbn [map2]; constructor; auto.
Qed.
Lemma imap2_same t g a b : wfv t a -> wfv t b ->
  (forall x y, x < 2 ^ vt_w t -> y < 2 ^ vt_w t -> g x y < 2 ^ vt_w t) ->
  words_le (vt_k t) (imap2 (vt_k t) g (img t a) (img t b)) = map2 g a b.
Proof.
  intros Ha Hb Hg. unfold imap2. rewrite !words_img by assumption.
  apply (words_img t (map2 g a b)). destruct Ha as [La Fa], Hb as [Lb Fb]. split.
  - rewrite map2_length, La, Lb. apply Nat.min_id.
  - now apply map2_Forall2.
Qed.
