(** More published ChaCha vectors for Spec/ChaCha.v (in addition to Spec/KAT_ChaCha.v). *)
From Coq Require Import NArith List.
From CC Require Import Lib.Words Lib.Bytes Spec.ChaCha.
Import ListNotations.
Local Open Scope N_scope.

Definition zeros (n : nat) : list N := repeat 0 n.

(** draft-strombergson-chacha-test-vectors-01, TC1 (all-zero 256-bit key, all-zero IV),
    key-stream block 0 for 20, 12 and 8 rounds *)
Example kat_chacha20_tc1 :
  be_join (spec_block Djb 10 (zeros 32) (zeros 8) 0) =
  0x76b8e0ada0f13d90405d6ae55386bd28bdd219b8a08ded1aa836efcc8b770dc7da41597c5157488d7724e03fb8d84a376a43b8f41518a11cc387b669b2ee6586.
Proof. vm_compute. reflexivity. Qed.

Example kat_chacha12_tc1 :
  be_join (spec_block Djb 6 (zeros 32) (zeros 8) 0) =
  0x9bf49a6a0755f953811fce125f2683d50429c3bb49e074147e0089a52eae155f0564f879d27ae3c02ce82834acfa8c793a629f2ca0de6919610be82f411326be.
Proof. vm_compute. reflexivity. Qed.

Example kat_chacha8_tc1 :
  be_join (spec_block Djb 4 (zeros 32) (zeros 8) 0) =
  0x3e00ef2f895f40d67f5bb8e81f09a5a12c840ec3ce9a7f3b181be188ef711a1e984ce172b9216f419f445367456d5619314a42a3da86b001387bfdb80e0cfe42.
Proof. vm_compute. reflexivity. Qed.

(** vectors shipped in the repository's own test-suite (rustcrypto_impl.rs: chacha20_case_1 at
    byte offset 0x3fffffff70, which crosses the low counter word; chacha12_case_1; chacha8_case_1;
    xchacha20_case_1, a libsodium vector) *)
Example kat_chacha20_repo :
  be_join (spec_keystream Djb 10
             (be_split 32 0xfa44478c59ca70538e3549096ce8b523232c50d9e8e8d10c203ef6c8d07098a5)
             (be_split 8 0x8d3a0d6d7827c007) 0x3fffffff70 256) =
  0x1546a547ff77c5c964e44fd039e913c6395c8f19d43efaa880750f6687b4e6e2d8f42f63546da2d133b5aa2f1ef3f218b6c72943089e4012210c2cbed0e8e93498a6825fc8ff7a504f26db33b6cbe36299436244c9b2eff88302c55933911b7d5dea75f2b6d4761ba44bb6f814c9879d2ba2ac8b178fa1104a368694872339738ffb960e33db39efb8eaef885b910eea078e7a1feb3f8185dafd1455b704d76da3a0ce4760741841217bba1e4ece760eaf68617133431feb806c061173af6b8b2a23be90c5d145cc258e3c119aab2800f0c7bc1959dae75481712cab731b7dfd783fa3a228f9968aaea68f36a92f43c9b523337a55b97bcaf5f5774447bf41e8.
Proof. vm_compute. reflexivity. Qed.

Example kat_chacha12_repo :
  be_join (spec_keystream Djb 6
             (be_split 32 0x27fc120b013b829f1faeefd1ab417e8662f43e0d73f98de866e346353180fdb7)
             (be_split 8 0xdb4b4a41d8df18aa) 0 100) =
  0x5f3c8c190a78ab7fe808cae9cbcb0a9837c893492d963a1c2eda6c1558b02c83fc02a44cbbb7e6204d51d1c2430e9c0b58f2937bf593840c850bda9051a1f051ddf09d2a03ebf09f01bdba9da0b6da791b2e645641047d11ebf85087d4de5c015fddd044.
Proof. vm_compute. reflexivity. Qed.

Example kat_chacha8_repo :
  be_join (spec_keystream Djb 4
             (be_split 32 0x641aeaeb08036b617a42cf14e8c5d2d115f8d7cb6ea5e28b9bfaf83e038426a7)
             (be_split 8 0xa14a1168271d459b) 0 100) =
  0x1721c044a8a6453522dddb3143d0be3512633ca3c79bf8ccc3594cb2c2f310f7bd544f55ce0db38123412d6c45207d5cf9af0c6c680cce1f7e43388d1b0346b7133c59fd6af4a5a568aa334ccdc38af5ace201df84d0a3ca225494ca6209345fcf30132e.
Proof. vm_compute. reflexivity. Qed.

Example kat_xchacha20_repo :
  be_join (spec_keystream XDjb 10
             (be_split 32 0x82f411a074f656c66e7dbddb0a2c1b22760b9b2105f4ffdbb1d4b1e824e21def)
             (be_split 24 0x3b07ca6e729eb44a510b7a1be51847838a804f8b106b38bd) 0 100) =
  0x201863970b8e081f4122addfdf32f6c03e48d9bc4e34a59654f49248b9be59d3eaa106ac3376e7e7d9d1251f2cbf61ef27000f3d19afb76b9c247151e7bc26467583f520518eccd2055ccd6cc8a195953d82a10c2065916778db35da2be44415d2f5efb0.
Proof. vm_compute. reflexivity. Qed.
