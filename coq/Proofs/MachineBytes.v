(** A second, non-trivial instance of [machine_refines]: vectors are byte strings in memory
    order (as an SSE register / [vec128_storage] is), the view is the little-endian word
    view, every operation converts, applies the lane meaning and converts back. It shows that
    the refinement relation and the independence theorems work with a representation that is
    not the word list itself; it is NOT the intrinsic-level model of a real back end (that is
    C12/C13's Model/PpvSse.v). *)
From Coq Require Import NArith List Bool Lia Arith.
From CC Require Import Lib.Words Lib.Bytes Lib.ListX Spec.Lanes Model.Machine Proofs.Machine.
Import ListNotations.
Local Open Scope N_scope.

Section ByteVops.
  Variables (k n : nat).            (* [k] bytes per word, [n] words *)
  Hypothesis Hk : (0 < k)%nat.
  Hypothesis Hn : n = 4%nat \/ n = 16%nat.
  Let w : N := 8 * N.of_nat k.

  Definition bwf (a : list N) : Prop := length a = (k * n)%nat /\ Forall is_byte a.
  Definition lift1 (f : list N -> list N) (a : list N) : list N := bytes_le k (f (words_le k a)).
  Definition lift2 (f : list N -> list N -> list N) (a b : list N) : list N :=
    bytes_le k (f (words_le k a) (words_le k b)).

  Definition bytes_vops : vops :=
    VOps (list N) bwf (words_le k) (bytes_le k)
         (lift2 (v_add w)) (lift2 v_xor) (fun r => lift1 (v_rotr w r))
         (lift1 (per_lane4 shuffle1230)) (lift1 (per_lane4 shuffle2301)) (lift1 (per_lane4 shuffle3012)).

  Lemma bytes_le_bytes : forall ws, Forall is_byte (bytes_le k ws).
  Proof.
    intros ws. unfold bytes_le. induction ws as [|x ws IH]; cbn [flat_map]; [constructor|].
    apply Forall_app. split; [apply le_split_bytes | exact IH].
  Qed.

  Lemma ok_to_bytes : forall l, words_ok w n l -> bwf (bytes_le k l) /\ words_le k (bytes_le k l) = l.
  Proof.
    intros l [Hl Hf]. split; [split|].
    - rewrite bytes_le_length, Hl. reflexivity.
    - apply bytes_le_bytes.
    - apply words_bytes_le; assumption.
  Qed.

  Lemma bwf_to_ok : forall a, bwf a -> words_ok w n (words_le k a).
  Proof.
    intros a [Hl Hf]. split.
    - rewrite words_le_length by exact Hk. rewrite Hl, Nat.mul_comm. apply Nat.div_mul. lia.
    - apply words_le_Forall_word. exact Hf.
  Qed.

  Lemma ok_add : forall a b, words_ok w n a -> words_ok w n b -> words_ok w n (v_add w a b).
  Proof.
    intros a b [La _] [Lb _]. split.
    - unfold v_add. rewrite map2_length, La, Lb. apply Nat.min_id.
    - apply map2_Forall. intros. apply addw_lt.
  Qed.

  Lemma ok_xor : forall a b, words_ok w n a -> words_ok w n b -> words_ok w n (v_xor a b).
  Proof.
    intros a b [La Fa] [Lb Fb]. split.
    - unfold v_xor. rewrite map2_length, La, Lb. apply Nat.min_id.
    - clear La Lb. revert b Fb. unfold v_xor.
      induction Fa as [|x a Hx Fa IH]; intros [|y b] Fb; cbn; constructor.
      + inversion Fb; subst. apply lxor_lt; assumption.
      + inversion Fb; subst. apply IH; assumption.
  Qed.

  Lemma ok_rotr : forall r a, words_ok w n a -> words_ok w n (v_rotr w r a).
  Proof.
    intros r a [La _]. split.
    - unfold v_rotr. rewrite map_length. exact La.
    - unfold v_rotr. apply Forall_forall. intros x Hx. apply in_map_iff in Hx.
      destruct Hx as (y & <- & _). apply rotrw_lt.
  Qed.

  Ltac shuffle_ok :=
    intros a [La Fa]; destruct Hn as [E | E]; rewrite E in *; explode a;
    repeat match goal with H : Forall _ (_ :: _) |- _ => inversion H; clear H; subst end;
    (split; [reflexivity | cbn [per_lane4 lanes4 length map concat app shuffle1230 shuffle2301 shuffle3012]; repeat (constructor; try assumption)]).

  Lemma ok_sh1230 : forall a, words_ok w n a -> words_ok w n (per_lane4 shuffle1230 a).
  Proof. shuffle_ok. Qed.
  Lemma ok_sh2301 : forall a, words_ok w n a -> words_ok w n (per_lane4 shuffle2301 a).
  Proof. shuffle_ok. Qed.
  Lemma ok_sh3012 : forall a, words_ok w n a -> words_ok w n (per_lane4 shuffle3012 a).
  Proof. shuffle_ok. Qed.

  Lemma bytes_vops_refines : forall ks, vops_refines w n ks bytes_vops.
  Proof.
    intros ks. apply vops_refines_intro; cbn [bytes_vops v_wf v_rep v_vec o_add o_xor o_rotr o_sh1230 o_sh2301 o_sh3012];
      unfold lift1, lift2.
    - apply ok_to_bytes.
    - intros a b Wa Wb. apply ok_to_bytes, ok_add; apply bwf_to_ok; assumption.
    - intros a b Wa Wb. apply ok_to_bytes, ok_xor; apply bwf_to_ok; assumption.
    - intros r a _ Wa. apply ok_to_bytes, ok_rotr, bwf_to_ok; assumption.
    - intros a Wa. apply ok_to_bytes, ok_sh1230, bwf_to_ok; assumption.
    - intros a Wa. apply ok_to_bytes, ok_sh2301, bwf_to_ok; assumption.
    - intros a Wa. apply ok_to_bytes, ok_sh3012, bwf_to_ok; assumption.
  Qed.
End ByteVops.

(** registers as byte strings: u32x4 = 16 bytes, u32x4x4 = 64 bytes, u64x4 = 32 bytes *)
Definition byte_m : machine :=
  Machine (bytes_vops 4 4) (bytes_vops 4 16) (bytes_vops 8 4) lane_jops.

Lemma byte_m_refines : machine_refines byte_m.
Proof.
  unfold machine_refines, byte_m; cbn [m_u32x4 m_u32x4x4 m_u64x4 m_u128].
  split; [|split; [|split]].
  - apply (bytes_vops_refines 4 4); [lia | auto].
  - apply (bytes_vops_refines 4 16); [lia | auto].
  - apply (bytes_vops_refines 8 4); [lia | auto].
  - apply lane_jops_refines.
Qed.

(** the byte machine really has another representation: its ChaCha state after one double
    round is a byte string, not the word list *)
Example byte_m_is_not_lane_m :
  v_vec (m_u32x4 byte_m) [1; 2; 3; 4] = [1; 0; 0; 0; 2; 0; 0; 0; 3; 0; 0; 0; 4; 0; 0; 0].
Proof. vm_compute. reflexivity. Qed.

(** an assignment of machines to the six back-end names with two different representations
    (word lists for the portable name, byte registers for the x86 names), all refinements: the
    hypothesis of the composed theorem is satisfiable by a non-uniform assignment *)
From CC Require Import Model.Dispatch.
Definition demo_inst (b : backend) : machine :=
  match b with Generic => lane_m | _ => byte_m end.
Lemma demo_inst_refines : forall b, machine_refines (demo_inst b).
Proof. intros []; cbn [demo_inst]; first [apply lane_m_refines | apply byte_m_refines]. Qed.
