(** Work package audit-leftovers, item 3 (audit C08-F2).

    [blake_hasher] and [skein_hasher] of Model/Hasher.v (used by
    [C08_crate_hashers_ok]) transcribe the BLAKE / Skein finalisation a second
    time.  Here they are instantiated with the REAL compression and output
    functions and tied to the records [blake_real] (Proofs/HasherComposeBlake.v,
    built from [Model.Blake.finalize]) and [skein_real]
    (Proofs/HasherComposeSkein.v, built from [Model.Skein.finalize_into_dirty]):

    - Skein: same [h_new], [h_update], [h_finalize] on EVERY instance (through
      the bijection [St t0 t1 x  <->  (x, (t0, t1))] between the two state types);
      the only side condition is [v_bytes = v_bits / 8] (true of the three variants).
    - BLAKE: same [h_new]; same [h_update] on EVERY instance; same [h_finalize] on
      every instance whose buffer satisfies the block-buffer invariant
      ([pos <= size], size = 16 words) - every instance reachable from [h_new].
      Where they differ outside the invariant: the transcription takes the buffer
      position after the extra block to be 0 and does not re-check the two
      [debug_assert_eq!(buffer.position(), 0)] ([Model.Blake.finalize] returns
      [None] there); under the invariant both positions ARE 0.  The padding table
      is [0x80 :: 0^size] in the transcription and the crate's 129-byte [PADDING]
      in the real record: no slice taken from it is longer than [size + 1].
    - hence the same digests in every history, and the same one-shot function.
    The panic value [dflt] is instantiated with [[]], as in the [*_real] records. *)
From Coq Require Import NArith List Arith Lia Bool.
From CC Require Import Lib.Words Lib.Bytes Lib.ListX Model.BlockBuffer Model.Hasher
  Proofs.BlockBufferLazy Proofs.BlockBufferEager Proofs.Hasher Proofs.HasherFin
  Proofs.HasherComposeLib Proofs.HasherComposeBlake Proofs.HasherComposeSkein.
From CC Require Model.Blake Model.Skein.
Import ListNotations.
Module MB := CC.Model.Blake.
Module MS := CC.Model.Skein.

(** * Two hasher records that move in lock-step give the same digests in every history *)
Section Sim.
Context {st1 st2 digest : Type}.
Variables (h1 : hasher st1 digest) (h2 : hasher st2 digest).
Variable R : inst st1 -> inst st2 -> Prop.
Hypothesis Rnew : R (h_new h1) (h_new h2).
Hypothesis Rupd : forall i1 i2 d, R i1 i2 -> R (h_update h1 i1 d) (h_update h2 i2 d).
Hypothesis Rfin : forall i1 i2, R i1 i2 -> h_finalize h1 i1 = h_finalize h2 i2.

Definition oR (a : option (inst st1)) (b : option (inst st2)) : Prop :=
  match a, b with Some x, Some y => R x y | None, None => True | _, _ => False end.

Lemma live_sim T1 T2 : Forall2 oR T1 T2 -> forall k, oR (live T1 k) (live T2 k).
Proof.
  unfold live. induction 1 as [|a b T1 T2 Hab HT IH]; intros [|k]; cbn [nth_error]; try exact I.
  - destruct a, b; cbn in Hab |- *; auto.
  - apply IH.
Qed.

Lemma Forall2_upd_sim {A B} (P : A -> B -> Prop) l l' k x y :
  Forall2 P l l' -> P x y -> Forall2 P (upd k x l) (upd k y l').
Proof.
  intros Hl Hxy. revert k. induction Hl as [|a b l l' Hab Hl IH]; intros [|k]; cbn [upd];
    constructor; auto.
Qed.

Lemma exec_sim T1 T2 o : Forall2 oR T1 T2 ->
  Forall2 oR (fst (exec h1 T1 o)) (fst (exec h2 T2 o)) /\ snd (exec h1 T1 o) = snd (exec h2 T2 o).
Proof.
  intros HT.
  destruct o as [k d|k|k|k|k]; cbn [exec]; pose proof (live_sim T1 T2 HT k) as Hk;
    destruct (live T1 k) as [i1|], (live T2 k) as [i2|]; cbn [oR] in Hk; try contradiction;
    cbn [fst snd]; (split; [|try reflexivity]); auto.
  - apply Forall2_upd_sim; [exact HT|]. cbn [oR]. now apply Rupd.
  - apply Forall2_app; [exact HT|]. constructor; [exact Hk|constructor].
  - apply Forall2_upd_sim; [exact HT|]. exact Rnew.
  - apply Forall2_upd_sim; [exact HT|]. exact Rnew.
  - now rewrite (Rfin _ _ Hk).
  - apply Forall2_upd_sim; [exact HT|]. exact I.
  - now rewrite (Rfin _ _ Hk).
Qed.

Lemma run_sim ops : forall T1 T2, Forall2 oR T1 T2 -> snd (run h1 T1 ops) = snd (run h2 T2 ops).
Proof.
  induction ops as [|o r IH]; intros T1 T2 HT; cbn [run fst snd]; [reflexivity|].
  destruct (exec_sim T1 T2 o HT) as [HT' ->]. now rewrite (IH _ _ HT').
Qed.

Theorem sim_history ops :
  snd (run h1 [Some (h_new h1)] ops) = snd (run h2 [Some (h_new h2)] ops).
Proof. apply run_sim. constructor; [exact Rnew|constructor]. Qed.

Lemma sim_fold pieces : forall i1 i2, R i1 i2 ->
  R (fold_left (h_update h1) pieces i1) (fold_left (h_update h2) pieces i2).
Proof. induction pieces as [|p r IH]; intros i1 i2 Hi; cbn [fold_left]; auto. Qed.

Theorem sim_chunks pieces :
  h_finalize h1 (fold_left (h_update h1) pieces (h_new h1))
  = h_finalize h2 (fold_left (h_update h2) pieces (h_new h2)).
Proof. apply Rfin, sim_fold, Rnew. Qed.

Theorem sim_oneshot msg : h_oneshot h1 msg = h_oneshot h2 msg.
Proof. unfold h_oneshot. apply Rfin, Rupd, Rnew. Qed.
End Sim.

(** * Skein *)
Section SkeinTie.
Variable nu : bool.
Variable v : MS.variant.
Variable n_out : nat.
Hypothesis Hv : N.of_nat (MS.v_bytes v) = (MS.v_bits v / 8)%N.

(** the two state types *)
Definition sk_pair (s : MS.state) : list N * (N * N) := (MS.st_x s, (MS.st_t0 s, MS.st_t1 s)).
Definition sk_st (p : list N * (N * N)) : MS.state := MS.St (fst (snd p)) (snd (snd p)) (fst p).
Lemma sk_st_pair s : sk_st (sk_pair s) = s.
Proof. destruct s; reflexivity. Qed.
Lemma sk_pair_st p : sk_pair (sk_st p) = p.
Proof. destruct p as [x [t0 t1]]; reflexivity. Qed.

(** the real [process_block] (release profile: total) and output loop, on pairs *)
Definition skein_pb_pair (s : list N * (N * N)) (blk : list N) (n : nat) : list N * (N * N) :=
  sk_pair (skein_pb nu v (sk_st s) blk (N.of_nat n)).
Definition skein_out_real (x : list N) : list N :=
  let size := N.to_nat (MS.v_bits v / 8) in
  match MS.output_loop MS.Release nu v x size n_out (seq 0 ((n_out + size - 1) / size)) with
  | MS.Ok o => o
  | MS.Panic => []
  end.

(** [skein_hasher] of Model/Hasher.v at the real functions *)
Definition skein_crate : hasher (list N * (N * N)) (list N) :=
  skein_hasher [] (MS.v_bytes v) (sk_pair (skein_init nu v n_out)) skein_pb_pair skein_out_real.

Definition sk_inst (i : inst MS.state) : inst (list N * (N * N)) := Inst (sk_pair (i_st i)) (i_buf i).

Lemma skein_tie_new : h_new skein_crate = sk_inst (h_new (skein_real nu v n_out)).
Proof. reflexivity. Qed.

Lemma skein_tie_update i d :
  h_update skein_crate (sk_inst i) d = sk_inst (h_update (skein_real nu v n_out) i d).
Proof.
  destruct i as [s b]. unfold h_update, sk_inst, skein_crate, skein_hasher, skein_shape, skein_real.
  cbn [h_size h_lazy h_init h_pre h_step h_fin i_st i_buf bb_input fst snd].
  f_equal.
  generalize (snd (input_lazy b d)). intros blocks. revert s.
  induction blocks as [|blk r IH]; intros s; cbn [fold_left]; [reflexivity|].
  rewrite <- IH. f_equal.
  unfold skein_pb_pair, skein_step. now rewrite sk_st_pair, Hv.
Qed.

Lemma skein_tie_finalize i :
  h_finalize skein_crate (sk_inst i) = h_finalize (skein_real nu v n_out) i.
Proof.
  destruct i as [s b]. unfold h_finalize, sk_inst, skein_crate, skein_hasher, skein_shape, skein_real.
  cbn [h_size h_lazy h_init h_pre h_step h_fin i_st i_buf fst snd].
  unfold skein_fin, skein_fin_real, MS.finalize_into_dirty, MS.finalize_message.
  cbn [MS.h_state MS.h_buffer sk_pair fst snd].
  destruct (pad_with_zero b) as [[buffer blk]|]; [|reflexivity].
  rewrite skein_pb_ok. cbn [MS.bind fst snd].
  unfold skein_out_real, skein_pb_pair, sk_st, sk_pair. cbn [fst snd].
  change (N.shiftl 1 63) with MS.T1_FLAG_FINAL.
  destruct (MS.output_loop _ _ _ _ _ _ _); reflexivity.
Qed.

(** every instance of the transcription is the image of one of the real record *)
Lemma sk_inst_onto j : exists i, j = sk_inst i.
Proof.
  destruct j as [p b]. exists (Inst (sk_st p) b). unfold sk_inst. cbn [i_st i_buf].
  now rewrite sk_pair_st.
Qed.

Theorem skein_tie_history ops :
  snd (run skein_crate [Some (h_new skein_crate)] ops)
  = snd (run (skein_real nu v n_out) [Some (h_new (skein_real nu v n_out))] ops).
Proof.
  apply (sim_history skein_crate (skein_real nu v n_out) (fun j i => j = sk_inst i)).
  - exact skein_tie_new.
  - intros j i d ->. apply skein_tie_update.
  - intros j i ->. apply skein_tie_finalize.
Qed.

Theorem skein_tie_oneshot msg : h_oneshot skein_crate msg = h_oneshot (skein_real nu v n_out) msg.
Proof.
  apply (sim_oneshot skein_crate (skein_real nu v n_out) (fun j i => j = sk_inst i)).
  - exact skein_tie_new.
  - intros j i d ->. apply skein_tie_update.
  - intros j i ->. apply skein_tie_finalize.
Qed.
End SkeinTie.

Lemma skein_variant_bytes_bits v p :
  skein_variant_params v p -> N.of_nat (MS.v_bytes v) = (MS.v_bits v / 8)%N.
Proof. intros [[-> _]|[[-> _]|[-> _]]]; reflexivity. Qed.

(** * BLAKE *)
Lemma firstn_repeat_le {A} (x : A) k n : k <= n -> firstn k (repeat x n) = repeat x k.
Proof.
  revert n; induction k as [|k IH]; intros [|n] Hk; cbn [firstn repeat]; try reflexivity; [lia|].
  f_equal. apply IH. lia.
Qed.

(** position and number of emitted blocks of one [input_block] call *)
Lemma ib_facts b d : bb_wf b ->
  bb_wf (fst (input_block b d)) /\ bb_size (fst (input_block b d)) = bb_size b
  /\ bb_pos (fst (input_block b d)) = (bb_pos b + length d) mod bb_size b
  /\ length (snd (input_block b d)) = (bb_pos b + length d) / bb_size b.
Proof.
  intros W. pose proof (input_block_wf b d W) as W1.
  pose proof (input_block_char b d W) as C. cbv zeta in C. destruct C as (Ho & Hs & Hp & _).
  assert (L : length (bb_content b ++ d) = bb_pos b + length d).
  { rewrite app_length, bb_content_length by apply W. reflexivity. }
  rewrite L in *. unfold eager_count in *.
  split; [exact W1|]. split; [exact Hs|]. split.
  - rewrite Hp. destruct W as [_ Hsz]. rewrite Nat.mod_eq by lia. lia.
  - rewrite Ho. apply take_blocks_length.
Qed.

Section BlakeTie.
Variable H : Type.
Variable put : H -> list N -> N * N -> H.
Variable w : N.
Variable wb : nat.
Variable isfull : bool.
Variable post : H -> list N.
Hypothesis Hw : N.to_nat (w / 8) = wb.
Hypothesis Hwb1 : 0 < wb.
Hypothesis Hwb2 : wb <= 8.

Definition isfull_bit : N := if isfull then 1%N else 0%N.

(** [blake_hasher] of Model/Hasher.v at the real compression / output functions *)
Definition blake_crate (iv : H) : hasher (H * (N * N)) (list N) :=
  blake_hasher [] w (16 * wb) isfull_bit iv put post.

Lemma increase_count_tie t c : blake_increase_count w t c = MB.increase_count w t c.
Proof.
  unfold blake_increase_count, MB.increase_count. cbv zeta.
  set (s := (fst t + wrap w (c * 8))%N). f_equal.
  rewrite shiftl_1, N.shiftr_div_pow2. unfold addw.
  pose proof (pow2_nz w) as Hnz.
  destruct (N.leb_spec (2 ^ w) s) as [Hs|Hs]; destruct (N.eqb_spec (s / 2 ^ w) 0) as [E|E];
    try reflexivity.
  - apply N.div_small_iff in E; [lia|exact Hnz].
  - elim E. now apply N.div_small.
Qed.

Lemma padding_firstn k :
  k <= 16 * wb + 1 -> firstn k (0x80%N :: repeat 0%N (16 * wb)) = firstn k MB.PADDING.
Proof.
  intros Hk. unfold MB.PADDING. destruct k as [|k]; cbn [firstn]; [reflexivity|]. f_equal.
  rewrite !firstn_repeat_le by lia. reflexivity.
Qed.

Lemma nil_of_length0 {A} (l : list A) : length l = 0 -> l = [].
Proof. destruct l; [reflexivity|discriminate]. Qed.

Lemma blake_tie_fin s b : bb_wf b -> bb_size b = 16 * wb ->
  blake_fin [] w (16 * wb) isfull_bit put post s b = blake_fin_real H put w wb isfull post s b.
Proof.
  intros W Hs. destruct s as [c t0].
  unfold blake_fin, blake_fin_real, MB.finalize, MB.bufsz, MB.slice.
  cbn [fst snd MB.compressor MB.buffer MB.t].
  rewrite Hw, increase_count_tie.
  set (t := MB.increase_count w t0 (N.of_nat (bb_pos b))).
  cbv zeta.
  assert (LP : length MB.PADDING = 129).
  { unfold MB.PADDING. cbn [length]. rewrite repeat_length. reflexivity. }
  assert (Hpos : bb_pos b <= 16 * wb) by (destruct W as [Wp _]; lia).
  set (magic := N.lor isfull_bit (if bb_pos b + (1 + 2 * wb) =? 16 * wb then 128%N else 0%N)).
  assert (Em : N.lor (if isfull then 1%N else 0%N)
                 (if negb (bb_pos b + (1 + 2 * wb) =? 16 * wb) then 0%N else 128%N) = magic).
  { subst magic. unfold isfull_bit. destruct (_ =? _); reflexivity. }
  rewrite Em.
  set (msglen := be_split wb (snd t) ++ be_split wb (fst t)).
  assert (Lm : length msglen = 2 * wb).
  { subst msglen. rewrite app_length. unfold be_split. rewrite !rev_length, !le_split_length. lia. }
  destruct (16 * wb <? bb_pos b + (1 + 2 * wb)) eqn:Ex.
  - rewrite padding_firstn by lia.
    assert (Z1 : skipn 1 (firstn (1 + (16 * wb - (1 + 2 * wb) - 0)) (128%N :: repeat 0%N (16 * wb)))
                 = repeat 0%N (16 * wb - (1 + 2 * wb))).
    { rewrite Nat.sub_0_r. cbn [Nat.add firstn skipn]. apply firstn_repeat_le. lia. }
    rewrite Z1. clear Z1.
    cbn [app feed_calls]. cbv zeta.
    pose proof (ib_facts b (firstn (16 * wb - bb_pos b) MB.PADDING) W) as F1.
    destruct (input_block b (firstn (16 * wb - bb_pos b) MB.PADDING)) as [b1 o1].
    cbn [fst snd] in F1 |- *. destruct F1 as (W1 & S1 & P1 & _).
    rewrite firstn_length_le, Hs in P1 by lia.
    replace (bb_pos b + (16 * wb - bb_pos b)) with (16 * wb) in P1 by lia.
    rewrite Nat.mod_same in P1 by lia.
    rewrite P1.
    assert (Z2 : firstn (1 + (16 * wb - (1 + 2 * wb) - 0) - 1) (skipn 1 MB.PADDING)
                 = repeat 0%N (16 * wb - (1 + 2 * wb))).
    { unfold MB.PADDING. cbn [skipn].
      replace (1 + (16 * wb - (1 + 2 * wb) - 0) - 1) with (16 * wb - (1 + 2 * wb)) by lia.
      apply firstn_repeat_le. lia. }
    rewrite Z2. clear Z2.
    pose proof (ib_facts b1 (repeat 0%N (16 * wb - (1 + 2 * wb))) W1) as F2.
    destruct (input_block b1 (repeat 0%N (16 * wb - (1 + 2 * wb)))) as [b2 o2].
    cbn [fst snd] in F2 |- *. destruct F2 as (W2 & S2 & P2 & L2).
    rewrite repeat_length, S1, Hs, P1 in P2, L2. cbn [Nat.add] in P2, L2.
    rewrite Nat.mod_small in P2 by lia. rewrite Nat.div_small in L2 by lia.
    apply nil_of_length0 in L2. subst o2.
    pose proof (ib_facts b2 [magic] W2) as F3.
    destruct (input_block b2 [magic]) as [b3 o3].
    cbn [fst snd] in F3 |- *. destruct F3 as (W3 & S3 & P3 & L3).
    cbn [length] in P3, L3. rewrite S2, S1, Hs, P2 in P3, L3.
    rewrite Nat.mod_small in P3 by lia. rewrite Nat.div_small in L3 by lia.
    apply nil_of_length0 in L3. subst o3.
    pose proof (ib_facts b3 msglen W3) as F4.
    destruct (input_block b3 msglen) as [b4 o4].
    cbn [fst snd] in F4 |- *. destruct F4 as (W4 & S4 & P4 & _).
    rewrite Lm, S3, S2, S1, Hs, P3 in P4.
    match type of P4 with _ = ?a mod _ => replace a with (16 * wb) in P4 by lia end.
    rewrite Nat.mod_same in P4 by lia.
    rewrite P4. cbn [Nat.eqb andb].
    destruct o1; reflexivity.
  - apply Nat.ltb_ge in Ex.
    cbn [app skipn]. rewrite !Nat.add_0_l, Nat.sub_0_r.
    rewrite padding_firstn by lia.
    set (k := 16 * wb - (1 + 2 * wb) - bb_pos b).
    cbn [feed_calls]. cbv zeta.
    pose proof (ib_facts b (firstn k MB.PADDING) W) as F2.
    destruct (input_block b (firstn k MB.PADDING)) as [b2 o2].
    cbn [fst snd] in F2 |- *. destruct F2 as (W2 & S2 & P2 & L2).
    rewrite firstn_length_le, Hs in P2, L2 by lia.
    rewrite Nat.mod_small in P2 by lia. rewrite Nat.div_small in L2 by lia.
    apply nil_of_length0 in L2. subst o2.
    pose proof (ib_facts b2 [magic] W2) as F3.
    destruct (input_block b2 [magic]) as [b3 o3].
    cbn [fst snd] in F3 |- *. destruct F3 as (W3 & S3 & P3 & L3).
    cbn [length] in P3, L3. rewrite S2, Hs, P2 in P3, L3.
    rewrite Nat.mod_small in P3 by lia. rewrite Nat.div_small in L3 by lia.
    apply nil_of_length0 in L3. subst o3.
    pose proof (ib_facts b3 msglen W3) as F4.
    destruct (input_block b3 msglen) as [b4 o4].
    cbn [fst snd] in F4 |- *. destruct F4 as (W4 & S4 & P4 & _).
    rewrite Lm, S3, S2, Hs, P3 in P4.
    match type of P4 with _ = ?a mod _ => replace a with (16 * wb) in P4 by lia end.
    rewrite Nat.mod_same in P4 by lia.
    rewrite P4. cbn [Nat.eqb andb].
    destruct o4; reflexivity.
Qed.

Notation real iv := (blake_real H put w wb isfull post iv).

Lemma blake_tie_new iv : h_new (blake_crate iv) = h_new (real iv).
Proof. reflexivity. Qed.

(** [update]: equal on EVERY instance *)
Lemma blake_tie_update iv i d : h_update (blake_crate iv) i d = h_update (real iv) i d.
Proof.
  unfold h_update, blake_crate, blake_hasher, blake_shape, blake_real.
  cbn [h_size h_lazy h_init h_pre h_step h_fin bb_input].
  f_equal.
  generalize (snd (input_block (i_buf i) d)) (i_st i). intros blocks.
  induction blocks as [|blk r IH]; intros s; cbn [fold_left]; [reflexivity|].
  rewrite IH. f_equal. unfold blake_step_real. cbv zeta.
  now rewrite increase_count_tie, (Nat.mul_comm 16 wb).
Qed.

(** [finalize]: equal on every instance that satisfies the buffer invariant *)
Lemma blake_tie_finalize iv i :
  inst_wf (real iv) i -> h_finalize (blake_crate iv) i = h_finalize (real iv) i.
Proof.
  intros [Wb Ws]. unfold h_finalize, blake_crate, blake_hasher, blake_shape, blake_real.
  cbn [h_fin]. apply blake_tie_fin; [exact Wb|exact Ws].
Qed.

Definition blake_tie_rel iv (j i : inst (H * (N * N))) : Prop := j = i /\ inst_wf (real iv) i.

Lemma blake_tie_rel_new iv : blake_tie_rel iv (h_new (blake_crate iv)) (h_new (real iv)).
Proof. split; [reflexivity|]. apply new_wf, blake_real_ok, Hwb1. Qed.
Lemma blake_tie_rel_update iv j i d :
  blake_tie_rel iv j i -> blake_tie_rel iv (h_update (blake_crate iv) j d) (h_update (real iv) i d).
Proof. intros [-> Wi]. split; [apply blake_tie_update|now apply update_wf]. Qed.
Lemma blake_tie_rel_finalize iv j i :
  blake_tie_rel iv j i -> h_finalize (blake_crate iv) j = h_finalize (real iv) i.
Proof. intros [-> Wi]. now apply blake_tie_finalize. Qed.

(** every instance reachable from [h_new] by updates satisfies the invariant, so: *)
Theorem blake_tie_chunks iv pieces :
  h_finalize (blake_crate iv) (fold_left (h_update (blake_crate iv)) pieces (h_new (blake_crate iv)))
  = h_finalize (real iv) (fold_left (h_update (real iv)) pieces (h_new (real iv))).
Proof.
  apply (sim_chunks _ _ (blake_tie_rel iv));
    [apply blake_tie_rel_new|apply blake_tie_rel_update|apply blake_tie_rel_finalize].
Qed.

Theorem blake_tie_oneshot iv msg : h_oneshot (blake_crate iv) msg = h_oneshot (real iv) msg.
Proof.
  apply (sim_oneshot _ _ (blake_tie_rel iv));
    [apply blake_tie_rel_new|apply blake_tie_rel_update|apply blake_tie_rel_finalize].
Qed.

Theorem blake_tie_history iv ops :
  snd (run (blake_crate iv) [Some (h_new (blake_crate iv))] ops)
  = snd (run (real iv) [Some (h_new (real iv))] ops).
Proof.
  apply (sim_history _ _ (blake_tie_rel iv));
    [apply blake_tie_rel_new|apply blake_tie_rel_update|apply blake_tie_rel_finalize].
Qed.
End BlakeTie.

(** * The shipped types *)
Definition blake224_crate := blake_crate _ MB.put_block32 32 4 false (blake_out_bytes 4 28) MB.BLAKE224_IV.
Definition blake256_crate := blake_crate _ MB.put_block32 32 4 true (blake_out_bytes 4 32) MB.BLAKE256_IV.
Definition blake384_crate := blake_crate _ MB.put_block64 64 8 false (blake_out_bytes 8 48) MB.BLAKE384_IV.
Definition blake512_crate := blake_crate _ MB.put_block64 64 8 true (blake_out_bytes 8 64) MB.BLAKE512_IV.

(** they are literally [blake_hasher] with the marker bit 0 / 1 and block size 64 / 128 *)
Example blake_crates_unfold :
  blake256_crate = blake_hasher [] 32 64 1 MB.BLAKE256_IV MB.put_block32 (blake_out_bytes 4 32)
  /\ blake512_crate = blake_hasher [] 64 128 1 MB.BLAKE512_IV MB.put_block64 (blake_out_bytes 8 64)
  /\ blake224_crate = blake_hasher [] 32 64 0 MB.BLAKE224_IV MB.put_block32 (blake_out_bytes 4 28)
  /\ blake384_crate = blake_hasher [] 64 128 0 MB.BLAKE384_IV MB.put_block64 (blake_out_bytes 8 48).
Proof. repeat split. Qed.

Theorem blake_crate_eq_real_history ops :
  snd (run blake224_crate [Some (h_new blake224_crate)] ops) = snd (run blake224_real [Some (h_new blake224_real)] ops)
  /\ snd (run blake256_crate [Some (h_new blake256_crate)] ops) = snd (run blake256_real [Some (h_new blake256_real)] ops)
  /\ snd (run blake384_crate [Some (h_new blake384_crate)] ops) = snd (run blake384_real [Some (h_new blake384_real)] ops)
  /\ snd (run blake512_crate [Some (h_new blake512_crate)] ops) = snd (run blake512_real [Some (h_new blake512_real)] ops).
Proof. repeat split; apply blake_tie_history; (reflexivity || lia). Qed.

Theorem blake_crate_eq_real_oneshot msg :
  h_oneshot blake224_crate msg = h_oneshot blake224_real msg
  /\ h_oneshot blake256_crate msg = h_oneshot blake256_real msg
  /\ h_oneshot blake384_crate msg = h_oneshot blake384_real msg
  /\ h_oneshot blake512_crate msg = h_oneshot blake512_real msg.
Proof. repeat split; apply blake_tie_oneshot; (reflexivity || lia). Qed.

(** per operation, for the four types: [update] everywhere, [finalize] under the invariant *)
Theorem blake_crate_eq_real_ops :
  (forall i d, h_update blake224_crate i d = h_update blake224_real i d)
  /\ (forall i d, h_update blake256_crate i d = h_update blake256_real i d)
  /\ (forall i d, h_update blake384_crate i d = h_update blake384_real i d)
  /\ (forall i d, h_update blake512_crate i d = h_update blake512_real i d)
  /\ (forall i, inst_wf blake224_real i -> h_finalize blake224_crate i = h_finalize blake224_real i)
  /\ (forall i, inst_wf blake256_real i -> h_finalize blake256_crate i = h_finalize blake256_real i)
  /\ (forall i, inst_wf blake384_real i -> h_finalize blake384_crate i = h_finalize blake384_real i)
  /\ (forall i, inst_wf blake512_real i -> h_finalize blake512_crate i = h_finalize blake512_real i).
Proof.
  repeat split; intros;
    first [apply blake_tie_update | apply blake_tie_finalize]; (reflexivity || lia || assumption).
Qed.

(** Skein: the three variants, any output size, either unroll setting *)
Theorem skein_crate_eq_real nu v p n :
  skein_variant_params v p ->
  (h_new (skein_crate nu v n) = sk_inst (h_new (skein_real nu v n)))
  /\ (forall i d, h_update (skein_crate nu v n) (sk_inst i) d = sk_inst (h_update (skein_real nu v n) i d))
  /\ (forall i, h_finalize (skein_crate nu v n) (sk_inst i) = h_finalize (skein_real nu v n) i)
  /\ (forall j, exists i, j = sk_inst i)
  /\ (forall msg, h_oneshot (skein_crate nu v n) msg = h_oneshot (skein_real nu v n) msg)
  /\ (forall ops, snd (run (skein_crate nu v n) [Some (h_new (skein_crate nu v n))] ops)
                  = snd (run (skein_real nu v n) [Some (h_new (skein_real nu v n))] ops)).
Proof.
  intros Hv. pose proof (skein_variant_bytes_bits v p Hv) as Hb.
  split; [apply skein_tie_new|]. split; [intros; now apply skein_tie_update|].
  split; [intros; apply skein_tie_finalize|]. split; [apply sk_inst_onto|].
  split; [intros; now apply skein_tie_oneshot|intros; now apply skein_tie_history].
Qed.

(** consequence: the transcriptions return the SPECIFIED digests in every bounded history *)
Corollary blake256_crate_history ops : ops_bounded (blake_bound 64) ops ->
  snd (run blake256_crate [Some (h_new blake256_crate)] ops)
  = snd (srun (SB.hash SB.blake256) [Some []] ops).
Proof.
  intros Hb. destruct (blake_crate_eq_real_history ops) as (_ & -> & _). now apply blake256_history.
Qed.

(** non-vacuity: a finalisation WITH the extra block (55 buffered bytes + 9 > 64) and one
    without, a clone and a reset, through the transcription *)
Example blake256_crate_example :
  snd (run blake256_crate [Some (h_new blake256_crate)]
         [Update 0 (repeat 7%N 60); Clone 0; FinalizeReset 0; Update 1 [1%N; 2%N]; Finalize 1; Update 0 [9%N]; Finalize 0])
  = [(0, SB.hash SB.blake256 (repeat 7%N 60));
     (1, SB.hash SB.blake256 (repeat 7%N 60 ++ [1%N; 2%N]));
     (0, SB.hash SB.blake256 [9%N])].
Proof. vm_compute. reflexivity. Qed.
