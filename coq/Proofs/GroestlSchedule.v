(** Groestl: the hasher's block schedule ([Model/Groestl.v], "lib.rs: the hasher")
    against the specification's padding ([Spec/Groestl.v]), for EVERY message and
    EVERY compressor [c : comp] (nothing here looks inside [c_tf]/[c_of]); block
    size [bs = c_bytes c] with [8 < bs] (the real values are 64 and 128).

    - [holds bs b data]: buffer [b] has size [bs] and buffers exactly [data] (< [bs] bytes).
    - [input_block_char]: [input_block] emits the first [length all / bs] blocks of
      [all = buffered ++ input] and keeps the rest.
    - [update_char]: [update] advances the counter by the number of emitted blocks
      (mod 2^64) and folds [c_tf] over them.
    - [finalize_char]: [finalize_dirty] on a buffer holding [data] feeds the blocks of
      [pad_from bs count data].
    - [hasher_schedule] (MAIN): from any state, [update] then [finalize_dirty] feeds the
      compressor exactly [blocks bs (pad_from bs count (buffered ++ tail))]; the last 8
      bytes of that padded message are the true total block count
      ([pad_from_count_bytes]).
    - [hasher_schedule_chk], [hasher_release_never_panics]: build profile explicit.
    - [hasher_schedule_new]: the same for a whole message from [new_truncated]
      (blocks of [pad bs msg]); [hasher_schedule_two_updates]: feeding [a] then [b]
      gives the same result as feeding [a ++ b].
    - [hasher_schedule_recorded]: with the compressor that records its input blocks the
      hasher outputs the padded message itself.
    - [finalize_chk_overflow_witness], [update_chk_overflow_witness],
      [finalize_release_wraps]: the bound [count + pad_blocks < 2^64] is sharp in the
      model (debug profile panics, release profile wraps); [hasher_schedule_example]:
      the hypotheses are satisfiable.

    Statement adjustments w.r.t. the task sheet:
    - [input_block_char]: emitted blocks are stated as [chunks_exact bs n all] with fuel
      [n = length all / bs] (exactly the first [n] blocks).
    - [update_char] has the extra hypothesis [h_count h < 2^64]: when no block is
      emitted the model leaves the counter untouched, whereas [addw 64 _ 0] would wrap
      an (impossible for a [u64]) out-of-range counter.
    Helper lemmas are prefixed [gs_]. *)
From Coq Require Import NArith List Arith Lia.
From CC Require Import Lib.Words Lib.Bytes Lib.ListX Model.BlockBuffer Model.GroestlIntrinsics Model.Groestl.
From CC Require Spec.Groestl.
Import ListNotations.

(** * list helpers *)
Lemma gs_firstn_exact {A} (a b : list A) n : n = length a -> firstn n (a ++ b) = a.
Proof.
  intros ->. replace (length a) with (length a + 0) by lia.
  rewrite firstn_app_2. cbn [firstn]. apply app_nil_r.
Qed.

Lemma gs_skipn_exact {A} (a b : list A) n : n = length a -> skipn n (a ++ b) = b.
Proof. intros ->. rewrite skipn_app, Nat.sub_diag, skipn_all. reflexivity. Qed.

Lemma gs_skipn_skipn {A} a b (l : list A) : skipn b (skipn a l) = skipn (a + b) l.
Proof.
  revert l; induction a as [|a IH]; intros l; [reflexivity|].
  destruct l as [|x l]; cbn [plus skipn]; [now rewrite skipn_nil|apply IH].
Qed.

Lemma gs_firstn_app_le {A} (a b : list A) n : n <= length a -> firstn n (a ++ b) = firstn n a.
Proof.
  intros H. rewrite firstn_app. replace (n - length a) with 0 by lia.
  cbn [firstn]. apply app_nil_r.
Qed.

Lemma gs_skipn_app_le {A} (a b : list A) n : n <= length a -> skipn n (a ++ b) = skipn n a ++ b.
Proof. intros H. rewrite skipn_app. replace (n - length a) with 0 by lia. reflexivity. Qed.

Lemma gs_upd_app {A} (a : list A) x y r : upd (length a) x (a ++ y :: r) = a ++ x :: r.
Proof. induction a as [|z a IH]; cbn [length app upd]; [reflexivity|now rewrite IH]. Qed.

(** * chunks_exact: fuel and concatenation *)
Lemma gs_chunks_nil k fuel l : length l < k -> chunks_exact k fuel l = [].
Proof.
  intros H. destruct fuel as [|f]; [reflexivity|]. cbn [chunks_exact].
  destruct (Nat.leb_spec k (length l)); [lia|reflexivity].
Qed.

Lemma gs_chunks_S k f l : k <= length l ->
  chunks_exact k (S f) l = firstn k l :: chunks_exact k f (skipn k l).
Proof.
  intros H. cbn [chunks_exact]. destruct (Nat.leb_spec k (length l)); [reflexivity|lia].
Qed.

Lemma gs_div_step k n : 0 < k -> k <= n -> n / k = S ((n - k) / k).
Proof.
  intros Hk H. replace n with ((n - k) + 1 * k) at 1 by lia.
  rewrite Nat.div_add by lia. lia.
Qed.

(** more fuel than [length l / k] changes nothing *)
Lemma gs_chunks_fuel k fuel l : 0 < k -> length l / k <= fuel ->
  chunks_exact k fuel l = chunks_exact k (length l / k) l.
Proof.
  intros Hk. revert l. induction fuel as [|f IH]; intros l Hf.
  - replace (length l / k) with 0 by lia. reflexivity.
  - destruct (Nat.le_gt_cases k (length l)) as [H|H].
    + rewrite (gs_div_step k (length l)) in * by lia.
      rewrite !gs_chunks_S by lia. f_equal.
      rewrite IH by (rewrite skipn_length; lia). now rewrite skipn_length.
    + rewrite Nat.div_small by lia. now apply gs_chunks_nil.
Qed.

Lemma gs_chunks_app k n f a b : 0 < k -> length a = k * n ->
  chunks_exact k (n + f) (a ++ b) = chunks_exact k n a ++ chunks_exact k f b.
Proof.
  intros Hk. revert a. induction n as [|n IH]; intros a Ha.
  - destruct a; [reflexivity|cbn [length] in Ha; lia].
  - cbn [plus]. rewrite !gs_chunks_S by (try rewrite app_length; nia).
    cbn [app]. rewrite gs_firstn_app_le, gs_skipn_app_le by nia. f_equal.
    apply IH. rewrite skipn_length. nia.
Qed.

(** only the first [k * n] bytes matter to [chunks_exact k n] *)
Lemma gs_chunks_firstn k n l : 0 < k -> k * n <= length l ->
  chunks_exact k n (firstn (k * n) l) = chunks_exact k n l.
Proof.
  intros Hk H. rewrite <- (firstn_skipn (k * n) l) at 2.
  replace n with (n + 0) at 3 by lia.
  rewrite gs_chunks_app by (try rewrite firstn_length; lia).
  cbn [chunks_exact]. now rewrite app_nil_r.
Qed.

Lemma gs_blocks_app bs n a b : 0 < bs -> length a = bs * n ->
  Spec.Groestl.blocks bs (a ++ b) = chunks_exact bs n a ++ Spec.Groestl.blocks bs b.
Proof.
  intros Hk Ha. unfold Spec.Groestl.blocks.
  rewrite (gs_chunks_fuel bs (length (a ++ b))) by (try apply Nat.div_le_upper_bound; nia).
  rewrite (gs_chunks_fuel bs (length b) b) by (try apply Nat.div_le_upper_bound; nia).
  rewrite app_length, Ha. rewrite Nat.mul_comm, Nat.div_add_l by lia.
  apply gs_chunks_app; [assumption|lia].
Qed.

Lemma gs_blocks_one bs l : 0 < bs -> length l = bs -> Spec.Groestl.blocks bs l = [l].
Proof.
  intros Hk Hl. unfold Spec.Groestl.blocks. rewrite gs_chunks_fuel by (try apply Nat.div_le_upper_bound; nia).
  rewrite Hl, Nat.div_same by lia. rewrite gs_chunks_S by lia.
  cbn [chunks_exact]. rewrite firstn_all2 by lia. reflexivity.
Qed.

(** * arithmetic of the specification's padding *)
Lemma gs_pad_zeros_small bs r : 8 < bs -> r < bs ->
  Spec.Groestl.pad_zeros bs r = if r + 9 <=? bs then bs - r - 9 else 2 * bs - r - 9.
Proof.
  intros Hb Hr. unfold Spec.Groestl.pad_zeros.
  destruct (Nat.leb_spec (r + 9) bs) as [H|H].
  - destruct (Nat.eq_dec (r + 9) bs) as [E|E].
    + rewrite E, Nat.mod_same, Nat.sub_0_r, Nat.mod_same by lia. lia.
    + rewrite (Nat.mod_small (r + 9)) by lia. rewrite Nat.mod_small by lia. lia.
  - replace (r + 9) with ((r + 9 - bs) + 1 * bs) by lia.
    rewrite Nat.mod_add by lia. rewrite (Nat.mod_small (r + 9 - bs)) by lia.
    rewrite Nat.mod_small by lia. lia.
Qed.

Lemma gs_pad_zeros_add bs q r : 0 < bs ->
  Spec.Groestl.pad_zeros bs (bs * q + r) = Spec.Groestl.pad_zeros bs r.
Proof.
  intros Hb. unfold Spec.Groestl.pad_zeros.
  replace (bs * q + r + 9) with (r + 9 + q * bs) by lia.
  now rewrite Nat.mod_add by lia.
Qed.

Lemma gs_pad_blocks_add bs q r : 0 < bs ->
  Spec.Groestl.pad_blocks bs (bs * q + r) = q + Spec.Groestl.pad_blocks bs r.
Proof.
  intros Hb. unfold Spec.Groestl.pad_blocks. rewrite gs_pad_zeros_add by assumption.
  replace (bs * q + r + Spec.Groestl.pad_zeros bs r + 9)
    with (q * bs + (r + Spec.Groestl.pad_zeros bs r + 9)) by lia.
  now rewrite Nat.div_add_l by lia.
Qed.

Lemma gs_pad_blocks_small bs r : 8 < bs -> r < bs ->
  Spec.Groestl.pad_blocks bs r = if r + 9 <=? bs then 1 else 2.
Proof.
  intros Hb Hr. unfold Spec.Groestl.pad_blocks. rewrite gs_pad_zeros_small by assumption.
  destruct (Nat.leb_spec (r + 9) bs) as [H|H].
  - replace (r + (bs - r - 9) + 9) with bs by lia. apply Nat.div_same. lia.
  - replace (r + (2 * bs - r - 9) + 9) with (2 * bs) by lia.
    apply Nat.div_mul. lia.
Qed.

(** total padded length of a short tail *)
Lemma gs_pad_total_small bs r : 8 < bs -> r < bs ->
  r + Spec.Groestl.pad_zeros bs r + 9 = bs * Spec.Groestl.pad_blocks bs r.
Proof.
  intros Hb Hr. rewrite gs_pad_zeros_small, gs_pad_blocks_small by assumption.
  destruct (Nat.leb_spec (r + 9) bs); lia.
Qed.

Lemma gs_pad_total bs n : 8 < bs ->
  n + Spec.Groestl.pad_zeros bs n + 9 = bs * Spec.Groestl.pad_blocks bs n.
Proof.
  intros Hb. pose proof (Nat.mod_upper_bound n bs ltac:(lia)) as U.
  pose proof (Nat.div_mod n bs ltac:(lia)) as E.
  revert U E. generalize (n mod bs), (n / bs). intros r q U E. subst n.
  rewrite gs_pad_zeros_add, gs_pad_blocks_add by lia.
  pose proof (gs_pad_total_small bs r Hb U). lia.
Qed.

(** * the buffer invariant *)
Definition holds (bs : nat) (b : bb) (data : list N) : Prop :=
  bb_size b = bs /\ bb_pos b = length data /\ length data < bs /\ firstn (length data) (bb_buf b) = data.

Lemma holds_new bs : 0 < bs -> holds bs (bb_new bs) [].
Proof.
  intros H. unfold holds, bb_new, bb_size. cbn [bb_buf bb_pos length firstn].
  rewrite repeat_length. auto.
Qed.

Lemma gs_div_mod_bounds bs len : 0 < bs -> bs * (len / bs) <= len /\ len - bs * (len / bs) < bs.
Proof.
  intros Hs. pose proof (Nat.div_mod len bs ltac:(lia)) as E.
  pose proof (Nat.mod_upper_bound len bs ltac:(lia)) as U. lia.
Qed.

(** [copy_at] at the front of a buffer that is at least as long *)
Lemma gs_holds_copy0 bs buf rem : length buf = bs -> length rem < bs ->
  holds bs (BB (copy_at buf 0 rem) (length rem)) rem.
Proof.
  intros Hb Hr. unfold holds, bb_size, copy_at. cbn [bb_buf bb_pos firstn app plus].
  rewrite app_length, skipn_length.
  repeat split; try lia. now apply gs_firstn_exact.
Qed.

Lemma input_block_char bs b buffered data : 0 < bs -> holds bs b buffered ->
  let all := buffered ++ data in
  let n := length all / bs in
  snd (input_block b data) = chunks_exact bs n all
  /\ holds bs (fst (input_block b data)) (skipn (bs * n) all).
Proof.
  intros Hbs (Hsz & Hpos & Hlt & Hdata). destruct b as [buf pos].
  unfold bb_size in Hsz. cbn [bb_buf bb_pos] in *. subst pos. cbv zeta.
  unfold input_block, bb_remaining, bb_size. cbn [bb_buf bb_pos]. rewrite Hsz.
  set (pos := length buffered) in *.
  assert (Hall : length (buffered ++ data) = pos + length data) by (rewrite app_length; lia).
  destruct (Nat.ltb_spec (length data) (bs - pos)) as [Hfit|Hge].
  - (* everything fits, no block completes *)
    cbn [fst snd]. rewrite Hall, Nat.div_small by lia. rewrite Nat.mul_0_r.
    cbn [chunks_exact skipn]. split; [reflexivity|].
    unfold holds, bb_size, copy_at. cbn [bb_buf bb_pos].
    rewrite Hdata.
    rewrite !app_length, skipn_length, app_assoc.
    repeat split; try (unfold pos in *; lia). apply gs_firstn_exact. now rewrite app_length.
  - destruct (Nat.eqb_spec pos 0) as [Hz|Hnz]; cbn [negb].
    + (* empty buffer: blocks straight from the input *)
      destruct buffered; [|unfold pos in Hz; discriminate Hz]. cbn [app] in *.
      rewrite chunks_exact_length by lia.
      cbn [fst snd app]. split; [apply gs_chunks_fuel; [lia|apply Nat.div_le_upper_bound; nia]|].
      apply gs_holds_copy0; [assumption|].
      rewrite skipn_length. apply gs_div_mod_bounds, Hbs.
    + (* complete the pending block first *)
      set (r := bs - pos) in *.
      assert (Hfr : length (firstn r data) = r) by (rewrite firstn_length; lia).
      assert (Hb1 : copy_at buf pos (firstn r data) = firstn bs (buffered ++ data)).
      { unfold copy_at. rewrite Hfr. replace (pos + r) with bs by lia.
        rewrite (skipn_all2 buf) by lia. rewrite app_nil_r.
        rewrite Hdata.
        replace bs with (length buffered + r) at 1 by (unfold pos in *; lia).
        now rewrite firstn_app_2. }
      assert (Hi1 : skipn r data = skipn bs (buffered ++ data)).
      { replace bs with (length buffered + r) at 1 by (unfold pos in *; lia).
        rewrite <- gs_skipn_skipn. now rewrite gs_skipn_exact by reflexivity. }
      rewrite Hb1, Hi1.
      set (all := buffered ++ data) in *.
      set (in1 := skipn bs all).
      assert (Hin1 : length in1 = length all - bs) by (unfold in1; now rewrite skipn_length).
      rewrite chunks_exact_length by lia.
      rewrite (gs_div_step bs (length all)) by lia. rewrite <- Hin1.
      cbn [fst snd app]. split.
      * rewrite gs_chunks_S by lia. fold in1. f_equal.
        apply gs_chunks_fuel; [lia|apply Nat.div_le_upper_bound; nia].
      * replace (bs * S (length in1 / bs)) with (bs + bs * (length in1 / bs)) by lia.
        rewrite <- gs_skipn_skipn. fold in1.
        apply gs_holds_copy0; [rewrite firstn_length; lia|].
        rewrite skipn_length. apply gs_div_mod_bounds, Hbs.
Qed.

Lemma gs_chunks_length k l : 0 < k -> length (chunks_exact k (length l / k) l) = length l / k.
Proof.
  intros Hk. rewrite <- (gs_chunks_fuel k (length l)) by (try apply Nat.div_le_upper_bound; nia).
  now apply chunks_exact_length.
Qed.

(** * update *)
Lemma gs_fold_absorb c out cnt cv :
  fold_left (absorb c) out (cnt, cv) =
  (fold_left (fun x _ => addw 64 x 1) out cnt, fold_left (c_tf c) out cv).
Proof.
  revert cnt cv. induction out as [|blk out IH]; intros cnt cv; [reflexivity|].
  cbn [fold_left]. unfold absorb at 2. cbn [fst snd]. apply IH.
Qed.

Lemma gs_fold_count {A} (out : list A) cnt : (cnt < 2 ^ 64)%N ->
  fold_left (fun x _ => addw 64 x 1) out cnt = addw 64 cnt (N.of_nat (length out)).
Proof.
  revert cnt. induction out as [|blk out IH]; intros cnt Hc.
  - cbn [fold_left length N.of_nat]. unfold addw. rewrite N.add_0_r.
    symmetry. now apply wrap_small.
  - cbn [fold_left length]. rewrite IH by apply addw_lt.
    rewrite !addw_mod. rewrite N.add_mod_idemp_l by apply pow2_nz.
    f_equal. lia.
Qed.

Lemma update_unfold c h data :
  update c h data =
  H (fst (input_block (h_buf h) data))
    (fold_left (fun x _ => addw 64 x 1) (snd (input_block (h_buf h) data)) (h_count h))
    (fold_left (c_tf c) (snd (input_block (h_buf h) data)) (h_cv h)).
Proof.
  unfold update. destruct (input_block (h_buf h) data) as [b out].
  rewrite gs_fold_absorb. reflexivity.
Qed.

Lemma update_char c h buffered data :
  0 < c_bytes c -> holds (c_bytes c) (h_buf h) buffered -> (h_count h < 2 ^ 64)%N ->
  let bs := c_bytes c in
  let all := buffered ++ data in
  let n := length all / bs in
  h_count (update c h data) = addw 64 (h_count h) (N.of_nat n)
  /\ h_cv (update c h data) = fold_left (c_tf c) (chunks_exact bs n all) (h_cv h)
  /\ holds bs (h_buf (update c h data)) (skipn (bs * n) all).
Proof.
  intros Hbs Hh Hc. cbv zeta.
  destruct (input_block_char _ _ _ data Hbs Hh) as [Ho Hb].
  rewrite update_unfold. cbn [h_count h_cv h_buf]. rewrite Ho.
  split; [|split; [reflexivity|exact Hb]].
  rewrite gs_fold_count by assumption. f_equal. f_equal.
  now apply gs_chunks_length.
Qed.

(** * finalisation of a buffer that holds [data] *)
Lemma gs_be_split_length n x : length (be_split n x) = n.
Proof. unfold be_split. now rewrite rev_length, le_split_length. Qed.

Ltac gs_len :=
  repeat first [rewrite app_length | rewrite repeat_length | rewrite gs_be_split_length
               | progress (cbn [length])].

Lemma gs_copy_tail buf x : length x <= length buf ->
  copy_at buf (length buf - length x) x = firstn (length buf - length x) buf ++ x.
Proof.
  intros H. unfold copy_at. rewrite skipn_all2 by lia. now rewrite app_nil_r.
Qed.

(** the buffer after [0x80] and zero fill *)
Lemma gs_pad_buf bs buf data : length buf = bs -> length data < bs ->
  firstn (length data) buf = data ->
  zero_from (upd (length data) 0x80%N buf) (length data + 1)
  = data ++ 0x80%N :: repeat 0%N (bs - length data - 1).
Proof.
  intros Hb Hl Hd.
  assert (E : buf = data ++ skipn (length data) buf).
  { rewrite <- Hd at 1. symmetry. apply firstn_skipn. }
  destruct (skipn (length data) buf) as [|y rest] eqn:Er.
  - apply (f_equal (@length N)) in Er. rewrite skipn_length in Er. cbn [length] in Er. lia.
  - rewrite E. rewrite gs_upd_app. unfold zero_from.
    replace (data ++ 0x80%N :: rest) with ((data ++ [0x80%N]) ++ rest)
      by (rewrite <- app_assoc; reflexivity).
    rewrite gs_firstn_exact by (rewrite app_length; reflexivity).
    rewrite <- app_assoc. cbn [app]. do 3 f_equal.
    apply (f_equal (@length N)) in E. rewrite !app_length in *. cbn [length] in *. lia.
Qed.

Lemma gs_len_padding bs b data prior : 8 < bs -> holds bs b data ->
  snd (len_padding_be 8 b (prior + N.of_nat (Spec.Groestl.pad_blocks bs (length data))))
  = Spec.Groestl.blocks bs (Spec.Groestl.pad_from bs prior data).
Proof.
  intros Hbs (Hsz & Hpos & Hlt & Hdata). destruct b as [buf pos].
  unfold bb_size in Hsz. cbn [bb_buf bb_pos] in *. subst pos.
  set (r := length data) in *.
  set (cnt := (prior + N.of_nat (Spec.Groestl.pad_blocks bs r))%N).
  unfold len_padding_be, digest_pad, bb_size. cbn [bb_buf bb_pos]. rewrite Hsz.
  destruct (Nat.eqb_spec r bs) as [E|_]; [lia|]. cbn [bb_buf bb_pos app].
  unfold r. rewrite (gs_pad_buf bs) by assumption. fold r.
  set (buf3 := data ++ 0x80%N :: repeat 0%N (bs - r - 1)).
  assert (L3 : length buf3 = bs).
  { unfold buf3. rewrite app_length. cbn [length]. rewrite repeat_length. fold r. lia. }
  pose proof (gs_be_split_length 8 cnt) as Lc.
  unfold Spec.Groestl.pad_from. fold r. fold cnt.
  pose proof (gs_pad_zeros_small bs r Hbs Hlt) as Hz.
  pose proof (gs_pad_blocks_small bs r Hbs Hlt) as Hp.
  destruct (Nat.ltb_spec (bs - (r + 1)) 8) as [Hsmall|Hbig].
  - (* an extra block is needed *)
    destruct (Nat.leb_spec (r + 9) bs) as [|_]; [lia|].
    cbn [bb_buf bb_pos snd]. unfold bb_size. cbn [bb_buf].
    assert (Z : zero_upto buf3 (r + 1) = repeat 0%N (bs - 8) ++ repeat 0%N 8).
    { unfold zero_upto, buf3.
      replace (data ++ 0x80%N :: repeat 0%N (bs - r - 1))
        with ((data ++ [0x80%N]) ++ repeat 0%N (bs - r - 1)) by (rewrite <- app_assoc; reflexivity).
      rewrite gs_skipn_exact by (rewrite app_length; reflexivity).
      rewrite <- !repeat_app. f_equal. lia. }
    rewrite Z. rewrite app_length, !repeat_length.
    replace (bs - 8 + 8 - 8) with (bs - 8) by lia.
    unfold copy_at. rewrite gs_firstn_exact by (now rewrite repeat_length).
    rewrite skipn_all2 by (rewrite app_length, !repeat_length; lia). rewrite app_nil_r.
    rewrite Hz.
    replace (data ++ [0x80%N] ++ repeat 0%N (2 * bs - r - 9) ++ be_split 8 cnt)
      with (buf3 ++ (repeat 0%N (bs - 8) ++ be_split 8 cnt)).
    + rewrite (gs_blocks_app bs 1) by lia.
      rewrite gs_chunks_S by lia. cbn [chunks_exact]. rewrite firstn_all2 by lia.
      rewrite gs_blocks_one; [reflexivity|lia|].
      rewrite app_length, repeat_length. lia.
    + unfold buf3. rewrite <- !app_assoc. cbn [app]. do 2 f_equal.
      rewrite app_assoc, <- repeat_app. do 2 f_equal. lia.
  - (* the count fits in the same block *)
    destruct (Nat.leb_spec (r + 9) bs) as [_|]; [|lia].
    cbn [bb_buf bb_pos snd app]. unfold bb_size. cbn [bb_buf]. rewrite L3.
    unfold copy_at. rewrite skipn_all2 by lia. rewrite app_nil_r.
    rewrite Hz.
    assert (F : firstn (bs - 8) buf3 = data ++ [0x80%N] ++ repeat 0%N (bs - r - 9)).
    { unfold buf3. replace (bs - r - 1) with ((bs - r - 9) + 8) by lia.
      rewrite repeat_app.
      replace (data ++ 0x80%N :: repeat 0%N (bs - r - 9) ++ repeat 0%N 8)
        with ((data ++ [0x80%N] ++ repeat 0%N (bs - r - 9)) ++ repeat 0%N 8)
        by (rewrite <- !app_assoc; reflexivity).
      apply gs_firstn_exact. rewrite !app_length, repeat_length. cbn [length]. fold r. lia. }
    rewrite F. rewrite <- !app_assoc.
    rewrite gs_blocks_one; [reflexivity|lia|].
    gs_len. fold r. lia.
Qed.

(** * the specification's padding *)
Lemma pad_from_length bs prior msg : 8 < bs ->
  length (Spec.Groestl.pad_from bs prior msg) = bs * Spec.Groestl.pad_blocks bs (length msg).
Proof.
  intros Hbs. rewrite <- gs_pad_total by assumption.
  unfold Spec.Groestl.pad_from. gs_len. lia.
Qed.

Lemma pad_blocks_ge1 bs n : 8 < bs -> 1 <= Spec.Groestl.pad_blocks bs n.
Proof.
  intros Hbs. pose proof (gs_pad_total bs n Hbs) as E.
  destruct (Spec.Groestl.pad_blocks bs n); lia.
Qed.

Lemma blocks_Forall_length bs l : Forall (fun b => length b = bs) (Spec.Groestl.blocks bs l).
Proof. apply chunks_exact_Forall_length. Qed.

Lemma gs_be_join_split8 x : (x < 2 ^ 64)%N -> be_join (be_split 8 x) = x.
Proof.
  intros Hx. unfold be_join, be_split. rewrite rev_involutive. now apply le_join_split.
Qed.

(** C17: the count in the last 8 bytes is the true number of blocks *)
Lemma pad_from_count_bytes bs prior msg : 8 < bs ->
  (prior + N.of_nat (Spec.Groestl.pad_blocks bs (length msg)) < 2^64)%N ->
  let p := Spec.Groestl.pad_from bs prior msg in
  be_join (skipn (length p - 8) p) = (prior + N.of_nat (Spec.Groestl.pad_blocks bs (length msg)))%N
  /\ N.of_nat (length p / bs) = N.of_nat (Spec.Groestl.pad_blocks bs (length msg)).
Proof.
  intros Hbs Hlt. cbv zeta. split.
  - unfold Spec.Groestl.pad_from.
    rewrite !app_assoc. rewrite gs_skipn_exact by (gs_len; lia).
    now apply gs_be_join_split8.
  - rewrite pad_from_length by assumption. f_equal.
    rewrite Nat.mul_comm. apply Nat.div_mul. lia.
Qed.

(** splitting the padded message after the [n] full blocks of the message *)
Lemma gs_split_len bs (all : list N) : 0 < bs ->
  let n := length all / bs in
  length (firstn (bs * n) all) = bs * n
  /\ length all = bs * n + length (skipn (bs * n) all)
  /\ length (skipn (bs * n) all) < bs.
Proof.
  intros Hbs. cbv zeta. destruct (gs_div_mod_bounds bs (length all) Hbs) as [B1 B2].
  rewrite firstn_length, skipn_length. lia.
Qed.

Lemma gs_pad_from_split bs prior all : 0 < bs ->
  let n := length all / bs in
  Spec.Groestl.pad_from bs prior all
  = firstn (bs * n) all ++ Spec.Groestl.pad_from bs (prior + N.of_nat n) (skipn (bs * n) all).
Proof.
  intros Hbs. cbv zeta. destruct (gs_split_len bs all Hbs) as (L1 & L2 & L3).
  set (n := length all / bs) in *.
  unfold Spec.Groestl.pad_from. rewrite L2.
  rewrite gs_pad_zeros_add, gs_pad_blocks_add by assumption.
  rewrite (app_assoc (firstn _ _)), firstn_skipn.
  do 4 f_equal. lia.
Qed.

Lemma gs_blocks_pad_from bs prior all : 0 < bs ->
  let n := length all / bs in
  Spec.Groestl.blocks bs (Spec.Groestl.pad_from bs prior all)
  = chunks_exact bs n all
    ++ Spec.Groestl.blocks bs (Spec.Groestl.pad_from bs (prior + N.of_nat n) (skipn (bs * n) all)).
Proof.
  intros Hbs. cbv zeta. destruct (gs_split_len bs all Hbs) as (L1 & L2 & L3).
  rewrite gs_pad_from_split by assumption.
  rewrite (gs_blocks_app bs (length all / bs)) by assumption.
  rewrite gs_chunks_firstn by lia. reflexivity.
Qed.

(** * finalize *)
Lemma gs_finalize_with c h count :
  finalize_with c h count
  = concat (c_of c (fold_left (c_tf c) (snd (len_padding_be 8 (h_buf h) count)) (h_cv h))).
Proof. unfold finalize_with. now destruct (len_padding_be 8 (h_buf h) count). Qed.

Lemma gs_extra bs h data : 8 < bs -> holds bs (h_buf h) data ->
  (1 + extra_block h)%N = N.of_nat (Spec.Groestl.pad_blocks bs (length data)).
Proof.
  intros Hbs (Hsz & Hpos & Hlt & _). unfold extra_block, bb_remaining.
  rewrite Hsz, Hpos, gs_pad_blocks_small by assumption.
  destruct (Nat.leb_spec (bs - length data) 8); destruct (Nat.leb_spec (length data + 9) bs);
    try lia; reflexivity.
Qed.

(** finalisation of a hasher whose buffer holds [data], when the count does not overflow *)
Lemma finalize_char c h data : 8 < c_bytes c -> holds (c_bytes c) (h_buf h) data ->
  (h_count h + N.of_nat (Spec.Groestl.pad_blocks (c_bytes c) (length data)) < 2^64)%N ->
  finalize_dirty c h
  = concat (c_of c (fold_left (c_tf c)
        (Spec.Groestl.blocks (c_bytes c) (Spec.Groestl.pad_from (c_bytes c) (h_count h) data))
        (h_cv h))).
Proof.
  intros Hbs Hh Hlt. unfold finalize_dirty. rewrite gs_finalize_with.
  pose proof (gs_extra _ _ _ Hbs Hh) as He.
  replace (addw 64 (addw 64 (h_count h) 1) (extra_block h))
    with (h_count h + N.of_nat (Spec.Groestl.pad_blocks (c_bytes c) (length data)))%N.
  - now rewrite (gs_len_padding (c_bytes c)).
  - unfold addw. rewrite (wrap_small 64 (h_count h + 1)) by lia.
    rewrite wrap_small by lia. lia.
Qed.

(** * MAIN *)
Theorem hasher_schedule c h buffered tail :
  8 < c_bytes c -> holds (c_bytes c) (h_buf h) buffered ->
  (h_count h + N.of_nat (Spec.Groestl.pad_blocks (c_bytes c) (length buffered + length tail)) < 2^64)%N ->
  finalize_dirty c (update c h tail)
  = concat (c_of c (fold_left (c_tf c)
        (Spec.Groestl.blocks (c_bytes c) (Spec.Groestl.pad_from (c_bytes c) (h_count h) (buffered ++ tail)))
        (h_cv h))).
Proof.
  intros Hbs Hh Hlt. assert (Hbs0 : 0 < c_bytes c) by lia.
  rewrite <- app_length in Hlt.
  destruct (gs_split_len (c_bytes c) (buffered ++ tail) Hbs0) as (L1 & L2 & L3).
  rewrite L2, gs_pad_blocks_add in Hlt by assumption.
  destruct (update_char c h buffered tail Hbs0 Hh ltac:(lia)) as (Uc & Uv & Ub).
  assert (Uc' : h_count (update c h tail)
                = (h_count h + N.of_nat (length (buffered ++ tail) / c_bytes c))%N).
  { rewrite Uc. unfold addw. apply wrap_small. lia. }
  rewrite (finalize_char c _ _ Hbs Ub) by (rewrite Uc'; lia).
  rewrite Uc', Uv, <- fold_left_app.
  now rewrite <- gs_blocks_pad_from by assumption.
Qed.

(** * profile-explicit versions *)
Lemma gs_add64_chk debug a b : debug = false \/ (a + b < 2^64)%N ->
  add64_chk debug a b = Some (addw 64 a b).
Proof.
  intros Hd. unfold add64_chk. change (2^64)%N with 18446744073709551616%N in Hd.
  destruct Hd as [->|Hd]; [reflexivity|].
  destruct (N.leb_spec 18446744073709551616 (a + b)); [lia|].
  now rewrite Bool.andb_false_r.
Qed.

Lemma gs_fold_absorb_chk debug c out cnt cv :
  debug = false \/ (cnt + N.of_nat (length out) < 2^64)%N ->
  fold_left (absorb_chk debug c) out (Some (cnt, cv)) = Some (fold_left (absorb c) out (cnt, cv)).
Proof.
  revert cnt cv. induction out as [|blk out IH]; intros cnt cv Hd; [reflexivity|].
  cbn [fold_left]. unfold absorb_chk at 2, absorb at 2. cbn [fst snd].
  rewrite gs_add64_chk by (cbn [length] in Hd; destruct Hd; [now left|right; lia]).
  apply IH. destruct Hd as [Hd|Hd]; [now left|right].
  cbn [length] in Hd. unfold addw. rewrite wrap_small; lia.
Qed.

Lemma update_chk_char debug c h data :
  debug = false \/ (h_count h + N.of_nat (length (snd (input_block (h_buf h) data))) < 2^64)%N ->
  update_chk debug c h data = Some (update c h data).
Proof.
  intros Hd. unfold update_chk, update.
  destruct (input_block (h_buf h) data) as [b out]. cbn [snd] in Hd.
  rewrite gs_fold_absorb_chk by assumption.
  now destruct (fold_left (absorb c) out (h_count h, h_cv h)).
Qed.

Lemma finalize_chk_char debug c h :
  debug = false \/ (h_count h + 1 + extra_block h < 2^64)%N ->
  finalize_chk debug c h = Some (finalize_dirty c h).
Proof.
  intros Hd. unfold finalize_chk, finalize_dirty.
  rewrite gs_add64_chk by (destruct Hd; [now left|right; lia]).
  rewrite gs_add64_chk; [reflexivity|].
  destruct Hd as [Hd|Hd]; [now left|right].
  unfold addw. rewrite wrap_small; lia.
Qed.

Theorem hasher_schedule_chk debug c h buffered tail :
  8 < c_bytes c -> holds (c_bytes c) (h_buf h) buffered ->
  (h_count h + N.of_nat (Spec.Groestl.pad_blocks (c_bytes c) (length buffered + length tail)) < 2^64)%N ->
  match update_chk debug c h tail with Some h' => finalize_chk debug c h' | None => None end
  = Some (finalize_dirty c (update c h tail)).
Proof.
  intros Hbs Hh Hlt. assert (Hbs0 : 0 < c_bytes c) by lia.
  rewrite <- app_length in Hlt.
  destruct (gs_split_len (c_bytes c) (buffered ++ tail) Hbs0) as (L1 & L2 & L3).
  rewrite L2, gs_pad_blocks_add in Hlt by assumption.
  destruct (update_char c h buffered tail Hbs0 Hh ltac:(lia)) as (Uc & Uv & Ub).
  destruct (input_block_char _ _ _ tail Hbs0 Hh) as [Ho _].
  pose proof (pad_blocks_ge1 (c_bytes c)
                (length (skipn (c_bytes c * (length (buffered ++ tail) / c_bytes c)) (buffered ++ tail))) Hbs) as G1.
  rewrite update_chk_char.
  - apply finalize_chk_char. right.
    rewrite <- N.add_assoc, (gs_extra _ _ _ Hbs Ub), Uc.
    unfold addw. rewrite wrap_small; lia.
  - right. rewrite Ho, gs_chunks_length by assumption. lia.
Qed.

Theorem hasher_release_never_panics c h tail :
  exists h', update_chk false c h tail = Some h' /\ h' = update c h tail
             /\ finalize_chk false c h' = Some (finalize_dirty c h').
Proof.
  exists (update c h tail). split; [apply update_chk_char; now left|].
  split; [reflexivity|apply finalize_chk_char; now left].
Qed.

(** * corollary: with the compressor that records its input blocks the hasher
    outputs the specification's padded message itself *)
Definition comp_rec (bs : nat) : comp := C bs (fun x => x) (fun cv blk => cv ++ [blk]) (fun x => x).

Lemma gs_fold_rec (bl : list (list N)) cv : fold_left (fun cv blk => cv ++ [blk]) bl cv = cv ++ bl.
Proof.
  revert cv. induction bl as [|b bl IH]; intros cv; cbn [fold_left]; [now rewrite app_nil_r|].
  rewrite IH, <- app_assoc. reflexivity.
Qed.

Corollary hasher_schedule_recorded bs prior msg : 8 < bs ->
  (prior + N.of_nat (Spec.Groestl.pad_blocks bs (length msg)) < 2^64)%N ->
  finalize_dirty (comp_rec bs) (update (comp_rec bs) (H (bb_new bs) prior []) msg)
  = Spec.Groestl.pad_from bs prior msg.
Proof.
  intros Hbs Hlt.
  rewrite (hasher_schedule (comp_rec bs) _ [] msg); cbn [comp_rec c_bytes c_tf c_of h_buf h_count h_cv length plus app];
    [|assumption|apply holds_new; lia|assumption].
  rewrite gs_fold_rec. cbn [app]. unfold Spec.Groestl.blocks.
  apply chunks_exact_concat; [lia|lia|].
  rewrite pad_from_length by assumption. rewrite Nat.mul_comm. apply Nat.mod_mul. lia.
Qed.

(** * non-vacuity *)
Definition gs_c0 : comp := C 64 (fun x => x) (fun cv _ => cv) (fun x => x).

(** the bound is sharp: with overflow checks on, one more block panics *)
Example finalize_chk_overflow_witness :
  finalize_chk true gs_c0 (H (bb_new 64) (2^64 - 1) []) = None.
Proof. vm_compute. reflexivity. Qed.

Example update_chk_overflow_witness :
  update_chk true gs_c0 (H (bb_new 64) (2^64 - 1) []) (repeat 0%N 64) = None.
Proof. vm_compute. reflexivity. Qed.

(** ... while the release profile wraps silently: the count written is 0 *)
Example finalize_release_wraps :
  finalize_dirty (comp_rec 64) (H (bb_new 64) (2^64 - 1) [])
  = 128%N :: repeat 0%N 63.
Proof. vm_compute. reflexivity. Qed.

(** the hypotheses of [hasher_schedule] are satisfiable *)
Example hasher_schedule_example :
  finalize_dirty (comp_rec 64) (update (comp_rec 64) (H (bb_new 64) 0 []) [1; 2; 3]%N)
  = [1; 2; 3]%N ++ [128%N] ++ repeat 0%N 52 ++ [0; 0; 0; 0; 0; 0; 0; 1]%N.
Proof.
  rewrite (hasher_schedule (comp_rec 64) _ [] [1; 2; 3]%N).
  - vm_compute. reflexivity.
  - cbn [comp_rec c_bytes]. lia.
  - apply holds_new. cbn [comp_rec c_bytes]. lia.
  - vm_compute. reflexivity.
Qed.

(** * corollaries: whole messages, and messages fed in two pieces *)
Corollary hasher_schedule_new c bits msg : 8 < c_bytes c ->
  (N.of_nat (Spec.Groestl.pad_blocks (c_bytes c) (length msg)) < 2^64)%N ->
  finalize_dirty c (update c (new_truncated c bits) msg)
  = concat (c_of c (fold_left (c_tf c)
        (Spec.Groestl.blocks (c_bytes c) (Spec.Groestl.pad (c_bytes c) msg))
        (h_cv (new_truncated c bits)))).
Proof.
  intros Hbs Hlt.
  apply (hasher_schedule c (new_truncated c bits) [] msg Hbs).
  - apply holds_new. lia.
  - exact Hlt.
Qed.

Lemma gs_pad_from_app bs prior n a b : 0 < bs -> length a = bs * n ->
  Spec.Groestl.pad_from bs prior (a ++ b) = a ++ Spec.Groestl.pad_from bs (prior + N.of_nat n) b.
Proof.
  intros Hbs Ha. unfold Spec.Groestl.pad_from. rewrite app_length, Ha.
  rewrite gs_pad_zeros_add, gs_pad_blocks_add by assumption.
  rewrite <- app_assoc. do 5 f_equal. lia.
Qed.

Lemma gs_blocks_pad_from_app bs prior all b : 0 < bs ->
  let n := length all / bs in
  Spec.Groestl.blocks bs (Spec.Groestl.pad_from bs prior (all ++ b))
  = chunks_exact bs n all
    ++ Spec.Groestl.blocks bs (Spec.Groestl.pad_from bs (prior + N.of_nat n) (skipn (bs * n) all ++ b)).
Proof.
  intros Hbs. cbv zeta. destruct (gs_split_len bs all Hbs) as (L1 & L2 & L3).
  replace (all ++ b) with (firstn (bs * (length all / bs)) all ++ (skipn (bs * (length all / bs)) all ++ b))
    by (now rewrite app_assoc, firstn_skipn).
  rewrite (gs_pad_from_app _ _ (length all / bs)) by assumption.
  rewrite (gs_blocks_app _ (length all / bs)) by assumption.
  now rewrite gs_chunks_firstn by lia.
Qed.

(** feeding [a] then [b] is feeding [a ++ b] *)
Theorem hasher_schedule_two_updates c h buffered a b :
  8 < c_bytes c -> holds (c_bytes c) (h_buf h) buffered ->
  (h_count h + N.of_nat (Spec.Groestl.pad_blocks (c_bytes c) (length buffered + length a + length b)) < 2^64)%N ->
  finalize_dirty c (update c (update c h a) b) = finalize_dirty c (update c h (a ++ b)).
Proof.
  intros Hbs Hh Hlt. assert (Hbs0 : 0 < c_bytes c) by lia.
  rewrite (hasher_schedule c h buffered (a ++ b) Hbs Hh)
    by (rewrite app_length, Nat.add_assoc; exact Hlt).
  destruct (gs_split_len (c_bytes c) (buffered ++ a) Hbs0) as (L1 & L2 & L3).
  pose proof (pad_blocks_ge1 (c_bytes c)
     (length (skipn (c_bytes c * (length (buffered ++ a) / c_bytes c)) (buffered ++ a)) + length b) Hbs) as G1.
  rewrite <- app_length, L2, <- Nat.add_assoc, gs_pad_blocks_add in Hlt by assumption.
  destruct (update_char c h buffered a Hbs0 Hh ltac:(lia)) as (Uc & Uv & Ub).
  assert (Uc' : h_count (update c h a)
                = (h_count h + N.of_nat (length (buffered ++ a) / c_bytes c))%N).
  { rewrite Uc. unfold addw. apply wrap_small. lia. }
  rewrite (hasher_schedule c (update c h a) _ b Hbs Ub) by (rewrite Uc'; lia).
  rewrite Uc', Uv, <- fold_left_app. do 3 f_equal.
  rewrite app_assoc. symmetry. now apply gs_blocks_pad_from_app.
Qed.
