(** Instantiation of the Threefish theorems at wrapping 64-bit arithmetic and
    at the byte level (what [encrypt_block]/[decrypt_block] see). *)
From Coq Require Import NArith List Lia Arith.
From CC Require Import Lib.Words Lib.Bytes Lib.ListX.
From CC Require Spec.Threefish.
From CC Require Import Model.Threefish Proofs.ThreefishInv Proofs.ThreefishSpec.
Import ListNotations.
Module S := Spec.Threefish.
Local Open Scope N_scope.

Definition W64 (x : N) : Prop := x < 2 ^ 64.

Lemma r64 r : r mod 64 <= 64.
Proof. pose proof (N.mod_lt r 64). lia. Qed.

Lemma rotr64_rotl64 r a : W64 a -> rotr64 r (rotl64 r a) = a.
Proof. intros H. apply rotrw_rotlw; [exact H|apply r64]. Qed.
Lemma rotl64_rotr64 r a : W64 a -> rotl64 r (rotr64 r a) = a.
Proof. intros H. apply rotlw_rotrw; [exact H|apply r64]. Qed.
Lemma xor_c1 a b : N.lxor b (N.lxor a b) = a.
Proof. rewrite (N.lxor_comm a b). apply lxor_cancel_l. Qed.
Lemma xor_c2 a b : N.lxor (N.lxor a b) a = b.
Proof. rewrite (N.lxor_comm a b). apply lxor_cancel_r. Qed.

(** the three configurations with an arbitrary rotation table *)
Definition cfg256 (R : list (list N)) := {| n_w := 4; rounds := 72; rot := R; perm := P_256 |}.
Definition cfg512 (R : list (list N)) := {| n_w := 8; rounds := 72; rot := R; perm := P_512 |}.
Definition cfg1024 (R : list (list N)) := {| n_w := 16; rounds := 80; rot := R; perm := P_1024 |}.

Definition is_tf_cfg (c : cfg) : Prop :=
  exists R, c = cfg256 R \/ c = cfg512 R \/ c = cfg1024 R.

Lemma last_row_length c k t0 t1 :
  length (nth (rounds c / 4) (m_with_tweak c k t0 t1) []) = n_w c.
Proof.
  unfold m_with_tweak, with_tweak. rewrite nth_map_seq by lia.
  now rewrite map_length, seq_length.
Qed.

Ltac laws :=
  first [exact (addw_lt 64) | exact (subw_lt 64) | exact (lxor_lt 64)
        | (intros; apply rotlw_lt) | (intros; apply rotrw_lt)
        | exact (subw_addw 64) | exact (addw_subw 64)
        | exact rotr64_rotl64 | exact rotl64_rotr64 | exact xor_c1 | exact xor_c2 ].

Theorem words_decrypt_encrypt c nu k t0 t1 v :
  is_tf_cfg c -> length v = n_w c -> Forall W64 v ->
  m_decrypt_words c nu (m_with_tweak c k t0 t1) (m_encrypt_words c nu (m_with_tweak c k t0 t1) v) = v.
Proof.
  intros [R [-> | [-> | ->]]] Hl HW; unfold m_decrypt_words, m_encrypt_words.
  - apply (decrypt_encrypt_words add64 sub64 N.lxor rotl64 rotr64 W64); try laws.
    + apply body_rt_256; laws.
    + apply last_row_length.
    + now split.
  - apply (decrypt_encrypt_words add64 sub64 N.lxor rotl64 rotr64 W64); try laws.
    + apply body_rt_512; laws.
    + apply last_row_length.
    + now split.
  - apply (decrypt_encrypt_words add64 sub64 N.lxor rotl64 rotr64 W64); try laws.
    + apply body_rt_1024; laws.
    + apply last_row_length.
    + now split.
Qed.

Theorem words_encrypt_decrypt c nu k t0 t1 v :
  is_tf_cfg c -> length v = n_w c -> Forall W64 v ->
  m_encrypt_words c nu (m_with_tweak c k t0 t1) (m_decrypt_words c nu (m_with_tweak c k t0 t1) v) = v.
Proof.
  intros [R [-> | [-> | ->]]] Hl HW; unfold m_decrypt_words, m_encrypt_words.
  - apply (encrypt_decrypt_words add64 sub64 N.lxor rotl64 rotr64 W64); try laws.
    + apply body_rt'_256; laws.
    + apply last_row_length.
    + now split.
  - apply (encrypt_decrypt_words add64 sub64 N.lxor rotl64 rotr64 W64); try laws.
    + apply body_rt'_512; laws.
    + apply last_row_length.
    + now split.
  - apply (encrypt_decrypt_words add64 sub64 N.lxor rotl64 rotr64 W64); try laws.
    + apply body_rt'_1024; laws.
    + apply last_row_length.
    + now split.
Qed.

(** lengths and word-ness of the outputs *)
Lemma encrypt_words_inv c nu sk v :
  length (nth (rounds c / 4) sk []) = n_w c ->
  Forall W64 (m_encrypt_words c nu sk v).
Proof. intros _. unfold m_encrypt_words, encrypt_words. apply map2_Forall. apply (addw_lt 64). Qed.

Lemma block_words c block :
  is_tf_cfg c -> length block = (8 * n_w c)%nat -> length (words_le 8 block) = n_w c.
Proof.
  intros _ Hl. rewrite words_le_length by lia. rewrite Hl.
  rewrite Nat.mul_comm. apply Nat.div_mul. discriminate.
Qed.

Lemma W64_words block : Forall is_byte block -> Forall W64 (words_le 8 block).
Proof. intros H. exact (words_le_Forall_word 8 block H). Qed.

(** length of encrypt/decrypt output at word level, needed to chain byte-level calls *)
Lemma fold_inv_length {B} (f : list N -> B -> list N) l v n :
  (forall a x, length a = n -> length (f a x) = n) -> length v = n -> length (fold_left f l v) = n.
Proof. intros H. revert v; induction l as [|x l IH]; intros v Hv; simpl; auto. Qed.

Lemma enc_body_length c sk i d v :
  length (enc_body add64 N.lxor rotl64 c sk i d v) = length v.
Proof.
  unfold enc_body. apply fold_inv_length; [|reflexivity].
  intros a j Ha. now rewrite !upd_length.
Qed.

Lemma dec_body_length c sk i d v :
  length (dec_body sub64 N.lxor rotr64 c sk i d v) = length v.
Proof.
  unfold dec_body. apply fold_inv_length; [|reflexivity].
  intros a j Ha. now rewrite !upd_length.
Qed.

Lemma encrypt_words_length c nu sk v :
  length (nth (rounds c / 4) sk []) = n_w c -> length v = n_w c ->
  length (m_encrypt_words c nu sk v) = n_w c.
Proof.
  intros Hk Hv. unfold m_encrypt_words, encrypt_words.
  rewrite map2_length, Hk.
  rewrite (fold_inv_length _ _ _ (n_w c)); [lia| |exact Hv].
  intros a i Ha. unfold unroll8.
  replace (if nu then unroll8_loop else unroll8_unrolled) with unroll8_loop
    by (destruct nu; reflexivity).
  unfold unroll8_loop. apply fold_inv_length; [|exact Ha].
  intros b d Hb. now rewrite enc_body_length.
Qed.

Lemma decrypt_words_length c nu sk v :
  length (nth (rounds c / 4) sk []) = n_w c -> length v = n_w c ->
  length (m_decrypt_words c nu sk v) = n_w c.
Proof.
  intros Hk Hv. unfold m_decrypt_words, decrypt_words.
  apply fold_inv_length; [|rewrite map2_length; lia].
  intros a i Ha. unfold unroll8_rev.
  replace (if nu then unroll8_rev_loop else unroll8_rev_unrolled) with unroll8_rev_loop
    by (destruct nu; reflexivity).
  unfold unroll8_rev_loop. apply fold_inv_length; [|exact Ha].
  intros b d Hb. now rewrite dec_body_length.
Qed.

Lemma decrypt_words_W c nu sk v :
  is_tf_cfg c -> length (nth (rounds c / 4) sk []) = n_w c -> length v = n_w c -> Forall W64 v ->
  Forall W64 (m_decrypt_words c nu sk v).
Proof.
  intros [R Hc] Hk Hl HW. unfold m_decrypt_words, decrypt_words.
  set (v1 := map2 sub64 v (nth (rounds c / 4) sk [])).
  assert (Hv1 : Inv W64 (n_w c) v1).
  { split; [unfold v1; rewrite map2_length; lia | apply map2_Forall; apply (subw_lt 64)]. }
  assert (Hstep : forall i a, Inv W64 (n_w c) a ->
            Inv W64 (n_w c) (unroll8_rev nu (dec_body sub64 N.lxor rotr64 c sk i) a)).
  { intros i a Ha.
    destruct Hc as [-> | [-> | ->]].
    - eapply (unroll_rt' add64 sub64 N.lxor rotl64 rotr64 W64); try laws; try exact Ha.
      intros; apply body_rt'_256; try laws; assumption.
    - eapply (unroll_rt' add64 sub64 N.lxor rotl64 rotr64 W64); try laws; try exact Ha.
      intros; apply body_rt'_512; try laws; assumption.
    - eapply (unroll_rt' add64 sub64 N.lxor rotl64 rotr64 W64); try laws; try exact Ha.
      intros; apply body_rt'_1024; try laws; assumption. }
  clearbody v1. generalize (rev (seq 0 (rounds c / 8))). intro l. revert v1 Hv1.
  induction l as [|i l IH]; intros v1 Hv1; simpl; [apply Hv1|].
  apply IH, Hstep, Hv1.
Qed.

(** * Byte level *)
Theorem threefish_decrypt_encrypt c nu key t0 t1 block :
  is_tf_cfg c -> length block = (8 * n_w c)%nat -> Forall is_byte block ->
  m_decrypt c nu key t0 t1 (m_encrypt c nu key t0 t1 block) = block.
Proof.
  intros Hc Hl Hb. unfold m_decrypt, m_encrypt.
  rewrite words_bytes_le by (try lia; apply encrypt_words_inv, last_row_length).
  rewrite words_decrypt_encrypt; auto using block_words, W64_words.
  apply bytes_words_le; auto; try lia.
  rewrite Hl, Nat.mul_comm. apply Nat.mod_mul. discriminate.
Qed.

Theorem threefish_encrypt_decrypt c nu key t0 t1 block :
  is_tf_cfg c -> length block = (8 * n_w c)%nat -> Forall is_byte block ->
  m_encrypt c nu key t0 t1 (m_decrypt c nu key t0 t1 block) = block.
Proof.
  intros Hc Hl Hb. unfold m_decrypt, m_encrypt.
  rewrite words_bytes_le
    by (try lia; apply decrypt_words_W; auto using block_words, W64_words, last_row_length).
  rewrite words_encrypt_decrypt; auto using block_words, W64_words.
  apply bytes_words_le; auto; try lia.
  rewrite Hl, Nat.mul_comm. apply Nat.mod_mul. discriminate.
Qed.

(** consequently each keyed transformation is injective on blocks *)
Corollary threefish_encrypt_injective c nu key t0 t1 b1 b2 :
  is_tf_cfg c -> length b1 = (8 * n_w c)%nat -> length b2 = (8 * n_w c)%nat ->
  Forall is_byte b1 -> Forall is_byte b2 ->
  m_encrypt c nu key t0 t1 b1 = m_encrypt c nu key t0 t1 b2 -> b1 = b2.
Proof.
  intros Hc H1 H2 F1 F2 E.
  rewrite <- (threefish_decrypt_encrypt c nu key t0 t1 b1), E by assumption.
  now apply threefish_decrypt_encrypt.
Qed.

Lemma std_cfg_256 : is_tf_cfg threefish256. Proof. exists R_256; auto. Qed.
Lemma std_cfg_512 : is_tf_cfg threefish512. Proof. exists R_512; auto. Qed.
Lemma std_cfg_1024 : is_tf_cfg threefish1024. Proof. exists R_1024; auto. Qed.

(** * Conformance (C09) at the 64-bit instance *)
Definition spec_of (c : cfg) : S.params :=
  if Nat.eqb (n_w c) 4 then S.tf256 else if Nat.eqb (n_w c) 8 then S.tf512 else S.tf1024.

Theorem threefish_encrypt_words_eq_spec c nu k t0 t1 v :
  c = threefish256 \/ c = threefish512 \/ c = threefish1024 ->
  length v = n_w c ->
  m_encrypt_words c nu (m_with_tweak c k t0 t1) v = S.spec_encrypt_words (spec_of c) k t0 t1 v.
Proof.
  intros [-> | [-> | ->]] Hl; unfold m_encrypt_words, m_with_tweak, S.spec_encrypt_words;
    cbn [spec_of n_w threefish256 threefish512 threefish1024 Nat.eqb].
  - apply (model_eq_spec_words add64 N.lxor rotl64 C240 threefish256 S.tf256);
      auto using corr_256.
  - apply (model_eq_spec_words add64 N.lxor rotl64 C240 threefish512 S.tf512);
      auto using corr_512.
  - apply (model_eq_spec_words add64 N.lxor rotl64 C240 threefish1024 S.tf1024);
      auto using corr_1024.
Qed.

Theorem threefish_encrypt_eq_spec c nu key t0 t1 block :
  c = threefish256 \/ c = threefish512 \/ c = threefish1024 ->
  length block = (8 * n_w c)%nat ->
  m_encrypt c nu key t0 t1 block = S.spec_encrypt (spec_of c) key t0 t1 block.
Proof.
  intros Hc Hl. unfold m_encrypt, S.spec_encrypt. f_equal.
  apply threefish_encrypt_words_eq_spec; [exact Hc|].
  rewrite words_le_length by lia. rewrite Hl, Nat.mul_comm. apply Nat.div_mul. discriminate.
Qed.

(** the [no_unroll] feature does not change the function *)
Theorem threefish_unroll_irrelevant c key t0 t1 block :
  m_encrypt c true key t0 t1 block = m_encrypt c false key t0 t1 block
  /\ m_decrypt c true key t0 t1 block = m_decrypt c false key t0 t1 block.
Proof.
  assert (E1 : unroll8_loop = unroll8_unrolled) by reflexivity.
  assert (E2 : unroll8_rev_loop = unroll8_rev_unrolled) by reflexivity.
  unfold m_encrypt, m_decrypt, m_encrypt_words, m_decrypt_words, encrypt_words, decrypt_words,
    unroll8, unroll8_rev.
  rewrite E1, E2. split; reflexivity.
Qed.
