(** JH: the bit-sliced S-box layer, linear layer and swaps of compressor.rs act
    on every bit position (column) independently, as the S-boxes and L of the
    specification on the nibbles read down the columns. *)
From Coq Require Import NArith List Arith Bool Lia.
From CC Require Import Lib.Words Lib.Bytes Lib.ListX Model.JH.
From CC Require Spec.JH.
Import ListNotations.
Local Open Scope N_scope.

Notation nib := Spec.JH.nib.
Notation sbox := Spec.JH.sbox.
Notation L := Spec.JH.L.

(** * one bit position of [ss] and [l] *)

(** the S-box circuit of [ss] on one lane, one bit position; [m0] is the most
    significant bit of the nibble, [k] the round-constant bit *)
Definition sbox_b (k m0 m1 m2 m3 : bool) : bool * bool * bool * bool :=
  let m3 := negb m3 in
  let m0 := xorb m0 (negb m2 && k) in
  let k := xorb k (m0 && m1) in
  let m0 := xorb m0 (m3 && m2) in
  let m3 := xorb m3 (negb m1 && m2) in
  let m1 := xorb m1 (m0 && m2) in
  let m2 := xorb m2 (negb m3 && m0) in
  let m0 := xorb m0 (m1 || m3) in
  let m3 := xorb m3 (m1 && m2) in
  let m2 := xorb m2 k in
  let m1 := xorb m1 (k && m0) in
  (m0, m1, m2, m3).

Definition nib4 (t : bool * bool * bool * bool) : N :=
  let '(b3, b2, b1, b0) := t in nib b3 b2 b1 b0.

Lemma sbox_b_eq_sbox k m0 m1 m2 m3 :
  nib4 (sbox_b k m0 m1 m2 m3) = sbox k (nib m0 m1 m2 m3).
Proof. destruct k, m0, m1, m2, m3; vm_compute; reflexivity. Qed.

(** the linear layer [l] on one bit position of the eight registers *)
Definition l_b (a0 a1 a2 a3 a4 a5 a6 a7 : bool) :=
  let a1 := xorb a1 a2 in
  let a3 := xorb a3 a4 in
  let a5 := xorb a5 (xorb a6 a0) in
  let a7 := xorb a7 a0 in
  let a0 := xorb a0 a3 in
  let a2 := xorb a2 a5 in
  let a4 := xorb a4 (xorb a7 a1) in
  let a6 := xorb a6 a1 in
  ((a0, a2, a4, a6), (a1, a3, a5, a7)).

Lemma l_b_eq_L a0 a1 a2 a3 a4 a5 a6 a7 :
  (nib4 (fst (l_b a0 a1 a2 a3 a4 a5 a6 a7)), nib4 (snd (l_b a0 a1 a2 a3 a4 a5 a6 a7)))
  = L (nib a0 a2 a4 a6) (nib a1 a3 a5 a7).
Proof. destruct a0, a1, a2, a3, a4, a5, a6, a7; vm_compute; reflexivity. Qed.

Lemma ones128_bit j : j < 128 -> N.testbit ones128 j = true.
Proof. intros H. unfold ones128. apply N.ones_spec_low. exact H. Qed.

Lemma not128_bit x j : j < 128 -> N.testbit (not128 x) j = negb (N.testbit x j).
Proof.
  intros H. unfold not128. rewrite N.lxor_spec, ones128_bit by exact H.
  destruct (N.testbit x j); reflexivity.
Qed.

Lemma andnot128_bit a b j : j < 128 ->
  N.testbit (andnot128 a b) j = negb (N.testbit a j) && N.testbit b j.
Proof. intros H. unfold andnot128. rewrite N.land_spec, not128_bit by exact H. reflexivity. Qed.

Definition tb (j : N) (x : N) : bool := N.testbit x j.

(** bit [j] of the outputs of [ss] is the S-box circuit on bit [j] of the inputs *)
Lemma ss_bitwise s k j : j < 128 ->
  let o := ss s k in
  (tb j (y0 o), tb j (y2 o), tb j (y4 o), tb j (y6 o))
    = sbox_b (tb j (fst k)) (tb j (y0 s)) (tb j (y2 s)) (tb j (y4 s)) (tb j (y6 s))
  /\ (tb j (y1 o), tb j (y3 o), tb j (y5 o), tb j (y7 o))
    = sbox_b (tb j (snd k)) (tb j (y1 s)) (tb j (y3 s)) (tb j (y5 s)) (tb j (y7 s)).
Proof.
  intros H. destruct s as [a0 a1 a2 a3 a4 a5 a6 a7], k as [k0 k1].
  unfold ss, sbox_b, tb, xor2, and2, or2, not2, andnot2.
  cbn [y0 y1 y2 y3 y4 y5 y6 y7 fst snd].
  repeat (rewrite ?N.lxor_spec, ?N.land_spec, ?N.lor_spec, ?(andnot128_bit _ _ j H), ?(not128_bit _ j H)).
  split; reflexivity.
Qed.

Lemma l_bitwise y j :
  let o := l y in
  ((tb j (y0 o), tb j (y2 o), tb j (y4 o), tb j (y6 o)),
   (tb j (y1 o), tb j (y3 o), tb j (y5 o), tb j (y7 o)))
  = l_b (tb j (y0 y)) (tb j (y1 y)) (tb j (y2 y)) (tb j (y3 y))
        (tb j (y4 y)) (tb j (y5 y)) (tb j (y6 y)) (tb j (y7 y)).
Proof.
  destruct y as [a0 a1 a2 a3 a4 a5 a6 a7]. unfold l, l_b, tb.
  cbn [y0 y1 y2 y3 y4 y5 y6 y7]. rewrite !N.lxor_spec. reflexivity.
Qed.

(** * [swapk k] moves bit [j] to bit [j xor 2^k] *)
Definition swap_idx_ok (k : nat) (j : N) : bool :=
  let n := swap_amount k in
  if N.testbit j (N.of_nat k)
  then (n <=? j) && N.testbit (swap_lo k) (j - n) && negb (N.testbit (swap_hi k) (j + n))
       && (j - n =? N.lxor j n)
  else negb ((n <=? j) && N.testbit (swap_lo k) (j - n)) && N.testbit (swap_hi k) (j + n)
       && (j + n =? N.lxor j n).

Lemma swap_idx_all :
  forallb (fun k => forallb (fun j => swap_idx_ok k (N.of_nat j)) (seq 0 128)) (seq 0 7) = true.
Proof. vm_compute. reflexivity. Qed.

Lemma swap_idx k j : (k < 7)%nat -> j < 128 -> swap_idx_ok k j = true.
Proof.
  intros Hk Hj. pose proof swap_idx_all as A. rewrite forallb_forall in A.
  specialize (A k). rewrite forallb_forall in A.
  rewrite <- (N2Nat.id j). apply A.
  - apply in_seq. lia.
  - apply in_seq. lia.
Qed.

Lemma swapk_bit k x j : (k < 7)%nat -> j < 128 ->
  N.testbit (swapk k x) j = N.testbit x (N.lxor j (swap_amount k)).
Proof.
  intros Hk Hj. pose proof (swap_idx k j Hk Hj) as A. unfold swap_idx_ok in A.
  unfold swapk. set (n := swap_amount k) in *.
  rewrite N.lor_spec, N.shiftr_spec', N.land_spec.
  destruct (N.testbit j (N.of_nat k)).
  - apply andb_prop in A. destruct A as [A E]. apply andb_prop in A. destruct A as [A Hh].
    apply andb_prop in A. destruct A as [Hle Hl].
    apply N.leb_le in Hle. apply N.eqb_eq in E. apply negb_true_iff in Hh.
    rewrite N.shiftl_spec_high' by exact Hle. rewrite N.land_spec, Hl, Hh, <- E.
    rewrite !andb_true_r, andb_false_r, orb_false_r. reflexivity.
  - apply andb_prop in A. destruct A as [A E]. apply andb_prop in A. destruct A as [Hl Hh].
    apply N.eqb_eq in E. apply negb_true_iff in Hl. rewrite Hh, <- E, andb_true_r.
    destruct (N.leb_spec n j) as [Hle|Hlt].
    + rewrite N.shiftl_spec_high' by exact Hle. rewrite N.land_spec.
      cbn [andb] in Hl. rewrite Hl, andb_false_r. reflexivity.
    + rewrite N.shiftl_spec_low by exact Hlt. reflexivity.
Qed.

(** * columns: the state as 128 pairs of nibbles

    Column [c] (0..127, the specification's most-significant-bit-first numbering
    inside a 16-byte register) is bit [c xor 7] of the little-endian 128-bit word. *)
Definition bitn (x : N) (c : N) : bool := N.testbit x (N.lxor c 7).
Definition colE (y : x8) (c : N) : N := nib (bitn (y0 y) c) (bitn (y2 y) c) (bitn (y4 y) c) (bitn (y6 y) c).
Definition colO (y : x8) (c : N) : N := nib (bitn (y1 y) c) (bitn (y3 y) c) (bitn (y5 y) c) (bitn (y7 y) c).

Lemma lxor7_lt c : c < 128 -> N.lxor c 7 < 128.
Proof. intros H. apply (lxor_lt 7); [exact H | reflexivity]. Qed.

(** S-box layer + linear layer on one column *)
Lemma sl_column y rc c : c < 128 ->
  (colE (l (ss y rc)) c, colO (l (ss y rc)) c)
  = L (sbox (bitn (fst rc) c) (colE y c)) (sbox (bitn (snd rc) c) (colO y c)).
Proof.
  intros Hc. pose proof (lxor7_lt c Hc) as Hj. set (j := N.lxor c 7) in *.
  unfold colE, colO, bitn. fold j.
  pose proof (ss_bitwise y rc j Hj) as Hs. cbv zeta in Hs. destruct Hs as [He Ho].
  set (s := ss y rc) in *.
  pose proof (l_bitwise s j) as Hl. cbv zeta in Hl.
  set (o := l s) in *.
  change ((nib4 (fst ((tb j (y0 o), tb j (y2 o), tb j (y4 o), tb j (y6 o)),
                     (tb j (y1 o), tb j (y3 o), tb j (y5 o), tb j (y7 o)))),
          nib4 (snd ((tb j (y0 o), tb j (y2 o), tb j (y4 o), tb j (y6 o)),
                     (tb j (y1 o), tb j (y3 o), tb j (y5 o), tb j (y7 o)))))
          = L (sbox (tb j (fst rc)) (nib4 (tb j (y0 y), tb j (y2 y), tb j (y4 y), tb j (y6 y))))
              (sbox (tb j (snd rc)) (nib4 (tb j (y1 y), tb j (y3 y), tb j (y5 y), tb j (y7 y))))).
  rewrite Hl, l_b_eq_L.
  change (nib (tb j (y0 s)) (tb j (y2 s)) (tb j (y4 s)) (tb j (y6 s)))
    with (nib4 (tb j (y0 s), tb j (y2 s), tb j (y4 s), tb j (y6 s))).
  change (nib (tb j (y1 s)) (tb j (y3 s)) (tb j (y5 s)) (tb j (y7 s)))
    with (nib4 (tb j (y1 s), tb j (y3 s), tb j (y5 s), tb j (y7 s))).
  rewrite He, Ho, !sbox_b_eq_sbox. reflexivity.
Qed.

(** the whole round body of [unroll7!] on columns: the even registers stay, the
    odd registers are read from column [c xor 2^k] *)
Lemma lxor_swap c n : N.lxor (N.lxor c 7) n = N.lxor (N.lxor c n) 7.
Proof. rewrite !N.lxor_assoc. f_equal. apply N.lxor_comm. Qed.

Lemma round_column k rc y c : (k < 7)%nat -> c < 128 ->
  let c' := N.lxor c (swap_amount k) in
  colE (round k rc y) c = fst (L (sbox (bitn (fst rc) c) (colE y c)) (sbox (bitn (snd rc) c) (colO y c)))
  /\ colO (round k rc y) c = snd (L (sbox (bitn (fst rc) c') (colE y c')) (sbox (bitn (snd rc) c') (colO y c'))).
Proof.
  intros Hk Hc c'.
  assert (Hc' : c' < 128).
  { apply (lxor_lt 7); [exact Hc|]. destruct k as [|[|[|[|[|[|[|k]]]]]]]; try reflexivity; lia. }
  rewrite <- (sl_column y rc c Hc), <- (sl_column y rc c' Hc'). cbn [fst snd].
  unfold round. set (o := l (ss y rc)). unfold colE, colO, bitn. cbn [y0 y1 y2 y3 y4 y5 y6 y7].
  split; [reflexivity|].
  rewrite !(swapk_bit k _ _ Hk (lxor7_lt c Hc)). unfold c'. rewrite !lxor_swap. reflexivity.
Qed.

(** * the two statements in the form used by Props/C06.v *)
Lemma ss_bitwise_eq_sbox s k j : j < 128 ->
  nib (N.testbit (y0 (ss s k)) j) (N.testbit (y2 (ss s k)) j) (N.testbit (y4 (ss s k)) j) (N.testbit (y6 (ss s k)) j)
  = sbox (N.testbit (fst k) j) (nib (N.testbit (y0 s) j) (N.testbit (y2 s) j) (N.testbit (y4 s) j) (N.testbit (y6 s) j))
  /\
  nib (N.testbit (y1 (ss s k)) j) (N.testbit (y3 (ss s k)) j) (N.testbit (y5 (ss s k)) j) (N.testbit (y7 (ss s k)) j)
  = sbox (N.testbit (snd k) j) (nib (N.testbit (y1 s) j) (N.testbit (y3 s) j) (N.testbit (y5 s) j) (N.testbit (y7 s) j)).
Proof.
  intros H. pose proof (ss_bitwise s k j H) as B. cbv zeta in B. destruct B as [He Ho].
  set (o := ss s k) in *. split.
  - change (nib4 (tb j (y0 o), tb j (y2 o), tb j (y4 o), tb j (y6 o))
            = sbox (tb j (fst k)) (nib (tb j (y0 s)) (tb j (y2 s)) (tb j (y4 s)) (tb j (y6 s)))).
    rewrite He. apply sbox_b_eq_sbox.
  - change (nib4 (tb j (y1 o), tb j (y3 o), tb j (y5 o), tb j (y7 o))
            = sbox (tb j (snd k)) (nib (tb j (y1 s)) (tb j (y3 s)) (tb j (y5 s)) (tb j (y7 s)))).
    rewrite Ho. apply sbox_b_eq_sbox.
Qed.

Lemma l_bitwise_eq_L y j :
  (nib (N.testbit (y0 (l y)) j) (N.testbit (y2 (l y)) j) (N.testbit (y4 (l y)) j) (N.testbit (y6 (l y)) j),
   nib (N.testbit (y1 (l y)) j) (N.testbit (y3 (l y)) j) (N.testbit (y5 (l y)) j) (N.testbit (y7 (l y)) j))
  = L (nib (N.testbit (y0 y) j) (N.testbit (y2 y) j) (N.testbit (y4 y) j) (N.testbit (y6 y) j))
      (nib (N.testbit (y1 y) j) (N.testbit (y3 y) j) (N.testbit (y5 y) j) (N.testbit (y7 y) j)).
Proof.
  pose proof (l_bitwise y j) as B. cbv zeta in B. set (o := l y) in *.
  change ((nib4 (fst ((tb j (y0 o), tb j (y2 o), tb j (y4 o), tb j (y6 o)),
                      (tb j (y1 o), tb j (y3 o), tb j (y5 o), tb j (y7 o)))),
           nib4 (snd ((tb j (y0 o), tb j (y2 o), tb j (y4 o), tb j (y6 o)),
                      (tb j (y1 o), tb j (y3 o), tb j (y5 o), tb j (y7 o)))))
          = L (nib (tb j (y0 y)) (tb j (y2 y)) (tb j (y4 y)) (tb j (y6 y)))
              (nib (tb j (y1 y)) (tb j (y3 y)) (tb j (y5 y)) (tb j (y7 y)))).
  rewrite B. apply l_b_eq_L.
Qed.

(** non-vacuity: constant bit 1 selects S1, and S1(8) = 15 *)
Example ss_example :
  let o := ss (X8 1 0 0 0 0 0 0 0) (1, 0) in
  nib (N.testbit (y0 o) 0) (N.testbit (y2 o) 0) (N.testbit (y4 o) 0) (N.testbit (y6 o) 0) = 15.
Proof. vm_compute. reflexivity. Qed.
