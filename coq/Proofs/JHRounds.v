(** JH: the 42 rounds of [e8] are the 42 rounds of the specification. *)
From Coq Require Import NArith List Arith Bool Lia.
From CC Require Import Lib.Words Lib.Bytes Lib.ListX Model.JH.
From CC Require Spec.JH.
From CC Require Import Proofs.JHBits Proofs.JHRound.
Import ListNotations.
Local Open Scope N_scope.

(** the specification's S-box/L layer in the generic form *)
Lemma sl_layer_eq_g : forall n a c, (length a <= n)%nat ->
  Spec.JH.sl_layer a c = sl_layer_g sbox L a c.
Proof.
  induction n as [|n IH]; intros a c Hn.
  - destruct a as [|x a]. + reflexivity. + cbn [length] in Hn. lia.
  - destruct a as [|x [|y a]]; [reflexivity|reflexivity|].
    destruct c as [|cx [|cy c]]; [reflexivity|reflexivity|].
    cbn [Spec.JH.sl_layer sl_layer_g]. destruct (L (sbox cx x) (sbox cy y)) as [u v].
    cbn [fst snd]. rewrite (IH a c) by (cbn [length] in Hn; lia). reflexivity.
Qed.
Lemma R_eq_g a c : Spec.JH.R a c = R_g sbox L a c.
Proof. unfold Spec.JH.R, R_g. rewrite (sl_layer_eq_g (length a) a c (le_n _)). reflexivity. Qed.

(** the columns of a state and of a round constant *)
Definition cols (y : x8) : list (N * N) :=
  map (fun c => (colE y (N.of_nat c), colO y (N.of_nat c))) (seq 0 128).
Definition kcols (rc : x2) : list (bool * bool) :=
  map (fun c => (bitn (fst rc) (N.of_nat c), bitn (snd rc) (N.of_nat c))) (seq 0 128).
Lemma cols_length y : length (cols y) = 128%nat.
Proof. unfold cols. rewrite map_length, seq_length. reflexivity. Qed.

Lemma lxor_lt128 c k : c < 128 -> (k < 7)%nat -> N.lxor c (swap_amount k) < 128.
Proof.
  intros Hc Hk. apply (lxor_lt 7); [exact Hc|].
  destruct k as [|[|[|[|[|[|[|k]]]]]]]; try reflexivity; lia.
Qed.

(** the round body of [unroll7!] on columns *)
Lemma cols_round k rc y : (k < 7)%nat ->
  cols (round k rc y) = round_cols sbox L k (cols y) (kcols rc).
Proof.
  intros Hk. unfold round_cols, swap_cols, cols at 1.
  apply map_ext_in. intros c Hc. apply in_seq in Hc.
  assert (HcN : N.of_nat c < 128) by lia.
  pose proof (lxor_lt128 _ k HcN Hk) as Hc'.
  destruct (round_column k rc y (N.of_nat c) Hk HcN) as [He Ho]. cbv zeta in Ho.
  set (c' := N.lxor (N.of_nat c) (swap_amount k)) in *.
  assert (Hn : forall d, (d < 128)%nat ->
    nth d (sl_cols sbox L (cols y) (kcols rc)) (0, 0)
    = L (sbox (bitn (fst rc) (N.of_nat d)) (colE y (N.of_nat d)))
        (sbox (bitn (snd rc) (N.of_nat d)) (colO y (N.of_nat d)))).
  { intros d Hd. unfold sl_cols. rewrite nth_map_seq by exact Hd. cbv zeta.
    unfold cols, kcols. rewrite !nth_map_seq by exact Hd. reflexivity. }
  rewrite (Hn c) by lia. rewrite (Hn (N.to_nat c')) by lia. rewrite N2Nat.id.
  rewrite He, Ho. reflexivity.
Qed.

(** * round constants: each of the 42 table entries is the generated constant
    of its round, brought to columns by the position map of the round *)
Lemma constants_eq_spec r : (r < 42)%nat ->
  kcols (nth r rc_table (0, 0)) = kc_of (r mod 7) (nth r Spec.JH.round_consts []).
Proof. intros H. do 42 (destruct r as [|r]; [vm_compute; reflexivity|]). lia. Qed.

Lemma round_consts_length r : (r < 42)%nat -> length (nth r Spec.JH.round_consts []) = 256%nat.
Proof. intros H. do 42 (destruct r as [|r]; [reflexivity|]). lia. Qed.

(** * one round *)
Lemma posT_S r : posT (S (r mod 7)) = posT (S r mod 7).
Proof.
  pose proof (Nat.mod_upper_bound r 7 ltac:(lia)) as U.
  pose proof (Nat.div_mod r 7 ltac:(lia)) as D.
  destruct (Nat.eq_dec (r mod 7) 6) as [E|E].
  - rewrite E, posT_7. replace (S r) with (0 + (S (r / 7)) * 7)%nat by lia.
    rewrite Nat.mod_add by lia. reflexivity.
  - replace (S r) with (S (r mod 7) + (r / 7) * 7)%nat by lia.
    rewrite Nat.mod_add by lia. rewrite (Nat.mod_small (S (r mod 7))) by lia. reflexivity.
Qed.

Lemma round_eq_spec r y : (r < 42)%nat ->
  Spec.JH.R (gather (posT (r mod 7)) (cols y)) (nth r Spec.JH.round_consts [])
  = gather (posT (S r mod 7)) (cols (round (r mod 7) (nth r rc_table (0, 0)) y)).
Proof.
  intros Hr. pose proof (Nat.mod_upper_bound r 7 ltac:(lia)) as U.
  rewrite R_eq_g, (round_sym sbox L (r mod 7) U _ _ (cols_length y) (round_consts_length r Hr)).
  rewrite <- (constants_eq_spec r Hr), <- (cols_round _ _ _ U), posT_S. reflexivity.
Qed.

(** * 42 rounds *)
Fixpoint rounds_from (r : nat) (t : list x2) (y : x8) : x8 :=
  match t with [] => y | rc :: t' => rounds_from (S r) t' (round (r mod 7) rc y) end.

Lemma e8_flat y : e8 y = rounds_from 0 rc_table y.
Proof. Local Opaque round. lazy. reflexivity. Qed.

Lemma skipn_nth {A} (l : list A) d : forall r, (r < length l)%nat ->
  skipn r l = nth r l d :: skipn (S r) l.
Proof.
  induction l as [|x l IH]; intros r Hr; [cbn [length] in Hr; lia|].
  destruct r as [|r]; [reflexivity|]. cbn [length] in Hr.
  change (skipn (S r) (x :: l)) with (skipn r l). change (nth (S r) (x :: l) d) with (nth r l d).
  change (skipn (S (S r)) (x :: l)) with (skipn (S r) l). apply IH. lia.
Qed.

Lemma rounds_eq_spec_from : forall n r y, (r + n = 42)%nat ->
  fold_left Spec.JH.R (skipn r Spec.JH.round_consts) (gather (posT (r mod 7)) (cols y))
  = gather (posT 0) (cols (rounds_from r (skipn r rc_table) y)).
Proof.
  induction n as [|n IH]; intros r y E.
  - assert (r = 42)%nat by lia. subst r. reflexivity.
  - assert (Hr : (r < 42)%nat) by lia.
    rewrite (skipn_nth Spec.JH.round_consts [] r) by exact Hr.
    rewrite (skipn_nth rc_table (0, 0) r) by exact Hr.
    cbn [fold_left rounds_from]. rewrite (round_eq_spec r y Hr). apply IH. lia.
Qed.

Theorem e8_eq_spec y :
  Spec.JH.rounds8 (gather (posT 0) (cols y)) = gather (posT 0) (cols (e8 y)).
Proof. rewrite e8_flat. exact (rounds_eq_spec_from 42 0 y eq_refl). Qed.
