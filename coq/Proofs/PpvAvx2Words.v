(** C12 for [u32x4x2_avx2] (one 256-bit register = 8 words in two 128-bit lanes). *)
From Coq Require Import NArith List Lia Bool Arith.
From CC Require Import Lib.Words Lib.Bytes Lib.ListX Model.Intrinsics Model.PpvAvx2 Spec.Lanes
  Proofs.IntrinsicsLemmas Proofs.PpvSseWords.
Import ListNotations.
Local Open Scope N_scope.

(** * per-lane word permutations commute with [map] *)
Lemma lanes4_map {A B} (g : A -> B) n l : lanes4 n (map g l) = map (map g) (lanes4 n l).
Proof.
  revert l. induction n as [|n IH]; intros l; [reflexivity|].
  destruct l as [|a [|b [|c [|d l]]]]; try reflexivity. cbn [map lanes4]. now rewrite IH.
Qed.
Lemma per_lane4_map (f : forall A, list A -> list A) :
  (forall A B (g : A -> B) l, f B (map g l) = map g (f A l)) ->
  forall A B (g : A -> B) l, per_lane4 (f B) (map g l) = map g (per_lane4 (f A) l).
Proof.
  intros Hf A B g l. unfold per_lane4. rewrite map_length, lanes4_map, map_map, concat_map, map_map.
  f_equal. apply map_ext. intros. apply Hf.
Qed.
Lemma lanes4_Forall {A} (P : A -> Prop) n l : Forall P l -> Forall (Forall P) (lanes4 n l).
Proof.
  revert l. induction n as [|n IH]; intros l H; [constructor|].
  destruct l as [|a [|b [|c [|d l]]]]; try constructor.
  - repeat match goal with Hf : Forall _ (_ :: _) |- _ => inversion Hf; clear Hf; subst end.
    repeat constructor; assumption.
  - apply IH. now repeat match goal with Hf : Forall _ (_ :: _) |- _ => inversion Hf; clear Hf; subst end.
Qed.
Lemma Forall_concat {A} (P : A -> Prop) ls : Forall (Forall P) ls -> Forall P (concat ls).
Proof. induction 1; cbn; [constructor|]. now apply Forall_app. Qed.
Lemma per_lane4_Forall (f : forall A, list A -> list A) :
  (forall A (P : A -> Prop) l, Forall P l -> Forall P (f A l)) ->
  forall A (P : A -> Prop) l, Forall P l -> Forall P (per_lane4 (f A) l).
Proof.
  intros Hf A P l H. unfold per_lane4. apply Forall_concat.
  pose proof (lanes4_Forall P (length l) l H) as HL.
  induction HL; cbn; constructor; auto.
Qed.

(** * u32x4x2_avx2: 32-byte register, 8 words *)
Theorem avx2_add_lanewise a b : wf 32 a -> wf 32 b ->
  avx2_add a b = bytes_le 4 (v_add 32 (words_le 4 a) (words_le 4 b)).
Proof.
  apply (lift2 4 32 avx2_add (v_add 32)); [lia|reflexivity|].
  intros. unfold avx2_add, mm_add_epi32. apply lanes_map2_bytes; [lia|assumption|assumption].
Qed.

Lemma ff32 : mm256_set1_epi8 0xff = repeat 255 32.
Proof. reflexivity. Qed.

Theorem avx2_bitops_lanewise a b : wf 32 a -> wf 32 b ->
  avx2_xor a b = bytes_le 4 (v_xor (words_le 4 a) (words_le 4 b)) /\
  avx2_and a b = bytes_le 4 (v_and (words_le 4 a) (words_le 4 b)) /\
  avx2_or a b = bytes_le 4 (v_or (words_le 4 a) (words_le 4 b)) /\
  avx2_not a = bytes_le 4 (v_not 32 (words_le 4 a)) /\
  avx2_andnot a b = bytes_le 4 (v_andnot 32 (words_le 4 a) (words_le 4 b)).
Proof.
  intros Ha Hb. repeat split.
  - revert a b Ha Hb. apply (lift2 4 32 avx2_xor v_xor); [lia|reflexivity|].
    intros. apply bytes_le_lxor. congruence.
  - revert a b Ha Hb. apply (lift2 4 32 avx2_and v_and); [lia|reflexivity|].
    intros. apply bytes_le_land. congruence.
  - revert a b Ha Hb. apply (lift2 4 32 avx2_or v_or); [lia|reflexivity|].
    intros. apply bytes_le_lor. congruence.
  - revert a Ha. apply (lift1 4 32 avx2_not (v_not 32)); [lia|reflexivity|]. intros ws Hw Hl.
    unfold avx2_not, avx2_xor, mm_xor. rewrite ff32.
    rewrite map2_repeat_l by (rewrite bytes_le_length, Hl; reflexivity).
    rewrite (map_ext _ (fun b => N.lxor b 255)) by (intros; apply N.lxor_comm).
    rewrite bytes_le_not. f_equal. unfold v_not. apply map_ext_in. intros x Hx.
    apply (notw_word 4). rewrite Forall_forall in Hw. now apply Hw.
  - revert a b Ha Hb. apply (lift2 4 32 avx2_andnot (v_andnot 32)); [lia|reflexivity|].
    intros ws vs Hw Hl Hv Hl'.
    unfold avx2_andnot, mm_andnot. rewrite <- (map2_map_l N.land (fun x => N.lxor x 255)).
    rewrite bytes_le_not, bytes_le_land by (rewrite map_length; congruence).
    f_equal. rewrite map2_map_l. unfold v_andnot.
    apply (map2_ext_Forall (is_wordk 4)); [|assumption]. intros x y Hx. now rewrite (notw_word 4).
Qed.

Lemma avx2_rotr_32_lanewise i x : wf 32 x -> avx2_rotr_32 i x = bytes_le 4 (v_rotr 32 i (words_le 4 x)).
Proof.
  apply (lift1 4 32 (avx2_rotr_32 i) (v_rotr 32 i)); [lia|reflexivity|]. intros ws Hw _.
  apply (shift_or_rotr 4 i ws); [lia|assumption].
Qed.

Ltac byte_rot32 j :=
  match goal with
  | Hx : wf 32 ?x |- _ = bytes_le _ (v_rotr ?w ?r _) =>
      change w with (8 * N.of_nat 4);
      rewrite (v_rotr_bytes 4 j r 32 x Hx) by (try lia; reflexivity);
      bytes_of x; reflexivity
  end.

Theorem avx2_rotr_lanewise k x :
  In k [7; 8; 11; 12; 16; 20; 24; 25] -> wf 32 x ->
  avx2_rotr k x = bytes_le 4 (v_rotr 32 k (words_le 4 x)).
Proof.
  intros Hk Hx. cbn [In] in Hk;
    repeat (destruct Hk as [<-|Hk]; [cbn [avx2_rotr]; try apply avx2_rotr_32_lanewise; try assumption|]);
    try contradiction.
  - byte_rot32 1%nat.
  - byte_rot32 2%nat.
  - byte_rot32 3%nat.
Qed.

Theorem avx2_bswap_lanewise x : wf 32 x ->
  avx2_bswap x = bytes_le 4 (v_bswap 32 (words_le 4 x)).
Proof.
  intros Hx. change 32 with (8 * N.of_nat 4). rewrite (v_bswap_bytes 4 32 x Hx).
  bytes_of x. reflexivity.
Qed.

Theorem avx2_lane_shuffle_is_perm x : wf 32 x ->
  avx2_shuffle_lane_words1230 x = bytes_le 4 (per_lane4 shuffle1230 (words_le 4 x)) /\
  avx2_shuffle_lane_words2301 x = bytes_le 4 (per_lane4 shuffle2301 (words_le 4 x)) /\
  avx2_shuffle_lane_words3012 x = bytes_le 4 (per_lane4 shuffle3012 (words_le 4 x)).
Proof.
  intros Hx.
  rewrite (v_perm_bytes 4 32 x (fun A => per_lane4 (@shuffle1230 A))
             (per_lane4_map (@shuffle1230) shuffle1230_map)
             (per_lane4_Forall (@shuffle1230) shuffle1230_Forall) Hx).
  rewrite (v_perm_bytes 4 32 x (fun A => per_lane4 (@shuffle2301 A))
             (per_lane4_map (@shuffle2301) shuffle2301_map)
             (per_lane4_Forall (@shuffle2301) shuffle2301_Forall) Hx).
  rewrite (v_perm_bytes 4 32 x (fun A => per_lane4 (@shuffle3012 A))
             (per_lane4_map (@shuffle3012) shuffle3012_map)
             (per_lane4_Forall (@shuffle3012) shuffle3012_Forall) Hx).
  bytes_of x. repeat split; reflexivity.
Qed.
