(** The wide and tail loops of [Buffer::try_apply_keystream] against the raw block stream
    [rawblock q = blk (stA s0 q)], for block producers specified by [blk]. *)
From Coq Require Import NArith ZArith List Lia Arith Bool ZifyBool ZifyN ZifyNat.
From CC Require Import Lib.Words Lib.Bytes Lib.ListX Model.ChaChaGuts Model.ChaChaStream Proofs.ChaChaStreamCtr.
Import ListNotations.
Ltac Zify.zify_post_hook ::= Z.div_mod_to_equations.
Local Open Scope N_scope.

(** * list facts *)
Lemma xor_bytes_length a b : length (xor_bytes a b) = Nat.min (length a) (length b).
Proof. revert b; induction a as [|x a IH]; intros [|y b]; cbn [xor_bytes length Nat.min]; rewrite ?IH; auto. Qed.

Lemma xor_bytes_nil_r a : xor_bytes a [] = [].
Proof. destruct a; reflexivity. Qed.

(** xor against [b ++ r], split at [length b] *)
Lemma xor_bytes_split b : forall d r,
  xor_bytes (firstn (length b) d) b ++ xor_bytes (skipn (length b) d) r = xor_bytes d (b ++ r).
Proof.
  induction b as [|y b IH]; intros d r.
  - cbn [length firstn skipn xor_bytes app]. reflexivity.
  - destruct d as [|x d]; cbn [length firstn skipn xor_bytes app]; [reflexivity|].
    rewrite IH. reflexivity.
Qed.

Lemma xor_bytes_app a1 a2 b1 b2 : length a1 = length b1 ->
  xor_bytes (a1 ++ a2) (b1 ++ b2) = xor_bytes a1 b1 ++ xor_bytes a2 b2.
Proof.
  intros H. rewrite <- (xor_bytes_split b1 (a1 ++ a2) b2).
  rewrite <- H, firstn_app, skipn_app, Nat.sub_diag, firstn_all, skipn_all. cbn [firstn skipn app].
  rewrite app_nil_r. reflexivity.
Qed.

(** only the first [length a] bytes of the key stream matter *)
Lemma xor_bytes_firstn_r a : forall b n, (length a <= n)%nat -> xor_bytes a (firstn n b) = xor_bytes a b.
Proof.
  induction a as [|x a IH]; intros b n H; [reflexivity|].
  destruct n as [|n]; [cbn [length] in H; lia|].
  destruct b as [|y b]; cbn [firstn xor_bytes]; [reflexivity|].
  rewrite IH by (cbn [length] in H; lia). reflexivity.
Qed.

Lemma firstn_add {A} a b (l : list A) : firstn (a + b) l = firstn a l ++ firstn b (skipn a l).
Proof.
  revert l; induction a as [|a IH]; intros l; [reflexivity|].
  destruct l as [|x l]; cbn [Nat.add firstn skipn app]; [destruct b; reflexivity|].
  rewrite IH. reflexivity.
Qed.

Section Loops.
  Variable refill1 : chacha -> list N * chacha.
  Variable refill4 : chacha -> list N * chacha.
  Variable blk : chacha -> list N.
  Variable s0 : chacha.
  Hypothesis s0_len : length (cd s0) = 4%nat.
  (** the producers are specified on the states of the stream only ([stA s0 q]: nothing else is ever passed to them) *)
  Hypothesis blk_len : forall q, length (blk (stA s0 q)) = 64%nat.
  Hypothesis refill1_spec : forall q, refill1 (stA s0 q) = (blk (stA s0 q), stA s0 (q + 1)).
  Hypothesis refill4_spec : forall q,
    refill4 (stA s0 q) = (blk (stA s0 q) ++ blk (stA s0 (q + 1)) ++ blk (stA s0 (q + 2)) ++ blk (stA s0 (q + 3)),
                          stA s0 (q + 4)).
  Set Default Proof Using "All".

  Definition rawblock (q : N) : list N := blk (stA s0 q).

  Fixpoint rawstream (q : N) (m : nat) : list N :=
    match m with
    | O => []
    | S k => rawblock q ++ rawstream (q + 1) k
    end.

  Lemma rawblock_length q : length (rawblock q) = 64%nat.
  Proof. apply blk_len. Qed.

  Lemma rawstream_length m : forall q, length (rawstream q m) = (64 * m)%nat.
  Proof.
    induction m as [|m IH]; intros q; [reflexivity|].
    cbn [rawstream]. rewrite app_length, rawblock_length, IH. lia.
  Qed.

  Lemma rawstream_app a : forall q b,
    rawstream q (a + b) = rawstream q a ++ rawstream (q + N.of_nat a) b.
  Proof.
    induction a as [|a IH]; intros q b.
    - cbn [Nat.add rawstream app]. f_equal. lia.
    - cbn [Nat.add rawstream]. rewrite IH, <- app_assoc. do 3 f_equal. lia.
  Qed.

  Lemma refill1_stA q : refill1 (stA s0 q) = (rawblock q, stA s0 (q + 1)).
  Proof. rewrite refill1_spec. reflexivity. Qed.

  Lemma refill4_stA q : refill4 (stA s0 q) = (rawstream q 4, stA s0 (q + 4)).
  Proof.
    rewrite refill4_spec. cbn [rawstream]. unfold rawblock.
    rewrite app_nil_r, <- !N.add_assoc. reflexivity.
  Qed.

  (** * wide chunks *)
  Lemma wide_loop_spec n : forall q data, (256 * n <= length data)%nat ->
    wide_loop refill4 n (stA s0 q) data =
      (stA s0 (q + 4 * N.of_nat n), xor_bytes (firstn (256 * n) data) (rawstream q (4 * n))).
  Proof.
    induction n as [|n IH]; intros q data Hl.
    - cbn [wide_loop]. rewrite Nat.mul_0_r. cbn [firstn rawstream xor_bytes]. f_equal. f_equal. lia.
    - cbn [wide_loop]. rewrite refill4_stA.
      rewrite IH by (rewrite skipn_length; lia).
      replace (256 * S n)%nat with (256 + 256 * n)%nat by lia.
      replace (4 * S n)%nat with (4 + 4 * n)%nat by lia.
      rewrite firstn_add, rawstream_app.
      rewrite xor_bytes_app by (rewrite firstn_length, rawstream_length; lia).
      f_equal. f_equal. lia.
  Qed.

  (** * block tail *)
  Lemma tail_loop_spec f : forall dT q out h nb, (length dT <= f)%nat -> nb = ((length dT + 63) / 64)%nat ->
    tail_loop refill1 (chunks 64 f dT) (stA s0 q) out h =
      (stA s0 (q + N.of_nat nb),
       (if Nat.eqb nb 0 then out else rawblock (q + N.of_nat nb - 1)),
       (if Nat.eqb nb 0 then h else N.of_nat (64 * nb - length dT)),
       xor_bytes dT (rawstream q nb)).
  Proof.
    induction f as [|f IH]; intros dT q out h nb Hl Hnb.
    - destruct dT; [|cbn [length] in Hl; lia]. cbn [length Nat.add] in Hnb. subst nb.
      cbn [chunks tail_loop Nat.div Nat.divmod fst Nat.eqb rawstream xor_bytes N.of_nat].
      rewrite N.add_0_r. reflexivity.
    - destruct dT as [|x dT'] eqn:EdT.
      + cbn [length Nat.add] in Hnb. subst nb.
        cbn [chunks tail_loop Nat.div Nat.divmod fst Nat.eqb rawstream xor_bytes N.of_nat].
        rewrite N.add_0_r. reflexivity.
      + rewrite <- EdT in *. assert (Hne : (1 <= length dT)%nat) by (rewrite EdT; cbn [length]; lia).
        assert (Ech : chunks 64 (S f) dT = firstn 64 dT :: chunks 64 f (skipn 64 dT)) by (rewrite EdT; reflexivity).
        rewrite Ech. cbn [tail_loop]. rewrite refill1_stA.
        pose (nb' := ((length (skipn 64 dT) + 63) / 64)%nat).
        rewrite (IH (skipn 64 dT) (q + 1) (rawblock q) (64 - N.of_nat (length (firstn 64 dT))) nb')
          by (try reflexivity; rewrite skipn_length; lia).
        assert (Hnb' : nb = S nb') by (unfold nb'; rewrite skipn_length; lia).
        rewrite Hnb'. cbn [Nat.eqb rawstream].
        pose proof (xor_bytes_split (rawblock q) dT (rawstream (q + 1) nb')) as Hs.
        rewrite rawblock_length in Hs. rewrite <- Hs. clear Hs.
        f_equal.
        assert (E1 : q + 1 + N.of_nat nb' = q + N.of_nat (S nb')) by lia.
        assert (E2 : (if (nb' =? 0)%nat then rawblock q else rawblock (q + 1 + N.of_nat nb' - 1))
                     = rawblock (q + N.of_nat (S nb') - 1)).
        { destruct (Nat.eqb nb' 0) eqn:E0; [apply Nat.eqb_eq in E0; rewrite E0|]; f_equal; lia. }
        assert (E3 : (if (nb' =? 0)%nat then 64 - N.of_nat (length (firstn 64 dT))
                      else N.of_nat (64 * nb' - length (skipn 64 dT))) = N.of_nat (64 * S nb' - length dT)).
        { unfold nb' in *. rewrite skipn_length in *. rewrite firstn_length.
          destruct (Nat.eqb ((length dT - 64 + 63) / 64) 0) eqn:E0;
            [apply Nat.eqb_eq in E0 | apply Nat.eqb_neq in E0]; lia. }
        rewrite E2, E3, E1. reflexivity.
  Qed.
End Loops.
