(** Model of hashes/jh (jh-x86_64 0.3.1): src/compressor.rs, src/consts.rs and
    src/lib.rs as written.

    128-bit vectors ([u128x1]) are [N] below 2^128, the little-endian reading
    of their 16 bytes in memory; [u128x2] is a pair.  The ppv-lite86 lane
    operations are modelled by their meaning on 128-bit words (their
    conformance on every back end is C12/C13). *)
From Coq Require Import NArith List Arith Bool.
From CC Require Import Lib.Words Lib.Bytes Lib.ListX Model.BlockBuffer.
Import ListNotations.
Local Open Scope N_scope.

(** * ppv-lite86 operations used by the compressor, by meaning *)
Definition ones128 : N := N.ones 128.
Definition not128 (x : N) : N := N.lxor x ones128.
(** [a.andnot(b)] is [!a & b] *)
Definition andnot128 (a b : N) : N := N.land (not128 a) b.

(** [swap1 .. swap64]: exchange adjacent groups of 2^k bits (generic.rs form
    [((x & lo) << n) | ((x & hi) >> n)]; for k >= 4 the per-lane rotations of
    generic.rs are the same function of the whole 128-bit word) *)
Definition swap_lo (k : nat) : N :=
  match k with
  | 0%nat => 0x55555555555555555555555555555555
  | 1%nat => 0x33333333333333333333333333333333
  | 2%nat => 0x0f0f0f0f0f0f0f0f0f0f0f0f0f0f0f0f
  | 3%nat => 0x00ff00ff00ff00ff00ff00ff00ff00ff
  | 4%nat => 0x0000ffff0000ffff0000ffff0000ffff
  | 5%nat => 0x00000000ffffffff00000000ffffffff
  | _ => 0x0000000000000000ffffffffffffffff
  end.
Definition swap_hi (k : nat) : N := N.lxor (swap_lo k) ones128.
Definition swap_amount (k : nat) : N := N.shiftl 1 (N.of_nat k).
Definition swapk (k : nat) (x : N) : N :=
  N.lor (N.shiftl (N.land x (swap_lo k)) (swap_amount k))
        (N.shiftr (N.land x (swap_hi k)) (swap_amount k)).

(** [u128x2] lane-wise operations *)
Definition x2 := (N * N)%type.
Definition xor2 (a b : x2) : x2 := (N.lxor (fst a) (fst b), N.lxor (snd a) (snd b)).
Definition and2 (a b : x2) : x2 := (N.land (fst a) (fst b), N.land (snd a) (snd b)).
Definition or2 (a b : x2) : x2 := (N.lor (fst a) (fst b), N.lor (snd a) (snd b)).
Definition not2 (a : x2) : x2 := (not128 (fst a), not128 (snd a)).
Definition andnot2 (a b : x2) : x2 := (andnot128 (fst a) (fst b), andnot128 (snd a) (snd b)).

(** * compressor.rs *)

(** [E8_BITSLICE_ROUNDCONSTANT]: 42 entries of 32 bytes, written as in the
    source (hex strings, first byte first) *)
Definition E8_BITSLICE_ROUNDCONSTANT_hex : list N := [
  0x72d5dea2df15f8677b84150ab723155781abd6904d5a87f64e9f4fc5c3d12b40;
  0xea983ae05c45fa9c03c5d29966b2999a660296b4f2bb538ab556141a88dba231;
  0x03a35a5c9a190edb403fb20a87c144101c051980849e951d6f33ebad5ee7cddc;
  0x10ba139202bf6b41dc786515f7bb27d00a2c813937aa78503f1abfd2410091d3;
  0x422d5a0df6cc7e90dd629f9c92c097ce185ca70bc72b44acd1df65d663c6fc23;
  0x976e6c039ee0b81a2105457e446ceca8eef103bb5d8e61fafd9697b294838197;
  0x4a8e8537db03302f2a678d2dfb9f6a958afe7381f8b8696c8ac77246c07f4214;
  0xc5f4158fbdc75ec475446fa78f11bb8052de75b7aee488bc82b8001e98a6a3f4;
  0x8ef48f33a9a36315aa5f5624d5b7f989b6f1ed207c5ae0fd36cae95a06422c36;
  0xce2935434efe983d533af974739a4ba7d0f51f596f4e81860e9dad81afd85a9f;
  0xa7050667ee34626a8b0b28be6eb9172747740726c680103fe0a07e6fc67e487b;
  0x0d550aa54af8a4c091e3e79f978ef19e8676728150608dd47e9e5a41f3e5b062;
  0xfc9f1fec4054207ae3e41a00cef4c9844fd794f59dfa95d8552e7e1124c354a5;
  0x5bdf7228bdfe6e2878f57fe20fa5c4b205897cefee49d32e447e9385eb28597f;
  0x705f6937b324314a5e8628f11dd6e465c71b770451b920e774fe43e823d4878a;
  0x7d29e8a3927694f2ddcb7a099b30d9c11d1b30fb5bdc1be0da24494ff29c82bf;
  0xa4e7ba31b470bfff0d324405def8bc483baefc3253bbd339459fc3c1e0298ba0;
  0xe5c905fdf7ae090f947034124290f134a271b701e344ed95e93b8e364f2f984a;
  0x88401d63a06cf61547c1444b8752afff7ebb4af1e20ac6304670b6c5cc6e8ce6;
  0xa4d5a456bd4fca00da9d844bc83e18ae7357ce453064d1ade8a6ce68145c2567;
  0xa3da8cf2cb0ee11633e906589a94999a1f60b220c26f847bd1ceac7fa0d18518;
  0x32595ba18ddd19d3509a1cc0aaa5b4469f3d6367e4046bbaf6ca19ab0b56ee7e;
  0x1fb179eaa9282174e9bdf7353b3651ee1d57ac5a7550d3763a46c2fea37d7001;
  0xf735c1af98a4d84278edec209e6b677941836315ea3adba8fac33b4d32832c83;
  0xa7403b1f1c2747f35940f034b72d769ae73e4e6cd2214ffdb8fd8d39dc5759ef;
  0x8d9b0c492b49ebda5ba2d74968f3700d7d3baed07a8d5584f5a5e9f0e4f88e65;
  0xa0b8a2f436103b530ca8079e753eec5a9168949256e8884f5bb05c55f8babc4c;
  0xe3bb3b99f387947b75daf4d6726b1c5d64aeac28dc34b36d6c34a550b828db71;
  0xf861e2f2108d512ae3db643359dd75fc1cacbcf143ce3fa267bbd13c02e843b0;
  0x330a5bca8829a1757f34194db416535c923b94c30e794d1e797475d7b6eeaf3f;
  0xeaa8d4f7be1a39215cf47e094c23275126a32453ba323cd244a3174a6da6d5ad;
  0xb51d3ea6aff2c90883593d98916b3c564cf87ca17286604d46e23ecc086ec7f6;
  0x2f9833b3b1bc765e2bd666a5efc4e62a06f4b6e8bec1d43674ee8215bcef2163;
  0xfdc14e0df453c969a77d5ac4065858267ec1141606e0fa167e90af3d28639d3f;
  0xd2c9f2e3009bd20c5faace30b7d40c30742a5116f2e032980deb30d8e3cef89a;
  0x4bc59e7bb5f17992ff51e66e048668d39b234d57e6966731cce6a6f3170a7505;
  0xb17681d913326cce3c175284f805a262f42bcbb378471547ff46548223936a48;
  0x38df58074e5e6565f2fc7c89fc86508e31702e44d00bca86f04009a23078474e;
  0x65a0ee39d1f73883f75ee937e42c3abd2197b2260113f86fa344edd1ef9fdee7;
  0x8ba0df15762592d93c85f7f612dc42bed8a7ec7cab27b07e538d7ddaaa3ea8de;
  0xaa25ce93bd0269d85af643fd1a7308f9c05fefda174a19a5974d66334cfd216a;
  0x35b49831db411570ea1e0fbbedcd549b9ad063a151974072f6759dbf91476fe2
].
Definition rc_bytes (x : N) : list N := be_split 32 x.
(** [X2Bytes { bytes }.x2]: the 32 bytes reinterpreted as two u128 (little-endian each) *)
Definition x2_of_bytes (bs : list N) : x2 := (le_join (firstn 16 bs), le_join (skipn 16 bs)).
Definition rc_table_def : list x2 :=
  map (fun x => x2_of_bytes (rc_bytes x)) E8_BITSLICE_ROUNDCONSTANT_hex.
Definition rc_table : list x2 := Eval vm_compute in rc_table_def.
Lemma rc_table_eq : rc_table = rc_table_def.
Proof. vm_compute. reflexivity. Qed.

Record x8 := X8 { y0 : N; y1 : N; y2 : N; y3 : N; y4 : N; y5 : N; y6 : N; y7 : N }.

(** two S-boxes in parallel; [zip] pairs (y0,y1) (y2,y3) (y4,y5) (y6,y7) *)
Definition ss (s : x8) (k : x2) : x8 :=
  let m0 := (y0 s, y1 s) in let m1 := (y2 s, y3 s) in
  let m2 := (y4 s, y5 s) in let m3 := (y6 s, y7 s) in
  let m3 := not2 m3 in
  let m0 := xor2 m0 (andnot2 m2 k) in
  let k := xor2 k (and2 m0 m1) in
  let m0 := xor2 m0 (and2 m3 m2) in
  let m3 := xor2 m3 (andnot2 m1 m2) in
  let m1 := xor2 m1 (and2 m0 m2) in
  let m2 := xor2 m2 (andnot2 m3 m0) in
  let m0 := xor2 m0 (or2 m1 m3) in
  let m3 := xor2 m3 (and2 m1 m2) in
  let m2 := xor2 m2 k in
  let m1 := xor2 m1 (and2 k m0) in
  X8 (fst m0) (snd m0) (fst m1) (snd m1) (fst m2) (snd m2) (fst m3) (snd m3).

Definition l (y : x8) : x8 :=
  let '(X8 a0 a1 a2 a3 a4 a5 a6 a7) := y in
  let a1 := N.lxor a1 a2 in
  let a3 := N.lxor a3 a4 in
  let a5 := N.lxor a5 (N.lxor a6 a0) in
  let a7 := N.lxor a7 a0 in
  let a0 := N.lxor a0 a3 in
  let a2 := N.lxor a2 a5 in
  let a4 := N.lxor a4 (N.lxor a7 a1) in
  let a6 := N.lxor a6 a1 in
  X8 a0 a1 a2 a3 a4 a5 a6 a7.

(** body of [unroll7!]: S-boxes, linear layer, [swap_(2^j)] on the odd registers *)
Definition round (j : nat) (rc : x2) (y : x8) : x8 :=
  let y := l (ss y rc) in
  let f := swapk j in
  X8 (y0 y) (f (y1 y)) (y2 y) (f (y3 y)) (y4 y) (f (y5 y)) (y6 y) (f (y7 y)).

(** [for rc in TABLE.chunks_exact(7) { unroll7!(j, ..rc[j]..) }] *)
Definition chunk7 (y : x8) (rc : list x2) : x8 :=
  fold_left (fun y j => round j (nth j rc (0, 0)) y) (seq 0 7) y.
Fixpoint chunks7 (n : nat) (t : list x2) : list (list x2) :=
  match n with O => [] | S k => firstn 7 t :: chunks7 k (skipn 7 t) end.
Definition e8 (y : x8) : x8 := fold_left chunk7 (chunks7 6 rc_table) y.

(** [ptr::read_unaligned(data.offset(i))] as [M::u128x1] *)
Definition load128 (data : list N) (i : nat) : N := le_join (firstn 16 (skipn (16 * i) data)).

Definition f8_impl (y : x8) (data : list N) : x8 :=
  let d0 := load128 data 0 in let d1 := load128 data 1 in
  let d2 := load128 data 2 in let d3 := load128 data 3 in
  let '(X8 a0 a1 a2 a3 a4 a5 a6 a7) := y in
  let y := X8 (N.lxor a0 d0) (N.lxor a1 d1) (N.lxor a2 d2) (N.lxor a3 d3) a4 a5 a6 a7 in
  let '(X8 a0 a1 a2 a3 a4 a5 a6 a7) := e8 y in
  X8 a0 a1 a2 a3 (N.lxor a4 d0) (N.lxor a5 d1) (N.lxor a6 d2) (N.lxor a7 d3).

(** [Compressor]: [cv = transmute!(bytes)], [finalize = transmute!(cv)] *)
Definition compressor_new (bytes : list N) : x8 :=
  X8 (load128 bytes 0) (load128 bytes 1) (load128 bytes 2) (load128 bytes 3)
     (load128 bytes 4) (load128 bytes 5) (load128 bytes 6) (load128 bytes 7).
Definition compressor_finalize (y : x8) : list N :=
  flat_map (le_split 16) [y0 y; y1 y; y2 y; y3 y; y4 y; y5 y; y6 y; y7 y].
Definition compressor_input (y : x8) (block : list N) : x8 := f8_impl y block.

(** F8 on byte strings, as observed through [Compressor::{new,input,finalize}] *)
Definition m_f8 (state block : list N) : list N :=
  compressor_finalize (compressor_input (compressor_new state) block).

(** * consts.rs *)
Definition JH224_H0 : list N := be_split 128
  0x2dfedd62f99a98acae7cacd619d634e7a4831005bc301216b86038c6c966149466d9899f2580706fce9ea31b1d9b1adc11e8325f7b366e10f994857f02fa06c11b4f1b5cd8c840b397f6a17f6e738099dcdf93a5adeaa3d3a431e8dec9539a6822b4a98aec86a1e4d574ac959ce56cf015960deab5ab2bbf9611dcf0dd64ea6e.
Definition JH256_H0 : list N := be_split 128
  0xeb98a3412c20d3eb92cdbe7b9cb245c11c93519160d4c7fa260082d67e508a03a4239e267726b945e0fb1a48d41a9477cdb5ab26026b177a56f024420fff2fa871a396897f2e4d751d144908f77de262277695f776248f9487d5b6574780296c5c5e272dac8e0d6c518450c657057a0f7be4d367702412ea89e3ab13d31cd769.
Definition JH384_H0 : list N := be_split 128
  0x481e3bc6d813398a6d3b5e894ade879b63faea68d480ad2e332ccb21480f826798aec84d9082b928d455ea304111424936f555b2924847ecc7250a93baf43ce1569b7f8a27db454c9efcbd496397af0e589fc27d26aa80cd80c08b8c9deb2eda8a7981e8f8d5373af43967adddd17a71a9b4d3bda475d394976c3fba9842737f.
Definition JH512_H0 : list N := be_split 128
  0x6fd14b963e00aa17636a2e057a15d5438a225e8d0c97ef0be9341259f2b3c361891da0c1536f801e2aa9056bea2b6d80588eccdb2075baa6a90f3a76baf83bf70169e60541e34a6946b58a8e2e6fe65a1047a7d0c1843c243b6e71b12d5ac199cf57f6ec9db1f856a706887c5716b156e3c2fcdfe68517fb545a4678cc8cdd4b.

(** * lib.rs: define_hasher! *)
Inductive profile := Debug | Release.   (* overflow checks on / off *)
Definition checked (p : profile) : bool := match p with Debug => true | Release => false end.

Record hasher := Hasher { h_state : x8; h_buffer : bb; h_datalen : N }.

(** the four instantiations: (initial value, output bytes) *)
Record variant := Variant { v_h0 : list N; v_out : nat }.
Definition Jh224 := Variant JH224_H0 28.
Definition Jh256 := Variant JH256_H0 32.
Definition Jh384 := Variant JH384_H0 48.
Definition Jh512 := Variant JH512_H0 64.

Definition h_default (v : variant) : hasher :=
  Hasher (compressor_new (v_h0 v)) (bb_new 64) 0.

(** [update]: [self.datalen += data.len()] on a 64-bit [usize]; [None] is the
    overflow panic of a build with overflow checks *)
Definition h_update (p : profile) (h : hasher) (data : list N) : option hasher :=
  let n := h_datalen h + N.of_nat (length data) in
  if checked p && (2 ^ 64 <=? n) then None
  else
    let '(b, blocks) := input_block (h_buffer h) data in
    Some (Hasher (fold_left compressor_input blocks (h_state h)) b (wrap 64 n)).

(** a sequence of [update] calls *)
Fixpoint h_updates (p : profile) (h : hasher) (calls : list (list N)) : option hasher :=
  match calls with
  | [] => Some h
  | d :: r => match h_update p h d with None => None | Some h' => h_updates p h' r end
  end.

(** [pad_with::<Iso7816>()]: [None] is [Err(PadError)] *)
Definition pad_with_iso7816 (b : bb) : option (bb * list N) :=
  if (bb_size b <=? bb_pos b)%nat then None
  else let buf := zero_from (upd (bb_pos b) 0x80 (bb_buf b)) (bb_pos b + 1) in
       Some (BB buf 0, buf).

(** [let len = self.datalen as u64 * 8] *)
Definition h_bitlen (p : profile) (h : hasher) : option N :=
  let len := h_datalen h * 8 in
  if checked p && (2 ^ 64 <=? len) then None else Some (wrap 64 len).

(** the blocks fed to the compressor by [finalize_into_dirty] *)
Definition h_final_blocks (h : hasher) (len : N) : option (list (list N)) :=
  if (bb_pos (h_buffer h) =? 0)%nat then Some (snd (len_padding_be 8 (h_buffer h) len))
  else match pad_with_iso7816 (h_buffer h) with
       | None => None    (* [.unwrap()] *)
       | Some (_, blk) =>
           let last := copy_at (repeat 0 64) 56 (be_split 8 len) in
           Some [blk; last]
       end.

Definition h_finalize (p : profile) (v : variant) (h : hasher) : option (list N) :=
  match h_bitlen p h with
  | None => None
  | Some len =>
      match h_final_blocks h len with
      | None => None
      | Some blocks =>
          let st := fold_left compressor_input blocks (h_state h) in
          Some (skipn (128 - v_out v) (compressor_finalize st))
      end
  end.

(** [Digest::digest(msg)]: default, one update, finalize *)
Definition m_digest (p : profile) (v : variant) (msg : list N) : option (list N) :=
  match h_update p (h_default v) msg with
  | None => None
  | Some h => h_finalize p v h
  end.

(** the blocks the one-shot digest feeds to F8, in call order *)
Definition m_blocks (p : profile) (v : variant) (msg : list N) : option (list (list N)) :=
  match h_update p (h_default v) msg with
  | None => None
  | Some h =>
      match h_bitlen p h with
      | None => None
      | Some len =>
          match h_final_blocks h len with
          | None => None
          | Some fin => Some (snd (input_block (bb_new 64) msg) ++ fin)
          end
      end
  end.
