(** The algorithms that ppv-lite86's [dispatch!] instantiates once per Machine, written over a
    record of vector operations (C03): ChaCha's double round (guts.rs [round], [diagonalize],
    [undiagonalize]; the same generic code runs on [u32x4] and on [u32x4x4]), BLAKE's column +
    diagonal step ([round32]/[round64], [diagonalize], [undiagonalize] of blake/src/lib.rs) and
    JH's S-box layer, linear layer and [swapN] step (jh/src/compressor.rs [ss], [l], the body of
    [unroll7!]).

    A back end is a carrier type per vector type with its operations and a *view* [rep] onto
    the lane-order word list of Spec/Lanes.v. [vops_refines] / [jops_refines] say that every
    operation, seen through the view, is its lane-wise meaning of Spec/Lanes.v and preserves the
    back end's well-formedness predicate. [lane_vops], [lane_jops] are the lane-wise instances
    themselves (carrier = the word list). *)
From Coq Require Import NArith List Bool.
From CC Require Import Lib.Words Lib.Bytes Lib.ListX Spec.Lanes.
Import ListNotations.
Local Open Scope N_scope.

(** * A vector type of [n] words of [w] bits with the operations ChaCha and BLAKE use *)
Record vops := VOps {
  vt : Type;
  v_wf : vt -> Prop;                (* the back end's invariant (e.g. 16 bytes below 256) *)
  v_rep : vt -> list N;             (* the words, lane 0 first *)
  v_vec : list N -> vt;             (* [Machine::vec] / [unpack] of a storage value *)
  o_add : vt -> vt -> vt;           (* [+], [+=] *)
  o_xor : vt -> vt -> vt;           (* [^], [^=] *)
  o_rotr : N -> vt -> vt;           (* [rotate_each_word_right<k>] *)
  o_sh1230 : vt -> vt;              (* [shuffle1230] / [shuffle_lane_words1230] *)
  o_sh2301 : vt -> vt;
  o_sh3012 : vt -> vt
}.

(** [a] is a well-formed value of the back end that denotes the word list [l] *)
Definition rel (o : vops) (a : vt o) (l : list N) : Prop := v_wf o a /\ v_rep o a = l.

(** a word list a vector type can hold *)
Definition words_ok (w : N) (n : nat) (l : list N) : Prop :=
  length l = n /\ Forall (fun x => x < 2 ^ w) l.

(** each field is its lane meaning on well-formed vectors; [ks] = the rotation amounts used *)
Record vops_refines (w : N) (n : nat) (ks : list N) (o : vops) : Prop := {
  r_vec : forall l, words_ok w n l -> rel o (v_vec o l) l;
  r_add : forall a b la lb, rel o a la -> rel o b lb -> rel o (o_add o a b) (v_add w la lb);
  r_xor : forall a b la lb, rel o a la -> rel o b lb -> rel o (o_xor o a b) (v_xor la lb);
  r_rotr : forall k a la, In k ks -> rel o a la -> rel o (o_rotr o k a) (v_rotr w k la);
  r_sh1230 : forall a la, rel o a la -> rel o (o_sh1230 o a) (per_lane4 shuffle1230 la);
  r_sh2301 : forall a la, rel o a la -> rel o (o_sh2301 o a) (per_lane4 shuffle2301 la);
  r_sh3012 : forall a la, rel o a la -> rel o (o_sh3012 o a) (per_lane4 shuffle3012 la)
}.

(** the lane-wise instance: the carrier is the word list *)
Definition lane_vops (w : N) : vops :=
  VOps (list N) (fun _ => True) (fun l => l) (fun l => l)
       (v_add w) v_xor (v_rotr w)
       (per_lane4 shuffle1230) (per_lane4 shuffle2301) (per_lane4 shuffle3012).

(** * ChaCha (guts.rs), generic in the vector type as in the source *)
Section ChaCha.
  Variable o : vops.
  Record cstate := CS { sa : vt o; sb : vt o; sc : vt o; sd : vt o }.

  Definition c_round (x : cstate) : cstate :=
    let a := o_add o (sa x) (sb x) in
    let d := o_rotr o 16 (o_xor o (sd x) a) in
    let c := o_add o (sc x) d in
    let b := o_rotr o 20 (o_xor o (sb x) c) in
    let a := o_add o a b in
    let d := o_rotr o 24 (o_xor o d a) in
    let c := o_add o c d in
    let b := o_rotr o 25 (o_xor o b c) in
    CS a b c d.

  Definition c_diagonalize (x : cstate) : cstate :=
    CS (o_sh1230 o (sa x)) (sb x) (o_sh3012 o (sc x)) (o_sh2301 o (sd x)).
  Definition c_undiagonalize (x : cstate) : cstate :=
    CS (o_sh3012 o (sa x)) (sb x) (o_sh1230 o (sc x)) (o_sh2301 o (sd x)).

  (** [x = round(x); x = undiagonalize(round(diagonalize(x)))] *)
  Definition c_dround (x : cstate) : cstate := c_undiagonalize (c_round (c_diagonalize (c_round x))).

  Fixpoint c_rounds (drounds : nat) (x : cstate) : cstate :=
    match drounds with O => x | S k => c_rounds k (c_dround x) end.

  Definition c_vec (a b c d : list N) : cstate := CS (v_vec o a) (v_vec o b) (v_vec o c) (v_vec o d).
  Definition c_rep (x : cstate) : list N * list N * list N * list N :=
    (v_rep o (sa x), v_rep o (sb x), v_rep o (sc x), v_rep o (sd x)).
  Definition c_rel (x : cstate) (l : list N * list N * list N * list N) : Prop :=
    let '(la, lb, lc, ld) := l in rel o (sa x) la /\ rel o (sb x) lb /\ rel o (sc x) lc /\ rel o (sd x) ld.
End ChaCha.
Arguments CS {o}. Arguments sa {o}. Arguments sb {o}. Arguments sc {o}. Arguments sd {o}.

Definition chacha_ks : list N := [16; 20; 24; 25].

(** the rounds as a function on word lists: load with [vec]/[unpack], run, read the words back *)
Definition chacha_rounds_on (o : vops) (drounds : nat) (a b c d : list N) :=
  c_rep o (c_rounds o drounds (c_vec o a b c d)).

(** * BLAKE (blake/src/lib.rs): [k1..k4] = 16,12,8,7 ([round32]) or 32,25,16,11 ([round64]) *)
Section Blake.
  Variable o : vops.
  Variables k1 k2 k3 k4 : N.
  Definition brows := (vt o * vt o * vt o * vt o)%type.

  Definition b_round (xs : brows) (m0 m1 : vt o) : brows :=
    let '(a, b, c, d) := xs in
    let a := o_add o a m0 in
    let a := o_add o a b in
    let d := o_xor o d a in
    let d := o_rotr o k1 d in
    let c := o_add o c d in
    let b := o_xor o b c in
    let b := o_rotr o k2 b in
    let a := o_add o a m1 in
    let a := o_add o a b in
    let d := o_xor o d a in
    let d := o_rotr o k3 d in
    let c := o_add o c d in
    let b := o_xor o b c in
    let b := o_rotr o k4 b in
    (a, b, c, d).

  Definition b_diagonalize (xs : brows) : brows :=
    let '(a, b, c, d) := xs in (o_sh1230 o a, b, o_sh3012 o c, o_sh2301 o d).
  Definition b_undiagonalize (xs : brows) : brows :=
    let '(a, b, c, d) := xs in (o_sh3012 o a, b, o_sh1230 o c, o_sh2301 o d).

  (** one iteration of [for sigma in ..]: column step then diagonal step; the four message
      vectors are built with [mach.vec] from scalar words *)
  Definition b_step (xs : brows) (ms : list N * list N * list N * list N) : brows :=
    let '(c0, c1, d0, d1) := ms in
    let xs := b_round xs (v_vec o c0) (v_vec o c1) in
    b_undiagonalize (b_round (b_diagonalize xs) (v_vec o d0) (v_vec o d1)).

  Definition b_rounds (xs : brows) (mss : list (list N * list N * list N * list N)) : brows :=
    fold_left b_step mss xs.

  Definition b_rep (xs : brows) : list N * list N * list N * list N :=
    let '(a, b, c, d) := xs in (v_rep o a, v_rep o b, v_rep o c, v_rep o d).
  Definition b_rel (xs : brows) (l : list N * list N * list N * list N) : Prop :=
    let '(a, b, c, d) := xs in let '(la, lb, lc, ld) := l in
    rel o a la /\ rel o b lb /\ rel o c lc /\ rel o d ld.
  Definition b_vec (l : list N * list N * list N * list N) : brows :=
    let '(la, lb, lc, ld) := l in (v_vec o la, v_vec o lb, v_vec o lc, v_vec o ld).
End Blake.

Definition blake32_ks : list N := [16; 12; 8; 7].
Definition blake64_ks : list N := [32; 25; 16; 11].
Definition msgs_ok (w : N) (mss : list (list N * list N * list N * list N)) : Prop :=
  Forall (fun ms => let '(c0, c1, d0, d1) := ms in
                    words_ok w 4 c0 /\ words_ok w 4 c1 /\ words_ok w 4 d0 /\ words_ok w 4 d1) mss.

Definition blake32_rounds_on (o : vops) xs mss := b_rep o (b_rounds o 16 12 8 7 (b_vec o xs) mss).
Definition blake64_rounds_on (o : vops) xs mss := b_rep o (b_rounds o 32 25 16 11 (b_vec o xs) mss).

(** * JH (jh/src/compressor.rs): [u128x1] and [u128x2] *)
Record jops := JOps {
  jt1 : Type;                       (* M::u128x1 *)
  jt2 : Type;                       (* M::u128x2 *)
  j_wf1 : jt1 -> Prop;
  j_wf2 : jt2 -> Prop;
  j_rep1 : jt1 -> N;                (* the 128-bit word *)
  j_rep2 : jt2 -> N * N;            (* lanes 0 and 1 *)
  j_load : N -> jt1;                (* [unpack] / [read_unaligned] of 16 bytes *)
  j_const : N * N -> jt2;           (* a round constant (the [x2] view of 32 bytes) *)
  j_zip : jt1 -> jt1 -> jt2;        (* [[a, b].vzip()] *)
  j_ext : jt2 -> bool -> jt1;       (* [extract(0)] (false) / [extract(1)] (true) *)
  j_xor1 : jt1 -> jt1 -> jt1;
  j_xor2 : jt2 -> jt2 -> jt2;
  j_and2 : jt2 -> jt2 -> jt2;
  j_or2 : jt2 -> jt2 -> jt2;
  j_andnot2 : jt2 -> jt2 -> jt2;    (* [a.andnot(b)] = [!a & b] *)
  j_not2 : jt2 -> jt2;
  j_swap : nat -> jt1 -> jt1        (* [swap1, swap2, swap4, .., swap64] by exponent 0..6 *)
}.

Definition jrel1 (o : jops) (a : jt1 o) (x : N) : Prop := j_wf1 o a /\ j_rep1 o a = x.
Definition jrel2 (o : jops) (a : jt2 o) (x : N * N) : Prop := j_wf2 o a /\ j_rep2 o a = x.

(** lane meanings on 128-bit words and pairs of them *)
Definition l_not (x : N) : N := notw 128 x.
Definition l_andnot (a b : N) : N := N.land (notw 128 a) b.
Definition l_swap (k : nat) (x : N) : N := swapw (2 ^ N.of_nat k) 128 x.
Definition p2 (f : N -> N -> N) (a b : N * N) : N * N := (f (fst a) (fst b), f (snd a) (snd b)).
Definition w128 (x : N) : Prop := x < 2 ^ 128.

Record jops_refines (o : jops) : Prop := {
  jr_load : forall x, w128 x -> jrel1 o (j_load o x) x;
  jr_const : forall x, w128 (fst x) -> w128 (snd x) -> jrel2 o (j_const o x) x;
  jr_zip : forall a b x y, jrel1 o a x -> jrel1 o b y -> jrel2 o (j_zip o a b) (x, y);
  jr_ext : forall a x i, jrel2 o a x -> jrel1 o (j_ext o a i) (if i then snd x else fst x);
  jr_xor1 : forall a b x y, jrel1 o a x -> jrel1 o b y -> jrel1 o (j_xor1 o a b) (N.lxor x y);
  jr_xor2 : forall a b x y, jrel2 o a x -> jrel2 o b y -> jrel2 o (j_xor2 o a b) (p2 N.lxor x y);
  jr_and2 : forall a b x y, jrel2 o a x -> jrel2 o b y -> jrel2 o (j_and2 o a b) (p2 N.land x y);
  jr_or2 : forall a b x y, jrel2 o a x -> jrel2 o b y -> jrel2 o (j_or2 o a b) (p2 N.lor x y);
  jr_andnot2 : forall a b x y, jrel2 o a x -> jrel2 o b y -> jrel2 o (j_andnot2 o a b) (p2 l_andnot x y);
  jr_not2 : forall a x, jrel2 o a x -> jrel2 o (j_not2 o a) (l_not (fst x), l_not (snd x));
  jr_swap : forall k a x, (k < 7)%nat -> jrel1 o a x -> jrel1 o (j_swap o k a) (l_swap k x)
}.

Definition lane_jops : jops :=
  JOps N (N * N) (fun _ => True) (fun _ => True) (fun x => x) (fun x => x) (fun x => x) (fun x => x)
       (fun a b => (a, b)) (fun a i => if i then snd a else fst a)
       N.lxor (p2 N.lxor) (p2 N.land) (p2 N.lor) (p2 l_andnot)
       (fun a => (l_not (fst a), l_not (snd a))) l_swap.

Section JH.
  Variable o : jops.
  Record jx8 := JX8 { q0 : jt1 o; q1 : jt1 o; q2 : jt1 o; q3 : jt1 o;
                      q4 : jt1 o; q5 : jt1 o; q6 : jt1 o; q7 : jt1 o }.

  (** [ss]: zip, the Boolean network on four [u128x2], unzip *)
  Definition j_ss (s : jx8) (k : jt2 o) : jx8 :=
    let m0 := j_zip o (q0 s) (q1 s) in let m1 := j_zip o (q2 s) (q3 s) in
    let m2 := j_zip o (q4 s) (q5 s) in let m3 := j_zip o (q6 s) (q7 s) in
    let m3 := j_not2 o m3 in
    let m0 := j_xor2 o m0 (j_andnot2 o m2 k) in
    let k := j_xor2 o k (j_and2 o m0 m1) in
    let m0 := j_xor2 o m0 (j_and2 o m3 m2) in
    let m3 := j_xor2 o m3 (j_andnot2 o m1 m2) in
    let m1 := j_xor2 o m1 (j_and2 o m0 m2) in
    let m2 := j_xor2 o m2 (j_andnot2 o m3 m0) in
    let m0 := j_xor2 o m0 (j_or2 o m1 m3) in
    let m3 := j_xor2 o m3 (j_and2 o m1 m2) in
    let m2 := j_xor2 o m2 k in
    let m1 := j_xor2 o m1 (j_and2 o k m0) in
    JX8 (j_ext o m0 false) (j_ext o m0 true) (j_ext o m1 false) (j_ext o m1 true)
        (j_ext o m2 false) (j_ext o m2 true) (j_ext o m3 false) (j_ext o m3 true).

  (** [l] *)
  Definition j_l (y : jx8) : jx8 :=
    let '(JX8 a0 a1 a2 a3 a4 a5 a6 a7) := y in
    let a1 := j_xor1 o a1 a2 in
    let a3 := j_xor1 o a3 a4 in
    let a5 := j_xor1 o a5 (j_xor1 o a6 a0) in
    let a7 := j_xor1 o a7 a0 in
    let a0 := j_xor1 o a0 a3 in
    let a2 := j_xor1 o a2 a5 in
    let a4 := j_xor1 o a4 (j_xor1 o a7 a1) in
    let a6 := j_xor1 o a6 a1 in
    JX8 a0 a1 a2 a3 a4 a5 a6 a7.

  (** body of [unroll7!]: [y = l(ss(y, rc))], then [swap_(2^j)] on the odd registers *)
  Definition j_round (j : nat) (rc : N * N) (y : jx8) : jx8 :=
    let y := j_l (j_ss y (j_const o rc)) in
    JX8 (q0 y) (j_swap o j (q1 y)) (q2 y) (j_swap o j (q3 y))
        (q4 y) (j_swap o j (q5 y)) (q6 y) (j_swap o j (q7 y)).

  (** a sequence of round bodies: [(j, rc)] in execution order *)
  Definition j_rounds (y : jx8) (sched : list (nat * (N * N))) : jx8 :=
    fold_left (fun y jr => j_round (fst jr) (snd jr) y) sched y.

  Definition j_load8 (l : list N) : jx8 :=
    JX8 (j_load o (nth 0 l 0)) (j_load o (nth 1 l 0)) (j_load o (nth 2 l 0)) (j_load o (nth 3 l 0))
        (j_load o (nth 4 l 0)) (j_load o (nth 5 l 0)) (j_load o (nth 6 l 0)) (j_load o (nth 7 l 0)).
  Definition j_rep8 (y : jx8) : list N :=
    [j_rep1 o (q0 y); j_rep1 o (q1 y); j_rep1 o (q2 y); j_rep1 o (q3 y);
     j_rep1 o (q4 y); j_rep1 o (q5 y); j_rep1 o (q6 y); j_rep1 o (q7 y)].
  Definition j_rel8 (y : jx8) (l : list N) : Prop :=
    match l with
    | [x0; x1; x2; x3; x4; x5; x6; x7] =>
        jrel1 o (q0 y) x0 /\ jrel1 o (q1 y) x1 /\ jrel1 o (q2 y) x2 /\ jrel1 o (q3 y) x3 /\
        jrel1 o (q4 y) x4 /\ jrel1 o (q5 y) x5 /\ jrel1 o (q6 y) x6 /\ jrel1 o (q7 y) x7
    | _ => False
    end.
End JH.
Arguments JX8 {o}. Arguments q0 {o}. Arguments q1 {o}. Arguments q2 {o}. Arguments q3 {o}.
Arguments q4 {o}. Arguments q5 {o}. Arguments q6 {o}. Arguments q7 {o}.

Definition sched_ok (sched : list (nat * (N * N))) : Prop :=
  Forall (fun jr => (fst jr < 7)%nat /\ w128 (fst (snd jr)) /\ w128 (snd (snd jr))) sched.

Definition jh_rounds_on (o : jops) (l : list N) (sched : list (nat * (N * N))) : list N :=
  j_rep8 o (j_rounds o (j_load8 o l) sched).

(** * A Machine: the vector types the three algorithms use *)
Record machine := Machine {
  m_u32x4 : vops;       (* ChaCha narrow, BLAKE-224/256 *)
  m_u32x4x4 : vops;     (* ChaCha wide (four blocks) *)
  m_u64x4 : vops;       (* BLAKE-384/512 *)
  m_u128 : jops         (* JH *)
}.

Definition ks32 : list N := [7; 8; 12; 16; 20; 24; 25].
Definition ks64 : list N := [11; 16; 25; 32].

Definition machine_refines (m : machine) : Prop :=
  vops_refines 32 4 ks32 (m_u32x4 m) /\ vops_refines 32 16 ks32 (m_u32x4x4 m) /\
  vops_refines 64 4 ks64 (m_u64x4 m) /\ jops_refines (m_u128 m).

Definition lane_m : machine := Machine (lane_vops 32) (lane_vops 32) (lane_vops 64) lane_jops.
