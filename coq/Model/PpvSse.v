(** Model of ppv-lite86's 128-bit x86 types [u32x4_sse2], [u64x2_sse2],
    [u128x1_sse2] (x86_64/sse2.rs) as the code is written: the intrinsic
    sequence of every trait method, with the constants of the source, for each
    capability variant [s3] (YesS3/NoS3 = SSSE3 available) and [s4]
    (YesS4/NoS4 = SSE4.1 available). The [NI] parameter selects nothing in
    this file. Also the [u64x4_sse2 = x2<u64x2_sse2, G1>] methods that are
    written in sse2.rs rather than in soft.rs (Words4, Vec4<u64>,
    MultiLane<[u64;4]>).

    A vector value is its register: 16 bytes in memory order. Mirrors the tree
    after the repairs P2, P3, P4, P5, P14. *)
From Coq Require Import NArith List Bool Arith.
From CC Require Import Lib.Words Lib.Bytes Lib.ListX Model.Intrinsics.
Import ListNotations.
Local Open Scope N_scope.

(** * def_vec!: shared by the three types *)
Definition sse_unpack (st : reg) : reg := st.           (* Store<vec128_storage>::unpack *)
Definition sse_into_storage (x : reg) : reg := x.       (* From<$vec> for vec128_storage *)
Definition sse_default : reg := mm_setzero.
Definition sse_and (a b : reg) : reg := mm_and a b.
Definition sse_or (a b : reg) : reg := mm_or a b.
Definition sse_xor (a b : reg) : reg := mm_xor a b.
Definition sse_not (a : reg) : reg := sse_xor a (mm_set1_epi64x 0xffffffffffffffff).
Definition sse_andnot (a b : reg) : reg := mm_andnot a b.

(** * rotates *)
Definition rotr_32 (i : N) (x : reg) : reg :=
  mm_or (mm_srli_epi32 x i) (mm_slli_epi32 x (32 - i)).
Definition rotr_s3 (k0 k1 : N) (x : reg) : reg := mm_shuffle_epi8 x (mm_set_epi64x k0 k1).
Definition swap16_s2 (x : reg) : reg :=
  mm_shufflehi_epi16 (mm_shufflelo_epi16 x 0xb1) 0xb1.

(** [rotate_each_word_right<k>] of [u32x4_sse2<S3,..>]; [k] ranges over the
    method names 7, 8, 11, 12, 16, 20, 24, 25 *)
Definition u32x4_rotr (s3 : bool) (k : N) (x : reg) : reg :=
  if s3 then
    match k with
    | 7 => rotr_32 7 x
    | 8 => rotr_s3 0x0c0f0e0d080b0a09 0x0407060500030201 x
    | 11 => rotr_32 11 x
    | 12 => rotr_32 12 x
    | 16 => rotr_s3 0x0d0c0f0e09080b0a 0x0504070601000302 x
    | 20 => rotr_32 20 x
    | 24 => rotr_s3 0x0e0d0c0f0a09080b 0x0605040702010003 x
    | 25 => rotr_32 25 x
    | _ => x
    end
  else
    match k with
    | 7 => rotr_32 7 x
    | 8 => rotr_32 8 x
    | 11 => rotr_32 11 x
    | 12 => rotr_32 12 x
    | 16 => swap16_s2 x
    | 20 => rotr_32 20 x
    | 24 => rotr_32 24 x
    | 25 => rotr_32 25 x
    | _ => x
    end.

Definition rotr_64 (i : N) (x : reg) : reg :=
  mm_or (mm_srli_epi64 x i) (mm_slli_epi64 x (64 - i)).
(** [u64x2_sse2]: RotateEachWord32 (7..25) and RotateEachWord64 (32) *)
Definition u64x2_rotr (s3 : bool) (k : N) (x : reg) : reg :=
  if s3 then
    match k with
    | 7 => rotr_64 7 x
    | 8 => rotr_s3 0x080f0e0d0c0b0a09 0x0007060504030201 x
    | 11 => rotr_64 11 x
    | 12 => rotr_64 12 x
    | 16 => rotr_s3 0x09080f0e0d0c0b0a 0x0100070605040302 x
    | 20 => rotr_64 20 x
    | 24 => rotr_s3 0x0a09080f0e0d0c0b 0x0201000706050403 x
    | 25 => rotr_64 25 x
    | 32 => mm_shuffle_epi32 x 0xb1
    | _ => x
    end
  else
    match k with
    | 7 => rotr_64 7 x
    | 8 => rotr_64 8 x
    | 11 => rotr_64 11 x
    | 12 => rotr_64 12 x
    | 16 => rotr_64 16 x           (* after repair P2; was swap16_s2 *)
    | 20 => rotr_64 20 x
    | 24 => rotr_64 24 x
    | 25 => rotr_64 25 x
    | 32 => mm_shuffle_epi32 x 0xb1
    | _ => x
    end.

(** [rotr_128!] after repair P3: 64-bit shifts, the other half supplies the
    bits shifted in *)
Definition rotr_128 (i : N) (x : reg) : reg :=
  mm_or (mm_srli_epi64 x i) (mm_slli_epi64 (mm_shuffle_epi32 x 0x4e) (64 - i)).
Definition u128x1_rotr (k : N) (x : reg) : reg :=
  match k with
  | 7 | 8 | 11 | 12 | 16 | 20 | 24 | 25 | 32 => rotr_128 k x
  | _ => x
  end.

(** * MultiLane *)
Definition pack64 (lo hi : N) : N := N.lor lo (N.shiftl hi 32).  (* a as u64 | (b as u64) << 32 *)
Definition u32x4_to_lanes (s4 : bool) (x : reg) : list N :=
  let a := mm_cvtsi128_si64 x in
  let b := if s4 then mm_extract_epi64 x 1
           else mm_cvtsi128_si64 (mm_shuffle_epi32 x 0xee) in
  [wrap 32 a; wrap 32 (N.shiftr a 32); wrap 32 b; wrap 32 (N.shiftr b 32)].
Definition u32x4_from_lanes (s4 : bool) (xs : list N) : reg :=
  let x := pack64 (nth 0 xs 0) (nth 1 xs 0) in
  let y := pack64 (nth 2 xs 0) (nth 3 xs 0) in
  if s4 then mm_insert_epi64 (mm_cvtsi64_si128 x) y 1
  else mm_or (mm_cvtsi64_si128 x) (mm_slli_si128 (mm_cvtsi64_si128 y) 8).
Definition u64x2_to_lanes (s4 : bool) (x : reg) : list N :=
  [mm_cvtsi128_si64 x;
   if s4 then mm_extract_epi64 x 1 else mm_cvtsi128_si64 (mm_srli_si128 x 8)].
Definition u64x2_from_lanes (s4 : bool) (xs : list N) : reg :=
  if s4 then mm_insert_epi64 (mm_cvtsi64_si128 (nth 0 xs 0)) (nth 1 xs 0) 1
  else mm_or (mm_cvtsi64_si128 (nth 0 xs 0)) (mm_slli_si128 (mm_cvtsi64_si128 (nth 1 xs 0)) 8).
(** after repair P4: through the [u128x1] field of [vec128_storage]
    (little-endian host) *)
Definition u128x1_to_lanes (x : reg) : list N := [le_join x].
Definition u128x1_from_lanes (xs : list N) : reg := le_split 16 (nth 0 xs 0).

(** [UnsafeFrom<[u32;4]>], [UnsafeFrom<[u64;2]>] *)
Definition u32x4_unsafe_from (xs : list N) : reg :=
  mm_set_epi32 (nth 3 xs 0) (nth 2 xs 0) (nth 1 xs 0) (nth 0 xs 0).
Definition u64x2_unsafe_from (xs : list N) : reg := mm_set_epi64x (nth 1 xs 0) (nth 0 xs 0).

(** * add *)
Definition u32x4_add (a b : reg) : reg := mm_add_epi32 a b.
Definition u64x2_add (a b : reg) : reg := mm_add_epi64 a b.

(** * Vec4<u32> *)
Definition u32x4_extract (s4 : bool) (x : reg) (i : N) : outcome N :=
  if i <? 4 then Ok (nth (N.to_nat i) (u32x4_to_lanes s4 x) 0) else Panic.  (* index out of bounds *)
Definition u32x4_insert (s4 : bool) (x : reg) (v : N) (i : N) : outcome reg :=
  if s4 then
    match i with
    | 0 => Ok (mm_insert_epi32 x v 0)
    | 1 => Ok (mm_insert_epi32 x v 1)
    | 2 => Ok (mm_insert_epi32 x v 2)
    | 3 => Ok (mm_insert_epi32 x v 3)
    | _ => Panic                                  (* unreachable!() *)
    end
  else
    match i with
    | 0 => Ok (mm_or (mm_andnot (mm_cvtsi32_si128 0xffffffff) x) (mm_cvtsi32_si128 v))
    | 1 => let x := mm_shuffle_epi32 x 0x78 in
           let x := mm_slli_si128 x 4 in
           let x := mm_or x (mm_cvtsi32_si128 v) in
           Ok (mm_shuffle_epi32 x 0xe1)
    | 2 => let x := mm_shuffle_epi32 x 0xb4 in
           let x := mm_slli_si128 x 4 in
           let x := mm_or x (mm_cvtsi32_si128 v) in
           Ok (mm_shuffle_epi32 x 0xc9)
    | 3 => let x := mm_slli_si128 x 4 in
           let x := mm_or x (mm_cvtsi32_si128 v) in
           Ok (mm_shuffle_epi32 x 0x39)
    | _ => Panic
    end.

(** * Words4 / LaneWords4 for u32x4 (LaneWords4 forwards to Words4) *)
Definition u32x4_shuffle2301 (x : reg) : reg := mm_shuffle_epi32 x 0x4e.
Definition u32x4_shuffle1230 (x : reg) : reg := mm_shuffle_epi32 x 0x93.
Definition u32x4_shuffle3012 (x : reg) : reg := mm_shuffle_epi32 x 0x39.

(** * Vec2<u64> *)
Definition u64x2_extract (s4 : bool) (x : reg) (i : N) : outcome N :=
  match i with
  | 0 => Ok (mm_cvtsi128_si64 x)
  | 1 => Ok (if s4 then mm_extract_epi64 x 1 else mm_cvtsi128_si64 (mm_shuffle_epi32 x 0xee))
  | _ => Panic
  end.
Definition u64x2_insert (s4 : bool) (x : reg) (v : N) (i : N) : outcome reg :=
  match i with
  | 0 => Ok (if s4 then mm_insert_epi64 x v 0
             else mm_or (mm_andnot (mm_cvtsi64_si128 0xffffffffffffffff) x) (mm_cvtsi64_si128 v))
  | 1 => Ok (if s4 then mm_insert_epi64 x v 1
             else mm_or (mm_move_epi64 x) (mm_slli_si128 (mm_cvtsi64_si128 v) 8))
  | _ => Panic
  end.

(** * BSwap *)
Definition bswap32_s2 (x : reg) : reg :=
  let y := mm_unpacklo_epi8 x mm_setzero in
  let y := mm_shufflehi_epi16 y 0x1b in
  let y := mm_shufflelo_epi16 y 0x1b in
  let z := mm_unpackhi_epi8 x mm_setzero in
  let z := mm_shufflehi_epi16 z 0x1b in
  let z := mm_shufflelo_epi16 z 0x1b in
  mm_packus_epi16 y z.
Definition u32x4_bswap (s3 : bool) (x : reg) : reg :=
  if s3 then mm_shuffle_epi8 x (mm_set_epi64x 0x0c0d0e0f08090a0b 0x0405060700010203)
  else bswap32_s2 x.
Definition u64x2_bswap (s3 : bool) (x : reg) : reg :=
  if s3 then mm_shuffle_epi8 x (mm_set_epi64x 0x08090a0b0c0d0e0f 0x0001020304050607)
  else bswap32_s2 (mm_shuffle_epi32 x 0xb1).
(** after repairs P14 (S3 constant) and P5 (NoS3 implemented) *)
Definition u128x1_bswap (s3 : bool) (x : reg) : reg :=
  if s3 then mm_shuffle_epi8 x (mm_set_epi64x 0x0001020304050607 0x08090a0b0c0d0e0f)
  else bswap32_s2 (mm_shuffle_epi32 x 0x1b).

(** * Swap64 for u128x1 *)
Definition swapi (x : reg) (i : N) (k : N) : reg :=
  let kk := mm_set1_epi8 k in
  mm_or (mm_srli_epi16 (mm_and x kk) i) (mm_and (mm_slli_epi16 x i) kk).
Definition u128x1_swap (s3 : bool) (n : N) (x : reg) : reg :=
  match n with
  | 1 => swapi x 1 0xaa
  | 2 => swapi x 2 0xcc
  | 4 => swapi x 4 0xf0
  | 8 => if s3 then mm_shuffle_epi8 x (mm_set_epi64x 0x0e0f0c0d0a0b0809 0x0607040502030001)
         else mm_or (mm_slli_epi16 x 8) (mm_srli_epi16 x 8)
  | 16 => if s3 then mm_shuffle_epi8 x (mm_set_epi64x 0x0d0c0f0e09080b0a 0x0504070601000302)
          else swap16_s2 x
  | 32 => mm_shuffle_epi32 x 0xb1
  | 64 => mm_shuffle_epi32 x 0x4e
  | _ => x
  end.

(** * StoreBytes (def_vec!): [assert_eq!(len, 16)], unaligned load/store, bswap for BE *)
Definition sse_read_le (bs : list N) : outcome reg :=
  if Nat.eqb (length bs) 16 then Ok bs else Panic.
Definition sse_read_be (bswap : reg -> reg) (bs : list N) : outcome reg :=
  if Nat.eqb (length bs) 16 then Ok (bswap bs) else Panic.
(** [out] is the destination slice, of which only the length matters *)
Definition sse_write_le (x : reg) (outlen : nat) : outcome (list N) :=
  if Nat.eqb outlen 16 then Ok x else Panic.
Definition sse_write_be (bswap : reg -> reg) (x : reg) (outlen : nat) : outcome (list N) :=
  if Nat.eqb outlen 16 then Ok (bswap x) else Panic.

(** [PartialEq] ([eq128_s2]) *)
Definition eq128_s2 (x y : reg) : bool :=
  let q := mm_cmpeq_epi32 x y in
  let p := mm_cvtsi128_si64 (mm_srli_si128 q 8) in
  let q := mm_cvtsi128_si64 q in
  N.land p q =? 0xffffffffffffffff.

(** * u64x4_sse2 = x2<u64x2_sse2, G1>: the methods written in sse2.rs.
    The value is the pair of registers (lane 0, lane 1). *)
Definition u64x4_shuffle2301 (v : reg * reg) : reg * reg := (snd v, fst v).
Definition u64x4_shuffle3012 (s3 : bool) (v : reg * reg) : reg * reg :=
  let (x0, x1) := v in
  if s3 then (mm_alignr_epi8 x1 x0 8, mm_alignr_epi8 x0 x1 8)
  else
    let a := mm_srli_si128 x0 8 in
    let b := mm_slli_si128 x0 8 in
    let c := mm_srli_si128 x1 8 in
    let d := mm_slli_si128 x1 8 in
    let da := mm_or d a in
    let bc := mm_or b c in
    (da, bc).
Definition u64x4_shuffle1230 (s3 : bool) (v : reg * reg) : reg * reg :=
  let (x0, x1) := v in
  if s3 then (mm_alignr_epi8 x0 x1 8, mm_alignr_epi8 x1 x0 8)
  else
    let a := mm_srli_si128 x0 8 in
    let b := mm_slli_si128 x0 8 in
    let c := mm_srli_si128 x1 8 in
    let d := mm_slli_si128 x1 8 in
    let da := mm_or d a in
    let bc := mm_or b c in
    (bc, da).
Definition u64x4_extract (s4 : bool) (v : reg * reg) (i : N) : outcome N :=
  match i with
  | 0 => u64x2_extract s4 (fst v) 0
  | 1 => u64x2_extract s4 (fst v) 1
  | 2 => u64x2_extract s4 (snd v) 0
  | 3 => u64x2_extract s4 (snd v) 1
  | _ => Panic
  end.
Definition u64x4_insert (s4 : bool) (v : reg * reg) (w : N) (i : N) : outcome (reg * reg) :=
  match i with
  | 0 => omap (fun r => (r, snd v)) (u64x2_insert s4 (fst v) w 0)
  | 1 => omap (fun r => (r, snd v)) (u64x2_insert s4 (fst v) w 1)
  | 2 => omap (fun r => (fst v, r)) (u64x2_insert s4 (snd v) w 0)
  | 3 => omap (fun r => (fst v, r)) (u64x2_insert s4 (snd v) w 1)
  | _ => Panic
  end.
Definition u64x4_to_lanes (s4 : bool) (v : reg * reg) : list N :=
  u64x2_to_lanes s4 (fst v) ++ u64x2_to_lanes s4 (snd v).
Definition u64x4_from_lanes (s4 : bool) (xs : list N) : reg * reg :=
  (u64x2_from_lanes s4 [nth 0 xs 0; nth 1 xs 0], u64x2_from_lanes s4 [nth 2 xs 0; nth 3 xs 0]).

(** * u32x4x4_sse2 = x4<u32x4_sse2>: [Vector<[u32;16]>::to_scalars] is [transmute!] of the
    four registers in order *)
Definition sse_x4_to_scalars (v : list reg) : list N := words_le 4 (concat v).
(** [impl_into!] / [impl_into_x!]: u128x1 -> u32x4 / u64x2 (and the x2, x4 forms) keep the register *)
Definition sse_into_other (x : reg) : reg := x.

(** * soft.rs wrappers [x2<W,G>] / [x4<W>] as the x86 types use them: a wide value is the list of
    its elements (element 0 first = memory order); every method applies the element's method to
    each element. (Executable copy local to the x86 model; the generic forwarding of soft.rs is
    modelled and proved by the portable part, Model/PpvSoft.v, Props/C12g.v, C13g.v.) *)
Section Soft.
  Context {W : Type}.

  (** [fwd_unop_x2!]/[fwd_unop_x4!], [Not], [BSwap], [Swap64], [RotateEachWord*], [LaneWords4] *)
  Definition xn_unop (f : W -> W) (v : list W) : list W := map f v.
  (** [fwd_binop_x2!]/[fwd_binop_x4!] (and the [*_assign] forms, which update each element) *)
  Definition xn_binop (f : W -> W -> W) (a b : list W) : list W := map2 f a b.

  (** [Vec2]/[Vec4]: [self.0[i as usize]] — an index past the array panics *)
  Definition xn_extract (v : list W) (i : N) : outcome W :=
    if i <? N.of_nat (length v) then
      match nth_error v (N.to_nat i) with Some w => Ok w | None => Panic end
    else Panic.
  Definition xn_insert (v : list W) (w : W) (i : N) : outcome (list W) :=
    if i <? N.of_nat (length v) then Ok (upd (N.to_nat i) w v) else Panic.

  (** [MultiLane<[W; n]>], [UnsafeFrom<[W; n]>] *)
  Definition xn_to_lanes (v : list W) : list W := v.
  Definition xn_from_lanes (l : list W) : list W := l.

  (** [Vec4Ext::transpose4] for [x4<W>] *)
  Definition x4_transpose4 (d : W) (a b c e : list W) : list W * list W * list W * list W :=
    ([nth 0 a d; nth 0 b d; nth 0 c d; nth 0 e d],
     [nth 1 a d; nth 1 b d; nth 1 c d; nth 1 e d],
     [nth 2 a d; nth 2 b d; nth 2 c d; nth 2 e d],
     [nth 3 a d; nth 3 b d; nth 3 c d; nth 3 e d]).

  (** [StoreBytes for x2]: the slice is split at [len / 2] *)
  Definition x2_read (rd : list N -> outcome W) (bs : list N) : outcome (list W) :=
    let h := Nat.div (length bs) 2 in
    obind (rd (firstn h bs)) (fun a =>
    obind (rd (skipn h bs)) (fun b => Ok [a; b])).
  Definition x2_write (wr : W -> nat -> outcome (list N)) (d : W) (v : list W) (outlen : nat)
    : outcome (list N) :=
    let h := Nat.div outlen 2 in
    obind (wr (nth 0 v d) h) (fun a =>
    obind (wr (nth 1 v d) (outlen - h)%nat) (fun b => Ok (a ++ b))).
  (** [StoreBytes for x4]: [n = len / 4], slices [..n], [n..2n], [2n..3n], [3n..] *)
  Definition x4_read (rd : list N -> outcome W) (bs : list N) : outcome (list W) :=
    let n := Nat.div (length bs) 4 in
    obind (rd (firstn n bs)) (fun a =>
    obind (rd (firstn n (skipn n bs))) (fun b =>
    obind (rd (firstn n (skipn (2 * n) bs))) (fun c =>
    obind (rd (skipn (3 * n) bs)) (fun e => Ok [a; b; c; e])))).
  Definition x4_write (wr : W -> nat -> outcome (list N)) (d : W) (v : list W) (outlen : nat)
    : outcome (list N) :=
    let n := Nat.div outlen 4 in
    obind (wr (nth 0 v d) n) (fun a =>
    obind (wr (nth 1 v d) n) (fun b =>
    obind (wr (nth 2 v d) n) (fun c =>
    obind (wr (nth 3 v d) (outlen - 3 * n)%nat) (fun e => Ok (a ++ b ++ c ++ e))))).
End Soft.

(** storage: [vec256_storage::split128]/[new128] and the 512-bit forms; the
    union is the concatenation of its 128-bit parts in memory order *)
Fixpoint split_regs (n : nat) (k : nat) (bs : list N) : list reg :=
  match n with
  | O => []
  | S n' => firstn k bs :: split_regs n' k (skipn k bs)
  end.
(** [Store<vec256_storage> for x2<W,G>] / [Store<vec512_storage> for x4<W>] with
    [W::unpack] the identity on 16 bytes *)
Definition x2_unpack (st : list N) : list reg := split_regs 2 16 st.
Definition x4_unpack (st : list N) : list reg := split_regs 4 16 st.
(** [From<x2<W,G>> for vec256_storage], [From<x4<W>> for vec512_storage] *)
Definition xn_into_storage (v : list reg) : list N := concat v.
